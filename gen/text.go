package main

// Fact extractors (go/ast, stdlib only) for C28 / C29 / C30:
//
//	MerkleConsts  protocol/bc/types/merkle.go: flag constants (iota order), hash prefixes
//	TextConsts    common/bech32/bech32.go: charset, gen; consensus/general.go: the three
//	              networks' Bech32HRPSegwit; encoding/base32: encodeStd, StdPadding;
//	              wallet/mnemonic: checksum mask / shift tables, per word list: number of
//	              words, all distinct, none empty or containing white space
//	KDUnroll      crypto/ed25519/chainkd/chainkd.go: the unrolled ripple-carry statements of
//	              nonhardenedChild follow the pattern for i = 0..31 in order; the statements of
//	              the two prune functions as (index, op, constant) lists
//
// Each fails loudly on a source shape it does not understand.

import (
	"fmt"
	"go/ast"
	"go/parser"
	"go/token"
	"path/filepath"
	"sort"
	"strconv"
	"strings"
	"unicode"
)

func txtParse(repo, rel string) (*ast.File, error) {
	return parser.ParseFile(token.NewFileSet(), filepath.Join(repo, rel), nil, 0)
}

func txtBytesLit(b []byte) string {
	s := make([]string, len(b))
	for i, x := range b {
		s[i] = strconv.Itoa(int(x))
	}
	return "[" + strings.Join(s, ", ") + "]"
}

// the value spec of a top-level const/var by name
func txtValue(f *ast.File, name string) (ast.Expr, error) {
	for _, d := range f.Decls {
		g, ok := d.(*ast.GenDecl)
		if !ok {
			continue
		}
		for _, sp := range g.Specs {
			vs, ok := sp.(*ast.ValueSpec)
			if !ok {
				continue
			}
			for i, n := range vs.Names {
				if n.Name == name {
					if i >= len(vs.Values) {
						return nil, fmt.Errorf("%s has no value", name)
					}
					return vs.Values[i], nil
				}
			}
		}
	}
	return nil, fmt.Errorf("%s not found", name)
}

func txtString(e ast.Expr) (string, error) {
	l, ok := e.(*ast.BasicLit)
	if !ok || l.Kind != token.STRING {
		return "", fmt.Errorf("not a string literal")
	}
	return strconv.Unquote(l.Value)
}

func txtInt(e ast.Expr) (int64, error) {
	if p, ok := e.(*ast.ParenExpr); ok {
		return txtInt(p.X)
	}
	l, ok := e.(*ast.BasicLit)
	if !ok {
		return 0, fmt.Errorf("not a literal")
	}
	switch l.Kind {
	case token.INT:
		return strconv.ParseInt(l.Value, 0, 64)
	case token.CHAR:
		s, err := strconv.Unquote(l.Value)
		if err != nil || len(s) != 1 {
			return 0, fmt.Errorf("char literal %s", l.Value)
		}
		return int64(s[0]), nil
	}
	return 0, fmt.Errorf("not an int literal")
}

func txtFunc(f *ast.File, recv, name string) *ast.FuncDecl {
	for _, d := range f.Decls {
		fd, ok := d.(*ast.FuncDecl)
		if !ok || fd.Name.Name != name {
			continue
		}
		r := ""
		if fd.Recv != nil && len(fd.Recv.List) == 1 {
			switch t := fd.Recv.List[0].Type.(type) {
			case *ast.Ident:
				r = t.Name
			case *ast.StarExpr:
				if id, ok := t.X.(*ast.Ident); ok {
					r = id.Name
				}
			}
		}
		if r == recv {
			return fd
		}
	}
	return nil
}

// ---------------------------------------------------------------------------------------

func genMerkleConsts(repo string) (string, error) {
	f, err := txtParse(repo, "protocol/bc/types/merkle.go")
	if err != nil {
		return "", err
	}
	// the const block with iota: names in order
	var flags []string
	for _, d := range f.Decls {
		g, ok := d.(*ast.GenDecl)
		if !ok || g.Tok != token.CONST {
			continue
		}
		for i, sp := range g.Specs {
			vs := sp.(*ast.ValueSpec)
			if i == 0 {
				if len(vs.Values) != 1 {
					return "", fmt.Errorf("first flag constant is not `= iota`")
				}
				id, ok := vs.Values[0].(*ast.Ident)
				if !ok || id.Name != "iota" {
					return "", fmt.Errorf("first flag constant is not `= iota`")
				}
			} else if len(vs.Values) != 0 {
				return "", fmt.Errorf("flag constant %s has an explicit value", vs.Names[0].Name)
			}
			if len(vs.Names) != 1 {
				return "", fmt.Errorf("several names in one flag spec")
			}
			flags = append(flags, vs.Names[0].Name)
		}
	}
	idx := map[string]int{}
	for i, n := range flags {
		idx[n] = i
	}
	for _, n := range []string{"FlagAssist", "FlagTxParent", "FlagTxLeaf"} {
		if _, ok := idx[n]; !ok {
			return "", fmt.Errorf("flag constant %s not found", n)
		}
	}
	prefix := func(name string) ([]byte, error) {
		e, err := txtValue(f, name)
		if err != nil {
			return nil, err
		}
		cl, ok := e.(*ast.CompositeLit)
		if !ok {
			return nil, fmt.Errorf("%s is not a composite literal", name)
		}
		var out []byte
		for _, el := range cl.Elts {
			v, err := txtInt(el)
			if err != nil || v < 0 || v > 255 {
				return nil, fmt.Errorf("%s: element is not a byte literal", name)
			}
			out = append(out, byte(v))
		}
		return out, nil
	}
	lp, err := prefix("leafPrefix")
	if err != nil {
		return "", err
	}
	ip, err := prefix("interiorPrefix")
	if err != nil {
		return "", err
	}
	// every package-level `var` of the file (the model has no state between calls)
	var pkgVars []string
	for _, d := range f.Decls {
		g, ok := d.(*ast.GenDecl)
		if !ok || g.Tok != token.VAR {
			continue
		}
		for _, sp := range g.Specs {
			for _, n := range sp.(*ast.ValueSpec).Names {
				pkgVars = append(pkgVars, fmt.Sprintf("%q", n.Name))
			}
		}
	}
	var b strings.Builder
	b.WriteString("/- GENERATED by /verif/gen from protocol/bc/types/merkle.go — do not edit -/\nnamespace BytomModel.Gen.MerkleConsts\n")
	fmt.Fprintf(&b, "/-- names of all package-level variables declared in merkle.go, in source order -/\ndef packageVars : List String := [%s]\n", strings.Join(pkgVars, ", "))
	fmt.Fprintf(&b, "def flagAssist : Nat := %d\ndef flagTxParent : Nat := %d\ndef flagTxLeaf : Nat := %d\n", idx["FlagAssist"], idx["FlagTxParent"], idx["FlagTxLeaf"])
	fmt.Fprintf(&b, "def leafPrefix : List Nat := %s\ndef interiorPrefix : List Nat := %s\n", txtBytesLit(lp), txtBytesLit(ip))
	b.WriteString("end BytomModel.Gen.MerkleConsts\n")
	return b.String(), nil
}

// ---------------------------------------------------------------------------------------

func genTextConsts(repo string) (string, error) {
	var b strings.Builder
	b.WriteString("/- GENERATED by /verif/gen from common/bech32, consensus, encoding/base32, wallet/mnemonic — do not edit -/\nnamespace BytomModel.Gen.TextConsts\n")
	// bech32
	f, err := txtParse(repo, "common/bech32/bech32.go")
	if err != nil {
		return "", err
	}
	e, err := txtValue(f, "charset")
	if err != nil {
		return "", err
	}
	cs, err := txtString(e)
	if err != nil {
		return "", fmt.Errorf("charset: %v", err)
	}
	fmt.Fprintf(&b, "def charset : List Nat := %s\n", txtBytesLit([]byte(cs)))
	e, err = txtValue(f, "gen")
	if err != nil {
		return "", err
	}
	cl, ok := e.(*ast.CompositeLit)
	if !ok {
		return "", fmt.Errorf("gen is not a composite literal")
	}
	var gens []string
	for _, el := range cl.Elts {
		v, err := txtInt(el)
		if err != nil {
			return "", fmt.Errorf("gen: %v", err)
		}
		gens = append(gens, strconv.FormatInt(v, 10))
	}
	fmt.Fprintf(&b, "def gen : List Nat := [%s]\n", strings.Join(gens, ", "))
	// network prefixes
	f, err = txtParse(repo, "consensus/general.go")
	if err != nil {
		return "", err
	}
	for _, n := range []struct{ v, d string }{{"MainNetParams", "hrpMainnet"}, {"TestNetParams", "hrpTestnet"}, {"SoloNetParams", "hrpSolonet"}} {
		e, err := txtValue(f, n.v)
		if err != nil {
			return "", err
		}
		cl, ok := e.(*ast.CompositeLit)
		if !ok {
			return "", fmt.Errorf("%s is not a composite literal", n.v)
		}
		found := false
		for _, el := range cl.Elts {
			kv, ok := el.(*ast.KeyValueExpr)
			if !ok {
				continue
			}
			if id, ok := kv.Key.(*ast.Ident); ok && id.Name == "Bech32HRPSegwit" {
				s, err := txtString(kv.Value)
				if err != nil {
					return "", fmt.Errorf("%s.Bech32HRPSegwit: %v", n.v, err)
				}
				fmt.Fprintf(&b, "def %s : List Nat := %s\n", n.d, txtBytesLit([]byte(s)))
				found = true
			}
		}
		if !found {
			return "", fmt.Errorf("%s has no Bech32HRPSegwit", n.v)
		}
	}
	// base32
	f, err = txtParse(repo, "encoding/base32/base32.go")
	if err != nil {
		return "", err
	}
	e, err = txtValue(f, "encodeStd")
	if err != nil {
		return "", err
	}
	es, err := txtString(e)
	if err != nil {
		return "", fmt.Errorf("encodeStd: %v", err)
	}
	fmt.Fprintf(&b, "def base32Alphabet : List Nat := %s\n", txtBytesLit([]byte(es)))
	e, err = txtValue(f, "StdPadding")
	if err != nil {
		return "", err
	}
	pc, err := txtInt(e)
	if err != nil {
		return "", fmt.Errorf("StdPadding: %v", err)
	}
	fmt.Fprintf(&b, "def base32Pad : Nat := %d\n", pc)
	// mnemonic tables: map[int]*big.Int{ k: big.NewInt(v), … }
	f, err = txtParse(repo, "wallet/mnemonic/mnemonic.go")
	if err != nil {
		return "", err
	}
	table := func(name string) (string, error) {
		e, err := txtValue(f, name)
		if err != nil {
			return "", err
		}
		cl, ok := e.(*ast.CompositeLit)
		if !ok {
			return "", fmt.Errorf("%s is not a composite literal", name)
		}
		var ps []string
		for _, el := range cl.Elts {
			kv, ok := el.(*ast.KeyValueExpr)
			if !ok {
				return "", fmt.Errorf("%s: element without key", name)
			}
			k, err := txtInt(kv.Key)
			if err != nil {
				return "", fmt.Errorf("%s: key: %v", name, err)
			}
			call, ok := kv.Value.(*ast.CallExpr)
			if !ok || len(call.Args) != 1 {
				return "", fmt.Errorf("%s: value is not big.NewInt(k)", name)
			}
			if se, ok := call.Fun.(*ast.SelectorExpr); !ok || se.Sel.Name != "NewInt" {
				return "", fmt.Errorf("%s: value is not big.NewInt(k)", name)
			}
			v, err := txtInt(call.Args[0])
			if err != nil {
				return "", fmt.Errorf("%s: value: %v", name, err)
			}
			ps = append(ps, fmt.Sprintf("(%d, %d)", k, v))
		}
		sort.Strings(ps)
		return "[" + strings.Join(ps, ", ") + "]", nil
	}
	m, err := table("wordLengthChecksumMasksMapping")
	if err != nil {
		return "", err
	}
	s, err := table("wordLengthChecksumShiftMapping")
	if err != nil {
		return "", err
	}
	fmt.Fprintf(&b, "def checksumMasks : List (Nat × Nat) := %s\ndef checksumShifts : List (Nat × Nat) := %s\n", m, s)
	// word lists: `var X = strings.Split(strings.TrimSpace(x), "\n")` and `var x = `raw``
	langs := []struct{ file, exported, raw string }{
		{"chinese_simplified.go", "ChineseSimplified", "chineseSimplified"},
		{"chinese_traditional.go", "ChineseTraditional", "chineseTraditional"},
		{"english.go", "English", "english"}, {"italian.go", "Italian", "italian"},
		{"japanese.go", "Japanese", "japanese"}, {"korean.go", "Korean", "korean"}, {"spanish.go", "Spanish", "spanish"},
	}
	var facts []string
	for _, l := range langs {
		wf, err := txtParse(repo, "wallet/mnemonic/wordlists/"+l.file)
		if err != nil {
			return "", err
		}
		e, err := txtValue(wf, l.exported)
		if err != nil {
			return "", err
		}
		// shape check: strings.Split(strings.TrimSpace(<raw>), "\n")
		call, ok := e.(*ast.CallExpr)
		if !ok || len(call.Args) != 2 {
			return "", fmt.Errorf("%s: not strings.Split(strings.TrimSpace(x), \"\\n\")", l.exported)
		}
		sep, err := txtString(call.Args[1])
		if err != nil || sep != "\n" {
			return "", fmt.Errorf("%s: separator is not \"\\n\"", l.exported)
		}
		inner, ok := call.Args[0].(*ast.CallExpr)
		if !ok || len(inner.Args) != 1 {
			return "", fmt.Errorf("%s: not strings.Split(strings.TrimSpace(x), …)", l.exported)
		}
		if se, ok := inner.Fun.(*ast.SelectorExpr); !ok || se.Sel.Name != "TrimSpace" {
			return "", fmt.Errorf("%s: inner call is not strings.TrimSpace", l.exported)
		}
		id, ok := inner.Args[0].(*ast.Ident)
		if !ok {
			return "", fmt.Errorf("%s: argument is not an identifier", l.exported)
		}
		re, err := txtValue(wf, id.Name)
		if err != nil {
			return "", err
		}
		raw, err := txtString(re)
		if err != nil {
			return "", fmt.Errorf("%s: %v", id.Name, err)
		}
		words := strings.Split(strings.TrimSpace(raw), "\n")
		seen := map[string]bool{}
		distinct, clean := true, true
		for _, w := range words {
			if seen[w] {
				distinct = false
			}
			seen[w] = true
			if w == "" {
				clean = false
			}
			for _, r := range w {
				if unicode.IsSpace(r) {
					clean = false
				}
			}
		}
		facts = append(facts, fmt.Sprintf("(\"%s\", %d, %v, %v)", l.exported, len(words), distinct, clean))
	}
	fmt.Fprintf(&b, "/-- per word list: name, number of words, all distinct, none empty / containing white space -/\ndef wordlists : List (String × Nat × Bool × Bool) := [%s]\n", strings.Join(facts, ", "))
	b.WriteString("end BytomModel.Gen.TextConsts\n")
	return b.String(), nil
}

// ---------------------------------------------------------------------------------------

// s[i] OP= k   →  (i, op, k)
func txtMaskStmt(st ast.Stmt, slice string) (string, error) {
	as, ok := st.(*ast.AssignStmt)
	if !ok || len(as.Lhs) != 1 || len(as.Rhs) != 1 {
		return "", fmt.Errorf("not a single assignment")
	}
	ix, ok := as.Lhs[0].(*ast.IndexExpr)
	if !ok {
		return "", fmt.Errorf("left side is not an index expression")
	}
	if id, ok := ix.X.(*ast.Ident); !ok || id.Name != slice {
		return "", fmt.Errorf("left side does not index %s", slice)
	}
	i, err := txtInt(ix.Index)
	if err != nil {
		return "", err
	}
	k, err := txtInt(as.Rhs[0])
	if err != nil {
		return "", err
	}
	var op string
	switch as.Tok {
	case token.AND_ASSIGN:
		op = "and"
	case token.OR_ASSIGN:
		op = "or"
	case token.ASSIGN:
		op = "set"
	default:
		return "", fmt.Errorf("operator %v", as.Tok)
	}
	return fmt.Sprintf("(%d, \"%s\", %d)", i, op, k), nil
}

func txtExprString(e ast.Expr) string {
	switch x := e.(type) {
	case *ast.Ident:
		return x.Name
	case *ast.BasicLit:
		return x.Value
	case *ast.ParenExpr:
		return "(" + txtExprString(x.X) + ")"
	case *ast.BinaryExpr:
		return txtExprString(x.X) + x.Op.String() + txtExprString(x.Y)
	case *ast.CallExpr:
		var a []string
		for _, y := range x.Args {
			a = append(a, txtExprString(y))
		}
		return txtExprString(x.Fun) + "(" + strings.Join(a, ",") + ")"
	case *ast.IndexExpr:
		return txtExprString(x.X) + "[" + txtExprString(x.Index) + "]"
	}
	return fmt.Sprintf("<%T>", e)
}

func genKDUnroll(repo string) (string, error) {
	f, err := txtParse(repo, "crypto/ed25519/chainkd/chainkd.go")
	if err != nil {
		return "", err
	}
	var b strings.Builder
	b.WriteString("/- GENERATED by /verif/gen from crypto/ed25519/chainkd/chainkd.go — do not edit -/\nnamespace BytomModel.Gen.KDUnroll\n")
	for _, p := range []struct{ fn, arg, def string }{{"pruneRootScalar", "s", "pruneRootOps"}, {"pruneIntermediateScalar", "f", "pruneIntermediateOps"}} {
		fd := txtFunc(f, "", p.fn)
		if fd == nil {
			return "", fmt.Errorf("%s not found", p.fn)
		}
		var ops []string
		for _, st := range fd.Body.List {
			o, err := txtMaskStmt(st, p.arg)
			if err != nil {
				return "", fmt.Errorf("%s: %v", p.fn, err)
			}
			ops = append(ops, o)
		}
		fmt.Fprintf(&b, "def %s : List (Nat × String × Nat) := [%s]\n", p.def, strings.Join(ops, ", "))
	}
	// package-level variables of the two files (signing and derivation keep no state between calls)
	for _, pf := range []struct{ file, def string }{{"crypto/ed25519/chainkd/chainkd.go", "chainkdPackageVars"}, {"crypto/ed25519/chainkd/expanded_key.go", "expandedKeyPackageVars"}} {
		ff, err := txtParse(repo, pf.file)
		if err != nil {
			return "", err
		}
		var vars []string
		for _, d := range ff.Decls {
			g, ok := d.(*ast.GenDecl)
			if !ok || g.Tok != token.VAR {
				continue
			}
			for _, sp := range g.Specs {
				for _, n := range sp.(*ast.ValueSpec).Names {
					vars = append(vars, fmt.Sprintf("%q", n.Name))
				}
			}
		}
		fmt.Fprintf(&b, "/-- names of all package-level variables declared in %s -/\ndef %s : List String := [%s]\n", pf.file, pf.def, strings.Join(vars, ", "))
	}
	// nonhardenedChild: after `sum := int(0)` come pairs
	//   sum = int(xprv[i]) + int(res[i]) + (sum >> 8)
	//   res[i] = byte(sum & 0xff)
	// for i = 0,1,2,… and then `if (sum >> 8) != 0 { panic(…) }`
	fd := txtFunc(f, "XPrv", "nonhardenedChild")
	if fd == nil {
		return "", fmt.Errorf("nonhardenedChild not found")
	}
	var idx []string
	state := 0 // 0 before `sum := int(0)`, 1 expecting sum=…, 2 expecting res[i]=…, 3 after the if
	cur := -1
	for _, st := range fd.Body.List {
		switch state {
		case 0:
			if as, ok := st.(*ast.AssignStmt); ok && as.Tok == token.DEFINE && len(as.Lhs) == 1 {
				if id, ok := as.Lhs[0].(*ast.Ident); ok && id.Name == "sum" {
					if txtExprString(as.Rhs[0]) != "int(0)" {
						return "", fmt.Errorf("sum is not initialised with int(0)")
					}
					state = 1
				}
			}
		case 1:
			if is, ok := st.(*ast.IfStmt); ok {
				if txtExprString(is.Cond) != "(sum>>8)!=0" {
					return "", fmt.Errorf("final check is `%s`, expected (sum>>8)!=0", txtExprString(is.Cond))
				}
				if len(is.Body.List) != 1 {
					return "", fmt.Errorf("final check body is not a single panic")
				}
				es, ok := is.Body.List[0].(*ast.ExprStmt)
				if !ok || !strings.HasPrefix(txtExprString(es.X), "panic(") {
					return "", fmt.Errorf("final check body is not a panic")
				}
				state = 3
				continue
			}
			as, ok := st.(*ast.AssignStmt)
			if !ok || as.Tok != token.ASSIGN || len(as.Lhs) != 1 || txtExprString(as.Lhs[0]) != "sum" {
				return "", fmt.Errorf("unexpected statement in the unrolled addition: %T", st)
			}
			cur++
			want := fmt.Sprintf("int(xprv[%d])+int(res[%d])+(sum>>8)", cur, cur)
			if got := txtExprString(as.Rhs[0]); got != want {
				return "", fmt.Errorf("step %d: `sum = %s`, expected `%s`", cur, got, want)
			}
			state = 2
		case 2:
			as, ok := st.(*ast.AssignStmt)
			if !ok || as.Tok != token.ASSIGN || len(as.Lhs) != 1 {
				return "", fmt.Errorf("step %d: expected res[%d] = byte(sum & 0xff)", cur, cur)
			}
			if l, r := txtExprString(as.Lhs[0]), txtExprString(as.Rhs[0]); l != fmt.Sprintf("res[%d]", cur) || r != "byte(sum&0xff)" {
				return "", fmt.Errorf("step %d: `%s = %s`, expected res[%d] = byte(sum & 0xff)", cur, l, r, cur)
			}
			idx = append(idx, strconv.Itoa(cur))
			state = 1
		case 3:
			if _, ok := st.(*ast.ReturnStmt); !ok {
				return "", fmt.Errorf("statement after the final check is not a return")
			}
		}
	}
	if state != 3 {
		return "", fmt.Errorf("nonhardenedChild: unrolled addition / final check not recognised (state %d)", state)
	}
	fmt.Fprintf(&b, "/-- indices i of the recognised pairs `sum = int(xprv[i]) + int(res[i]) + (sum >> 8); res[i] = byte(sum & 0xff)`, in source order, starting from `sum := int(0)` and followed by `if (sum >> 8) != 0 { panic }` -/\ndef carrySteps : List Nat := [%s]\n", strings.Join(idx, ", "))
	b.WriteString("end BytomModel.Gen.KDUnroll\n")
	return b.String(), nil
}

func init() {
	register("MerkleConsts", genMerkleConsts)
	register("TextConsts", genTextConsts)
	register("KDUnroll", genKDUnroll)
}
