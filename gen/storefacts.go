package main

// Fact extractors for the properties C21 (which cache invalidation follows which store
// write; GetCheckpoint's in-place append) and C22 (addresses of range variables in
// txpool.go + the module's go directive, i.e. whether they alias one variable).

import (
	"fmt"
	"go/ast"
	"go/parser"
	"go/token"
	"io/ioutil"
	"path/filepath"
	"regexp"
	"sort"
	"strconv"
	"strings"
)

func storeLeanStr(s string) string { return strconv.Quote(s) }

func storeLeanStrList(xs []string) string {
	q := make([]string, len(xs))
	for i, x := range xs {
		q[i] = storeLeanStr(x)
	}
	return "[" + strings.Join(q, ", ") + "]"
}

// genCacheCalls: for every method of *Store that writes to the DB (calls s.db.Set or
// batch.Write), the ordered list of s.cache.<m> calls in its body (closures included).
func genCacheCalls(repo string) (string, error) {
	fset := token.NewFileSet()
	type fact struct {
		name  string
		calls []string
	}
	var facts []fact
	appendInPlace := -1
	for _, fn := range []string{"database/store.go", "database/store_checkpoint.go"} {
		f, err := parser.ParseFile(fset, filepath.Join(repo, fn), nil, 0)
		if err != nil {
			return "", err
		}
		for _, d := range f.Decls {
			fd, ok := d.(*ast.FuncDecl)
			if !ok || fd.Recv == nil || fd.Body == nil || len(fd.Recv.List) != 1 {
				continue
			}
			star, ok := fd.Recv.List[0].Type.(*ast.StarExpr)
			if !ok {
				continue
			}
			if id, ok := star.X.(*ast.Ident); !ok || id.Name != "Store" {
				continue
			}
			recv := ""
			if len(fd.Recv.List[0].Names) == 1 {
				recv = fd.Recv.List[0].Names[0].Name
			}
			writes := false
			var calls []string
			ast.Inspect(fd.Body, func(n ast.Node) bool {
				ce, ok := n.(*ast.CallExpr)
				if !ok {
					return true
				}
				sel, ok := ce.Fun.(*ast.SelectorExpr)
				if !ok {
					return true
				}
				// s.db.Set / s.db.SetSync / s.db.Delete / <batch>.Write
				if in, ok := sel.X.(*ast.SelectorExpr); ok {
					if x, ok := in.X.(*ast.Ident); ok && x.Name == recv {
						if in.Sel.Name == "db" && (sel.Sel.Name == "Set" || sel.Sel.Name == "SetSync" || sel.Sel.Name == "Delete" || sel.Sel.Name == "DeleteSync") {
							writes = true
						}
						if in.Sel.Name == "cache" {
							calls = append(calls, sel.Sel.Name)
						}
					}
				}
				if x, ok := sel.X.(*ast.Ident); ok && x.Name == "batch" && sel.Sel.Name == "Write" {
					writes = true
				}
				return true
			})
			if writes {
				facts = append(facts, fact{fd.Name.Name, calls})
			}
			if fd.Name.Name == "GetCheckpoint" {
				appendInPlace = 0
				ast.Inspect(fd.Body, func(n ast.Node) bool {
					as, ok := n.(*ast.AssignStmt)
					if !ok || len(as.Lhs) != 1 || len(as.Rhs) != 1 {
						return true
					}
					lhs, ok := as.Lhs[0].(*ast.SelectorExpr)
					if !ok || lhs.Sel.Name != "SupLinks" {
						return true
					}
					ce, ok := as.Rhs[0].(*ast.CallExpr)
					if !ok || len(ce.Args) < 1 {
						return true
					}
					if fn, ok := ce.Fun.(*ast.Ident); !ok || fn.Name != "append" {
						return true
					}
					// append(<same object>.SupLinks, …) assigned back to <same object>.SupLinks
					if a0, ok := ce.Args[0].(*ast.SelectorExpr); ok && a0.Sel.Name == "SupLinks" {
						lx, ok1 := lhs.X.(*ast.Ident)
						ax, ok2 := a0.X.(*ast.Ident)
						if ok1 && ok2 && lx.Name == ax.Name {
							// and that object is what lookupCheckPoint returned (not a copy)
							appendInPlace = 1
						}
					}
					return true
				})
			}
		}
	}
	if len(facts) == 0 || appendInPlace < 0 {
		return "", fmt.Errorf("no writing Store methods / no GetCheckpoint found")
	}
	sort.Slice(facts, func(i, j int) bool { return facts[i].name < facts[j].name })
	var b strings.Builder
	b.WriteString("/- GENERATED from database/store.go and database/store_checkpoint.go — do not edit -/\nnamespace BytomModel.Gen.CacheCalls\n\n")
	b.WriteString("/-- (method of *Store that writes to the DB, the s.cache.* calls in its body, in order) -/\n")
	b.WriteString("def invalidations : List (String × List String) := [\n")
	for i, f := range facts {
		sep := ","
		if i == len(facts)-1 {
			sep = ""
		}
		fmt.Fprintf(&b, "  (%s, %s)%s\n", storeLeanStr(f.name), storeLeanStrList(f.calls), sep)
	}
	b.WriteString("]\n\n/-- GetCheckpoint assigns `x.SupLinks = append(x.SupLinks, …)` on the looked-up object itself -/\n")
	fmt.Fprintf(&b, "def getCheckpointAppendsInPlace : Bool := %v\n\nend BytomModel.Gen.CacheCalls\n", appendInPlace == 1)
	return b.String(), nil
}

// genLoopVarAddr: every `&v` in protocol/txpool.go where v is the key/value variable of an
// enclosing `for … := range` (declared with :=), with the enclosing function and whether the
// address is stored (argument of append / composite literal / assignment) or only passed to a
// call; plus the `go` directive of go.mod.
func genLoopVarAddr(repo string) (string, error) {
	mod, err := ioutil.ReadFile(filepath.Join(repo, "go.mod"))
	if err != nil {
		return "", err
	}
	m := regexp.MustCompile(`(?m)^go\s+(\d+)\.(\d+)`).FindSubmatch(mod)
	if m == nil {
		return "", fmt.Errorf("no go directive in go.mod")
	}
	fset := token.NewFileSet()
	f, err := parser.ParseFile(fset, filepath.Join(repo, "protocol/txpool.go"), nil, 0)
	if err != nil {
		return "", err
	}
	type fact struct{ fn, v, use string }
	var facts []fact
	for _, d := range f.Decls {
		fd, ok := d.(*ast.FuncDecl)
		if !ok || fd.Body == nil {
			continue
		}
		var walk func(n ast.Node, vars map[string]bool, parentUse string)
		walk = func(n ast.Node, vars map[string]bool, parentUse string) {
			switch x := n.(type) {
			case nil:
				return
			case *ast.RangeStmt:
				inner := map[string]bool{}
				for k := range vars {
					inner[k] = true
				}
				if x.Tok == token.DEFINE {
					for _, e := range []ast.Expr{x.Key, x.Value} {
						if id, ok := e.(*ast.Ident); ok && id.Name != "_" {
							inner[id.Name] = true
						}
					}
				}
				walk(x.X, vars, "")
				walk(x.Body, inner, "")
				return
			case *ast.AssignStmt:
				// a `v := v` copy inside the loop shadows the range variable from here on; the
				// simple extractor treats the name as no longer a range variable in this block
				if x.Tok == token.DEFINE {
					for _, l := range x.Lhs {
						if id, ok := l.(*ast.Ident); ok && vars[id.Name] {
							delete(vars, id.Name)
						}
					}
				}
				for _, r := range x.Rhs {
					walk(r, vars, "stored")
				}
				return
			case *ast.CallExpr:
				use := "call-argument"
				if id, ok := x.Fun.(*ast.Ident); ok && id.Name == "append" {
					use = "stored"
				}
				walk(x.Fun, vars, "")
				for _, a := range x.Args {
					walk(a, vars, use)
				}
				return
			case *ast.CompositeLit:
				for _, e := range x.Elts {
					walk(e, vars, "stored")
				}
				return
			case *ast.UnaryExpr:
				if x.Op == token.AND {
					if id, ok := x.X.(*ast.Ident); ok && vars[id.Name] {
						use := parentUse
						if use == "" {
							use = "other"
						}
						facts = append(facts, fact{fd.Name.Name, id.Name, use})
						return
					}
				}
			}
			// generic descent
			ast.Inspect(n, func(c ast.Node) bool {
				if c == n || c == nil {
					return true
				}
				walk(c, vars, "")
				return false
			})
		}
		walk(fd.Body, map[string]bool{}, "")
	}
	sort.Slice(facts, func(i, j int) bool {
		if facts[i].fn != facts[j].fn {
			return facts[i].fn < facts[j].fn
		}
		return facts[i].v < facts[j].v
	})
	var b strings.Builder
	b.WriteString("/- GENERATED from go.mod and protocol/txpool.go — do not edit -/\nnamespace BytomModel.Gen.LoopVarAddr\n\n")
	fmt.Fprintf(&b, "/-- the module's `go` directive: range variables are per-iteration only from go 1.22 -/\ndef goMajor : Nat := %s\ndef goMinor : Nat := %s\n\n", m[1], m[2])
	b.WriteString("/-- (function, range variable whose address is taken, how the address is used) -/\ndef rangeVarAddrs : List (String × String × String) := [\n")
	for i, f := range facts {
		sep := ","
		if i == len(facts)-1 {
			sep = ""
		}
		fmt.Fprintf(&b, "  (%s, %s, %s)%s\n", storeLeanStr(f.fn), storeLeanStr(f.v), storeLeanStr(f.use), sep)
	}
	b.WriteString("]\n\nend BytomModel.Gen.LoopVarAddr\n")
	return b.String(), nil
}

func init() {
	register("CacheCalls", genCacheCalls)
	register("LoopVarAddr", genLoopVarAddr)
}
