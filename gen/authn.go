package main

import (
	"fmt"
	"go/ast"
	"strings"
)

// Facts of net/http/authn/authn.go and accesstoken/accesstoken.go the access-control model
// depends on (C36):
//   - the index expression of every a.tokenMap[...] access in cachedTokenAuthnCheck (cache key)
//   - the staleness condition guarding the store lookup, tokenExpiry, loopbackOn
//   - the decision chain of Authenticate: every top-level `if` with its condition and, when
//     its body returns, the returned error expression; then the final return
//   - the chain of localhostAuthn and of tokenAuthn in the same form
//   - accesstoken: the id regexp, the secret-comparison condition of Check
func n2chain(p *n2file, fd *ast.FuncDecl, errIndex int) ([]string, error) {
	var out []string
	for _, st := range fd.Body.List {
		switch s := st.(type) {
		case *ast.IfStmt:
			if s.Else != nil {
				return nil, fmt.Errorf("%s: if/else not understood: %s", fd.Name.Name, p.str(s.Cond))
			}
			ret := "-"
			for _, b := range s.Body.List {
				if r, ok := b.(*ast.ReturnStmt); ok {
					if errIndex >= len(r.Results) {
						return nil, fmt.Errorf("%s: return arity", fd.Name.Name)
					}
					ret = p.str(r.Results[errIndex])
				}
			}
			init := ""
			if s.Init != nil {
				init = p.str(s.Init) + "; "
			}
			out = append(out, "if "+init+p.str(s.Cond)+" => "+ret)
		case *ast.ReturnStmt:
			if errIndex >= len(s.Results) {
				return nil, fmt.Errorf("%s: return arity", fd.Name.Name)
			}
			out = append(out, "return "+p.str(s.Results[errIndex]))
		}
	}
	return out, nil
}

func isIdent(s string) bool {
	if s == "" {
		return false
	}
	for _, r := range s {
		if !(r == '_' || r >= 'a' && r <= 'z' || r >= 'A' && r <= 'Z' || r >= '0' && r <= '9') {
			return false
		}
	}
	return true
}

func genAuthn(repo string) (string, error) {
	p, err := n2parse(repo, "net/http/authn/authn.go")
	if err != nil {
		return "", err
	}
	cc, err := p.fn("API", "cachedTokenAuthnCheck")
	if err != nil {
		return "", err
	}
	keys := map[string]bool{}
	var keyList []string
	ast.Inspect(cc.Body, func(n ast.Node) bool {
		ix, ok := n.(*ast.IndexExpr)
		if !ok {
			return true
		}
		if p.str(ix.X) == "a.tokenMap" {
			k := p.str(ix.Index)
			if !keys[k] {
				keys[k] = true
				keyList = append(keyList, k)
			}
		}
		return true
	})
	rawKeys := append([]string(nil), keyList...)
	// every tokenMap access of the function, in source order, with the raw index expression
	var keyUses []string
	ast.Inspect(cc.Body, func(n ast.Node) bool {
		if ix, ok := n.(*ast.IndexExpr); ok && p.str(ix.X) == "a.tokenMap" {
			keyUses = append(keyUses, p.str(ix.Index))
		}
		return true
	})
	// fields of API that could serve as shared scratch space for a key (byte slices / arrays / buffers)
	var scratch []string
	for _, d := range p.f.Decls {
		gd, ok := d.(*ast.GenDecl)
		if !ok {
			continue
		}
		for _, sp := range gd.Specs {
			ts, ok := sp.(*ast.TypeSpec)
			if !ok || ts.Name.Name != "API" {
				continue
			}
			stt, ok := ts.Type.(*ast.StructType)
			if !ok {
				return "", fmt.Errorf("type API is not a struct")
			}
			for _, f := range stt.Fields.List {
				t := p.str(f.Type)
				if strings.Contains(t, "[]byte") || strings.Contains(t, "]byte") || strings.Contains(t, "bytes.Buffer") || strings.Contains(t, "strings.Builder") {
					for _, n := range f.Names {
						scratch = append(scratch, n.Name+" "+t)
					}
				}
			}
		}
	}
	if len(keyList) != 1 {
		return "", fmt.Errorf("cachedTokenAuthnCheck: expected one cache-key expression, found %v", keyList)
	}
	// when the key is a local variable, report the expression it is defined by (exactly one definition)
	if isIdent(keyList[0]) {
		var defs []string
		ast.Inspect(cc.Body, func(n ast.Node) bool {
			if a, ok := n.(*ast.AssignStmt); ok && len(a.Lhs) == 1 && len(a.Rhs) == 1 && p.str(a.Lhs[0]) == keyList[0] {
				defs = append(defs, p.str(a.Rhs[0]))
			}
			return true
		})
		if len(defs) != 1 {
			return "", fmt.Errorf("cachedTokenAuthnCheck: cache key %s has %d definitions", keyList[0], len(defs))
		}
		keyList[0] = defs[0]
	}
	stale := ""
	for _, st := range cc.Body.List {
		if ifs, ok := st.(*ast.IfStmt); ok {
			stale = p.str(ifs.Cond)
			break
		}
	}
	if stale == "" {
		return "", fmt.Errorf("cachedTokenAuthnCheck: staleness condition not found")
	}
	ccChain, err := n2chain(p, cc, 0)
	if err != nil {
		return "", err
	}
	exp, err := p.constExpr("tokenExpiry")
	if err != nil {
		return "", err
	}
	expSec := 0
	switch strings.ReplaceAll(exp, " ", "") {
	case "time.Minute*5", "5*time.Minute":
		expSec = 300
	default:
		return "", fmt.Errorf("tokenExpiry = %s: shape not understood", exp)
	}
	lb, err := p.constExpr("loopbackOn")
	if err != nil {
		return "", err
	}
	au, err := p.fn("API", "Authenticate")
	if err != nil {
		return "", err
	}
	auChain, err := n2chain(p, au, 1)
	if err != nil {
		return "", err
	}
	lh, err := p.fn("API", "localhostAuthn")
	if err != nil {
		return "", err
	}
	lhChain, err := n2chain(p, lh, 0)
	if err != nil {
		return "", err
	}
	ta, err := p.fn("API", "tokenAuthn")
	if err != nil {
		return "", err
	}
	taChain, err := n2chain(p, ta, 1)
	if err != nil {
		return "", err
	}
	q, err := n2parse(repo, "accesstoken/accesstoken.go")
	if err != nil {
		return "", err
	}
	re, err := q.constExpr("validIDRegexp")
	if err != nil {
		return "", err
	}
	ck, err := q.fn("CredentialStore", "Check")
	if err != nil {
		return "", err
	}
	ckChain, err := n2chain(q, ck, 0)
	if err != nil {
		return "", err
	}
	cr, err := q.fn("CredentialStore", "Create")
	if err != nil {
		return "", err
	}
	crChain, err := n2chain(q, cr, 1)
	if err != nil {
		return "", err
	}
	out := "/- GENERATED by /verif/gen/authn.go from net/http/authn/authn.go and accesstoken/accesstoken.go — do not edit -/\n" +
		"namespace BytomModel.Gen.Authn\n\n" +
		fmt.Sprintf("def cacheKeyExpr : String := %s\n", n2leanStr(keyList[0])) +
		fmt.Sprintf("def tokenMapKeyUses : List String := %s\n", n2leanStrList(keyUses)) +
		fmt.Sprintf("def tokenMapRawKeys : List String := %s\n", n2leanStrList(rawKeys)) +
		fmt.Sprintf("def apiScratchFields : List String := %s\n", n2leanStrList(scratch)) +
		fmt.Sprintf("def staleCond : String := %s\n", n2leanStr(stale)) +
		fmt.Sprintf("def cachedCheckChain : List String := %s\n", n2leanStrList(ccChain)) +
		fmt.Sprintf("def tokenExpirySeconds : Nat := %d\n", expSec) +
		fmt.Sprintf("def loopbackOn : String := %s\n", n2leanStr(lb)) +
		fmt.Sprintf("def authenticateChain : List String := %s\n", n2leanStrList(auChain)) +
		fmt.Sprintf("def localhostChain : List String := %s\n", n2leanStrList(lhChain)) +
		fmt.Sprintf("def tokenAuthnChain : List String := %s\n", n2leanStrList(taChain)) +
		fmt.Sprintf("def validIDRegexp : String := %s\n", n2leanStr(re)) +
		fmt.Sprintf("def checkChain : List String := %s\n", n2leanStrList(ckChain)) +
		fmt.Sprintf("def createChain : List String := %s\n", n2leanStrList(crChain)) +
		"\nend BytomModel.Gen.Authn\n"
	return out, nil
}

func init() { register("Authn", genAuthn) }
