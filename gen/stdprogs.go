package main

// Gen/StdProgs.lean: outputs of the REAL standard-program builders on fixed inputs.
//
// The gen module itself is stdlib-only, so the builders are run out of process: a throw-away
// Go module (replace directives copied from ../harness/go.mod, pointed at the repository under
// verification) is written to a temp dir and `go run`.  Ties/StdProgs.lean then checks by
// `decide` that the hand-written Lean builders produce byte-identical programs.

import (
	"bytes"
	"fmt"
	"io/ioutil"
	"os"
	"os/exec"
	"path/filepath"
	"strings"
)

const stdProgsMain = `package main

import (
	"crypto/ed25519"
	"encoding/hex"
	"fmt"

	"github.com/bytom/bytom/consensus/segwit"
	"github.com/bytom/bytom/protocol/vm/vmutil"
)

func hx(b []byte) string {
	if len(b) == 0 {
		return "-"
	}
	return hex.EncodeToString(b)
}

func fill(n int, seed byte) []byte {
	b := make([]byte, n)
	for i := range b {
		b[i] = seed + byte(i)*7
	}
	return b
}

func res(p []byte, err error) string {
	if err != nil {
		return "err"
	}
	return hx(p)
}

func conv(f func([]byte) ([]byte, error), p []byte) (s string) {
	defer func() {
		if r := recover(); r != nil {
			s = "panic"
		}
	}()
	return res(f(p))
}

func main() {
	for _, n := range []int{0, 1, 19, 20, 21, 32, 33, 75, 76, 255, 256} {
		h := fill(n, byte(n))
		fmt.Println("p2wpkh", hx(h), res(vmutil.P2WPKHProgram(h)))
		fmt.Println("p2wsh", hx(h), res(vmutil.P2WSHProgram(h)))
		fmt.Println("p2pkhsig", hx(h), res(vmutil.P2PKHSigProgram(h)))
		fmt.Println("p2sh", hx(h), res(vmutil.P2SHProgram(h)))
	}
	keys := func(n int) []ed25519.PublicKey {
		var ks []ed25519.PublicKey
		for i := 0; i < n; i++ {
			ks = append(ks, ed25519.PublicKey(fill(32, byte(0x10*i+1))))
		}
		return ks
	}
	khex := func(ks []ed25519.PublicKey) string {
		if len(ks) == 0 {
			return "-"
		}
		var s []byte
		for _, k := range ks {
			s = append(s, k...)
		}
		return hex.EncodeToString(s)
	}
	for _, mn := range [][2]int{{0, 0}, {1, 1}, {1, 2}, {2, 2}, {2, 3}, {3, 3}, {1, 6}, {6, 6}, {16, 16}, {17, 17}, {1, 17}, {0, 1}, {2, 1}, {-1, 1}, {3, 2}} {
		ks := keys(mn[1])
		fmt.Println("multisig", mn[0], khex(ks), res(vmutil.P2SPMultiSigProgram(ks, mn[0])))
	}
	for _, ht := range []uint64{0, 1, 16, 17, 255, 256, 65536, 1 << 32, 1<<63 + 5, 1<<64 - 1} {
		ks := keys(2)
		fmt.Println("multisigh", 1, ht, khex(ks), res(vmutil.P2SPMultiSigProgramWithHeight(ks, 1, ht)))
	}
	var progs [][]byte
	for _, n := range []int{20, 32, 0, 1, 76} {
		p, _ := vmutil.P2WPKHProgram(fill(n, 0x40))
		progs = append(progs, p)
	}
	progs = append(progs, nil, []byte{0x00}, []byte{0x51, 0x01, 0xaa}, []byte{0x51}, []byte{0x00, 0x4c}, []byte{0x00, 0x00, 0x6a}, []byte{0x00, 0x51})
	for _, p := range progs {
		fmt.Println("convpkh", hx(p), conv(segwit.ConvertP2PKHSigProgram, p))
		fmt.Println("convsh", hx(p), conv(segwit.ConvertP2SHProgram, p))
	}
}
`

func leanHex(h string) (string, error) {
	if h == "-" {
		return "[]", nil
	}
	if len(h)%2 != 0 {
		return "", fmt.Errorf("odd hex %q", h)
	}
	var o []string
	for i := 0; i < len(h); i += 2 {
		o = append(o, "0x"+h[i:i+2])
	}
	return "[" + strings.Join(o, ", ") + "]", nil
}

// leanRes: Option Bytes for builder results ("err" = the builder returned an error)
func leanRes(h string) (string, error) {
	if h == "err" {
		return "none", nil
	}
	b, err := leanHex(h)
	return "(some " + b + ")", err
}

func genStdProgs(repo string) (string, error) {
	hm, err := ioutil.ReadFile(filepath.Join("..", "harness", "go.mod"))
	if err != nil {
		return "", fmt.Errorf("harness/go.mod (for the replace directives): %v", err)
	}
	absRepo, err := filepath.Abs(repo)
	if err != nil {
		return "", err
	}
	gm := strings.Replace(string(hm), "module verifharness", "module verifstdprogs", 1)
	gm = strings.Replace(gm, "=> /repo", "=> "+absRepo, -1)
	dir, err := ioutil.TempDir("", "verifgen-stdprogs-")
	if err != nil {
		return "", err
	}
	defer os.RemoveAll(dir)
	sum, err := ioutil.ReadFile(filepath.Join(absRepo, "go.sum"))
	if err != nil {
		return "", err
	}
	for name, data := range map[string][]byte{"go.mod": []byte(gm), "go.sum": sum, "main.go": []byte(stdProgsMain)} {
		if err := ioutil.WriteFile(filepath.Join(dir, name), data, 0o644); err != nil {
			return "", err
		}
	}
	cmd := exec.Command("go", "run", "-tags", "verif", ".")
	cmd.Dir = dir
	cmd.Env = append(os.Environ(), "GOFLAGS=-mod=mod", "GOPROXY=off", "GOSUMDB=off", "GOTOOLCHAIN=local")
	var stdout, stderr bytes.Buffer
	cmd.Stdout, cmd.Stderr = &stdout, &stderr
	if err := cmd.Run(); err != nil {
		return "", fmt.Errorf("running the real builders: %v\n%s", err, stderr.String())
	}
	groups := map[string][]string{}
	order := []string{"p2wpkh", "p2wsh", "p2pkhsig", "p2sh", "multisig", "multisigh", "convpkh", "convsh"}
	for _, line := range strings.Split(strings.TrimSpace(stdout.String()), "\n") {
		w := strings.Fields(line)
		if len(w) < 3 {
			return "", fmt.Errorf("unexpected line %q", line)
		}
		var entry string
		switch w[0] {
		case "p2wpkh", "p2wsh", "p2pkhsig", "p2sh":
			in, err := leanHex(w[1])
			if err != nil {
				return "", err
			}
			out, err := leanRes(w[2])
			if err != nil {
				return "", err
			}
			entry = fmt.Sprintf("(%s, %s)", in, out)
		case "multisig":
			ks, err := leanHex(w[2])
			if err != nil {
				return "", err
			}
			out, err := leanRes(w[3])
			if err != nil {
				return "", err
			}
			entry = fmt.Sprintf("((%s : Int), %s, %s)", w[1], ks, out)
		case "multisigh":
			ks, err := leanHex(w[3])
			if err != nil {
				return "", err
			}
			out, err := leanRes(w[4])
			if err != nil {
				return "", err
			}
			entry = fmt.Sprintf("((%s : Int), %s, %s, %s)", w[1], w[2], ks, out)
		case "convpkh", "convsh":
			in, err := leanHex(w[1])
			if err != nil {
				return "", err
			}
			// result: 0 = error returned, 1 = panic, 2 = program
			switch w[2] {
			case "err":
				entry = fmt.Sprintf("(%s, 0, [])", in)
			case "panic":
				entry = fmt.Sprintf("(%s, 1, [])", in)
			default:
				out, err := leanHex(w[2])
				if err != nil {
					return "", err
				}
				entry = fmt.Sprintf("(%s, 2, %s)", in, out)
			}
		default:
			return "", fmt.Errorf("unexpected line %q", line)
		}
		groups[w[0]] = append(groups[w[0]], entry)
	}
	types := map[string]string{
		"p2wpkh": "List (List UInt8 × Option (List UInt8))", "p2wsh": "List (List UInt8 × Option (List UInt8))",
		"p2pkhsig": "List (List UInt8 × Option (List UInt8))", "p2sh": "List (List UInt8 × Option (List UInt8))",
		"multisig":  "List (Int × List UInt8 × Option (List UInt8))",
		"multisigh": "List (Int × Nat × List UInt8 × Option (List UInt8))",
		"convpkh":   "List (List UInt8 × Nat × List UInt8)", "convsh": "List (List UInt8 × Nat × List UInt8)",
	}
	var b strings.Builder
	b.WriteString("-- GENERATED by /verif/gen (gen/stdprogs.go): outputs of the REAL builders\n")
	b.WriteString("-- vmutil.P2WPKHProgram/P2WSHProgram/P2PKHSigProgram/P2SHProgram/P2SPMultiSigProgram[WithHeight],\n")
	b.WriteString("-- segwit.ConvertP2PKHSigProgram/ConvertP2SHProgram on fixed inputs — do not edit\n")
	b.WriteString("-- multisig keys: the concatenation of the 32-byte public keys; conv*: (program, 0 error | 1 panic | 2 ok, output)\n")
	b.WriteString("namespace BytomModel.Gen.StdProgs\n\n")
	for _, g := range order {
		if len(groups[g]) == 0 {
			return "", fmt.Errorf("no %s lines", g)
		}
		fmt.Fprintf(&b, "def %s : %s := [\n  %s\n]\n\n", g, types[g], strings.Join(groups[g], ",\n  "))
	}
	b.WriteString("end BytomModel.Gen.StdProgs\n")
	return b.String(), nil
}

func init() { register("StdProgs", genStdProgs) }
