package main

import (
	"bytes"
	"fmt"
	"go/ast"
	"go/parser"
	"go/printer"
	"go/token"
	"path/filepath"
	"sort"
	"strconv"
	"strings"
)

// Fact extractor for C24–C27 (wallet, keeper, builder): regenerates Gen/WalletFacts.lean from
//   account/utxo_keeper.go, account/builder.go, wallet/utxo.go, consensus/general.go,
//   protocol/state/utxo_view.go
// Facts are small: constants, vote-pending tables, which entry accessors / type-switch cases
// the wallet code uses, the text of the maturity comparisons, and the lock discipline of every
// utxoKeeper method. Fails loudly when a function or shape it looks for is missing.

type wfile struct {
	fset *token.FileSet
	f    *ast.File
}

func wparse(repo, rel string) (*wfile, error) {
	fset := token.NewFileSet()
	f, err := parser.ParseFile(fset, filepath.Join(repo, rel), nil, 0)
	if err != nil {
		return nil, err
	}
	return &wfile{fset, f}, nil
}

func (w *wfile) str(n ast.Node) string {
	var b bytes.Buffer
	printer.Fprint(&b, w.fset, n)
	return strings.Join(strings.Fields(b.String()), " ")
}

func (w *wfile) fn(name, recv string) (*ast.FuncDecl, error) {
	for _, d := range w.f.Decls {
		fd, ok := d.(*ast.FuncDecl)
		if !ok || fd.Name.Name != name {
			continue
		}
		r := ""
		if fd.Recv != nil && len(fd.Recv.List) == 1 {
			r = w.str(fd.Recv.List[0].Type)
		}
		if r == recv {
			return fd, nil
		}
	}
	return nil, fmt.Errorf("function %s (receiver %q) not found", name, recv)
}

func walletLeanStr(s string) string { return strconv.Quote(s) }

func walletLeanStrList(l []string) string {
	q := make([]string, len(l))
	for i, s := range l {
		q[i] = walletLeanStr(s)
	}
	return "[" + strings.Join(q, ", ") + "]"
}

// uint64(N) or N
func wUintLit(e ast.Expr) (string, error) {
	if c, ok := e.(*ast.CallExpr); ok && len(c.Args) == 1 {
		e = c.Args[0]
	}
	if sel, ok := e.(*ast.SelectorExpr); ok {
		if id, ok := sel.X.(*ast.Ident); ok && id.Name == "math" && sel.Sel.Name == "MaxUint64" {
			return "18446744073709551615", nil
		}
	}
	if b, ok := e.(*ast.BasicLit); ok && b.Kind == token.INT {
		return b.Value, nil
	}
	return "", fmt.Errorf("not an integer literal")
}

func (w *wfile) constVal(name string) (string, error) {
	for _, d := range w.f.Decls {
		gd, ok := d.(*ast.GenDecl)
		if !ok || gd.Tok != token.CONST {
			continue
		}
		for _, sp := range gd.Specs {
			vs := sp.(*ast.ValueSpec)
			for i, n := range vs.Names {
				if n.Name == name && i < len(vs.Values) {
					return wUintLit(vs.Values[i])
				}
			}
		}
	}
	return "", fmt.Errorf("constant %s not found", name)
}

// VotePendingBlockNums table of the composite literal assigned to `var <name> = Params{...}`
func (w *wfile) pendingTable(name string) (string, error) {
	for _, d := range w.f.Decls {
		gd, ok := d.(*ast.GenDecl)
		if !ok || gd.Tok != token.VAR {
			continue
		}
		for _, sp := range gd.Specs {
			vs := sp.(*ast.ValueSpec)
			if len(vs.Names) != 1 || vs.Names[0].Name != name || len(vs.Values) != 1 {
				continue
			}
			var rows []string
			found := false
			var ferr error
			ast.Inspect(vs.Values[0], func(n ast.Node) bool {
				kv, ok := n.(*ast.KeyValueExpr)
				if !ok {
					return true
				}
				if id, ok := kv.Key.(*ast.Ident); !ok || id.Name != "VotePendingBlockNums" {
					return true
				}
				found = true
				cl, ok := kv.Value.(*ast.CompositeLit)
				if !ok {
					ferr = fmt.Errorf("%s: VotePendingBlockNums is not a composite literal", name)
					return false
				}
				for _, el := range cl.Elts {
					row, ok := el.(*ast.CompositeLit)
					if !ok || len(row.Elts) != 3 {
						ferr = fmt.Errorf("%s: unexpected table row", name)
						return false
					}
					vals := map[string]string{}
					for _, fe := range row.Elts {
						fkv, ok := fe.(*ast.KeyValueExpr)
						if !ok {
							ferr = fmt.Errorf("%s: positional table row", name)
							return false
						}
						v, err := wUintLit(fkv.Value)
						if err != nil {
							// a named constant (defaultVotePendingNum)
							if id, ok := fkv.Value.(*ast.Ident); ok {
								v, err = w.constVal(id.Name)
							}
							if err != nil {
								ferr = fmt.Errorf("%s: table value %s", name, w.str(fkv.Value))
								return false
							}
						}
						vals[fkv.Key.(*ast.Ident).Name] = v
					}
					rows = append(rows, fmt.Sprintf("(%s, %s, %s)", vals["BeginBlock"], vals["EndBlock"], vals["Num"]))
				}
				return false
			})
			if ferr != nil {
				return "", ferr
			}
			if !found {
				return "", fmt.Errorf("%s has no VotePendingBlockNums", name)
			}
			return "[" + strings.Join(rows, ", ") + "]", nil
		}
	}
	return "", fmt.Errorf("variable %s not found", name)
}

// names of methods called on identifier `recv` inside node
func (w *wfile) methodCalls(n ast.Node, recv string) []string {
	set := map[string]bool{}
	ast.Inspect(n, func(x ast.Node) bool {
		if c, ok := x.(*ast.CallExpr); ok {
			if sel, ok := c.Fun.(*ast.SelectorExpr); ok {
				if id, ok := sel.X.(*ast.Ident); ok && id.Name == recv {
					set[sel.Sel.Name] = true
				}
			}
		}
		return true
	})
	var out []string
	for k := range set {
		out = append(out, k)
	}
	sort.Strings(out)
	return out
}

// case types of the first type switch in fn
func (w *wfile) typeSwitchCases(fd *ast.FuncDecl) ([]string, error) {
	var out []string
	found := false
	ast.Inspect(fd.Body, func(x ast.Node) bool {
		ts, ok := x.(*ast.TypeSwitchStmt)
		if !ok || found {
			return !found
		}
		found = true
		for _, c := range ts.Body.List {
			for _, e := range c.(*ast.CaseClause).List {
				out = append(out, w.str(e))
			}
		}
		return false
	})
	if !found {
		return nil, fmt.Errorf("%s: no type switch", fd.Name.Name)
	}
	return out, nil
}

// conditions of all `if` statements directly or indirectly in node whose body returns / assigns, as text
func (w *wfile) ifConds(n ast.Node, filter func(*ast.IfStmt) bool) []string {
	var out []string
	ast.Inspect(n, func(x ast.Node) bool {
		if is, ok := x.(*ast.IfStmt); ok && filter(is) {
			out = append(out, w.str(is.Cond))
		}
		return true
	})
	return out
}

func genWalletFacts(repo string) (string, error) {
	var b strings.Builder
	b.WriteString("/- GENERATED by gen/wallet.go from account/utxo_keeper.go, account/builder.go, wallet/utxo.go,\n   consensus/general.go, protocol/state/utxo_view.go — do not edit -/\nnamespace BytomModel.Gen.WalletFacts\n\n")

	// ---- consensus/general.go
	cg, err := wparse(repo, "consensus/general.go")
	if err != nil {
		return "", err
	}
	cb, err := cg.constVal("CoinbasePendingBlockNumber")
	if err != nil {
		return "", err
	}
	dflt, err := cg.constVal("defaultVotePendingNum")
	if err != nil {
		return "", err
	}
	fmt.Fprintf(&b, "def coinbasePendingBlockNumber : Nat := %s\ndef defaultVotePendingNum : Nat := %s\n", cb, dflt)
	for _, net := range [][2]string{{"MainNetParams", "mainnetPendingTable"}, {"TestNetParams", "testnetPendingTable"}, {"SoloNetParams", "solonetPendingTable"}} {
		t, err := cg.pendingTable(net[0])
		if err != nil {
			return "", err
		}
		fmt.Fprintf(&b, "def %s : List (Nat × Nat × Nat) := %s\n", net[1], t)
	}
	fd, err := cg.fn("VotePendingBlockNums", "")
	if err != nil {
		return "", err
	}
	fmt.Fprintf(&b, "def votePendingRangeTest : List String := %s\n", walletLeanStrList(cg.ifConds(fd.Body, func(*ast.IfStmt) bool { return true })))

	// ---- protocol/state/utxo_view.go
	uv, err := wparse(repo, "protocol/state/utxo_view.go")
	if err != nil {
		return "", err
	}
	fd, err = uv.fn("applySpendUtxo", "*UtxoViewpoint")
	if err != nil {
		return "", err
	}
	var locks []string
	ast.Inspect(fd.Body, func(x ast.Node) bool {
		if cc, ok := x.(*ast.CaseClause); ok && len(cc.List) == 1 {
			for _, st := range cc.Body {
				if is, ok := st.(*ast.IfStmt); ok {
					locks = append(locks, uv.str(cc.List[0])+": "+uv.str(is.Cond))
				}
			}
		}
		return true
	})
	if len(locks) == 0 {
		return "", fmt.Errorf("applySpendUtxo: no maturity cases found")
	}
	fmt.Fprintf(&b, "def consensusSpendLocks : List String := %s\n", walletLeanStrList(locks))

	// ---- wallet/utxo.go
	wu, err := wparse(repo, "wallet/utxo.go")
	if err != nil {
		return "", err
	}
	fd, err = wu.fn("detachUtxos", "*Wallet")
	if err != nil {
		return "", err
	}
	fmt.Fprintf(&b, "def detachOutputAccessors : List String := %s\n", walletLeanStrList(wu.methodCalls(fd.Body, "tx")))
	var rng []string
	ast.Inspect(fd.Body, func(x ast.Node) bool {
		if fs, ok := x.(*ast.ForStmt); ok && fs.Init != nil {
			rng = append(rng, wu.str(fs.Init)+"; "+wu.str(fs.Cond)+"; "+wu.str(fs.Post))
		}
		return true
	})
	fmt.Fprintf(&b, "def detachTxLoop : List String := %s\n", walletLeanStrList(rng))
	// how detachUtxos picks the outputs it deletes: range expressions and every if condition
	var drng []string
	ast.Inspect(fd.Body, func(x ast.Node) bool {
		if rs, ok := x.(*ast.RangeStmt); ok {
			drng = append(drng, "range "+wu.str(rs.X))
		}
		return true
	})
	fmt.Fprintf(&b, "def detachOutputLoop : List String := %s\n", walletLeanStrList(drng))
	fmt.Fprintf(&b, "def detachConditions : List String := %s\n", walletLeanStrList(wu.ifConds(fd.Body, func(*ast.IfStmt) bool { return true })))
	fd, err = wu.fn("txOutToUtxos", "")
	if err != nil {
		return "", err
	}
	cs, err := wu.typeSwitchCases(fd)
	if err != nil {
		return "", err
	}
	fmt.Fprintf(&b, "def txOutCases : List String := %s\n", walletLeanStrList(cs))
	var vh []string
	ast.Inspect(fd.Body, func(x ast.Node) bool {
		if as, ok := x.(*ast.AssignStmt); ok && len(as.Lhs) == 1 && len(as.Rhs) == 1 {
			l := wu.str(as.Lhs[0])
			if l == "validHeight" || l == "voteValidHeight" {
				vh = append(vh, l+" "+as.Tok.String()+" "+wu.str(as.Rhs[0]))
			}
		}
		return true
	})
	fmt.Fprintf(&b, "def txOutValidHeightAssignments : List String := %s\n", walletLeanStrList(vh))
	fmt.Fprintf(&b, "def txOutSkips : List String := %s\n", walletLeanStrList(wu.ifConds(fd.Body, func(is *ast.IfStmt) bool {
		return len(is.Body.List) == 1 && wu.str(is.Body.List[0]) == "continue"
	})))
	fd, err = wu.fn("txInToUtxos", "")
	if err != nil {
		return "", err
	}
	cs, err = wu.typeSwitchCases(fd)
	if err != nil {
		return "", err
	}
	fmt.Fprintf(&b, "def txInCases : List String := %s\n", walletLeanStrList(cs))
	setsVH := false
	ast.Inspect(fd.Body, func(x ast.Node) bool {
		if kv, ok := x.(*ast.KeyValueExpr); ok {
			if id, ok := kv.Key.(*ast.Ident); ok && id.Name == "ValidHeight" {
				setsVH = true
			}
		}
		return true
	})
	fmt.Fprintf(&b, "def txInSetsValidHeight : Bool := %v\n", setsVH)
	fmt.Fprintf(&b, "def txInSkips : List String := %s\n", walletLeanStrList(wu.ifConds(fd.Body, func(is *ast.IfStmt) bool {
		return len(is.Body.List) == 1 && wu.str(is.Body.List[0]) == "continue"
	})))

	// ---- account/utxo_keeper.go
	uk, err := wparse(repo, "account/utxo_keeper.go")
	if err != nil {
		return "", err
	}
	dc, err := uk.constVal("desireUtxoCount")
	if err != nil {
		return "", err
	}
	fmt.Fprintf(&b, "def desireUtxoCount : Nat := %s\n", dc)
	// every method of *utxoKeeper that touches the maps must hold uk.mtx for its whole body
	var lockRows []string
	for _, d := range uk.f.Decls {
		m, ok := d.(*ast.FuncDecl)
		if !ok || m.Recv == nil || uk.str(m.Recv.List[0].Type) != "*utxoKeeper" {
			continue
		}
		stmts := m.Body.List
		first, second, last := "", "", ""
		if len(stmts) > 0 {
			first = uk.str(stmts[0])
			last = uk.str(stmts[len(stmts)-1])
		}
		if len(stmts) > 1 {
			second = uk.str(stmts[1])
		}
		whole := first == "uk.mtx.Lock()" && (second == "defer uk.mtx.Unlock()" || last == "uk.mtx.Unlock()")
		lockRows = append(lockRows, fmt.Sprintf("(%s, %v)", walletLeanStr(m.Name.Name), whole))
	}
	sort.Strings(lockRows)
	fmt.Fprintf(&b, "def keeperMethodsHoldMutex : List (String × Bool) := [%s]\n", strings.Join(lockRows, ", "))
	fd, err = uk.fn("Reserve", "*utxoKeeper")
	if err != nil {
		return "", err
	}
	var dec []string
	for _, st := range fd.Body.List {
		if is, ok := st.(*ast.IfStmt); ok && len(is.Body.List) == 1 {
			dec = append(dec, uk.str(is.Cond)+" => "+uk.str(is.Body.List[0]))
		}
	}
	fmt.Fprintf(&b, "def reserveDecisions : List String := %s\n", walletLeanStrList(dec))
	fd, err = uk.fn("findUtxos", "*utxoKeeper")
	if err != nil {
		return "", err
	}
	// the appendUtxo closure and the order of the two listing loops
	var closure []string
	var loops []string
	for _, st := range fd.Body.List {
		switch s := st.(type) {
		case *ast.AssignStmt:
			if fl, ok := s.Rhs[0].(*ast.FuncLit); ok && uk.str(s.Lhs[0]) == "appendUtxo" {
				for _, cs := range fl.Body.List {
					closure = append(closure, uk.str(cs))
				}
			}
		case *ast.ForStmt:
			loops = append(loops, "for "+uk.str(s.Cond))
		case *ast.RangeStmt:
			loops = append(loops, "range "+uk.str(s.X))
		case *ast.IfStmt:
			loops = append(loops, "if "+uk.str(s.Cond)+" return")
		}
	}
	if len(closure) == 0 {
		return "", fmt.Errorf("findUtxos: appendUtxo closure not found")
	}
	fmt.Fprintf(&b, "def findUtxosAppend : List String := %s\n", walletLeanStrList(closure))
	fmt.Fprintf(&b, "def findUtxosListingOrder : List String := %s\n", walletLeanStrList(loops))
	fd, err = uk.fn("optUTXOs", "*utxoKeeper")
	if err != nil {
		return "", err
	}
	var conds []string
	ast.Inspect(fd.Body, func(x ast.Node) bool {
		switch s := x.(type) {
		case *ast.ForStmt:
			if s.Cond != nil {
				conds = append(conds, "for "+uk.str(s.Cond))
			}
		case *ast.IfStmt:
			conds = append(conds, "if "+uk.str(s.Cond))
		}
		return true
	})
	fmt.Fprintf(&b, "def optUTXOsConditions : List String := %s\n", walletLeanStrList(conds))

	// ---- account/builder.go
	ab, err := wparse(repo, "account/builder.go")
	if err != nil {
		return "", err
	}
	fd, err = ab.fn("Build", "*spendAction")
	if err != nil {
		return "", err
	}
	var changeOut []string
	ast.Inspect(fd.Body, func(x ast.Node) bool {
		if is, ok := x.(*ast.IfStmt); ok && ab.str(is.Cond) == "res.change > 0" {
			ast.Inspect(is.Body, func(y ast.Node) bool {
				if c, ok := y.(*ast.CallExpr); ok && ab.str(c.Fun) == "types.NewOriginalTxOutput" {
					for _, a := range c.Args {
						changeOut = append(changeOut, ab.str(a))
					}
				}
				return true
			})
		}
		return true
	})
	if len(changeOut) == 0 {
		return "", fmt.Errorf("spendAction.Build: change output not found")
	}
	fmt.Fprintf(&b, "def spendChangeOutputArgs : List String := %s\n", walletLeanStrList(changeOut))
	tg, err := wparse(repo, "protocol/bc/types/transaction.go")
	if err != nil {
		return "", err
	}
	fd, err = tg.fn("Fee", "*TxData")
	if err != nil {
		return "", err
	}
	fmt.Fprintf(&b, "def feeConditions : List String := %s\n", walletLeanStrList(tg.ifConds(fd.Body, func(*ast.IfStmt) bool { return true })))
	// ---- blockchain/txbuilder: the "first quorum non-empty signatures" loop of both materialize methods
	for _, spec := range [][3]string{{"blockchain/txbuilder/signature_witness.go", "SignatureWitness", "sigWitnessMaterialize"},
		{"blockchain/txbuilder/rawtxsig_witness.go", "RawTxSigWitness", "rawTxSigWitnessMaterialize"}} {
		wf, err := wparse(repo, spec[0])
		if err != nil {
			return "", err
		}
		fd, err = wf.fn("materialize", spec[1])
		if err != nil {
			return "", err
		}
		var shape []string
		ast.Inspect(fd.Body, func(x ast.Node) bool {
			switch st := x.(type) {
			case *ast.ForStmt:
				shape = append(shape, "for "+wf.str(st.Init)+"; "+wf.str(st.Cond)+"; "+wf.str(st.Post))
			case *ast.RangeStmt:
				shape = append(shape, "range "+wf.str(st.X))
			case *ast.IfStmt:
				shape = append(shape, "if "+wf.str(st.Cond))
			case *ast.CallExpr:
				shape = append(shape, "call "+wf.str(st.Fun))
			case *ast.IncDecStmt:
				shape = append(shape, wf.str(st))
			}
			return true
		})
		fmt.Fprintf(&b, "def %s : List String := %s\n", spec[2], walletLeanStrList(shape))
	}
	// ---- wallet/wallet.go: the updater's reorganisation check and what a rescan resets
	ww, err := wparse(repo, "wallet/wallet.go")
	if err != nil {
		return "", err
	}
	fd, err = ww.fn("walletUpdater", "*Wallet")
	if err != nil {
		return "", err
	}
	var updShape []string
	ast.Inspect(fd.Body, func(x ast.Node) bool {
		switch st := x.(type) {
		case *ast.ForStmt:
			if st.Cond != nil {
				updShape = append(updShape, "for "+ww.str(st.Cond))
			}
		case *ast.CallExpr:
			f := ww.str(st.Fun)
			if strings.HasPrefix(f, "w.") && !strings.HasPrefix(f, "w.status") {
				updShape = append(updShape, "call "+f)
			}
		}
		return true
	})
	fmt.Fprintf(&b, "def walletUpdaterShape : List String := %s\n", walletLeanStrList(updShape))
	for _, fn := range []string{"setRescanStatus", "loadWalletInfo", "AttachBlock", "DetachBlock"} {
		fd, err = ww.fn(fn, "*Wallet")
		if err != nil {
			return "", err
		}
		var st []string
		ast.Inspect(fd.Body, func(x ast.Node) bool {
			switch a := x.(type) {
			case *ast.AssignStmt:
				if len(a.Lhs) == 1 && strings.HasPrefix(ww.str(a.Lhs[0]), "w.status") {
					st = append(st, ww.str(a))
				}
			case *ast.IfStmt:
				if strings.Contains(ww.str(a.Cond), "w.status") {
					st = append(st, "if "+ww.str(a.Cond))
				}
			}
			return true
		})
		fmt.Fprintf(&b, "def statusWrites_%s : List String := %s\n", fn, walletLeanStrList(st))
	}
	// ---- txbuilder witness JSON: what is written under "signatures"
	for _, spec := range [][3]string{{"blockchain/txbuilder/signature_witness.go", "SignatureWitness", "sigWitnessMarshalSigs"},
		{"blockchain/txbuilder/rawtxsig_witness.go", "RawTxSigWitness", "rawTxSigWitnessMarshalSigs"}} {
		wf, err := wparse(repo, spec[0])
		if err != nil {
			return "", err
		}
		fd, err = wf.fn("MarshalJSON", spec[1])
		if err != nil {
			return "", err
		}
		val := ""
		ast.Inspect(fd.Body, func(x ast.Node) bool {
			if kv, ok := x.(*ast.KeyValueExpr); ok {
				if id, ok := kv.Key.(*ast.Ident); ok && id.Name == "Sigs" {
					val = wf.str(kv.Value)
				}
			}
			return true
		})
		if val == "" {
			return "", fmt.Errorf("%s.MarshalJSON: no Sigs field", spec[1])
		}
		fmt.Fprintf(&b, "def %s : String := %s\n", spec[2], walletLeanStr(val))
	}
	b.WriteString("\nend BytomModel.Gen.WalletFacts\n")
	return b.String(), nil
}

func init() { register("WalletFacts", genWalletFacts) }
