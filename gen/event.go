package main

import (
	"fmt"
	"go/ast"
	"go/token"
	"sort"
	"strconv"
	"strings"
)

// ---- lock-order skeleton of event.go (C39) ---------------------------------------------
//
// For every function of the file: the ordered list of mutex acquisitions and of calls to other
// functions of the file, each with the set of mutex CLASSES held at that point. A mutex class
// is "<Struct>.<field>" of a sync.Mutex / sync.RWMutex field (Dispatcher.mutex,
// Subscription.closeMu, Subscription.postMu); Lock and RLock count alike; `defer X.Unlock()`
// keeps X held to the end of the function. A nested block that ends in `return` is walked
// with a copy of the held set; any other nested block must leave the held set as it found it.
// Fails loudly on: a lock expression that is not a known mutex field, an unlock of something
// not held, a nested block that changes the held set without returning, go statements and
// function literals that lock.
type evLockWalk struct {
	p       *n2file
	classes map[string]string // field name -> "Struct.field"
	funcs   map[string]string // method / function name -> "Recv.name"
	out     []string
	err     error
}

func (w *evLockWalk) lockCall(e ast.Expr) (op, class string, ok bool) {
	call, isCall := e.(*ast.CallExpr)
	if !isCall || len(call.Args) != 0 {
		return
	}
	sel, isSel := call.Fun.(*ast.SelectorExpr)
	if !isSel {
		return
	}
	switch sel.Sel.Name {
	case "Lock", "RLock", "Unlock", "RUnlock":
	default:
		return
	}
	inner, isSel2 := sel.X.(*ast.SelectorExpr)
	if !isSel2 {
		w.err = fmt.Errorf("lock expression %s: not a struct field", w.p.str(sel.X))
		return
	}
	cl, known := w.classes[inner.Sel.Name]
	if !known {
		w.err = fmt.Errorf("lock expression %s: %s is not a mutex field of this file", w.p.str(sel.X), inner.Sel.Name)
		return
	}
	return sel.Sel.Name, cl, true
}

func evHeldStr(held []string) string {
	h := append([]string(nil), held...)
	sort.Strings(h)
	return strings.Join(h, ",")
}

func (w *evLockWalk) expr(n ast.Node, held []string) {
	// calls to functions of this file inside an expression / statement
	ast.Inspect(n, func(x ast.Node) bool {
		if w.err != nil {
			return false
		}
		switch c := x.(type) {
		case *ast.FuncLit:
			ast.Inspect(c.Body, func(y ast.Node) bool {
				if ce, ok := y.(*ast.CallExpr); ok {
					if _, _, isLock := w.lockCall(ce); isLock {
						w.err = fmt.Errorf("function literal that locks")
					}
				}
				return true
			})
			return false
		case *ast.CallExpr:
			name := ""
			switch f := c.Fun.(type) {
			case *ast.Ident:
				name = f.Name // plain function (a method cannot be called this way; `close(ch)` is the builtin)
			case *ast.SelectorExpr:
				name = "." + f.Sel.Name // method
			}
			if q, ok := w.funcs[name]; ok {
				w.out = append(w.out, "call "+q+" held="+evHeldStr(held))
			}
		}
		return true
	})
}

func evRemove(held []string, c string) ([]string, bool) {
	for i := len(held) - 1; i >= 0; i-- {
		if held[i] == c {
			return append(append([]string(nil), held[:i]...), held[i+1:]...), true
		}
	}
	return held, false
}

// block walks statements; returns the held set at the end and whether the block returns.
func (w *evLockWalk) block(stmts []ast.Stmt, held []string) ([]string, bool) {
	for _, st := range stmts {
		if w.err != nil {
			return held, false
		}
		switch s := st.(type) {
		case *ast.ExprStmt:
			if op, cl, ok := w.lockCall(s.X); ok {
				switch op {
				case "Lock", "RLock":
					w.out = append(w.out, "acq "+cl+" held="+evHeldStr(held))
					held = append(append([]string(nil), held...), cl)
				default:
					var found bool
					held, found = evRemove(held, cl)
					if !found {
						w.err = fmt.Errorf("unlock of %s which is not held", cl)
					}
				}
				continue
			}
			if w.err != nil {
				return held, false
			}
			w.expr(s, held)
		case *ast.DeferStmt:
			if op, _, ok := w.lockCall(s.Call); ok {
				if op == "Lock" || op == "RLock" {
					w.err = fmt.Errorf("deferred lock")
				}
				continue // deferred unlock: held to the end of the function
			}
			w.expr(s.Call, held)
		case *ast.GoStmt:
			w.err = fmt.Errorf("go statement")
		case *ast.ReturnStmt:
			w.expr(s, held)
			return held, true
		case *ast.IfStmt:
			if s.Init != nil {
				w.expr(s.Init, held)
			}
			w.expr(s.Cond, held)
			w.nested(s.Body.List, held)
			if s.Else != nil {
				switch e := s.Else.(type) {
				case *ast.BlockStmt:
					w.nested(e.List, held)
				default:
					w.nested([]ast.Stmt{e}, held)
				}
			}
		case *ast.ForStmt:
			if s.Init != nil {
				w.expr(s.Init, held)
			}
			if s.Cond != nil {
				w.expr(s.Cond, held)
			}
			w.nested(s.Body.List, held)
		case *ast.RangeStmt:
			w.expr(s.X, held)
			w.nested(s.Body.List, held)
		case *ast.SelectStmt:
			for _, c := range s.Body.List {
				cc := c.(*ast.CommClause)
				if cc.Comm != nil {
					w.expr(cc.Comm, held)
				}
				w.nested(cc.Body, held)
			}
		case *ast.SwitchStmt:
			for _, c := range s.Body.List {
				w.nested(c.(*ast.CaseClause).Body, held)
			}
		case *ast.BlockStmt:
			w.nested(s.List, held)
		default:
			w.expr(st, held)
		}
	}
	return held, false
}

func (w *evLockWalk) nested(stmts []ast.Stmt, held []string) {
	after, returns := w.block(stmts, held)
	if w.err == nil && !returns && evHeldStr(after) != evHeldStr(held) {
		w.err = fmt.Errorf("a nested block changes the set of held locks (%s -> %s) without returning", evHeldStr(held), evHeldStr(after))
	}
}

func genEventLocks(p *n2file) ([][2]string, error) {
	w := &evLockWalk{p: p, classes: map[string]string{}, funcs: map[string]string{}}
	for _, d := range p.f.Decls {
		gd, ok := d.(*ast.GenDecl)
		if !ok {
			continue
		}
		for _, sp := range gd.Specs {
			ts, ok := sp.(*ast.TypeSpec)
			if !ok {
				continue
			}
			stt, ok := ts.Type.(*ast.StructType)
			if !ok {
				continue
			}
			for _, f := range stt.Fields.List {
				t := p.str(f.Type)
				if t == "sync.Mutex" || t == "sync.RWMutex" {
					for _, n := range f.Names {
						if _, dup := w.classes[n.Name]; dup {
							return nil, fmt.Errorf("mutex field name %s is used by two structs", n.Name)
						}
						w.classes[n.Name] = ts.Name.Name + "." + n.Name
					}
				}
			}
		}
	}
	var decls []*ast.FuncDecl
	qname := map[*ast.FuncDecl]string{}
	for _, d := range p.f.Decls {
		fd, ok := d.(*ast.FuncDecl)
		if !ok || fd.Body == nil {
			continue
		}
		q, key := fd.Name.Name, fd.Name.Name
		if fd.Recv != nil && len(fd.Recv.List) == 1 {
			t := fd.Recv.List[0].Type
			if s, ok := t.(*ast.StarExpr); ok {
				t = s.X
			}
			q = p.str(t) + "." + q
			key = "." + fd.Name.Name
		}
		if _, dup := w.funcs[key]; dup {
			return nil, fmt.Errorf("function name %s is declared twice (calls are resolved by name)", fd.Name.Name)
		}
		w.funcs[key] = q
		qname[fd] = q
		decls = append(decls, fd)
	}
	var res [][2]string
	for _, fd := range decls {
		w.out = nil
		w.block(fd.Body.List, nil)
		if w.err != nil {
			return nil, fmt.Errorf("lock skeleton of %s: %v", qname[fd], w.err)
		}
		for _, o := range w.out {
			res = append(res, [2]string{qname[fd], o})
		}
	}
	return res, nil
}

// Facts of event/event.go the dispatcher model depends on (C39):
//   - maxEventChSize (capacity of every subscription channel)
//   - the arms of the select in Subscription.deliver, in source order
//     ("send:<chan>", "recv:<chan>", "default") — the model's deliver is: closed => nothing,
//     room => append, otherwise drop; that is only right with exactly these three arms
//   - Post: ErrMuxClosed is returned iff d.stopped (the guard expression), and the
//     delivery loop ranges over the slice read under the lock
//   - Stop sets `d.stopped = true` and `d.subm = nil`
func genEvent(repo string) (string, error) {
	p, err := n2parse(repo, "event/event.go")
	if err != nil {
		return "", err
	}
	capSrc, err := p.constExpr("maxEventChSize")
	if err != nil {
		return "", err
	}
	capN, err := strconv.ParseUint(capSrc, 0, 63)
	if err != nil {
		return "", fmt.Errorf("maxEventChSize is not an integer literal: %s", capSrc)
	}
	del, err := p.fn("Subscription", "deliver")
	if err != nil {
		return "", err
	}
	var arms []string
	nsel := 0
	var bad error
	ast.Inspect(del.Body, func(n ast.Node) bool {
		sel, ok := n.(*ast.SelectStmt)
		if !ok {
			return true
		}
		nsel++
		for _, c := range sel.Body.List {
			cc := c.(*ast.CommClause)
			switch s := cc.Comm.(type) {
			case nil:
				arms = append(arms, "default")
			case *ast.SendStmt:
				arms = append(arms, "send:"+p.str(s.Chan))
			case *ast.ExprStmt:
				u, ok := s.X.(*ast.UnaryExpr)
				if !ok || u.Op != token.ARROW {
					bad = fmt.Errorf("deliver: select arm %s", p.str(s))
					return false
				}
				arms = append(arms, "recv:"+p.str(u.X))
			default:
				bad = fmt.Errorf("deliver: select arm %s", p.str(cc.Comm))
				return false
			}
		}
		return false
	})
	if bad != nil {
		return "", bad
	}
	if nsel != 1 {
		return "", fmt.Errorf("deliver: expected exactly one select statement, found %d", nsel)
	}
	// make(chan *TypeMuxEvent, <cap expr>) in newSubscription
	ns, err := p.fn("", "newSubscription")
	if err != nil {
		return "", err
	}
	chanCap := ""
	ast.Inspect(ns.Body, func(n ast.Node) bool {
		call, ok := n.(*ast.CallExpr)
		if !ok {
			return true
		}
		if id, ok := call.Fun.(*ast.Ident); ok && id.Name == "make" && len(call.Args) == 2 {
			if _, ok := call.Args[0].(*ast.ChanType); ok {
				chanCap = p.str(call.Args[1])
			}
		}
		return true
	})
	if chanCap == "" {
		return "", fmt.Errorf("newSubscription: no buffered `make(chan …, n)` found")
	}
	// Post: the first if-statement's condition and its returned error
	post, err := p.fn("Dispatcher", "Post")
	if err != nil {
		return "", err
	}
	postGuard, postErr := "", ""
	for _, st := range post.Body.List {
		ifs, ok := st.(*ast.IfStmt)
		if !ok {
			continue
		}
		postGuard = p.str(ifs.Cond)
		for _, b := range ifs.Body.List {
			if r, ok := b.(*ast.ReturnStmt); ok && len(r.Results) == 1 {
				postErr = p.str(r.Results[0])
			}
		}
		break
	}
	if postGuard == "" || postErr == "" {
		return "", fmt.Errorf("Post: guard `if d.stopped { … return ErrMuxClosed }` not found")
	}
	// Stop: assignments to d.stopped / d.subm
	stop, err := p.fn("Dispatcher", "Stop")
	if err != nil {
		return "", err
	}
	var stopAssigns []string
	ast.Inspect(stop.Body, func(n ast.Node) bool {
		if a, ok := n.(*ast.AssignStmt); ok && len(a.Lhs) == 1 && len(a.Rhs) == 1 {
			stopAssigns = append(stopAssigns, p.str(a.Lhs[0])+"="+p.str(a.Rhs[0]))
		}
		return true
	})
	locks, err := genEventLocks(p)
	if err != nil {
		return "", err
	}
	lockLines := ""
	for i, l := range locks {
		// (function, isCall, lock class or callee, classes held at that point)
		parts := strings.SplitN(l[1], " held=", 2)
		kind, target := strings.SplitN(parts[0], " ", 2)[0], strings.SplitN(parts[0], " ", 2)[1]
		var held []string
		if parts[1] != "" {
			held = strings.Split(parts[1], ",")
		}
		sep := ","
		if i == len(locks)-1 {
			sep = ""
		}
		lockLines += fmt.Sprintf("  (%s, %v, %s, %s)%s\n", n2leanStr(l[0]), kind == "call", n2leanStr(target), n2leanStrList(held), sep)
	}
	out := "/- GENERATED by /verif/gen/event.go from event/event.go — do not edit -/\n" +
		"namespace BytomModel.Gen.Event\n\n" +
		fmt.Sprintf("def maxEventChSize : Nat := %d\n", capN) +
		fmt.Sprintf("def chanCapExpr : String := %s\n", n2leanStr(chanCap)) +
		fmt.Sprintf("def deliverArms : List String := %s\n", n2leanStrList(arms)) +
		fmt.Sprintf("def postGuard : String := %s\n", n2leanStr(postGuard)) +
		fmt.Sprintf("def postGuardError : String := %s\n", n2leanStr(postErr)) +
		fmt.Sprintf("def stopAssigns : List String := %s\n", n2leanStrList(stopAssigns)) +
		"/-- lock skeleton: (function, isCall, mutex class acquired | function called, mutex classes held) in source order -/\n" +
		"def lockSkel : List (String × Bool × String × List String) := [\n" + lockLines + "]\n" +
		"\nend BytomModel.Gen.Event\n"
	return out, nil
}

func init() { register("Event", genEvent) }
