package main

import (
	"bytes"
	"fmt"
	"go/ast"
	"go/parser"
	"go/printer"
	"go/token"
	"path/filepath"
	"strings"
)

// helpers shared by the fact extractors of C32 / C36 / C39 (prefix n2 to stay clear of
// other builders' helpers in this package)

type n2file struct {
	fset *token.FileSet
	f    *ast.File
}

func n2parse(repo, rel string) (*n2file, error) {
	fset := token.NewFileSet()
	f, err := parser.ParseFile(fset, filepath.Join(repo, rel), nil, 0)
	if err != nil {
		return nil, err
	}
	return &n2file{fset, f}, nil
}

func (p *n2file) str(n ast.Node) string {
	var b bytes.Buffer
	printer.Fprint(&b, p.fset, n)
	return strings.Join(strings.Fields(b.String()), " ")
}

// fn returns the declaration of function `name` (receiver type `recv`, "" for none).
func (p *n2file) fn(recv, name string) (*ast.FuncDecl, error) {
	for _, d := range p.f.Decls {
		fd, ok := d.(*ast.FuncDecl)
		if !ok || fd.Name.Name != name {
			continue
		}
		r := ""
		if fd.Recv != nil && len(fd.Recv.List) == 1 {
			t := fd.Recv.List[0].Type
			if s, ok := t.(*ast.StarExpr); ok {
				t = s.X
			}
			if id, ok := t.(*ast.Ident); ok {
				r = id.Name
			}
		}
		if r == recv {
			return fd, nil
		}
	}
	return nil, fmt.Errorf("function %s.%s not found", recv, name)
}

// constExpr returns the source text of the value of package-level const/var `name`.
func (p *n2file) constExpr(name string) (string, error) {
	for _, d := range p.f.Decls {
		gd, ok := d.(*ast.GenDecl)
		if !ok {
			continue
		}
		for _, s := range gd.Specs {
			vs, ok := s.(*ast.ValueSpec)
			if !ok {
				continue
			}
			for i, n := range vs.Names {
				if n.Name == name && i < len(vs.Values) {
					return p.str(vs.Values[i]), nil
				}
			}
		}
	}
	return "", fmt.Errorf("constant %s not found", name)
}

func n2leanStr(s string) string {
	return "\"" + strings.ReplaceAll(strings.ReplaceAll(s, "\\", "\\\\"), "\"", "\\\"") + "\""
}

func n2leanStrList(l []string) string {
	q := make([]string, len(l))
	for i, s := range l {
		q[i] = n2leanStr(s)
	}
	return "[" + strings.Join(q, ", ") + "]"
}
