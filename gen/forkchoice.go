package main

// Fact extractor for C11 (tie T1): the shape of the fork-choice search
// `treeNode.bestNode` (protocol/casper/tree_node.go) — its replace condition is TRANSLATED
// to a Lean Bool function over naturals (hash strings compared via their rank) — and the
// main-chain index writes of `Store.SaveChainStatus` (database/store.go).
// Fails loudly on any source shape it does not understand.

import (
	"bytes"
	"fmt"
	"go/ast"
	"go/parser"
	"go/printer"
	"go/token"
	"path/filepath"
	"regexp"
	"strings"
)

func init() { register("ForkChoice", genForkChoice) }

func fcText(fset *token.FileSet, n ast.Node) string {
	var b bytes.Buffer
	printer.Fprint(&b, fset, n)
	return strings.Join(strings.Fields(b.String()), " ")
}

func fcFindFunc(f *ast.File, recv, name string) *ast.FuncDecl {
	for _, d := range f.Decls {
		fd, ok := d.(*ast.FuncDecl)
		if !ok || fd.Name.Name != name || fd.Body == nil {
			continue
		}
		if recv == "" {
			if fd.Recv == nil {
				return fd
			}
			continue
		}
		if fd.Recv == nil || len(fd.Recv.List) != 1 {
			continue
		}
		if st, ok := fd.Recv.List[0].Type.(*ast.StarExpr); ok {
			if id, ok := st.X.(*ast.Ident); ok && id.Name == recv {
				return fd
			}
		}
	}
	return nil
}

// translate the replace condition; leaves are renamed through `names`
func fcExpr(fset *token.FileSet, e ast.Expr, names map[string]string) (string, error) {
	switch x := e.(type) {
	case *ast.ParenExpr:
		return fcExpr(fset, x.X, names)
	case *ast.BinaryExpr:
		l, err := fcExpr(fset, x.X, names)
		if err != nil {
			return "", err
		}
		r, err := fcExpr(fset, x.Y, names)
		if err != nil {
			return "", err
		}
		switch x.Op {
		case token.LOR:
			return "(" + l + " || " + r + ")", nil
		case token.LAND:
			return "(" + l + " && " + r + ")", nil
		case token.GTR:
			return "decide (" + l + " > " + r + ")", nil
		case token.EQL:
			return "(" + l + " == " + r + ")", nil
		default:
			return "", fmt.Errorf("bestNode: operator %s in the replace condition is not understood", x.Op)
		}
	default:
		t := fcText(fset, e)
		if n, ok := names[t]; ok {
			return n, nil
		}
		return "", fmt.Errorf("bestNode: operand %q in the replace condition is not understood", t)
	}
}

func genForkChoice(repo string) (string, error) {
	fset := token.NewFileSet()
	f, err := parser.ParseFile(fset, filepath.Join(repo, "protocol/casper/tree_node.go"), nil, 0)
	if err != nil {
		return "", err
	}
	fd := fcFindFunc(f, "treeNode", "bestNode")
	if fd == nil {
		return "", fmt.Errorf("(*treeNode).bestNode not found")
	}
	if len(fd.Recv.List[0].Names) != 1 || fd.Type.Params == nil || len(fd.Type.Params.List) != 1 || len(fd.Type.Params.List[0].Names) != 1 {
		return "", fmt.Errorf("bestNode: unexpected signature")
	}
	recv := fd.Recv.List[0].Names[0].Name
	jh := fd.Type.Params.List[0].Names[0].Name
	stmts := fd.Body.List
	if len(stmts) != 4 {
		return "", fmt.Errorf("bestNode: expected 4 statements (if, init, for, return), found %d", len(stmts))
	}
	// 1. if t.Status == state.Justified { justifiedHeight = t.Height }
	if1, ok := stmts[0].(*ast.IfStmt)
	if !ok || if1.Init != nil || if1.Else != nil || len(if1.Body.List) != 1 {
		return "", fmt.Errorf("bestNode: first statement is not the plain justified-height if")
	}
	justCond := fcText(fset, if1.Cond)
	justBody := fcText(fset, if1.Body.List[0])
	// 2. bestNode, bestJustified := t, justifiedHeight
	as, ok := stmts[1].(*ast.AssignStmt)
	if !ok || as.Tok != token.DEFINE || len(as.Lhs) != 2 || len(as.Rhs) != 2 {
		return "", fmt.Errorf("bestNode: second statement is not the accumulator initialisation")
	}
	accNode, accJ := fcText(fset, as.Lhs[0]), fcText(fset, as.Lhs[1])
	initText := fcText(fset, as)
	// 3. for _, child := range t.children { bestChild, childJustified := child.bestNode(jh); if cond { acc = cand } }
	rs, ok := stmts[2].(*ast.RangeStmt)
	if !ok || rs.Value == nil || len(rs.Body.List) != 2 {
		return "", fmt.Errorf("bestNode: third statement is not the two-statement range loop over the children")
	}
	rangeOver := fcText(fset, rs.X)
	child := fcText(fset, rs.Value)
	rec, ok := rs.Body.List[0].(*ast.AssignStmt)
	if !ok || rec.Tok != token.DEFINE || len(rec.Lhs) != 2 || len(rec.Rhs) != 1 {
		return "", fmt.Errorf("bestNode: loop body does not start with the recursive call")
	}
	candNode, candJ := fcText(fset, rec.Lhs[0]), fcText(fset, rec.Lhs[1])
	recCall := fcText(fset, rec.Rhs[0])
	if2, ok := rs.Body.List[1].(*ast.IfStmt)
	if !ok || if2.Init != nil || if2.Else != nil || len(if2.Body.List) != 1 {
		return "", fmt.Errorf("bestNode: loop body does not end with the plain replace if")
	}
	replace := fcText(fset, if2.Body.List[0])
	names := map[string]string{
		candJ: "candJ", accJ: "bestJ",
		candNode + ".Height": "candH", accNode + ".Height": "bestH",
		candNode + ".Hash.String()": "candR", accNode + ".Hash.String()": "bestR",
	}
	cond, err := fcExpr(fset, if2.Cond, names)
	if err != nil {
		return "", err
	}
	// 4. return bestNode, bestJustified
	ret, ok := stmts[3].(*ast.ReturnStmt)
	if !ok {
		return "", fmt.Errorf("bestNode: last statement is not a return")
	}
	retText := fcText(fset, ret)
	word := func(s, from, to string) string {
		return regexp.MustCompile(`\b`+regexp.QuoteMeta(from)+`\b`).ReplaceAllString(s, to)
	}
	norm := func(s string) string {
		s = strings.ReplaceAll(s, "."+fd.Name.Name+"(", ".REC(")
		for _, p := range [][2]string{{accJ, "ACCJ"}, {candJ, "CANDJ"}, {accNode, "ACC"}, {candNode, "CAND"}, {jh, "JH"}, {child, "CHILD"}, {recv, "T"}} {
			s = word(s, p[0], p[1])
		}
		return s
	}

	// ---- SaveChainStatus: writes to the main-chain index
	g, err := parser.ParseFile(fset, filepath.Join(repo, "database/store.go"), nil, 0)
	if err != nil {
		return "", err
	}
	sd := fcFindFunc(g, "Store", "SaveChainStatus")
	if sd == nil {
		return "", fmt.Errorf("(*Store).SaveChainStatus not found")
	}
	if sd.Type.Params == nil || len(sd.Type.Params.List) < 2 || len(sd.Type.Params.List[1].Names) != 1 {
		return "", fmt.Errorf("SaveChainStatus: unexpected signature")
	}
	mainParam := sd.Type.Params.List[1].Names[0].Name
	var writes []string
	deletes := 0
	var bad error
	var walk func(n ast.Node, loops []string)
	walk = func(n ast.Node, loops []string) {
		ast.Inspect(n, func(m ast.Node) bool {
			if m == nil || m == n {
				return true
			}
			if r, ok := m.(*ast.RangeStmt); ok {
				walk(r.Body, append(append([]string{}, loops...), fcText(fset, r.X)))
				return false
			}
			ce, ok := m.(*ast.CallExpr)
			if !ok {
				return true
			}
			sel, ok := ce.Fun.(*ast.SelectorExpr)
			if !ok {
				return true
			}
			if id, ok := sel.X.(*ast.Ident); !ok || id.Name != "batch" {
				return true
			}
			switch sel.Sel.Name {
			case "Delete":
				deletes++
			case "Set":
				if len(ce.Args) != 2 {
					bad = fmt.Errorf("SaveChainStatus: batch.Set with %d arguments", len(ce.Args))
					return true
				}
				key := fcText(fset, ce.Args[0])
				if strings.HasPrefix(key, "calcMainChainIndexPrefix(") {
					writes = append(writes, strings.Join(loops, ">")+" | "+key)
				}
			}
			return true
		})
	}
	walk(sd.Body, nil)
	if bad != nil {
		return "", bad
	}
	// the index value is the hash of the same header whose height is the key: find its derivation
	valueFrom := ""
	ast.Inspect(sd.Body, func(m ast.Node) bool {
		as, ok := m.(*ast.AssignStmt)
		if !ok || len(as.Lhs) != 1 || len(as.Rhs) != 1 {
			return true
		}
		if fcText(fset, as.Lhs[0]) == "blockHash" {
			valueFrom = fcText(fset, as.Rhs[0])
		}
		return true
	})
	// normalise the loop variable copy `bh := blockHeader`
	loopVar := ""
	ast.Inspect(sd.Body, func(m ast.Node) bool {
		if r, ok := m.(*ast.RangeStmt); ok && fcText(fset, r.X) == mainParam && r.Value != nil {
			loopVar = fcText(fset, r.Value)
		}
		return true
	})
	copyVar := ""
	if loopVar != "" {
		ast.Inspect(sd.Body, func(m ast.Node) bool {
			as, ok := m.(*ast.AssignStmt)
			if ok && as.Tok == token.DEFINE && len(as.Lhs) == 1 && len(as.Rhs) == 1 && fcText(fset, as.Rhs[0]) == loopVar {
				copyVar = fcText(fset, as.Lhs[0])
			}
			return true
		})
	}
	normS := func(s string) string {
		if copyVar != "" {
			s = strings.ReplaceAll(s, copyVar+".", "HDR.")
		}
		if loopVar != "" {
			s = strings.ReplaceAll(s, loopVar+".", "HDR.")
		}
		return strings.ReplaceAll(s, mainParam, "ATTACHED")
	}
	for i := range writes {
		writes[i] = normS(writes[i])
	}

	var b strings.Builder
	b.WriteString("-- GENERATED by /verif/gen/forkchoice.go from protocol/casper/tree_node.go and database/store.go — do not edit\n")
	b.WriteString("namespace BytomModel.Gen.ForkChoice\n\n")
	b.WriteString("/-- the replace condition of `treeNode.bestNode`, hash strings compared through their rank -/\n")
	b.WriteString("def better (candJ candH candR bestJ bestH bestR : Nat) : Bool :=\n  " + cond + "\n\n")
	b.WriteString("/-- the statements around it, identifiers normalised -/\n")
	b.WriteString("def justifiedIf : String × String := (" + storeLeanStr(norm(justCond)) + ", " + storeLeanStr(norm(justBody)) + ")\n")
	b.WriteString("def accInit : String := " + storeLeanStr(norm(initText)) + "\n")
	b.WriteString("def loopOver : String := " + storeLeanStr(norm(rangeOver)) + "\n")
	b.WriteString("def recursiveCall : String := " + storeLeanStr(norm(recCall)) + "\n")
	b.WriteString("def replaceStmt : String := " + storeLeanStr(norm(replace)) + "\n")
	b.WriteString("def returnStmt : String := " + storeLeanStr(norm(retText)) + "\n\n")
	b.WriteString("/-- `SaveChainStatus`: writes under the main-chain index prefix (enclosing range loops | key), the\n    expression the written hash is computed from, and the number of `batch.Delete` calls -/\n")
	b.WriteString("def indexWrites : List String := " + storeLeanStrList(writes) + "\n")
	b.WriteString("def indexValueFrom : String := " + storeLeanStr(normS(valueFrom)) + "\n")
	b.WriteString(fmt.Sprintf("def batchDeletes : Nat := %d\n", deletes))
	b.WriteString("\nend BytomModel.Gen.ForkChoice\n")
	return b.String(), nil
}
