package main

// Fact extractors for the codec properties:
//   CodecCalls (C04/C05): for every readFrom / writeTo style method of protocol/bc/types
//     (and bc.AssetAmount) the ordered list of codec-primitive calls in its body, closures
//     included, in source order;
//   HashFields (C03): for every bc entry type its typ() string and the ordered argument list
//     of its mustWriteForHash calls, plus the declaration order of the fields of the
//     reflect-hashed protobuf structs.
// go/ast only; unknown shapes are errors.

import (
	"bytes"
	"fmt"
	"go/ast"
	"go/parser"
	"go/printer"
	"go/token"
	"io/ioutil"
	"path/filepath"
	"sort"
	"strconv"
	"strings"
)

func init() {
	register("CodecCalls", genCodecCalls)
	register("HashFields", genHashFields)
}

func codecLeanList(xs []string) string {
	q := make([]string, len(xs))
	for i, x := range xs {
		q[i] = strconv.Quote(x)
	}
	return "[" + strings.Join(q, ", ") + "]"
}

func exprText(fset *token.FileSet, e ast.Expr) string {
	var b bytes.Buffer
	printer.Fprint(&b, fset, e)
	return b.String()
}

func recvTypeName(fd *ast.FuncDecl) string {
	if fd.Recv == nil || len(fd.Recv.List) != 1 {
		return ""
	}
	t := fd.Recv.List[0].Type
	if s, ok := t.(*ast.StarExpr); ok {
		t = s.X
	}
	if id, ok := t.(*ast.Ident); ok {
		return id.Name
	}
	return ""
}

var codecMethodNames = map[string]bool{
	"readFrom": true, "writeTo": true, "readCommitment": true, "readWitness": true,
	"writeCommitment": true, "writeWitness": true, "writeContents": true, "writeExtensibleString": true,
	"writeInputCommitment": true, "writeInputWitness": true, "ReadFrom": true, "WriteTo": true,
}

// calls that count as codec primitives when they are methods (selector name)
var codecCalleeMethods = map[string]bool{
	"ReadFrom": true, "WriteTo": true, "readFrom": true, "writeTo": true, "readCommitment": true,
	"readWitness": true, "writeCommitment": true, "writeWitness": true, "writeContents": true,
	"writeExtensibleString": true, "Write": true, "ReadFull": true,
}

func genCodecCalls(repo string) (string, error) {
	fset := token.NewFileSet()
	dir := filepath.Join(repo, "protocol/bc/types")
	files, err := ioutil.ReadDir(dir)
	if err != nil {
		return "", err
	}
	var paths []string
	for _, fi := range files {
		n := fi.Name()
		if strings.HasSuffix(n, ".go") && !strings.HasSuffix(n, "_test.go") && !strings.HasSuffix(n, "_verif.go") {
			paths = append(paths, filepath.Join(dir, n))
		}
	}
	paths = append(paths, filepath.Join(repo, "protocol/bc/asset.go"))
	facts := map[string][]string{}
	kinds := map[string][]string{}
	kindOf := func(call string) string {
		switch {
		case strings.HasSuffix(call, "Varint63"):
			return "u63"
		case strings.HasSuffix(call, "Varint31"):
			return "u31"
		case strings.HasSuffix(call, "Varstr31"):
			return "str"
		case strings.HasSuffix(call, "VarstrList"):
			return "strlist"
		case strings.Contains(call, "ExtensibleString("):
			return "ext"
		case call == "io.ReadFull", strings.HasSuffix(call, ".Write"), call == "parseTypedInput", call == "parseTypedOutput":
			return "bytes"
		case call == "NewTx":
			return "map"
		case call == "make":
			return "make"
		}
		return "sub"
	}
	for _, p := range paths {
		f, err := parser.ParseFile(fset, p, nil, 0)
		if err != nil {
			return "", err
		}
		for _, d := range f.Decls {
			fd, ok := d.(*ast.FuncDecl)
			if !ok || fd.Body == nil || !codecMethodNames[fd.Name.Name] {
				continue
			}
			rt := recvTypeName(fd)
			if rt == "" {
				continue
			}
			if strings.HasSuffix(p, "asset.go") && rt != "AssetAmount" {
				continue
			}
			key := rt + "." + fd.Name.Name
			if _, dup := facts[key]; dup {
				return "", fmt.Errorf("two declarations of %s", key)
			}
			calls := []string{}
			ast.Inspect(fd.Body, func(n ast.Node) bool {
				ce, ok := n.(*ast.CallExpr)
				if !ok {
					return true
				}
				switch fun := ce.Fun.(type) {
				case *ast.SelectorExpr:
					if x, ok := fun.X.(*ast.Ident); ok && x.Name == "blockchain" {
						name := fun.Sel.Name
						if strings.HasSuffix(name, "ExtensibleString") {
							last := ce.Args[len(ce.Args)-1]
							switch a := last.(type) {
							case *ast.FuncLit:
								name += "(func)"
							case *ast.SelectorExpr:
								name += "(" + exprText(fset, a) + ")"
							default:
								name += "(?)"
							}
						}
						calls = append(calls, name)
						return true
					}
					if codecCalleeMethods[fun.Sel.Name] {
						calls = append(calls, exprText(fset, fun))
					}
				case *ast.Ident:
					switch fun.Name {
					case "parseTypedInput", "parseTypedOutput", "NewTx", "make":
						calls = append(calls, fun.Name)
					}
				}
				return true
			})
			facts[key] = calls
			ks := make([]string, len(calls))
			for i, c := range calls {
				ks[i] = kindOf(c)
			}
			kinds[key] = ks
		}
	}
	if len(facts) < 30 {
		return "", fmt.Errorf("only %d codec methods found", len(facts))
	}
	keys := []string{}
	for k := range facts {
		keys = append(keys, k)
	}
	sort.Strings(keys)
	var b strings.Builder
	b.WriteString("/- REGENERATED by gen/codecfacts.go from protocol/bc/types/*.go and protocol/bc/asset.go — do not edit.\n")
	b.WriteString("   Ordered codec-primitive calls (closures included, source order) of every readFrom/writeTo style method. -/\n")
	b.WriteString("namespace BytomModel.Gen.CodecCalls\n\n")
	b.WriteString("def calls : List (String × List String) := [\n")
	for i, k := range keys {
		sep := ","
		if i == len(keys)-1 {
			sep = ""
		}
		fmt.Fprintf(&b, "  (%s, %s)%s\n", strconv.Quote(k), codecLeanList(facts[k]), sep)
	}
	b.WriteString("]\n\n/-- the same lists reduced to primitive kinds: u63 u31 str strlist ext bytes sub map make -/\n")
	b.WriteString("def kinds : List (String × List String) := [\n")
	for i, k := range keys {
		sep := ","
		if i == len(keys)-1 {
			sep = ""
		}
		fmt.Fprintf(&b, "  (%s, %s)%s\n", strconv.Quote(k), codecLeanList(kinds[k]), sep)
	}
	b.WriteString("]\n\nend BytomModel.Gen.CodecCalls\n")
	return b.String(), nil
}

func genHashFields(repo string) (string, error) {
	fset := token.NewFileSet()
	dir := filepath.Join(repo, "protocol/bc")
	files, err := ioutil.ReadDir(dir)
	if err != nil {
		return "", err
	}
	typ := map[string]string{}
	fields := map[string][]string{}
	structs := map[string][]string{}
	wantStructs := map[string]bool{"ValueSource": true, "AssetAmount": true, "Program": true, "ValueDestination": true,
		"AssetDefinition": true, "Hash": true, "AssetID": true}
	for _, fi := range files {
		n := fi.Name()
		if !strings.HasSuffix(n, ".go") || strings.HasSuffix(n, "_test.go") || strings.HasSuffix(n, "_verif.go") {
			continue
		}
		f, err := parser.ParseFile(fset, filepath.Join(dir, n), nil, 0)
		if err != nil {
			return "", err
		}
		for _, d := range f.Decls {
			switch d := d.(type) {
			case *ast.FuncDecl:
				rt := recvTypeName(d)
				if rt == "" || d.Body == nil {
					continue
				}
				switch d.Name.Name {
				case "typ":
					if len(d.Body.List) != 1 {
						return "", fmt.Errorf("%s.typ(): unexpected body", rt)
					}
					ret, ok := d.Body.List[0].(*ast.ReturnStmt)
					if !ok || len(ret.Results) != 1 {
						return "", fmt.Errorf("%s.typ(): unexpected body", rt)
					}
					lit, ok := ret.Results[0].(*ast.BasicLit)
					if !ok || lit.Kind != token.STRING {
						return "", fmt.Errorf("%s.typ(): not a string literal", rt)
					}
					s, err := strconv.Unquote(lit.Value)
					if err != nil {
						return "", err
					}
					typ[rt] = s
				case "writeForHash":
					recv := ""
					if len(d.Recv.List[0].Names) == 1 {
						recv = d.Recv.List[0].Names[0].Name
					}
					fs := []string{}
					for _, st := range d.Body.List {
						es, ok := st.(*ast.ExprStmt)
						if !ok {
							return "", fmt.Errorf("%s.writeForHash: statement is not a call", rt)
						}
						ce, ok := es.X.(*ast.CallExpr)
						if !ok {
							return "", fmt.Errorf("%s.writeForHash: statement is not a call", rt)
						}
						id, ok := ce.Fun.(*ast.Ident)
						if !ok || id.Name != "mustWriteForHash" || len(ce.Args) != 2 {
							return "", fmt.Errorf("%s.writeForHash: not mustWriteForHash(w, x)", rt)
						}
						sel, ok := ce.Args[1].(*ast.SelectorExpr)
						if !ok {
							return "", fmt.Errorf("%s.writeForHash: argument is not a field", rt)
						}
						if x, ok := sel.X.(*ast.Ident); !ok || x.Name != recv {
							return "", fmt.Errorf("%s.writeForHash: argument is not a field of the receiver", rt)
						}
						fs = append(fs, sel.Sel.Name)
					}
					fields[rt] = fs
				}
			case *ast.GenDecl:
				for _, sp := range d.Specs {
					ts, ok := sp.(*ast.TypeSpec)
					if !ok || !wantStructs[ts.Name.Name] {
						continue
					}
					st, ok := ts.Type.(*ast.StructType)
					if !ok {
						return "", fmt.Errorf("%s is not a struct", ts.Name.Name)
					}
					fs := []string{}
					for _, fld := range st.Fields.List {
						if len(fld.Names) == 0 {
							fs = append(fs, "embedded:"+exprText(fset, fld.Type))
						}
						for _, nm := range fld.Names {
							fs = append(fs, nm.Name+" "+exprText(fset, fld.Type))
						}
					}
					structs[ts.Name.Name] = fs
				}
			}
		}
	}
	if len(fields) != len(typ) {
		return "", fmt.Errorf("%d typ() methods but %d writeForHash methods", len(typ), len(fields))
	}
	for k := range wantStructs {
		if _, ok := structs[k]; !ok {
			return "", fmt.Errorf("struct %s not found", k)
		}
	}
	var b strings.Builder
	b.WriteString("/- REGENERATED by gen/codecfacts.go from protocol/bc/*.go — do not edit.\n")
	b.WriteString("   entries: (Go type, typ() string, ordered mustWriteForHash arguments); structs: field declaration order. -/\n")
	b.WriteString("namespace BytomModel.Gen.HashFields\n\n")
	keys := []string{}
	for k := range typ {
		if _, ok := fields[k]; !ok {
			return "", fmt.Errorf("%s has typ() but no writeForHash", k)
		}
		keys = append(keys, k)
	}
	sort.Strings(keys)
	b.WriteString("def entries : List (String × String × List String) := [\n")
	for i, k := range keys {
		sep := ","
		if i == len(keys)-1 {
			sep = ""
		}
		fmt.Fprintf(&b, "  (%s, %s, %s)%s\n", strconv.Quote(k), strconv.Quote(typ[k]), codecLeanList(fields[k]), sep)
	}
	b.WriteString("]\n\n")
	skeys := []string{}
	for k := range structs {
		skeys = append(skeys, k)
	}
	sort.Strings(skeys)
	b.WriteString("def structs : List (String × List String) := [\n")
	for i, k := range skeys {
		sep := ","
		if i == len(skeys)-1 {
			sep = ""
		}
		fmt.Fprintf(&b, "  (%s, %s)%s\n", strconv.Quote(k), codecLeanList(structs[k]), sep)
	}
	b.WriteString("]\n\nend BytomModel.Gen.HashFields\n")
	return b.String(), nil
}
