package main

// Fact extractor for C19 (crash recovery): the ORDER in which the block / verification
// entry points call the storage layer, and the order in which each Store write function
// puts record kinds into its batch.  Regenerated on every run as Gen/StoreWrites.lean;
// Ties/C19.lean proves that the write-log model (Model/WriteLog.lean) uses exactly these
// orders.
//
// For a function of the upper layers the fact is the list of tracked calls (by selector
// name) in source order.  A tracked call inside a loop, closure, go or defer statement, or
// in both branches of a conditional, has no single position in a straight-line order: the
// extractor fails loudly on those shapes.
// For a Store write function the fact is the list of key kinds passed to Set (on the batch
// or on the db) in source order ("*" appended when the Set sits in a loop), then "Write"
// for every batch.Write(): one Write = one atomic commit.

import (
	"fmt"
	"go/ast"
	"go/parser"
	"go/token"
	"path/filepath"
	"strconv"
	"strings"
)

type swFunc struct {
	file, recv, name string
}

// calls that write to the store, directly or through the tracked functions below
var swTracked = map[string]bool{
	"ApplyBlock": true, "SaveBlock": true, "SaveCheckpoints": true, "saveCheckpoints": true,
	"SaveBlockHeader": true, "saveVerificationToHeader": true, "SaveChainStatus": true,
	"authVerification": true, "tryRollback": true, "setState": true,
}

var swUpper = []swFunc{
	{"protocol/block.go", "Chain", "saveBlock"},
	{"protocol/casper/apply_block.go", "Casper", "ApplyBlock"},
	{"protocol/casper/apply_block.go", "Casper", "saveCheckpoints"},
	{"protocol/casper/auth_verification.go", "Casper", "AuthVerification"},
	{"protocol/casper/auth_verification.go", "Casper", "authVerification"},
	{"protocol/casper/auth_verification.go", "Casper", "saveVerificationToHeader"},
	{"protocol/protocol.go", "Chain", "setState"},
	{"protocol/protocol.go", "Chain", "initChainStatus"},
}

var swStore = []swFunc{
	{"database/store.go", "Store", "SaveBlock"},
	{"database/store.go", "Store", "SaveBlockHeader"},
	{"database/store.go", "Store", "SaveChainStatus"},
	{"database/store_checkpoint.go", "Store", "SaveCheckpoints"},
}

// key constructors -> record kind
var swKeyKind = map[string]string{
	"CalcBlockHashesKey": "hashes", "CalcBlockHeaderKey": "header", "CalcBlockTransactionsKey": "txs",
	"calcMainChainIndexPrefix": "index", "calcCheckpointKey": "ckpt", "BlockStoreKey": "status",
}

// helpers of SaveChainStatus that fill the batch they are given
var swBatchHelpers = map[string]string{
	"saveUtxoView": "utxo", "deleteContractView": "contract-del", "saveContractView": "contract",
}

func swFind(repo string, f swFunc) (*ast.FuncDecl, error) {
	fset := token.NewFileSet()
	file, err := parser.ParseFile(fset, filepath.Join(repo, f.file), nil, 0)
	if err != nil {
		return nil, err
	}
	for _, d := range file.Decls {
		fd, ok := d.(*ast.FuncDecl)
		if !ok || fd.Recv == nil || fd.Body == nil || fd.Name.Name != f.name || len(fd.Recv.List) != 1 {
			continue
		}
		t := fd.Recv.List[0].Type
		if st, ok := t.(*ast.StarExpr); ok {
			t = st.X
		}
		if id, ok := t.(*ast.Ident); ok && id.Name == f.recv {
			return fd, nil
		}
	}
	return nil, fmt.Errorf("%s: method (%s).%s not found", f.file, f.recv, f.name)
}

// swUpperCalls walks the body in source order; ctx describes the enclosing statements.
func swUpperCalls(f swFunc, fd *ast.FuncDecl) ([]string, error) {
	var out []string
	var err error
	var walk func(n ast.Node, bad string, inIf int)
	ifSeen := map[int]map[string]bool{} // conditional id -> tracked names seen in one of its branches
	nextIf := 0
	walk = func(n ast.Node, bad string, inIf int) {
		if n == nil || err != nil {
			return
		}
		switch x := n.(type) {
		case *ast.ForStmt, *ast.RangeStmt:
			bad = "a loop"
		case *ast.FuncLit:
			bad = "a closure"
		case *ast.GoStmt:
			bad = "a go statement"
		case *ast.DeferStmt:
			bad = "a defer statement"
		case *ast.IfStmt:
			// init and condition belong to the straight line; body/else are branches
			walk(x.Init, bad, inIf)
			walk(x.Cond, bad, inIf)
			nextIf++
			id := nextIf
			ifSeen[id] = map[string]bool{}
			walk(x.Body, bad, id)
			before := map[string]bool{}
			for k := range ifSeen[id] {
				before[k] = true
			}
			if x.Else != nil {
				ifSeen[id] = map[string]bool{}
				walk(x.Else, bad, id)
				for k := range ifSeen[id] {
					if before[k] {
						err = fmt.Errorf("%s.%s: tracked call %s in both branches of a conditional", f.recv, f.name, k)
					}
				}
			}
			return
		case *ast.SwitchStmt, *ast.TypeSwitchStmt, *ast.SelectStmt:
			bad = "a switch/select"
		case *ast.CallExpr:
			// arguments first (they are evaluated before the call)
			for _, a := range x.Args {
				walk(a, bad, inIf)
			}
			if sel, ok := x.Fun.(*ast.SelectorExpr); ok {
				walk(sel.X, bad, inIf)
				if swTracked[sel.Sel.Name] && !(sel.Sel.Name == "ApplyBlock" && swLastName(sel.X) != "casper") {
					if bad != "" {
						err = fmt.Errorf("%s.%s: tracked call %s inside %s", f.recv, f.name, sel.Sel.Name, bad)
						return
					}
					if inIf > 0 {
						ifSeen[inIf][sel.Sel.Name] = true
					}
					out = append(out, sel.Sel.Name)
				}
			} else {
				walk(x.Fun, bad, inIf)
			}
			return
		}
		// generic descent in source order
		ast.Inspect(n, func(c ast.Node) bool {
			if c == nil || c == n {
				return true
			}
			walk(c, bad, inIf)
			return false
		})
	}
	walk(fd.Body, "", 0)
	return out, err
}

// swLastName: the last identifier of a receiver expression (c.casper -> "casper").
// UtxoViewpoint.ApplyBlock / ContractViewpoint.ApplyBlock (views in memory) are not store writes.
func swLastName(e ast.Expr) string {
	switch x := e.(type) {
	case *ast.Ident:
		return x.Name
	case *ast.SelectorExpr:
		return x.Sel.Name
	}
	return ""
}

func swStoreSets(f swFunc, fd *ast.FuncDecl) ([]string, error) {
	var out []string
	var err error
	kindOf := func(e ast.Expr) string {
		switch k := e.(type) {
		case *ast.CallExpr:
			if id, ok := k.Fun.(*ast.Ident); ok {
				return swKeyKind[id.Name]
			}
		case *ast.Ident:
			if v, ok := swKeyKind[k.Name]; ok {
				return v
			}
			// a local variable holding a key: find its single assignment from a key constructor
			found := ""
			ast.Inspect(fd.Body, func(n ast.Node) bool {
				as, ok := n.(*ast.AssignStmt)
				if !ok || len(as.Lhs) != 1 || len(as.Rhs) != 1 {
					return true
				}
				if l, ok := as.Lhs[0].(*ast.Ident); ok && l.Name == k.Name {
					if c, ok := as.Rhs[0].(*ast.CallExpr); ok {
						if id, ok := c.Fun.(*ast.Ident); ok && swKeyKind[id.Name] != "" {
							found = swKeyKind[id.Name]
						}
					}
				}
				return true
			})
			return found
		}
		return ""
	}
	var walk func(n ast.Node, loop bool)
	walk = func(n ast.Node, loop bool) {
		if n == nil || err != nil {
			return
		}
		switch x := n.(type) {
		case *ast.ForStmt, *ast.RangeStmt:
			loop = true
		case *ast.FuncLit:
			return // cache-clearing closures: no writes (C21 extracts them)
		case *ast.CallExpr:
			if id, ok := x.Fun.(*ast.Ident); ok {
				if k, ok := swBatchHelpers[id.Name]; ok {
					if loop {
						k += "*"
					}
					out = append(out, k+"*") // a helper writes one record per entry of its view
					return
				}
			}
			if sel, ok := x.Fun.(*ast.SelectorExpr); ok {
				switch sel.Sel.Name {
				case "Set", "SetSync":
					if len(x.Args) != 2 {
						err = fmt.Errorf("%s: Set with %d arguments", f.name, len(x.Args))
						return
					}
					k := kindOf(x.Args[0])
					if k == "" {
						err = fmt.Errorf("%s: Set with a key the extractor cannot classify", f.name)
						return
					}
					if loop {
						k += "*"
					}
					out = append(out, k)
					return
				case "Write":
					if loop {
						err = fmt.Errorf("%s: batch.Write inside a loop", f.name)
						return
					}
					out = append(out, "Write")
					return
				case "Delete", "DeleteSync":
					err = fmt.Errorf("%s: a Delete the write-log model does not know", f.name)
					return
				}
			}
		}
		ast.Inspect(n, func(c ast.Node) bool {
			if c == nil || c == n {
				return true
			}
			walk(c, loop)
			return false
		})
	}
	walk(fd.Body, false)
	return out, err
}

func swLeanList(xs []string) string {
	q := make([]string, len(xs))
	for i, x := range xs {
		q[i] = strconv.Quote(x)
	}
	return "[" + strings.Join(q, ", ") + "]"
}

func genStoreWrites(repo string) (string, error) {
	var sb strings.Builder
	sb.WriteString("/- GENERATED by /verif/gen/storewrites.go from protocol/block.go, protocol/protocol.go,\n")
	sb.WriteString("   protocol/casper/{apply_block,auth_verification}.go, database/{store,store_checkpoint}.go.\n")
	sb.WriteString("   Do not edit. -/\nnamespace BytomModel.Gen.StoreWrites\n\n")
	for _, f := range swUpper {
		fd, err := swFind(repo, f)
		if err != nil {
			return "", err
		}
		calls, err := swUpperCalls(f, fd)
		if err != nil {
			return "", err
		}
		fmt.Fprintf(&sb, "/-- tracked calls of `(%s).%s`, in source order -/\n", f.recv, f.name)
		fmt.Fprintf(&sb, "def %s_%s : List String := %s\n\n", f.recv, f.name, swLeanList(calls))
	}
	for _, f := range swStore {
		fd, err := swFind(repo, f)
		if err != nil {
			return "", err
		}
		sets, err := swStoreSets(f, fd)
		if err != nil {
			return "", err
		}
		if len(sets) == 0 {
			return "", fmt.Errorf("%s writes nothing?", f.name)
		}
		fmt.Fprintf(&sb, "/-- record kinds `(%s).%s` writes, in source order; \"Write\" = one atomic batch commit -/\n", f.recv, f.name)
		fmt.Fprintf(&sb, "def %s_%s : List String := %s\n\n", f.recv, f.name, swLeanList(sets))
	}
	sb.WriteString("end BytomModel.Gen.StoreWrites\n")
	return sb.String(), nil
}

func init() { register("StoreWrites", genStoreWrites) }
