package main

import (
	"fmt"
	"go/ast"
	"io/ioutil"
	"go/parser"
	"go/token"
	"path/filepath"
	"sort"
	"strconv"
	"strings"
)

// Fact extractor for protocol/vm (tie T1 of C07/C08): Gen/VMOps.lean
//
//   * opTable   : (byte, name, handler) for every entry of the `ops` table literal plus the
//                 entries `init()` adds (DATA_1..75, OP_1..16, CHECKPREDICATE);
//   * firstCost : per opcode byte, the literal argument of the first `applyCost` call its handler
//                 reaches before touching the stack (resolved through `return f(vm, …)` /
//                 `x, err := f(vm)` wrappers; `nDup(vm, N)` costs N), or no entry when the handler
//                 does something else first (doHash, opHash160, opCheckMultiSig pop first);
//   * the expansion rule of init(): every byte without a name becomes NOPx.. / isExpansion.
//
// The extractor fails loudly when ops.go does not have the shape it understands.

type vmOpEntry struct {
	b       int
	name    string
	handler string
}

func vmParseDir(repo string) (map[string]*ast.FuncDecl, *ast.File, error) {
	fset := token.NewFileSet()
	dir := filepath.Join(repo, "protocol", "vm")
	funcs := map[string]*ast.FuncDecl{}
	var opsFile *ast.File
	files := []string{"ops.go", "vm.go", "pushdata.go", "control.go", "stack.go", "splice.go", "bitwise.go", "numeric.go", "crypto.go", "introspection.go"}
	for _, fn := range files {
		f, err := parser.ParseFile(fset, filepath.Join(dir, fn), nil, 0)
		if err != nil {
			return nil, nil, err
		}
		if fn == "ops.go" {
			opsFile = f
		}
		for _, d := range f.Decls {
			if fd, ok := d.(*ast.FuncDecl); ok && fd.Recv == nil {
				funcs[fd.Name.Name] = fd
			}
		}
	}
	return funcs, opsFile, nil
}

func vmIntLit(e ast.Expr) (int, bool) {
	if p, ok := e.(*ast.ParenExpr); ok {
		return vmIntLit(p.X)
	}
	if l, ok := e.(*ast.BasicLit); ok && l.Kind == token.INT {
		v, err := strconv.ParseInt(l.Value, 0, 64)
		return int(v), err == nil
	}
	return 0, false
}

// applyCostArg recognises `vm.applyCost(ARG)` and returns ARG.
func applyCostArg(e ast.Expr) (ast.Expr, bool) {
	c, ok := e.(*ast.CallExpr)
	if !ok || len(c.Args) != 1 {
		return nil, false
	}
	s, ok := c.Fun.(*ast.SelectorExpr)
	if !ok || s.Sel.Name != "applyCost" {
		return nil, false
	}
	if id, ok := s.X.(*ast.Ident); !ok || id.Name != "vm" {
		return nil, false
	}
	return c.Args[0], true
}

// firstExprOf returns the first call expression evaluated by the statement, if the statement has
// one of the shapes used at the start of a handler.
func firstCallOf(s ast.Stmt) (ast.Expr, bool) {
	switch x := s.(type) {
	case *ast.IfStmt:
		if x.Init != nil {
			return firstCallOf(x.Init)
		}
		return nil, false
	case *ast.AssignStmt:
		if len(x.Rhs) == 1 {
			return x.Rhs[0], true
		}
	case *ast.ReturnStmt:
		if len(x.Results) == 1 {
			return x.Results[0], true
		}
	case *ast.ExprStmt:
		return x.X, true
	}
	return nil, false
}

// vmFirstCost resolves the first applyCost literal of handler `name`; depth-limited.
func vmFirstCost(funcs map[string]*ast.FuncDecl, name string, depth int) (int, bool) {
	fd, ok := funcs[name]
	if !ok || fd.Body == nil || len(fd.Body.List) == 0 || depth > 3 {
		return 0, false
	}
	e, ok := firstCallOf(fd.Body.List[0])
	if !ok {
		return 0, false
	}
	if arg, ok := applyCostArg(e); ok {
		if v, ok := vmIntLit(arg); ok {
			return v, true
		}
		return 0, false // e.g. applyCost(int64(n)): resolved at the call site (nDup)
	}
	// wrapper: f(vm, …)
	c, ok := e.(*ast.CallExpr)
	if !ok {
		return 0, false
	}
	id, ok := c.Fun.(*ast.Ident)
	if !ok || len(c.Args) == 0 {
		return 0, false
	}
	if a0, ok := c.Args[0].(*ast.Ident); !ok || a0.Name != "vm" {
		return 0, false
	}
	if id.Name == "nDup" && len(c.Args) == 2 {
		// nDup's first statement must be applyCost(int64(n)) with n its second parameter
		nd := funcs["nDup"]
		if nd == nil || len(nd.Body.List) == 0 {
			return 0, false
		}
		e2, ok := firstCallOf(nd.Body.List[0])
		if !ok {
			return 0, false
		}
		arg, ok := applyCostArg(e2)
		if !ok {
			return 0, false
		}
		conv, ok := arg.(*ast.CallExpr)
		if !ok || len(conv.Args) != 1 {
			return 0, false
		}
		if p, ok := conv.Args[0].(*ast.Ident); !ok || p.Name != "n" {
			return 0, false
		}
		return vmIntLit(c.Args[1])
	}
	return vmFirstCost(funcs, id.Name, depth+1)
}

func genVMOps(repo string) (string, error) {
	funcs, opsFile, err := vmParseDir(repo)
	if err != nil {
		return "", err
	}
	// constants OP_X = 0x..
	consts := map[string]int{}
	for _, d := range opsFile.Decls {
		gd, ok := d.(*ast.GenDecl)
		if !ok || gd.Tok != token.CONST {
			continue
		}
		for _, sp := range gd.Specs {
			vs := sp.(*ast.ValueSpec)
			for i, n := range vs.Names {
				if !strings.HasPrefix(n.Name, "OP_") || i >= len(vs.Values) {
					continue
				}
				v, ok := vmIntLit(vs.Values[i])
				if !ok {
					return "", fmt.Errorf("constant %s is not an integer literal", n.Name)
				}
				consts[n.Name] = v
			}
		}
	}
	if len(consts) < 100 {
		return "", fmt.Errorf("only %d OP_ constants found", len(consts))
	}
	// the ops table literal
	var entries []vmOpEntry
	found := false
	for _, d := range opsFile.Decls {
		gd, ok := d.(*ast.GenDecl)
		if !ok || gd.Tok != token.VAR {
			continue
		}
		for _, sp := range gd.Specs {
			vs := sp.(*ast.ValueSpec)
			for i, n := range vs.Names {
				if n.Name != "ops" || i >= len(vs.Values) {
					continue
				}
				cl, ok := vs.Values[i].(*ast.CompositeLit)
				if !ok {
					return "", fmt.Errorf("ops is not a composite literal")
				}
				found = true
				for _, el := range cl.Elts {
					kv, ok := el.(*ast.KeyValueExpr)
					if !ok {
						return "", fmt.Errorf("ops entry without key")
					}
					k, ok := kv.Key.(*ast.Ident)
					if !ok {
						return "", fmt.Errorf("ops key is not an identifier")
					}
					b, ok := consts[k.Name]
					if !ok {
						return "", fmt.Errorf("unknown opcode constant %s", k.Name)
					}
					v, ok := kv.Value.(*ast.CompositeLit)
					if !ok || len(v.Elts) != 3 {
						return "", fmt.Errorf("ops[%s] is not {op, name, fn}", k.Name)
					}
					nm, ok := v.Elts[1].(*ast.BasicLit)
					if !ok || nm.Kind != token.STRING {
						return "", fmt.Errorf("ops[%s] name is not a string", k.Name)
					}
					fnid, ok := v.Elts[2].(*ast.Ident)
					if !ok {
						return "", fmt.Errorf("ops[%s] handler is not an identifier", k.Name)
					}
					name, _ := strconv.Unquote(nm.Value)
					entries = append(entries, vmOpEntry{b, name, fnid.Name})
				}
			}
		}
	}
	if !found {
		return "", fmt.Errorf("var ops not found")
	}
	// init(): the three rules we rely on must be present textually
	initFn := funcs["init"]
	if initFn == nil {
		return "", fmt.Errorf("ops.go has no init()")
	}
	raw, err := ioutil.ReadFile(filepath.Join(repo, "protocol", "vm", "ops.go"))
	if err != nil {
		return "", err
	}
	initText := string(raw)
	if i := strings.Index(initText, "func init() {"); i >= 0 {
		initText = initText[i:]
		if j := strings.Index(initText, "\n}\n"); j >= 0 {
			initText = initText[:j]
		}
	} else {
		return "", fmt.Errorf("func init() not found in ops.go")
	}
	for _, want := range []string{"i <= 75", "opPushdata", "OP_1", "i <= 15", "OP_CHECKPREDICATE", "opCheckPredicate", "isExpansion[i] = true", `ops[i].name == ""`} {
		if !strings.Contains(initText, want) {
			return "", fmt.Errorf("init() of ops.go no longer contains %q", want)
		}
	}
	for i := 1; i <= 75; i++ {
		entries = append(entries, vmOpEntry{i, fmt.Sprintf("DATA_%d", i), "opPushdata"})
	}
	for i := 0; i <= 15; i++ {
		entries = append(entries, vmOpEntry{consts["OP_1"] + i, fmt.Sprintf("%d", i+1), "opPushdata"})
	}
	entries = append(entries, vmOpEntry{consts["OP_CHECKPREDICATE"], "CHECKPREDICATE", "opCheckPredicate"})
	sort.Slice(entries, func(i, j int) bool { return entries[i].b < entries[j].b })
	seen := map[int]bool{}
	var defined []string
	var costs []string
	var names []string
	for _, e := range entries {
		if seen[e.b] {
			return "", fmt.Errorf("opcode byte 0x%02x defined twice", e.b)
		}
		seen[e.b] = true
		defined = append(defined, strconv.Itoa(e.b))
		names = append(names, fmt.Sprintf("(%d, %q)", e.b, e.name))
		if c, ok := vmFirstCost(funcs, e.handler, 0); ok {
			costs = append(costs, fmt.Sprintf("(%d, %d)", e.b, c))
		}
	}
	var sb strings.Builder
	sb.WriteString("/- GENERATED by gen/vmops.go from protocol/vm/*.go — do not edit. -/\n")
	sb.WriteString("namespace BytomModel.Gen.VMOps\n\n")
	sb.WriteString("/-- opcode bytes that have a handler (ops table literal + init()); all others are expansion NOPs -/\n")
	sb.WriteString("def definedOps : List Nat := [" + strings.Join(defined, ", ") + "]\n\n")
	sb.WriteString("/-- opcode byte ↦ name -/\n")
	sb.WriteString("def opNames : List (Nat × String) := [" + strings.Join(names, ", ") + "]\n\n")
	sb.WriteString("/-- opcode byte ↦ literal of the first applyCost its handler performs before anything else\n    (no entry: the handler pops or computes first) -/\n")
	sb.WriteString("def firstCost : List (Nat × Int) := [" + strings.Join(costs, ", ") + "]\n\n")
	sb.WriteString("end BytomModel.Gen.VMOps\n")
	return sb.String(), nil
}

func init() { register("VMOps", genVMOps) }
