package main

// C37 — extraction of the SYNCHRONISATION SKELETON of the block / vote / tx / read paths
// (go/ast, stdlib only) → lean/BytomModel/Gen/SyncSkel.lean.
//
// For every function of package protocol and protocol/casper the ordered tree of
// synchronisation actions is extracted:
//
//   lock m / unlock m / rlock m / runlock m   sync.Mutex, sync.RWMutex and sync.Cond.L fields
//                                             of the singleton objects Chain, Casper, TxPool,
//                                             OrphanManage; `defer X.Unlock()` is placed on every
//                                             return path (registered defers run in reverse order)
//   wait m / signal m                         sync.Cond.Wait / Broadcast|Signal (m = its L)
//   send ch / recv ch                         channel fields (capacity from the make site)
//   recvReply r / sendReply r                 per-request reply channels: a chan-typed field of the
//                                             message struct carried by ch (made by the requester)
//   sendFresh n                               a send on a channel made in the same function (cap n)
//   call f / go f                             calls / goroutines of functions with a non-empty skeleton
//   alt [..]                                  data dependent branch (if / switch / short-circuit / early return)
//   loop inf [..]                             for / range (inf = no condition and no exit)
//   sel [[recv ch, ..], ..]                   select; `for x := range ch` is a one-armed select in an
//                                             infinite loop
//
// Data is abstracted away completely: which branch is taken is nondeterministic in the model.
// Calls into other packages (store, LRU caches, event dispatcher, logging, validation …) are
// NOT followed: they are listed in `externals` and are an assumption of the theorem (they take
// only their own internal locks and never call back into chain / casper / pool).
//
// The extractor fails loudly on every shape it does not understand: select with default or
// send arms, break / goto / labels, return inside a loop that synchronises, a defer registered
// in a branch that does not return, a lock that is not released inside the loop body that took
// it, closures that synchronise, unknown channels, close().

import (
	"bytes"
	"fmt"
	"go/ast"
	"go/parser"
	"go/printer"
	"go/token"
	"io/ioutil"
	"path/filepath"
	"sort"
	"strconv"
	"strings"
)

// ---------------------------------------------------------------------------------------
// intermediate representation

type ssNode struct {
	kind string // act call go alt loop sel ret cont
	op   string // act: lock unlock rlock runlock wait signal send recv sendReply recvReply sendFresh
	arg  string // mutex / channel / reply / function name; sendFresh: capacity
	inf  bool
	kids [][]*ssNode // alt, sel: branches; loop: one body
}

type ssPkg struct {
	name    string
	fset    *token.FileSet
	files   []*ast.File
	structs map[string]*ast.StructType
	funcs   map[string]*ast.FuncDecl // "Recv.Name" or "pkg.Name"
	consts  map[string]string
}

type ssGen struct {
	pkgs      map[string]*ssPkg // by package name
	chanCap   map[string]int    // "Chain.processBlockCh" -> capacity
	chanElem  map[string]string // channel -> element struct ("protocol.processBlockMsg")
	replyCap  map[string]int    // "processBlockMsg.reply" -> capacity
	skel      map[string][]*ssNode
	order     []string
	externals map[string]bool
	mutexes   map[string]string // name -> "Mutex" | "RWMutex" | "Cond.L"
	err       error
}

func (g *ssGen) fail(format string, a ...interface{}) {
	if g.err == nil {
		g.err = fmt.Errorf(format, a...)
	}
}

func ssStr(fset *token.FileSet, n ast.Node) string {
	var b bytes.Buffer
	printer.Fprint(&b, fset, n)
	return strings.Join(strings.Fields(b.String()), " ")
}

func ssLoadPkg(repo, rel, name string) (*ssPkg, error) {
	p := &ssPkg{name: name, fset: token.NewFileSet(), structs: map[string]*ast.StructType{}, funcs: map[string]*ast.FuncDecl{}, consts: map[string]string{}}
	ents, err := ioutil.ReadDir(filepath.Join(repo, rel))
	if err != nil {
		return nil, err
	}
	for _, e := range ents {
		n := e.Name()
		if e.IsDir() || !strings.HasSuffix(n, ".go") || strings.HasSuffix(n, "_test.go") || strings.HasSuffix(n, "_verif.go") {
			continue
		}
		f, err := parser.ParseFile(p.fset, filepath.Join(repo, rel, n), nil, 0)
		if err != nil {
			return nil, err
		}
		if f.Name.Name != name {
			continue
		}
		p.files = append(p.files, f)
		for _, d := range f.Decls {
			switch d := d.(type) {
			case *ast.FuncDecl:
				key := name + "." + d.Name.Name
				if d.Recv != nil && len(d.Recv.List) == 1 {
					t := d.Recv.List[0].Type
					if s, ok := t.(*ast.StarExpr); ok {
						t = s.X
					}
					if id, ok := t.(*ast.Ident); ok {
						key = id.Name + "." + d.Name.Name
					}
				}
				p.funcs[key] = d
			case *ast.GenDecl:
				for _, s := range d.Specs {
					switch s := s.(type) {
					case *ast.TypeSpec:
						if st, ok := s.Type.(*ast.StructType); ok {
							p.structs[s.Name.Name] = st
						}
					case *ast.ValueSpec:
						for i, nm := range s.Names {
							if i < len(s.Values) {
								p.consts[nm.Name] = ssStr(p.fset, s.Values[i])
							}
						}
					}
				}
			}
		}
	}
	if len(p.files) == 0 {
		return nil, fmt.Errorf("no source files of package %s in %s", name, rel)
	}
	return p, nil
}

// ---------------------------------------------------------------------------------------
// a tiny type resolver: enough for receiver.field[.field] chains and locals bound to
// composite literals / make / known calls

// types are strings: "S:<pkg>.<Struct>", "mutex:<name>", "rwmutex:<name>", "cond:<name>",
// "chan:<name>" (field channel), "lchan:<cap>" (local made channel), "reply:<Struct.field>", "" unknown

type ssFn struct {
	g       *ssGen
	pkg     *ssPkg
	name    string
	decl    *ast.FuncDecl
	locals  map[string]string
	defers  []*ssNode
	nlit    int
	inLoop  int
	pending []ssLit // goroutine literals found, emitted as pseudo functions
}

type ssLit struct {
	name string
	lit  *ast.FuncLit
	env  map[string]string
}

func (g *ssGen) normType(pkg *ssPkg, owner string, t ast.Expr) string {
	switch t := t.(type) {
	case *ast.StarExpr:
		return g.normType(pkg, owner, t.X)
	case *ast.Ident:
		if _, ok := pkg.structs[t.Name]; ok {
			return "S:" + pkg.name + "." + t.Name
		}
	case *ast.SelectorExpr:
		if x, ok := t.X.(*ast.Ident); ok {
			switch x.Name + "." + t.Sel.Name {
			case "sync.Mutex":
				return "mutex:" + owner
			case "sync.RWMutex":
				return "rwmutex:" + owner
			case "sync.Cond":
				return "cond:" + owner
			}
			if p2, ok := g.pkgs[x.Name]; ok {
				if _, ok := p2.structs[t.Sel.Name]; ok {
					return "S:" + p2.name + "." + t.Sel.Name
				}
			}
		}
	case *ast.ChanType:
		if owner != "" {
			return "chan:" + owner
		}
	}
	return ""
}

func ssStructOf(typ string) (pkg, st string, ok bool) {
	if !strings.HasPrefix(typ, "S:") {
		return "", "", false
	}
	parts := strings.SplitN(typ[2:], ".", 2)
	return parts[0], parts[1], true
}

func (g *ssGen) fieldType(typ, field string) string {
	pn, sn, ok := ssStructOf(typ)
	if !ok {
		if strings.HasPrefix(typ, "cond:") && field == "L" {
			return "mutex:" + typ[5:] + ".L"
		}
		return ""
	}
	p := g.pkgs[pn]
	st := p.structs[sn]
	for _, f := range st.Fields.List {
		for _, nm := range f.Names {
			if nm.Name == field {
				t := g.normType(p, sn+"."+field, f.Type)
				if strings.HasPrefix(t, "chan:") {
					// a chan-typed field of a message struct is a reply channel; of a singleton object a global channel
					if _, isGlobal := g.chanCap[sn+"."+field]; !isGlobal {
						return "reply:" + sn + "." + field
					}
				}
				return t
			}
		}
	}
	return ""
}

func (f *ssFn) typeOf(e ast.Expr) string {
	switch e := e.(type) {
	case *ast.ParenExpr:
		return f.typeOf(e.X)
	case *ast.StarExpr:
		return f.typeOf(e.X)
	case *ast.UnaryExpr:
		if e.Op == token.AND {
			return f.typeOf(e.X)
		}
	case *ast.Ident:
		return f.locals[e.Name]
	case *ast.SelectorExpr:
		return f.g.fieldType(f.typeOf(e.X), e.Sel.Name)
	case *ast.CompositeLit:
		return f.g.normType(f.pkg, "", e.Type)
	case *ast.CallExpr:
		if id, ok := e.Fun.(*ast.Ident); ok && id.Name == "make" && len(e.Args) >= 1 {
			if _, ok := e.Args[0].(*ast.ChanType); ok {
				c := 0
				if len(e.Args) == 2 {
					n, err := f.intConst(e.Args[1])
					if err != nil {
						f.g.fail("%s: %v", f.name, err)
					}
					c = n
				}
				return "lchan:" + strconv.Itoa(c)
			}
			return ""
		}
		if callee, _ := f.resolveCall(e); callee != "" {
			// accessor returning a channel field, or a constructor returning a known struct
			d, p := f.g.lookupFunc(callee)
			if ch := f.g.accessorChan(p, d); ch != "" {
				return "chan:" + ch
			}
			if d.Type.Results != nil && len(d.Type.Results.List) >= 1 {
				return f.g.normType(p, "", d.Type.Results.List[0].Type)
			}
		}
	}
	return ""
}

func (f *ssFn) intConst(e ast.Expr) (int, error) {
	s := ssStr(f.pkg.fset, e)
	for i := 0; i < 4; i++ {
		if n, err := strconv.ParseInt(s, 0, 32); err == nil {
			return int(n), nil
		}
		v, ok := f.pkg.consts[s]
		if !ok {
			break
		}
		s = v
	}
	return 0, fmt.Errorf("channel capacity %q is not an integer constant", ssStr(f.pkg.fset, e))
}

func (g *ssGen) lookupFunc(key string) (*ast.FuncDecl, *ssPkg) {
	for _, p := range g.pkgs {
		if d, ok := p.funcs[key]; ok {
			return d, p
		}
	}
	return nil, nil
}

// accessorChan: `func (c *Casper) RollbackCh() <-chan *RollbackMsg { return c.rollbackCh }`
func (g *ssGen) accessorChan(p *ssPkg, d *ast.FuncDecl) string {
	if d == nil || d.Body == nil || len(d.Body.List) != 1 || d.Recv == nil {
		return ""
	}
	r, ok := d.Body.List[0].(*ast.ReturnStmt)
	if !ok || len(r.Results) != 1 {
		return ""
	}
	sel, ok := r.Results[0].(*ast.SelectorExpr)
	if !ok {
		return ""
	}
	x, ok := sel.X.(*ast.Ident)
	if !ok || len(d.Recv.List[0].Names) != 1 || x.Name != d.Recv.List[0].Names[0].Name {
		return ""
	}
	t := d.Recv.List[0].Type
	if s, ok := t.(*ast.StarExpr); ok {
		t = s.X
	}
	name := t.(*ast.Ident).Name + "." + sel.Sel.Name
	if _, ok := g.chanCap[name]; ok {
		return name
	}
	return ""
}

// resolveCall returns the key of the callee when it is a function of the two packages
// (""/external otherwise) and, for sync primitives, the action.
func (f *ssFn) resolveCall(c *ast.CallExpr) (callee string, act *ssNode) {
	switch fun := c.Fun.(type) {
	case *ast.Ident:
		if _, ok := f.locals[fun.Name]; ok {
			return "", nil // a local function value: checked to be free of synchronisation where it is defined
		}
		if _, ok := f.pkg.funcs[f.pkg.name+"."+fun.Name]; ok {
			return f.pkg.name + "." + fun.Name, nil
		}
		return "", nil
	case *ast.SelectorExpr:
		if x, ok := fun.X.(*ast.Ident); ok {
			if _, isLocal := f.locals[x.Name]; !isLocal {
				if p2, ok := f.g.pkgs[x.Name]; ok {
					if _, ok := p2.funcs[p2.name+"."+fun.Sel.Name]; ok {
						return p2.name + "." + fun.Sel.Name, nil
					}
				}
			}
		}
		t := f.typeOf(fun.X)
		m := fun.Sel.Name
		switch {
		case strings.HasPrefix(t, "mutex:") || strings.HasPrefix(t, "rwmutex:"):
			name := t[strings.Index(t, ":")+1:]
			kind := "Mutex"
			if strings.HasPrefix(t, "rwmutex:") {
				kind = "RWMutex"
			}
			if strings.HasSuffix(name, ".L") {
				kind = "Cond.L"
			}
			f.g.mutexes[name] = kind
			op := map[string]string{"Lock": "lock", "Unlock": "unlock", "RLock": "rlock", "RUnlock": "runlock"}[m]
			if op == "" || ((op == "rlock" || op == "runlock") && kind != "RWMutex") {
				f.g.fail("%s: unsupported mutex method %s on %s", f.name, m, name)
			}
			return "", &ssNode{kind: "act", op: op, arg: name}
		case strings.HasPrefix(t, "cond:"):
			name := t[5:] + ".L"
			f.g.mutexes[name] = "Cond.L"
			switch m {
			case "Wait":
				return "", &ssNode{kind: "act", op: "wait", arg: name}
			case "Broadcast", "Signal":
				return "", &ssNode{kind: "act", op: "signal", arg: name}
			}
			f.g.fail("%s: unsupported sync.Cond method %s", f.name, m)
		case strings.HasPrefix(t, "S:"):
			_, sn, _ := ssStructOf(t)
			if d, _ := f.g.lookupFunc(sn + "." + m); d != nil {
				return sn + "." + m, nil
			}
		}
		if ssSingletons[f.recvTypeName()] && f.rootIsReceiver(fun.X) && !strings.HasPrefix(t, "S:") {
			// external receiver (a field of another package's type or an interface): remember it
			f.g.externals[f.recvTypeName()+": "+ssStr(f.pkg.fset, fun.X)] = true
		}
	}
	return "", nil
}

// ---------------------------------------------------------------------------------------
// expressions: calls in evaluation order

func (f *ssFn) chanOf(e ast.Expr) (kind, name string) {
	t := f.typeOf(e)
	switch {
	case strings.HasPrefix(t, "chan:"):
		return "global", t[5:]
	case strings.HasPrefix(t, "reply:"):
		return "reply", t[6:]
	case strings.HasPrefix(t, "lchan:"):
		return "local", t[6:]
	case strings.HasPrefix(t, "lreply:"):
		return "reply", t[7:]
	}
	return "", ""
}

func (f *ssFn) expr(e ast.Expr) []*ssNode {
	if e == nil {
		return nil
	}
	var out []*ssNode
	switch e := e.(type) {
	case *ast.CallExpr:
		if id, ok := e.Fun.(*ast.Ident); ok && id.Name == "close" {
			f.g.fail("%s: close() of a channel is not understood", f.name)
		}
		if sel, ok := e.Fun.(*ast.SelectorExpr); ok {
			out = append(out, f.expr(sel.X)...)
		} else if lit, ok := e.Fun.(*ast.FuncLit); ok {
			f.g.fail("%s: immediately invoked closure %s", f.name, ssStr(f.pkg.fset, lit.Type))
		}
		for _, a := range e.Args {
			out = append(out, f.expr(a)...)
		}
		callee, act := f.resolveCall(e)
		if act != nil {
			out = append(out, act)
		} else if callee != "" {
			d, p := f.g.lookupFunc(callee)
			if f.g.accessorChan(p, d) == "" {
				out = append(out, &ssNode{kind: "call", arg: callee})
			}
		}
	case *ast.BinaryExpr:
		out = append(out, f.expr(e.X)...)
		r := f.expr(e.Y)
		if len(r) > 0 && (e.Op == token.LAND || e.Op == token.LOR) {
			out = append(out, &ssNode{kind: "alt", kids: [][]*ssNode{{}, r}})
		} else {
			out = append(out, r...)
		}
	case *ast.UnaryExpr:
		if e.Op == token.ARROW {
			out = append(out, f.expr(e.X)...)
			kind, name := f.chanOf(e.X)
			switch kind {
			case "reply":
				out = append(out, &ssNode{kind: "act", op: "recvReply", arg: name})
			case "global":
				out = append(out, &ssNode{kind: "act", op: "recv", arg: name})
			default:
				f.g.fail("%s: receive from a channel that is not understood: %s", f.name, ssStr(f.pkg.fset, e.X))
			}
		} else {
			out = append(out, f.expr(e.X)...)
		}
	case *ast.ParenExpr:
		out = f.expr(e.X)
	case *ast.StarExpr:
		out = f.expr(e.X)
	case *ast.SelectorExpr:
		out = f.expr(e.X)
	case *ast.IndexExpr:
		out = append(f.expr(e.X), f.expr(e.Index)...)
	case *ast.SliceExpr:
		out = append(out, f.expr(e.X)...)
		out = append(out, f.expr(e.Low)...)
		out = append(out, f.expr(e.High)...)
		out = append(out, f.expr(e.Max)...)
	case *ast.TypeAssertExpr:
		out = f.expr(e.X)
	case *ast.KeyValueExpr:
		out = f.expr(e.Value)
	case *ast.CompositeLit:
		for _, el := range e.Elts {
			out = append(out, f.expr(el)...)
		}
	case *ast.FuncLit:
		// a closure that is not started as a goroutine must be free of synchronisation
		sub := &ssFn{g: f.g, pkg: f.pkg, name: f.name + ".closure", decl: f.decl, locals: f.copyLocals()}
		body := sub.block(e.Body.List)
		if ssHasSync(body) || len(sub.pending) > 0 {
			f.g.fail("%s: a closure that synchronises is not understood", f.name)
		}
	case *ast.Ident, *ast.BasicLit, *ast.ArrayType, *ast.MapType, *ast.ChanType, *ast.FuncType, *ast.InterfaceType, *ast.StructType, *ast.Ellipsis:
	default:
		f.g.fail("%s: expression shape %T is not understood", f.name, e)
	}
	return out
}

func (f *ssFn) copyLocals() map[string]string {
	m := map[string]string{}
	for k, v := range f.locals {
		m[k] = v
	}
	return m
}

func ssHasSync(l []*ssNode) bool {
	for _, n := range l {
		switch n.kind {
		case "act", "call", "go", "sel":
			return true
		case "alt", "loop":
			for _, k := range n.kids {
				if ssHasSync(k) {
					return true
				}
			}
		}
	}
	return false
}

func ssHas(l []*ssNode, kind string) bool {
	for _, n := range l {
		if n.kind == kind {
			return true
		}
		for _, k := range n.kids {
			// `cont` binds to the innermost loop
			if kind == "cont" && n.kind == "loop" {
				continue
			}
			if ssHas(k, kind) {
				return true
			}
		}
	}
	return false
}

// ---------------------------------------------------------------------------------------
// statements

// bindLit records what a composite literal / make tells about the local it is bound to
func (f *ssFn) bind(name string, rhs ast.Expr) {
	if name == "_" {
		return
	}
	t := f.typeOf(rhs)
	if t != "" {
		f.locals[name] = t
	} else if _, ok := rhs.(*ast.FuncLit); ok {
		f.locals[name] = "func"
	} else if _, shadow := f.locals[name]; shadow {
		f.locals[name] = ""
	}
	// a reply channel made inside the literal, or a local channel shipped in it
	f.scanLit(rhs)
}

func (f *ssFn) scanLit(e ast.Expr) {
	if u, ok := e.(*ast.UnaryExpr); ok && u.Op == token.AND {
		e = u.X
	}
	cl, ok := e.(*ast.CompositeLit)
	if !ok {
		return
	}
	st := f.g.normType(f.pkg, "", cl.Type)
	_, sn, ok := ssStructOf(st)
	if !ok {
		return
	}
	for _, el := range cl.Elts {
		kv, ok := el.(*ast.KeyValueExpr)
		if !ok {
			continue
		}
		key, ok := kv.Key.(*ast.Ident)
		if !ok {
			continue
		}
		ft := f.g.fieldType(st, key.Name)
		if !strings.HasPrefix(ft, "reply:") {
			continue
		}
		vt := f.typeOf(kv.Value)
		if !strings.HasPrefix(vt, "lchan:") {
			f.g.fail("%s: reply channel %s.%s is not made by the requester", f.name, sn, key.Name)
			continue
		}
		c, _ := strconv.Atoi(vt[6:])
		rn := sn + "." + key.Name
		if old, ok := f.g.replyCap[rn]; ok && old != c {
			f.g.fail("reply channel %s is made with different capacities (%d, %d)", rn, old, c)
		}
		f.g.replyCap[rn] = c
		if id, ok := kv.Value.(*ast.Ident); ok {
			f.locals[id.Name] = "lreply:" + rn
		}
	}
}

func (f *ssFn) deferred() []*ssNode {
	var out []*ssNode
	for i := len(f.defers) - 1; i >= 0; i-- {
		out = append(out, f.defers[i])
	}
	return out
}

func (f *ssFn) block(list []ast.Stmt) []*ssNode {
	var out []*ssNode
	for _, s := range list {
		out = append(out, f.stmt(s)...)
	}
	return out
}

// branch walks a nested block; defers registered inside must end in a return
func (f *ssFn) branch(list []ast.Stmt) []*ssNode {
	nd := len(f.defers)
	saved := f.copyLocals()
	out := f.block(list)
	if len(f.defers) != nd {
		if len(out) == 0 || out[len(out)-1].kind != "ret" {
			f.g.fail("%s: a defer registered in a branch that does not return is not understood", f.name)
		}
		f.defers = f.defers[:nd]
	}
	f.locals = saved
	return out
}

func (f *ssFn) stmt(s ast.Stmt) []*ssNode {
	var out []*ssNode
	switch s := s.(type) {
	case nil, *ast.EmptyStmt:
	case *ast.ExprStmt:
		out = f.expr(s.X)
	case *ast.IncDecStmt:
		out = f.expr(s.X)
	case *ast.DeclStmt:
		if gd, ok := s.Decl.(*ast.GenDecl); ok {
			for _, sp := range gd.Specs {
				if vs, ok := sp.(*ast.ValueSpec); ok {
					for _, v := range vs.Values {
						out = append(out, f.expr(v)...)
					}
					for i, nm := range vs.Names {
						if i < len(vs.Values) {
							f.bind(nm.Name, vs.Values[i])
						} else {
							f.locals[nm.Name] = f.g.normType(f.pkg, "", vs.Type)
						}
					}
				}
			}
		}
	case *ast.AssignStmt:
		for _, r := range s.Rhs {
			out = append(out, f.expr(r)...)
		}
		for _, l := range s.Lhs {
			if _, ok := l.(*ast.Ident); !ok {
				out = append(out, f.expr(l)...)
			}
		}
		if len(s.Lhs) == len(s.Rhs) {
			for i, l := range s.Lhs {
				if id, ok := l.(*ast.Ident); ok {
					f.bind(id.Name, s.Rhs[i])
				}
			}
		} else if len(s.Rhs) == 1 {
			if id, ok := s.Lhs[0].(*ast.Ident); ok {
				f.bind(id.Name, s.Rhs[0])
			}
			for _, l := range s.Lhs[1:] {
				if id, ok := l.(*ast.Ident); ok && id.Name != "_" {
					if _, shadow := f.locals[id.Name]; shadow {
						f.locals[id.Name] = ""
					}
				}
			}
		}
	case *ast.SendStmt:
		out = append(out, f.expr(s.Chan)...)
		out = append(out, f.expr(s.Value)...)
		f.scanLit(s.Value)
		kind, name := f.chanOf(s.Chan)
		switch kind {
		case "global":
			// the message type's reply field (if any) must have been made by now
			out = append(out, &ssNode{kind: "act", op: "send", arg: name})
		case "reply":
			out = append(out, &ssNode{kind: "act", op: "sendReply", arg: name})
		case "local":
			if f.inLoop > 0 {
				f.g.fail("%s: send on a local channel inside a loop", f.name)
			}
			out = append(out, &ssNode{kind: "act", op: "sendFresh", arg: name})
		default:
			f.g.fail("%s: send on a channel that is not understood: %s", f.name, ssStr(f.pkg.fset, s.Chan))
		}
	case *ast.ReturnStmt:
		for _, r := range s.Results {
			out = append(out, f.expr(r)...)
		}
		out = append(out, f.deferred()...)
		out = append(out, &ssNode{kind: "ret"})
	case *ast.DeferStmt:
		pre := f.expr(&ast.CallExpr{Fun: &ast.Ident{Name: "_args"}, Args: s.Call.Args})
		if len(pre) > 0 {
			f.g.fail("%s: arguments of a deferred call synchronise", f.name)
		}
		if lit, ok := s.Call.Fun.(*ast.FuncLit); ok {
			sub := &ssFn{g: f.g, pkg: f.pkg, name: f.name + ".defer", decl: f.decl, locals: f.copyLocals()}
			if ssHasSync(sub.block(lit.Body.List)) {
				f.g.fail("%s: a deferred closure that synchronises is not understood", f.name)
			}
			break
		}
		callee, act := f.resolveCall(s.Call)
		if act != nil {
			f.defers = append(f.defers, act)
		} else if callee != "" {
			f.defers = append(f.defers, &ssNode{kind: "call", arg: callee})
		}
	case *ast.GoStmt:
		for _, a := range s.Call.Args {
			out = append(out, f.expr(a)...)
		}
		if lit, ok := s.Call.Fun.(*ast.FuncLit); ok {
			f.nlit++
			name := fmt.Sprintf("%s.func%d", f.name, f.nlit)
			f.pending = append(f.pending, ssLit{name, lit, f.copyLocals()})
			out = append(out, &ssNode{kind: "go", arg: name})
			break
		}
		callee, act := f.resolveCall(s.Call)
		if act != nil || callee == "" {
			f.g.fail("%s: `go %s` is not understood", f.name, ssStr(f.pkg.fset, s.Call.Fun))
			break
		}
		out = append(out, &ssNode{kind: "go", arg: callee})
	case *ast.BlockStmt:
		out = f.branch(s.List)
	case *ast.IfStmt:
		saved := f.copyLocals()
		out = append(out, f.stmt(s.Init)...)
		out = append(out, f.expr(s.Cond)...)
		th := f.branch(s.Body.List)
		var el []*ssNode
		if s.Else != nil {
			el = f.stmt(s.Else)
		}
		out = append(out, &ssNode{kind: "alt", kids: [][]*ssNode{th, el}})
		f.locals = saved
	case *ast.SwitchStmt:
		saved := f.copyLocals()
		out = append(out, f.stmt(s.Init)...)
		out = append(out, f.expr(s.Tag)...)
		alt := &ssNode{kind: "alt"}
		hasDefault := false
		for _, c := range s.Body.List {
			cc := c.(*ast.CaseClause)
			if cc.List == nil {
				hasDefault = true
			}
			for _, e := range cc.List {
				if len(f.expr(e)) > 0 {
					f.g.fail("%s: a case expression synchronises", f.name)
				}
			}
			b := f.branch(cc.Body)
			if ssHas(b, "fallthrough") {
				f.g.fail("%s: fallthrough", f.name)
			}
			alt.kids = append(alt.kids, b)
		}
		if !hasDefault {
			alt.kids = append(alt.kids, nil)
		}
		out = append(out, alt)
		f.locals = saved
	case *ast.TypeSwitchStmt:
		saved := f.copyLocals()
		alt := &ssNode{kind: "alt"}
		hasDefault := false
		for _, c := range s.Body.List {
			cc := c.(*ast.CaseClause)
			if cc.List == nil {
				hasDefault = true
			}
			alt.kids = append(alt.kids, f.branch(cc.Body))
		}
		if !hasDefault {
			alt.kids = append(alt.kids, nil)
		}
		out = append(out, alt)
		f.locals = saved
	case *ast.ForStmt:
		saved := f.copyLocals()
		out = append(out, f.stmt(s.Init)...)
		if len(f.expr(s.Cond)) > 0 || len(f.stmt(s.Post)) > 0 {
			f.g.fail("%s: a loop condition / post statement synchronises", f.name)
		}
		f.inLoop++
		body := f.branch(s.Body.List)
		f.inLoop--
		out = append(out, &ssNode{kind: "loop", inf: s.Cond == nil, kids: [][]*ssNode{body}})
		f.locals = saved
	case *ast.RangeStmt:
		saved := f.copyLocals()
		out = append(out, f.expr(s.X)...)
		kind, name := f.chanOf(s.X)
		f.inLoop++
		body := f.branch(s.Body.List)
		f.inLoop--
		switch {
		case kind == "global":
			arm := append([]*ssNode{{kind: "act", op: "recv", arg: name}}, body...)
			out = append(out, &ssNode{kind: "loop", inf: true, kids: [][]*ssNode{{{kind: "sel", kids: [][]*ssNode{arm}}}}})
		case kind != "":
			f.g.fail("%s: range over a channel that is not understood: %s", f.name, ssStr(f.pkg.fset, s.X))
		case f.isTickerC(s.X):
			out = append(out, &ssNode{kind: "loop", inf: true, kids: [][]*ssNode{body}})
		default:
			if (s.Key == nil && s.Value == nil) || (s.Value == nil && f.looksLikeChan(s.X)) {
				f.g.fail("%s: range over %s may be a channel", f.name, ssStr(f.pkg.fset, s.X))
			}
			out = append(out, &ssNode{kind: "loop", kids: [][]*ssNode{body}})
		}
		f.locals = saved
	case *ast.SelectStmt:
		sel := &ssNode{kind: "sel"}
		for _, c := range s.Body.List {
			cc := c.(*ast.CommClause)
			saved := f.copyLocals()
			var rx ast.Expr
			var bound string
			switch cm := cc.Comm.(type) {
			case *ast.ExprStmt:
				rx = cm.X
			case *ast.AssignStmt:
				if len(cm.Rhs) == 1 {
					rx = cm.Rhs[0]
					if id, ok := cm.Lhs[0].(*ast.Ident); ok {
						bound = id.Name
					}
				}
			case nil:
				f.g.fail("%s: select with a default arm is not understood", f.name)
				continue
			}
			u, ok := rx.(*ast.UnaryExpr)
			if !ok || u.Op != token.ARROW {
				f.g.fail("%s: select arm %s is not understood (only receives)", f.name, ssStr(f.pkg.fset, cc.Comm))
				continue
			}
			kind, name := f.chanOf(u.X)
			if kind != "global" {
				f.g.fail("%s: select arm receives from %s, which is not a channel field", f.name, ssStr(f.pkg.fset, u.X))
				continue
			}
			if bound != "" {
				f.locals[bound] = f.g.chanElem[name]
			}
			arm := append([]*ssNode{{kind: "act", op: "recv", arg: name}}, f.branch(cc.Body)...)
			sel.kids = append(sel.kids, arm)
			f.locals = saved
		}
		out = append(out, sel)
	case *ast.BranchStmt:
		switch {
		case s.Tok == token.CONTINUE && s.Label == nil && f.inLoop > 0:
			out = append(out, &ssNode{kind: "cont"})
		default:
			out = append(out, &ssNode{kind: "bad", arg: s.Tok.String()})
		}
	case *ast.LabeledStmt:
		f.g.fail("%s: labelled statement", f.name)
	default:
		f.g.fail("%s: statement shape %T is not understood", f.name, s)
	}
	return out
}

func (f *ssFn) rootIsReceiver(e ast.Expr) bool {
	sel, ok := e.(*ast.SelectorExpr)
	if !ok {
		return false
	}
	for {
		switch x := sel.X.(type) {
		case *ast.SelectorExpr:
			sel = x
			continue
		case *ast.Ident:
			if f.decl == nil || f.decl.Recv == nil || len(f.decl.Recv.List[0].Names) != 1 {
				return false
			}
			return x.Name == f.decl.Recv.List[0].Names[0].Name
		}
		return false
	}
}

func (f *ssFn) recvTypeName() string {
	if i := strings.Index(f.name, "."); i > 0 {
		return f.name[:i]
	}
	return f.name
}

func (f *ssFn) isTickerC(e ast.Expr) bool {
	sel, ok := e.(*ast.SelectorExpr)
	if !ok || sel.Sel.Name != "C" {
		return false
	}
	id, ok := sel.X.(*ast.Ident)
	return ok && f.locals[id.Name] == "" && strings.Contains(strings.ToLower(id.Name), "tick")
}

func (f *ssFn) looksLikeChan(e ast.Expr) bool {
	s := strings.ToLower(ssStr(f.pkg.fset, e))
	return strings.HasSuffix(s, "ch") || strings.HasSuffix(s, "chan") || strings.HasSuffix(s, ".c")
}

// ---------------------------------------------------------------------------------------
// elimination of ret / cont, simplification

// elim returns the ret-free skeleton of `l` followed by the continuation k (k is ret-free).
// `bad` nodes (break, goto …) are fatal only when anything that synchronises is around.
func (g *ssGen) elim(fn string, l []*ssNode, k []*ssNode, inLoop bool) []*ssNode {
	if len(l) == 0 {
		return k
	}
	n, rest := l[0], l[1:]
	switch n.kind {
	case "ret":
		return nil
	case "cont":
		if !inLoop {
			g.fail("%s: continue outside a loop", fn)
		}
		return nil
	case "bad":
		g.fail("%s: `%s` is not understood", fn, n.arg)
		return nil
	case "alt":
		escapes := false
		for _, b := range n.kids {
			if ssHas(b, "ret") || ssHas(b, "cont") || ssHas(b, "bad") {
				escapes = true
			}
		}
		if !escapes {
			return append([]*ssNode{n}, g.elim(fn, rest, k, inLoop)...)
		}
		tail := g.elim(fn, rest, k, inLoop)
		alt := &ssNode{kind: "alt"}
		for _, b := range n.kids {
			alt.kids = append(alt.kids, g.elim(fn, b, tail, inLoop))
		}
		return []*ssNode{alt}
	case "loop":
		body := n.kids[0]
		tail := g.elim(fn, rest, k, inLoop)
		if ssHas(body, "bad") {
			if ssHasSync(body) {
				g.fail("%s: break / goto in a loop that synchronises", fn)
			}
			return tail
		}
		if ssHas(body, "ret") {
			// returning from inside a loop: understood only when the loop itself does not
			// synchronise (then it is: maybe return — running the deferred calls —, or go on)
			stripped := ssRetPaths(body)
			if stripped == nil {
				g.fail("%s: return inside a loop that synchronises is not understood", fn)
				return tail
			}
			alt := &ssNode{kind: "alt", kids: [][]*ssNode{tail}}
			for _, p := range stripped {
				alt.kids = append(alt.kids, p)
			}
			return []*ssNode{alt}
		}
		nb := g.elim(fn, body, nil, true)
		return append([]*ssNode{{kind: "loop", inf: n.inf, kids: [][]*ssNode{nb}}}, tail...)
	case "sel":
		escapes := false
		for _, arm := range n.kids {
			if ssHas(arm, "bad") {
				g.fail("%s: break / goto inside a select arm is not understood", fn)
			}
			if ssHas(arm, "ret") || ssHas(arm, "cont") {
				escapes = true
			}
		}
		if !escapes {
			return append([]*ssNode{n}, g.elim(fn, rest, k, inLoop)...)
		}
		// `select { case a: A; case b: B }; rest` is `select { case a: A; rest  case b: B; rest }`
		tail := g.elim(fn, rest, k, inLoop)
		sel := &ssNode{kind: "sel"}
		for _, arm := range n.kids {
			sel.kids = append(sel.kids, append([]*ssNode{arm[0]}, g.elim(fn, arm[1:], tail, inLoop)...))
		}
		return []*ssNode{sel}
	}
	return append([]*ssNode{n}, g.elim(fn, rest, k, inLoop)...)
}

// ssRetPaths: for a loop body whose only synchronisation are the deferred actions in front of
// its `ret`s, the list of those deferred sequences; nil when the body synchronises otherwise.
func ssRetPaths(body []*ssNode) [][]*ssNode {
	var paths [][]*ssNode
	var walk func(l []*ssNode) bool
	walk = func(l []*ssNode) bool {
		// the deferred actions are the maximal run of act/call nodes directly before a ret
		for i := 0; i < len(l); i++ {
			n := l[i]
			switch n.kind {
			case "act", "call":
				j := i
				for j < len(l) && (l[j].kind == "act" || l[j].kind == "call") {
					j++
				}
				if j < len(l) && l[j].kind == "ret" {
					paths = append(paths, l[i:j])
					return true
				}
				return false
			case "go", "sel":
				return false
			case "ret":
				paths = append(paths, nil)
				return true
			case "alt", "loop":
				for _, b := range n.kids {
					if !walk(b) {
						return false
					}
				}
			}
		}
		return true
	}
	if !walk(body) {
		return nil
	}
	return paths
}

func ssEq(a, b []*ssNode) bool {
	return ssRender(a, nil) == ssRender(b, nil)
}

func ssSimplify(l []*ssNode) []*ssNode {
	var out []*ssNode
	for _, n := range l {
		switch n.kind {
		case "alt":
			var bs [][]*ssNode
			var add func(b []*ssNode)
			add = func(b []*ssNode) {
				b = ssSimplify(b)
				// a branch that is exactly one nested alt is flattened into this one
				if len(b) == 1 && b[0].kind == "alt" {
					for _, bb := range b[0].kids {
						add(bb)
					}
					return
				}
				for _, o := range bs {
					if ssEq(o, b) {
						return
					}
				}
				bs = append(bs, b)
			}
			for _, b := range n.kids {
				add(b)
			}
			if len(bs) == 1 {
				out = append(out, bs[0]...)
			} else {
				out = append(out, &ssNode{kind: "alt", kids: bs})
			}
		case "loop":
			b := ssSimplify(n.kids[0])
			if len(b) == 0 && !n.inf {
				continue
			}
			out = append(out, &ssNode{kind: "loop", inf: n.inf, kids: [][]*ssNode{b}})
		case "sel":
			s := &ssNode{kind: "sel"}
			for _, a := range n.kids {
				s.kids = append(s.kids, ssSimplify(a))
			}
			out = append(out, s)
		default:
			out = append(out, n)
		}
	}
	return out
}

// prune removes calls to functions with an empty skeleton
func ssPrune(l []*ssNode, empty map[string]bool) []*ssNode {
	var out []*ssNode
	for _, n := range l {
		if (n.kind == "call") && empty[n.arg] {
			continue
		}
		if len(n.kids) > 0 {
			c := &ssNode{kind: n.kind, op: n.op, arg: n.arg, inf: n.inf}
			for _, k := range n.kids {
				c.kids = append(c.kids, ssPrune(k, empty))
			}
			n = c
		}
		out = append(out, n)
	}
	return out
}

// every loop body must release what it locks (a lock carried around a loop is not understood)
func (g *ssGen) checkLoops(fn string, l []*ssNode, inLoop bool) {
	bal := map[string]int{}
	for _, n := range l {
		if n.kind == "act" {
			switch n.op {
			case "lock", "rlock":
				bal[n.arg]++
			case "unlock", "runlock":
				bal[n.arg]--
			}
		}
		for _, k := range n.kids {
			g.checkLoops(fn, k, inLoop || n.kind == "loop")
		}
	}
	if inLoop {
		for m, b := range bal {
			if b != 0 {
				g.fail("%s: %s is locked and not released (or released and not locked) inside one pass of a loop / branch of a loop", fn, m)
			}
		}
	}
}

// ---------------------------------------------------------------------------------------
// rendering

type ssIds struct {
	fn, mu, ch, rp map[string]int
}

func ssRender(l []*ssNode, ids *ssIds) string {
	var parts []string
	for _, n := range l {
		parts = append(parts, ssRenderNode(n, ids))
	}
	return "[" + strings.Join(parts, ", ") + "]"
}

func ssRenderNode(n *ssNode, ids *ssIds) string {
	id := func(_ map[string]int, prefix, s string) string {
		if ids == nil {
			return s
		}
		return prefix + ssIdent(s)
	}
	switch n.kind {
	case "act":
		switch n.op {
		case "lock", "unlock", "rlock", "runlock", "wait", "signal":
			var m map[string]int
			return ".act (." + n.op + " " + id(m, "m_", n.arg) + ")"
		case "send", "recv":
			var m map[string]int
			return ".act (." + n.op + " " + id(m, "ch_", n.arg) + ")"
		case "sendReply", "recvReply":
			var m map[string]int
			return ".act (." + n.op + " " + id(m, "rp_", n.arg) + ")"
		case "sendFresh":
			return ".act (.sendFresh " + n.arg + ")"
		}
	case "call", "go":
		var m map[string]int
		return "." + n.kind + " " + id(m, "f_", n.arg)
	case "alt", "sel":
		var bs []string
		for _, b := range n.kids {
			bs = append(bs, ssRender(b, ids))
		}
		return "." + n.kind + " [" + strings.Join(bs, ", ") + "]"
	case "loop":
		return fmt.Sprintf(".loop %v %s", n.inf, ssRender(n.kids[0], ids))
	}
	return "<" + n.kind + ":" + n.arg + ">"
}

func ssIdent(s string) string {
	return strings.NewReplacer(".", "_").Replace(s)
}

// ---------------------------------------------------------------------------------------

// the objects of which a node has exactly one: their mutex / channel fields are THE mutexes and
// channels of the model
var ssSingletons = map[string]bool{"Chain": true, "Casper": true, "TxPool": true, "OrphanManage": true}

// the functions the property talks about: a rename makes the generator fail
var ssRequired = []string{
	"Chain.ProcessBlock", "Chain.blockProcessor", "Chain.processBlock", "Chain.saveBlock", "Chain.saveSubBlock",
	"Chain.tryReorganize", "Chain.reorganizeChain", "Chain.setState", "Chain.BestBlockHeader", "Chain.BestBlockHeight",
	"Chain.InMainChain", "Chain.BlockWaiter", "Chain.ValidateTx", "Chain.ProcessBlockVerification",
	"Casper.ApplyBlock", "Casper.AuthVerification", "Casper.tryRollback", "Casper.authVerificationLoop", "Casper.authCachedMsg",
	"Casper.LastFinalized", "Casper.LastJustified", "Casper.BestChain",
	"TxPool.ProcessTransaction", "TxPool.RemoveTransaction", "TxPool.GetTransactions",
	"OrphanManage.Add", "OrphanManage.Get", "OrphanManage.Delete", "OrphanManage.BlockExist", "OrphanManage.GetPrevOrphans",
	"protocol.NewChainWithOrphanManage", "casper.NewCasper",
}

func genSyncSkel(repo string) (string, error) {
	g := &ssGen{pkgs: map[string]*ssPkg{}, chanCap: map[string]int{}, chanElem: map[string]string{}, replyCap: map[string]int{},
		skel: map[string][]*ssNode{}, externals: map[string]bool{}, mutexes: map[string]string{}}
	for _, pr := range [][2]string{{"protocol", "protocol"}, {"protocol/casper", "casper"}} {
		p, err := ssLoadPkg(repo, pr[0], pr[1])
		if err != nil {
			return "", err
		}
		g.pkgs[pr[1]] = p
	}
	// 1. global channels: chan-typed fields of the singleton objects, capacity from the make
	// site in a composite literal `&T{ field: make(chan X, n) }`
	singletons := ssSingletons
	for _, p := range g.pkgs {
		for sn, st := range p.structs {
			if !singletons[sn] {
				continue
			}
			for _, fl := range st.Fields.List {
				ct, ok := fl.Type.(*ast.ChanType)
				if !ok {
					continue
				}
				for _, nm := range fl.Names {
					g.chanCap[sn+"."+nm.Name] = -1
					g.chanElem[sn+"."+nm.Name] = g.normType(p, "", ct.Value)
				}
			}
		}
	}
	for _, p := range g.pkgs {
		for _, file := range p.files {
			ast.Inspect(file, func(n ast.Node) bool {
				cl, ok := n.(*ast.CompositeLit)
				if !ok {
					return true
				}
				_, sn, ok := ssStructOf(g.normType(p, "", cl.Type))
				if !ok || !singletons[sn] {
					return true
				}
				for _, el := range cl.Elts {
					kv, ok := el.(*ast.KeyValueExpr)
					if !ok {
						continue
					}
					key, _ := kv.Key.(*ast.Ident)
					if key == nil {
						continue
					}
					if _, isCh := g.chanCap[sn+"."+key.Name]; !isCh {
						continue
					}
					call, ok := kv.Value.(*ast.CallExpr)
					if !ok || len(call.Args) < 1 {
						g.fail("%s.%s is not initialised with make(chan …)", sn, key.Name)
						continue
					}
					c := 0
					if len(call.Args) == 2 {
						tmp := &ssFn{g: g, pkg: p, name: sn + "." + key.Name}
						n, err := tmp.intConst(call.Args[1])
						if err != nil {
							g.fail("%v", err)
						}
						c = n
					}
					if old := g.chanCap[sn+"."+key.Name]; old >= 0 && old != c {
						g.fail("%s.%s is made with different capacities", sn, key.Name)
					}
					g.chanCap[sn+"."+key.Name] = c
				}
				return true
			})
		}
	}
	for ch, c := range g.chanCap {
		if c < 0 {
			g.fail("no make(chan …) site found for %s", ch)
		}
	}
	if g.err != nil {
		return "", g.err
	}
	// 2. skeleton of every function (and of the goroutine literals they start)
	var keys []string
	decls := map[string]*ssFn{}
	for _, p := range g.pkgs {
		for key, d := range p.funcs {
			if d.Body == nil {
				continue
			}
			keys = append(keys, key)
			decls[key] = &ssFn{g: g, pkg: p, name: key, decl: d}
		}
	}
	sort.Strings(keys)
	raw := map[string][]*ssNode{}
	var walkFn func(f *ssFn, params *ast.FieldList, recv *ast.FieldList, body []ast.Stmt, env map[string]string)
	walkFn = func(f *ssFn, params *ast.FieldList, recv *ast.FieldList, body []ast.Stmt, env map[string]string) {
		f.locals = map[string]string{}
		for k, v := range env {
			f.locals[k] = v
		}
		for _, fl := range []*ast.FieldList{recv, params} {
			if fl == nil {
				continue
			}
			for _, fd := range fl.List {
				for _, nm := range fd.Names {
					f.locals[nm.Name] = g.normType(f.pkg, "", fd.Type)
				}
			}
		}
		out := f.block(body)
		out = append(out, f.deferred()...)
		raw[f.name] = out
		for _, l := range f.pending {
			sub := &ssFn{g: g, pkg: f.pkg, name: l.name, decl: f.decl}
			keys = append(keys, l.name)
			walkFn(sub, l.lit.Type.Params, nil, l.lit.Body.List, l.env)
		}
	}
	for _, key := range append([]string{}, keys...) {
		f := decls[key]
		walkFn(f, f.decl.Type.Params, f.decl.Recv, f.decl.Body.List, nil)
	}
	if g.err != nil {
		return "", g.err
	}
	// 3. drop functions whose transitive skeleton is empty (least fixpoint: a function is kept
	// when it synchronises itself or calls a kept function)
	empty := map[string]bool{}
	for _, key := range keys {
		empty[key] = true
	}
	for {
		changed := false
		for _, key := range keys {
			if empty[key] && ssHasSync(ssPrune(raw[key], empty)) {
				empty[key] = false
				changed = true
			}
		}
		if !changed {
			break
		}
	}
	sort.Strings(keys)
	for _, key := range keys {
		if empty[key] {
			continue
		}
		sk := ssSimplify(g.elim(key, ssPrune(raw[key], empty), nil, false))
		g.checkLoops(key, sk, false)
		g.skel[key] = sk
		g.order = append(g.order, key)
	}
	for _, r := range ssRequired {
		if _, ok := g.skel[r]; !ok {
			g.fail("required function %s has no synchronisation skeleton (renamed or emptied?)", r)
		}
	}
	if g.err != nil {
		return "", g.err
	}
	// 4. which reply channel does a global channel carry: the chan-typed field of its element struct
	replyOf := map[string]string{}
	var chans []string
	for ch := range g.chanCap {
		chans = append(chans, ch)
	}
	sort.Strings(chans)
	for _, ch := range chans {
		if pn, sn, ok := ssStructOf(g.chanElem[ch]); ok {
			for _, fl := range g.pkgs[pn].structs[sn].Fields.List {
				if _, isCh := fl.Type.(*ast.ChanType); isCh {
					for _, nm := range fl.Names {
						if replyOf[ch] != "" {
							g.fail("message %s has two channel fields", sn)
						}
						replyOf[ch] = sn + "." + nm.Name
					}
				}
			}
		}
	}
	var replies []string
	for r := range g.replyCap {
		replies = append(replies, r)
	}
	sort.Strings(replies)
	for _, ch := range chans {
		if r := replyOf[ch]; r != "" {
			if _, ok := g.replyCap[r]; !ok {
				g.fail("no make site found for reply channel %s", r)
			}
		}
	}
	var mus []string
	for m := range g.mutexes {
		mus = append(mus, m)
	}
	sort.Strings(mus)
	if g.err != nil {
		return "", g.err
	}
	// 5. emit
	ids := &ssIds{}
	var b strings.Builder
	b.WriteString("/- GENERATED by /verif/gen/syncskel.go from protocol/*.go and protocol/casper/*.go — do not edit.\n" +
		"   The ordered synchronisation skeleton of every function that locks, sends, receives,\n" +
		"   starts a goroutine or calls such a function. -/\n" +
		"import BytomModel.Model.SyncSkel\n\nnamespace BytomModel.Gen.SyncSkel\nopen BytomModel.SyncSkel\n\n")
	b.WriteString("/-! mutexes -/\n")
	for i, m := range mus {
		fmt.Fprintf(&b, "def m_%s : Mutex := %d\n", ssIdent(m), i)
	}
	b.WriteString("def mutexes : List (Mutex × String × String) := [")
	for i, m := range mus {
		if i > 0 {
			b.WriteString(", ")
		}
		fmt.Fprintf(&b, "(%d, %s, %s)", i, n2leanStr(m), n2leanStr(g.mutexes[m]))
	}
	b.WriteString("]\n\n/-! channels that are fields of Chain / Casper: id, name, capacity, reply channel carried by their messages -/\n")
	for i, r := range replies {
		fmt.Fprintf(&b, "def rp_%s : Rep := %d\n", ssIdent(r), i)
	}
	for i, ch := range chans {
		fmt.Fprintf(&b, "def ch_%s : Chan := %d\n", ssIdent(ch), i)
	}
	b.WriteString("def replies : List (Rep × String × Nat) := [")
	for i, r := range replies {
		if i > 0 {
			b.WriteString(", ")
		}
		fmt.Fprintf(&b, "(%d, %s, %d)", i, n2leanStr(r), g.replyCap[r])
	}
	b.WriteString("]\ndef chans : List (Chan × String × Nat × Option Rep) := [")
	for i, ch := range chans {
		if i > 0 {
			b.WriteString(", ")
		}
		ro := "none"
		if r := replyOf[ch]; r != "" {
			for j, rr := range replies {
				if rr == r {
					ro = fmt.Sprintf("some %d", j)
				}
			}
		}
		fmt.Fprintf(&b, "(%d, %s, %d, %s)", i, n2leanStr(ch), g.chanCap[ch], ro)
	}
	b.WriteString("]\n\n/-! functions -/\n")
	for i, fn := range g.order {
		fmt.Fprintf(&b, "def f_%s : Fn := %d\n", ssIdent(fn), i)
	}
	b.WriteString("def fnNames : List (Fn × String) := [\n")
	for i, fn := range g.order {
		sep := ","
		if i == len(g.order)-1 {
			sep = ""
		}
		fmt.Fprintf(&b, "  (%d, %s)%s\n", i, n2leanStr(fn), sep)
	}
	b.WriteString("]\n\n/-- the skeleton: function ↦ ordered synchronisation actions -/\ndef skeleton : List (Fn × List Stmt) := [\n")
	for i, fn := range g.order {
		sep := ","
		if i == len(g.order)-1 {
			sep = ""
		}
		fmt.Fprintf(&b, "  (f_%s, %s)%s\n", ssIdent(fn), ssRender(g.skel[fn], ids), sep)
	}
	b.WriteString("]\n\n/-- receivers of calls that are NOT followed (other packages, interfaces, locals) -/\ndef externals : List String := ")
	var ext []string
	for e := range g.externals {
		ext = append(ext, e)
	}
	sort.Strings(ext)
	b.WriteString(n2leanStrList(ext))
	b.WriteString("\n\nend BytomModel.Gen.SyncSkel\n")
	return b.String(), nil
}

func init() { register("SyncSkel", genSyncSkel) }
