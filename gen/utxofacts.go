package main

// Fact extractor for C10 (ledger views): the source-level facts the hand-written model
// lean/BytomModel/Model/Ledger.lean depends on, re-read from the Go source on every run.
//   * the values of the storage.*UTXOType constants and consensus.CoinbasePendingBlockNumber
//   * the condition under which saveUtxoView deletes a record
//   * the conditions of applySpendUtxo's maturity / vote-lock checks
//   * the argument lists of every storage.NewUtxoEntry call in protocol/state/utxo_view.go
//   * the guard conditions of the contract view (ApplyBlock, saveContractView, deleteContractView)
// Expressions are rendered with go/printer, whitespace-normalised.

import (
	"bytes"
	"fmt"
	"go/ast"
	"go/parser"
	"go/printer"
	"go/token"
	"path/filepath"
	"strconv"
	"strings"
)

func utxoExprString(fset *token.FileSet, e ast.Node) string {
	var b bytes.Buffer
	printer.Fprint(&b, fset, e)
	return strings.Join(strings.Fields(b.String()), " ")
}

func utxoFindFunc(f *ast.File, name string) *ast.FuncDecl {
	for _, d := range f.Decls {
		if fd, ok := d.(*ast.FuncDecl); ok && fd.Name.Name == name && fd.Body != nil {
			return fd
		}
	}
	return nil
}

// conditions of all `if` statements (in source order) whose body contains a call to <sel>
func utxoIfCondsWithCall(fset *token.FileSet, fd *ast.FuncDecl, callSel string) []string {
	var out []string
	ast.Inspect(fd.Body, func(n ast.Node) bool {
		is, ok := n.(*ast.IfStmt)
		if !ok {
			return true
		}
		found := false
		ast.Inspect(is.Body, func(m ast.Node) bool {
			if ce, ok := m.(*ast.CallExpr); ok {
				if utxoExprString(fset, ce.Fun) == callSel {
					found = true
				}
			}
			return true
		})
		if found {
			c := utxoExprString(fset, is.Cond)
			if is.Init != nil {
				c = utxoExprString(fset, is.Init) + "; " + c
			}
			out = append(out, c)
		}
		return true
	})
	return out
}

func genUtxoFacts(repo string) (string, error) {
	fset := token.NewFileSet()
	parse := func(rel string) (*ast.File, error) {
		return parser.ParseFile(fset, filepath.Join(repo, rel), nil, 0)
	}
	// --- storage type constants (one const block with iota)
	sf, err := parse("database/storage/utxo_entry.go")
	if err != nil {
		return "", err
	}
	types := map[string]int{}
	for _, d := range sf.Decls {
		gd, ok := d.(*ast.GenDecl)
		if !ok || gd.Tok != token.CONST {
			continue
		}
		for i, sp := range gd.Specs {
			vs := sp.(*ast.ValueSpec)
			if i == 0 {
				if len(vs.Values) != 1 || utxoExprString(fset, vs.Values[0]) != "iota" {
					return "", fmt.Errorf("utxo type constants are no longer a plain iota block")
				}
			} else if len(vs.Values) != 0 {
				return "", fmt.Errorf("utxo type constant %s has an explicit value", vs.Names[0].Name)
			}
			for _, n := range vs.Names {
				types[n.Name] = i
			}
		}
	}
	for _, n := range []string{"NormalUTXOType", "CoinbaseUTXOType", "VoteUTXOType"} {
		if _, ok := types[n]; !ok {
			return "", fmt.Errorf("constant %s not found", n)
		}
	}
	// --- CoinbasePendingBlockNumber
	cf, err := parse("consensus/general.go")
	if err != nil {
		return "", err
	}
	pending := -1
	ast.Inspect(cf, func(n ast.Node) bool {
		vs, ok := n.(*ast.ValueSpec)
		if !ok {
			return true
		}
		for i, nm := range vs.Names {
			if nm.Name == "CoinbasePendingBlockNumber" && i < len(vs.Values) {
				s := utxoExprString(fset, vs.Values[i])
				s = strings.TrimSuffix(strings.TrimPrefix(s, "uint64("), ")")
				if v, err := strconv.Atoi(s); err == nil {
					pending = v
				}
			}
		}
		return true
	})
	if pending < 0 {
		return "", fmt.Errorf("CoinbasePendingBlockNumber is not a literal")
	}
	// --- saveUtxoView deletion condition
	df, err := parse("database/utxo_view.go")
	if err != nil {
		return "", err
	}
	sv := utxoFindFunc(df, "saveUtxoView")
	if sv == nil {
		return "", fmt.Errorf("saveUtxoView not found")
	}
	del := utxoIfCondsWithCall(fset, sv, "batch.Delete")
	if len(del) != 1 {
		return "", fmt.Errorf("saveUtxoView: expected exactly one if-statement deleting a record, found %d", len(del))
	}
	// getTransactionsUtxo: the two `continue` guards
	gt := utxoFindFunc(df, "getTransactionsUtxo")
	if gt == nil {
		return "", fmt.Errorf("getTransactionsUtxo not found")
	}
	var loadGuards []string
	ast.Inspect(gt.Body, func(n ast.Node) bool {
		if is, ok := n.(*ast.IfStmt); ok && len(is.Body.List) == 1 {
			if bs, ok := is.Body.List[0].(*ast.BranchStmt); ok && bs.Tok == token.CONTINUE {
				loadGuards = append(loadGuards, utxoExprString(fset, is.Cond))
			}
		}
		return true
	})
	// --- protocol/state/utxo_view.go
	vf, err := parse("protocol/state/utxo_view.go")
	if err != nil {
		return "", err
	}
	type callFact struct {
		fn   string
		args []string
	}
	var calls []callFact
	for _, d := range vf.Decls {
		fd, ok := d.(*ast.FuncDecl)
		if !ok || fd.Body == nil {
			continue
		}
		ast.Inspect(fd.Body, func(n ast.Node) bool {
			ce, ok := n.(*ast.CallExpr)
			if ok && utxoExprString(fset, ce.Fun) == "storage.NewUtxoEntry" {
				var args []string
				for _, a := range ce.Args {
					args = append(args, utxoExprString(fset, a))
				}
				calls = append(calls, callFact{fd.Name.Name, args})
			}
			return true
		})
	}
	if len(calls) == 0 {
		return "", fmt.Errorf("no storage.NewUtxoEntry call in utxo_view.go")
	}
	as := utxoFindFunc(vf, "applySpendUtxo")
	if as == nil {
		return "", fmt.Errorf("applySpendUtxo not found")
	}
	// every if-condition of applySpendUtxo, in order, paired with the enclosing case label
	var spendChecks []string
	var walk func(n ast.Node, label string)
	walk = func(n ast.Node, label string) {
		ast.Inspect(n, func(m ast.Node) bool {
			switch x := m.(type) {
			case *ast.CaseClause:
				l := "default"
				if len(x.List) > 0 {
					var ls []string
					for _, e := range x.List {
						ls = append(ls, utxoExprString(fset, e))
					}
					l = strings.Join(ls, ",")
				}
				for _, s := range x.Body {
					walk(s, l)
				}
				return false
			case *ast.IfStmt:
				spendChecks = append(spendChecks, label+": "+utxoExprString(fset, x.Cond))
			}
			return true
		})
	}
	walk(as.Body, "-")
	ds := utxoFindFunc(vf, "detachSpendUtxo")
	if ds == nil {
		return "", fmt.Errorf("detachSpendUtxo not found")
	}
	var detachChecks []string
	ast.Inspect(ds.Body, func(n ast.Node) bool {
		if is, ok := n.(*ast.IfStmt); ok {
			detachChecks = append(detachChecks, utxoExprString(fset, is.Cond))
		}
		return true
	})
	// --- contract view
	cvf, err := parse("protocol/state/contract_view.go")
	if err != nil {
		return "", err
	}
	ab := utxoFindFunc(cvf, "ApplyBlock")
	if ab == nil {
		return "", fmt.Errorf("ContractViewpoint.ApplyBlock not found")
	}
	var attachGuards []string
	ast.Inspect(ab.Body, func(n ast.Node) bool {
		if is, ok := n.(*ast.IfStmt); ok {
			found := false
			for _, s := range is.Body.List {
				if a, ok := s.(*ast.AssignStmt); ok && strings.HasPrefix(utxoExprString(fset, a.Lhs[0]), "view.AttachEntries[") {
					found = true
				}
			}
			if found {
				c := utxoExprString(fset, is.Cond)
				if is.Init != nil {
					c = utxoExprString(fset, is.Init) + "; " + c
				}
				attachGuards = append(attachGuards, c)
			}
		}
		return true
	})
	dcf, err := parse("database/contract_view.go")
	if err != nil {
		return "", err
	}
	scv := utxoFindFunc(dcf, "saveContractView")
	dcv := utxoFindFunc(dcf, "deleteContractView")
	if scv == nil || dcv == nil {
		return "", fmt.Errorf("saveContractView / deleteContractView not found")
	}
	saveGuards := utxoIfCondsWithCall(fset, scv, "batch.Set")
	delGuards := utxoIfCondsWithCall(fset, dcv, "batch.Delete")

	var b strings.Builder
	b.WriteString("/- GENERATED by gen/utxofacts.go from database/storage/utxo_entry.go, consensus/general.go,\n   database/utxo_view.go, protocol/state/utxo_view.go, protocol/state/contract_view.go,\n   database/contract_view.go — do not edit -/\nnamespace BytomModel.Gen.UtxoFacts\n\n")
	fmt.Fprintf(&b, "def normalType : Nat := %d\ndef coinbaseType : Nat := %d\ndef voteType : Nat := %d\n", types["NormalUTXOType"], types["CoinbaseUTXOType"], types["VoteUTXOType"])
	fmt.Fprintf(&b, "def coinbasePendingBlockNumber : Nat := %d\n\n", pending)
	fmt.Fprintf(&b, "/-- condition of the `if` in saveUtxoView whose body deletes the record -/\ndef saveDeleteCond : String := %s\n\n", strconv.Quote(del[0]))
	fmt.Fprintf(&b, "/-- conditions of the `continue` guards of getTransactionsUtxo -/\ndef loadGuards : List String := %s\n\n", storeLeanStrList(loadGuards))
	b.WriteString("/-- (enclosing function, arguments) of every storage.NewUtxoEntry call in protocol/state/utxo_view.go -/\ndef newEntryCalls : List (String × List String) := [\n")
	for i, c := range calls {
		sep := ","
		if i == len(calls)-1 {
			sep = ""
		}
		fmt.Fprintf(&b, "  (%s, %s)%s\n", strconv.Quote(c.fn), storeLeanStrList(c.args), sep)
	}
	b.WriteString("]\n\n")
	fmt.Fprintf(&b, "/-- every if-condition of applySpendUtxo with the enclosing switch case -/\ndef spendChecks : List String := %s\n\n", storeLeanStrList(spendChecks))
	fmt.Fprintf(&b, "/-- every if-condition of detachSpendUtxo -/\ndef detachChecks : List String := %s\n\n", storeLeanStrList(detachChecks))
	fmt.Fprintf(&b, "/-- guard of the write to AttachEntries in ContractViewpoint.ApplyBlock -/\ndef contractAttachGuards : List String := %s\n", storeLeanStrList(attachGuards))
	fmt.Fprintf(&b, "/-- guards of the batch.Set calls of saveContractView -/\ndef contractSaveGuards : List String := %s\n", storeLeanStrList(saveGuards))
	fmt.Fprintf(&b, "/-- guards of the batch.Delete calls of deleteContractView -/\ndef contractDeleteGuards : List String := %s\n", storeLeanStrList(delGuards))
	b.WriteString("\nend BytomModel.Gen.UtxoFacts\n")
	return b.String(), nil
}

func init() { register("UtxoFacts", genUtxoFacts) }
