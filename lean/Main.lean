import BytomModel.Drv.Dispatch
def main (args : List String) : IO UInt32 := BytomModel.Drv.dispatch args
