import BytomModel.Drv.VMCommon
/- driver mode c07: a `vm.Verify` case (see VMCommon for the line format), evaluated on the
   HEAP instance of the VM model (Go slices, the code as it is): complete TraceOut text
   (depth, pc, runLimit, opcode, stacks per step), error class and gasLeft. -/
namespace BytomModel.Drv.C07
open BytomModel.Drv BytomModel.VM BytomModel.Drv.VMCommon

def step (_ : Unit) (line : String) : Unit × String :=
  let out := match words line with
    | "v" :: rest =>
      match parseCase rest with
      | some c => heapVerifyLine c
      | none => "bad-op"
    | _ => "bad-op"
  ((), out)

def run (_args : List String) : IO Unit := lineLoop () step
end BytomModel.Drv.C07
