import BytomModel.Model.Store
import BytomModel.Drv.Util
/- driver mode c21.  Lines:
     reset <capHdr> <capTxs> <capHashes> <capMain> <capCkpt> [b:h …]    → ok  (the universe is for the harness)
     saveblock <b> <h> <w> <sl,…|-> <tx,…|->  |  savehdr <b> <h> <w> <sl,…|->
     status <b>:<h> …  |  saveckpt <ch>:<b>:<st> …                      → ok
     hdr <b> | txs <b> | hashes <h> | main <h> | block <b> | ckpt <b> | ckpth <h>
   outputs: err | hdr b h w sl | ids … | id b | block b h w sl txs | ckpt ch b st sl | ckpts ch:b:st:sl;… -/
namespace BytomModel.Drv.C21
open BytomModel.Drv BytomModel.Store

def parseCsv (s : String) : Option (List Nat) :=
  if s == "-" then some [] else (s.splitOn ",").mapM String.toNat?

def showL (sep : String) (l : List Nat) : String :=
  if l.isEmpty then "-" else sep.intercalate (l.map toString)

def showHdr (h : Header) : String := s!"{h.hash} {h.height} {h.wit} {showL "," h.sl}"

def showObj (o : CkptObj) : String := s!"{o.c.height}:{o.c.hash}:{o.c.status}:{showL "+" o.sl}"

def showOut : Out → String
  | .ok => "ok"
  | .err => "err"
  | .hdr h => "hdr " ++ showHdr h
  | .ids l => "ids " ++ showL "," l
  | .id b => s!"id {b}"
  | .block h t => "block " ++ showHdr h ++ " " ++ showL "," t
  | .ckpt o => s!"ckpt {o.c.height} {o.c.hash} {o.c.status} {showL "," o.sl}"
  | .ckpts l => "ckpts " ++ (if l.isEmpty then "-" else ";".intercalate (l.map showObj))

def parsePair (tok : String) : Option Header :=
  match tok.splitOn ":" with
  | [b, h] => do
    let b ← b.toNat?
    let h ← h.toNat?
    pure ⟨b, h, 0, []⟩
  | _ => none

def parseCk (tok : String) : Option Ckpt :=
  match tok.splitOn ":" with
  | [ch, b, st] => do
    let ch ← ch.toNat?
    let b ← b.toNat?
    let st ← st.toNat?
    pure ⟨ch, b, st⟩
  | _ => none

def parseOp : List String → Option Op
  | ["saveblock", b, h, w, sl, txs] => do
    let b ← b.toNat?
    let h ← h.toNat?
    let w ← w.toNat?
    let sl ← parseCsv sl
    let txs ← parseCsv txs
    pure (.saveBlock ⟨b, h, w, sl⟩ txs)
  | ["savehdr", b, h, w, sl] => do
    let b ← b.toNat?
    let h ← h.toNat?
    let w ← w.toNat?
    let sl ← parseCsv sl
    pure (.saveHeader ⟨b, h, w, sl⟩)
  | "status" :: toks => (toks.mapM parsePair).map .saveStatus
  | "saveckpt" :: toks => (toks.mapM parseCk).map .saveCkpts
  | ["hdr", b] => b.toNat?.map .hdr
  | ["txs", b] => b.toNat?.map .txs
  | ["hashes", h] => h.toNat?.map .hashes
  | ["main", h] => h.toNat?.map .main
  | ["block", b] => b.toNat?.map .block
  | ["ckpt", b] => b.toNat?.map .ckpt
  | ["ckpth", h] => h.toNat?.map .ckptsAt
  | _ => none

def step (st : Store) (line : String) : Store × String :=
  match words line with
  | "reset" :: a :: b :: c :: d :: e :: _ =>
    match a.toNat?, b.toNat?, c.toNat?, d.toNat?, e.toNat? with
    | some a, some b, some c, some d, some e => (Store.fresh ⟨a, b, c, d, e⟩ DB.empty, "ok")
    | _, _, _, _, _ => (st, "bad-op")
  | ws =>
    match parseOp ws with
    | none => (st, "bad-op")
    | some op => let r := BytomModel.Store.step st op; (r.1, showOut r.2)

def run (_args : List String) : IO Unit := lineLoop (Store.fresh ⟨0, 0, 0, 0, 0⟩ DB.empty) step
end BytomModel.Drv.C21
