import BytomModel.Model.Spend
import BytomModel.Model.Sha3
import BytomModel.Model.Sha256
import BytomModel.Model.Ripemd160
import BytomModel.Drv.Util
/- driver mode c02.
   op:   tx <blockVersion> <blockHeight> <hex text of the serialized transaction> <sigtable> <label>
         sigtable = pk:msg:sig;… the triples for which ed25519.Verify is true ("." = none)
   out:  ok <BTMValue> <GasLeft> <GasUsed> <StorageGas> | vm:<class> | val:<class> | undecodable | panic
   Everything else — decoding, entry ids, signature hashes (own SHA3-256), segwit conversion,
   the VM run with RIPEMD-160 / SHA3 / SHA-256 of the model, the gas bookkeeping — is computed
   by the model from the transaction bytes. -/
namespace BytomModel.Drv.C02
open BytomModel.Drv BytomModel.Spend

def H : List UInt8 → List UInt8 := BytomModel.Sha3.sha3_256

def parseSigs (s : String) : Option (List (List UInt8 × List UInt8 × List UInt8)) :=
  if s == "." then some [] else
  (s.splitOn ";").mapM fun t =>
    match t.splitOn ":" with
    | [a, b, c] => do
      let a ← parseHex a
      let b ← parseHex b
      let c ← parseHex c
      pure (a, b, c)
    | _ => none

def textOf (s : String) : List UInt8 := s.toList.map (fun c => UInt8.ofNat c.toNat)

/-- far beyond what 300000 units of gas can execute -/
def fuel : Nat := 2000000

def txLine (bv bh : Nat) (text : String) (sigs : List (List UInt8 × List UInt8 × List UInt8)) : String :=
  let cr : Crypto := { verify := fun pk msg sg => sigs.contains (pk, msg, sg),
                       sha256 := BytomModel.Sha256.sha256, sha3 := H,
                       ripemd160 := BytomModel.Ripemd160.ripemd160 }
  match (BytomModel.Codec.txDataFromText H (textOf text)).out with
  | .err _ => "undecodable"
  | .panic => "panic"
  | .ok tx _ => (validateSpendTx cr none fuel H (fun _ => none) bv bh tx).line

def step (_ : Unit) (line : String) : Unit × String :=
  let out := match words line with
    | "tx" :: bv :: bh :: text :: sigs :: _ =>
      match bv.toNat?, bh.toNat?, parseSigs sigs with
      | some bv, some bh, some sigs => txLine bv bh text sigs
      | _, _, _ => "bad-op"
    | _ => "bad-op"
  ((), out)

def run (_args : List String) : IO Unit := lineLoop () step
end BytomModel.Drv.C02
