import BytomModel.Model.Checkpoint
import BytomModel.Drv.Util
/- parsing / printing shared by the drivers of C14 and C15 (checkpoint model) -/
namespace BytomModel.Drv.EconUtil
open BytomModel.Drv BytomModel.Model.Checkpoint

def parseKey (s : String) : Option Key := (parseHex s).map (fun bs => bs.map (·.toNat))
def keyHex (k : Key) : String := toHex (k.map UInt8.ofNat)

/-- "k:v,k:v" or "-" -/
def parsePairs (s : String) : Option (List (Key × Nat)) :=
  if s == "-" then some [] else
  (s.splitOn ",").mapM (fun e => match e.splitOn ":" with
    | [k, v] => do pure (← parseKey k, ← v.toNat?)
    | _ => none)

def parseKeys (s : String) : Option (List Key) :=
  if s == "-" then some [] else (s.splitOn ",").mapM parseKey

def insertK (x : Key × Nat) : List (Key × Nat) → List (Key × Nat)
  | [] => [x]
  | y :: t => if ltB x.1 y.1 then x :: y :: t else y :: insertK x t

def sortK (l : List (Key × Nat)) : List (Key × Nat) := l.foldr insertK []

def showPairs (l : List (Key × Nat)) : String :=
  if l.isEmpty then "-" else ",".intercalate (l.map (fun e => s!"{keyHex e.1}:{e.2}"))

def showStatus : Status → String
  | .growing => "g" | .unjustified => "u" | .justified => "j" | .finalized => "f"

def parseStatus : String → Option Status
  | "g" => some .growing | "u" => some .unjustified | "j" => some .justified | "f" => some .finalized | _ => none

/-- `T <vetoes> <votes> <fee>` groups -/
def parseTxsCore : List String → Option (List CTx)
  | [] => some []
  | "T" :: ve :: vo :: fee :: rest => do
    let t : CTx := { vetoes := ← parsePairs ve, votes := ← parsePairs vo, fee := ← fee.toNat? }
    let r ← parseTxsCore rest
    pure (t :: r)
  | _ => none

/-- `T <vetoes> <votes> <fee> [B<burn>:<kind>]` groups: the optional `B…` token only tells the
    harness how to rebuild the transaction (BTM sent to a retirement output); the fee already
    excludes it, so the model drops the token -/
def parseTxs (ws : List String) : Option (List CTx) := parseTxsCore (ws.filter (fun w => !w.startsWith "B"))

/-- outputs "amount:program[:flags]" (flags: n = not original, x = not BTM) or "-" -/
def parseOuts (s : String) : Option (List COut) :=
  if s == "-" then some [] else
  (s.splitOn ",").mapM (fun e => match e.splitOn ":" with
    | [a, p] => do pure { original := true, btm := true, amount := ← a.toNat?, program := ← parseKey p }
    | [a, p, f] => do pure { original := !(f.contains 'n'), btm := !(f.contains 'x'), amount := ← a.toNat?, program := ← parseKey p }
    | _ => none)

def showOuts (l : List COut) : String :=
  if l.isEmpty then "-" else ",".intercalate (l.map (fun o => s!"{o.amount}:{keyHex o.program}"))

def insertVO (x : Validator) : List Validator → List Validator
  | [] => [x]
  | y :: t => if x.order < y.order ∨ (x.order = y.order ∧ ltB x.pubKey y.pubKey) then x :: y :: t else y :: insertVO x t

def showValidators (l : List Validator) : String :=
  if l.isEmpty then "-" else ",".intercalate (l.map (fun v => s!"{keyHex v.pubKey}:{v.order}:{v.voteNum}"))

end BytomModel.Drv.EconUtil
