import BytomModel.Model.Builder
import BytomModel.Drv.C26
/- driver mode c27: keeper population ops (as c26, with a program field) + `build` lines -/
namespace BytomModel.Drv.C27
open BytomModel.Drv BytomModel.Model.Keeper BytomModel.Model.Builder
open BytomModel.Drv.C26 (nat? joinWith dump)

def parseUtxoP (w : List String) : Option Utxo :=
  match w.map nat? with
  | [some id, some asset, some amount, some acct, some vote, some vh, some contract, some prog] =>
    some ⟨id, asset, amount, acct, vote, vh, contract == 1, prog⟩
  | _ => none

def parseAction (tok : String) : Option Action :=
  let body := (tok.drop 1).toString
  let ns := (body.splitOn ",").mapM (fun x => x.toNat?)
  match tok.front, ns with
  | 'S', some [acct, asset, amount, unc] => some (.spend acct asset amount (unc == 1))
  | 'C', some [asset, amount, prog] => some (.control asset amount prog)
  | 'R', some [asset, amount] => some (.retire asset amount)
  | _, _ => none

def errName : BErr → String
  | .missing => "missing"
  | .reserve .insufficient => "insufficient"
  | .reserve .immature => "immature"
  | .reserve .reserved => "reserved"
  | .reserve .matchUtxo => "match"
  | .badAmount => "badamount"
  | .panic => "panic"

def kindName : OutKind → String
  | .recv => "recv"
  | .change => "change"
  | .retire => "retire"

def step (k : Keeper) (line : String) : Keeper × String :=
  let fin (k' : Keeper) (res : String) : Keeper × String := (k', res ++ " | " ++ dump k')
  match words line with
  | ["reset"] => fin empty "-"
  | ["height", h] => match nat? h with
    | some h => fin (setHeight k h) "-"
    | none => (k, "bad-op")
  | "putdb" :: rest => match parseUtxoP rest with
    | some u => fin (dbPut k u) "-"
    | none => (k, "bad-op")
  | "addunc" :: rest => match parseUtxoP rest with
    | some u => fin (addUnconfirmed k u) "-"
    | none => (k, "bad-op")
  | ["deldb", id] => match nat? id with
    | some id => fin (dbDel k id) "-"
    | none => (k, "bad-op")
  | ["rmunc", id] => match nat? id with
    | some id => fin (removeUnconfirmed k id) "-"
    | none => (k, "bad-op")
  | "build" :: exp :: toks =>
    match nat? exp, toks.mapM parseAction with
    | some exp, some actions =>
      match build k exp (mergeSpends actions) with
      | (.ok t, k') =>
        let ins := if t.ins.isEmpty then "-" else joinWith "+" (t.ins.map fun u => toString u.id)
        let outs := if t.outs.isEmpty then "-" else joinWith ";" (t.outs.map fun o => s!"{kindName o.kind}:{o.asset}:{o.amount}:{o.prog}")
        let mux := match tplCheck t with
          | .ok v => if v ≥ 20000000 then "ok" else "lowfee"
          | .error .doubleSpend => "doublespend"
          | .error .overflow => "overflow"
          | .error .noSource => "nosource"
          | .error .unbalanced => "unbalanced"
          | .error .gasNegative => "gas"
        fin k' s!"ok fee={t.fee} ins={ins} outs={outs} mux={mux}"
      | (.error es, k') => fin k' ("err " ++ joinWith "," (es.map fun e => s!"{e.1}:{errName e.2}"))
    | _, _ => (k, "bad-op")
  | _ => (k, "bad-op")

def run (_args : List String) : IO Unit := lineLoop empty step
end BytomModel.Drv.C27
