import BytomModel.Model.Entry
import BytomModel.Model.Merkle
import BytomModel.Model.CodecDump
import BytomModel.Drv.Util
/- driver mode c03: `mroot <n> <seed>` → merkle root of n synthetic leaf ids (model recursion + SHA3);
   `tx <text>` → `id=<txid> in=[input ids] mux=<id> res=[result ids] sig=[sighashes]`
   (`panic` when MapTx panics, `err` when the text does not decode);
   `hdr <text>` → `hash=<block hash>`; all computed by the MODEL with the executable SHA3-256 -/
namespace BytomModel.Drv.C03
open BytomModel.Drv BytomModel.Codec BytomModel.Entry BytomModel.CodecDump

def txLine (text : Bytes) : String :=
  match (txDataFromText H text).out with
  | .ok tx _ =>
    match mapTx H tx with
    | none => "panic"
    | some m =>
      s!"id={hx m.id} in={lst (m.inputIDs.map hx)} mux={hx m.muxID} res={lst (m.resultIDs.map hx)} sig={lst (m.inputIDs.map (fun i => hx (sigHash H i m.id)))}"
  | .err _ => "err"
  | .panic => "panic"

def hdrLine (text : Bytes) : String :=
  match (headerFromText text).out with
  | .ok h _ => s!"hash={hx (blockHash H h)}"
  | .err _ => "err"
  | .panic => "panic"

def be64 (n : Nat) : Bytes := (le64 n).reverse

/-- the synthetic leaf id `bc.Hash{V0: seed, V1: i, V2: 0, V3: 0xC03}` -/
def leafId (seed i : Nat) : Bytes := be64 seed ++ be64 i ++ be64 0 ++ be64 0xC03

def sha3Fns : BytomModel.Merkle.HashFns Bytes Bytes where
  emptyH := H []
  leafH x := H (0x00 :: x)
  nodeH a b := H (0x01 :: (a ++ b))

def mrootLine (n seed : Nat) : String :=
  hx (BytomModel.Merkle.merkleRoot sha3Fns ((List.range n).map (leafId seed)))

def step (_ : Unit) (line : String) : Unit × String :=
  let out := match words line with
    | ["mroot", n, seed] => match n.toNat?, seed.toNat? with
      | some n, some s => mrootLine n s
      | _, _ => "bad-op"
    | ["tx", a] => txLine (textOf a)
    | ["hdr", a] => hdrLine (textOf a)
    | _ => "bad-op"
  ((), out)

def run (_args : List String) : IO Unit := lineLoop () step
end BytomModel.Drv.C03
