import BytomModel.Model.Entry
import BytomModel.Model.CodecDump
import BytomModel.Drv.Util
/- driver mode c03: `tx <text>` → `id=<txid> in=[input ids] mux=<id> res=[result ids] sig=[sighashes]`
   (`panic` when MapTx panics, `err` when the text does not decode);
   `hdr <text>` → `hash=<block hash>`; all computed by the MODEL with the executable SHA3-256 -/
namespace BytomModel.Drv.C03
open BytomModel.Drv BytomModel.Codec BytomModel.Entry BytomModel.CodecDump

def txLine (text : Bytes) : String :=
  match (txDataFromText H text).out with
  | .ok tx _ =>
    match mapTx H tx with
    | none => "panic"
    | some m =>
      s!"id={hx m.id} in={lst (m.inputIDs.map hx)} mux={hx m.muxID} res={lst (m.resultIDs.map hx)} sig={lst (m.inputIDs.map (fun i => hx (sigHash H i m.id)))}"
  | .err _ => "err"
  | .panic => "panic"

def hdrLine (text : Bytes) : String :=
  match (headerFromText text).out with
  | .ok h _ => s!"hash={hx (blockHash H h)}"
  | .err _ => "err"
  | .panic => "panic"

def step (_ : Unit) (line : String) : Unit × String :=
  let out := match words line with
    | ["tx", a] => txLine (textOf a)
    | ["hdr", a] => hdrLine (textOf a)
    | _ => "bad-op"
  ((), out)

def run (_args : List String) : IO Unit := lineLoop () step
end BytomModel.Drv.C03
