import BytomModel.Model.Authn
import BytomModel.Drv.Util
/- driver mode c36: token store + Authenticate histories.
   reset <disable 0|1> | create <idhex> <secrethex> | delete <idhex> | adv <seconds>
   | req <loopback|remote|malformed> <pathhex> <rawauthhex|none> | dump -/
namespace BytomModel.Drv.C36
open BytomModel.Drv BytomModel.Authn

structure St where
  disable : Bool
  s : State

def showVerdict : Verdict → String
  | .ok => "ok"
  | .noToken => "no-token"
  | .invalidToken => "invalid-token"
  | .localOnlyBackup => "local-only-backup"
  | .localOnlyRestore => "local-only-restore"
  | .localOnlyList => "local-only-list"

def parseOrigin : String → Option Origin
  | "loopback" => some .loopback
  | "remote" => some .remote
  | "malformed" => some .malformed
  | _ => none

/-- insertion sort by byte-wise lexicographic order (Go's string order) -/
def lexLt : List UInt8 → List UInt8 → Bool
  | [], [] => false
  | [], _ :: _ => true
  | _ :: _, [] => false
  | a :: as, b :: bs => if a < b then true else if b < a then false else lexLt as bs

def sortBy {α : Type} (key : α → List UInt8) (l : List α) : List α :=
  let rec ins (x : α) : List α → List α
    | [] => [x]
    | y :: ys => if lexLt (key y) (key x) then y :: ins x ys else x :: y :: ys
  l.foldl (fun acc x => ins x acc) []

def dump (st : St) : String :=
  let toks := (sortBy (·.1) st.s.tokens).map fun (id, sec) => toHex id ++ "=" ++ toHex sec
  let cache := (sortBy (·.1) st.s.cache).map fun (k, t) => toHex k ++ "@" ++ toString (st.s.now - t)
  "tokens=" ++ ",".intercalate toks ++ " cache=" ++ ",".intercalate cache

def step (st : St) (line : String) : St × String :=
  match words line with
  | ["reset", d] => ({ disable := d == "1", s := init }, "reset")
  | ["create", id, sec] => match parseHex id, parseHex sec with
    | some id, some sec =>
      let (s', r) := create st.s id sec
      ({ st with s := s' }, match r with | .created => "created" | .badId => "bad-id" | .duplicate => "duplicate")
    | _, _ => (st, "bad-op")
  | ["delete", id] => match parseHex id with
    | some id => ({ st with s := delete st.s id }, "deleted")
    | none => (st, "bad-op")
  | ["adv", d] => match d.toNat? with
    | some d => ({ st with s := { st.s with now := st.s.now + d } }, "ok")
    | none => (st, "bad-op")
  | ["req", o, path, auth] => match parseOrigin o, parseHex path with
    | some o, some path =>
      let a : Option (Option (List UInt8)) := if auth == "none" then some none else (parseHex auth).map some
      match a with
      | some a =>
        let (s', out) := authenticate st.disable st.s { origin := o, path := path, auth := a }
        ({ st with s := s' }, s!"{showVerdict out.verdict} tok={toHex out.ctxToken} local={if out.ctxLocal then 1 else 0}")
      | none => (st, "bad-op")
    | _, _ => (st, "bad-op")
  | ["dump"] => (st, dump st)
  | _ => (st, "bad-op")

def run (_args : List String) : IO Unit := lineLoop { disable := false, s := init } step
end BytomModel.Drv.C36
