import BytomModel.Model.Bech32
import BytomModel.Model.Base32
import BytomModel.Model.Mnemonic
import BytomModel.Model.TextSha256
import BytomModel.Drv.Util
/- driver mode c29 (strings and byte slices are hex, `-` = empty; a trailing `#…` word is the
   harness's oracle annotation and is ignored):
   b32enc <hrp> <data>            → ok <string> | err <kind>
   b32dec <string>                → ok <hrp> <data> | err <kind>
   cvt <data> <from> <to> <0|1>   → ok <data> | err <kind>
   addrenc <net> <pkh|sh> <prog>  → ok <string> | err <kind>
   addrdec <net> <string>         → ok <pkh|sh> <hrp> <prog> | err <kind>
   base32enc <data>               → <string>
   base32dec <string>             → ok <data> | err <offset> <data>
   mnnew <lang> <entropy>         → ok <i,i,…> | err <kind>
   mnent <lang> <i,i,x,…>         → ok <entropy> | err <kind>      (x = word not in the list)
   mnstr <lang> <ws-variant> <i,i,x,…> → ok <entropy> valid=<b> | err <kind> valid=<b>
        (the sentence is joined with irregular white space; EntropyFromMnemonic and IsMnemonicValid
         split with strings.Fields, so the answer does not depend on the variant) -/
namespace BytomModel.Drv.C29
open BytomModel.Drv BytomModel

def parseB (s : String) : Option (List Nat) := (parseHex s).map (·.map UInt8.toNat)
def showB (l : List Nat) : String := toHex (l.map UInt8.ofNat)

def netHrp (s : String) : Option (List Nat) :=
  if s == "main" then some Bech32.hrpMainnet
  else if s == "test" then some Bech32.hrpTestnet
  else if s == "solo" then some Bech32.hrpSolonet
  else none

def ck (data : List Nat) : Nat :=
  match TextSha256.sha256 (data.map UInt8.ofNat) with
  | b :: _ => b.toNat
  | [] => 0

def showIdx (l : List Nat) : String := if l.isEmpty then "-" else ",".intercalate (l.map toString)

def parseIdx (s : String) : Option (List (Option Nat)) :=
  if s == "-" then some [] else
  (s.splitOn ",").mapM (fun w => if w == "x" then some none else (w.toNat?).map some)

def step (_ : Unit) (line : String) : Unit × String :=
  let ws := (words line).filter (fun w => !w.startsWith "#")
  let out := match ws with
    | ["b32enc", hrp, data] => match parseB hrp, parseB data with
      | some h, some d => match Bech32.encode h d with
        | .ok s => s!"ok {showB s}"
        | .error e => s!"err {e.name}"
      | _, _ => "bad-op"
    | ["b32dec", s] => match parseB s with
      | some b => match Bech32.decode b with
        | .ok (h, d) => s!"ok {showB h} {showB d}"
        | .error e => s!"err {e.name}"
      | none => "bad-op"
    | ["cvt", data, f, t, pad] => match parseB data, f.toNat?, t.toNat? with
      | some d, some f, some t => match Bech32.convertBits d f t (pad == "1") with
        | .ok r => s!"ok {showB r}"
        | .error e => s!"err {e.name}"
      | _, _, _ => "bad-op"
    | ["addrenc", net, kind, prog] => match netHrp net, parseB prog with
      | some h, some p =>
        let k := if kind == "pkh" then Bech32.AddrKind.pubKeyHash else Bech32.AddrKind.scriptHash
        match Bech32.newAddress k h p with
        | .ok a => s!"ok {showB a.encodeAddress}"
        | .error e => s!"err {e.name}"
      | _, _ => "bad-op"
    | ["addrdec", net, s] => match netHrp net, parseB s with
      | some h, some b => match Bech32.decodeAddress b h with
        | .ok a => s!"ok {if a.kind == .pubKeyHash then "pkh" else "sh"} {showB a.hrp} {showB a.program}"
        | .error e => s!"err {e.name}"
      | _, _ => "bad-op"
    | ["base32enc", d] => match parseB d with
      | some b => showB (Base32.encodeToString b)
      | none => "bad-op"
    | ["base32dec", s] => match parseB s with
      | some b => match Base32.decodeString b with
        | (r, none) => s!"ok {showB r}"
        | (r, some off) => s!"err {off} {showB r}"
      | none => "bad-op"
    | ["mnnew", _, e] => match parseB e with
      | some b => match Mnemonic.newMnemonicIdx ck b with
        | .ok idx => s!"ok {showIdx idx}"
        | .error e => s!"err {e.name}"
      | none => "bad-op"
    | ["mnstr", _, _, idx] => match parseIdx idx with
      | some l =>
        let v := toString (Mnemonic.isMnemonicValidIdx l)
        match Mnemonic.entropyFromIdx ck l with
        | .ok e => s!"ok {showB e} valid={v}"
        | .error e => s!"err {e.name} valid={v}"
      | none => "bad-op"
    | ["mnent", _, idx] => match parseIdx idx with
      | some l => match Mnemonic.entropyFromIdx ck l with
        | .ok e => s!"ok {showB e}"
        | .error e => s!"err {e.name}"
      | none => "bad-op"
    | _ => "bad-op"
  ((), out)

def run (_args : List String) : IO Unit := lineLoop () step
end BytomModel.Drv.C29
