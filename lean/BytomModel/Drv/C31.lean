import BytomModel.Gen.Checked
import BytomModel.Drv.Util
/- driver mode c31: `<FuncName> <a> [<b>]` → `<value> <ok>` evaluated on the GENERATED model -/
namespace BytomModel.Drv.C31
open BytomModel.Drv BytomModel.Gen.Checked

def step (_ : Unit) (line : String) : Unit × String :=
  let out := match words line with
    | [f, a] => match a.toInt? with
      | some x => match eval1 f x with
        | some (v, ok) => s!"{v} {ok}"
        | none => "unknown-func"
      | none => "bad-op"
    | [f, a, b] => match a.toInt?, b.toInt? with
      | some x, some y => match eval2 f x y with
        | some (v, ok) => s!"{v} {ok}"
        | none => "unknown-func"
      | _, _ => "bad-op"
    | _ => "bad-op"
  ((), out)

def run (_args : List String) : IO Unit := lineLoop () step
end BytomModel.Drv.C31
