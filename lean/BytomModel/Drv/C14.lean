import BytomModel.Drv.EconUtil
import BytomModel.Gen.EconFacts
/- driver mode c14 (stateful; every case starts with `reset`).
   reset <interval> <minVotes> <epoch> <maxValidators> <federation|->            → ok
   ckpt <g|u|j|f> <height> <timestamp> <votes|-> <rewards|->                     → ok
   new                                   (NewCheckpoint of the current one)      → ok
   apply <height> <ts> <subsidy> <outs0> {T <vetoes> <votes> <fee>}*             → reward table sorted by program | err | panic
   check <height> <hasTx 0|1> <outs0>     checkCoinbaseAmount vs current rewards → ok | err | panic
   propose <height> <script>              createCoinbaseTx outputs               → first output, then the others sorted by program | err | panic -/
namespace BytomModel.Drv.C14
open BytomModel.Drv BytomModel.Drv.EconUtil BytomModel.Model.Checkpoint

structure St where
  p : Params
  c : Checkpoint
  deriving Inhabited

def insertO (x : COut) : List COut → List COut
  | [] => [x]
  | y :: t => if ltB x.program y.program then x :: y :: t else y :: insertO x t

/-- `validatorReward()` re-evaluated by the driver from the MODEL's own vote table with IEEE
    doubles (Lean `Float`), constants regenerated from consensus/general.go: a cross-check of the
    subsidy the harness passes in (executable only; no theorem is stated about `Float`) -/
def subsidyF (votes : KMap) (height : Nat) : Nat :=
  let br := BytomModel.Gen.EconFacts.BlockReward
  let total := totalVotes votes
  let supply := ((height * br) % u64 / 2 + BytomModel.Gen.EconFacts.InitBTMSupply) % u64
  let rate := Float.ofNat total / Float.ofNat supply
  let thr := Float.ofNat BytomModel.Gen.EconFacts.RewardThresholdNum / Float.ofNat BytomModel.Gen.EconFacts.RewardThresholdDen
  if rate <= thr then ((rate + thr) * Float.ofNat br).toUInt64.toNat else br

def step (s : St) (line : String) : St × String :=
  match words line with
  | ["reset", i, m, e, mx, fed] =>
    match i.toNat?, m.toNat?, e.toNat?, mx.toNat?, parseKeys fed with
    | some i, some m, some e, some mx, some fed =>
      ({ s with p := { interval := i, minVotes := m, epoch := e, maxValidators := mx, federation := fed } }, "ok")
    | _, _, _, _, _ => (s, "bad-op")
  | ["ckpt", st, h, ts, votes, rewards] =>
    match parseStatus st, h.toNat?, ts.toNat?, parsePairs votes, parsePairs rewards with
    | some st, some h, some ts, some v, some r =>
      ({ s with c := { height := h, timestamp := ts, status := st, votes := v, rewards := r } }, "ok")
    | _, _, _, _, _ => (s, "bad-op")
  | ["new"] => ({ s with c := newCheckpoint s.c }, "ok")
  | "apply" :: h :: ts :: sub :: outs :: rest =>
    match h.toNat?, ts.toNat?, sub.toNat?, parseOuts outs, parseTxs rest with
    | some h, some ts, some sub, some outs, some txs =>
      match increase s.p s.c { height := h, timestamp := ts, txs := txs, outs0 := outs } true sub with
      | .ok c =>
        let want := subsidyF c.votes c.height
        let note := if want == sub then "" else s!" subsidy-mismatch(model {want})"
        ({ s with c := c }, showPairs (sortK c.rewards) ++ note)
      | .err => (s, "err")
      | .panic => (s, "panic")
    | _, _, _, _, _ => (s, "bad-op")
  | ["check", h, hasTx, outs] =>
    match h.toNat?, parseOuts outs with
    | some h, some outs =>
      match checkCoinbaseAmount s.p h (hasTx == "1") outs s.c.rewards with
      | .ok _ => (s, "ok")
      | .err => (s, "err")
      | .panic => (s, "panic")
    | _, _ => (s, "bad-op")
  | ["propose", h, script] =>
    match h.toNat?, parseKey script with
    | some h, some script =>
      match createCoinbaseTx s.p id h script s.c.rewards with
      | .ok (o :: rest) => (s, showOuts (o :: rest.foldr insertO []))
      | .ok [] => (s, "-")
      | .err => (s, "err")
      | .panic => (s, "panic")
    | _, _ => (s, "bad-op")
  | _ => (s, "bad-op")

def run (_args : List String) : IO Unit := lineLoop (default : St) step
end BytomModel.Drv.C14
