import BytomModel.Model.Asm
import BytomModel.Model.StdProgs
import BytomModel.Drv.Util
/- driver mode c09 (one answer line per op line; hex "-" = empty):
   parse <prog>            ok <n> <op>/<len>/<data> …        | err <class>
   dis <prog>              ok <text-hex>                      | err <class>
   asm <text-hex>          ok <prog>                          | err <class>
   push <data>             <PushDataBytes>
   pushu <n>               <PushDataUint64>
   pushn <len> <byte>      PushDataBytes(len × byte) and its parse, digested
   rec <prog>              the recognisers and extractors
   build <kind> <arg>      builder output
   buildn <kind> <len> <b> builder on len × b, digested, + recognisers
   multisig <m> <keys> / multisigh <m> <height> <keys> / conv pkh|sh <prog>   (Model/StdProgs)
   exh <prefix>            digest over prefix ++ every 2-byte suffix of (parse | dis)
-/
namespace BytomModel.Drv.C09
open BytomModel.Drv BytomModel.Asm BytomModel.StdProgs

def perr : PErr → String
  | .long => "long" | .short => "short" | .overflow => "overflow" | .panic => "panic" | .diverge => "diverge"

def aerr : AErr → String
  | .token => "token" | .num => "num" | .hex => "hex" | .redef => "redef" | .undef => "undef"
  | .tooLong => "toolong" | .progLong => "proglong" | .diverge => "diverge"

def xerr : XErr → String
  | .parse e => perr e | .unsupported => "unsupported" | .version => "version" | .badValue => "badvalue" | .panic => "panic"

def instStr (i : Inst) : String := toHex [i.op] ++ "/" ++ toString i.len ++ "/" ++ toHex i.data

def parseLine (p : Bytes) : String :=
  match parseProgram p with
  | .ok is => is.foldl (fun acc i => acc ++ " " ++ instStr i) ("ok " ++ toString is.length)
  | .error e => "err " ++ perr e

def disLine (p : Bytes) : String :=
  match disassemble p with
  | .ok t => "ok " ++ toHex t
  | .error e => "err " ++ perr e

def asmLine (t : Bytes) : String :=
  match assemble t with
  | .ok p => "ok " ++ toHex p
  | .error e => "err " ++ aerr e

def fnv (bs : Bytes) : UInt32 := bs.foldl (fun h b => (h ^^^ b.toUInt32) * 16777619) 2166136261
def fnvStr (s : String) : UInt32 := s.toUTF8.foldl (fun h b => (h ^^^ b.toUInt32) * 16777619) 2166136261

def b01 (b : Bool) : String := if b then "1" else "0"

def xres (r : Except XErr Bytes) : String :=
  match r with | .ok d => "ok:" ++ toHex d | .error e => "err:" ++ xerr e

def recFlags (p : Bytes) : String :=
  "p2wpkh=" ++ b01 (isP2WPKHScript p) ++ " p2wsh=" ++ b01 (isP2WSHScript p) ++ " straight=" ++ b01 (isStraightforward p)
  ++ " p2w=" ++ b01 (isP2WScript p) ++ " bcrp=" ++ b01 (isBCRPScript p) ++ " call=" ++ b01 (isCallContractScript p)

def recLine (p : Bytes) : String :=
  recFlags p ++ " contract=" ++ xres (parseContract p) ++ " chash=" ++ xres (parseContractHash p)
  ++ " stdhash=" ++ xres (getHashFromStandardProg p)

def build (kind : String) (arg : Bytes) : Option Bytes :=
  match kind with
  | "p2wpkh" => some (p2wpkhProgram arg)
  | "p2wsh" => some (p2wshProgram arg)
  | "retire" => some (retireProgram arg)
  | "register" => some (registerProgram arg)
  | "call" => some (callContractProgram arg)
  | "coinbase" => some defaultCoinbaseProgram
  | "p2pkhsig" => some (p2pkhSigProgram arg)
  | "p2sh" => some (p2shProgram arg)
  | _ => none

def digest (bs : Bytes) : String :=
  "len=" ++ toString bs.length ++ " head=" ++ toHex (bs.take 8) ++ " fnv=" ++ toString (fnv bs).toNat

def exh (pre : Bytes) : String := Id.run do
  let mut okc := 0
  let mut insts := 0
  let mut acc : UInt64 := 0
  for a in [0:256] do
    for b in [0:256] do
      let p := pre ++ [UInt8.ofNat a, UInt8.ofNat b]
      let l := parseLine p ++ "|" ++ disLine p
      match parseProgram p with
      | .ok is => okc := okc + 1; insts := insts + is.length
      | .error _ => pure ()
      acc := acc + (fnvStr l).toUInt64
  return "n=65536 ok=" ++ toString okc ++ " insts=" ++ toString insts ++ " sum=" ++ toString acc.toNat

def step (_ : Unit) (line : String) : Unit × String :=
  let out := match words line with
    | ["parse", h] => match parseHex h with | some p => parseLine p | none => "bad-op"
    | ["dis", h] => match parseHex h with | some p => disLine p | none => "bad-op"
    | ["asm", h] => match parseHex h with | some t => asmLine t | none => "bad-op"
    | ["push", h] => match parseHex h with | some d => toHex (pushDataBytes d) | none => "bad-op"
    | ["pushu", n] => match n.toNat? with | some v => toHex (pushDataUint64 v) | none => "bad-op"
    | ["pushn", n, h] => match n.toNat?, parseHex h with
      | some k, some [b] =>
        let p := pushDataBytes (List.replicate k b)
        digest p ++ " parse=" ++ (match parseProgram p with
          | .ok [i] => "ok1 " ++ toHex [i.op] ++ "/" ++ toString i.len ++ "/" ++ digest i.data
          | .ok is => "ok" ++ toString is.length
          | .error e => "err " ++ perr e)
      | _, _ => "bad-op"
    | ["rec", h] => match parseHex h with | some p => recLine p | none => "bad-op"
    | ["build", k, h] => match parseHex h with
      | some a => (match build k a with | some p => toHex p | none => "bad-op")
      | none => "bad-op"
    | ["buildn", k, n, h] => match n.toNat?, parseHex h with
      | some len, some [b] => (match build k (List.replicate len b) with
        | some p => digest p ++ " " ++ recFlags p ++ " contract=" ++ (match parseContract p with
            | .ok d => "ok:" ++ digest d | .error e => "err:" ++ xerr e)
        | none => "bad-op")
      | _, _ => "bad-op"
    | ["multisig", m, h] => match m.toInt?, parseHex h with
      | some mi, some ks => xres (p2spMultiSigProgram (keysOf ks) mi)
      | _, _ => "bad-op"
    | ["multisigh", m, ht, h] => match m.toInt?, ht.toNat?, parseHex h with
      | some mi, some hv, some ks => xres (p2spMultiSigProgramWithHeight (keysOf ks) mi hv)
      | _, _, _ => "bad-op"
    | ["conv", "pkh", h] => match parseHex h with | some p => xres (convertP2PKHSigProgram p) | none => "bad-op"
    | ["conv", "sh", h] => match parseHex h with | some p => xres (convertP2SHProgram p) | none => "bad-op"
    | ["exh", h] => match parseHex h with | some p => exh p | none => "bad-op"
    | _ => "bad-op"
  ((), out)

def run (_args : List String) : IO Unit := lineLoop () step
end BytomModel.Drv.C09
