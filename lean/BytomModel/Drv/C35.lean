import BytomModel.Model.BanScore
import BytomModel.Drv.Util
/- driver mode c35 (stateful): the model instantiated with `Float` (IEEE-754 double, the
   same operations Go performs); the decay factors are the implementation's own table
   (checked against 2^(-t/60) by the harness's direct oracle), passed as bit patterns.
     d <pkg> <t> <16 hex digits>        → ok   (decayFactor(t) of package pkg as float64 bits;
                                               t = 0,1,2,… in order)
     reset <pkg>                        → ok   (zero state, decay table of pkg)
     set <lastUnix> <bits> <persistent> → ok
     inc <p> <tr> <t>                   → <score> <lastUnix> <transient bits> <persistent>
     int <t>                            → <score>                                           -/
namespace BytomModel.Drv.C35
open BytomModel.Drv BytomModel.Model.BanScore

instance : NatCast Float := ⟨Float.ofNat⟩

structure St where
  tables : List (String × Array Float) := []
  table : Array Float := #[]
  s : State Float := zero

def tableOf (l : List (String × Array Float)) (k : String) : Array Float :=
  match l with
  | [] => #[]
  | (a, t) :: rest => if a == k then t else tableOf rest k

def setTable (l : List (String × Array Float)) (k : String) (t : Array Float) : List (String × Array Float) :=
  match l with
  | [] => [(k, t)]
  | (a, u) :: rest => if a == k then (a, t) :: rest else (a, u) :: setTable rest k t

def dOf (tab : Array Float) (t : Int) : Float :=
  if t < 0 then Float.ofBits 0x7ff8000000000000 else tab.getD t.toNat (Float.ofBits 0x7ff8000000000000)

def truncF (x : Float) : Nat := x.toUInt64.toNat

def parseHex64 (s : String) : Option UInt64 :=
  s.toList.foldlM (fun (acc : UInt64) c => (hexDigit c).map (fun d => acc * 16 + UInt64.ofNat d)) 0

def hex64 (x : UInt64) : String :=
  String.ofList ((List.range 16).map (fun i => hexChar ((x >>> (UInt64.ofNat (60 - 4 * i))).toNat % 16)))

def step (st : St) (line : String) : St × String :=
  match words line with
  | ["d", k, t, b] => match t.toNat?, parseHex64 b with
    | some tt, some bits =>
      let cur := if tt == 0 then #[] else tableOf st.tables k
      if tt == cur.size then ({ st with tables := setTable st.tables k (cur.push (Float.ofBits bits)) }, "ok") else (st, "bad-op")
    | _, _ => (st, "bad-op")
  | ["reset", k] => ({ st with s := zero, table := tableOf st.tables k }, "ok")
  | ["set", l, b, p] => match l.toInt?, parseHex64 b, p.toNat? with
    | some last, some bits, some pers => ({ st with s := { lastUnix := last, transient := Float.ofBits bits, persistent := pers } }, "ok")
    | _, _, _ => (st, "bad-op")
  | ["inc", p, tr, t] => match p.toNat?, tr.toNat?, t.toInt? with
    | some pp, some trr, some tt =>
      let (s', r) := increase (dOf st.table) truncF st.s pp trr tt
      ({ st with s := s' }, s!"{r} {s'.lastUnix} {hex64 s'.transient.toBits} {s'.persistent}")
    | _, _, _ => (st, "bad-op")
  | ["int", t] => match t.toInt? with
    | some tt => (st, s!"{score (dOf st.table) truncF st.s tt}")
    | none => (st, "bad-op")
  | _ => (st, "bad-op")

def run (_args : List String) : IO Unit := lineLoop ({} : St) step
end BytomModel.Drv.C35
