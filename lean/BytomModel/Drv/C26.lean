import BytomModel.Model.Keeper
import BytomModel.Drv.Util
/- driver mode c26: keeper operations, one per line (see harness/c26.go for the grammar);
   answer = `<result> | <reserved map> | <reservations>`. -/
namespace BytomModel.Drv.C26
open BytomModel.Drv BytomModel.Model.Keeper

def nat? (s : String) : Option Nat := s.toNat?

def joinWith (sep : String) (l : List String) : String := sep.intercalate l

def insSorted (le : α → α → Bool) (x : α) : List α → List α
  | [] => [x]
  | y :: r => if le x y then x :: y :: r else y :: insSorted le x r
def isort (le : α → α → Bool) (l : List α) : List α := l.foldr (insSorted le) []

def dump (k : Keeper) : String :=
  let rs := isort (fun (a b : Nat × Nat) => a.1 ≤ b.1) k.reserved
  let rv := isort (fun (a b : Res) => a.id ≤ b.id) k.reservations
  let rsS := joinWith "," (rs.map fun p => s!"{p.1}:{p.2}")
  let rvS := joinWith ";" (rv.map fun r => s!"{r.id}:{r.expiry}:{r.change}:" ++ joinWith "+" (r.utxos.map fun u => toString u.id))
  s!"reserved={rsS} | res={rvS}"

def resLine (r : Res) : String :=
  s!"ok {r.id} {r.change} " ++ (if r.utxos.isEmpty then "-" else joinWith "+" (r.utxos.map fun u => toString u.id))

def errName : Err → String
  | .insufficient => "insufficient"
  | .immature => "immature"
  | .reserved => "reserved"
  | .matchUtxo => "match"

def count (id : Nat) (l : List Nat) : Nat := (l.filter (· == id)).length

/-- Go's `sort.Slice` is unstable and the unconfirmed map is iterated in random order, so
    among equal amounts the implementation may pick different outputs than the model's
    stable sort. The harness passes the ids the implementation selected as a hint; it is
    adopted only if it selects, position by position, outputs of the SAME amounts as the
    model's selection and is a sub-multiset of the unreserved candidates. -/
def adoptHint (k : Keeper) (cands : List Utxo) (r : Res) (hint : List Nat) : Option (List Utxo) :=
  let avail := cands.filter (fun u => !isReserved k u)
  let hinted := hint.filterMap (fun id => avail.find? (fun u => u.id == id))
  if hinted.length == hint.length && hint.length == r.utxos.length
      && hinted.map (·.amount) == r.utxos.map (·.amount)
      && hint.all (fun id => count id hint ≤ count id (avail.map (·.id))) then some hinted else none

def parseUtxo (w : List String) (contract : Bool) : Option Utxo :=
  match w.map nat? with
  | [some id, some asset, some amount, some acct, some vote, some vh] => some ⟨id, asset, amount, acct, vote, vh, contract, 0⟩
  | _ => none

def step (k : Keeper) (line : String) : Keeper × String :=
  let fin (k' : Keeper) (res : String) : Keeper × String := (k', res ++ " | " ++ dump k')
  match words line with
  | ["reset"] => fin empty "-"
  | ["height", h] => match nat? h with
    | some h => fin (setHeight k h) "-"
    | none => (k, "bad-op")
  | "putdb" :: rest =>
    match rest.reverse with
    | c :: body => match parseUtxo body.reverse (c == "1") with
      | some u => fin (dbPut k u) "-"
      | none => (k, "bad-op")
    | [] => (k, "bad-op")
  | ["deldb", id] => match nat? id with
    | some id => fin (dbDel k id) "-"
    | none => (k, "bad-op")
  | "addunc" :: rest => match parseUtxo rest false with
    | some u => fin (addUnconfirmed k u) "-"
    | none => (k, "bad-op")
  | ["rmunc", id] => match nat? id with
    | some id => fin (removeUnconfirmed k id) "-"
    | none => (k, "bad-op")
  | "reserve" :: acct :: asset :: amount :: unc :: vote :: exp :: hint =>
    match nat? acct, nat? asset, nat? amount, nat? vote, nat? exp with
    | some acct, some asset, some amount, some vote, some exp =>
      let useUnc := unc == "1"
      match reserve k acct asset amount useUnc vote exp with
      | (.ok r, k') =>
        let hintIds := hint.filterMap nat?
        let cands := (findUtxos k acct asset useUnc vote).1
        match adoptHint k cands r hintIds with
        | some us =>
          let r' : Res := { r with utxos := us }
          let k'' : Keeper := { k' with reservations := r' :: k.reservations, reserved := reserveAll r.id us k.reserved }
          fin k'' (resLine r')
        | none => fin k' (resLine r)
      | (.err e, k') => fin k' ("err " ++ errName e)
      | (.panic, k') => fin k' "panic"
    | _, _, _, _, _ => (k, "bad-op")
  | ["particular", id, unc, exp] =>
    match nat? id, nat? exp with
    | some id, some exp =>
      match reserveParticular k id (unc == "1") exp with
      | (.ok r, k') => fin k' (resLine r)
      | (.err e, k') => fin k' ("err " ++ errName e)
      | (.panic, k') => fin k' "panic"
    | _, _ => (k, "bad-op")
  | ["cancel", rid] => match nat? rid with
    | some rid => fin (cancel k rid) "-"
    | none => (k, "bad-op")
  | ["expire", t] => match nat? t with
    | some t => fin (expire k t) "-"
    | none => (k, "bad-op")
  | _ => (k, "bad-op")

def run (_args : List String) : IO Unit := lineLoop empty step
end BytomModel.Drv.C26
