import BytomModel.Drv.VMCommon
/- driver mode c08: a `vm.Verify` case (see VMCommon for the line format), evaluated on the
   VALUE instance of the VM model (the reference semantics). -/
namespace BytomModel.Drv.C08
open BytomModel.Drv BytomModel.VM BytomModel.Drv.VMCommon

def step (_ : Unit) (line : String) : Unit × String :=
  let out := match words line with
    | "v" :: rest =>
      match parseCase rest with
      | some c => verifyLine valueMem c.ctx () c.limit
      | none => "bad-op"
    | _ => "bad-op"
  ((), out)

def run (_args : List String) : IO Unit := lineLoop () step
end BytomModel.Drv.C08
