import BytomModel.Model.Merkle
import BytomModel.Model.Sha3
import BytomModel.Drv.Util
/- driver mode c30 (merkle.go with the executable SHA3-256):
   `root <ids>`                               → `<root>`
   `proof <ids> <relids>`                     → `<hashes> <flags>`
   `validate <hashes> <flags> <relids> <root>`→ `true|false`
   `ppt <n>`                                  → prevPowerOfTwo n
   lists are comma separated, `-` is the empty list; ids/hashes are hex. -/
namespace BytomModel.Drv.C30
open BytomModel.Drv BytomModel.Merkle BytomModel.Sha3

abbrev Bytes := List UInt8

def sha3Fns : HashFns Bytes Bytes where
  emptyH := sha3_256 []
  leafH x := sha3_256 (leafPrefix.map UInt8.ofNat ++ x)
  nodeH a b := sha3_256 (interiorPrefix.map UInt8.ofNat ++ (a ++ b))

def parseList (s : String) : Option (List Bytes) :=
  if s == "-" then some [] else (s.splitOn ",").mapM parseHex

def parseFlags (s : String) : Option (List Nat) :=
  if s == "-" then some [] else (s.splitOn ",").mapM String.toNat?

def showList (l : List Bytes) : String :=
  if l.isEmpty then "-" else ",".intercalate (l.map toHex)

def showFlags (l : List Nat) : String :=
  if l.isEmpty then "-" else ",".intercalate (l.map toString)

def step (_ : Unit) (line : String) : Unit × String :=
  let out := match words line with
    | ["reset"] => "ok"
    | ["root", ids] => match parseList ids with
      | some l => toHex (merkleRoot sha3Fns l)
      | none => "bad-op"
    | ["proof", ids, rel] => match parseList ids, parseList rel with
      | some l, some r => let p := getProof sha3Fns l r; s!"{showList p.1} {showFlags p.2}"
      | _, _ => "bad-op"
    | "validate" :: hs :: fs :: rel :: root :: _ => match parseList hs, parseFlags fs, parseList rel, parseHex root with
      | some h, some f, some r, some rt => toString (validate sha3Fns h f r rt)
      | _, _, _, _ => "bad-op"
    | ["ppt", n] => match n.toNat? with
      | some k => toString (prevPowerOfTwo k)
      | none => "bad-op"
    | _ => "bad-op"
  ((), out)

def run (_args : List String) : IO Unit := lineLoop () step
end BytomModel.Drv.C30
