import BytomModel.Model.VM.Run
import BytomModel.Model.VM.Heap
import BytomModel.Model.Sha3
import BytomModel.Model.Sha256
import BytomModel.Model.Ripemd160
import BytomModel.Drv.Util
/-
Shared plumbing of the VM drivers (C06, C07, C08): the op-line format of a `vm.Verify`
case, opcode names, the reconstruction of Go's `TraceOut` text from the model's small
steps (hashed with FNV-1a/64 so that a whole execution is compared in one line), and the
deterministic `CheckOutput` callback both sides use.

op line (space separated, `nil` = absent pointer / nil func, `-` = empty byte string,
`.` = empty list):

  v <vmVersion> <gasLimit> <code> <args> <state> <txVersion> <blockHeight> <assetID>
    <amount> <destPos> <spentOutputID> <entryID> <txSigHash> <checkOutput 0|1>
    <sigs: pk:msg:sig;… for which ed25519.Verify is true>

impl/model line:   <ok|error class> <gasLeft> <#trace lines> <fnv64 of trace> <last non-empty stack dump, top first>
                   or  `watchdog`  when more than `stepBudget limit` instructions were traced.
-/
namespace BytomModel.Drv.VMCommon
open BytomModel.Drv BytomModel.VM

def maxSteps : Nat := 200000

/-- watchdog threshold of a case (same formula in harness/c08_vmcommon.go) -/
def stepBudget (limit : Int) : Nat :=
  if limit < 0 then 1000
  else if limit > ((maxSteps : Int) - 1000) / 4 then maxSteps
  else (4 * limit + 1000).toNat

def namedOps : List (Nat × String) := [
  (0x00, "FALSE"), (0x4c, "PUSHDATA1"), (0x4d, "PUSHDATA2"), (0x4e, "PUSHDATA4"), (0x61, "NOP"),
  (0x63, "JUMP"), (0x64, "JUMPIF"), (0x69, "VERIFY"), (0x6a, "FAIL"), (0xc0, "CHECKPREDICATE"),
  (0x6b, "TOALTSTACK"), (0x6c, "FROMALTSTACK"), (0x6d, "2DROP"), (0x6e, "2DUP"), (0x6f, "3DUP"),
  (0x70, "2OVER"), (0x71, "2ROT"), (0x72, "2SWAP"), (0x73, "IFDUP"), (0x74, "DEPTH"),
  (0x75, "DROP"), (0x76, "DUP"), (0x77, "NIP"), (0x78, "OVER"), (0x79, "PICK"), (0x7a, "ROLL"),
  (0x7b, "ROT"), (0x7c, "SWAP"), (0x7d, "TUCK"), (0x7e, "CAT"), (0x7f, "SUBSTR"), (0x80, "LEFT"),
  (0x81, "RIGHT"), (0x82, "SIZE"), (0x89, "CATPUSHDATA"), (0x83, "INVERT"), (0x84, "AND"),
  (0x85, "OR"), (0x86, "XOR"), (0x87, "EQUAL"), (0x88, "EQUALVERIFY"), (0x8b, "1ADD"),
  (0x8c, "1SUB"), (0x8d, "2MUL"), (0x8e, "2DIV"), (0x91, "NOT"), (0x92, "0NOTEQUAL"),
  (0x93, "ADD"), (0x94, "SUB"), (0x95, "MUL"), (0x96, "DIV"), (0x97, "MOD"), (0x98, "LSHIFT"),
  (0x99, "RSHIFT"), (0x9a, "BOOLAND"), (0x9b, "BOOLOR"), (0x9c, "NUMEQUAL"),
  (0x9d, "NUMEQUALVERIFY"), (0x9e, "NUMNOTEQUAL"), (0x9f, "LESSTHAN"), (0xa0, "GREATERTHAN"),
  (0xa1, "LESSTHANOREQUAL"), (0xa2, "GREATERTHANOREQUAL"), (0xa3, "MIN"), (0xa4, "MAX"),
  (0xa5, "WITHIN"), (0xa8, "SHA256"), (0xaa, "SHA3"), (0xab, "HASH160"), (0xac, "CHECKSIG"),
  (0xad, "CHECKMULTISIG"), (0xae, "TXSIGHASH"), (0xc1, "CHECKOUTPUT"), (0xc2, "ASSET"),
  (0xc3, "AMOUNT"), (0xc4, "PROGRAM"), (0xc9, "INDEX"), (0xca, "ENTRYID"), (0xcb, "OUTPUTID"),
  (0xcd, "BLOCKHEIGHT")]

def hex2 (n : Nat) : String := String.ofList [hexChar (n / 16), hexChar (n % 16)]

def opName (op : Nat) : String :=
  if 1 ≤ op ∧ op ≤ 75 then s!"DATA_{op}"
  else if 0x51 ≤ op ∧ op ≤ 0x60 then s!"{op - 0x50}"
  else match namedOps.lookup op with
    | some n => n
    | none => "NOPx" ++ hex2 op

/-- `%x` of a byte slice (empty string for no bytes) -/
def hexx (bs : Bytes) : String :=
  String.ofList (bs.foldr (fun b acc => hexChar (b.toNat / 16) :: hexChar (b.toNat % 16) :: acc) [])

def fnvOffset : UInt64 := 14695981039346656037
def fnvPrime : UInt64 := 1099511628211
def fnvStr (h : UInt64) (s : String) : UInt64 :=
  s.toUTF8.foldl (fun h b => (h ^^^ b.toUInt64) * fnvPrime) h

/-- the deterministic `CheckOutput` callback used by harness and driver -/
def sumBytes (b : Bytes) : Nat := b.foldl (fun a x => a + x.toNat) 0

def checkOutputFn (index amount : Nat) (assetID : Bytes) (vmVersion : Nat) (code : Bytes)
    (state : List Bytes) (expansion : Bool) : Except Err Bool :=
  let st := (state.zipIdx.map fun (it, i) => (i + 1) * (it.length + sumBytes it)).foldl (· + ·) 0
  let s := (index + 3 * amount + 5 * vmVersion + 7 * assetID.length + 11 * code.length
    + 13 * state.length + sumBytes assetID + 2 * sumBytes code + st + (if expansion then 1 else 0)) % two64
  match s % 7 with
  | 0 => .error .badValue
  | 1 => .error .other
  | 2 | 3 | 4 => .ok true
  | _ => .ok false

/-! ### parsing the op line -/

def parseOptNat (s : String) : Option (Option Nat) :=
  if s == "nil" then some none else s.toNat?.map some

def parseOptHex (s : String) : Option (Option Bytes) :=
  if s == "nil" then some none else (parseHex s).map some

def parseHexList (s : String) : Option (List Bytes) :=
  if s == "." then some [] else (s.splitOn ",").mapM parseHex

def parseSigs (s : String) : Option (List (Bytes × Bytes × Bytes)) :=
  if s == "." then some [] else
  (s.splitOn ";").mapM fun t =>
    match t.splitOn ":" with
    | [a, b, c] => do
      let a ← parseHex a
      let b ← parseHex b
      let c ← parseHex c
      pure (a, b, c)
    | _ => none

structure Case where
  ctx : Context Bytes
  limit : Int

def parseCase (w : List String) : Option Case :=
  match w with
  | [vmv, limit, code, args, state, txv, bh, asset, amount, dest, spent, entry, sigh, co, sigs] => do
    let vmv ← vmv.toNat?
    let limit ← limit.toInt?
    let code ← parseHex code
    let args ← parseHexList args
    let state ← parseHexList state
    let txv ← parseOptNat txv
    let bh ← parseOptNat bh
    let asset ← parseOptHex asset
    let amount ← parseOptNat amount
    let dest ← parseOptNat dest
    let spent ← parseOptHex spent
    let entry ← parseHex entry
    let sigh ← parseOptHex sigh
    let sigs ← parseSigs sigs
    pure {
      limit := limit
      ctx := {
        vmVersion := vmv, code := code, stateData := state, arguments := args, entryID := entry,
        txVersion := txv, blockHeight := bh, assetID := asset, amount := amount, destPos := dest,
        spentOutputID := spent, txSigHash := sigh,
        checkOutput := if co == "1" then some checkOutputFn else none,
        verifySig := fun pk msg sg => sigs.contains (pk, msg, sg),
        sha256 := Sha256.sha256, sha3 := Sha3.sha3_256, ripemd160 := Ripemd160.ripemd160 } }
  | _ => none

/-! ### running with trace reconstruction (generic in the memory) -/

structure TraceSt where
  lines : Nat := 0
  steps : Nat := 0
  hash : UInt64 := fnvOffset
  last : String := "."

def stackDump {μ ι : Type} (M : MemOps μ ι) (mem : μ) (data : List ι) : String × String :=
  let items := data.map (M.read mem)
  let txt := String.join (items.zipIdx.map fun (b, i) => s!"  stack {i}: {hexx b}\n")
  let last := if items.isEmpty then "." else ",".intercalate (items.map toHex)
  (txt, last)

def traceLine {μ ι : Type} (M : MemOps μ ι) (m : Machine μ ι) : Option (String × Bool) :=
  if m.cur.pc ≥ progLen M m.cur then none else
  match parseOpL (M.len m.cur.prog) (M.read m.mem m.cur.prog) m.cur.pc with
  | .error _ => none
  | .ok inst =>
    let d := if inst.data.isEmpty then "" else " " ++ hexx inst.data
    some (s!"vm {m.cur.depth} pc {m.cur.pc} limit {m.cur.runLimit} {opName inst.op}{d}\n", isExpansion inst.op)

inductive Outcome (μ ι : Type) where
  | final : Final μ ι → TraceSt → Outcome μ ι
  | watchdog : Outcome μ ι

/-- every iteration either traces an instruction or pops a frame, so `2·maxSteps + 10`
    iterations suffice to reach the watchdog limit -/
def runTrace {μ ι : Type} (M : MemOps μ ι) (ctx : Context ι) (budget : Nat) : Nat → Machine μ ι → TraceSt → Outcome μ ι
  | 0, _, _ => .watchdog
  | fuel + 1, m, t =>
  let (t, isExp) := match traceLine M m with
    | some (l, e) => ({ t with lines := t.lines + 1, steps := t.steps + 1, hash := fnvStr t.hash l }, e)
    | none => (t, false)
  if t.steps > budget then .watchdog else
  match smallStep M ctx m with
  | .inr f => .final f t
  | .inl m' =>
    let dump := if m'.parents.length < m.parents.length then true
      else if m'.parents.length == m.parents.length then !isExp else false
    let t := if dump then
        let (txt, last) := stackDump M m'.mem m'.cur.data
        { t with lines := t.lines + m'.cur.data.length, hash := fnvStr t.hash txt,
                 last := if m'.cur.data.isEmpty then t.last else last }
      else t
    runTrace M ctx budget fuel m' t

/-- `Verify` with trace: the result line -/
def verifyLine {μ ι : Type} (M : MemOps μ ι) (ctx : Context ι) (mem : μ) (limit : Int) : String :=
  let fmt (e : Option Err) (gas : Int) (t : TraceSt) : String :=
    let en := match e with | none => "ok" | some e => e.name
    s!"{en} {gas} {t.lines} {t.hash.toNat} {t.last}"
  if ctx.vmVersion ≠ 1 then fmt (some .unsupportedVM) limit {}
  else
    match initPushes M ctx ⟨mem, initFrame ctx limit⟩ with
    | .panic => fmt (some .unexpected) 0 {}
    | .err e s => fmt (some e) s.f.runLimit {}
    | .ok _ s =>
      match runTrace M ctx (stepBudget limit) (2 * stepBudget limit + 10) ⟨s.mem, s.f, []⟩ {} with
      | .watchdog => "watchdog"
      | .final .panic t => fmt (some .unexpected) 0 t
      | .final (.done mem' f e) t =>
        let e' := match e with
          | some e => some e
          | none => if falseResult M mem' f then some .falseVMResult else none
        fmt e' f.runLimit t

/-! ### the same case on the Go-slice heap: every context item in its own exact-capacity array -/

def allocList (h : Heap) : List Bytes → Heap × List Slice
  | [] => (h, [])
  | b :: bs =>
    let (h1, s) := heapFresh h b 0
    let (h2, ss) := allocList h1 bs
    (h2, s :: ss)

def allocOpt (h : Heap) : Option Bytes → Heap × Option Slice
  | none => (h, none)
  | some b => let (h1, s) := heapFresh h b 0; (h1, some s)

def heapCtx (c : Context Bytes) : Heap × Context Slice :=
  let h0 := Heap.empty
  let (h1, code) := heapFresh h0 c.code 0
  let (h2, state) := allocList h1 c.stateData
  let (h3, args) := allocList h2 c.arguments
  let (h4, entry) := heapFresh h3 c.entryID 0
  let (h5, asset) := allocOpt h4 c.assetID
  let (h6, spent) := allocOpt h5 c.spentOutputID
  (h6, { vmVersion := c.vmVersion, code := code, stateData := state, arguments := args, entryID := entry,
         txVersion := c.txVersion, blockHeight := c.blockHeight, assetID := asset, amount := c.amount,
         destPos := c.destPos, spentOutputID := spent, txSigHash := c.txSigHash,
         checkOutput := c.checkOutput, verifySig := c.verifySig, sha256 := c.sha256, sha3 := c.sha3,
         ripemd160 := c.ripemd160 })

def heapVerifyLine (c : Case) : String :=
  let (h, hc) := heapCtx c.ctx
  verifyLine (heapMem goGrow) hc h c.limit

end BytomModel.Drv.VMCommon
