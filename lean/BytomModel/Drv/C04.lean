import BytomModel.Model.CodecDump
import BytomModel.Drv.Util
/- driver mode c04: `<kind> <text>` → canonical outcome line of the MODEL decoder
   (`ok <dump> re=<re-encoding or =>` / `err <class>` / `panic` / `big`) -/
namespace BytomModel.Drv.C04
open BytomModel.Drv

def step (_ : Unit) (line : String) : Unit × String := ((), BytomModel.CodecDump.codecStep line)

def run (_args : List String) : IO Unit := lineLoop () step
end BytomModel.Drv.C04
