import BytomModel.Model.DHT
import BytomModel.Drv.Util
/- driver mode c34 (stateful):
     reset <self> <id>:<bucket> …   → ok      (population with the bucket index of every id)
     add <id>                        → dump, `r=` the contested node
     stuff <id> …  | del <id> | delrep <id> | bump <id>   → dump (`r=` bump's result for bump)
   dump: `c=<count> r=<x> | <bucket>: e=<ids,> r=<ids,> | …` for every non-empty bucket -/
namespace BytomModel.Drv.C34
open BytomModel.Drv BytomModel.Model.DHT

structure St where
  dist : List (Nat × Nat) := []
  tab : Table := empty 0

def distOf (l : List (Nat × Nat)) (n : Nat) : Nat :=
  match l with
  | [] => 0
  | (a, b) :: rest => if a == n then b else distOf rest n

def ids (l : List Nat) : String := if l.isEmpty then "-" else ",".intercalate (l.map toString)

def dump (t : Table) (r : String) : String :=
  let bs := (List.range nBuckets).filterMap (fun i =>
    let b := t.buckets i
    if b.entries.isEmpty && b.replacements.isEmpty then none
    else some s!" | {i}: e={ids b.entries} r={ids b.replacements}")
  s!"c={t.count} r={r}" ++ String.join bs

/-- re-tabulate the bucket function (the model's `Table.put` nests one closure per operation;
    the driver flattens it after every line so that long cases stay fast — same function) -/
def norm (t : Table) : Table :=
  let arr := Array.ofFn (n := nBuckets) (fun i => t.buckets i.val)
  { t with buckets := fun j => if j < nBuckets then arr.getD j {} else t.buckets j }

def parsePair (s : String) : Option (Nat × Nat) :=
  match s.splitOn ":" with
  | [a, b] => do let x ← a.toNat?; let y ← b.toNat?; pure (x, y)
  | _ => none

def step (s : St) (line : String) : St × String :=
  match words line with
  | "reset" :: self :: pop =>
    match self.toNat?, pop.mapM parsePair with
    | some sf, some ps => ({ dist := ps, tab := empty sf }, "ok")
    | _, _ => (s, "bad-op")
  | ["add", a] => match a.toNat? with
    | some n =>
      let (t0, c) := add (distOf s.dist) s.tab n
      let t := norm t0
      ({ s with tab := t }, dump t (match c with | some x => toString x | none => "-"))
    | none => (s, "bad-op")
  | "stuff" :: rest => match rest.mapM String.toNat? with
    | some ns => let t := norm (stuff (distOf s.dist) s.tab ns); ({ s with tab := t }, dump t "-")
    | none => (s, "bad-op")
  | ["del", a] => match a.toNat? with
    | some n => let t := norm (delete (distOf s.dist) s.tab n); ({ s with tab := t }, dump t "-")
    | none => (s, "bad-op")
  | ["delrep", a] => match a.toNat? with
    | some n => let t := norm (deleteReplace (distOf s.dist) s.tab n); ({ s with tab := t }, dump t "-")
    | none => (s, "bad-op")
  | ["bump", a] => match a.toNat? with
    | some n => let (t0, r) := bumpOp (distOf s.dist) s.tab n; let t := norm t0; ({ s with tab := t }, dump t (toString r))
    | none => (s, "bad-op")
  | _ => (s, "bad-op")

def run (_args : List String) : IO Unit := lineLoop ({} : St) step
end BytomModel.Drv.C34
