import BytomModel.Model.CodecDump
import BytomModel.Drv.Util
/- driver mode c05: the codec ops of C04 on arbitrary (malformed) texts plus
   `msg|cmsg <hex>` (decodeMessage of the two reactors) and `msgtx|msgblk|msgmined|cmsgblk <text>`
   (a raw tx / block carried by a network message) -/
namespace BytomModel.Drv.C05
open BytomModel.Drv

def step (_ : Unit) (line : String) : Unit × String := ((), BytomModel.CodecDump.codecStep line)

def run (_args : List String) : IO Unit := lineLoop () step
end BytomModel.Drv.C05
