import BytomModel.Model.Wallet
import BytomModel.Drv.Util
/- driver mode c24 (also used by C25): wallet attach/detach walks; grammar in harness/c24.go -/
namespace BytomModel.Drv.C24
open BytomModel.Drv BytomModel.Model.Wallet

structure St where
  P : Params
  w : Wallet
  chain : List Block     -- blocks the wallet currently has attached, newest first (shadow)
  blocks : List Block    -- every block defined so far

def defaultParams : Params := ⟨fun _ => false, fun _ => 0, 10, fun _ => 0⟩

def initSt : St := ⟨defaultParams, Wallet.empty, [], []⟩

def nats (s : String) (sep : String) : Option (List Nat) :=
  if s == "-" || s == "" then some [] else (s.splitOn sep).mapM (fun x => x.toNat?)

def lookupIdx {α : Type} (l : List α) (i : Nat) (d : α) : α := (l[i - 1]?).getD d

def mkParams (cb dflt : Nat) (pend : List (Nat × Nat × Nat)) (progs : List (Bool × Nat)) : Params :=
  { p2w := fun p => if p == 0 then false else (lookupIdx progs p (false, 0)).1
    owner := fun p => if p == 0 then 0 else (lookupIdx progs p (false, 0)).2
    cbPending := cb
    pending := pendingOfTable pend dflt }

def parseTable3 (s : String) : Option (List (Nat × Nat × Nat)) :=
  if s == "-" then some [] else
  (s.splitOn ",").mapM (fun e => match nats e ":" with
    | some [a, b, c] => some (a, b, c)
    | _ => none)

def parseProgs (s : String) : Option (List (Bool × Nat)) :=
  if s == "-" then some [] else
  (s.splitOn ",").mapM (fun e => match nats e ":" with
    | some [a, b] => some (a == 1, b)
    | _ => none)

/-- tokens `T<c>`, `I<7 or 9 numbers>`, `O<6 numbers>` → transactions -/
def parseTxs (toks : List String) : Option (List Tx) :=
  let step (acc : Option (List Tx)) (tok : String) : Option (List Tx) := do
    let txs ← acc
    let body := (tok.drop 1).toString
    match tok.front with
    | 'T' => some (⟨body == "1", [], []⟩ :: txs)
    | 'C' | 'S' => match txs with
      | t :: r => some ({ t with ins := t.ins ++ [⟨2, ⟨0, 2, 0, 0, 0, 0⟩, 0, 0⟩] } :: r)
      | [] => none
    | 'I' => match txs, nats body "," with
      | t :: r, some [k, id, ok, asset, amt, prog, vote, gk, gh] =>
        some ({ t with ins := t.ins ++ [⟨k, ⟨id, ok, asset, amt, prog, vote⟩, gk, gh⟩] } :: r)
      | _, _ => none
    | 'O' => match txs, nats body "," with
      | t :: r, some [id, k, asset, amt, prog, vote] =>
        some ({ t with outs := t.outs ++ [⟨id, k, asset, amt, prog, vote⟩] } :: r)
      | _, _ => none
    | _ => none
  (toks.foldl step (some [])).map List.reverse

def insSorted (x : Utxo) : List Utxo → List Utxo
  | [] => [x]
  | y :: r => if x.id ≤ y.id then x :: y :: r else y :: insSorted x r

def dump (w : Wallet) : String :=
  let us := w.db.foldr insSorted []
  let s := ";".intercalate (us.map fun u => s!"{u.id}:{u.asset}:{u.amount}:{u.prog}:{u.vote}:{u.account}:{u.validHeight}")
  s!"st={w.st.workHeight},{w.st.work},{w.st.bestHeight},{w.st.best} utxos={s}"

def b01 (b : Bool) : String := if b then "1" else "0"

def step (s : St) (line : String) : St × String :=
  match words line with
  | ["reset", cb, dflt, pend, progs] =>
    match cb.toNat?, dflt.toNat?, parseTable3 pend, parseProgs progs with
    | some cb, some dflt, some pend, some progs =>
      let s' : St := ⟨mkParams cb dflt pend progs, Wallet.empty, [], []⟩
      (s', dump s'.w)
    | _, _, _, _ => (s, "bad-op")
  | "block" :: id :: parent :: height :: toks =>
    match id.toNat?, parent.toNat?, height.toNat?, parseTxs toks with
    | some id, some parent, some height, some txs =>
      ({ s with blocks := ⟨id, parent, height, txs⟩ :: s.blocks }, "ok")
    | _, _, _, _ => (s, "bad-op")
  | ["attach", id] =>
    match id.toNat? >>= fun id => s.blocks.find? (fun b => b.id == id) with
    | some b =>
      let skipped := b.parent != s.w.st.work
      let w' := attachBlock s.P s.w b
      if skipped then (s, "skip " ++ dump w')
      else
        let shadow := rescan s.P s.chain
        let gshadow := rescan (allOf s.P) s.chain
        let flags := s!"valid={b01 (validBlockB s.P b shadow)} gvalid={b01 (gvalidBlockB s.P b gshadow)} novote={b01 (noOwnedVoteBlockB s.P b)}"
        ({ s with w := w', chain := b :: s.chain }, "ok " ++ flags ++ " " ++ dump w')
    | none => (s, "bad-op")
  | ["pool", _, _] => (s, "ok")      -- pool events do not touch the wallet's UTXO records
  | ["unpool", _, _] => (s, "ok")
  | ["detach", id] =>
    match id.toNat? >>= fun id => s.blocks.find? (fun b => b.id == id) with
    | some b =>
      let w' := detachBlock s.P s.w b
      ({ s with w := w', chain := s.chain.tail }, "ok " ++ dump w')
    | none => (s, "bad-op")
  | _ => (s, "bad-op")

def run (_args : List String) : IO Unit := lineLoop initSt step
end BytomModel.Drv.C24
