import BytomModel.Model.SecretConn
import BytomModel.Drv.Util
/- driver mode c32: two ends A and B of an established secret connection (toy AEAD).
   reset <A.sendNonce hex> <B.sendNonce hex> | w <side> <datahex> | r <side> <len>
   | tamper <side> <frame> <offset> <xor> | close <side> | trunc <side> <k>
   | replay <side> <k> <j> (inbox frame k := j-th frame ever sent to side) | inc2 <nonce hex> -/
namespace BytomModel.Drv.C32
open BytomModel.Drv BytomModel.SecretConn

structure St where
  sA : Sender
  sB : Sender
  rA : Receiver
  rB : Receiver
  /-- every sealed frame ever delivered to A's / B's inbox (for `replay`) -/
  hA : Array Bytes := #[]
  hB : Array Bytes := #[]

def key : Bytes := [7, 1, 3]

def mk (nA nB : Bytes) : St :=
  { sA := { nonce := nA, connOpen := true }, sB := { nonce := nB, connOpen := true },
    rA := { buf := [], nonce := nB, wire := [], eof := false },
    rB := { buf := [], nonce := nA, wire := [], eof := false } }

def showW : WErr → String
  | .none => "nil"
  | .closedPipe => "closed-pipe"

def showR : RErr → String
  | .none => "nil"
  | .eof => "EOF"
  | .unexpectedEOF => "unexpected-EOF"
  | .decrypt => "decrypt"
  | .tooLong => "too-long"
  | .wouldBlock => "would-block"
  | .panic => "panic"

def trimAA (l : Bytes) : Bytes := (l.reverse.dropWhile (· == 0xAA)).reverse

def xorAt : Bytes → Nat → UInt8 → Bytes
  | [], _, _ => []
  | b :: bs, 0, x => (b ^^^ x) :: bs
  | b :: bs, n + 1, x => b :: xorAt bs n x

def framesOf : Nat → Bytes → List Bytes
  | 0, _ => []
  | fuel + 1, w => if w.length < sealedFrameSize then [] else w.take sealedFrameSize :: framesOf fuel (w.drop sealedFrameSize)

def pushFrames (h : Array Bytes) (w : Bytes) : Array Bytes := (framesOf w.length w).foldl Array.push h

/-- replace the k-th sealed frame of the inbox by a recorded one -/
def replaceFrame (wire : Bytes) (k : Nat) (f : Bytes) : Bytes :=
  wire.take (k * sealedFrameSize) ++ f ++ wire.drop ((k + 1) * sealedFrameSize)

def step (st : St) (line : String) : St × String :=
  match words line with
  | ["inc2", n] => match parseHex n with
    | some nn => if nn.length == 24 then (st, toHex (incr2Nonce nn)) else (st, "bad-op")
    | none => (st, "bad-op")
  | ["replay", side, k, j] => match k.toNat?, j.toNat? with
    | some k, some j =>
      if side == "A" then
        match st.hA[j]? with
        | some f => if (k + 1) * sealedFrameSize ≤ st.rA.wire.length then
            ({ st with rA := { st.rA with wire := replaceFrame st.rA.wire k f } }, "ok") else (st, "bad-op")
        | none => (st, "bad-op")
      else
        match st.hB[j]? with
        | some f => if (k + 1) * sealedFrameSize ≤ st.rB.wire.length then
            ({ st with rB := { st.rB with wire := replaceFrame st.rB.wire k f } }, "ok") else (st, "bad-op")
        | none => (st, "bad-op")
    | _, _ => (st, "bad-op")
  | ["reset", a, b] => match parseHex a, parseHex b with
    | some nA, some nB => (mk nA nB, "reset")
    | _, _ => (st, "bad-op")
  | ["w", side, d] => match parseHex d with
    | some data =>
      if side == "A" then
        let (s', res) := write toy key st.sA data
        ({ st with sA := s', rB := { st.rB with wire := st.rB.wire ++ res.wire }, hB := pushFrames st.hB res.wire },
          s!"n={res.n} err={showW res.err} frames={res.wire.length / sealedFrameSize} nonce={toHex s'.nonce}")
      else
        let (s', res) := write toy key st.sB data
        ({ st with sB := s', rA := { st.rA with wire := st.rA.wire ++ res.wire }, hA := pushFrames st.hA res.wire },
          s!"n={res.n} err={showW res.err} frames={res.wire.length / sealedFrameSize} nonce={toHex s'.nonce}")
    | none => (st, "bad-op")
  | ["r", side, l] => match l.toNat? with
    | some len =>
      if side == "A" then
        let (r', res) := read toy key st.rA len
        ({ st with rA := r' }, s!"n={res.n} err={showR res.err} buf={toHex (trimAA res.written)} buffered={r'.buf.length} nonce={toHex r'.nonce}")
      else
        let (r', res) := read toy key st.rB len
        ({ st with rB := r' }, s!"n={res.n} err={showR res.err} buf={toHex (trimAA res.written)} buffered={r'.buf.length} nonce={toHex r'.nonce}")
    | none => (st, "bad-op")
  | ["tamper", side, f, o, x] => match f.toNat?, o.toNat?, x.toNat? with
    | some f, some o, some x =>
      if side == "A" then ({ st with rA := { st.rA with wire := xorAt st.rA.wire (f * sealedFrameSize + o) (UInt8.ofNat x) } }, "ok")
      else ({ st with rB := { st.rB with wire := xorAt st.rB.wire (f * sealedFrameSize + o) (UInt8.ofNat x) } }, "ok")
    | _, _, _ => (st, "bad-op")
  | ["close", _] =>
    ({ sA := { st.sA with connOpen := false }, sB := { st.sB with connOpen := false },
       rA := { st.rA with eof := true }, rB := { st.rB with eof := true } }, "ok")
  | ["trunc", side, k] => match k.toNat? with
    | some k =>
      let cut (r : Receiver) : Receiver := { r with wire := r.wire.take (r.wire.length - k), eof := true }
      let st' : St := if side == "A" then { st with rA := cut st.rA, rB := { st.rB with eof := true } }
                      else { st with rB := cut st.rB, rA := { st.rA with eof := true } }
      ({ st' with sA := { st'.sA with connOpen := false }, sB := { st'.sB with connOpen := false } }, "ok")
    | none => (st, "bad-op")
  | _ => (st, "bad-op")

def run (_args : List String) : IO Unit := lineLoop (mk (List.replicate 24 0) (List.replicate 24 1)) step
end BytomModel.Drv.C32
