import BytomModel.Model.NodeLedger
import BytomModel.Drv.Node
/-
driver mode `nodeledger`: the node-engine protocol of Drv/Node plus transactions:
  def b<k> … txs=<tx>|<tx>…     with <tx> = t<n>:<in>,<in>|-:<out>/<kind>/<amount>[/<hash>],…
and the dump line extended by `utxo=…` and `contracts=…`.
-/
namespace BytomModel.Drv.NodeLedger
open BytomModel.Drv BytomModel.Node BytomModel.Ledger BytomModel.NodeLedger
open BytomModel.Drv.Node (kv parseId parseSup name)

def parseNamed (pfx : String) (s : String) : Option Nat :=
  if s.startsWith pfx then (s.drop pfx.length).toString.toNat? else none

def hexToNat (s : String) : Nat :=
  s.toList.foldl (fun acc c => acc * 16 + (hexDigit c).getD 0) 0

def parseOut (s : String) : Option TxOut :=
  match s.splitOn "/" with
  | id :: k :: amt :: rest =>
    match parseNamed "o" id, amt.toNat? with
    | some i, some a =>
      let kind : Option OutKind := match k with
        | "n" => some .normal
        | "v" => some .vote
        | "r" => some .retire
        | "k" => some (.contract (match rest with | h :: _ => hexToNat h | [] => 0))
        | _ => none
      kind.map (fun kd => { id := i, kind := kd, amount := a })
    | _, _ => none
  | _ => none

def parseTx (s : String) : Option Tx :=
  match s.splitOn ":" with
  | [t, ins, outs] =>
    match parseNamed "t" t with
    | some tid =>
      let is := if ins == "-" then [] else (ins.splitOn ",").filterMap (parseNamed "o")
      let os := (outs.splitOn ",").filterMap parseOut
      some { id := tid, ins := is, outs := os }
    | none => none
  | _ => none

def parseTxs (s : String) : List Tx := (s.splitOn "|").filterMap parseTx

def typeLetter (t : Nat) : String := if t == 0 then "n" else if t == 1 then "c" else if t == 2 then "v" else "?"

def natToHex8 (n : Nat) : String :=
  String.ofList ((List.range 8).reverse.map (fun i => hexChar ((n / 16 ^ i) % 16)))

def dumpLedger (s : NodeLedger.State) : String :=
  -- outputs in naming order = ascending id
  let es := (s.utxo.mergeSort (fun a b => a.1 ≤ b.1)).map (fun (k, e) =>
    s!"o{k}={typeLetter e.typ}/{e.height}/{if e.spent then 1 else 0}")
  let cs := ((s.contracts.map (fun (h, tx) => natToHex8 h ++ s!"@t{tx}")).mergeSort (fun a b => a ≤ b))
  s!"utxo={Node.joinOr es ","} contracts={Node.joinOr cs ","}"

def dump (s : NodeLedger.State) (res : String) : String := Node.dump s.node res ++ " " ++ dumpLedger s

def step (st : Option NodeLedger.State) (line : String) : Option NodeLedger.State × String :=
  let ws := words line
  match ws with
  | "reset" :: rest =>
    match (kv rest "E").bind String.toNat?, (kv rest "V").bind String.toNat?, (kv rest "pend").bind String.toNat? with
    | some e, some v, some pend =>
      let me := (kv rest "local").bind String.toNat?
      let g : Header := { id := 0, parent := 4294967295, height := 0, slot := 0, rank := 0, sup := [] }
      let gtxs := match kv rest "gtxs" with | some x => parseTxs x | none => []
      let s := NodeLedger.State.init { epoch := e, nVal := v, me := me } { votePending := pend } g gtxs
      let s := { s with interval := ((kv rest "interval").bind String.toNat?).getD 1000, metas := [(0, { ts := 0, signer := none, future := false, bad := false })] }
      (some s, dump s "ok")
    | _, _, _ => (st, "bad-op")
  | "def" :: idS :: rest =>
    match st, parseId idS, (kv rest "parent").bind parseId, (kv rest "h").bind String.toNat?,
          (kv rest "slot").bind String.toNat?, (kv rest "rank").bind String.toNat? with
    | some s, some id, some p, some h, some sl, some rk =>
      let hd : Header := { id := id, parent := p, height := h, slot := sl, rank := rk, sup := [] }
      let txs := match kv rest "txs" with | some x => parseTxs x | none => []
      let metas := match (kv rest "ts").bind String.toNat? with
        | some ts => (id, ({ ts := ts, signer := (kv rest "signer").bind String.toNat?,
                             future := (kv rest "future") == some "1", bad := (kv rest "bad").isSome } : Meta)) :: s.metas
        | none => s.metas
      (some { s with node := { s.node with defs := hd :: s.node.defs }, blockTxs := (id, txs) :: s.blockTxs, metas := metas }, "ok")
    | _, _, _, _, _, _ => (st, "bad-op")
  | "deliver" :: idS :: rest =>
    match st, parseId idS with
    | some s, some id =>
      match lookupHeader s.node.defs id with
      | some b0 =>
        let b := match kv rest "sup" with | some x => { b0 with sup := parseSup x } | none => b0
        let (s', r) := s.processBlock b
        (some s', dump s' r.str)
      | none => (st, "bad-op")
    | _, _ => (st, "bad-op")
  | ["restart"] =>
    match st with
    | some s =>
      match s.restart with
      | some s' => (some s', dump s' "ok")
      | none => (st, "res=err")
    | none => (st, "bad-op")
  | "vote" :: rest =>
    match st, (kv rest "v").bind String.toNat?, (kv rest "src").bind parseId, (kv rest "tgt").bind parseId, kv rest "sig" with
    | some s, some v, some src, some tgt, some sg =>
      let (s', r) := s.authVerification v src tgt (sg == "1")
      (some s', dump s' r.str)
    | _, _, _, _, _ => (st, "bad-op")
  | _ => (st, "bad-op")

def run (_args : List String) : IO Unit := lineLoop (none : Option NodeLedger.State) step
end BytomModel.Drv.NodeLedger
