import BytomModel.Model.Event
import BytomModel.Drv.Util
/- driver mode c39: sequential dispatcher histories.
   reset <cap> | sub <t>* | post <t> <v> | postn <t> <v0> <n> | recv <id> | recvn <id> <n>
   | unsub <id> | stop | closed <id> | dump -/
namespace BytomModel.Drv.C39
open BytomModel.Drv BytomModel.Event

def nats (ws : List String) : Option (List Nat) := ws.mapM (·.toNat?)

def showRes : Res → String
  | .subOk id => s!"sub {id}"
  | .subDup => "dup"
  | .postOk => "ok"
  | .muxClosed => "closed"
  | .done => "done"
  | .event e => s!"ev {e.typ} {e.val}"
  | .empty => "empty"
  | .chanClosed => "chclosed"
  | .flag b => if b then "true" else "false"
  | .badHandle => "bad-handle"

def joinWith (sep : String) (l : List String) : String := sep.intercalate l

/-- sort the map entries by type index (Go map order is unspecified; the harness sorts too) -/
def sortEntries (m : List (Nat × List Nat)) : List (Nat × List Nat) :=
  let rec ins (x : Nat × List Nat) : List (Nat × List Nat) → List (Nat × List Nat)
    | [] => [x]
    | y :: ys => if x.1 ≤ y.1 then x :: y :: ys else y :: ins x ys
  m.foldl (fun acc x => ins x acc) []

def dump (s : State) : String :=
  let m := (sortEntries s.subm).map fun (t, l) => s!"{t}:" ++ joinWith "," (l.map toString)
  let lens := (List.range s.subs.length).zip s.subs |>.map fun (i, sub) =>
    s!"{i}:{sub.buf.length}{if sub.closed then "c" else "o"}"
  s!"st={if s.stopped then 1 else 0} m={joinWith ";" m} len={joinWith "," lens}"

def postN (s : State) (t v : Nat) : Nat → Nat → State × Nat
  | 0, k => (s, k)
  | n + 1, k =>
    let (s', r) := post s { typ := t, val := v }
    postN s' t (v + 1) n (if r == .postOk then k + 1 else k)

def mix (h t v : Nat) : Nat := (h * 31 + t * 7 + v + 1) % 4294967296

def recvN (s : State) (id : Nat) : Nat → Nat → Nat → State × String
  | 0, k, h => (s, s!"got {k} {h} more")
  | n + 1, k, h =>
    match recv s id with
    | (s', .event e) => recvN s' id n (k + 1) (mix h e.typ e.val)
    | (s', r) => (s', s!"got {k} {h} {showRes r}")

def step (s : State) (line : String) : State × String :=
  match words line with
  | ["reset", c] => match c.toNat? with
    | some cap => (init cap, "reset")
    | none => (s, "bad-op")
  | "sub" :: ts => match nats ts with
    | some l => let (s', r) := subscribe s l; (s', showRes r)
    | none => (s, "bad-op")
  | ["post", t, v] => match t.toNat?, v.toNat? with
    | some t, some v => let (s', r) := post s { typ := t, val := v }; (s', showRes r)
    | _, _ => (s, "bad-op")
  | ["postn", t, v, n] => match t.toNat?, v.toNat?, n.toNat? with
    | some t, some v, some n => let (s', k) := postN s t v n 0; (s', s!"posted {k}")
    | _, _, _ => (s, "bad-op")
  | ["recv", i] => match i.toNat? with
    | some i => let (s', r) := recv s i; (s', showRes r)
    | none => (s, "bad-op")
  | ["recvn", i, n] => match i.toNat?, n.toNat? with
    | some i, some n => recvN s i n 0 0
    | _, _ => (s, "bad-op")
  | ["unsub", i] => match i.toNat? with
    | some i => let (s', r) := unsubscribe s i; (s', showRes r)
    | none => (s, "bad-op")
  | ["stop"] => let (s', r) := stop s; (s', showRes r)
  | ["closed", i] => match i.toNat? with
    | some i => let (s', r) := isClosed s i; (s', showRes r)
    | none => (s, "bad-op")
  | ["dump"] => (s, dump s)
  | _ => (s, "bad-op")

def run (_args : List String) : IO Unit := lineLoop (init 65536) step
end BytomModel.Drv.C39
