import BytomModel.Model.KD
import BytomModel.Model.KDCrypto
import BytomModel.Model.HSM
import BytomModel.Drv.Util
/- driver mode c28: chainkd with the executable Ed25519 / HMAC-SHA512 (all values hex, `-` empty;
   paths are comma separated; a trailing `#…` word is the harness's oracle annotation):
   root <seed> → <xprv>            xpub <xprv> → <xpub>
   child <xprv> <sel> <0|1> → <xprv> | panic     pubchild <xpub> <sel> → <xpub> | panic
   derive <xprv> <path> → <xprv> | panic         pubderive <xpub> <path> → <xpub> | panic
   sign <xprv> <msg> → <sig>        verify <xpub> <msg> <sig> → true|false
   ks <auth> <auth2> → ok | err-decrypt   (prediction: decrypts iff the passwords are equal)
   stateful key-store histories (reference model `Model/HSM.lean`; slots and passwords are numbers):
   reset → ok      hcreate <k> <pw> | hsign <k> <pw> | hcheck <k> <pw> | hresetpw <k> <old> <new>
   | hdelete <k> <pw> | hreload → ok | err
   rderive <xprv> <path> <reuse|fresh|scribble> → <xpub> (= pubderive (xpub xprv) path; the mode only says how the
        harness passes the path value: reused and rewritten in place, freshly allocated, scribbled afterwards)
   csign <goroutines> <gomaxprocs> <seed> → ok   (all signatures of the concurrent batch equal the sequential ones) -/
namespace BytomModel.Drv.C28
open BytomModel.Drv BytomModel BytomModel.KD

def edGrp : Grp KDCrypto.Point where
  add := KDCrypto.Point.add
  neg := KDCrypto.Point.neg
  smulB n := KDCrypto.Point.smul n KDCrypto.basePoint
  smul := KDCrypto.Point.smul
  enc := KDCrypto.Point.encode
  dec := KDCrypto.decode
  ell := KDCrypto.ell

def prf : PRF := ⟨KDCrypto.hmacSha512, KDCrypto.sha512⟩

def parseB (s : String) : Option (List Nat) := (parseHex s).map (·.map UInt8.toNat)
def showB (l : List Nat) : String := toHex (l.map UInt8.ofNat)
def parsePath (s : String) : Option (List (List Nat)) :=
  if s == "." then some [] else (s.splitOn ",").mapM parseB

def showO : Outcome (List Nat) → String
  | .ok b => showB b
  | .panic _ => "panic"

def hsmOp (ws : List String) : Option HSM.Op :=
  match ws with
  | ["hcreate", k, pw] => do pure (.create (← k.toNat?) (← pw.toNat?))
  | ["hsign", k, pw] => do pure (.sign (← k.toNat?) (← pw.toNat?))
  | ["hcheck", k, pw] => do pure (.check (← k.toNat?) (← pw.toNat?))
  | ["hresetpw", k, o, n] => do pure (.resetpw (← k.toNat?) (← o.toNat?) (← n.toNat?))
  | ["hdelete", k, pw] => do pure (.delete (← k.toNat?) (← pw.toNat?))
  | ["hreload"] => some .reload
  | _ => none

def stepPure (ws : List String) : String :=
  match ws with
    | ["root", seed] => match parseB seed with
      | some s => showB (rootXPrv prf s)
      | none => "bad-op"
    | ["xpub", x] => match parseB x with
      | some x => showB (xpub edGrp x)
      | none => "bad-op"
    | ["child", x, sel, h] => match parseB x, parseB sel with
      | some x, some s => showO (child edGrp prf x s (h == "1"))
      | _, _ => "bad-op"
    | ["pubchild", x, sel] => match parseB x, parseB sel with
      | some x, some s => showO (xpubChild edGrp prf x s)
      | _, _ => "bad-op"
    | ["derive", x, path] => match parseB x, parsePath path with
      | some x, some p => showO (derive edGrp prf x p)
      | _, _ => "bad-op"
    | ["pubderive", x, path] => match parseB x, parsePath path with
      | some x, some p => showO (xpubDerive edGrp prf x p)
      | _, _ => "bad-op"
    | ["sign", x, msg] => match parseB x, parseB msg with
      | some x, some m => showB (sign edGrp prf x m)
      | _, _ => "bad-op"
    | ["verify", x, msg, sig] => match parseB x, parseB msg, parseB sig with
      | some x, some m, some s => toString (verify edGrp prf x m s)
      | _, _, _ => "bad-op"
    | ["ks", a, b] => if a == b then "ok" else "err-decrypt"
    -- a concurrent signing batch: signing is a function of (key, message); concurrency changes nothing
    | ["csign", _, _, _] => "ok"
    -- derivation with a reused path value: a function of the path CONTENTS at the time of the call
    | ["rderive", x, path, _] => match parseB x, parsePath path with
      | some x, some p => showO (xpubDerive edGrp prf (xpub edGrp x) p)
      | _, _ => "bad-op"
    | _ => "bad-op"

def step (st : HSM.State) (line : String) : HSM.State × String :=
  let ws := (words line).filter (fun w => !w.startsWith "#")
  if ws == ["reset"] then (HSM.empty, "ok") else
  match hsmOp ws with
  | some op => let r := HSM.step st op; (r.1, if r.2 then "ok" else "err")
  | none => (st, stepPure ws)

def run (_args : List String) : IO Unit := lineLoop HSM.empty step
end BytomModel.Drv.C28
