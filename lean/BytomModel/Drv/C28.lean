import BytomModel.Model.KD
import BytomModel.Model.KDCrypto
import BytomModel.Drv.Util
/- driver mode c28: chainkd with the executable Ed25519 / HMAC-SHA512 (all values hex, `-` empty;
   paths are comma separated; a trailing `#…` word is the harness's oracle annotation):
   root <seed> → <xprv>            xpub <xprv> → <xpub>
   child <xprv> <sel> <0|1> → <xprv> | panic     pubchild <xpub> <sel> → <xpub> | panic
   derive <xprv> <path> → <xprv> | panic         pubderive <xpub> <path> → <xpub> | panic
   sign <xprv> <msg> → <sig>        verify <xpub> <msg> <sig> → true|false
   ks <auth> <auth2> → ok | err-decrypt   (prediction: decrypts iff the passwords are equal) -/
namespace BytomModel.Drv.C28
open BytomModel.Drv BytomModel BytomModel.KD

def edGrp : Grp KDCrypto.Point where
  add := KDCrypto.Point.add
  neg := KDCrypto.Point.neg
  smulB n := KDCrypto.Point.smul n KDCrypto.basePoint
  smul := KDCrypto.Point.smul
  enc := KDCrypto.Point.encode
  dec := KDCrypto.decode
  ell := KDCrypto.ell

def prf : PRF := ⟨KDCrypto.hmacSha512, KDCrypto.sha512⟩

def parseB (s : String) : Option (List Nat) := (parseHex s).map (·.map UInt8.toNat)
def showB (l : List Nat) : String := toHex (l.map UInt8.ofNat)
def parsePath (s : String) : Option (List (List Nat)) :=
  if s == "." then some [] else (s.splitOn ",").mapM parseB

def showO : Outcome (List Nat) → String
  | .ok b => showB b
  | .panic _ => "panic"

def step (_ : Unit) (line : String) : Unit × String :=
  let ws := (words line).filter (fun w => !w.startsWith "#")
  let out := match ws with
    | ["root", seed] => match parseB seed with
      | some s => showB (rootXPrv prf s)
      | none => "bad-op"
    | ["xpub", x] => match parseB x with
      | some x => showB (xpub edGrp x)
      | none => "bad-op"
    | ["child", x, sel, h] => match parseB x, parseB sel with
      | some x, some s => showO (child edGrp prf x s (h == "1"))
      | _, _ => "bad-op"
    | ["pubchild", x, sel] => match parseB x, parseB sel with
      | some x, some s => showO (xpubChild edGrp prf x s)
      | _, _ => "bad-op"
    | ["derive", x, path] => match parseB x, parsePath path with
      | some x, some p => showO (derive edGrp prf x p)
      | _, _ => "bad-op"
    | ["pubderive", x, path] => match parseB x, parsePath path with
      | some x, some p => showO (xpubDerive edGrp prf x p)
      | _, _ => "bad-op"
    | ["sign", x, msg] => match parseB x, parseB msg with
      | some x, some m => showB (sign edGrp prf x m)
      | _, _ => "bad-op"
    | ["verify", x, msg, sig] => match parseB x, parseB msg, parseB sig with
      | some x, some m, some s => toString (verify edGrp prf x m s)
      | _, _, _ => "bad-op"
    | ["ks", a, b] => if a == b then "ok" else "err-decrypt"
    | _ => "bad-op"
  ((), out)

def run (_args : List String) : IO Unit := lineLoop () step
end BytomModel.Drv.C28
