import BytomModel.Model.TxPool
import BytomModel.Drv.Util
/- driver mode c22.  Lines:
     reset <maxPool> <maxOrphan> <conf,…|-> <id>/<in,…|->/<o|r…|->/<d|n> …
     submit <id> | remove <id> | expire <k>
   output: ret=<r> pool=… utxo=o:t,… orph=… prev=o:t+t,…   (all sorted)
   Output ids of tx `t`: t*10+k; other numbers are outputs of no transaction in the universe. -/
namespace BytomModel.Drv.C22
open BytomModel.Drv BytomModel.TxPool

structure St where
  cfg : Cfg
  univ : List Tx
  pool : Pool
  now : Nat

def parseCsv (s : String) : Option (List Nat) :=
  if s == "-" then some [] else (s.splitOn ",").mapM String.toNat?

def parseTx (tok : String) : Option Tx :=
  match tok.splitOn "/" with
  | [id, ins, outs, fl] => do
    let id ← id.toNat?
    let ins ← parseCsv ins
    let kinds := if outs == "-" then [] else outs.toList
    let res := (List.range kinds.length).zip kinds |>.map (fun (k, ch) => (id * 10 + k, ch == 'o'))
    pure { id := id, spent := ins, results := res, dust := fl == "d" }
  | _ => none

def sortNat (l : List Nat) : List Nat := l.mergeSort (fun a b => a ≤ b)

def joinNat (sep : String) (l : List Nat) : String := sep.intercalate (l.map toString)

def orDash (s : String) : String := if s.isEmpty then "-" else s

def showRet : Option Ret → String
  | none => "-"
  | some .have_ => "have"
  | some .dust => "dust"
  | some .orphan => "orphan"
  | some .pooled => "pooled"
  | some .full => "full"

def dump (p : Pool) : String :=
  let pool := joinNat "," (sortNat (p.pool.map Prod.fst))
  let utxo := (p.utxo.mergeSort (fun a b => a.1 ≤ b.1)).map (fun (o, t) => s!"{o}:{t}")
  let orph := joinNat "," (sortNat (p.orphans.map Prod.fst))
  let prev := (p.byPrev.mergeSort (fun a b => a.1 ≤ b.1)).map
    (fun (o, m) => s!"{o}:" ++ joinNat "+" (sortNat (m.map Prod.fst)))
  s!"pool={orDash pool} utxo={orDash (",".intercalate utxo)} orph={orDash orph} prev={orDash (",".intercalate prev)}"

def initSt : St := ⟨⟨[], 0, 0⟩, [], Pool.empty, 0⟩

def step (st : St) (line : String) : St × String :=
  match words line with
  | "reset" :: mp :: mo :: conf :: txs =>
    match mp.toNat?, mo.toNat?, parseCsv conf, txs.mapM parseTx with
    | some mp, some mo, some conf, some txs => (⟨⟨conf, mp, mo⟩, txs, Pool.empty, 0⟩, "ok")
    | _, _, _, _ => (st, "bad-op")
  | [op, a] =>
    match a.toNat? with
    | none => (st, "bad-op")
    | some n =>
      let mop : Option Op :=
        if op == "submit" then (st.univ.find? (fun t => t.id == n)).map Op.submit
        else if op == "remove" then some (Op.remove n)
        else if op == "expire" then some (Op.expire n)
        else none
      match mop with
      | none => (st, "bad-op")
      | some o =>
        let r := BytomModel.TxPool.step st.cfg st.pool st.now o
        ({ st with pool := r.1, now := st.now + 1 }, s!"ret={showRet r.2} " ++ dump r.1)
  | _ => (st, "bad-op")

def run (_args : List String) : IO Unit := lineLoop initSt step
end BytomModel.Drv.C22
