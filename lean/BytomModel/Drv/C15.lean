import BytomModel.Drv.EconUtil
/- driver mode c15 (stateful; every case starts with `reset`).
   reset <interval> <minVotes> <epoch> <maxValidators> <federation k,k|->     → ok
   ckpt <g|u|j|f> <height> <timestamp> <votes k:v,..|->                         → ok
   new                                   (NewCheckpoint of the current one)      → votes (sorted by key)
   apply <height> <ts> <subsidy> <outs0> {T <vetoes> <votes> <fee>}*            → <status> <votes sorted by key> | err | panic
   all                                                                          → AllValidators  k:order:votes,… (in result order)
   eff                                                                          → EffectiveValidators sorted by order
   get <ts>                                                                     → <key> <order> <votes> | nil | panic -/
namespace BytomModel.Drv.C15
open BytomModel.Drv BytomModel.Drv.EconUtil BytomModel.Model.Checkpoint

structure St where
  p : Params
  c : Checkpoint
  deriving Inhabited

def step (s : St) (line : String) : St × String :=
  match words line with
  | ["reset", i, m, e, mx, fed] =>
    match i.toNat?, m.toNat?, e.toNat?, mx.toNat?, parseKeys fed with
    | some i, some m, some e, some mx, some fed =>
      ({ s with p := { interval := i, minVotes := m, epoch := e, maxValidators := mx, federation := fed } }, "ok")
    | _, _, _, _, _ => (s, "bad-op")
  | ["ckpt", st, h, ts, votes] =>
    match parseStatus st, h.toNat?, ts.toNat?, parsePairs votes with
    | some st, some h, some ts, some v =>
      ({ s with c := { height := h, timestamp := ts, status := st, votes := v, rewards := [] } }, "ok")
    | _, _, _, _ => (s, "bad-op")
  | ["new"] =>
    let c := newCheckpoint s.c
    ({ s with c := c }, showPairs (sortK c.votes))
  | "apply" :: h :: ts :: sub :: outs :: rest =>
    match h.toNat?, ts.toNat?, sub.toNat?, parseOuts outs, parseTxs rest with
    | some h, some ts, some sub, some outs, some txs =>
      match increase s.p s.c { height := h, timestamp := ts, txs := txs, outs0 := outs } true sub with
      | .ok c => ({ s with c := c }, s!"{showStatus c.status} {showPairs (sortK c.votes)}")
      | .err => (s, "err")
      | .panic => (s, "panic")
    | _, _, _, _, _ => (s, "bad-op")
  | ["all"] => (s, showValidators (allValidators s.p id s.c))
  | ["eff"] => (s, showValidators ((effectiveValidators s.p id s.c).foldr insertVO []))
  | ["get", ts] =>
    match ts.toNat? with
    | some ts =>
      match getValidator s.p id s.c ts with
      | .validator v => (s, s!"{keyHex v.pubKey} {v.order} {v.voteNum}")
      | .nil => (s, "nil")
      | .panic => (s, "panic")
    | none => (s, "bad-op")
  | _ => (s, "bad-op")

def run (_args : List String) : IO Unit := lineLoop (default : St) step
end BytomModel.Drv.C15
