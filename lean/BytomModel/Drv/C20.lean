import BytomModel.Model.KV
import BytomModel.Drv.Util
/- driver mode c20.  Lines:
     reset                                   → ok   (both stores emptied)
     mem <op> | ldb <op>                     → result of <op> on the MemDB model / the abstract store
   <op>:  get K | has K | set K V | setsync K V | del K | batch s,K,V d,K … | ip P | ws P S f|r
          | setmut K V | setmutk K V | getmut K | batchmut K V
          | bnew H | bset H K V | bdel H K | bwrite H      (batch handles; a handle may be written repeatedly)
   K,P: hex or `-` (empty);  V,S: `nil`, `-` or hex. -/
namespace BytomModel.Drv.C20
open BytomModel.Drv BytomModel.KV

def parseVal (s : String) : Option (Option Bytes) :=
  if s == "nil" then some none else (parseHex s).map some

def showVal : Option Bytes → String
  | none => "nil"
  | some b => toHex b

def showKV (kv : Bytes × Option Bytes) : String := toHex kv.1 ++ ":" ++ showVal kv.2

def showOut : Out → String
  | .ok => "ok"
  | .val v => showVal v
  | .pair a b => "pair " ++ showVal a ++ " " ++ showVal b
  | .seq cur rest =>
    let c := match cur with
      | none => "cur=none"
      | some kv => "cur=" ++ showKV kv
    rest.foldl (fun acc kv => acc ++ " " ++ showKV kv) c

def parseBOp (tok : String) : Option BOp :=
  match tok.splitOn "," with
  | ["s", k, v] => do
    let k ← parseHex k
    let v ← parseVal v
    pure (.set k v)
  | ["d", k] => do
    let k ← parseHex k
    pure (.del k)
  | _ => none

def parseOp : List String → Option Op
  | ["get", k] => (parseHex k).map .get
  | ["set", k, v] => do
    let k ← parseHex k
    let v ← parseVal v
    pure (.set k v)
  | ["del", k] => (parseHex k).map .del
  | "batch" :: toks => (toks.mapM parseBOp).map .batch
  | ["ip", p] => (parseHex p).map .iterPrefix
  | ["ws", p, s, d] => do
    let p ← parseHex p
    let s ← parseVal s
    let r ← if d == "f" then some false else if d == "r" then some true else none
    pure (.iterWS p s r)
  | ["setmut", k, v] => do
    let k ← parseHex k
    let v ← parseHex v
    pure (.setMut k v)
  | ["getmut", k] => (parseHex k).map .getMut
  | ["setsync", k, v] => do     -- SetSync: same map write / Put with the sync option
    let k ← parseHex k
    let v ← parseVal v
    pure (.set k v)
  | ["batchmut", k, v] => do
    let k ← parseHex k
    let v ← parseHex v
    pure (.batchMut k v)
  | _ => none

def showHas : Option Bytes → String
  | none => "absent"
  | some _ => "present"

def parseHOp : List String → Option HOp
  | ["bnew", h] => h.toNat?.map .bnew
  | ["bset", h, k, v] => do
    let h ← h.toNat?
    let k ← parseHex k
    let v ← parseVal v
    pure (.bset h k v)
  | ["bdel", h, k] => do
    let h ← h.toNat?
    let k ← parseHex k
    pure (.bdel h k)
  | ["bwrite", h] => h.toNat?.map .bwrite
  | _ => none

abbrev St := (Mem × Handles) × (Spec × Handles)

def stepPlain (st : Mem × Spec) (line : String) : (Mem × Spec) × String :=
  match words line with
  | ["reset"] => (([], []), "ok")
  -- existence-style read `db.Get(k) != nil`
  | ["mem", "has", k] => match parseHex k with
    | some k => (st, showHas (Mem.get st.1 k))
    | none => (st, "bad-op")
  | ["ldb", "has", k] => match parseHex k with
    | some k => (st, showHas (Spec.get st.2 k))
    | none => (st, "bad-op")
  -- `Set(kbuf, v)`, the caller flips `kbuf[0]`; observe `Get(k)`, `Get(k')`: the key is converted
  -- (`string(key)` / copied) at `Set` in both backends, so this is `set` followed by two `get`s
  | ["mem", "setmutk", k, v] => match parseHex k, parseHex v with
    | some k, some v =>
      let m := Mem.set st.1 k (some v)
      ((m, st.2), "pair " ++ showVal (Mem.get m k) ++ " " ++ showVal (Mem.get m (flip0 k)))
    | _, _ => (st, "bad-op")
  | ["ldb", "setmutk", k, v] => match parseHex k, parseHex v with
    | some k, some v =>
      let s := Spec.set st.2 k v
      ((st.1, s), "pair " ++ showVal (Spec.get s k) ++ " " ++ showVal (Spec.get s (flip0 k)))
    | _, _ => (st, "bad-op")
  | "mem" :: rest =>
    match parseOp rest with
    | some op => let r := Mem.step st.1 op; ((r.1, st.2), showOut r.2)
    | none => (st, "bad-op")
  | "ldb" :: rest =>
    match parseOp rest with
    | some op => let r := Spec.step st.2 op; ((st.1, r.1), showOut r.2)
    | none => (st, "bad-op")
  | _ => (st, "bad-op")

/-- batch-handle lines first, everything else through the plain step on the two stores -/
def step (st : St) (line : String) : St × String :=
  match words line with
  | ["reset"] => ((([], []), ([], [])), "ok")
  | "mem" :: rest =>
    match parseHOp rest with
    | some op => let r := Mem.stepH st.1 op; ((r.1, st.2), showOut r.2)
    | none => let r := stepPlain (st.1.1, st.2.1) line; (((r.1.1, st.1.2), (r.1.2, st.2.2)), r.2)
  | "ldb" :: rest =>
    match parseHOp rest with
    | some op => let r := Spec.stepH st.2 op; ((st.1, r.1), showOut r.2)
    | none => let r := stepPlain (st.1.1, st.2.1) line; (((r.1.1, st.1.2), (r.1.2, st.2.2)), r.2)
  | _ => (st, "bad-op")

def run (_args : List String) : IO Unit := lineLoop (((([], []), ([], [])) : St)) step
end BytomModel.Drv.C20
