import BytomModel.Model.TxValidate
import BytomModel.Model.TxEntries
import BytomModel.Drv.Util
/- driver mode c01.
   op:   tx <blockVersion> <blockHeight> <first 0|1> <txVersion> <size> <timeRange> <hint> <nIn> <in>* <nOut> <out>*
         in  = <s|i|v|c>:<asset>:<amount>:<vmOk 0|1>:<vmCost>:<x>:<id>
         out = <o|v|r>:<asset>:<amount>:<voteLen>
         optional tail `M <field> <index> <args>`: ONE field of ONE entry of the mapped transaction was changed
         in place before validation (pv wd wdpos wdref ms mspos msref | ov srcpos srcref dv dstpos dstref);
         the answer is then `validateE` on the mutated entry graph (Model/TxEntries.lean)
         hint = the error class the implementation returned ("gas" ⇒ the Go map iteration
                visited the BTM entry before any unbalanced asset; anything else ⇒ after):
                it resolves the ONLY nondeterminism of ValidateTx, the order of `range parity`.
   op:   reset | reset-batch <n>   → ok   (the next n tx lines are the members of one ValidateTxs batch)
   out:  ok <BTMValue> <GasLeft> <GasUsed> <StorageGas> fee=<Fee()>   |   err <class> fee=<Fee()> -/
namespace BytomModel.Drv.C01
open BytomModel.Drv BytomModel.Model.TxValidate BytomModel.Model.TxEntries

def parseIn (s : String) : Option Input :=
  match s.splitOn ":" with
  | [k, a, amt, vm, c, x, id] => do
    let kind ← (match k with
      | "s" => some InKind.spend | "i" => some InKind.issue
      | "v" => some InKind.veto | "c" => some InKind.coinbase | _ => none)
    pure { kind := kind, asset := ← a.toNat?, amount := ← amt.toNat?, vmOk := vm == "1",
           vmCost := ← c.toNat?, x := ← x.toNat?, id := ← id.toNat? }
  | _ => none

def parseOut (s : String) : Option Output :=
  match s.splitOn ":" with
  | [k, a, amt, vl] => do
    let kind ← (match k with
      | "o" => some OutKind.original | "v" => some OutKind.vote | "r" => some OutKind.retire | _ => none)
    pure { kind := kind, asset := ← a.toNat?, amount := ← amt.toNat?, voteLen := ← vl.toNat? }
  | _ => none

def parseMut : List String → Option (Option Mut)
  | [] => some none
  | ["M", "pv", i, a, v] => do pure (some (.pv (← i.toNat?) (← a.toNat?, ← v.toNat?)))
  | ["M", "wd", i, a, v] => do pure (some (.wd (← i.toNat?) (← a.toNat?, ← v.toNat?)))
  | ["M", "wdpos", i, p] => do pure (some (.wdpos (← i.toNat?) (← p.toNat?)))
  | ["M", "wdref", i] => do pure (some (.wdref (← i.toNat?)))
  | ["M", "ms", i, a, v] => do pure (some (.ms (← i.toNat?) (← a.toNat?, ← v.toNat?)))
  | ["M", "mspos", i, p] => do pure (some (.mspos (← i.toNat?) (← p.toNat?)))
  | ["M", "msref", i, r] => do pure (some (.msref (← i.toNat?) (← r.toNat?)))
  | ["M", "ov", j, a, v] => do pure (some (.ov (← j.toNat?) (← a.toNat?, ← v.toNat?)))
  | ["M", "srcpos", j, p] => do pure (some (.srcpos (← j.toNat?) (← p.toNat?)))
  | ["M", "srcref", j] => do pure (some (.srcref (← j.toNat?)))
  | ["M", "dv", j, a, v] => do pure (some (.dv (← j.toNat?) (← a.toNat?, ← v.toNat?)))
  | ["M", "dstpos", j, p] => do pure (some (.dstpos (← j.toNat?) (← p.toNat?)))
  | ["M", "dstref", j, r] => do pure (some (.dstref (← j.toNat?) (← r.toNat?)))
  | _ => none

def parseTx (w : List String) : Option (Ctx × String × Tx × Option Mut) :=
  match w with
  | "tx" :: bv :: bh :: first :: ver :: size :: tr :: hint :: nin :: rest => do
    let nin ← nin.toNat?
    let ins ← (rest.take nin).mapM parseIn
    match rest.drop nin with
    | nout :: rest2 =>
      let nout ← nout.toNat?
      if ins.length ≠ nin ∨ rest2.length < nout then none else
      let outs ← (rest2.take nout).mapM parseOut
      let mu ← parseMut (rest2.drop nout)
      pure ({ blockVersion := ← bv.toNat?, blockHeight := ← bh.toNat?, first := first == "1" }, hint,
            { version := ← ver.toNat?, size := ← size.toNat?, timeRange := ← tr.toNat?, inputs := ins, outputs := outs }, mu)
    | [] => none
  | _ => none

def showRes (r : Except Err Gas) (f : Nat) : String :=
  match r with
  | .ok g => s!"ok {g.btmValue} {g.gasLeft} {g.gasUsed} {g.storageGas} fee={f}"
  | .error e => s!"err {e.name} fee={f}"

def step (_ : Unit) (line : String) : Unit × String :=
  -- `reset` / `reset-batch <n>`: cut points of the stream; the following n tx lines of a batch were
  -- validated TOGETHER by validation.ValidateTxs and must still get the single-transaction answer
  if line.startsWith "reset" then ((), "ok") else
  let out := match parseTx (words line) with
    | none => "bad-op"
    | some (ctx, hint, tx, mu) =>
      let order := if hint == "gas" then btmFirst else btmLast
      let f := fee tx
      let flat := showRes (validateTx ctx order tx) f
      let viaEntries := showRes (validateE ctx order (ofTx tx)) f
      -- the MapTx-level model and the entry-level model must agree on every unmutated graph
      if flat != viaEntries then s!"model-layers-differ flat[{flat}] entries[{viaEntries}]" else
      match mu with
      | none => flat
      | some m => showRes (validateE ctx order (applyMut (ofTx tx) m)) f
  ((), out)

def run (_args : List String) : IO Unit := lineLoop () step
end BytomModel.Drv.C01
