import BytomModel.Drv.Node
import BytomModel.Model.OrphanPool
/-
driver mode `c12`: the node-history op lines (answered by Drv.Node.step) plus the
orphan-pool cases with capacity limit, LRU eviction and expiry:
  reset mode=opool seed=<s> case=<k> limit=<L>
  oadd <id> <parent>
  odel <id>
  oexpire <k>
answered by the canonical dump of Model/OrphanPool.
-/
namespace BytomModel.Drv.C12
open BytomModel.Drv BytomModel.Model.OrphanPool

structure St where
  node : Option BytomModel.Node.State
  pool : Option Pool

def joinNat (l : List Nat) (sep : String) : String :=
  if l.isEmpty then "-" else sep.intercalate (l.map toString)

def dumpPool (s : Pool) : String :=
  let ids := (s.orphans.map (·.id)).mergeSort
  let ps := (s.idx.map (·.1)).mergeSort
  let idx := ps.map (fun p => s!"{p}:{joinNat ((Idx.get s.idx p).getD []) ","}")
  let groups := ps.all (fun p => Idx.get s.idx p == group s.orphans p)
  s!"n={s.orphans.length} ids={joinNat ids ","} idx={if idx.isEmpty then "-" else ";".intercalate idx} grouped={groups}"

def step (st : St) (line : String) : St × String :=
  let ws := words line
  match ws with
  | "reset" :: rest =>
    if BytomModel.Drv.Node.kv rest "mode" == some "opool" then
      match (BytomModel.Drv.Node.kv rest "limit").bind String.toNat? with
      | some l => ({ st with pool := some (Pool.init l) }, "ok")
      | none => (st, "bad-op")
    else
      let (n, out) := BytomModel.Drv.Node.step st.node line
      ({ st with node := n }, out)
  | ["oadd", h, p] =>
    match st.pool, h.toNat?, p.toNat? with
    | some s, some h, some p => let s' := s.add h p; ({ st with pool := some s' }, dumpPool s')
    | _, _, _ => (st, "bad-op")
  | ["odel", h] =>
    match st.pool, h.toNat? with
    | some s, some h => let s' := s.delete h; ({ st with pool := some s' }, dumpPool s')
    | _, _ => (st, "bad-op")
  | ["oexpire", k] =>
    match st.pool, k.toNat? with
    | some s, some k => let s' := s.expire k; ({ st with pool := some s' }, dumpPool s')
    | _, _ => (st, "bad-op")
  | _ =>
    let (n, out) := BytomModel.Drv.Node.step st.node line
    ({ st with node := n }, out)

def run (_args : List String) : IO Unit := lineLoop ({ node := none, pool := none } : St) step
end BytomModel.Drv.C12
