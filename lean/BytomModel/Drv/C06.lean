import BytomModel.Drv.VMCommon
/- driver mode c06: a `vm.Verify` case whose byte strings are laid out explicitly in memory,
   evaluated on the HEAP instance `heapMem goGrow` of the VM model (Go slices).

   op line:
     h <gasLimit> <arrays: hex;hex;…> <code> <args> <state> <txVersion> <blockHeight> <assetID>
       <amount> <destPos> <spentOutputID> <entryID> <txSigHash hex|nil> <checkOutput 0|1> <sigs>
   where every byte string is a slice `arr:off:len:cap` into the arrays (`nil` = absent).
   result line: the C07/C08 result line followed by the final contents of the caller's arrays
   (`hex;hex;…`), so that writes into caller-owned memory are compared byte for byte. -/
namespace BytomModel.Drv.C06
open BytomModel.Drv BytomModel.VM BytomModel.Drv.VMCommon

def parseSlice (s : String) : Option Slice :=
  match (s.splitOn ":").mapM String.toNat? with
  | some [a, o, l, c] => some ⟨a, o, l, c⟩
  | _ => none

def parseSliceList (s : String) : Option (List Slice) :=
  if s == "." then some [] else (s.splitOn ",").mapM parseSlice

def parseOptSlice (s : String) : Option (Option Slice) :=
  if s == "nil" then some none else (parseSlice s).map some

def parseArrays (s : String) : Option (List Bytes) :=
  if s == "." then some [] else (s.splitOn ";").mapM parseHex

structure HCase where
  heap : Heap
  nArrays : Nat
  ctx : Context Slice
  limit : Int

def parseHCase (w : List String) : Option HCase :=
  match w with
  | [limit, arrays, code, args, state, txv, bh, asset, amount, dest, spent, entry, sigh, co, sigs] => do
    let limit ← limit.toInt?
    let arrays ← parseArrays arrays
    let code ← parseSlice code
    let args ← parseSliceList args
    let state ← parseSliceList state
    let txv ← parseOptNat txv
    let bh ← parseOptNat bh
    let asset ← parseOptSlice asset
    let amount ← parseOptNat amount
    let dest ← parseOptNat dest
    let spent ← parseOptSlice spent
    let entry ← parseSlice entry
    let sigh ← parseOptHex sigh
    let sigs ← parseSigs sigs
    pure {
      heap := ⟨arrays.toArray⟩, nArrays := arrays.length, limit := limit
      ctx := {
        vmVersion := 1, code := code, stateData := state, arguments := args, entryID := entry,
        txVersion := txv, blockHeight := bh, assetID := asset, amount := amount, destPos := dest,
        spentOutputID := spent, txSigHash := sigh,
        checkOutput := if co == "1" then some checkOutputFn else none,
        verifySig := fun pk msg sg => sigs.contains (pk, msg, sg),
        sha256 := Sha256.sha256, sha3 := Sha3.sha3_256, ripemd160 := Ripemd160.ripemd160 } }
  | _ => none

/-- like `verifyLine`, also returning the final heap -/
def verifyLineHeap (ctx : Context Slice) (mem0 : Heap) (limit : Int) : String × Option Heap :=
  let M := heapMem goGrow
  let mem : Heap := mem0
  let fmt (e : Option Err) (gas : Int) (t : TraceSt) : String :=
    let en := match e with | none => "ok" | some e => e.name
    s!"{en} {gas} {t.lines} {t.hash.toNat} {t.last}"
  match initPushes M ctx ⟨mem, initFrame ctx limit⟩ with
  | .panic => (fmt (some .unexpected) 0 {}, none)
  | .err e s => (fmt (some e) s.f.runLimit {}, some s.mem)
  | .ok _ s =>
    match runTrace M ctx (stepBudget limit) (2 * stepBudget limit + 10) ⟨s.mem, s.f, []⟩ {} with
    | .watchdog => ("watchdog", none)
    | .final .panic t => (fmt (some .unexpected) 0 t, none)
    | .final (.done mem' f e) t =>
      let e' := match e with
        | some e => some e
        | none => if falseResult M mem' f then some .falseVMResult else none
      (fmt e' f.runLimit t, some mem')

def step (_ : Unit) (line : String) : Unit × String :=
  let out := match words line with
    | "h" :: rest =>
      match parseHCase rest with
      | some c =>
        let (l, h) := verifyLineHeap c.ctx c.heap c.limit
        match h with
        | none => l ++ " ?"      -- recovered panic / watchdog: memory not compared
        | some h =>
          let arrs := (List.range c.nArrays).map fun i => toHex (h.getArr i)
          l ++ " " ++ (if arrs.isEmpty then "." else ";".intercalate arrs)
      | none => "bad-op"
    | _ => "bad-op"
  ((), out)

def run (_args : List String) : IO Unit := lineLoop () step
end BytomModel.Drv.C06
