import BytomModel.Model.Sync
import BytomModel.Drv.Util
/- driver mode c33 (stateful):
     reset                      → ok
     blk <id> <height>          → ok     (a known block: GetHeaderByHash succeeds)
     main <height> <id>         → ok     (main-chain index entry; later lines overwrite)
     nobody <id>                → ok     (GetBlockByHash fails for this block)
     lh <skip> <maxNum> <stop> <locator ids…>      → `ok id:h …` | `ok -` | `err`
     lb <timeoutAfter> <stop> <locator ids…>       → same, for locateBlocks
     hh <skip> <stop> <locator ids…>  → what handleGetHeadersMsg sends: `none` | `ok id:h …`
     hb <stop> <locator ids…>         → what handleGetBlocksMsg sends (no timeout, everything fits)
     gb|gm <height> <id>              → what handleGetBlockMsg / handleGetMerkleBlockMsg sends  -/
namespace BytomModel.Drv.C33
open BytomModel.Drv BytomModel.Model.Sync

structure St where
  blocks : List (Nat × Nat) := []
  main : List (Nat × Nat) := []
  nobody : List Nat := []

def showOut : Outcome Header → String
  | .err => "err"
  | .ok [] => "ok -"
  | .ok hs => "ok " ++ " ".intercalate (hs.map (fun h => s!"{h.id}:{h.height}"))

def showResp : Option (List Header) → String
  | none => "none"
  | some hs => showOut (.ok hs)

def nats (ws : List String) : Option (List Nat) := ws.mapM String.toNat?

def step (s : St) (line : String) : St × String :=
  match words line with
  | "reset" :: _ => ({}, "ok")
  | ["blk", a, b] => match a.toNat?, b.toNat? with
    | some id, some h => ({ s with blocks := (id, h) :: s.blocks }, "ok")
    | _, _ => (s, "bad-op")
  | ["main", a, b] => match a.toNat?, b.toNat? with
    | some h, some id => ({ s with main := (h, id) :: s.main }, "ok")
    | _, _ => (s, "bad-op")
  | ["nobody", a] => match a.toNat? with
    | some id => ({ s with nobody := id :: s.nobody }, "ok")
    | none => (s, "bad-op")
  | "lh" :: rest => match nats rest with
    | some (skip :: maxNum :: stop :: loc) =>
      (s, showOut (locateHeaders (chainOf s.blocks s.main) loc stop skip maxNum))
    | _ => (s, "bad-op")
  | "lb" :: rest => match nats rest with
    | some (tmo :: stop :: loc) =>
      (s, showOut (locateBlocks (chainOf s.blocks s.main) (fun id => !s.nobody.contains id) loc stop tmo))
    | _ => (s, "bad-op")
  | "hh" :: rest => match nats rest with
    | some (skip :: stop :: loc) =>
      (s, showResp (handleGetHeaders (chainOf s.blocks s.main) loc stop skip))
    | _ => (s, "bad-op")
  | "hb" :: rest => match nats rest with
    | some (stop :: loc) =>
      (s, showResp (handleGetBlocks (chainOf s.blocks s.main) (fun id => !s.nobody.contains id) loc stop 1000000 1000000))
    | _ => (s, "bad-op")
  | [k, a, b] => match a.toNat?, b.toNat? with
    | some h, some id =>
      if k == "gb" || k == "gm" then
        (s, showResp ((handleGetBlock (chainOf s.blocks s.main) (fun id => !s.nobody.contains id) h id).map (fun x => [x])))
      else (s, "bad-op")
    | _, _ => (s, "bad-op")
  | _ => (s, "bad-op")

def run (_args : List String) : IO Unit := lineLoop ({} : St) step
end BytomModel.Drv.C33
