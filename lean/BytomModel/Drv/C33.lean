import BytomModel.Model.Sync
import BytomModel.Drv.Util
/- driver mode c33 (stateful):
     reset                      → ok
     blk <id> <height>          → ok     (a known block: GetHeaderByHash succeeds)
     main <height> <id>         → ok     (main-chain index entry; later lines overwrite)
     nobody <id>                → ok     (GetBlockByHash fails for this block)
     lh <skip> <maxNum> <stop> <locator ids…>      → `ok id:h …` | `ok -` | `err`
     lb <timeoutAfter> <stop> <locator ids…>       → same, for locateBlocks            -/
namespace BytomModel.Drv.C33
open BytomModel.Drv BytomModel.Model.Sync

structure St where
  blocks : List (Nat × Nat) := []
  main : List (Nat × Nat) := []
  nobody : List Nat := []

def showOut : Outcome Header → String
  | .err => "err"
  | .ok [] => "ok -"
  | .ok hs => "ok " ++ " ".intercalate (hs.map (fun h => s!"{h.id}:{h.height}"))

def nats (ws : List String) : Option (List Nat) := ws.mapM String.toNat?

def step (s : St) (line : String) : St × String :=
  match words line with
  | "reset" :: _ => ({}, "ok")
  | ["blk", a, b] => match a.toNat?, b.toNat? with
    | some id, some h => ({ s with blocks := (id, h) :: s.blocks }, "ok")
    | _, _ => (s, "bad-op")
  | ["main", a, b] => match a.toNat?, b.toNat? with
    | some h, some id => ({ s with main := (h, id) :: s.main }, "ok")
    | _, _ => (s, "bad-op")
  | ["nobody", a] => match a.toNat? with
    | some id => ({ s with nobody := id :: s.nobody }, "ok")
    | none => (s, "bad-op")
  | "lh" :: rest => match nats rest with
    | some (skip :: maxNum :: stop :: loc) =>
      (s, showOut (locateHeaders (chainOf s.blocks s.main) loc stop skip maxNum))
    | _ => (s, "bad-op")
  | "lb" :: rest => match nats rest with
    | some (tmo :: stop :: loc) =>
      (s, showOut (locateBlocks (chainOf s.blocks s.main) (fun id => !s.nobody.contains id) loc stop tmo))
    | _ => (s, "bad-op")
  | _ => (s, "bad-op")

def run (_args : List String) : IO Unit := lineLoop ({} : St) step
end BytomModel.Drv.C33
