import BytomModel.Model.Node
import BytomModel.Drv.Util
/-
driver mode `node`: op lines of the node-history engine
  reset E=<n> V=<n> local=<order|-> pend=<n>
  def b<k> parent=b<p> h=<height> slot=<n> rank=<n> [sup=<src>:<srcHeight>:<slot><v|x>,…;…]
  deliver b<k>
  vote v=<order> src=b<s> tgt=b<t> sig=<0|1>
answered by the canonical dump line of the model.
-/
namespace BytomModel.Drv.Node
open BytomModel.Drv BytomModel.Node

def kv (ws : List String) (key : String) : Option String :=
  ws.findSome? (fun w => if w.startsWith (key ++ "=") then some (w.drop (key.length + 1)).toString else none)

def parseId (s : String) : Option Nat :=
  if s.startsWith "b" then (s.drop 1).toString.toNat? else none

def name (id : Nat) : String := s!"b{id}"

def statusStr : Status → String
  | .growing => "G" | .unjustified => "U" | .justified => "J" | .finalized => "F"

def joinOr (l : List String) (sep : String) : String := if l.isEmpty then "-" else sep.intercalate l

def maxHeight (s : State) : Nat := s.defs.foldl (fun m h => max m h.height) 0

def inMain (s : State) (h : Header) : Bool :=
  let bestH := match s.header s.best with | some b => b.height | none => 0
  (s.header h.id).isSome && h.height ≤ bestH && alistGet s.index h.height == some h.id

partial def dumpTree (s : State) (depth : Nat) : Tree → List String
  | .node c cs =>
    let links := (c.sup.mergeSort (fun a b => a.src ≤ b.src)).map (fun l =>
      "[" ++ name l.src ++ String.join ((l.sigs.map (·.slot)).mergeSort (· ≤ ·) |>.map (fun n => s!".{n}")) ++ "]")
    let me := s!"{depth}:{name c.hash}@{c.height}{statusStr c.status}" ++ String.join links
    let sorted := cs.mergeSort (fun a b => s.rankOf a.ckpt.hash ≤ s.rankOf b.ckpt.hash)
    me :: (sorted.map (dumpTree s (depth + 1))).flatten

def dump (s : State) (res : String) : String :=
  let defsOrdered := s.defs.reverse
  let stored := defsOrdered.filter (fun h => (s.header h.id).isSome) |>.map (fun h => name h.id)
  let main := (List.range (maxHeight s + 1)).map (fun h => match alistGet s.index h with
    | some id => name id | none => "-")
  let inmain := defsOrdered.filter (inMain s) |>.map (fun h => name h.id)
  let orph := ((s.orphans.map (·.id)).mergeSort (· ≤ ·)).map name
  let wait := (s.prevOrphans.mergeSort (fun a b => a.1 ≤ b.1)).map (fun (p, l) => name p ++ ":" ++ "/".intercalate (l.map name))
  let fin := name s.tree.ckpt.hash
  let just := match s.tree.lastJustified with | some c => name c.hash | none => "?"
  s!"res={res} stored={joinOr stored ","} best={name s.best} main={",".intercalate main} inmain={joinOr inmain ","} " ++
  s!"orph={joinOr orph ","} wait={joinOr wait ","} fin={fin} just={just} tree={";".intercalate (dumpTree s 0 s.tree)}"

def parseSup (str : String) : List SupLink :=
  (str.splitOn ";").foldl (fun acc part =>
    match part.splitOn ":" with
    | [src, h, sigs] =>
      match parseId src, h.toNat? with
      | some sid, some sh =>
        (sigs.splitOn ",").foldl (fun acc2 x =>
          match (x.dropEnd 1).toString.toNat? with
          | some n => addSupLinkH acc2 sid sh { slot := n, valid := x.endsWith "v" }
          | none => acc2) acc
      | _, _ => acc
    | _ => acc) []

def step (st : Option State) (line : String) : Option State × String :=
  let ws := words line
  match ws with
  | "reset" :: rest =>
    match (kv rest "E").bind String.toNat?, (kv rest "V").bind String.toNat? with
    | some e, some v =>
      let me := (kv rest "local").bind String.toNat?
      let g : Header := { id := 0, parent := 4294967295, height := 0, slot := 0, rank := 0, sup := [] }
      let s := State.init { epoch := e, nVal := v, me := me } g
      (some s, dump s "ok")
    | _, _ => (st, "bad-op")
  | "def" :: idS :: rest =>
    match st, parseId idS, (kv rest "parent").bind parseId, (kv rest "h").bind String.toNat?,
          (kv rest "slot").bind String.toNat?, (kv rest "rank").bind String.toNat? with
    | some s, some id, some p, some h, some sl, some rk =>
      let sup := match kv rest "sup" with | some x => parseSup x | none => []
      let hd : Header := { id := id, parent := p, height := h, slot := sl, rank := rk, sup := sup }
      (some { s with defs := hd :: s.defs }, "ok")
    | _, _, _, _, _, _ => (st, "bad-op")
  | "deliver" :: idS :: rest =>
    match st, parseId idS with
    | some s, some id =>
      match lookupHeader s.defs id with
      | some b0 =>
        let b := match kv rest "sup" with | some x => { b0 with sup := parseSup x } | none => b0
        let (s', r) := s.processBlock b
        (some s', dump s' r.str)
      | none => (st, "bad-op")
    | _, _ => (st, "bad-op")
  | ["restart"] =>
    match st with
    | some s =>
      match s.restart with
      | some s' => (some s', dump s' "ok")
      | none => (st, "res=err")
    | none => (st, "bad-op")
  | "vote" :: rest =>
    match st, (kv rest "v").bind String.toNat?, (kv rest "src").bind parseId, (kv rest "tgt").bind parseId, kv rest "sig" with
    | some s, some v, some src, some tgt, some sg =>
      let (s', r) := s.authVerification v src tgt (sg == "1")
      (some s', dump s' r.str)
    | _, _, _, _, _ => (st, "bad-op")
  | _ => (st, "bad-op")

def run (_args : List String) : IO Unit := lineLoop (none : Option State) step
end BytomModel.Drv.Node
