/- Line-protocol plumbing shared by all driver modes (core Lean only). -/
namespace BytomModel.Drv

/-- Feed every stdin line (without its newline) through a pure state machine and print
    one output line per input line. -/
partial def lineLoop {σ : Type} (init : σ) (step : σ → String → σ × String) : IO Unit := do
  let stdin ← IO.getStdin
  let stdout ← IO.getStdout
  let rec go (s : σ) : IO Unit := do
    let line ← stdin.getLine
    if line.isEmpty then return ()
    let l := (line.dropEndWhile (fun c => c == '\n' || c == '\r')).toString
    let (s', out) := step s l
    stdout.putStrLn out
    go s'
  go init
  stdout.flush

def words (s : String) : List String := (s.splitOn " ").filter (· ≠ "")

def hexDigit (c : Char) : Option Nat :=
  if '0' ≤ c ∧ c ≤ '9' then some (c.toNat - '0'.toNat)
  else if 'a' ≤ c ∧ c ≤ 'f' then some (c.toNat - 'a'.toNat + 10)
  else if 'A' ≤ c ∧ c ≤ 'F' then some (c.toNat - 'A'.toNat + 10)
  else none

/-- "-" is the empty byte string; otherwise lowercase/uppercase hex. -/
def parseHex (s : String) : Option (List UInt8) :=
  if s == "-" then some [] else
  let rec go : List Char → Option (List UInt8)
    | [] => some []
    | [_] => none
    | a :: b :: rest => do
      let x ← hexDigit a
      let y ← hexDigit b
      let r ← go rest
      pure (UInt8.ofNat (x * 16 + y) :: r)
  go s.toList

def hexChar (n : Nat) : Char := if n < 10 then Char.ofNat (48 + n) else Char.ofNat (87 + n)

def toHex (bs : List UInt8) : String :=
  if bs.isEmpty then "-" else
  String.ofList (bs.foldr (fun b acc => hexChar (b.toNat / 16) :: hexChar (b.toNat % 16) :: acc) [])

end BytomModel.Drv
