import BytomModel.Model.NodePool
import BytomModel.Drv.NodeLedger
/-
driver mode `nodepool`: the nodeledger protocol plus
  submit <tx>      → dump line with res=pooled|orphan|err
  propose ts=<n>   → included=<tx,…|-> pool=… txorph=… ev=…
and every dump line extended by `pool=… txorph=… ev=…`.
-/
namespace BytomModel.Drv.NodePool
open BytomModel.Drv BytomModel.Node BytomModel.Ledger BytomModel.NodeLedger BytomModel.NodePool
open BytomModel.Drv.Node (kv parseId parseSup joinOr)
open BytomModel.Drv.NodeLedger (parseTx parseTxs)

structure DState where
  s : NodePool.State
  prevPool : List Nat      -- pool ids at the last dump (for the notification diff)

def poolIds (s : NodePool.State) : List Nat := s.pool.pool.map (·.1)

def dumpPool (d : DState) : String × DState :=
  let ids := (poolIds d.s).mergeSort (· ≤ ·)
  let orph := (d.s.pool.orphans.map (·.1)).mergeSort (· ≤ ·)
  let adds := (ids.filter (fun i => !d.prevPool.contains i)).map (fun i => s!"+t{i}")
  let rems := (d.prevPool.filter (fun i => !ids.contains i)).map (fun i => s!"-t{i}")
  let evs := (adds ++ rems).mergeSort (fun a b => a ≤ b)
  (s!"pool={joinOr (ids.map (fun i => s!"t{i}")) ","} txorph={joinOr (orph.map (fun i => s!"t{i}")) ","} ev={joinOr evs ","}",
   { d with prevPool := ids })

def dump (d : DState) (res : String) : String × DState :=
  let (p, d') := dumpPool d
  (NodeLedger.dump d.s.base res ++ " " ++ p, d')

def step (st : Option DState) (line : String) : Option DState × String :=
  let ws := words line
  match ws with
  | "reset" :: _ =>
    match (NodeLedger.step none line).1 with
    | some b =>
      let d : DState := { s := { base := b, pool := TxPool.Pool.empty, txdefs := [], now := 0 }, prevPool := [] }
      let (o, d') := dump d "ok"
      (some d', o)
    | none => (st, "bad-op")
  | "def" :: _ =>
    match st with
    | some d =>
      match NodeLedger.step (some d.s.base) line with
      | (some b, out) =>
        let idS := ws.getD 1 ""
        let newTxs := match parseId idS with | some id => b.txsOf id | none => []
        let txdefs := newTxs.foldl (fun acc t => if acc.any (fun x => x.id == t.id) then acc else acc ++ [t]) d.s.txdefs
        (some { d with s := { d.s with base := b, txdefs := txdefs } }, out)
      | (none, out) => (st, out)
    | none => (st, "bad-op")
  | "deliver" :: idS :: rest =>
    match st, parseId idS with
    | some d, some id =>
      match lookupHeader d.s.base.node.defs id with
      | some b0 =>
        let b := match kv rest "sup" with | some x => { b0 with sup := parseSup x } | none => b0
        let (s', r) := d.s.processBlock b
        let (o, d') := dump { d with s := s' } r.str
        (some d', o)
      | none => (st, "bad-op")
    | _, _ => (st, "bad-op")
  | "vote" :: rest =>
    match st, (kv rest "v").bind String.toNat?, (kv rest "src").bind parseId, (kv rest "tgt").bind parseId, kv rest "sig" with
    | some d, some v, some src, some tgt, some sg =>
      let (s', r) := d.s.authVerification v src tgt (sg == "1")
      let (o, d') := dump { d with s := s' } r.str
      (some d', o)
    | _, _, _, _, _ => (st, "bad-op")
  | ["submit", txS] =>
    match st, parseTx txS with
    | some d, some t =>
      let (s', r) := d.s.submit t
      let rs := match r with | .pooled => "pooled" | .orphan => "orphan" | .err => "err"
      let (o, d') := dump { d with s := s' } rs
      (some d', o)
    | _, _ => (st, "bad-op")
  | "propose" :: _ =>
    match st with
    | some d =>
      let (inc, s') := d.s.propose
      let (p, d') := dumpPool { d with s := s' }
      (some d', s!"included={joinOr (inc.map (fun i => s!"t{i}")) ","} " ++ p)
    | none => (st, "bad-op")
  | _ => (st, "bad-op")

def run (_args : List String) : IO Unit := lineLoop (none : Option DState) step
end BytomModel.Drv.NodePool
