/-
Ties (T1) for C15. The model of state/checkpoint.go is hand-written; these theorems pin the
exact (whitespace-normalised) source text of every function it mirrors, regenerated from the
Go source on each run (Gen/EconFacts.lean). An edit of the comparator of AllValidators, of the
slot arithmetic, of applyVotes, … makes this file fail to build: the model must then be re-read
against the new code (and re-pinned with notes/mkties_econ.py). MaxNumOfValidators and the
net parameters are not constants of the model: the harness passes the live values of
consensus.MaxNumOfValidators / ActiveNetParams with every case.
-/
import BytomModel.Gen.EconFacts

namespace BytomModel.Ties.C15
open BytomModel.Gen

theorem maxNumOfValidators_is_ten : EconFacts.MaxNumOfValidators = 10 := by decide

theorem pinned_allValidatorsText : EconFacts.allValidatorsText =
  "{ if c.Status == Growing { return nil } var validators []*Validator for pubKey, voteNum := range c.Votes { if voteNum >= consensus.ActiveNetParams.MinValidatorVoteNum { validators = append(validators, &Validator{ PubKey: pubKey, VoteNum: c.Votes[pubKey], }) } } sort.Slice(validators, func(i, j int) bool { numI, numJ := validators[i].VoteNum, validators[j].VoteNum if numI != numJ { return numI > numJ } return validators[i].PubKey > validators[j].PubKey }) return validators }" := by rfl

theorem pinned_effectiveValidatorsText : EconFacts.effectiveValidatorsText =
  "{ validators := c.AllValidators() if len(validators) == 0 { return federationValidators() } result := make(map[string]*Validator) for i := 0; i < len(validators) && i < consensus.MaxNumOfValidators; i++ { validator := validators[i] validator.Order = i result[validator.PubKey] = validator } return result }" := by rfl

theorem pinned_getValidatorText : EconFacts.getValidatorText =
  "{ validators := c.EffectiveValidators() startTimestamp := c.Timestamp + consensus.ActiveNetParams.BlockTimeInterval order := getValidatorOrder(startTimestamp, timeStamp, uint64(len(validators))) for _, validator := range validators { if validator.Order == int(order) { return validator } } return nil }" := by rfl

theorem pinned_getValidatorOrderText : EconFacts.getValidatorOrderText =
  "{ roundBlockTime := numOfValidators * consensus.ActiveNetParams.BlockTimeInterval lastRoundStartTime := startTimestamp + (blockTimestamp-startTimestamp)/roundBlockTime*roundBlockTime return (blockTimestamp - lastRoundStartTime) / consensus.ActiveNetParams.BlockTimeInterval }" := by rfl

theorem pinned_applyVotesText : EconFacts.applyVotesText =
  "{ for _, tx := range block.Transactions { for _, input := range tx.Inputs { if vetoInput, ok := input.TypedInput.(*types.VetoInput); ok { pubKey := hex.EncodeToString(vetoInput.Vote) if c.Votes[pubKey] > vetoInput.Amount { c.Votes[pubKey] -= vetoInput.Amount } else { delete(c.Votes, pubKey) } } } for _, output := range tx.Outputs { if voteOutput, ok := output.TypedOutput.(*types.VoteOutput); ok { c.Votes[hex.EncodeToString(voteOutput.Vote)] += output.Amount } } } }" := by rfl

theorem pinned_newCheckpointText : EconFacts.newCheckpointText =
  "{ checkpoint := &Checkpoint{ Height: parent.Height, Hash: parent.Hash, Timestamp: parent.Timestamp, ParentHash: parent.Hash, Parent: parent, Status: Growing, Rewards: make(map[string]uint64), Votes: make(map[string]uint64), } for pubKey, num := range parent.Votes { if num != 0 { checkpoint.Votes[pubKey] = num } } return checkpoint }" := by rfl

end BytomModel.Ties.C15
