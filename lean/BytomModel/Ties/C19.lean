/-
C19 tie T1: the call orders and record-kind orders the write-log model (`Model/WriteLog.lean`)
is computed from are exactly the ones regenerated from the Go source on this run
(`Gen/StoreWrites.lean`, extractor gen/storewrites.go).  If a write is added, removed or moved in
`Chain.saveBlock`, `Casper.ApplyBlock`/`saveCheckpoints`, `Casper.AuthVerification`/
`authVerification`/`saveVerificationToHeader`, `Chain.setState`, `Chain.initChainStatus`, or in
`Store.SaveBlock`/`SaveBlockHeader`/`SaveChainStatus`/`SaveCheckpoints`, one of these breaks.
-/
import BytomModel.Model.WriteLog
import BytomModel.Gen.StoreWrites

namespace BytomModel.Ties.C19
open BytomModel.WriteLog BytomModel.Gen

theorem saveBlock_calls : lookupCalls "saveBlock" = some StoreWrites.Chain_saveBlock := by decide
theorem ApplyBlock_calls : lookupCalls "ApplyBlock" = some StoreWrites.Casper_ApplyBlock := by decide
theorem saveCheckpoints_calls : lookupCalls "saveCheckpoints" = some StoreWrites.Casper_saveCheckpoints := by decide
theorem AuthVerification_calls : lookupCalls "AuthVerification" = some StoreWrites.Casper_AuthVerification := by decide
theorem authVerification_calls : lookupCalls "authVerification" = some StoreWrites.Casper_authVerification := by decide
theorem saveVerificationToHeader_calls :
    lookupCalls "saveVerificationToHeader" = some StoreWrites.Casper_saveVerificationToHeader := by decide
theorem setState_calls : lookupCalls "setState" = some StoreWrites.Chain_setState := by decide
theorem initChainStatus_calls : lookupCalls "initChainStatus" = some StoreWrites.Chain_initChainStatus := by decide

theorem SaveBlock_kinds : saveBlockKinds = StoreWrites.Store_SaveBlock := by decide
theorem SaveBlockHeader_kinds : saveBlockHeaderKinds = StoreWrites.Store_SaveBlockHeader := by decide
theorem SaveChainStatus_kinds : saveChainStatusKinds = StoreWrites.Store_SaveChainStatus := by decide
theorem SaveCheckpoints_kinds : saveCheckpointsKinds = StoreWrites.Store_SaveCheckpoints := by decide

/-- the batch order of the model's entry points, computed from the tied tables -/
theorem saveBlock_batches : storeCalls "saveBlock" = [.saveCheckpoints, .saveBlock] := by decide
theorem AuthVerification_batches :
    storeCalls "AuthVerification" = [.saveCheckpoints, .saveBlockHeader, .saveChainStatus] := by decide
theorem reorganize_batches : storeCalls "reorganize" = [.saveChainStatus] := by decide
theorem initChainStatus_batches : storeCalls "initChainStatus" = [.saveBlock, .saveCheckpoints, .saveChainStatus] := by decide

end BytomModel.Ties.C19
