/- T1 ties for C27: the change output of spendAction.Build and TxData.Fee. -/
import BytomModel.Model.Builder
import BytomModel.Gen.WalletFacts
namespace BytomModel.Ties.C27
open BytomModel.Gen.WalletFacts

/-- change = (asset of the action, res.change, program of the FIRST reserved output) (model: `buildAction`) -/
theorem change_output_tie : spendChangeOutputArgs = ["*a.AssetId", "res.change", "res.utxos[0].ControlProgram", "nil"] := by decide

/-- Fee sums BTM inputs and outputs and returns the positive difference (model: `fee`) -/
theorem fee_tie : feeConditions =
    ["input.AssetID() == *consensus.BTMAssetID", "*output.AssetId == *consensus.BTMAssetID", "inputBTM > outputBTM"] := by decide


/-- both materialize methods collect signatures with the loop "slot by slot, skip empty slots,
    stop after Quorum non-empty ones" and call nothing but len/append (+ the length prefix of
    SignatureWitness) — model: `materializeSigs` -/
theorem materialize_loop_tie :
    rawTxSigWitnessMaterialize =
      ["for i := 0; i < len(sw.Sigs) && nsigs < sw.Quorum; i++", "call len", "i++",
       "if len(sw.Sigs[i]) > 0", "call len", "call append", "nsigs++"] ∧
    sigWitnessMaterialize =
      ["call append", "call vm.Uint64Bytes", "call uint64", "call len",
       "for i := 0; i < len(sw.Sigs) && nsigs < sw.Quorum; i++", "call len", "i++",
       "if len(sw.Sigs[i]) > 0", "call len", "call append", "nsigs++", "call append"] := by decide


/-- the witnesses' JSON carries the WHOLE `Sigs` array, empty slots included (slot i = key i) -/
theorem witness_json_sigs_tie : sigWitnessMarshalSigs = "sw.Sigs" ∧ rawTxSigWitnessMarshalSigs = "sw.Sigs" := by decide

end BytomModel.Ties.C27
