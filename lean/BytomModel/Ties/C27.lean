/- T1 ties for C27: the change output of spendAction.Build and TxData.Fee. -/
import BytomModel.Model.Builder
import BytomModel.Gen.WalletFacts
namespace BytomModel.Ties.C27
open BytomModel.Gen.WalletFacts

/-- change = (asset of the action, res.change, program of the FIRST reserved output) (model: `buildAction`) -/
theorem change_output_tie : spendChangeOutputArgs = ["*a.AssetId", "res.change", "res.utxos[0].ControlProgram", "nil"] := by decide

/-- Fee sums BTM inputs and outputs and returns the positive difference (model: `fee`) -/
theorem fee_tie : feeConditions =
    ["input.AssetID() == *consensus.BTMAssetID", "*output.AssetId == *consensus.BTMAssetID", "inputBTM > outputBTM"] := by decide

end BytomModel.Ties.C27
