/-
Ties for C02. The theorems of Props/C02 are about programs written with LITERAL opcode bytes
(`p2pkhCode`, `p2shCode`, `msCode`, `numPush`). Here they are tied to the source:

* `opcodes_tie` — every opcode byte the proofs use is the value `Gen/Ops.lean` extracted from
  protocol/vm/ops.go in this run;
* `p2pkhCode_tie`, `p2shCode_tie`, `msCode_tie` — for ALL hashes / key lists / quorums the literal
  programs equal the Lean builders of Model/StdProgs.lean, which `Ties/StdProgs.lean` (re-checked
  here: it is imported) ties byte-for-byte to the outputs of the REAL vmutil / segwit builders
  regenerated on every run;
* `convert_p2wpkh_tie`, `convert_p2wsh_tie` — `validation.convertProgram` (Model/Spend) maps the
  P2WPKH / P2WSH control program of a hash to exactly these programs (uses C09's
  `convert_p2wpkh`, `convert_p2wsh`, `p2w*_recognised`);
* `sample_*` — the literal programs on the fixed inputs of gen/stdprogs.go equal the REAL
  builders' outputs directly.
-/
import BytomModel.Model.Spend
import BytomModel.Lemmas.SpendMultisig
import BytomModel.Lemmas.SpendP2PKH
import BytomModel.Ties.StdProgs
import BytomModel.Props.C09

namespace BytomModel.Ties.C02
open BytomModel.Lemmas.SpendExec BytomModel.Gen

/-- the opcode bytes used by the C02 proofs are the ones of protocol/vm/ops.go -/
theorem opcodes_tie :
    (Ops.OP_DUP, Ops.OP_HASH160, Ops.OP_SHA3, Ops.OP_EQUALVERIFY, Ops.OP_TXSIGHASH, Ops.OP_SWAP, Ops.OP_CHECKSIG,
      Ops.OP_CHECKMULTISIG, Ops.OP_CHECKPREDICATE, Ops.OP_0, Ops.OP_1, Ops.OP_DATA_1) =
    (0x76, 0xab, 0xaa, 0x88, 0xae, 0x7c, 0xac, 0xad, 0xc0, 0x00, 0x51, 0x01) := rfl

/-- a direct push of 1 … 75 bytes as the builder encodes it -/
theorem pushDataBytes_direct (d : List UInt8) (h1 : 1 ≤ d.length) (h2 : d.length ≤ 75) :
    Asm.pushDataBytes d = UInt8.ofNat d.length :: d := by
  unfold Asm.pushDataBytes
  have a : ¬ d.length = 0 := by omega
  simp only [a, if_false, h2, if_true, Asm.byte, Asm.u8, Ops.OP_DATA_1]
  congr 2
  omega

theorem leBytes_eq (f v : Nat) : Asm.leBytes f v = VM.natToLEF f v := by
  induction f generalizing v with
  | zero => rfl
  | succ f ih => simp only [Asm.leBytes, VM.natToLEF, ih, Asm.byte]

theorem bigIntBytes_eq (v : Nat) (hv : v < VM.two256) : Asm.bigIntBytes v = VM.bigIntBytes v := by
  unfold Asm.bigIntBytes VM.bigIntBytes
  rw [leBytes_eq, Nat.mod_eq_of_lt hv]

/-- `vm.PushDataUint64` as modelled by the builder's model = the literal `numPush` -/
theorem numPush_tie (N : Nat) (hN : N < VM.two256) : Asm.pushDataUint64 N = numPush N := by
  unfold Asm.pushDataUint64 numPush
  by_cases h0 : N = 0
  · simp [h0, Asm.byte, Ops.OP_0]
  · by_cases h16 : N ≤ 16
    · have : 1 ≤ N ∧ N ≤ 16 := by omega
      simp only [h0, if_false, this, and_self, if_true, h16, Asm.byte, Asm.u8, Ops.OP_1]
      congr 2
      omega
    · have : ¬ (1 ≤ N ∧ N ≤ 16) := by omega
      rw [if_neg h0, if_neg this, if_neg h0, if_neg h16]
      rw [bigIntBytes_eq N hN]
      exact pushDataBytes_direct _ (bigIntBytes_ne_nil N h0 hN) (by have := VM.bigIntBytes_length_le N; omega)

theorem p2pkhCode_tie (h : List UInt8) (hh : h.length = 20) : StdProgs.p2pkhSigProgram h = p2pkhCode h := by
  unfold StdProgs.p2pkhSigProgram p2pkhCode
  rw [pushDataBytes_direct h (by omega) (by omega), hh]
  rfl

theorem p2shCode_tie (h : List UInt8) (hh : h.length = 32) : StdProgs.p2shProgram h = p2shCode h := by
  unfold StdProgs.p2shProgram p2shCode
  rw [pushDataBytes_direct h (by omega) (by omega), hh]
  simp [StdProgs.op, Asm.byte, Asm.pushDataUint64, Ops.OP_DUP, Ops.OP_SHA3, Ops.OP_EQUALVERIFY, Ops.OP_SWAP,
    Ops.OP_CHECKPREDICATE, Ops.OP_0]

theorem keyPushes_tie (keys : List (List UInt8)) (hk : ∀ k ∈ keys, k.length = 32) :
    (keys.map Asm.pushDataBytes).flatten = keyPushes keys := by
  induction keys with
  | nil => rfl
  | cons k ks ih =>
    have h1 := hk k (by simp)
    simp only [List.map_cons, List.flatten_cons, keyPushes, ih (fun x hx => hk x (by simp [hx]))]
    rw [pushDataBytes_direct k (by omega) (by omega), h1]
    rfl

/-- `vmutil.P2SPMultiSigProgram(keys, m)` (Lean builder, tied to the real one) is `msCode keys m` -/
theorem msCode_tie (keys : List (List UInt8)) (m : Nat) (hk : ∀ k ∈ keys, k.length = 32) (hn : keys.length < VM.two256)
    (hm : m < VM.two256) (hmn : m ≤ keys.length) (hm0 : 0 < keys.length → 0 < m) :
    StdProgs.p2spMultiSigProgram keys (m : Int) = .ok (msCode keys m) := by
  unfold StdProgs.p2spMultiSigProgram StdProgs.addP2SPMultiSig StdProgs.checkMultiSigParams
  have a1 : ¬ (m : Int) < 0 := by omega
  have a2 : ¬ (keys.length : Int) < 0 := by omega
  have hc : Int.ofNat keys.length = (keys.length : Int) := rfl
  have a3 : ¬ (m : Int) > Int.ofNat keys.length := by rw [hc]; omega
  have a4 : ¬ ((m : Int) = 0 ∧ Int.ofNat keys.length > 0) := by rw [hc]; omega
  simp only [a1, a2, a3, a4, if_false, Bool.not_true, Bool.false_eq_true, Int.toNat_natCast, List.nil_append]
  rw [keyPushes_tie keys hk, numPush_tie m hm, numPush_tie keys.length hn]
  rfl

/-- `validation.convertProgram` on the P2WPKH control program of a 20-byte hash -/
theorem convert_p2wpkh_tie (conv : List UInt8 → Option (List UInt8)) (h : List UInt8) (hh : h.length = 20) :
    Spend.convertProgram conv (Asm.p2wpkhProgram h) = some (p2pkhCode h) := by
  have hrec := (Props.C09.p2wpkh_recognised h (by unfold Asm.maxInt32; omega)).mpr hh
  have hlen : (Asm.p2wpkhProgram h).length < 4294967296 := by
    simp [Asm.p2wpkhProgram, Asm.pushDataUint64, pushDataBytes_direct h (by omega) (by omega), hh]
  obtain ⟨hash, hl, hpe, hconv⟩ := Props.C09.convert_p2wpkh _ hlen hrec
  have hhash : hash = h := by
    have e := hpe
    simp only [Asm.p2wpkhProgram, pushDataBytes_direct h (by omega) (by omega),
      pushDataBytes_direct hash (by omega) (by omega), hh, hl] at e
    have := List.append_cancel_left e
    simpa using this.symm
  unfold Spend.convertProgram
  simp only [hrec, if_true, hconv, hhash, p2pkhCode_tie h hh]

/-- `validation.convertProgram` on the P2WSH control program of a 32-byte hash -/
theorem convert_p2wsh_tie (conv : List UInt8 → Option (List UInt8)) (h : List UInt8) (hh : h.length = 32) :
    Spend.convertProgram conv (Asm.p2wshProgram h) = some (p2shCode h) := by
  have hrec := (Props.C09.p2wsh_recognised h (by unfold Asm.maxInt32; omega)).mpr hh
  have hnot : Asm.isP2WPKHScript (Asm.p2wshProgram h) = false := by
    cases hx : Asm.isP2WPKHScript (Asm.p2wshProgram h) with
    | false => rfl
    | true =>
      have := ((Props.C09.recognisers_exclusive (Asm.p2wshProgram h)).1 hx).1
      rw [hrec] at this
      cases this
  have hlen : (Asm.p2wshProgram h).length < 4294967296 := by
    simp [Asm.p2wshProgram, Asm.pushDataUint64, pushDataBytes_direct h (by omega) (by omega), hh]
  obtain ⟨hash, hl, hpe, hconv⟩ := Props.C09.convert_p2wsh _ hlen hrec
  have hhash : hash = h := by
    have e := hpe
    simp only [Asm.p2wshProgram, pushDataBytes_direct h (by omega) (by omega),
      pushDataBytes_direct hash (by omega) (by omega), hh, hl] at e
    have := List.append_cancel_left e
    simpa using this.symm
  unfold Spend.convertProgram
  simp only [hnot, Bool.false_eq_true, if_false, hrec, if_true, hconv, hhash, p2shCode_tie h hh]

/-- the literal programs against the REAL builders' regenerated outputs, on the generator's samples -/
theorem sample_p2pkh :
    (StdProgs.p2pkhsig.filter (fun c => c.1.length == 20)).all (fun c => some (p2pkhCode c.1) == c.2) = true := by
  decide +kernel
theorem sample_p2sh :
    (StdProgs.p2sh.filter (fun c => c.1.length == 32)).all (fun c => some (p2shCode c.1) == c.2) = true := by
  decide +kernel

end BytomModel.Ties.C02
