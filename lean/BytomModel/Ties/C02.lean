import BytomModel.Model.Spend
namespace BytomModel.Ties.C02
theorem placeholder : True := trivial
end BytomModel.Ties.C02
