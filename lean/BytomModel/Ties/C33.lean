/-
Ties for C33: the facts the hand-written model `Model/Sync.lean` was written against
(`Model.Sync.Src`) equal the facts regenerated from the Go source on this run
(`Gen/SyncFacts.lean`): literal constants, the go/printer text of the modelled expressions and
conditions, the call lists, and the SHA-256 of every modelled function's comment-free text.
An edit of the modelled source makes the corresponding theorem fail.
-/
import BytomModel.Model.Sync
import BytomModel.Gen.SyncFacts

namespace BytomModel.Ties.C33
open BytomModel.Model

theorem tie_maxNumOfBlocksPerMsg : Sync.Src.maxNumOfBlocksPerMsg = Gen.SyncFacts.maxNumOfBlocksPerMsg := by decide
theorem tie_maxNumOfHeadersPerMsg : Sync.Src.maxNumOfHeadersPerMsg = Gen.SyncFacts.maxNumOfHeadersPerMsg := by decide
theorem tie_locateHeadersSig : Sync.Src.locateHeadersSig = Gen.SyncFacts.locateHeadersSig := by decide
theorem tie_loopInit : Sync.Src.loopInit = Gen.SyncFacts.loopInit := by decide
theorem tie_loopCond : Sync.Src.loopCond = Gen.SyncFacts.loopCond := by decide
theorem tie_loopPost : Sync.Src.loopPost = Gen.SyncFacts.loopPost := by decide
theorem tie_loopUpdate : Sync.Src.loopUpdate = Gen.SyncFacts.loopUpdate := by decide
theorem tie_loopStopTest : Sync.Src.loopStopTest = Gen.SyncFacts.loopStopTest := by decide
theorem tie_locateHeadersIfs : Sync.Src.locateHeadersIfs = Gen.SyncFacts.locateHeadersIfs := by decide
theorem tie_locateHeadersSha : Sync.Src.locateHeadersSha = Gen.SyncFacts.locateHeadersSha := by decide
theorem tie_locateBlocksCall : Sync.Src.locateBlocksCall = Gen.SyncFacts.locateBlocksCall := by decide
theorem tie_locateBlocksSha : Sync.Src.locateBlocksSha = Gen.SyncFacts.locateBlocksSha := by decide
theorem tie_handlerCalls : Sync.Src.handlerCalls = Gen.SyncFacts.handlerCalls := by decide

theorem tie_handleGetBlocksMsgIfs : Sync.Src.handleGetBlocksMsgIfs = Gen.SyncFacts.handleGetBlocksMsgIfs := by decide
theorem tie_handleGetBlocksMsgIndexing : Sync.Src.handleGetBlocksMsgIndexing = Gen.SyncFacts.handleGetBlocksMsgIndexing := by decide
theorem tie_handleGetBlocksMsgSha : Sync.Src.handleGetBlocksMsgSha = Gen.SyncFacts.handleGetBlocksMsgSha := by decide
theorem tie_handleGetHeadersMsgIfs : Sync.Src.handleGetHeadersMsgIfs = Gen.SyncFacts.handleGetHeadersMsgIfs := by decide
theorem tie_handleGetHeadersMsgIndexing : Sync.Src.handleGetHeadersMsgIndexing = Gen.SyncFacts.handleGetHeadersMsgIndexing := by decide
theorem tie_handleGetHeadersMsgSha : Sync.Src.handleGetHeadersMsgSha = Gen.SyncFacts.handleGetHeadersMsgSha := by decide
theorem tie_handleGetBlockMsgIfs : Sync.Src.handleGetBlockMsgIfs = Gen.SyncFacts.handleGetBlockMsgIfs := by decide
theorem tie_handleGetBlockMsgIndexing : Sync.Src.handleGetBlockMsgIndexing = Gen.SyncFacts.handleGetBlockMsgIndexing := by decide
theorem tie_handleGetBlockMsgSha : Sync.Src.handleGetBlockMsgSha = Gen.SyncFacts.handleGetBlockMsgSha := by decide
theorem tie_handleGetMerkleBlockMsgIfs : Sync.Src.handleGetMerkleBlockMsgIfs = Gen.SyncFacts.handleGetMerkleBlockMsgIfs := by decide
theorem tie_handleGetMerkleBlockMsgIndexing : Sync.Src.handleGetMerkleBlockMsgIndexing = Gen.SyncFacts.handleGetMerkleBlockMsgIndexing := by decide
theorem tie_handleGetMerkleBlockMsgSha : Sync.Src.handleGetMerkleBlockMsgSha = Gen.SyncFacts.handleGetMerkleBlockMsgSha := by decide

/-- the handlers never index or slice the located result (an empty result cannot panic) -/
theorem tie_handlers_do_not_index :
    Gen.SyncFacts.handleGetBlocksMsgIndexing = [] ∧ Gen.SyncFacts.handleGetHeadersMsgIndexing = [] ∧
    Gen.SyncFacts.handleGetBlockMsgIndexing = [] ∧ Gen.SyncFacts.handleGetMerkleBlockMsgIndexing = [] := by decide

/-- the model's own constants are the tied ones -/
theorem tie_model_maxima : Sync.maxNumOfBlocksPerMsg = Gen.SyncFacts.maxNumOfBlocksPerMsg ∧
    Sync.maxNumOfHeadersPerMsg = Gen.SyncFacts.maxNumOfHeadersPerMsg := by decide

end BytomModel.Ties.C33
