/-
Ties for C33: the facts the hand-written model `Model/Sync.lean` was written against
(`Model.Sync.Src`) equal the facts regenerated from the Go source on this run
(`Gen/SyncFacts.lean`): literal constants, the go/printer text of the modelled expressions and
conditions, the call lists, and the SHA-256 of every modelled function's comment-free text.
An edit of the modelled source makes the corresponding theorem fail.
-/
import BytomModel.Model.Sync
import BytomModel.Gen.SyncFacts

namespace BytomModel.Ties.C33
open BytomModel.Model

theorem tie_maxNumOfBlocksPerMsg : Sync.Src.maxNumOfBlocksPerMsg = Gen.SyncFacts.maxNumOfBlocksPerMsg := by decide
theorem tie_maxNumOfHeadersPerMsg : Sync.Src.maxNumOfHeadersPerMsg = Gen.SyncFacts.maxNumOfHeadersPerMsg := by decide
theorem tie_locateHeadersSig : Sync.Src.locateHeadersSig = Gen.SyncFacts.locateHeadersSig := by decide
theorem tie_loopInit : Sync.Src.loopInit = Gen.SyncFacts.loopInit := by decide
theorem tie_loopCond : Sync.Src.loopCond = Gen.SyncFacts.loopCond := by decide
theorem tie_loopPost : Sync.Src.loopPost = Gen.SyncFacts.loopPost := by decide
theorem tie_loopUpdate : Sync.Src.loopUpdate = Gen.SyncFacts.loopUpdate := by decide
theorem tie_loopStopTest : Sync.Src.loopStopTest = Gen.SyncFacts.loopStopTest := by decide
theorem tie_locateHeadersIfs : Sync.Src.locateHeadersIfs = Gen.SyncFacts.locateHeadersIfs := by decide
theorem tie_locateHeadersSha : Sync.Src.locateHeadersSha = Gen.SyncFacts.locateHeadersSha := by decide
theorem tie_locateBlocksCall : Sync.Src.locateBlocksCall = Gen.SyncFacts.locateBlocksCall := by decide
theorem tie_locateBlocksSha : Sync.Src.locateBlocksSha = Gen.SyncFacts.locateBlocksSha := by decide
theorem tie_handlerCalls : Sync.Src.handlerCalls = Gen.SyncFacts.handlerCalls := by decide

/-- the model's own constants are the tied ones -/
theorem tie_model_maxima : Sync.maxNumOfBlocksPerMsg = Gen.SyncFacts.maxNumOfBlocksPerMsg ∧
    Sync.maxNumOfHeadersPerMsg = Gen.SyncFacts.maxNumOfHeadersPerMsg := by decide

end BytomModel.Ties.C33
