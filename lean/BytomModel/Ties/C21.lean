/-
C21 ties (T1): facts the hand-written store model depends on, re-extracted from
database/store.go and database/store_checkpoint.go by gen/storefacts.go on every run.
-/
import BytomModel.Gen.CacheCalls
import BytomModel.Model.Store

namespace BytomModel.Ties.C21

/-- which cache invalidation the model performs after which DB write:
    `Store.saveBlock` → `cHashes.remove` then `cHdr.remove` (941b4124), `saveBlockHeader` → `cHdr.remove`,
    `saveChainStatus` → `cMain.remove` per header, `saveCheckpoints` → `cCkpt.remove` per key -/
def modelInvalidations : List (String × List String) := [
  ("SaveBlock", ["removeBlockHashes", "removeBlockHeader"]),
  ("SaveBlockHeader", ["removeBlockHeader"]),
  ("SaveChainStatus", ["removeMainChainHash"]),
  ("SaveCheckpoints", ["removeCheckPoint"])
]

/-- the set of writing `Store` methods and the invalidation calls in each are what the model mirrors -/
theorem invalidations_tie : modelInvalidations = BytomModel.Gen.CacheCalls.invalidations := by decide

/-- `getCheckpoint` leaves the cached object alone because the source no longer appends in place (fa651dae) -/
theorem getCheckpoint_append_tie : BytomModel.Gen.CacheCalls.getCheckpointAppendsInPlace = false := by decide

end BytomModel.Ties.C21
