/-
C22 ties (T1): the pointer semantics `Model.TxPool.requireParents` depends on, re-extracted from
go.mod and protocol/txpool.go by gen/storefacts.go on every run.
-/
import BytomModel.Gen.LoopVarAddr
import BytomModel.Model.TxPool

namespace BytomModel.Ties.C22
open BytomModel.Gen.LoopVarAddr

/-- the module is still compiled with per-LOOP range variables (go < 1.22), so a stored `&v` of a
    range variable WOULD alias -/
theorem go_directive_tie : goMajor = 1 ∧ goMinor < 22 := by decide

/-- … and since ec6e367b no address of a range variable is stored anywhere in txpool.go (the model's
    `requireParents = missing` depends on this); `ExpireOrphan` passes `&hash` to a call that does
    not keep it -/
theorem range_var_addr_tie :
    rangeVarAddrs.filter (fun f => f.2.2 == "stored") = [] ∧
    rangeVarAddrs = [("ExpireOrphan", "hash", "call-argument")] := by decide

end BytomModel.Ties.C22
