/-
C22 ties (T1): the pointer semantics `Model.TxPool.requireParents` depends on, re-extracted from
go.mod and protocol/txpool.go by gen/storefacts.go on every run.
-/
import BytomModel.Gen.LoopVarAddr
import BytomModel.Model.TxPool

namespace BytomModel.Ties.C22
open BytomModel.Gen.LoopVarAddr

/-- the module is compiled with per-LOOP range variables (go < 1.22) -/
theorem go_directive_tie : goMajor = 1 ∧ goMinor < 22 := by decide

/-- the only range-variable address that is STORED is `&hash` in `checkOrphanUtxos` (the alias the
    model mirrors); `ExpireOrphan` passes `&hash` to a call that does not keep it -/
theorem range_var_addr_tie :
    rangeVarAddrs.filter (fun f => f.2.2 == "stored") = [("checkOrphanUtxos", "hash", "stored")] ∧
    rangeVarAddrs.map (fun f => f.1) = ["ExpireOrphan", "checkOrphanUtxos", "checkOrphanUtxos"] := by decide

end BytomModel.Ties.C22
