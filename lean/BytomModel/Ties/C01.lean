/-
Ties (T1) for C01: the hand-written constants and the order of checks of M-TxVal against the
facts REGENERATED from the Go source on every run (Gen/EconFacts.lean, by gen/econ.go).
The `pinned_*` theorems pin the exact source text of the functions the model mirrors: any
edit of `setGas`, `TxData.Fee` or `mapCoinbaseInput` makes this file fail to build, i.e. the
model has to be re-read against the new code (then re-pin with notes/mkties_econ.py).
-/
import BytomModel.Model.TxValidate
import BytomModel.Gen.EconFacts

namespace BytomModel.Ties.C01
open BytomModel.Model.TxValidate BytomModel.Gen

theorem vmGasRate_tie : vmGasRate = (EconFacts.VMGasRate : Int) := by decide
theorem storageGasRate_tie : storageGasRate = (EconFacts.StorageGasRate : Int) := by decide
theorem maxGasAmount_tie : maxGasAmount = (EconFacts.MaxGasAmount : Int) := by decide
theorem minVoteOutputAmount_tie : minVoteOutputAmount = EconFacts.MinVoteOutputAmount := by decide
theorem coinbaseArbitrarySizeLimit_tie : coinbaseArbitrarySizeLimit = EconFacts.CoinbaseArbitrarySizeLimit := by decide

/-- order of the checks in `checkValid` `case *bc.Mux` the model's `checkMux` follows:
    sources (amount bound, checked add), destinations (missing source, amount bound, checked
    sub), parity loop (setGas on BTM / unbalanced), destinations' and sources' entries,
    storage gas -/
def modelMuxSites : List String :=
  ["ErrOverflow", "checked.AddInt64", "ErrOverflow", "ErrNoSource", "ErrOverflow", "checked.SubInt64", "ErrOverflow", "vs.gasStatus.setGas", "ErrUnbalanced", "checkValidDest", "checkValidSrc", "vs.gasStatus.chargeStorageGas"]

theorem muxSites_tie : EconFacts.muxSites = modelMuxSites := by decide

theorem pinned_setGasText : EconFacts.setGasText =
  "{ if BTMValue < 0 { return errors.Wrap(ErrGasCalculate, \"input BTM is negative\") } g.BTMValue = uint64(BTMValue) var ok bool if g.GasLeft, ok = checked.DivInt64(BTMValue, consensus.VMGasRate); !ok { return errors.Wrap(ErrGasCalculate, \"setGas calc gas amount\") } if g.GasLeft > consensus.MaxGasAmount { g.GasLeft = consensus.MaxGasAmount } if g.StorageGas, ok = checked.MulInt64(txSize, consensus.StorageGasRate); !ok { return errors.Wrap(ErrGasCalculate, \"setGas calc tx storage gas\") } return nil }" := by rfl

theorem pinned_feeText : EconFacts.feeText =
  "{ inputBTM, outputBTM := uint64(0), uint64(0) for _, input := range tx.Inputs { if input.AssetID() == *consensus.BTMAssetID { inputBTM += input.Amount() } } for _, output := range tx.Outputs { if *output.AssetId == *consensus.BTMAssetID { outputBTM += output.Amount } } if inputBTM > outputBTM { return inputBTM - outputBTM } return 0 }" := by rfl

theorem pinned_mapCoinbaseInputText : EconFacts.mapCoinbaseInputText =
  "{ mh.coinbase = bc.NewCoinbase(input.Arbitrary) mh.inputIDs[i] = mh.addEntry(mh.coinbase) var totalAmount uint64 for _, output := range mh.txData.Outputs { totalAmount += output.Amount } mh.muxSources[i] = &bc.ValueSource{ Ref: &mh.inputIDs[i], Value: &bc.AssetAmount{AssetId: consensus.BTMAssetID, Amount: totalAmount}, } }" := by rfl

end BytomModel.Ties.C01
