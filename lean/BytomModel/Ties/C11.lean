/-
C11 ties (T1): what the hand-written model `Model/Node.lean` assumes about the shape of
`treeNode.bestNode` (protocol/casper/tree_node.go) and of the main-chain index writes of
`Store.SaveChainStatus` (database/store.go), re-extracted from the Go source by
gen/forkchoice.go on every run (`Gen/ForkChoice.lean`).
-/
import BytomModel.Gen.ForkChoice
import BytomModel.Model.Node

namespace BytomModel.Ties.C11
open BytomModel.Node

/-- The model's three-way comparison IS the replace condition of the Go loop (translated
    operator by operator; `Hash.String()` comparisons through the rank). -/
theorem better_tie (candJ candH candR bestJ bestH bestR : Nat) :
    better candJ candH candR bestJ bestH bestR = BytomModel.Gen.ForkChoice.better candJ candH candR bestJ bestH bestR := rfl

/-- The statements around it are the ones `Tree.bestNode` / `Tree.bestList` mirror:
    a justified node resets the justified height to its own height; the accumulator starts as
    (the node itself, that height); the loop runs over the children in stored order, calls the
    search recursively with that height, and on the condition replaces the accumulator by the
    child's result; the accumulator is returned. -/
theorem bestNode_shape_tie :
    BytomModel.Gen.ForkChoice.justifiedIf = ("T.Status == state.Justified", "JH = T.Height") ∧
    BytomModel.Gen.ForkChoice.accInit = "ACC, ACCJ := T, JH" ∧
    BytomModel.Gen.ForkChoice.loopOver = "T.children" ∧
    BytomModel.Gen.ForkChoice.recursiveCall = "CHILD.REC(JH)" ∧
    BytomModel.Gen.ForkChoice.replaceStmt = "ACC, ACCJ = CAND, CANDJ" ∧
    BytomModel.Gen.ForkChoice.returnStmt = "return ACC, ACCJ" := by decide

/-- `SaveChainStatus` writes the height index exactly once per ATTACHED header (key: that
    header's height, value: that header's hash) and deletes nothing — which is what
    `tryReorganize`'s `att.foldl (fun ix h => alistSet ix h.height h.id)` mirrors, and why
    entries above a lower new best stay behind (see `inMain`). -/
theorem index_writes_tie :
    BytomModel.Gen.ForkChoice.indexWrites = ["ATTACHED | calcMainChainIndexPrefix(HDR.Height)"] ∧
    BytomModel.Gen.ForkChoice.indexValueFrom = "HDR.Hash()" ∧
    BytomModel.Gen.ForkChoice.batchDeletes = 0 := by decide

end BytomModel.Ties.C11
