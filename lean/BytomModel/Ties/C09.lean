/-
Ties for C09: facts the hand-written model (Model/Asm.lean) relies on, checked against the
tables REGENERATED from the Go source (Gen/Ops.lean) on every run.
-/
import BytomModel.Model.Asm

namespace BytomModel.Ties.C09
open BytomModel.Asm BytomModel.Gen

/-- the model's ParseOp branches (in order) as a class index per opcode byte -/
def modelBranch (o : Nat) : Nat :=
  if Ops.OP_1 ≤ o ∧ o ≤ Ops.OP_16 then 1
  else if Ops.OP_DATA_1 ≤ o ∧ o ≤ Ops.OP_DATA_75 then 2
  else if o = Ops.OP_PUSHDATA1 then 3
  else if o = Ops.OP_PUSHDATA2 then 4
  else if o = Ops.OP_PUSHDATA4 then 5
  else if o = Ops.OP_JUMP ∨ o = Ops.OP_JUMPIF then 6
  else 0

/-- ParseOp in the Go source branches on exactly the opcode classes the model branches on,
    in the same order -/
theorem parseBranch_tie : (List.range 256).map modelBranch = Ops.parseBranch := by decide +kernel

theorem parseBranchCount_tie : Ops.parseBranchCount = 6 := by decide

end BytomModel.Ties.C09
