/-
Ties for C09: facts the hand-written model (Model/Asm.lean) relies on, checked against the
tables REGENERATED from the Go source (Gen/Ops.lean) on every run.
-/
import BytomModel.Model.Asm

namespace BytomModel.Ties.C09
open BytomModel.Asm BytomModel.Gen

/-- the model's ParseOp branches (in order) as a class index per opcode byte -/
def modelBranch (o : Nat) : Nat :=
  if Ops.OP_1 ≤ o ∧ o ≤ Ops.OP_16 then 1
  else if Ops.OP_DATA_1 ≤ o ∧ o ≤ Ops.OP_DATA_75 then 2
  else if o = Ops.OP_PUSHDATA1 then 3
  else if o = Ops.OP_PUSHDATA2 then 4
  else if o = Ops.OP_PUSHDATA4 then 5
  else if o = Ops.OP_JUMP ∨ o = Ops.OP_JUMPIF then 6
  else 0

/-- ParseOp in the Go source branches on exactly the opcode classes the model branches on,
    in the same order -/
theorem parseBranch_tie : (List.range 256).map modelBranch = Ops.parseBranch := by decide +kernel

theorem parseBranchCount_tie : Ops.parseBranchCount = 6 := by decide

/-- the functions Model/Asm.lean mirrors statement by statement are, textually (after
    go/printer normalisation), the ones the model was written against (SHA-256 per function) -/
def pinnedSources : List (Nat × Nat) := [
  (0, 0xb57c4db0c75b6a9676eaebd4c61fa7f3cb6408c388178255ce9b63aad5fe867e) /- ParseOp -/,
  (1, 0xa59ff6ad46b5b5892e954ac7b1604958ce9466a37f985d6f83f48a333d9a7558) /- ParseProgram -/,
  (2, 0xf1d9187bece9e694136dc3215a6eef97e8eca9f43064d9ed65164629fbdb5d99) /- Assemble -/,
  (3, 0x869963805e7bcdb439ba94e9f443b27323de8fd3cecedb7fef7f7bb20be3e116) /- Disassemble -/,
  (4, 0x669c77ab78dd0211d998adb08ce0f9adbc93cd4c3dadd01bd08c07450041b7a7) /- split -/,
  (5, 0x6761d0b9fb2c58ba68db8f9604e6a396cbb2e3f9086806052ced682bb74f44af) /- PushDataBytes -/,
  (6, 0x79beab50004002b1b482d0de195a8859d46a407d7b40d712ca8b6a8bba2248e6) /- PushDataUint64 -/,
  (7, 0x60255dbf356b4f9b16dc57aee4bf8678d16b3453a59655f842051b824364693b) /- Uint64Bytes -/,
  (8, 0xb9e8fc3a08bc3d28b702f1d3f592d3f42d8a9904dee73caad8f5b097c76982e0) /- BigIntBytes -/,
  (9, 0xce05dd1705d0aac72a9126c5771afa676aa21cb275778220d6b7733ffd508b81) /- reverse -/,
  (10, 0xff6ad19d1862fa03ddfb79deb2df7681726c0c75095f891ecf90b2812c1b4fda) /- segwit.IsP2WScript -/,
  (11, 0xdab914ae3e03aaff8f5927f87cc40aaadb7433a7923290d2ba2f5e7a08e10e98) /- segwit.IsStraightforward -/,
  (12, 0xfbfb40e057ae6bfe563e12aabea070456ade5eabc6a1837a120f0ed17d853b72) /- segwit.IsP2WPKHScript -/,
  (13, 0xa5717fde9670cebdba13df8c44d9b9057f0d5cc313533346916302b450648acd) /- segwit.IsP2WSHScript -/,
  (16, 0x1f2da8aa03529889888db5cb2c24e5eb5d93e3f62ae50b3fe7f6f7f54ca7693a) /- segwit.GetHashFromStandardProg -/,
  (17, 0x02045f82454da65487bbe6699589fbd5360e4155257f00a706a229764b5c2230) /- bcrp.IsBCRPScript -/,
  (18, 0xb2cf897c890c81d2937b4bdcc8c0d1e1b418e12f89c7f2c77caf09ddd40ba32c) /- bcrp.IsCallContractScript -/,
  (19, 0x19dfeb91e90022f4104dfb8f86de177e84680f1e44afe97187fdbe1c18f486b2) /- bcrp.ParseContract -/,
  (20, 0x689891cf8cc854b9df4f9542a291f8c9164a7da4d1c621b4772b2cbb37a4c36e) /- bcrp.ParseContractHash -/,
  (21, 0x2d857ac038efee3429ff39b572c1bb7bb2a1403c940edc963497fbdc09186468) /- vmutil.IsUnspendable -/,
  (22, 0x8c91eb3ada5dbb6e21766b1169bbfc0b46c013646c8a09a8d4bdfcb8a8430e6f) /- vmutil.DefaultCoinbaseProgram -/,
  (23, 0x77dc71cca103a63d8dd905f9e198c323a6680f8e24d81a0e78a6880234e15f98) /- vmutil.P2WPKHProgram -/,
  (24, 0xb9f66b802eceb50484da20f304f448504afd54a01f7d29d8fcd5ad98eba1f592) /- vmutil.P2WSHProgram -/,
  (25, 0xebd0b2cae2082aef6aec381e8f31cf235b32f30cc40f43e2247bd68b7d53b682) /- vmutil.RetireProgram -/,
  (26, 0xf67b85a399a6cc8c6290553e36269db7708eda082575d6d65d2d8fc1bfb20c31) /- vmutil.RegisterProgram -/,
  (27, 0xaf5b910bf1849b0bd2a6dc4f89f3d0a862b128e4c00127166ade2f36f87d6d59) /- vmutil.CallContractProgram -/,
  (34, 0x53cfc942db4fcddbc000cce75475939b7b0c5bf8ddee1924cf69d8c2d4228e0a) /- vmutil.Builder.AddUint64 -/,
  (35, 0x9e9985e7357933acdf16a82ed0477f971b2d9c7f69fef0f1883480889b8310af) /- vmutil.Builder.AddData -/,
  (36, 0x260aa86591f4801360f4ea7b16802a334e8876e5b29198dd5a391659c1e6979f) /- vmutil.Builder.AddOp -/,
  (37, 0xd9815a9c8fe57aee6a6742c10c0951e081b8b85526f3836636580774bbf7b596) /- vmutil.Builder.Build -/]

theorem mirrored_sources_tie :
    pinnedSources.all (fun e => Ops.srcHashes.lookup e.1 == some e.2) = true := by decide +kernel

/-- constants the recognisers compare against -/
theorem sizes_tie : Ops.PayToWitnessPubKeyHashDataSize = 20 ∧ Ops.PayToWitnessScriptHashDataSize = 32 ∧
    Ops.BCRPContractHashDataSize = 32 ∧ Ops.bcrpTag = [0x62, 0x63, 0x72, 0x70] ∧ Ops.bcrpVersion = 1 := by decide

/-- opcode numbers the model's literals and theorems rely on -/
theorem opcodes_tie : Ops.OP_0 = 0 ∧ Ops.OP_1 = 0x51 ∧ Ops.OP_16 = 0x60 ∧ Ops.OP_DATA_1 = 1 ∧ Ops.OP_DATA_75 = 75 ∧
    Ops.OP_PUSHDATA1 = 0x4c ∧ Ops.OP_PUSHDATA2 = 0x4d ∧ Ops.OP_PUSHDATA4 = 0x4e ∧ Ops.OP_JUMP = 0x63 ∧
    Ops.OP_JUMPIF = 0x64 ∧ Ops.OP_FAIL = 0x6a ∧ Ops.OP_TRUE = 0x51 ∧ Ops.OP_DATA_4 = 4 ∧ Ops.OP_DATA_20 = 20 ∧
    Ops.OP_DATA_32 = 32 := by decide

/-- table shape: 256 names, 256 expansion flags, 26 label words -/
theorem table_shape_tie : Ops.opNames.length = 256 ∧ Ops.isExpansion.length = 256 ∧ Ops.words.length = 26 := by
  decide +kernel

end BytomModel.Ties.C09
