/-
C28 ties (T1): the prune masks and the shape of the unrolled ripple-carry addition are the ones
in chainkd.go today (`Gen/KDUnroll.lean` is regenerated on every run; the generator fails when
the 32 statement pairs do not follow `sum = int(xprv[i]) + int(res[i]) + (sum >> 8);
res[i] = byte(sum & 0xff)` or the final `if (sum >> 8) != 0 { panic }` is missing).
-/
import BytomModel.Model.KD
import BytomModel.Gen.KDUnroll
namespace BytomModel.Ties.C28
open BytomModel

theorem pruneRoot_tie (s : KD.Bytes) : KD.pruneRootScalar s = KD.applyMaskOps Gen.KDUnroll.pruneRootOps s := by
  rfl
theorem pruneIntermediate_tie (f : KD.Bytes) :
    KD.pruneIntermediateScalar f = KD.applyMaskOps Gen.KDUnroll.pruneIntermediateOps f := by
  simp [KD.pruneIntermediateScalar, KD.applyMaskOps, Gen.KDUnroll.pruneIntermediateOps]
/-- the unrolled statements are the steps i = 0 … 31, in order: what the fold `carryAdd` over the
    two 32-byte halves stands for -/
theorem carrySteps_tie : Gen.KDUnroll.carrySteps = List.range 32 := by decide

/-- chainkd.go and expanded_key.go declare no package-level variables: derivation and signing are
    functions of their arguments (no pooled / cached state shared between calls or goroutines) -/
theorem no_package_state :
    Gen.KDUnroll.chainkdPackageVars = [] ∧ Gen.KDUnroll.expandedKeyPackageVars = [] := by decide

end BytomModel.Ties.C28
