/-
C29 ties (T1): character sets, generator constants, network prefixes, base32 alphabet, the
BIP-39 checksum tables and the word-list facts are the ones in the Go source today
(`Gen/TextConsts.lean` is regenerated on every run).
-/
import BytomModel.Model.Bech32
import BytomModel.Model.Base32
import BytomModel.Model.Mnemonic
import BytomModel.Gen.TextConsts
namespace BytomModel.Ties.C29
open BytomModel

theorem charset_tie : Bech32.charset = Gen.TextConsts.charset := by decide
theorem gen_tie : Bech32.gen = Gen.TextConsts.gen := by decide
/-- `polymodStep` uses exactly the five generator words, selected by bits 0..4 of `chk >> 25` -/
theorem polymodStep_uses_gen (c v : Nat) :
    Bech32.polymodStep c v =
      [0, 1, 2, 3, 4].foldl (fun acc i => if ((c >>> 25) >>> i) &&& 1 = 1 then acc ^^^ Gen.TextConsts.gen.getD i 0 else acc)
        (((c &&& 0x1ffffff) <<< 5) ^^^ v) := by
  simp [Bech32.polymodStep, Gen.TextConsts.gen]
theorem hrpMainnet_tie : Bech32.hrpMainnet = Gen.TextConsts.hrpMainnet := by decide
theorem hrpTestnet_tie : Bech32.hrpTestnet = Gen.TextConsts.hrpTestnet := by decide
theorem hrpSolonet_tie : Bech32.hrpSolonet = Gen.TextConsts.hrpSolonet := by decide
theorem base32Alphabet_tie : Base32.alphabet = Gen.TextConsts.base32Alphabet := by decide
theorem base32Pad_tie : Base32.padChar = Gen.TextConsts.base32Pad := by decide
theorem checksumMask_tie : ∀ p ∈ Gen.TextConsts.checksumMasks, Mnemonic.checksumMask p.1 = p.2 := by decide
theorem checksumShift_tie : ∀ p ∈ Gen.TextConsts.checksumShifts, Mnemonic.checksumShift p.1 = p.2 := by decide
/-- every word list has 2048 distinct, non-empty words without white space: word ↔ index is a
    bijection on 0..2047 and `strings.Fields(strings.Join(words, " "))` gives the words back -/
theorem wordlists_tie : ∀ w ∈ Gen.TextConsts.wordlists, w.2.1 = 2048 ∧ w.2.2.1 = true ∧ w.2.2.2 = true := by decide
theorem wordlists_count : Gen.TextConsts.wordlists.length = 7 := by decide

end BytomModel.Ties.C29
