/-
Ties (T1) for C14: pinned (whitespace-normalised) source texts, regenerated from the Go
source on each run, of every function the reward model mirrors — reward accumulation
(protocol/state/reward.go, Checkpoint.Increase, NewCheckpoint), the validator's
checkCoinbaseAmount / checkoutRewardCoinbase (protocol/validation/block.go) and the payout part
of the proposer's createCoinbaseTx (proposal/proposal.go) including both epoch conditions. Any
edit breaks this file until the model has been re-read (re-pin: notes/mkties_econ.py).
-/
import BytomModel.Gen.EconFacts

namespace BytomModel.Ties.C14
open BytomModel.Gen

/-- the constants the harness's runtime bound on the subsidy and the pledge-rate generator use -/
theorem blockReward_value : EconFacts.BlockReward = 570776255 := by decide
theorem initSupply_value : EconFacts.InitBTMSupply = 169290771678579170 := by decide
theorem rewardThreshold_value : EconFacts.RewardThresholdNum = 1 ∧ EconFacts.RewardThresholdDen = 2 := by decide

theorem pinned_applyValidatorRewardText : EconFacts.applyValidatorRewardText =
  "{ validatorScript := hex.EncodeToString(block.Transactions[0].Outputs[0].ControlProgram) for _, tx := range block.Transactions { c.Rewards[validatorScript] += tx.Fee() } c.Rewards[validatorScript] += c.validatorReward() }" := by rfl

theorem pinned_validatorRewardText : EconFacts.validatorRewardText =
  "{ if pledgeRate := c.pledgeRate(); pledgeRate <= consensus.RewardThreshold { return uint64((pledgeRate + consensus.RewardThreshold) * float64(consensus.BlockReward)) } return consensus.BlockReward }" := by rfl

theorem pinned_pledgeRateText : EconFacts.pledgeRateText =
  "{ var totalVotes uint64 for _, vote := range c.Votes { totalVotes += vote } totalSupply := c.Height*consensus.BlockReward/2 + consensus.InitBTMSupply return float64(totalVotes) / float64(totalSupply) }" := by rfl

theorem pinned_increaseText : EconFacts.increaseText =
  "{ if block.PreviousBlockHash != c.Hash { return errIncreaseCheckpoint } if block.Height%consensus.ActiveNetParams.BlocksOfEpoch == 0 { c.Status = Unjustified } c.Hash = block.Hash() c.Height = block.Height c.Timestamp = block.Timestamp c.applyVotes(block) c.applyValidatorReward(block) return nil }" := by rfl

theorem pinned_newCheckpointText : EconFacts.newCheckpointText =
  "{ checkpoint := &Checkpoint{ Height: parent.Height, Hash: parent.Hash, Timestamp: parent.Timestamp, ParentHash: parent.Hash, Parent: parent, Status: Growing, Rewards: make(map[string]uint64), Votes: make(map[string]uint64), } for pubKey, num := range parent.Votes { if num != 0 { checkpoint.Votes[pubKey] = num } } return checkpoint }" := by rfl

theorem pinned_checkCoinbaseAmountText : EconFacts.checkCoinbaseAmountText =
  "{ if len(b.Transactions) == 0 { return errors.Wrap(ErrWrongCoinbaseTransaction, \"block is empty\") } tx := b.Transactions[0] for _, output := range tx.Outputs { if output.OutputType() != types.OriginalOutputType || *output.AssetId != *consensus.BTMAssetID { return errors.Wrap(ErrWrongCoinbaseTransaction, \"dismatch output type or asset\") } } if b.Height%consensus.ActiveNetParams.BlocksOfEpoch != 1 { if len(tx.Outputs) != 1 || tx.Outputs[0].Amount != 0 { return errors.Wrap(ErrWrongCoinbaseTransaction, \"dismatch output number or amount\") } return nil } return checkoutRewardCoinbase(tx, checkpoint) }" := by rfl

theorem pinned_checkoutRewardCoinbaseText : EconFacts.checkoutRewardCoinbaseText =
  "{ outputMap := map[string]uint64{} for i, output := range tx.Outputs { if i == 0 && output.Amount == 0 { continue } outputMap[hex.EncodeToString(output.ControlProgram)] += output.Amount } if len(outputMap) != len(checkpoint.Rewards) { return errors.Wrap(ErrWrongCoinbaseTransaction, \"dismatch output number\") } for cp, amount := range checkpoint.Rewards { if outputMap[cp] != amount { return errors.Wrap(ErrWrongCoinbaseTransaction, \"dismatch output amount\") } } return nil }" := by rfl

theorem pinned_createCoinbasePayoutText : EconFacts.createCoinbasePayoutText =
  "if err = builder.AddOutput(types.NewOriginalTxOutput(*consensus.BTMAssetID, 0, script, [][]byte{})); err != nil { return nil, err } ;; if b.block.Height%consensus.ActiveNetParams.BlocksOfEpoch == 1 && b.block.Height != 1 { for controlProgram, amount := range checkpoint.Rewards { if controlProgram == hex.EncodeToString(script) { builder.Outputs()[0].Amount = amount continue } controlProgramBytes, err := hex.DecodeString(controlProgram) if err != nil { return nil, err } if err := builder.AddOutput(types.NewOriginalTxOutput(*consensus.BTMAssetID, amount, controlProgramBytes, [][]byte{})); err != nil { return nil, err } } }" := by rfl

end BytomModel.Ties.C14
