/-
Tie (T1) for C06: `Verify` never hands the caller's `Arguments` / `StateData` lists to the VM as
its stacks — the stacks start empty and are filled item by item with `append`, which is the
shape the model's `initFrame` / `initPushes` have.  Facts regenerated from vm.go on every run.
-/
import BytomModel.Gen.VMVerify
import BytomModel.Model.VM.VerifyShape
namespace BytomModel.Ties.C06
open BytomModel.VM BytomModel.Gen.VMVerify

theorem verify_literal_tie : literalFields = verifyLiteralFields := by decide
theorem verify_stacks_start_empty : ¬ ("dataStack" ∈ literalFields) ∧ ¬ ("altStack" ∈ literalFields) := by decide
theorem verify_initial_pushes_tie : initialPushes = verifyInitialPushes := by decide
theorem verify_push_appends_tie : pushAppends = verifyPushAppends := by decide

end BytomModel.Ties.C06
