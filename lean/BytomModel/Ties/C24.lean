/- T1 ties for C24: which entry types wallet/utxo.go handles where. -/
import BytomModel.Model.Wallet
import BytomModel.Gen.WalletFacts
namespace BytomModel.Ties.C24
open BytomModel.Gen.WalletFacts

/-- detachUtxos looks outputs up with tx.OriginalOutput ONLY (model: `detachOps` deletes kind 0
    only) and walks the transactions in reverse (model: `detach`) -/
theorem detach_tie : detachOutputAccessors = ["OriginalOutput"] ∧
    detachTxLoop = ["txIndex := len(b.Transactions) - 1; txIndex >= 0; txIndex--"] := by decide

/-- txOutToUtxos stores original (non-zero amount) and vote outputs (model: `outUtxo`) -/
theorem txOut_tie : txOutCases = ["*bc.OriginalOutput", "*bc.VoteOutput"] ∧
    txOutSkips = ["out.AssetAmount.Amount == uint64(0)"] := by decide

/-- txInToUtxos restores spends and BTM vetoes (model: `inUtxo`) -/
theorem txIn_tie : txInCases = ["*bc.Spend", "*bc.VetoInput"] ∧
    txInSkips = ["!ok", "*resOut.Source.Value.AssetId != *consensus.BTMAssetID"] := by decide

end BytomModel.Ties.C24
