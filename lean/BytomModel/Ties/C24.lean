/- T1 ties for C24: which entry types wallet/utxo.go handles where. -/
import BytomModel.Model.Wallet
import BytomModel.Gen.WalletFacts
namespace BytomModel.Ties.C24
open BytomModel.Gen.WalletFacts

/-- detachUtxos ranges over ALL outputs of a transaction, never looks at the entry type
    (no tx.OriginalOutput / tx.VoteOutput call) and chooses the key class by the output's own
    control program (model: `detachOps` deletes every P2W output id); it walks the transactions
    in reverse (model: `detach`) -/
theorem detach_tie : detachOutputAccessors = [] ∧ detachOutputLoop = ["range tx.Outputs"] ∧
    detachConditions = ["segwit.IsP2WScript(out.ControlProgram)", "err != nil"] ∧
    detachTxLoop = ["txIndex := len(b.Transactions) - 1; txIndex >= 0; txIndex--"] := by decide

/-- txOutToUtxos stores original (non-zero amount) and vote outputs (model: `outUtxo`) -/
theorem txOut_tie : txOutCases = ["*bc.OriginalOutput", "*bc.VoteOutput"] ∧
    txOutSkips = ["out.AssetAmount.Amount == uint64(0)"] := by decide

/-- txInToUtxos restores spends and BTM vetoes (model: `inUtxo`) -/
theorem txIn_tie : txInCases = ["*bc.Spend", "*bc.VetoInput"] ∧
    txInSkips = ["!ok", "*resOut.Source.Value.AssetId != *consensus.BTMAssetID"] := by decide


/-- the updater decides "reorganised?" with chain.InMainChain(BestHash) (which refuses index
    entries above the best block) and only then fetches by hash / by height; AttachBlock and
    DetachBlock write the status as the model's `attachBlock` / `detachBlock` do -/
theorem updater_shape_tie : walletUpdaterShape =
    ["call w.getRescanNotification", "for !w.chain.InMainChain(w.status.BestHash)", "call w.chain.InMainChain",
     "call w.chain.GetBlockByHash", "call w.DetachBlock", "call w.chain.GetBlockByHeight",
     "call w.walletBlockWaiter", "call w.AttachBlock"] ∧
    statusWrites_AttachBlock =
      ["if block.PreviousBlockHash != w.status.WorkHash", "w.status.WorkHeight = block.Height",
       "w.status.WorkHash = block.Hash()", "if w.status.WorkHeight >= w.status.BestHeight",
       "w.status.BestHeight = w.status.WorkHeight", "w.status.BestHash = w.status.WorkHash"] ∧
    statusWrites_DetachBlock =
      ["w.status.BestHeight = block.Height - 1", "w.status.BestHash = block.PreviousBlockHash",
       "if w.status.WorkHeight > w.status.BestHeight", "w.status.WorkHeight = w.status.BestHeight",
       "w.status.WorkHash = w.status.BestHash"] := by decide

end BytomModel.Ties.C24
