/-
C37 ties (T1): the synchronisation skeleton the deadlock theorem is about IS the one extracted
from the Go source on every run (`gen/syncskel.go` → `Gen/SyncSkel.lean`): every function's
ordered lock / unlock / send / receive / call / go tree, the mutexes, the channels with their
capacities and the reply channels their messages carry, and the goroutines started by the
constructors. A lock scope that is widened or narrowed, a call that moves into or out of a
critical section, a changed channel capacity or a new synchronising function changes
`Gen.SyncSkel.*` and breaks one of these `decide`s.
-/
import BytomModel.Model.SyncSkel
import BytomModel.Gen.SyncSkel

namespace BytomModel.Ties.C37
open BytomModel

/-- every function's synchronisation skeleton, in order -/
theorem skeleton_tied : SyncSkel.skeleton = Gen.SyncSkel.skeleton := by decide

/-- function ids mean the same functions -/
theorem fn_names_tied : SyncSkel.fnNames = Gen.SyncSkel.fnNames := by decide

/-- the mutexes and their kinds (RWMutex / the Locker of the condition variable) -/
theorem mutexes_tied : SyncSkel.mutexes = Gen.SyncSkel.mutexes := by decide

/-- channel fields: capacity at the `make` site (processBlockCh 1024, rollbackCh 64, newEpochCh 64)
    and the reply channel field of the message type they carry -/
theorem chans_tied : SyncSkel.chans = Gen.SyncSkel.chans := by decide

/-- reply channels: `RollbackMsg.Reply` is made unbuffered, `processBlockMsg.reply` with capacity 1 -/
theorem replies_tied : SyncSkel.replies = Gen.SyncSkel.replies := by decide

/-- the receivers whose methods are NOT followed (an assumption of the theorem is about exactly these) -/
theorem externals_tied : SyncSkel.externals = Gen.SyncSkel.externals := by decide

/-- the daemons of the model's initial configuration are the goroutines the constructors start:
    `NewCasper` starts `authVerificationLoop`, `NewChainWithOrphanManage` starts `blockProcessor`
    (after one `ApplyBlock` of the best block) -/
theorem daemons_tied :
    SyncSkel.sys.daemons.map (·.1) = [SyncSkel.f_Chain_blockProcessor, SyncSkel.f_Casper_authVerificationLoop]
    ∧ Gen.SyncSkel.skeleton.lookup Gen.SyncSkel.f_casper_NewCasper
        = some [.go Gen.SyncSkel.f_Casper_authVerificationLoop]
    ∧ Gen.SyncSkel.skeleton.lookup Gen.SyncSkel.f_protocol_NewChainWithOrphanManage
        = some [.alt [[], [.call Gen.SyncSkel.f_protocol_newCasper,
                           .alt [[], [.call Gen.SyncSkel.f_Casper_ApplyBlock, .go Gen.SyncSkel.f_Chain_blockProcessor]]]]] := by
  decide

/-- fix 7fe07751 (finding C37:stale-rollback): the block processor answers a rollback request with
    the fork choice as it is WHEN THE REQUEST IS HANDLED — between the receive from `rollbackCh` and
    `tryReorganize` it calls `casper.BestChain()` (read lock of casper.mu) — instead of the hash the
    requester computed before it released casper.mu. (The skeleton has no data, so the stale state
    itself is not expressible; what is tied is that the read of the fork choice is there.) -/
theorem rollback_follows_fork_choice :
    (Gen.SyncSkel.skeleton.lookup Gen.SyncSkel.f_Chain_blockProcessor).map
        (fun b => match b with
          | [.loop true [.sel [_, arm]]] => arm
          | _ => [])
      = some [.act (.recv Gen.SyncSkel.ch_Casper_rollbackCh), .call Gen.SyncSkel.f_Casper_BestChain,
              .call Gen.SyncSkel.f_Chain_tryReorganize, .act (.sendReply Gen.SyncSkel.rp_RollbackMsg_Reply)]
    ∧ Gen.SyncSkel.skeleton.lookup Gen.SyncSkel.f_Casper_BestChain
      = some [.act (.rlock Gen.SyncSkel.m_Casper_mu), .act (.runlock Gen.SyncSkel.m_Casper_mu)] := by
  decide

end BytomModel.Ties.C37
