/-
T1 ties of C03: the hashed-field lists and `typ()` strings the entry model was written
against equal the ones regenerated from `/repo`'s working tree (`protocol/bc/*.go`), and the
model's type tags are exactly those strings.
-/
import BytomModel.Model.Entry
import BytomModel.Gen.HashFields

namespace BytomModel.Ties.C03
open BytomModel.Entry

/-- every entry type hashes the fields the model hashes, in the same order -/
theorem hashed_fields_tie : hashedFields = BytomModel.Gen.HashFields.entries := by decide

/-- the reflect-traversed structs declare their fields in the order the model writes them -/
theorem hashed_structs_tie : hashedStructs = BytomModel.Gen.HashFields.structs := by decide

/-- the model's type tags are the `typ()` strings of the code -/
theorem type_tags_tie : modelTags = BytomModel.Gen.HashFields.entries.map (fun e => ascii e.2.1) := by decide

end BytomModel.Ties.C03
