/-
T1 ties of C03: the hashed-field lists and `typ()` strings the entry model was written
against equal the ones regenerated from `/repo`'s working tree (`protocol/bc/*.go`), and the
model's type tags are exactly those strings.
-/
import BytomModel.Model.Entry
import BytomModel.Gen.HashFields
import BytomModel.Model.MerkleShape
import BytomModel.Gen.MerkleShape
import BytomModel.Model.IdPathFacts
import BytomModel.Gen.IdPathConversions

namespace BytomModel.Ties.C03
open BytomModel.Entry

/-- every entry type hashes the fields the model hashes, in the same order -/
theorem hashed_fields_tie : hashedFields = BytomModel.Gen.HashFields.entries := by decide

/-- the reflect-traversed structs declare their fields in the order the model writes them -/
theorem hashed_structs_tie : hashedStructs = BytomModel.Gen.HashFields.structs := by decide

/-- the model's type tags are the `typ()` strings of the code -/
theorem type_tags_tie : modelTags = BytomModel.Gen.HashFields.entries.map (fun e => ascii e.2.1) := by decide

/-- the block hash reaches the transaction ids through `merkleRoot`: it is the single plain
    recursion the model mirrors (same cases, same calls in the same order) … -/
theorem merkle_root_shape_tie :
    BytomModel.MerkleShape.merkleRootCases = BytomModel.Gen.MerkleShape.merkleRootCases ∧
    BytomModel.MerkleShape.merkleRootCalls = BytomModel.Gen.MerkleShape.merkleRootCalls ∧
    BytomModel.MerkleShape.buildMerkleTreeCases = BytomModel.Gen.MerkleShape.buildMerkleTreeCases ∧
    BytomModel.MerkleShape.buildMerkleTreeCalls = BytomModel.Gen.MerkleShape.buildMerkleTreeCalls := by decide

/-- … with no other tree-hashing helper in the file, no goroutines and no `sync` -/
theorem merkle_no_concurrency_tie :
    BytomModel.MerkleShape.funcs = BytomModel.Gen.MerkleShape.funcs ∧
    BytomModel.Gen.MerkleShape.goStatements = 0 ∧ BytomModel.Gen.MerkleShape.syncImports = 0 := by decide

/-- no integer field is narrowed on its way into an entry id: the conversions and the narrow
    integer parameters of the mapping code are exactly the (widening / tag) ones the model assumes -/
theorem id_path_conversions_tie :
    BytomModel.IdPathFacts.conversions = BytomModel.Gen.IdPathConversions.conversions ∧
    BytomModel.IdPathFacts.narrowIntegers = BytomModel.Gen.IdPathConversions.narrowIntegers := by decide

end BytomModel.Ties.C03
