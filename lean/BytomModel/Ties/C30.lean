/-
C30 ties (T1): the model's flag values and hash prefixes are the ones in merkle.go today
(`Gen/MerkleConsts.lean` is regenerated from the source on every run).
-/
import BytomModel.Model.Merkle
import BytomModel.Gen.MerkleConsts
namespace BytomModel.Ties.C30
open BytomModel

theorem flagAssist_tie : Merkle.flagAssist = Gen.MerkleConsts.flagAssist := by decide
theorem flagTxParent_tie : Merkle.flagTxParent = Gen.MerkleConsts.flagTxParent := by decide
theorem flagTxLeaf_tie : Merkle.flagTxLeaf = Gen.MerkleConsts.flagTxLeaf := by decide
theorem leafPrefix_tie : Merkle.leafPrefix = Gen.MerkleConsts.leafPrefix := by decide
theorem interiorPrefix_tie : Merkle.interiorPrefix = Gen.MerkleConsts.interiorPrefix := by decide
/-- the domain separation the hash hypotheses rest on: the two prefixes differ -/
theorem prefixes_differ : Gen.MerkleConsts.leafPrefix ≠ Gen.MerkleConsts.interiorPrefix := by decide

/-- merkle.go keeps no state between calls: its only package-level variables are the two hash
    prefixes (so proof generation for one list cannot depend on earlier requests, as in the model) -/
theorem no_package_state : Gen.MerkleConsts.packageVars = ["leafPrefix", "interiorPrefix"] := by decide

end BytomModel.Ties.C30
