/-
C36 ties (T1): the shape of the Go functions the access-control model mirrors, regenerated
from the working tree on every run (`gen/authn.go` → `Gen/Authn.lean`). An edit of a
condition, of the order of the checks, of the cache key or of the window breaks one of
these obligations at build time.
-/
import BytomModel.Model.Authn
import BytomModel.Gen.Authn

namespace BytomModel.Ties.C36
open BytomModel

/-- the cache is keyed by `user + ":" + pw` (F22 fixed in ed51f8ca) — the expression
    `cachedCheck` mirrors with `user ++ 58 :: pw`; reverting to `user + pw` breaks this obligation -/
theorem cache_key_tied : Authn.cacheKeyExpr = Gen.Authn.cacheKeyExpr := by decide
/-- the cache key is a per-request VALUE: both map accesses (before and after the section in
    which `tokenMu` is released for the store lookup) index with the one local `key`, defined
    once from `user` and `pw`; `API` holds no shared byte buffer. A key assembled in a struct-field
    scratch buffer that another request can overwrite while the lock is released (so that a
    genuine success is cached under a foreign pair) breaks these obligations. -/
theorem token_map_key_uses_tied : Authn.tokenMapKeyUses = Gen.Authn.tokenMapKeyUses ∧
    Gen.Authn.tokenMapRawKeys = ["key"] := by decide
theorem api_no_scratch_buffer_tied : Authn.apiScratchFields = Gen.Authn.apiScratchFields := by decide
/-- a cached entry is used unless `now.After(lastLookup + tokenExpiry)` (strict) -/
theorem stale_cond_tied : Authn.staleCond = Gen.Authn.staleCond := by decide
theorem cached_check_chain_tied : Authn.cachedCheckChain = Gen.Authn.cachedCheckChain := by decide
theorem token_expiry_tied : Authn.tokenExpiry = Gen.Authn.tokenExpirySeconds := by decide
theorem loopback_on_tied : Authn.loopbackOnSrc = Gen.Authn.loopbackOn ∧ Authn.loopbackOn = true := by decide
/-- the decision chain of `Authenticate`: local-only prefixes, static exemptions, loopback
    bypass, then the token verdict — conditions and order -/
theorem authenticate_chain_tied : Authn.authenticateChain = Gen.Authn.authenticateChain := by decide
theorem localhost_chain_tied : Authn.localhostChain = Gen.Authn.localhostChain := by decide
theorem token_authn_chain_tied : Authn.tokenAuthnChain = Gen.Authn.tokenAuthnChain := by decide
theorem valid_id_regexp_tied : Authn.validIDRegexpSrc = Gen.Authn.validIDRegexp := by decide
theorem check_chain_tied : Authn.checkChain = Gen.Authn.checkChain := by decide
theorem create_chain_tied : Authn.createChain = Gen.Authn.createChain := by decide

end BytomModel.Ties.C36
