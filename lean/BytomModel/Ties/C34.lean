/-
Ties for C34: the facts the hand-written model `Model/DHT.lean` was written against
(`Model.DHT.Src`) equal the facts regenerated from the Go source on this run
(`Gen/DhtFacts.lean`): literal constants, the go/printer text of the modelled expressions and
conditions, the call lists, and the SHA-256 of every modelled function's comment-free text.
An edit of the modelled source makes the corresponding theorem fail.
-/
import BytomModel.Model.DHT
import BytomModel.Gen.DhtFacts

namespace BytomModel.Ties.C34
open BytomModel.Model

theorem tie_bucketSize : DHT.Src.bucketSize = Gen.DhtFacts.bucketSize := by decide
theorem tie_nBuckets : DHT.Src.nBuckets = Gen.DhtFacts.nBuckets := by decide
theorem tie_addSha : DHT.Src.addSha = Gen.DhtFacts.addSha := by decide
theorem tie_addCalls : DHT.Src.addCalls = Gen.DhtFacts.addCalls := by decide
theorem tie_addIfs : DHT.Src.addIfs = Gen.DhtFacts.addIfs := by decide
theorem tie_stuffSha : DHT.Src.stuffSha = Gen.DhtFacts.stuffSha := by decide
theorem tie_stuffCalls : DHT.Src.stuffCalls = Gen.DhtFacts.stuffCalls := by decide
theorem tie_stuffIfs : DHT.Src.stuffIfs = Gen.DhtFacts.stuffIfs := by decide
theorem tie_deleteSha : DHT.Src.deleteSha = Gen.DhtFacts.deleteSha := by decide
theorem tie_deleteCalls : DHT.Src.deleteCalls = Gen.DhtFacts.deleteCalls := by decide
theorem tie_deleteIfs : DHT.Src.deleteIfs = Gen.DhtFacts.deleteIfs := by decide
theorem tie_deleteReplaceSha : DHT.Src.deleteReplaceSha = Gen.DhtFacts.deleteReplaceSha := by decide
theorem tie_deleteReplaceCalls : DHT.Src.deleteReplaceCalls = Gen.DhtFacts.deleteReplaceCalls := by decide
theorem tie_deleteReplaceIfs : DHT.Src.deleteReplaceIfs = Gen.DhtFacts.deleteReplaceIfs := by decide
theorem tie_deleteFromReplacementSha : DHT.Src.deleteFromReplacementSha = Gen.DhtFacts.deleteFromReplacementSha := by decide
theorem tie_deleteFromReplacementCalls : DHT.Src.deleteFromReplacementCalls = Gen.DhtFacts.deleteFromReplacementCalls := by decide
theorem tie_deleteFromReplacementIfs : DHT.Src.deleteFromReplacementIfs = Gen.DhtFacts.deleteFromReplacementIfs := by decide
theorem tie_addFrontSha : DHT.Src.addFrontSha = Gen.DhtFacts.addFrontSha := by decide
theorem tie_addFrontCalls : DHT.Src.addFrontCalls = Gen.DhtFacts.addFrontCalls := by decide
theorem tie_addFrontIfs : DHT.Src.addFrontIfs = Gen.DhtFacts.addFrontIfs := by decide
theorem tie_bumpSha : DHT.Src.bumpSha = Gen.DhtFacts.bumpSha := by decide
theorem tie_bumpCalls : DHT.Src.bumpCalls = Gen.DhtFacts.bumpCalls := by decide
theorem tie_bumpIfs : DHT.Src.bumpIfs = Gen.DhtFacts.bumpIfs := by decide
theorem tie_addCaseBump : DHT.Src.addCaseBump = Gen.DhtFacts.addCaseBump := by decide
theorem tie_addCaseBumpCalls : DHT.Src.addCaseBumpCalls = Gen.DhtFacts.addCaseBumpCalls := by decide
theorem tie_addCaseFree : DHT.Src.addCaseFree = Gen.DhtFacts.addCaseFree := by decide
theorem tie_addCaseFreeCalls : DHT.Src.addCaseFreeCalls = Gen.DhtFacts.addCaseFreeCalls := by decide
theorem tie_addCaseFull : DHT.Src.addCaseFull = Gen.DhtFacts.addCaseFull := by decide
theorem tie_addCaseFullCalls : DHT.Src.addCaseFullCalls = Gen.DhtFacts.addCaseFullCalls := by decide

/-- the model's own constants are the tied ones -/
theorem tie_model_consts : DHT.bucketSize = Gen.DhtFacts.bucketSize ∧ DHT.nBuckets = Gen.DhtFacts.nBuckets := by decide

end BytomModel.Ties.C34
