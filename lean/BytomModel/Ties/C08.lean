/-
Ties (T1) of the VM model to facts regenerated from protocol/vm/*.go on every run
(gen/vmops.go → Gen/VMOps.lean): which opcode bytes have a handler, and the literal of the
first `applyCost` of every handler.  Used by C07 and C08.
-/
import BytomModel.Gen.VMOps
import BytomModel.Gen.VMCrypto
import BytomModel.Model.VM.Step
namespace BytomModel.Ties.C08
open BytomModel.VM BytomModel.Gen.VMOps

/-- the model's table of defined opcodes is the Go `ops` table (literal + `init()`);
    every other byte is an expansion NOP on both sides -/
theorem definedOps_tie : (List.range 256).filter isDefinedOp = definedOps := by decide +kernel

/-- the model's base cost of every opcode is the first `applyCost` literal of its Go handler
    (CHECKPREDICATE apart: see below) -/
theorem baseCost_tie : ∀ p ∈ firstCost, p.1 ≠ 0xc0 → baseCost p.1 = p.2 := by decide +kernel

/-- CHECKPREDICATE applies 256 first; the model's base cost 64 is 256 minus the 192 that
    `deferCost(-256+64)` returns (both literals are in `cpPrelude`) -/
theorem checkpredicate_cost_tie : firstCost.lookup 0xc0 = some 256 ∧ baseCost 0xc0 = 256 - 192 := by
  decide +kernel

/-- exactly four handlers do not start with `applyCost`: SHA256, SHA3, HASH160 (pop first,
    then charge max(len,64) resp. len+64) and CHECKMULTISIG (charges 1024 per key) -/
theorem handlers_without_first_cost :
    definedOps.filter (fun b => (firstCost.lookup b).isNone) = [0xa8, 0xaa, 0xab, 0xad] := by
  decide +kernel

/-- CHECKSIG / CHECKMULTISIG verify with the standard library's Ed25519 (which rejects
    non-canonical S ≥ L), the verifier the harness's oracle table is computed with -/
theorem ed25519_import_tie : BytomModel.Gen.VMCrypto.ed25519Import = "crypto/ed25519" := by decide

end BytomModel.Ties.C08
