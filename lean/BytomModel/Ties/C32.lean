/-
C32 ties (T1): facts of p2p/connection/secret_connection.go the secret-connection model
depends on, regenerated from the working tree on every run (`gen/secretconn.go`).
-/
import BytomModel.Model.SecretConn
import BytomModel.Gen.SecretConn

namespace BytomModel.Ties.C32
open BytomModel

theorem data_len_size_tied : SecretConn.dataLenSize = Gen.SecretConn.dataLenSize := by decide
theorem data_max_size_tied : SecretConn.dataMaxSize = Gen.SecretConn.dataMaxSize := by decide
theorem frame_size_exprs_tied :
    SecretConn.totalFrameSizeExpr = Gen.SecretConn.totalFrameSizeExpr ∧
    SecretConn.sealedFrameSizeExpr = Gen.SecretConn.sealedFrameSizeExpr := by decide
theorem read_named_results_tied : SecretConn.readNamedResults = Gen.SecretConn.readNamedResults := by decide
/-- the statement that carried F18 (fixed in a002565b): in BOTH branches `copy`'s count is
    assigned to the named result `n`, which the bare `return`s give back; reverting the repair
    (`n_ := copy(...)`) breaks this obligation -/
theorem read_copies_tied : SecretConn.readCopies = Gen.SecretConn.readCopies := by decide
theorem read_returns_tied : SecretConn.readReturns = Gen.SecretConn.readReturns := by decide
theorem write_skeleton_tied : SecretConn.writeSkeleton = Gen.SecretConn.writeSkeleton := by rfl
theorem incr_nonce_tied :
    SecretConn.incrNonceBody = Gen.SecretConn.incrNonceBody ∧
    SecretConn.incr2NonceBody = Gen.SecretConn.incr2NonceBody := by decide
theorem gen_nonces_tied : SecretConn.genNoncesBody = Gen.SecretConn.genNoncesBody := by rfl
theorem sort32_tied : SecretConn.sort32Body = Gen.SecretConn.sort32Body := by decide

end BytomModel.Ties.C32
