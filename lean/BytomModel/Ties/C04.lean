/-
T1 ties of C04/C05: the codec call lists the model was written against equal the ones
regenerated from `/repo`'s working tree, and every writer is consistent with its reader
(checked on the REGENERATED lists themselves).
-/
import BytomModel.Model.CodecFacts
import BytomModel.Gen.CodecCalls

namespace BytomModel.Ties.C04
open BytomModel.Gen.CodecCalls

/-- the model's schema flattening is the code's: same methods, same primitives, same order -/
theorem codec_calls_tie : BytomModel.Codec.Facts.expectedCalls = calls := by decide

def get (k : String) : List String := (kinds.lookup k).getD ["<missing>"]

/-- writer / reader pairs whose primitive kinds must coincide one for one -/
def samePairs : List (String × String) := [
  ("AssetAmount.WriteTo", "AssetAmount.ReadFrom"),
  ("BlockCommitment.writeTo", "BlockCommitment.readFrom"),
  ("BlockHeader.writeTo", "BlockHeader.readFrom"),
  ("BlockWitness.writeTo", "BlockWitness.readFrom"),
  ("CoinbaseInput.writeWitness", "CoinbaseInput.readWitness"),
  ("IssuanceInput.writeWitness", "IssuanceInput.readWitness"),
  ("SpendInput.writeWitness", "SpendInput.readWitness"),
  ("VetoInput.writeWitness", "VetoInput.readWitness"),
  ("OutputCommitment.writeTo", "OutputCommitment.readFrom"),
  ("SupLink.writeTo", "SupLink.readFrom"),
  ("SupLinks.writeTo", "SupLinks.readFrom"),
  ("TxData.writeTo", "TxData.readFrom"),
  ("TxOutput.writeTo", "TxOutput.readFrom"),
  ("VoteOutput.writeTo", "VoteOutput.readFrom"),
  ("originalTxOutput.writeTo", "originalTxOutput.readFrom")]

/-- typed inputs: the writer starts with the type byte that `parseTypedInput` reads for the reader -/
def commitmentPairs : List (String × String) := [
  ("CoinbaseInput.writeCommitment", "CoinbaseInput.readCommitment"),
  ("IssuanceInput.writeCommitment", "IssuanceInput.readCommitment"),
  ("SpendInput.writeCommitment", "SpendInput.readCommitment"),
  ("VetoInput.writeCommitment", "VetoInput.readCommitment")]

def consistent : Bool :=
  samePairs.all (fun p => get p.1 == get p.2) &&
  commitmentPairs.all (fun p => get p.1 == "bytes" :: get p.2) &&
  -- the block reader additionally maps every transaction (NewTx)
  get "Block.readFrom" == get "Block.writeTo" ++ ["map"] &&
  -- TxInput: asset version, two extensible strings; inside them type byte + commitment, witness
  get "TxInput.readFrom" == ["u63", "ext", "bytes", "sub", "ext", "sub"] &&
  get "TxInput.writeTo" == ["u63", "ext", "ext"] &&
  get "TxInput.writeInputCommitment" == ["sub"] && get "TxInput.writeInputWitness" == ["sub"] &&
  -- SpendCommitment: one extensible string around the fields; `writeContents` ends with the
  -- (now always empty) suffix write
  get "SpendCommitment.writeExtensibleString" == ["ext", "sub"] &&
  get "SpendCommitment.readFrom" == "ext" :: (get "SpendCommitment.writeContents").dropLast &&
  (get "SpendCommitment.writeContents").getLast? == some "bytes" &&
  -- no decoder allocates a slice of a declared size
  kinds.all (fun e => !e.2.contains "make")

theorem writers_match_readers : consistent = true := by decide

end BytomModel.Ties.C04
