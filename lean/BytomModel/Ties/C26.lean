/- T1 ties for C26: what the keeper model assumes about account/utxo_keeper.go, re-derived from
   the source on every run (gen/wallet.go → Gen/WalletFacts.lean). -/
import BytomModel.Model.Keeper
import BytomModel.Gen.WalletFacts
namespace BytomModel.Ties.C26
open BytomModel.Gen.WalletFacts

theorem desireUtxoCount_tie : BytomModel.Model.Keeper.desireUtxoCount = desireUtxoCount := by decide

/-- every method that reads or writes the maps from outside holds `uk.mtx` for its whole body
    (`Lock` first, `Unlock` deferred or last); the unlocked ones are the internal helpers that
    are only called with the mutex held, and the ticker loop that only calls expireReservation -/
theorem keeper_methods_hold_mutex : keeperMethodsHoldMutex =
    [("AddUnconfirmedUtxo", true), ("Cancel", true), ("ListUnconfirmed", true), ("RemoveUnconfirmedUtxo", true),
     ("Reserve", true), ("ReserveParticular", true), ("cancel", false), ("expireReservation", true),
     ("expireWorker", false), ("findUtxo", false), ("findUtxos", false), ("optUTXOs", false)] := by decide

/-- Reserve's three error decisions, in this order (model: `reserveWith`) -/
theorem reserve_decisions_tie : reserveDecisions =
    ["optAmount+reservedAmount+immatureAmount < amount => return nil, ErrInsufficient",
     "optAmount+reservedAmount < amount => return nil, ErrImmature",
     "optAmount < amount => return nil, ErrReserved"] := by decide

/-- findUtxos lists DB records, then (if asked) the unconfirmed map, WITHOUT de-duplication
    (model: `listed`, `findUtxos`) -/
theorem findUtxos_tie : findUtxosListingOrder = ["for utxoIter.Next()", "if !useUnconfirmed return", "range uk.unconfirmed"] ∧
    findUtxosAppend =
      ["if u.AccountID != accountID || u.AssetID != *assetID || !bytes.Equal(u.Vote, vote) { return }",
       "if u.ValidHeight > currentHeight { immatureAmount += u.Amount } else { utxos = append(utxos, u) }"] := by decide

/-- the loop conditions of optUTXOs (model: `sel`, `replDecide`) -/
theorem optUTXOs_tie : optUTXOsConditions =
    ["if ok", "for node != nil", "if optAmount < amount",
     "for node != nil && replaceList.Len() <= desireUtxoCount-optList.Len()",
     "if replaceAmount >= amount", "if largestNode == optList.Front()", "for e != nil"] := by decide

end BytomModel.Ties.C26
