/-
C10 ties (T1): the source-level facts `Model/Ledger.lean` mirrors, re-extracted from the Go
source by gen/utxofacts.go on every run.  Each fact is tied twice where possible: the
extracted text equals what the model was written from, and the model computes accordingly.
-/
import BytomModel.Gen.UtxoFacts
import BytomModel.Model.Ledger

namespace BytomModel.Ties.C10
open BytomModel.Ledger BytomModel.Gen.UtxoFacts

/-- `storage.NormalUTXOType / VoteUTXOType` are the numbers `utxoType` produces -/
theorem utxo_types_tie : utxoType .normal = some normalType ∧ utxoType .vote = some voteType ∧
    utxoType .retire = none ∧ utxoType (.contract 0) = none := by decide

/-- an output of the block's first transaction gets `storage.CoinbaseUTXOType`, the block height, unspent -/
theorem coinbase_type_tie :
    applyOutput 5 true [⟨1, .normal, 1⟩] [] = [(1, ⟨coinbaseType, 5, false⟩)] ∧
    applyOutput 5 false [⟨1, .vote, 1⟩] [] = [(1, ⟨voteType, 5, false⟩)] := by decide

theorem coinbase_pending_tie : ({} : Params).coinbasePending = coinbasePendingBlockNumber := by decide

/-- the maturity / vote-lock checks of `applySpendUtxo` (text), and that the model's switch is on
    those two types -/
theorem spend_checks_tie : spendChecks =
    ["-: !ok", "-: entry.Spent",
     "storage.CoinbaseUTXOType: entry.BlockHeight+consensus.CoinbasePendingBlockNumber > block.Height",
     "storage.VoteUTXOType: entry.BlockHeight+consensus.VotePendingBlockNums(block.Height) > block.Height"] := by decide

theorem spend_checks_model :
    applySpend { coinbasePending := 10, votePending := 2 } 12 [1] [(1, ⟨coinbaseType, 3, false⟩)] = none ∧
    (applySpend { coinbasePending := 10, votePending := 2 } 13 [1] [(1, ⟨coinbaseType, 3, false⟩)]).isSome ∧
    applySpend { coinbasePending := 10, votePending := 2 } 4 [1] [(1, ⟨voteType, 3, false⟩)] = none ∧
    (applySpend { coinbasePending := 10, votePending := 2 } 5 [1] [(1, ⟨voteType, 3, false⟩)]).isSome ∧
    (applySpend { coinbasePending := 10, votePending := 2 } 3 [1] [(1, ⟨normalType, 3, false⟩)]).isSome ∧
    applySpend { coinbasePending := 10, votePending := 2 } 99 [1] [(1, ⟨normalType, 3, true⟩)] = none ∧
    applySpend { coinbasePending := 10, votePending := 2 } 99 [1] [] = none := by decide

/-- `saveUtxoView` deletes exactly the spent entries that are neither coinbase nor vote (c99e97a7) -/
theorem save_delete_cond_tie : saveDeleteCond =
    "entry.Spent && entry.Type != storage.CoinbaseUTXOType && entry.Type != storage.VoteUTXOType" := by decide

theorem save_delete_model :
    ∀ t ∈ [normalType, coinbaseType, voteType], ∀ s ∈ [true, false],
      (saveView [(7, ⟨t, 3, s⟩)] [(7, ⟨t, 3, s⟩)] == []) = (s && t != coinbaseType && t != voteType) := by decide

/-- `getTransactionsUtxo` skips inputs the view holds and inputs without a record -/
theorem load_guards_tie : loadGuards = ["view.HasUtxo(&prevout)", "data == nil"] := by decide

/-- the three `NewUtxoEntry` call sites: apply (type, block height, unspent), detach of a spend
    that finds no entry (type from the spending tx, height 0, unspent), detach of an output
    (type, height 0, spent) -/
theorem new_entry_calls_tie : newEntryCalls =
    [("applyOutputUtxo", ["utxoType", "block.Height", "false"]),
     ("detachSpendUtxo", ["utxoType", "0", "false"]),
     ("detachOutputUtxo", ["utxoType", "0", "true"])] := by decide

theorem new_entry_calls_model :
    detachSpend (fun _ => .vote) [4] [] = some [(4, ⟨voteType, 0, false⟩)] ∧
    detachOutput [⟨4, .vote, 1⟩] [] = [(4, ⟨voteType, 0, true⟩)] ∧
    detachOutput [⟨4, .normal, 1⟩] [] = [(4, ⟨normalType, 0, true⟩)] := by decide

theorem detach_checks_tie : detachChecks = ["!ok", "ok && !entry.Spent", "!ok"] := by decide

/-- contract view guards: first registration in the attach view wins; an attach entry is written
    when there is no record or the record is the one deleted in the same batch; a record is
    deleted only if it is byte-equal to the detach entry -/
theorem contract_guards_tie :
    contractAttachGuards = ["_, ok := view.AttachEntries[hash]; !ok"] ∧
    contractSaveGuards = ["data == nil", "v, ok := view.DetachEntries[hash]; ok && bytes.Equal(data, v)"] ∧
    contractDeleteGuards = ["bytes.Equal(db.Get(CalcContractKey(hash)), value)"] := by decide

theorem contract_guards_model :
    contractAttach [⟨1, [], [⟨1, .contract 9, 1⟩]⟩, ⟨2, [], [⟨2, .contract 9, 1⟩]⟩] [] = [(9, 1)] ∧
    contractDetach [⟨1, [], [⟨1, .contract 9, 1⟩]⟩, ⟨2, [], [⟨2, .contract 9, 1⟩]⟩] [] = [(9, 1)] ∧
    saveContracts [] [(9, 1)] [] = [(9, 1)] ∧ saveContracts [(9, 5)] [(9, 1)] [] = [(9, 5)] ∧
    saveContracts [(9, 5)] [(9, 1)] [(9, 5)] = [(9, 1)] ∧ saveContracts [(9, 5)] [(9, 1)] [(9, 6)] = [(9, 5)] ∧
    saveContracts [(9, 5)] [] [(9, 5)] = [] := by decide

end BytomModel.Ties.C10
