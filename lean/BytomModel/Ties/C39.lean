/-
C39 ties (T1): facts of event/event.go the dispatcher model depends on, regenerated from
the working tree on every run (`gen/event.go` → `Gen/Event.lean`).
-/
import BytomModel.Model.Event
import BytomModel.Gen.Event

namespace BytomModel.Ties.C39
open BytomModel

/-- the channel capacity the model (and the harness' `reset 65536` cases) assume -/
theorem capacity_tied : Event.maxEventChSize = Gen.Event.maxEventChSize := by decide

/-- `newSubscription` sizes the channel with that constant -/
theorem capacity_used : Gen.Event.chanCapExpr = "maxEventChSize" := by decide

/-- `deliver` is a three-armed select: send / closing / default, so it never blocks and drops
    on a full channel — the shape `Event.deliver` mirrors -/
theorem deliver_has_default : Event.deliverArms = Gen.Event.deliverArms := by decide

/-- `Post` fails exactly under `d.stopped`, with `ErrMuxClosed` -/
theorem post_guard_tied : Event.postGuard = (Gen.Event.postGuard, Gen.Event.postGuardError) := by decide

/-- `Stop` clears the table and sets the flag -/
theorem stop_assigns_tied : Event.stopAssigns = Gen.Event.stopAssigns := by decide

/-- **lock order**: in event.go as it is, every mutex acquisition (followed through the calls
    between the file's functions) happens only while mutexes of strictly lower rank
    `Dispatcher.mutex < Subscription.closeMu < Subscription.postMu` are held — so the
    held-before relation is acyclic (`Props.C39.lock_order_acyclic`) and the atomic-step reading
    of the critical sections in the interleaving model is justified. An edit that makes
    `Unsubscribe` call `dispatcher.del` under `closeMu` (while `Stop` takes `closeMu` under
    `dispatcher.mutex`) breaks this obligation. -/
theorem lock_order_tied : Event.lockOrderOK Gen.Event.lockSkel = true := by decide

/-- the edges actually present (documentation; changes when the locking changes) -/
theorem lock_edges_tied : Event.lockEdges Gen.Event.lockSkel =
    [("Dispatcher.mutex", "Subscription.closeMu"), ("Dispatcher.mutex", "Subscription.postMu"),
     ("Subscription.closeMu", "Subscription.postMu")] := by decide

end BytomModel.Ties.C39
