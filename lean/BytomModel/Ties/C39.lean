/-
C39 ties (T1): facts of event/event.go the dispatcher model depends on, regenerated from
the working tree on every run (`gen/event.go` → `Gen/Event.lean`).
-/
import BytomModel.Model.Event
import BytomModel.Gen.Event

namespace BytomModel.Ties.C39
open BytomModel

/-- the channel capacity the model (and the harness' `reset 65536` cases) assume -/
theorem capacity_tied : Event.maxEventChSize = Gen.Event.maxEventChSize := by decide

/-- `newSubscription` sizes the channel with that constant -/
theorem capacity_used : Gen.Event.chanCapExpr = "maxEventChSize" := by decide

/-- `deliver` is a three-armed select: send / closing / default, so it never blocks and drops
    on a full channel — the shape `Event.deliver` mirrors -/
theorem deliver_has_default : Event.deliverArms = Gen.Event.deliverArms := by decide

/-- `Post` fails exactly under `d.stopped`, with `ErrMuxClosed` -/
theorem post_guard_tied : Event.postGuard = (Gen.Event.postGuard, Gen.Event.postGuardError) := by decide

/-- `Stop` clears the table and sets the flag -/
theorem stop_assigns_tied : Event.stopAssigns = Gen.Event.stopAssigns := by decide

end BytomModel.Ties.C39
