/-
Ties for C35: the facts the hand-written model `Model/BanScore.lean` was written against
(`Model.BanScore.Src`) equal the facts regenerated from the Go source on this run
(`Gen/BanScoreFacts.lean`): literal constants, the go/printer text of the modelled expressions and
conditions, the call lists, and the SHA-256 of every modelled function's comment-free text.
An edit of the modelled source makes the corresponding theorem fail.
-/
import BytomModel.Model.BanScore
import BytomModel.Gen.BanScoreFacts

namespace BytomModel.Ties.C35
open BytomModel.Model

theorem tie_securityHalflife : BanScore.Src.securityHalflife = Gen.BanScoreFacts.securityHalflife := by decide
theorem tie_securityLifetime : BanScore.Src.securityLifetime = Gen.BanScoreFacts.securityLifetime := by decide
theorem tie_securityprecomputedLen : BanScore.Src.securityprecomputedLen = Gen.BanScoreFacts.securityprecomputedLen := by decide
theorem tie_securityLambda : BanScore.Src.securityLambda = Gen.BanScoreFacts.securityLambda := by decide
theorem tie_securityIntIfs : BanScore.Src.securityIntIfs = Gen.BanScoreFacts.securityIntIfs := by decide
theorem tie_securityIncreaseIfs : BanScore.Src.securityIncreaseIfs = Gen.BanScoreFacts.securityIncreaseIfs := by decide
theorem tie_securityDecayIfs : BanScore.Src.securityDecayIfs = Gen.BanScoreFacts.securityDecayIfs := by decide
theorem tie_securityReturns : BanScore.Src.securityReturns = Gen.BanScoreFacts.securityReturns := by decide
theorem tie_securityIncreaseAssigns : BanScore.Src.securityIncreaseAssigns = Gen.BanScoreFacts.securityIncreaseAssigns := by decide
theorem tie_securityIntSha : BanScore.Src.securityIntSha = Gen.BanScoreFacts.securityIntSha := by decide
theorem tie_securityIncreaseSha : BanScore.Src.securityIncreaseSha = Gen.BanScoreFacts.securityIncreaseSha := by decide
theorem tie_securityDecaySha : BanScore.Src.securityDecaySha = Gen.BanScoreFacts.securityDecaySha := by decide
theorem tie_securityTableFiller : BanScore.Src.securityTableFiller = Gen.BanScoreFacts.securityTableFiller := by decide
theorem tie_trustHalflife : BanScore.Src.trustHalflife = Gen.BanScoreFacts.trustHalflife := by decide
theorem tie_trustLifetime : BanScore.Src.trustLifetime = Gen.BanScoreFacts.trustLifetime := by decide
theorem tie_trustprecomputedLen : BanScore.Src.trustprecomputedLen = Gen.BanScoreFacts.trustprecomputedLen := by decide
theorem tie_trustLambda : BanScore.Src.trustLambda = Gen.BanScoreFacts.trustLambda := by decide
theorem tie_trustIntIfs : BanScore.Src.trustIntIfs = Gen.BanScoreFacts.trustIntIfs := by decide
theorem tie_trustIncreaseIfs : BanScore.Src.trustIncreaseIfs = Gen.BanScoreFacts.trustIncreaseIfs := by decide
theorem tie_trustDecayIfs : BanScore.Src.trustDecayIfs = Gen.BanScoreFacts.trustDecayIfs := by decide
theorem tie_trustReturns : BanScore.Src.trustReturns = Gen.BanScoreFacts.trustReturns := by decide
theorem tie_trustIncreaseAssigns : BanScore.Src.trustIncreaseAssigns = Gen.BanScoreFacts.trustIncreaseAssigns := by decide
theorem tie_trustIntSha : BanScore.Src.trustIntSha = Gen.BanScoreFacts.trustIntSha := by decide
theorem tie_trustIncreaseSha : BanScore.Src.trustIncreaseSha = Gen.BanScoreFacts.trustIncreaseSha := by decide
theorem tie_trustDecaySha : BanScore.Src.trustDecaySha = Gen.BanScoreFacts.trustDecaySha := by decide
theorem tie_trustTableFiller : BanScore.Src.trustTableFiller = Gen.BanScoreFacts.trustTableFiller := by decide

/-- the model's own constants are the tied ones (both copies) -/
theorem tie_model_consts :
    BanScore.halflife = (Gen.BanScoreFacts.securityHalflife : Int) ∧ BanScore.lifetime = (Gen.BanScoreFacts.securityLifetime : Int) ∧
    BanScore.precomputedLen = (Gen.BanScoreFacts.securityprecomputedLen : Int) ∧
    BanScore.halflife = (Gen.BanScoreFacts.trustHalflife : Int) ∧ BanScore.lifetime = (Gen.BanScoreFacts.trustLifetime : Int) ∧
    BanScore.precomputedLen = (Gen.BanScoreFacts.trustprecomputedLen : Int) := by decide

end BytomModel.Ties.C35
