/-
C17 tie (T1): the model counts the votes of a link with ONE validator set per target — the
effective validators of the target's parent epoch (`cfg.nVal`, the federation, fixed per case) —
for verification messages and for block-carried sup links alike. The Go code has two
conversion functions; both must read the validator set from the same checkpoint
(`target.Parent`). Re-extracted from protocol/casper/verfication.go by gen/valsource.go on every
run (`Gen/ValidatorSource.lean`).

The node engine runs with the federation validators only, so a change that takes the slots of a
block-carried link from another checkpoint (e.g. the link's SOURCE) cannot be exhibited by the
differential run; this tie is what notices it (reported without a failing input).
-/
import BytomModel.Gen.ValidatorSource

namespace BytomModel.Ties.C17

/-- both conversion paths take the validator set from the target's parent checkpoint -/
theorem validator_source_tie :
    BytomModel.Gen.ValidatorSource.validatorSets =
      [("convertVerification", ["target.Parent.EffectiveValidators"]),
       ("supLinkToVerifications", ["target.Parent.EffectiveValidators"])] := by decide

end BytomModel.Ties.C17
