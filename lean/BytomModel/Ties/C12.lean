/-
Ties T1 for C12: the source text (normalised by gen/orphanshape.go: no comments, no logging,
white space collapsed) of the Go functions the orphan part of `Model/Node.lean` mirrors is
still the text the model was written against.  `BytomModel.Gen.OrphanShape` is regenerated from
/repo on every run; an edit of one of these functions makes the corresponding `rfl` fail, and
the model (and the theorems of Props/C12) must be re-inspected.
-/
import BytomModel.Gen.OrphanShape
import BytomModel.Props.C12Pool

namespace BytomModel.Ties.C12
open BytomModel.Gen.OrphanShape

/-- `State.orphanAdd`: no-op when the id is already in the pool, else the block is added and its id is APPENDED to the waiting list of its parent (`numOrphanBlockLimit` eviction is outside the model) -/
theorem tie_omAdd : omAdd =
  "func (o *OrphanManage) Add(block *types.Block) { blockHash := block.Hash() o.mtx.Lock() defer o.mtx.Unlock() if _, ok := o.orphan[blockHash]; ok { return } if len(o.orphan) >= numOrphanBlockLimit { o.deleteLRU() } o.orphan[blockHash] = &OrphanBlock{block, time.Now().Add(orphanBlockTTL)} o.prevOrphans[block.PreviousBlockHash] = append(o.prevOrphans[block.PreviousBlockHash], &blockHash) }" := rfl

/-- `State.isOrphan` -/
theorem tie_omBlockExist : omBlockExist =
  "func (o *OrphanManage) BlockExist(hash *bc.Hash) bool { o.mtx.RLock() _, ok := o.orphan[*hash] o.mtx.RUnlock() return ok }" := rfl

/-- the `none => st` branch of the loop body in `State.saveSubBlock`: a missing entry is answered `(nil, false)` BEFORE `block.Block` is touched (F9 repair, second half) -/
theorem tie_omGet : omGet =
  "func (o *OrphanManage) Get(hash *bc.Hash) (*types.Block, bool) { o.mtx.RLock() block, ok := o.orphan[*hash] o.mtx.RUnlock() if !ok { return nil, false } return block.Block, ok }" := rfl

/-- `State.saveSubBlock` folds over the list read at the start: the caller gets a COPY (`append([]*bc.Hash(nil), …)`), so `delete` shifting the stored slice cannot disturb the loop (F9 repair, first half) — this is what makes the value model faithful -/
theorem tie_omGetPrevOrphans : omGetPrevOrphans =
  "func (o *OrphanManage) GetPrevOrphans(hash *bc.Hash) ([]*bc.Hash, bool) { o.mtx.RLock() prevOrphans, ok := o.prevOrphans[*hash] prevOrphans = append([]*bc.Hash(nil), prevOrphans...) o.mtx.RUnlock() return prevOrphans, ok }" := rfl

/-- `State.orphanDelete`: unknown id → nothing; the parent's entry is dropped when it is missing or has length 1, otherwise the FIRST occurrence of the id is removed (`List.erase`) -/
theorem tie_omDelete : omDelete =
  "func (o *OrphanManage) delete(hash *bc.Hash) { block, ok := o.orphan[*hash] if !ok { return } delete(o.orphan, *hash) prevOrphans, ok := o.prevOrphans[block.Block.PreviousBlockHash] if !ok || len(prevOrphans) == 1 { delete(o.prevOrphans, block.Block.PreviousBlockHash) return } for i, preOrphan := range prevOrphans { if *preOrphan == *hash { o.prevOrphans[block.Block.PreviousBlockHash] = append(prevOrphans[:i], prevOrphans[i+1:]...) return } } }" := rfl

/-- `State.saveBlock`: parent header, previous checkpoint, ValidateBlock (assumed to pass), ApplyBlock, SaveBlock, then `orphanManage.Delete` — in this order, each error returned at once -/
theorem tie_chainSaveBlock : chainSaveBlock =
  "func (c *Chain) saveBlock(block *types.Block) error { parent, err := c.store.GetBlockHeader(&block.PreviousBlockHash) if err != nil { return err } checkpoint, err := c.PrevCheckpointByPrevHash(&block.PreviousBlockHash) if err != nil { return err } if err := validation.ValidateBlock(block, parent, checkpoint, c.ProgramConverter); err != nil { return errors.Sub(ErrBadBlock, err) } if _, err := c.casper.ApplyBlock(block); err != nil { return err } if err := c.store.SaveBlock(block); err != nil { return err } blockHash := block.Hash() c.orphanManage.Delete(&blockHash) return nil }" := rfl

/-- `State.saveSubBlock`: `!ok` → return; for every entry: missing → continue, `saveBlock` error → the orphan is DELETED from the pool (repair of F29) and the loop continues, else recurse -/
theorem tie_chainSaveSubBlock : chainSaveSubBlock =
  "func (c *Chain) saveSubBlock(block *types.Block) { blockHash := block.Hash() prevOrphans, ok := c.orphanManage.GetPrevOrphans(&blockHash) if !ok { return } for _, prevOrphan := range prevOrphans { orphanBlock, ok := c.orphanManage.Get(prevOrphan) if !ok { continue } if err := c.saveBlock(orphanBlock); err != nil { c.orphanManage.Delete(prevOrphan) continue } c.saveSubBlock(orphanBlock) } }" := rfl

/-- `State.processBlock`: known && best height ≥ height → answer whether it is an orphan; parent unknown → `Add`, orphan; `saveBlock` error → error; `saveSubBlock`; `BestChain`; `tryReorganize` -/
theorem tie_chainProcessBlock : chainProcessBlock =
  "func (c *Chain) processBlock(block *types.Block) (bool, error) { blockHash := block.Hash() if c.BlockExist(&blockHash) && c.bestBlockHeader.Height >= block.Height { return c.orphanManage.BlockExist(&blockHash), nil } if _, err := c.store.GetBlockHeader(&block.PreviousBlockHash); err != nil { c.orphanManage.Add(block) return true, nil } if err := c.saveBlock(block); err != nil { return false, err } c.saveSubBlock(block) bestHash := c.casper.BestChain() return false, c.tryReorganize(bestHash) }" := rfl

/-- `exists_` in `State.processBlock`: stored header or orphan -/
theorem tie_chainBlockExist : chainBlockExist =
  "func (c *Chain) BlockExist(hash *bc.Hash) bool { if _, err := c.store.GetBlockHeader(hash); err == nil { return true } return c.orphanManage.BlockExist(hash) }" := rfl

/-- `Pool.deleteLRU` / `minExp`: the entry with the earliest expiration (strict `Before`, so the first seen on a tie), removed through `delete` -/
theorem tie_omDeleteLRU : omDeleteLRU =
  "func (o *OrphanManage) deleteLRU() { var deleteBlock *OrphanBlock for _, orphan := range o.orphan { if deleteBlock == nil || orphan.expiration.Before(deleteBlock.expiration) { deleteBlock = orphan } } if deleteBlock != nil { blockHash := deleteBlock.Block.Hash() o.delete(&blockHash) } }" := rfl

/-- `Pool.expire`: every entry whose expiration is strictly before `now` goes through `delete` -/
theorem tie_omOrphanExpire : omOrphanExpire =
  "func (o *OrphanManage) orphanExpire(now time.Time) { o.mtx.Lock() defer o.mtx.Unlock() for hash, orphan := range o.orphan { if orphan.expiration.Before(now) { o.delete(&hash) } } }" := rfl

/-- the capacity the code is built with is positive (hypothesis of `size_le_limit`) -/
theorem tie_limit_pos : 0 < numOrphanBlockLimit := by decide

/-- **the capacity bound at the code's own limit**: whatever Add / Delete / expiry sequence the
    node goes through, the orphan pool never holds more than `numOrphanBlockLimit` blocks -/
theorem real_limit_bound (ops : List BytomModel.Model.OrphanPool.Op) :
    ((BytomModel.Model.OrphanPool.Pool.init numOrphanBlockLimit).run ops).orphans.length ≤ numOrphanBlockLimit :=
  (BytomModel.Props.C12Pool.size_le_limit numOrphanBlockLimit tie_limit_pos ops).1

end BytomModel.Ties.C12
