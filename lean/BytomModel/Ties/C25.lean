/- T1 ties for C25: ValidHeight rules, consensus maturity rules, constants and tables. -/
import BytomModel.Model.Wallet
import BytomModel.Props.C25
import BytomModel.Gen.WalletFacts
namespace BytomModel.Ties.C25
open BytomModel.Gen.WalletFacts BytomModel.Model.Wallet

/-- the ValidHeight assignments of txOutToUtxos (model: `outUtxo`) -/
theorem validHeight_rules_tie : txOutValidHeightAssignments =
    ["validHeight := uint64(0)", "validHeight = blockHeight + consensus.CoinbasePendingBlockNumber",
     "voteValidHeight := blockHeight + consensus.VotePendingBlockNums(blockHeight)", "validHeight = voteValidHeight"] := by decide

/-- txInToUtxos never sets ValidHeight: restored outputs get 0 (model: `inUtxo`) -/
theorem restored_validHeight_tie : txInSetsValidHeight = false := by decide

/-- applySpendUtxo's two locks (model: `spendableAt`) -/
theorem consensus_locks_tie : consensusSpendLocks =
    ["storage.CoinbaseUTXOType: entry.BlockHeight+consensus.CoinbasePendingBlockNumber > block.Height",
     "storage.VoteUTXOType: entry.BlockHeight+consensus.VotePendingBlockNums(block.Height) > block.Height"] ∧
    votePendingRangeTest = ["height >= pendingNum.BeginBlock && height < pendingNum.EndBlock"] := by decide

/-- the coinbase lock used in the witnesses and in `ParamsOK` instances -/
theorem coinbase_pending_tie : BytomModel.Props.C25.f15Params.cbPending = coinbasePendingBlockNumber := by decide

/-- the mainnet table used by the F15b refutation is the one in consensus/general.go -/
theorem mainnet_pending_tie (h : Nat) :
    BytomModel.Props.C25.mainnetPending h = pendingOfTable mainnetPendingTable defaultVotePendingNum h := by
  unfold BytomModel.Props.C25.mainnetPending pendingOfTable mainnetPendingTable defaultVotePendingNum
  by_cases h1 : h < 432000
  · simp [List.find?, h1]
  · by_cases h2 : h < 18446744073709551615
    · have : 432000 ≤ h := by omega
      simp [List.find?, h1, h2, this]
    · simp [List.find?, h1, h2]

/-- testnet and solonet use the constant 10 for every height a uint64 block height can take -/
theorem testnet_solonet_pending_tie (h : Nat) (hh : h < 18446744073709551615) :
    pendingOfTable testnetPendingTable defaultVotePendingNum h = 10 ∧
    pendingOfTable solonetPendingTable defaultVotePendingNum h = 10 := by
  unfold pendingOfTable testnetPendingTable solonetPendingTable
  simp [List.find?, hh]


/-- the keeper's maturity filter (C25 anchor account/utxo_keeper.go:findUtxos): a matching output id
    is recorded in `listed` BEFORE its maturity is looked at, so the first (wallet-DB) record of an
    output decides, whatever its maturity (model: `matching` = `distinctById`, then the `mature`
    split; theorem `listed_usable_is_mature_confirmed`) -/
theorem findUtxos_dedupe_before_maturity_tie : findUtxosAppend =
    ["if u.AccountID != accountID || u.AssetID != *assetID || !bytes.Equal(u.Vote, vote) { return }",
     "if _, ok := listed[u.OutputID]; ok { return }", "listed[u.OutputID] = struct{}{}",
     "if u.ValidHeight > currentHeight { immatureAmount += u.Amount } else { utxos = append(utxos, u) }"] ∧
    findUtxosListingOrder = ["for utxoIter.Next()", "if !useUnconfirmed return", "range uk.unconfirmed"] := by decide


/-- a rescan (and the first load) clears WorkHash ONLY: BestHash / BestHeight keep naming the
    chain whose blocks the UTXO records reflect, so blocks that leave the main chain during the
    replay are still detached -/
theorem rescan_resets_work_only_tie : statusWrites_setRescanStatus = ["w.status.WorkHash = bc.Hash{}"] ∧
    statusWrites_loadWalletInfo = ["w.status.Version = currentVersion", "w.status.WorkHash = bc.Hash{}"] := by decide

end BytomModel.Ties.C25
