/-
The whole machine: potential, invariant, `finish`, `smallStep`, the termination measure,
and the theorems about `runFuelG` (guarded run) that C07 is built from.
-/
import BytomModel.Lemmas.VMMachine
namespace BytomModel.VM
open OpM
set_option linter.unusedSimpArgs false
set_option linter.unusedVariables false
set_option linter.unnecessarySeqFocus false
set_option linter.unusedTactic false
set_option linter.unreachableTactic false

section
variable {μ ι : Type} (M : MemOps μ ι) (ctx : Context ι)

/-- what a suspended parent owns: its potential plus the refunds pending in `deferredCost` -/
def parentPsi (p : Frame ι) : Int := frameA M p - p.deferred

def sumPsi : List (Frame ι) → Int
  | [] => 0
  | p :: ps => parentPsi M p + sumPsi ps

/-- the potential of the whole machine -/
def phiM (m : Machine μ ι) : Int := frameA M m.cur + sumPsi M m.parents

/-- a parent suspended inside opCheckPredicate: it paid, and ≥ 216 are pending as refund -/
def ParentInv (p : Frame ι) : Prop := 0 ≤ p.runLimit ∧ p.deferred + 216 ≤ 0

def Inv (m : Machine μ ι) : Prop := 0 ≤ m.cur.runLimit ∧ ∀ p ∈ m.parents, ParentInv p

theorem frameA_nonneg (f : Frame ι) (h : 0 ≤ f.runLimit) : 0 ≤ frameA M f := by
  have := stackCost_nonneg M f.data
  have := stackCost_nonneg M f.alt
  unfold frameA; omega

theorem runLimit_le_frameA (f : Frame ι) : f.runLimit ≤ frameA M f := by
  have := stackCost_nonneg M f.data
  have := stackCost_nonneg M f.alt
  unfold frameA; omega

theorem sumPsi_nonneg (ps : List (Frame ι)) (h : ∀ p ∈ ps, ParentInv p) : 0 ≤ sumPsi M ps := by
  induction ps with
  | nil => simp [sumPsi]
  | cons p ps ih =>
    have hp := h p (by simp)
    have := frameA_nonneg M p hp.1
    have := ih (fun q hq => h q (by simp [hq]))
    simp only [sumPsi, parentPsi]; have := hp.2; omega

theorem phiM_nonneg (m : Machine μ ι) (h : Inv m) : 0 ≤ phiM M m := by
  have := frameA_nonneg M m.cur h.1
  have := sumPsi_nonneg M m.parents h.2
  unfold phiM; omega

theorem boolBytes_length_le (b : Bool) : (boolBytes b).length ≤ 1 := by
  cases b <;> simp [boolBytes]

/-! ### `finish`: resuming the parent never fails and conserves the potential -/

theorem finish_cons (L : MemLaws M) (mem : μ) (child : Frame ι) (e : Option Err) (p : Frame ι)
    (ps : List (Frame ι)) (hc : 0 ≤ child.runLimit) (hp : ParentInv p) :
    ∃ m', finish M mem child e (p :: ps) = .inl m' ∧ m'.parents = ps ∧
      frameA M m'.cur = frameA M child + parentPsi M p ∧ 0 ≤ m'.cur.runLimit ∧
      Ctl3 p m'.cur := by
  obtain ⟨prog, pc, nextPC, rl, d, data, alt, depth, er⟩ := p
  obtain ⟨h1, h2⟩ := hp
  dsimp only at h1 h2
  have hA := frameA_nonneg M child hc
  set b := (e.isNone && !falseResult M mem child) with hb
  have hlen := L.len_fresh mem (boolBytes b) 0
  have hbl := boolBytes_length_le b
  unfold finish
  simp only [cpPostlude, bind_run, deferCost_run, Res.bindK_ok, get_run, pushBool, pushBytes, allocBytes_run,
    pushItem_def, epilogue_run, itemCost, ← hb]
  have hcond : ¬ (d + -child.runLimit + -stackCost M.len child.data + -stackCost M.len child.alt +
      (8 + (M.len (M.fresh mem (boolBytes b) 0).2 : Int)) > rl) := by
    rw [hlen]; unfold frameA at hA; omega
  simp only [hcond, if_false, Res.bindK_ok]
  refine ⟨_, rfl, rfl, ?_, ?_, ⟨rfl, rfl, rfl⟩⟩
  · simp [frameA, parentPsi, stackCost]; omega
  · simp; rw [hlen]; unfold frameA at hA; omega

theorem finish_nil (mem : μ) (child : Frame ι) (e : Option Err) :
    finish M mem child e [] = .inr (.done mem child e) := rfl

/-! ### the termination measure -/

def meas (m : Machine μ ι) : Nat × Nat × Nat :=
  ((phiM M m).toNat, m.parents.length, progLen M m.cur - m.cur.pc)

def measLt : Nat × Nat × Nat → Nat × Nat × Nat → Prop :=
  Prod.Lex (· < ·) (Prod.Lex (· < ·) (· < ·))

theorem measLt_wf : WellFounded measLt :=
  (Prod.lex Nat.lt_wfRel (Prod.lex Nat.lt_wfRel Nat.lt_wfRel)).wf

theorem measLt_of_phi_lt {a a' : Int} {b b' c c' : Nat} (h0 : 0 ≤ a') (h : a' < a) :
    measLt (a'.toNat, b', c') (a.toNat, b, c) := by
  apply Prod.Lex.left; omega

theorem measLt_of_phi_le_len_lt {a a' : Int} {b b' c c' : Nat} (h0 : 0 ≤ a') (h : a' ≤ a) (hb : b' < b) :
    measLt (a'.toNat, b', c') (a.toNat, b, c) := by
  by_cases hlt : a' < a
  · exact measLt_of_phi_lt h0 hlt
  · have : a' = a := by omega
    subst this
    exact Prod.Lex.right _ (Prod.Lex.left _ _ hb)

theorem measLt_of_phi_le_pc_lt {a a' : Int} {b c c' : Nat} (h0 : 0 ≤ a') (h : a' ≤ a) (hc : c' < c) :
    measLt (a'.toNat, b, c') (a.toNat, b, c) := by
  by_cases hlt : a' < a
  · exact measLt_of_phi_lt h0 hlt
  · have : a' = a := by omega
    subst this
    exact Prod.Lex.right _ (Prod.Lex.right _ hc)

/-! ### one small step of the guarded machine -/

/-- what a small step that is not the "unpaid refund" event guarantees -/
def StepOK (m : Machine μ ι) : Machine μ ι ⊕ Final μ ι → Prop
  | .inl m' => Inv m' ∧ phiM M m' ≤ phiM M m ∧ measLt (meas M m') (meas M m)
  | .inr (.done _ f _) => m.parents = [] ∧ 0 ≤ f.runLimit ∧ f.runLimit ≤ frameA M m.cur
  | .inr .panic => True

/-- returning from the current VM (normally or with an error) -/
theorem finish_ok (L : MemLaws M) (mem0 : μ) (cur : Frame ι) (parents : List (Frame ι))
    (mem : μ) (child : Frame ι) (e : Option Err)
    (hpar : ∀ p ∈ parents, ParentInv p) (hc : 0 ≤ child.runLimit)
    (hA : parents ≠ [] → frameA M child ≤ frameA M cur) (hrl : child.runLimit ≤ frameA M cur) :
    StepOK M ⟨mem0, cur, parents⟩ (finish M mem child e parents) := by
  cases parents with
  | nil =>
    rw [finish_nil]
    exact ⟨rfl, hc, hrl⟩
  | cons p ps =>
    have hp : ParentInv p := hpar p (by simp)
    obtain ⟨m', hm', hpar', hA', hrl', _⟩ := finish_cons M L mem child e p ps hc hp
    rw [hm']
    have hinv' : Inv m' := ⟨hrl', by rw [hpar']; intro q hq; exact hpar q (by simp [hq])⟩
    have hA2 := hA (by simp)
    have hphi : phiM M m' ≤ phiM M ⟨mem0, cur, p :: ps⟩ := by
      unfold phiM
      rw [hpar', hA']
      simp only [sumPsi]
      omega
    refine ⟨hinv', hphi, ?_⟩
    have h0 := phiM_nonneg M m' hinv'
    unfold meas
    rw [hpar']
    exact measLt_of_phi_le_len_lt h0 hphi (by simp)

theorem stepCost_nonneg (op : Nat) : 0 ≤ stepCost op := by
  unfold stepCost
  split
  · omega
  · by_cases h : op = 0xad
    · subst h; decide
    · have := baseCost_pos op h; omega

/-- an instruction completed in the current VM -/
theorem continue_ok (mem0 : μ) (cur : Frame ι) (parents : List (Frame ι)) (s : St μ ι)
    (hpar : ∀ p ∈ parents, ParentInv p) (hcur : 0 ≤ cur.runLimit) (hpc : cur.pc < progLen M cur)
    (hfs : ∃ inst, parseOpL (M.len cur.prog) (M.read mem0 cur.prog) cur.pc = .ok inst ∧
          frameA M s.f + stepCost inst.op ≤ frameA M cur ∧ 0 ≤ s.f.runLimit ∧ Ctl3 cur s.f ∧
          (frameA M s.f + 1 ≤ frameA M cur ∨ s.f.pc = cur.pc + inst.len)) :
    StepOK M ⟨mem0, cur, parents⟩ (.inl ⟨s.mem, s.f, parents⟩) := by
  obtain ⟨inst, hparse, hA, hrl, ⟨c1, c2, c3⟩, hprog⟩ := hfs
  have hinv' : Inv (⟨s.mem, s.f, parents⟩ : Machine μ ι) := ⟨hrl, hpar⟩
  have hle : frameA M s.f ≤ frameA M cur := by
    have := stepCost_nonneg inst.op; omega
  have h0 := phiM_nonneg M _ hinv'
  have hphi : phiM M ⟨s.mem, s.f, parents⟩ ≤ phiM M ⟨mem0, cur, parents⟩ := by
    unfold phiM; dsimp only; omega
  refine ⟨hinv', hphi, ?_⟩
  unfold meas
  rcases hprog with hlt | hpc'
  · exact measLt_of_phi_lt h0 (by unfold phiM; dsimp only; omega)
  · have hp := parseOpL_ok hparse
    have hlen : progLen M s.f = progLen M cur := by unfold progLen; rw [c1]
    apply measLt_of_phi_le_pc_lt h0 hphi
    dsimp only
    rw [hlen, hpc']
    unfold progLen at hpc ⊢
    omega

/-- CHECKPREDICATE starts a child VM -/
theorem enter_ok (mem0 : μ) (cur : Frame ι) (parents : List (Frame ι)) (s : St μ ι) (c : ChildSpec ι)
    (hpar : ∀ p ∈ parents, ParentInv p)
    (hfs : frameA M s.f - s.f.deferred + 64 + c.limit ≤ frameA M cur ∧
          0 ≤ s.f.runLimit ∧ 0 ≤ c.limit ∧ s.f.deferred + 216 ≤ 0 ∧ c.n ≤ s.f.data.length ∧ Ctl3 cur s.f) :
    StepOK M ⟨mem0, cur, parents⟩ (.inl ⟨s.mem,
        { prog := c.predicate, pc := 0, nextPC := 0, runLimit := c.limit, deferred := 0,
          data := s.f.data.take c.n, alt := [], depth := s.f.depth + 1, expRes := false },
        { s.f with data := s.f.data.drop c.n } :: parents⟩) := by
  obtain ⟨hA, hrl, hlim, hdef, hn, _⟩ := hfs
  have htd := stackCost_take_drop M s.f.data c.n
  have hinv' : Inv (⟨s.mem,
      { prog := c.predicate, pc := 0, nextPC := 0, runLimit := c.limit, deferred := 0,
        data := s.f.data.take c.n, alt := [], depth := s.f.depth + 1, expRes := false },
      { s.f with data := s.f.data.drop c.n } :: parents⟩ : Machine μ ι) := by
    refine ⟨hlim, ?_⟩
    intro q hq
    rcases List.mem_cons.mp hq with rfl | hq
    · exact ⟨hrl, hdef⟩
    · exact hpar q hq
  have h0 := phiM_nonneg M _ hinv'
  have hphi : phiM M ⟨s.mem,
      { prog := c.predicate, pc := 0, nextPC := 0, runLimit := c.limit, deferred := 0,
        data := s.f.data.take c.n, alt := [], depth := s.f.depth + 1, expRes := false },
      { s.f with data := s.f.data.drop c.n } :: parents⟩ + 64 ≤ phiM M ⟨mem0, cur, parents⟩ := by
    unfold phiM frameA at *
    simp only [sumPsi, parentPsi, frameA, stackCost] at *
    omega
  refine ⟨hinv', by omega, ?_⟩
  unfold meas
  exact measLt_of_phi_lt h0 (by omega)

theorem smallStep_ok (L : MemLaws M) (m : Machine μ ι) (hinv : Inv m) (hev : badEvent M ctx m = false) :
    StepOK M m (smallStep M ctx m) := by
  obtain ⟨mem0, cur, parents⟩ := m
  obtain ⟨hcur, hpar⟩ := hinv
  dsimp only at hcur hpar
  unfold smallStep
  dsimp only
  by_cases hpc : cur.pc ≥ progLen M cur
  · rw [if_pos hpc]
    exact finish_ok M L mem0 cur parents mem0 cur none hpar hcur (fun _ => le_refl _) (runLimit_le_frameA M cur)
  · rw [if_neg hpc]
    have hfs := frameStep_ok M ctx L ⟨mem0, cur⟩ hcur
    cases hstep : frameStep M ctx ⟨mem0, cur⟩ with
    | panic => trivial
    | ok a s =>
      rw [hstep] at hfs
      cases a with
      | continue_ =>
        simp only [FrameOK, ResP_ok] at hfs
        exact continue_ok M mem0 cur parents s hpar hcur (by omega) hfs
      | enterChild c =>
        simp only [FrameOK, ResP_ok] at hfs
        exact enter_ok M mem0 cur parents s c hpar hfs
    | err e s =>
      rw [hstep] at hfs
      simp only [FrameOK, ResP_err] at hfs
      obtain ⟨hrl, _, hor⟩ := hfs
      apply finish_ok M L mem0 cur parents s.mem s.f (some e) hpar hrl
      · intro hne
        unfold badEvent at hev
        dsimp only at hev
        rw [hstep] at hev
        have hpc' : cur.pc < progLen M cur := by omega
        cases parents with
        | nil => exact absurd rfl hne
        | cons p ps =>
          simp [hpc'] at hev
          exact hev
      · rcases hor with h1 | h1
        · have := runLimit_le_frameA M s.f; omega
        · rw [h1]; exact frameA_nonneg M cur hcur

end
end BytomModel.VM
