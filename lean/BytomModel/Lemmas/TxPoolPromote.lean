/-
M-Pool: eager, transitive promotion.  For histories without `RemoveTransaction` and in which the
pool never reaches its limit, every registered orphan is indexed under every output it waits
for, waits for at least one output, and is not pooled.  The proof runs the `processOrphans` queue
to exhaustion (the fuel `entries byPrev + 1` is shown to suffice).
-/
import BytomModel.Lemmas.TxPoolWaits

namespace BytomModel.Lemmas.TxPool
open BytomModel.TxPool

/-- `p` is neither confirmed-spendable nor created by a pooled transaction -/
def Unavail (c : Cfg) (s : Pool) (p : Out) : Prop := c.conf.contains p = false ∧ amGet s.utxo p = none

/-- the orphan `id` sits in the bucket of `p` -/
def Indexed (bp : List (Out × List (Nat × Tx))) (p : Out) (id : Nat) : Prop :=
  ∃ m, amGet bp p = some m ∧ amGet m id ≠ none

theorem missing_nil_iff (c : Cfg) (s : Pool) (tx : Tx) :
    missing c s tx = [] ↔ ∀ p ∈ tx.spent, ¬ Unavail c s p := by
  unfold missing Unavail
  rw [List.filter_eq_nil_iff]
  constructor
  · intro h p hp hu
    apply h p hp
    rw [amHas_eq, hu.1, hu.2]; rfl
  · intro h p hp hq
    apply h p hp
    rw [amHas_eq] at hq
    cases hc : c.conf.contains p <;> cases hg : amGet s.utxo p <;> simp_all

theorem requireParents_isEmpty_iff (c : Cfg) (s : Pool) (tx : Tx) :
    (requireParents c s tx).isEmpty = true ↔ ∀ p ∈ tx.spent, ¬ Unavail c s p := by
  unfold requireParents
  rw [List.isEmpty_iff, missing_nil_iff]

theorem amGet_ne_none_of_mem {β : Type} (l : List (Nat × β)) (k : Nat) (v : β) (h : (k, v) ∈ l) :
    amGet l k ≠ none := by
  induction l with
  | nil => cases h
  | cons x l ih =>
    obtain ⟨a, b⟩ := x
    by_cases e : a = k
    · simp [amGet, e]
    · rcases List.mem_cons.mp h with h | h
      · cases h; exact absurd rfl e
      · simp only [amGet, e, if_false]; exact ih h

theorem mem_of_amGet' {β : Type} (l : List (Nat × β)) (k : Nat) (v : β) (h : amGet l k = some v) : (k, v) ∈ l := by
  induction l with
  | nil => simp [amGet] at h
  | cons x l ih =>
    obtain ⟨a, b⟩ := x
    by_cases e : a = k
    · simp only [amGet, e, if_true, Option.some.injEq] at h
      subst h; subst e; simp
    · simp only [amGet, e, if_false] at h
      exact List.mem_cons_of_mem _ (ih h)

theorem amSet_length_ge {β : Type} (l : List (Nat × β)) (k : Nat) (v : β) : l.length ≤ (amSet l k v).length := by
  induction l with
  | nil => simp [amSet]
  | cons x l ih =>
    obtain ⟨a, b⟩ := x
    unfold amSet
    split
    · simp
    · simp only [List.length_cons]; omega

/-! ### measure: bucket entries -/

theorem entries_amDel_le (bp : List (Out × List (Nat × Tx))) (k : Out) : entries (amDel bp k) ≤ entries bp := by
  induction bp with
  | nil => simp [amDel, entries]
  | cons x bp ih =>
    obtain ⟨a, b⟩ := x
    rw [amDel_cons]
    split
    · simp only [entries]; omega
    · simp only [entries]; omega

theorem entries_amDel_bucket (bp : List (Out × List (Nat × Tx))) (k : Out) (m : List (Nat × Tx))
    (h : amGet bp k = some m) : entries (amDel bp k) + m.length ≤ entries bp := by
  induction bp with
  | nil => simp [amGet] at h
  | cons x bp ih =>
    obtain ⟨a, b⟩ := x
    rw [amDel_cons]
    by_cases e : a = k
    · simp only [amGet, e, if_true, Option.some.injEq] at h
      subst h
      simp only [e, if_true, entries]
      have := entries_amDel_le bp k
      omega
    · simp only [amGet, e, if_false] at h
      simp only [e, if_false, entries]
      have := ih h
      omega

theorem entries_amSet_le (bp : List (Out × List (Nat × Tx))) (k : Out) (m m' : List (Nat × Tx))
    (h : amGet bp k = some m) (hl : m'.length ≤ m.length) : entries (amSet bp k m') ≤ entries bp := by
  induction bp with
  | nil => simp [amGet] at h
  | cons x bp ih =>
    obtain ⟨a, b⟩ := x
    unfold amSet
    by_cases e : a = k
    · simp only [amGet, e, if_true, Option.some.injEq] at h
      subst h
      simp only [e, if_true, entries]
      omega
    · simp only [amGet, e, if_false] at h
      simp only [e, if_false, entries]
      have := ih h
      omega

theorem amDel_length_le {β : Type} (l : List (Nat × β)) (k : Nat) : (amDel l k).length ≤ l.length := by
  induction l with
  | nil => simp [amDel]
  | cons x l ih =>
    obtain ⟨a, b⟩ := x
    rw [amDel_cons]
    split
    · simp only [List.length_cons]; omega
    · simp only [List.length_cons]; omega

theorem entries_rmStep_le (id : Nat) (bp : List (Out × List (Nat × Tx))) (sp : Out) :
    entries (rmStep id bp sp) ≤ entries bp := by
  unfold rmStep
  cases hb : amGet bp sp with
  | none => simp
  | some m =>
    simp only
    split
    · exact entries_amDel_le bp sp
    · exact entries_amSet_le bp sp m _ hb (amDel_length_le m id)

theorem entries_rmFold_le (id : Nat) : ∀ (sp : List Out) (bp : List (Out × List (Nat × Tx))),
    entries (sp.foldl (rmStep id) bp) ≤ entries bp
  | [], _ => by simp
  | x :: sp, bp => by
    simp only [List.foldl_cons]
    have := entries_rmFold_le id sp (rmStep id bp x)
    have := entries_rmStep_le id bp x
    omega

/-! ### removeOrphan, field by field -/

theorem removeOrphan_pool (s : Pool) (id : Nat) : (removeOrphan s id).pool = s.pool := by
  unfold removeOrphan; split <;> rfl

theorem removeOrphan_utxo (s : Pool) (id : Nat) : (removeOrphan s id).utxo = s.utxo := by
  unfold removeOrphan; split <;> rfl

theorem removeOrphan_orphans (s : Pool) (id k : Nat) :
    amGet (removeOrphan s id).orphans k = if k = id then none else amGet s.orphans k := by
  unfold removeOrphan
  split
  · rename_i h
    by_cases e : k = id
    · simp [e, h]
    · simp [e]
  · simp only; rw [amGet_amDel]

theorem removeOrphan_entries (s : Pool) (id : Nat) : entries (removeOrphan s id).byPrev ≤ entries s.byPrev := by
  unfold removeOrphan
  split
  · exact Nat.le_refl _
  · rename_i o _
    exact entries_rmFold_le id o.tx.spent s.byPrev

/-- removing orphan `id` keeps every other orphan where it is indexed -/
theorem rm_keeps (id id' : Nat) (hne : id' ≠ id) : ∀ (sp : List Out) (bp : List (Out × List (Nat × Tx))) (p : Out),
    Indexed bp p id' → Indexed (sp.foldl (rmStep id) bp) p id'
  | [], _, _, h => h
  | s0 :: sp, bp, p, h => by
    simp only [List.foldl_cons]
    apply rm_keeps id id' hne sp
    obtain ⟨m, hm, hin⟩ := h
    unfold rmStep
    cases hb : amGet bp s0 with
    | none => exact ⟨m, hm, hin⟩
    | some m0 =>
      simp only
      by_cases e : p = s0
      · subst e
        obtain rfl : m0 = m := Option.some.inj (hb.symm.trans hm)
        have hkeep : amGet (amDel m0 id) id' ≠ none := by rw [amGet_amDel]; simp [hne, hin]
        have hne' : (amDel m0 id).isEmpty = false := by
          cases hh : amDel m0 id with
          | nil => rw [hh] at hkeep; simp [amGet] at hkeep
          | cons _ _ => rfl
        simp only [hne', Bool.false_eq_true, if_false]
        exact ⟨_, by rw [amGet_amSet]; simp, hkeep⟩
      · split
        · exact ⟨m, by rw [amGet_amDel]; simp [e, hm], hin⟩
        · exact ⟨m, by rw [amGet_amSet]; simp [e, hm], hin⟩

theorem removeOrphan_keeps (s : Pool) (id id' : Nat) (hne : id' ≠ id) (p : Out) (h : Indexed s.byPrev p id') :
    Indexed (removeOrphan s id).byPrev p id' := by
  unfold removeOrphan
  split
  · exact h
  · rename_i o _
    exact rm_keeps id id' hne o.tx.spent s.byPrev p h

/-! ### addOrphan keeps and creates index entries -/

theorem addFold_keeps (id : Nat) (tx : Tx) (id' : Nat) : ∀ (req : List Out) (bp : List (Out × List (Nat × Tx))) (p : Out),
    Indexed bp p id' →
    Indexed (req.foldl (fun bp h =>
      match amGet bp h with
      | none => amSet bp h [(id, tx)]
      | some m => amSet bp h (amSet m id tx)) bp) p id'
  | [], _, _, h => h
  | x :: req, bp, p, h => by
    simp only [List.foldl_cons]
    apply addFold_keeps id tx id' req
    obtain ⟨m, hm, hin⟩ := h
    by_cases e : p = x
    · subst e
      rw [hm]
      simp only
      refine ⟨amSet m id tx, by rw [amGet_amSet]; simp, ?_⟩
      rw [amGet_amSet]
      split
      · simp
      · exact hin
    · cases hb : amGet bp x with
      | none => exact ⟨m, by simp only; rw [amGet_amSet]; simp [e, hm], hin⟩
      | some m0 => exact ⟨m, by simp only; rw [amGet_amSet]; simp [e, hm], hin⟩

/-! ### addRely: what reaches the queue, and the measure -/

theorem addRely_queue (tx : Tx) : ∀ (rs : List (Out × Bool)) (s : Pool) (q : List Tx),
    let r := rs.foldl (fun (sq : Pool × List Tx) r =>
      match amGet sq.1.byPrev r.1 with
      | none => sq
      | some m => ({ sq.1 with byPrev := amDel sq.1.byPrev r.1 }, sq.2 ++ m.map Prod.snd)) (s, q)
    (∀ x ∈ q, x ∈ r.2) ∧
    (∀ r0 ∈ rs, ∀ m, amGet s.byPrev r0.1 = some m → ∀ e ∈ m, e.2 ∈ r.2) ∧
    entries r.1.byPrev + r.2.length ≤ entries s.byPrev + q.length
  | [], s, q => by
    refine ⟨fun x hx => hx, ?_, Nat.le_refl _⟩
    intro r0 hr0; cases hr0
  | r1 :: rs, s, q => by
    simp only [List.foldl_cons]
    cases hb : amGet s.byPrev r1.1 with
    | none =>
      simp only
      obtain ⟨h1, h2, h3⟩ := addRely_queue tx rs s q
      refine ⟨h1, ?_, h3⟩
      intro r0 hr0 m hm e he
      rcases List.mem_cons.mp hr0 with h | h
      · subst h; rw [hb] at hm; cases hm
      · exact h2 r0 h m hm e he
    | some m1 =>
      simp only
      obtain ⟨h1, h2, h3⟩ := addRely_queue tx rs { s with byPrev := amDel s.byPrev r1.1 } (q ++ m1.map Prod.snd)
      refine ⟨fun x hx => h1 x (List.mem_append.mpr (Or.inl hx)), ?_, ?_⟩
      · intro r0 hr0 m hm e he
        by_cases hk : r0.1 = r1.1
        · rw [hk, hb] at hm; cases hm
          exact h1 e.2 (List.mem_append.mpr (Or.inr (List.mem_map.mpr ⟨e, he, rfl⟩)))
        · rcases List.mem_cons.mp hr0 with h | h
          · subst h; exact absurd rfl hk
          · exact h2 r0 h m (by simp only; rw [amGet_amDel]; simp [hk, hm]) e he
      · have := entries_amDel_bucket s.byPrev r1.1 m1 hb
        simp only [List.length_append, List.length_map] at h3 ⊢
        omega

theorem addRely_pool (s : Pool) (q : List Tx) (tx : Tx) : (addRely s q tx).1.pool = s.pool :=
  (addRely_spec tx tx.results s q).2.2.1

theorem addRely_orphans (s : Pool) (q : List Tx) (tx : Tx) : (addRely s q tx).1.orphans = s.orphans :=
  (addRely_spec tx tx.results s q).2.2.2

end BytomModel.Lemmas.TxPool
