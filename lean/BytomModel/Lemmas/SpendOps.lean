/-
C02: one `frameStep` of each opcode the standard programs use, on explicit frames of the
value-memory VM model: exact successor frame under an explicit gas hypothesis, and the
failure classes. Then the small-step machine: `Steps` / `Halts`.
-/
import BytomModel.Lemmas.SpendExec

namespace BytomModel.Lemmas.SpendExec
open BytomModel.VM OpM

/-- one non-expansion, non-CHECKPREDICATE instruction: run the handler on the frame with
    `nextPC` set and `deferred` reset, charge the deferred cost, advance the pc -/
theorem frameStep_op (ctx : Context Bytes) (f : Frame Bytes) (inst : Inst)
    (hparse : parseOpL f.prog.length f.prog f.pc = .ok inst) (hexp : isExpansion inst.op = false)
    (hcp : inst.op ≠ 0xc0) :
    frameStep valueMem ctx ⟨(), f⟩ =
      match execOp valueMem ctx inst.op inst.data ⟨(), { f with nextPC := f.pc + inst.len, deferred := 0 }⟩ with
      | .ok _ s =>
        (match applyCost s.f.deferred s with
         | .ok _ s' => .ok .continue_ ⟨s'.mem, { s'.f with pc := s'.f.nextPC }⟩
         | .err e s' => .err e s'
         | .panic => .panic)
      | .err e s => .err e s
      | .panic => .panic := by
  unfold frameStep
  simp only [bind_def, get_def, vlen, vread, hparse, ofExcept_ok, modifyF_def, hexp, opCheckPredicateCode, hcp,
    Bool.false_eq_true, if_false, epilogue, getF_def, pure_def]
  cases h : execOp valueMem ctx inst.op inst.data ⟨(), { f with nextPC := f.pc + inst.len, deferred := 0 }⟩ with
  | ok a s =>
    simp only []
    cases h2 : applyCost s.f.deferred s <;> simp
  | err e s => simp
  | panic => simp

/-! ### handlers on explicit frames -/

section Ops
variable (ctx : Context Bytes) (P : Bytes) (pc np : Nat) (rl : Int) (alt : List Bytes) (d : Nat) (e : Bool)

theorem e76 (dt : Bytes) : execOp valueMem ctx 0x76 dt = nDup valueMem 1 := rfl
theorem eab (dt : Bytes) : execOp valueMem ctx 0xab dt = opHash160 valueMem ctx := rfl
theorem eaa (dt : Bytes) : execOp valueMem ctx 0xaa dt = doHash valueMem ctx.sha3 := rfl
theorem e88 (dt : Bytes) : execOp valueMem ctx 0x88 dt = opEqualVerify valueMem := rfl
theorem eae (dt : Bytes) : execOp valueMem ctx 0xae dt = opTxSigHash valueMem ctx := rfl
theorem e7c (dt : Bytes) : execOp valueMem ctx 0x7c dt = opSwap := rfl
theorem eac (dt : Bytes) : execOp valueMem ctx 0xac dt = opCheckSig valueMem ctx := rfl
theorem ead (dt : Bytes) : execOp valueMem ctx 0xad dt = opCheckMultiSig valueMem ctx := rfl
theorem e00 (dt : Bytes) : execOp valueMem ctx 0x00 dt = opFalse valueMem := rfl
theorem epush (dt : Bytes) (op : Nat) (h0 : op ≠ 0) (h : op ≤ 0x4e) : execOp valueMem ctx op dt = opPushdata valueMem dt := by
  unfold execOp; simp [h0, h]
theorem esmall (dt : Bytes) (op : Nat) (h0 : 0x51 ≤ op) (h : op ≤ 0x60) : execOp valueMem ctx op dt = opPushdata valueMem dt := by
  unfold execOp
  have : ¬ op = 0 := by omega
  have h2 : ¬ op ≤ 0x4e := by omega
  simp [this, h2, h0, h]

/-- DUP -/
theorem dup_ok (x : Bytes) (rest : List Bytes) (hg : 9 + (x.length : Int) ≤ rl) :
    nDup valueMem 1 (⟨(), ⟨P, pc, np, rl, 0, x :: rest, alt, d, e⟩⟩ : VS) =
      .ok () ⟨(), ⟨P, pc, np, rl - (9 + x.length), 0, x :: x :: rest, alt, d, e⟩⟩ := by
  simp (disch := omega) [nDup, dupLoop, applyCost_ok, pushItem, itemCost]
  rw [List.getElem?_cons_zero]
  simp (disch := omega) [applyCost_ok]
  omega

theorem dup_empty (hg : 1 ≤ rl) :
    nDup valueMem 1 (⟨(), ⟨P, pc, np, rl, 0, [], alt, d, e⟩⟩ : VS) =
      .err .dataStackUnderflow ⟨(), ⟨P, pc, np, rl - 1, 0, [], alt, d, e⟩⟩ := by
  simp (disch := omega) [nDup, applyCost_ok]

/-- HASH160 -/
theorem hash160_ok (x : Bytes) (rest : List Bytes) (hg : 64 + ((ctx.ripemd160 x).length : Int) ≤ rl) :
    opHash160 valueMem ctx (⟨(), ⟨P, pc, np, rl, 0, x :: rest, alt, d, e⟩⟩ : VS) =
      .ok () ⟨(), ⟨P, pc, np, rl - (64 + (ctx.ripemd160 x).length), 0, ctx.ripemd160 x :: rest, alt, d, e⟩⟩ := by
  simp (disch := omega) [opHash160, pop, itemCost, applyCost_ok, readItem, pushBytes, allocBytes, pushItem]
  omega

/-- SHA3 / SHA256 -/
theorem hash_ok (h : Bytes → Bytes) (x : Bytes) (rest : List Bytes)
    (hg : 64 + (x.length : Int) + ((h x).length : Int) ≤ rl) :
    doHash valueMem h (⟨(), ⟨P, pc, np, rl, 0, x :: rest, alt, d, e⟩⟩ : VS) =
      .ok () ⟨(), ⟨P, pc, np, rl + 8 + x.length - ((max 64 x.length : Nat) : Int) - (8 + (h x).length), 0,
        h x :: rest, alt, d, e⟩⟩ := by
  by_cases hx : (x.length : Int) < 64
  · simp (disch := omega) [doHash, pop, itemCost, applyCost_ok, readItem, pushBytes, allocBytes, pushItem, hx]
    omega
  · simp (disch := omega) [doHash, pop, itemCost, applyCost_ok, readItem, pushBytes, allocBytes, pushItem, hx]
    omega

/-- a data push (direct push opcodes and OP_1 … OP_16) -/
theorem pushdata_ok (dt : Bytes) (data : List Bytes) (hg : 9 + (dt.length : Int) ≤ rl) :
    opPushdata valueMem dt (⟨(), ⟨P, pc, np, rl, 0, data, alt, d, e⟩⟩ : VS) =
      .ok () ⟨(), ⟨P, pc, np, rl - (9 + dt.length), 0, dt :: data, alt, d, e⟩⟩ := by
  simp (disch := omega) [opPushdata, applyCost_ok, pushBytes, allocBytes, pushItem, itemCost]
  omega

/-- OP_0 / FALSE -/
theorem false_ok (data : List Bytes) (hg : 9 ≤ rl) :
    opFalse valueMem (⟨(), ⟨P, pc, np, rl, 0, data, alt, d, e⟩⟩ : VS) =
      .ok () ⟨(), ⟨P, pc, np, rl - 9, 0, [] :: data, alt, d, e⟩⟩ := by
  simp (disch := omega) [opFalse, applyCost_ok, pushBool, boolBytes, pushBytes, allocBytes, pushItem, itemCost]
  omega

/-- EQUALVERIFY: the handler leaves the refund of both items in `deferred` -/
theorem equalverify_run (a b : Bytes) (rest : List Bytes) (hg : 1 + (min a.length b.length : Int) ≤ rl) :
    opEqualVerify valueMem (⟨(), ⟨P, pc, np, rl, 0, b :: a :: rest, alt, d, e⟩⟩ : VS) =
      if a = b then
        .ok () ⟨(), ⟨P, pc, np, rl - 1 - (min a.length b.length : Nat), 0 - (8 + b.length) - (8 + a.length), rest, alt, d, e⟩⟩
      else
        .err .verifyFailed ⟨(), ⟨P, pc, np, rl - 1 - (min a.length b.length : Nat), 0 - (8 + b.length) - (8 + a.length), rest, alt, d, e⟩⟩ := by
  have hmin : ((min a.length b.length : Nat) : Int) ≤ rl - 1 := by omega
  simp (disch := omega) [opEqualVerify, doEqual, applyCost_ok, pop, itemCost, readItem]
  by_cases hab : a = b
  · simp [hab]
  · simp [hab]

/-- TXSIGHASH -/
theorem txsighash_ok (h : Bytes) (hh : ctx.txSigHash = some h) (data : List Bytes) (hg : 264 + (h.length : Int) ≤ rl) :
    opTxSigHash valueMem ctx (⟨(), ⟨P, pc, np, rl, 0, data, alt, d, e⟩⟩ : VS) =
      .ok () ⟨(), ⟨P, pc, np, rl - (264 + h.length), 0, h :: data, alt, d, e⟩⟩ := by
  simp (disch := omega) [opTxSigHash, applyCost_ok, hh, pushBytes, allocBytes, pushItem, itemCost]
  omega

/-- SWAP -/
theorem swap_ok (x y : Bytes) (rest : List Bytes) (hg : 1 ≤ rl) :
    opSwap (⟨(), ⟨P, pc, np, rl, 0, x :: y :: rest, alt, d, e⟩⟩ : VS) =
      .ok () ⟨(), ⟨P, pc, np, rl - 1, 0, y :: x :: rest, alt, d, e⟩⟩ := by
  simp (disch := omega) [opSwap, applyCost_ok]

/-- CHECKSIG -/
theorem checksig_run (pk msg sg : Bytes) (rest : List Bytes) (hg : 1024 ≤ rl) :
    opCheckSig valueMem ctx (⟨(), ⟨P, pc, np, rl, 0, pk :: msg :: sg :: rest, alt, d, e⟩⟩ : VS) =
      if msg.length ≠ 32 then
        .err .badValue ⟨(), ⟨P, pc, np, rl - 1024, 0 - (8 + pk.length) - (8 + msg.length) - (8 + sg.length), rest, alt, d, e⟩⟩
      else
        let r := if pk.length ≠ 32 then false else ctx.verifySig pk msg sg
        .ok () ⟨(), ⟨P, pc, np, rl - 1024,
          0 - (8 + pk.length) - (8 + msg.length) - (8 + sg.length) + (8 + (boolBytes r).length), boolBytes r :: rest, alt, d, e⟩⟩ := by
  simp (disch := omega) [opCheckSig, applyCost_ok, popBytes, pop, itemCost, readItem]
  by_cases hm : msg.length = 32
  · by_cases hp : pk.length = 32
    · simp [hm, hp, pushBool, pushBytes, allocBytes, pushItem, itemCost]
    · simp [hm, hp, pushBool, pushBytes, allocBytes, pushItem, itemCost]
  · simp [hm]

theorem checksig_underflow2 (pk msg : Bytes) (hg : 1024 ≤ rl) :
    opCheckSig valueMem ctx (⟨(), ⟨P, pc, np, rl, 0, [pk, msg], alt, d, e⟩⟩ : VS) =
      .err .dataStackUnderflow ⟨(), ⟨P, pc, np, rl - 1024, 0 - (8 + pk.length) - (8 + msg.length), [], alt, d, e⟩⟩ := by
  simp (disch := omega) [opCheckSig, applyCost_ok, popBytes, pop, itemCost, readItem]

/-! ### CHECKMULTISIG -/

theorem popN_ok (xs rest : List Bytes) (df : Int) :
    popN valueMem xs.length (⟨(), ⟨P, pc, np, rl, df, xs ++ rest, alt, d, e⟩⟩ : VS) =
      .ok xs ⟨(), ⟨P, pc, np, rl, df - stackCost List.length xs, rest, alt, d, e⟩⟩ := by
  induction xs generalizing df with
  | nil => simp [popN, stackCost]
  | cons x xs ih =>
    simp [popN, popBytes, pop, itemCost, readItem, ih, stackCost]
    omega

theorem popN_underflow (xs : List Bytes) (k : Nat) (hk : xs.length < k) (df : Int) :
    ∃ s', popN valueMem k (⟨(), ⟨P, pc, np, rl, df, xs, alt, d, e⟩⟩ : VS) = .err .dataStackUnderflow s' := by
  induction xs generalizing df k with
  | nil =>
    cases k with
    | zero => simp at hk
    | succ k => exact ⟨⟨(), ⟨P, pc, np, rl, df, [], alt, d, e⟩⟩, by simp [popN, popBytes, pop]⟩
  | cons x xs ih =>
    cases k with
    | zero => simp at hk
    | succ k =>
      obtain ⟨s', hs'⟩ := ih k (by simpa using hk) (df - (8 + (x.length : Int)))
      refine ⟨s', ?_⟩
      simp [popN, popBytes, pop, itemCost, readItem, hs']

theorem popInt64_ok (b : Bytes) (rest : List Bytes) (df : Int) (n : Nat) (hb : asBigInt b = .ok n) (hn : n < two63) :
    popInt64 valueMem true (⟨(), ⟨P, pc, np, rl, df, b :: rest, alt, d, e⟩⟩ : VS) =
      .ok (n : Int) ⟨(), ⟨P, pc, np, rl, df - (8 + b.length), rest, alt, d, e⟩⟩ := by
  have h1 : ¬ n ≥ two64 := by unfold two63 at hn; unfold two64; omega
  have h2 : ¬ n ≥ two63 := by omega
  simp [popInt64, popBigInt, popBytes, pop, itemCost, readItem, hb, bigIntInt64, h1, h2]

theorem popN_take (k : Nat) (xs : List Bytes) (h : k ≤ xs.length) (df : Int) :
    popN valueMem k (⟨(), ⟨P, pc, np, rl, df, xs, alt, d, e⟩⟩ : VS) =
      .ok (xs.take k) ⟨(), ⟨P, pc, np, rl, df - stackCost List.length (xs.take k), xs.drop k, alt, d, e⟩⟩ := by
  have := popN_ok P pc np rl alt d e (xs.take k) (xs.drop k) df
  rw [List.take_append_drop, List.length_take, Nat.min_eq_left h] at this
  exact this

theorem stackCost_append (a b : List Bytes) :
    stackCost List.length (a ++ b) = stackCost List.length a + stackCost List.length b := by
  induction a with
  | nil => simp [stackCost]
  | cons x xs ih => simp [stackCost, ih]; omega

theorem stackCost_take_drop (k : Nat) (xs : List Bytes) :
    stackCost List.length (xs.take k) = stackCost List.length xs - stackCost List.length (xs.drop k) := by
  have := stackCost_append (xs.take k) (xs.drop k)
  rw [List.take_append_drop] at this
  omega

/-- what CHECKMULTISIG computes from the data stack (top first), gas aside: after `n` and `m`
    have been read — `n` keys, the message, `m` signatures -/
def cmsSpec2 (verify : Bytes → Bytes → Bytes → Bool) (n m : Nat) (r2 : List Bytes) : Except Err (Bool × List Bytes) :=
  if r2.length < n then .error .dataStackUnderflow
  else match r2.drop n with
    | [] => .error .dataStackUnderflow
    | msg :: r3 =>
      if msg.length ≠ 32 then .error .badValue
      else if r3.length < m then .error .dataStackUnderflow
      else .ok (if (r2.take n).any (fun p => p.length != 32) then false
                else matchSigs (fun p s => verify p msg s) (r3.take m) (r2.take n), r3.drop m)

def cmsSpec1 (verify : Bytes → Bytes → Bytes → Bool) (n : Nat) (r1 : List Bytes) : Except Err (Bool × List Bytes) :=
  match r1 with
  | [] => .error .dataStackUnderflow
  | mB :: r2 =>
    match asBigInt mB with
    | .error er => .error er
    | .ok m =>
      if m ≥ two63 then .error .badValue
      else if m > n ∨ (n > 0 ∧ m = 0) then .error .badValue
      else cmsSpec2 verify n m r2

/-- the number of keys CHECKMULTISIG charges for (0 when it fails before charging) -/
def cmsKeys (data : List Bytes) : Nat :=
  match data with
  | [] => 0
  | nB :: _ =>
    match asBigInt nB with
    | .error _ => 0
    | .ok n => if n ≥ two63 then 0 else if (n : Int) * 1024 > maxInt64 then 0 else n

def cmsSpec (verify : Bytes → Bytes → Bytes → Bool) (data : List Bytes) : Except Err (Bool × List Bytes) :=
  match data with
  | [] => .error .dataStackUnderflow
  | nB :: r1 =>
    match asBigInt nB with
    | .error er => .error er
    | .ok n =>
      if n ≥ two63 then .error .badValue
      else if (n : Int) * 1024 > maxInt64 then .error .badValue
      else cmsSpec1 verify n r1

theorem cmsTail2_run (n m : Nat) (r2 : List Bytes) (df : Int) :
    match cmsSpec2 ctx.verifySig n m r2 with
    | .ok (b, rest) =>
      cmsTail2 valueMem ctx (n : Int) (m : Int) (⟨(), ⟨P, pc, np, rl, df, r2, alt, d, e⟩⟩ : VS) =
        .ok () ⟨(), ⟨P, pc, np, rl,
          df - (stackCost List.length r2 - stackCost List.length rest) + (8 + (boolBytes b).length),
          boolBytes b :: rest, alt, d, e⟩⟩
    | .error er => ∃ s', cmsTail2 valueMem ctx (n : Int) (m : Int) (⟨(), ⟨P, pc, np, rl, df, r2, alt, d, e⟩⟩ : VS) = .err er s' := by
  unfold cmsSpec2
  by_cases h1 : r2.length < n
  · simp only [h1, if_true]
    obtain ⟨s', hs'⟩ := popN_underflow P pc np rl alt d e r2 n h1 df
    exact ⟨s', by simp [cmsTail2, hs']⟩
  · simp only [h1, if_false]
    have hpop := popN_take P pc np rl alt d e n r2 (by omega) df
    cases hd : r2.drop n with
    | nil =>
      refine ⟨⟨(), ⟨P, pc, np, rl, df - stackCost List.length (r2.take n), [], alt, d, e⟩⟩, ?_⟩
      simp [cmsTail2, hpop, hd, popBytes, pop]
    | cons msg r3 =>
      simp only []
      by_cases hm : msg.length = 32
      · simp only [hm, ne_eq, not_true_eq_false, if_false]
        by_cases h3 : r3.length < m
        · simp only [h3, if_true]
          obtain ⟨s', hs'⟩ := popN_underflow P pc np rl alt d e r3 m h3
            (df - stackCost List.length (r2.take n) - 40)
          exact ⟨s', by simp [cmsTail2, hpop, hd, popBytes, pop, itemCost, readItem, hm, hs']⟩
        · simp only [h3, if_false]
          have hpop3 := popN_take P pc np rl alt d e m r3 (by omega)
            (df - stackCost List.length (r2.take n) - 40)
          have c1 := stackCost_take_drop n r2
          have c2 := stackCost_take_drop m r3
          have c3 : stackCost List.length (msg :: r3) = 8 + (msg.length : Int) + stackCost List.length r3 := by
            simp [stackCost]
          rw [hd] at c1
          by_cases hk : (r2.take n).any (fun p => p.length != 32) = true
          · rw [if_pos hk]
            have hk' : ∃ x, x ∈ List.take n r2 ∧ ¬ x.length = 32 := by simpa using hk
            simp [cmsTail2, hpop, hd, popBytes, pop, itemCost, readItem, hm, hpop3, pushBool, pushBytes, pushItem]
            rw [ite_run, if_pos hk']
            simp [allocBytes]
            omega
          · rw [if_neg hk]
            have hk' : ¬ ∃ x, x ∈ List.take n r2 ∧ ¬ x.length = 32 := by simpa using hk
            simp [cmsTail2, hpop, hd, popBytes, pop, itemCost, readItem, hm, hpop3, pushBool, pushBytes, pushItem]
            rw [ite_run, if_neg hk']
            simp [allocBytes]
            omega
      · simp only [hm, ne_eq, not_false_eq_true, if_true]
        exact ⟨⟨(), ⟨P, pc, np, rl, df - stackCost List.length (r2.take n) - (8 + (msg.length : Int)), r3, alt, d, e⟩⟩,
          by simp [cmsTail2, hpop, hd, popBytes, pop, itemCost, readItem, hm]⟩

theorem popInt64_big (b : Bytes) (rest : List Bytes) (df : Int) (n : Nat) (hb : asBigInt b = .ok n) (hn : n ≥ two63) :
    popInt64 valueMem true (⟨(), ⟨P, pc, np, rl, df, b :: rest, alt, d, e⟩⟩ : VS) =
      .err .badValue ⟨(), ⟨P, pc, np, rl, df - (8 + b.length), rest, alt, d, e⟩⟩ := by
  by_cases h1 : n ≥ two64
  · simp [popInt64, popBigInt, popBytes, pop, itemCost, readItem, hb, bigIntInt64, h1]
  · simp [popInt64, popBigInt, popBytes, pop, itemCost, readItem, hb, bigIntInt64, h1, hn]

theorem popInt64_err (b : Bytes) (rest : List Bytes) (df : Int) (er : Err) (hb : asBigInt b = .error er) :
    popInt64 valueMem true (⟨(), ⟨P, pc, np, rl, df, b :: rest, alt, d, e⟩⟩ : VS) =
      .err er ⟨(), ⟨P, pc, np, rl, df - (8 + b.length), rest, alt, d, e⟩⟩ := by
  simp [popInt64, popBigInt, popBytes, pop, itemCost, readItem, hb]

theorem popInt64_empty (df : Int) :
    popInt64 valueMem true (⟨(), ⟨P, pc, np, rl, df, [], alt, d, e⟩⟩ : VS) =
      .err .dataStackUnderflow ⟨(), ⟨P, pc, np, rl, df, [], alt, d, e⟩⟩ := by
  simp [popInt64, popBigInt, popBytes, pop]

theorem cmsTail1_run (n : Nat) (r1 : List Bytes) (df : Int) (hg : (n : Int) * 1024 ≤ rl) :
    match cmsSpec1 ctx.verifySig n r1 with
    | .ok (b, rest) =>
      cmsTail1 valueMem ctx (n : Int) (⟨(), ⟨P, pc, np, rl, df, r1, alt, d, e⟩⟩ : VS) =
        .ok () ⟨(), ⟨P, pc, np, rl - (n : Int) * 1024,
          df - (stackCost List.length r1 - stackCost List.length rest) + (8 + (boolBytes b).length),
          boolBytes b :: rest, alt, d, e⟩⟩
    | .error er => ∃ s', cmsTail1 valueMem ctx (n : Int) (⟨(), ⟨P, pc, np, rl, df, r1, alt, d, e⟩⟩ : VS) = .err er s' := by
  unfold cmsSpec1
  cases r1 with
  | nil =>
    exact ⟨_, by simp (disch := omega) [cmsTail1, applyCost_ok, popInt64_empty]; rfl⟩
  | cons mB r2 =>
    simp only []
    cases hb : asBigInt mB with
    | error er =>
      exact ⟨_, by simp (disch := omega) [cmsTail1, applyCost_ok, popInt64_err _ _ _ _ _ _ _ _ _ _ _ hb]; rfl⟩
    | ok m =>
      simp only []
      by_cases hm : m ≥ two63
      · simp only [hm, if_true]
        exact ⟨_, by simp (disch := omega) [cmsTail1, applyCost_ok, popInt64_big _ _ _ _ _ _ _ _ _ _ _ hb hm]; rfl⟩
      · simp only [hm, if_false]
        have hpop := popInt64_ok P pc np (rl - (n : Int) * 1024) alt d e mB r2 df m hb (by omega)
        by_cases hc : m > n ∨ (n > 0 ∧ m = 0)
        · simp only [hc, if_true]
          refine ⟨⟨(), ⟨P, pc, np, rl - (n : Int) * 1024, df - (8 + (mB.length : Int)), r2, alt, d, e⟩⟩, ?_⟩
          simp (disch := omega) [cmsTail1, applyCost_ok, hpop]
          split
          · rfl
          · exfalso; omega
        · simp only [hc, if_false]
          have hc' : ¬ ((m : Int) < 0 ∨ (m : Int) > (n : Int) ∨ ((n : Int) > 0 ∧ (m : Int) = 0)) := by omega
          have h2 := cmsTail2_run ctx P pc np (rl - (n : Int) * 1024) alt d e n m r2 (df - (8 + (mB.length : Int)))
          cases hs : cmsSpec2 ctx.verifySig n m r2 with
          | error er =>
            rw [hs] at h2
            obtain ⟨s', hs'⟩ := h2
            refine ⟨s', ?_⟩
            simp (disch := omega) [cmsTail1, applyCost_ok, hpop]
            split
            · exfalso; omega
            · exact hs'
          | ok r =>
            obtain ⟨b, rest⟩ := r
            rw [hs] at h2
            simp only [] at h2 ⊢
            simp (disch := omega) [cmsTail1, applyCost_ok, hpop]
            split
            · exfalso; omega
            · rw [h2]
              simp [stackCost]
              omega

theorem checkmultisig_run (data : List Bytes) (hg : (cmsKeys data : Int) * 1024 ≤ rl) :
    match cmsSpec ctx.verifySig data with
    | .ok (b, rest) =>
      opCheckMultiSig valueMem ctx (⟨(), ⟨P, pc, np, rl, 0, data, alt, d, e⟩⟩ : VS) =
        .ok () ⟨(), ⟨P, pc, np, rl - (cmsKeys data : Int) * 1024,
          0 - (stackCost List.length data - stackCost List.length rest) + (8 + (boolBytes b).length),
          boolBytes b :: rest, alt, d, e⟩⟩
    | .error er => ∃ s', opCheckMultiSig valueMem ctx (⟨(), ⟨P, pc, np, rl, 0, data, alt, d, e⟩⟩ : VS) = .err er s' := by
  unfold cmsSpec
  cases data with
  | nil => exact ⟨_, by simp [opCheckMultiSig, popInt64_empty]; rfl⟩
  | cons nB r1 =>
    simp only []
    cases hb : asBigInt nB with
    | error er => exact ⟨_, by simp [opCheckMultiSig, popInt64_err _ _ _ _ _ _ _ _ _ _ _ hb]; rfl⟩
    | ok n =>
      simp only []
      by_cases hn : n ≥ two63
      · simp only [hn, if_true]
        exact ⟨_, by simp [opCheckMultiSig, popInt64_big _ _ _ _ _ _ _ _ _ _ _ hb hn]; rfl⟩
      · simp only [hn, if_false]
        have hpop := popInt64_ok P pc np rl alt d e nB r1 0 n hb (by omega)
        by_cases hc : (n : Int) * 1024 > maxInt64
        · simp only [hc, if_true]
          refine ⟨⟨(), ⟨P, pc, np, rl, 0 - (8 + (nB.length : Int)), r1, alt, d, e⟩⟩, ?_⟩
          simp [opCheckMultiSig, hpop]
          split
          · rfl
          · exfalso; omega
        · simp only [hc, if_false]
          have hk : cmsKeys (nB :: r1) = n := by simp [cmsKeys, hb, hn, hc]
          rw [hk] at hg ⊢
          have hc' : ¬ ((n : Int) < 0 ∨ (n : Int) * 1024 > maxInt64) := by omega
          have h1 := cmsTail1_run ctx P pc np rl alt d e n r1 (-(8 + (nB.length : Int))) hg
          cases hs : cmsSpec1 ctx.verifySig n r1 with
          | error er =>
            rw [hs] at h1
            obtain ⟨s', hs'⟩ := h1
            refine ⟨s', ?_⟩
            simp [opCheckMultiSig, hpop]
            split
            · exfalso; omega
            · exact hs'
          | ok r =>
            obtain ⟨b, rest⟩ := r
            rw [hs] at h1
            simp only [] at h1 ⊢
            simp [opCheckMultiSig, hpop]
            split
            · exfalso; omega
            · rw [h1]
              simp [stackCost]
              omega

end Ops
end BytomModel.Lemmas.SpendExec
