/-
C13: the node with its ledger (`Model/NodeLedger.lean`) — what one event does to the best block,
the main-chain index and the persisted utxo set, and event sequences (`run`).

Main facts:
* `settle_spec`: after a chain step the best block / index / chain status / utxo set / contract
  table are either all unchanged (`Frozen`), or they moved along the attach list of
  `calcReorg` and `ledgerReorg` accepted that list (`Moved`).
* `step_spec`: the same for every event (block delivery, verification message, restart).
-/
import BytomModel.Lemmas.C13Chain
import BytomModel.Lemmas.C13Ledger

namespace BytomModel.Lemmas.C13
open BytomModel.Node BytomModel.Ledger BytomModel.NodeLedger

/-- the static tables of the ledger state (block contents by hash, validation meta data,
    parameters) -/
structure Static (s s' : NodeLedger.State) : Prop where
  params : s'.params = s.params
  interval : s'.interval = s.interval
  metas : s'.metas = s.metas
  blockTxs : s'.blockTxs = s.blockTxs

theorem Static.refl (s : NodeLedger.State) : Static s s := ⟨rfl, rfl, rfl, rfl⟩
theorem Static.trans {a b c : NodeLedger.State} (h1 : Static a b) (h2 : Static b c) : Static a c :=
  ⟨h2.params.trans h1.params, h2.interval.trans h1.interval, h2.metas.trans h1.metas, h2.blockTxs.trans h1.blockTxs⟩

/-- main chain and ledger did not move -/
structure Frozen (pre res : NodeLedger.State) : Prop where
  best : res.node.best = pre.node.best
  index : res.node.index = pre.node.index
  statusFin : res.node.statusFin = pre.node.statusFin
  utxo : res.utxo = pre.utxo
  contracts : res.contracts = pre.contracts

theorem Frozen.refl (s : NodeLedger.State) : Frozen s s := ⟨rfl, rfl, rfl, rfl, rfl⟩

/-- main chain and ledger moved together: `att`/`det` are the lists `calcReorganizeChain`
    computes between the new and the old best block, the ledger accepted them, the index was
    overwritten along `att`, and the persisted utxo set / contract table are what `ledgerReorg`
    returned -/
structure Moved (pre res : NodeLedger.State) (att det : List Header) : Prop where
  best_ne : res.node.best ≠ pre.node.best
  newBest : ∃ nb ob, res.node.header res.node.best = some nb ∧ res.node.header pre.node.best = some ob ∧
    res.node.calcReorg (2 * res.node.fuel) nb ob [] [] = some (att, det)
  ledger : pre.ledgerReorg att det = some (res.utxo, res.contracts)
  index : res.node.index = att.foldl (fun ix h => alistSet ix h.height h.id) pre.node.index

/-- the part of `settle`'s result that never depends on the ledger verdict -/
theorem settle_frame (pre : NodeLedger.State) (post : Node.State) (r : Res) :
    Static pre (pre.settle post r).1 ∧ (pre.settle post r).1.node.headers = post.headers ∧
    (pre.settle post r).1.node.defs = post.defs ∧ (pre.settle post r).1.node.cfg = post.cfg ∧
    (pre.settle post r).1.node.orphans = post.orphans ∧ (pre.settle post r).1.node.prevOrphans = post.prevOrphans ∧
    (pre.settle post r).1.node.tree = post.tree ∧ (pre.settle post r).1.node.ckpts = post.ckpts := by
  unfold State.settle
  repeat' split
  all_goals exact ⟨⟨rfl, rfl, rfl, rfl⟩, rfl, rfl, rfl, rfl, rfl, rfl, rfl⟩

theorem settle_spec (pre : NodeLedger.State) (post : Node.State) (r : Res) (h : ViaReorg pre.node post) :
    (Frozen pre (pre.settle post r).1) ∨
    (∃ att det, Moved pre (pre.settle post r).1 att det ∧ (pre.settle post r).2 = r ∧
      (pre.settle post r).1.node = post) := by
  obtain ⟨mid, hcs, hpost⟩ := h
  have same : ∀ (p : Node.State), p.best = pre.node.best → p.index = pre.node.index →
      p.statusFin = pre.node.statusFin → Frozen pre (pre.settle p r).1 := by
    intro p hb hi hf
    unfold State.settle
    simp only [hb, beq_self_eq_true, if_true]
    exact ⟨hb, hi, hf, rfl, rfl⟩
  have hmid : Frozen pre (pre.settle mid r).1 := same mid hcs.best hcs.index hcs.statusFin
  rcases hpost with e | ⟨bh, e⟩
  · left; rw [e]; exact hmid
  · rcases tryReorganize_cases mid bh with ⟨h1, _⟩ | ⟨h1, _⟩ | ⟨nb, ob, att, det, hne, hnb, hob, hcalc, h1⟩
    · left; rw [e, h1]; exact hmid
    · left; rw [e, h1]; exact hmid
    · rw [h1] at e
      simp only at e
      have e1 : (post.best == pre.node.best) = false := by
        rw [e, ← hcs.best]
        simp only
        exact beq_false_of_ne (fun x => hne x.symm)
      have e2 : post.header post.best = some nb := by rw [e]; exact hnb
      have e3 : post.header pre.node.best = some ob := by rw [e, ← hcs.best]; exact hob
      have e4 : post.calcReorg (2 * post.fuel) nb ob [] [] = some (att, det) := by
        have hh : post.headers = mid.headers := by rw [e]
        have hf : post.fuel = mid.fuel := by rw [e]; rfl
        rw [calcReorg_congr mid post hh, hf]
        exact hcalc
      have e5 : post.index = att.foldl (fun ix h => alistSet ix h.height h.id) pre.node.index := by
        rw [e, ← hcs.index]
      cases hl : pre.ledgerReorg att det with
      | none =>
        left
        unfold State.settle
        simp only [e1, e2, e3, e4, hl, Bool.false_eq_true, if_false]
        exact ⟨rfl, rfl, rfl, rfl, rfl⟩
      | some uc =>
        obtain ⟨u, c⟩ := uc
        right
        refine ⟨att, det, ?_, ?_, ?_⟩
        · unfold State.settle
          simp only [e1, e2, e3, e4, hl, Bool.false_eq_true, if_false]
          refine ⟨?_, ⟨nb, ob, e2, e3, e4⟩, hl, e5⟩
          simp only
          intro x
          rw [x] at e1
          simp at e1
        · unfold State.settle
          simp only [e1, e2, e3, e4, hl, Bool.false_eq_true, if_false]
        · unfold State.settle
          simp only [e1, e2, e3, e4, hl, Bool.false_eq_true, if_false]

/-! ### events -/

inductive Ev
  | deliver (b : Header)
  | vote (order src tgt : Nat) (sigOk : Bool)
  | restart

def step (s : NodeLedger.State) : Ev → NodeLedger.State
  | .deliver b => (s.processBlock b).1
  | .vote o src tgt ok => (s.authVerification o src tgt ok).1
  | .restart => match s.restart with
    | some s' => s'
    | none => s

def run (s : NodeLedger.State) (evs : List Ev) : NodeLedger.State := evs.foldl step s

theorem run_nil (s : NodeLedger.State) : run s [] = s := rfl
theorem run_snoc (s : NodeLedger.State) (evs : List Ev) (e : Ev) : run s (evs ++ [e]) = step (run s evs) e := by
  simp [run, List.foldl_append]
theorem run_append (s : NodeLedger.State) (a b : List Ev) : run s (a ++ b) = run (run s a) b := by
  simp [run, List.foldl_append]

/-- `processBlock` is the validating chain step followed by `settle` -/
theorem processBlock_eq_settle (s : NodeLedger.State) (b : Header) :
    s.processBlock b = s.settle (s.chainProcessBlock b).1 (s.chainProcessBlock b).2 := rfl

theorem processBlock_spec (s : NodeLedger.State) (b : Header) :
    Frozen s (s.processBlock b).1 ∨ ∃ att det, Moved s (s.processBlock b).1 att det := by
  rw [processBlock_eq_settle]
  rcases settle_spec s _ (s.chainProcessBlock b).2 (chainProcessBlock_viaReorg s b) with h1 | ⟨att, det, h1, _, _⟩
  · left; exact h1
  · right; exact ⟨att, det, h1⟩

theorem authVerification_spec (s : NodeLedger.State) (o src tgt : Nat) (ok : Bool) :
    Frozen s (s.authVerification o src tgt ok).1 ∨ ∃ att det, Moved s (s.authVerification o src tgt ok).1 att det := by
  unfold NodeLedger.State.authVerification
  dsimp only
  rcases settle_spec s _ (s.node.authVerification o src tgt ok).2 (authVerification_viaReorg s.node o src tgt ok)
    with h1 | ⟨att, det, h1, _, _⟩
  · left; exact h1
  · right; exact ⟨att, det, h1⟩

theorem restart_spec (s s' : NodeLedger.State) (h : s.restart = some s') : Frozen s s' ∧ Static s s' := by
  unfold NodeLedger.State.restart at h
  cases hn : s.node.restart with
  | none => rw [hn] at h; cases h
  | some n' =>
    rw [hn] at h
    simp only [Option.map_some, Option.some.injEq] at h
    subst h
    obtain ⟨hc, _, _, _⟩ := restart_frame s.node n' hn
    exact ⟨⟨hc.best, hc.index, hc.statusFin, rfl, rfl⟩, ⟨rfl, rfl, rfl, rfl⟩⟩

/-- every event: main chain and ledger are unchanged, or moved together through an accepted
    `ledgerReorg` -/
theorem step_spec (s : NodeLedger.State) (e : Ev) :
    Frozen s (step s e) ∨ ∃ att det, Moved s (step s e) att det := by
  cases e with
  | deliver b => exact processBlock_spec s b
  | vote o src tgt ok => exact authVerification_spec s o src tgt ok
  | restart =>
    simp only [step]
    cases h : s.restart with
    | none => left; exact Frozen.refl s
    | some s' => left; exact (restart_spec s s' h).1

theorem processBlock_static (s : NodeLedger.State) (b : Header) : Static s (s.processBlock b).1 := by
  rw [processBlock_eq_settle]
  exact (settle_frame s _ _).1

theorem step_static (s : NodeLedger.State) (e : Ev) : Static s (step s e) := by
  cases e with
  | deliver b => exact processBlock_static s b
  | vote o src tgt ok =>
    simp only [step, NodeLedger.State.authVerification]
    exact (settle_frame s _ _).1
  | restart =>
    simp only [step]
    cases h : s.restart with
    | none => exact Static.refl s
    | some s' => exact (restart_spec s s' h).2

theorem run_static (s : NodeLedger.State) : ∀ (evs : List Ev), Static s (run s evs)
  | [] => Static.refl s
  | e :: evs => by
    show Static s (run (step s e) evs)
    exact Static.trans (step_static s e) (run_static (step s e) evs)

/-! ### the last move of a run -/

theorem Frozen.trans {a b c : NodeLedger.State} (h1 : Frozen a b) (h2 : Frozen b c) : Frozen a c :=
  ⟨h2.best.trans h1.best, h2.index.trans h1.index, h2.statusFin.trans h1.statusFin,
   h2.utxo.trans h1.utxo, h2.contracts.trans h1.contracts⟩

/-- over any event sequence: main chain and ledger never moved, or there is a last event at
    which they moved together through an accepted `ledgerReorg`, and nothing moved since -/
theorem run_last_move : ∀ (evs : List Ev) (init : NodeLedger.State),
    Frozen init (run init evs) ∨
    ∃ pre e suf att det, evs = pre ++ e :: suf ∧
      Moved (run init pre) (step (run init pre) e) att det ∧ Frozen (step (run init pre) e) (run init evs)
  | [], init => Or.inl (Frozen.refl init)
  | e :: evs, init => by
    have hr : run init (e :: evs) = run (step init e) evs := rfl
    rcases run_last_move evs (step init e) with h | ⟨pre, e', suf, att, det, h1, h2, h3⟩
    · rcases step_spec init e with h0 | ⟨att, det, h0⟩
      · left; rw [hr]; exact Frozen.trans h0 h
      · right; exact ⟨[], e, evs, att, det, rfl, h0, by rw [hr]; exact h⟩
    · right
      refine ⟨e :: pre, e', suf, att, det, by rw [h1]; rfl, ?_, ?_⟩
      · exact h2
      · rw [hr]; exact h3

/-! ### where index entries and stored headers come from -/

theorem mem_alistSet {α : Type} (l : List (Nat × α)) (k : Nat) (v : α) (p : Nat × α) (h : p ∈ alistSet l k v) :
    p ∈ l ∨ p = (k, v) := by
  unfold alistSet at h
  split at h
  · rw [List.mem_map] at h
    obtain ⟨q, hq, e⟩ := h
    split at e
    · right; exact e.symm
    · left; rw [← e]; exact hq
  · rw [List.mem_append] at h
    rcases h with h | h
    · left; exact h
    · right; simpa using h

theorem mem_foldl_alistSet (att : List Header) : ∀ (ix : List (Nat × Nat)) (p : Nat × Nat),
    p ∈ att.foldl (fun ix h => alistSet ix h.height h.id) ix → p ∈ ix ∨ ∃ a, a ∈ att ∧ p = (a.height, a.id) := by
  induction att with
  | nil => intro ix p h; left; exact h
  | cons a as ih =>
    intro ix p h
    rw [List.foldl_cons] at h
    rcases ih _ p h with h1 | ⟨x, hx, e⟩
    · rcases mem_alistSet _ _ _ _ h1 with h2 | h2
      · left; exact h2
      · right; exact ⟨a, List.mem_cons_self, h2⟩
    · right; exact ⟨x, List.mem_cons_of_mem _ hx, e⟩

theorem lookupHeader_some {hs : List Header} {k : Nat} {h : Header} (e : lookupHeader hs k = some h) :
    h ∈ hs ∧ h.id = k := by
  unfold lookupHeader at e
  exact ⟨List.mem_of_find?_eq_some e, by simpa using List.find?_some e⟩

/-- every header `calcReorg` returns is one it was given or one it read from the store -/
theorem calcReorg_mem (s : Node.State) : ∀ (fuel : Nat) (a d : Header) (att det att' det' : List Header),
    s.calcReorg fuel a d att det = some (att', det') →
    ∀ x, x ∈ att' → x ∈ att ∨ x = a ∨ x ∈ s.headers
  | 0, _, _, _, _, _, _, h, _, _ => by simp [State.calcReorg] at h
  | fuel + 1, a, d, att, det, att', det', h, x, hx => by
    unfold State.calcReorg at h
    split at h
    · injection h with h; injection h with h1 h2; subst h1; left; exact hx
    · dsimp only at h
      split at h
      · rename_i a' d' ha hd
        rcases calcReorg_mem s fuel a' d' _ _ att' det' h x hx with h1 | h1 | h1
        · split at h1
          · rcases List.mem_cons.mp h1 with h2 | h2
            · right; left; exact h2
            · left; exact h2
          · left; exact h1
        · split at ha
          · right; right; rw [h1]; exact (lookupHeader_some ha).1
          · right; left; injection ha with ha; rw [h1, ha]
        · right; right; exact h1
      · cases h

/-- the blocks a move attaches are stored -/
theorem Moved.att_stored {pre res : NodeLedger.State} {att det : List Header} (m : Moved pre res att det) :
    ∀ x, x ∈ att → x ∈ res.node.headers := by
  obtain ⟨nb, ob, h1, _, h3⟩ := m.newBest
  intro x hx
  rcases calcReorg_mem res.node _ nb ob [] [] att det h3 x hx with h | h | h
  · cases h
  · rw [h]; exact (lookupHeader_some h1).1
  · exact h

end BytomModel.Lemmas.C13
