/-
Injectivity of the hash bodies of `writeForHash` (fixed-width integers, 32-byte hashes,
length-prefixed strings and lists) and of `EntryID` under an injective hash.
-/
import BytomModel.Model.Entry
import BytomModel.Lemmas.CodecRT

namespace BytomModel.Lemmas.Entry
open BytomModel.Codec BytomModel.Entry BytomModel.Lemmas.Codec

def max64 : Nat := 18446744073709551615

theorem le64_length (n : Nat) : (le64 n).length = 8 := rfl

theorem ofNat_eq_iff (a b : Nat) : UInt8.ofNat a = UInt8.ofNat b ↔ a % 256 = b % 256 := by
  constructor
  · intro h
    have := congrArg UInt8.toNat h
    simpa [UInt8.toNat_ofNat'] using this
  · intro h
    apply UInt8.toNat_inj.mp
    simpa [UInt8.toNat_ofNat'] using h

theorem le64_inj {n m : Nat} (hn : n ≤ max64) (hm : m ≤ max64) (h : le64 n = le64 m) : n = m := by
  unfold le64 at h
  simp only [List.cons.injEq, ofNat_eq_iff, and_true] at h
  obtain ⟨h0, h1, h2, h3, h4, h5, h6, h7⟩ := h
  unfold max64 at hn hm
  norm_num at h1 h2 h3 h4 h5 h6 h7
  omega

/-- equal concatenations with equally long heads -/
theorem app_inj_left {a b c d : Bytes} (h : a ++ b = c ++ d) (hl : a.length = c.length) : a = c ∧ b = d :=
  List.append_inj h hl

theorem le64_app_inj {n m : Nat} {r r' : Bytes} (hn : n ≤ max64) (hm : m ≤ max64)
    (h : le64 n ++ r = le64 m ++ r') : n = m ∧ r = r' := by
  obtain ⟨h1, h2⟩ := app_inj_left h rfl
  exact ⟨le64_inj hn hm h1, h2⟩

theorem out_ok_inj {α} {a b : α} {r r' : Bytes} (h : (Out.ok a r : Out α) = Out.ok b r') : a = b ∧ r = r' := by
  injection h with h1 h2; exact ⟨h1, h2⟩

theorem putUvarint_app_inj {n m : Nat} {r r' : Bytes} (hn : n ≤ max63) (hm : m ≤ max63)
    (h : putUvarint n ++ r = putUvarint m ++ r') : n = m ∧ r = r' := by
  have h1 := readUvarint_put n hn r
  rw [h, readUvarint_put m hm r'] at h1
  obtain ⟨a, b⟩ := out_ok_inj h1
  exact ⟨a.symm, b.symm⟩

theorem encVarstr_app_inj {s t r r' : Bytes} (hs : s.length ≤ max31) (ht : t.length ≤ max31)
    (h : encVarstr s ++ r = encVarstr t ++ r') : s = t ∧ r = r' := by
  have h1 := readVarstr31_enc s hs r
  rw [h, readVarstr31_enc t ht r'] at h1
  obtain ⟨a, b⟩ := out_ok_inj h1
  exact ⟨a.symm, b.symm⟩

theorem encStrList_app_inj {l l' : List Bytes} {r r' : Bytes} (hl : WFList l) (hl' : WFList l')
    (h : encStrList l ++ r = encStrList l' ++ r') : l = l' ∧ r = r' := by
  have h1 := readVarstrList_enc l hl r
  rw [h, readVarstrList_enc l' hl' r'] at h1
  obtain ⟨a, b⟩ := out_ok_inj h1
  exact ⟨a.symm, b.symm⟩

/-- `EntryID` is injective in (type string, body) when the hash is injective with 32-byte output -/
theorem entryID_inj {H : Bytes → Bytes} (hH : Function.Injective H) (h32 : Hash32 H) {t1 t2 b1 b2 : Bytes}
    (h : entryID H t1 b1 = entryID H t2 b2) : t1 = t2 ∧ b1 = b2 := by
  unfold entryID at h
  have h1 := hH h
  have h2 := List.append_inj' h1 (by rw [h32, h32])
  obtain ⟨h3, h4⟩ := h2
  refine ⟨?_, hH h4⟩
  have h5 := List.append_inj' h3 rfl
  rw [List.append_assoc, List.append_assoc] at h3
  have := List.append_cancel_left h3
  exact (List.append_inj' this rfl).1

/-! ### bodies -/

theorem valueSource_app_inj {ref ref' asset asset' : Bytes} {n n' p p' : Nat} {r r' : Bytes}
    (h1 : ref.length = 32) (h1' : ref'.length = 32) (h2 : asset.length = 32) (h2' : asset'.length = 32)
    (hn : n ≤ max64) (hn' : n' ≤ max64) (hp : p ≤ max64) (hp' : p' ≤ max64)
    (h : valueSource ref asset n p ++ r = valueSource ref' asset' n' p' ++ r') :
    ref = ref' ∧ asset = asset' ∧ n = n' ∧ p = p' ∧ r = r' := by
  unfold valueSource at h
  simp only [List.append_assoc] at h
  obtain ⟨a, h⟩ := app_inj_left h (by rw [h1, h1'])
  obtain ⟨b, h⟩ := app_inj_left h (by rw [h2, h2'])
  obtain ⟨c, h⟩ := le64_app_inj hn hn' h
  obtain ⟨d, h⟩ := le64_app_inj hp hp' h
  exact ⟨a, b, c, d, h⟩

theorem programBody_app_inj {vm vm' : Nat} {code code' r r' : Bytes}
    (hv : vm ≤ max64) (hv' : vm' ≤ max64) (hc : code.length ≤ max31) (hc' : code'.length ≤ max31)
    (h : programBody vm code ++ r = programBody vm' code' ++ r') : vm = vm' ∧ code = code' ∧ r = r' := by
  unfold programBody at h
  simp only [List.append_assoc] at h
  obtain ⟨a, h⟩ := le64_app_inj hv hv' h
  obtain ⟨b, h⟩ := encVarstr_app_inj hc hc' h
  exact ⟨a, b, h⟩

/-- the five hashed fields of a block header -/
structure WFHashedHeader (h : BlockHeader) : Prop where
  version : h.version ≤ max64
  height : h.height ≤ max64
  prev : h.prevHash.length = 32
  ts : h.timestamp ≤ max64
  root : h.txRoot.length = 32

theorem blockHeaderBody_inj {a b : BlockHeader} (wa : WFHashedHeader a) (wb : WFHashedHeader b)
    (h : blockHeaderBody a = blockHeaderBody b) :
    a.version = b.version ∧ a.height = b.height ∧ a.prevHash = b.prevHash ∧ a.timestamp = b.timestamp ∧ a.txRoot = b.txRoot := by
  unfold blockHeaderBody at h
  simp only [List.append_assoc] at h
  obtain ⟨h1, h⟩ := le64_app_inj wa.version wb.version h
  obtain ⟨h2, h⟩ := le64_app_inj wa.height wb.height h
  obtain ⟨h3, h⟩ := app_inj_left h (by rw [wa.prev, wb.prev])
  obtain ⟨h4, h⟩ := le64_app_inj wa.ts wb.ts h
  exact ⟨h1, h2, h3, h4, h⟩

/-! ### witness-only fields do not reach the id -/

/-- erase every field of a typed input that `MapTx` does not hash: arguments and the
    spend/veto commitment suffix -/
def stripTyped : TypedInput → TypedInput
  | .issuance nonce amount assetDef vm prog _ => .issuance nonce amount assetDef vm prog []
  | .spend sc _ _ => .spend sc [] []
  | .coinbase arb => .coinbase arb
  | .veto sc _ vote _ => .veto sc [] vote []

def stripInput (i : TxInput) : TxInput := ⟨1, i.typed.map stripTyped, [], []⟩
def stripOutput (o : TxOutput) : TxOutput := ⟨1, o.commitment, [], o.typed⟩

/-- the transaction with every witness-only field erased: recorded size, asset versions,
    all suffixes, all arguments -/
def stripWitness (tx : TxData) : TxData :=
  ⟨tx.version, 0, tx.timeRange, tx.inputs.map stripInput, tx.outputs.map stripOutput⟩

theorem inputEntry_strip (H : Bytes → Bytes) (outs : List TxOutput) (t : TypedInput) :
    inputEntry H outs (stripTyped t) = inputEntry H outs t := by
  cases t <;> rfl

theorem totalOut_strip (outs : List TxOutput) : totalOut (outs.map stripOutput) = totalOut outs := by
  unfold totalOut
  rw [List.foldl_map]
  rfl

theorem inputEntry_outs_strip (H : Bytes → Bytes) (outs : List TxOutput) (t : TypedInput) :
    inputEntry H (outs.map stripOutput) t = inputEntry H outs t := by
  cases t with
  | coinbase arb => simp only [inputEntry, totalOut_strip]
  | issuance => rfl
  | spend => rfl
  | veto => rfl

theorem typedInputs_strip : ∀ l : List TxInput,
    typedInputs (l.map stripInput) = (typedInputs l).map (fun ts => ts.map stripTyped) := by
  intro l
  induction l with
  | nil => rfl
  | cons i r ih =>
    simp only [List.map_cons, typedInputs, ih]
    cases hi : i.typed with
    | none => simp [stripInput, hi]
    | some t =>
      cases hr : typedInputs r with
      | none => simp [stripInput, hi]
      | some l => simp [stripInput, hi]

theorem resultIDs_strip (H : Bytes → Bytes) (mux : Bytes) : ∀ (outs : List TxOutput) (i : Nat),
    resultIDs H mux i (outs.map stripOutput) = resultIDs H mux i outs := by
  intro outs
  induction outs with
  | nil => intro i; rfl
  | cons o r ih =>
    intro i
    simp only [List.map_cons, resultIDs, ih]
    rfl

theorem mapTx_strip (H : Bytes → Bytes) (tx : TxData) : mapTx H (stripWitness tx) = mapTx H tx := by
  unfold mapTx stripWitness
  simp only [typedInputs_strip]
  cases typedInputs tx.inputs with
  | none => rfl
  | some ts =>
    simp only [Option.map_some, List.map_map, resultIDs_strip]
    have : (inputEntry H (tx.outputs.map stripOutput) ∘ stripTyped) = inputEntry H tx.outputs := by
      funext t
      simp only [Function.comp, inputEntry_outs_strip, inputEntry_strip]
    rw [this]

end BytomModel.Lemmas.Entry
