/-
A concrete class of states in which `saveBlock` never refuses a block whose parent is stored:
the node holds no validator key (`cfg.me = none`), blocks carry no header sup links and no
verification messages are processed — so nothing is ever justified beyond genesis, nothing is
finalized and the checkpoint tree is never pruned.  `NoFin` is closed under block processing
(`noFin_accepting`), which makes the delivery-order theorem unconditional for such histories.
-/
import BytomModel.Lemmas.NodeDelivery
import BytomModel.Lemmas.NodeTree
open BytomModel.Node BytomModel.Lemmas.NodeAlist BytomModel.Lemmas.NodePool BytomModel.Lemmas.NodeFrame
open BytomModel.Lemmas.NodeOrphans BytomModel.Lemmas.NodeEvents BytomModel.Lemmas.NodeConnect
open BytomModel.Lemmas.NodeDelivery BytomModel.Lemmas.NodeTree

namespace BytomModel.Lemmas.NodeNoFin

/-- the tree `ApplyBlock` builds from the tree `checkpointNodeByHash` returned -/
def tree1Of (s : State) (b : Header) (tree0 : Tree) : Tree :=
  if b.height % s.cfg.epoch == 1 then
    match tree0.find (byHash b.parent) with
    | some p => tree0.addChild (byHash b.parent) (increase s.cfg.epoch (newCkpt p.ckpt) b)
    | none => tree0
  else tree0.update (byHash b.parent) (fun c => increase s.cfg.epoch c b)

/-- `ApplyBlock` for a node without a validator key and a block without sup links -/
def applyBlockNF (s : State) (b : Header) : State × Bool × List SupLink :=
  match s.tree.find (byHash b.id) with
  | some tn => (s, true, mergeSup b.sup tn.ckpt.sup)
  | none =>
    match s.ensureNode s.fuel s.tree b.parent with
    | none => (s, false, b.sup)
    | some tree0 =>
      match (tree1Of s b tree0).find (byHash b.id) with
      | none => ({ s with tree := tree1Of s b tree0 }, false, b.sup)
      | some tn =>
        if tn.ckpt.status == .growing then ({ s with tree := tree1Of s b tree0 }, true, b.sup)
        else ({ s with tree := tree1Of s b tree0, ckpts := saveCkpt s.ckpts tn.ckpt.toRec }, true, b.sup)

theorem applyBlock_eq_NF {s : State} {b : Header} (hme : s.cfg.me = none) (hsup : b.sup = []) :
    s.applyBlock b = applyBlockNF s b := by
  unfold State.applyBlock applyBlockNF
  cases h1 : s.tree.find (byHash b.id) with
  | some _ => rfl
  | none =>
    simp only
    cases h2 : s.ensureNode s.fuel s.tree b.parent with
    | none => rfl
    | some tree0 =>
      simp only
      have key : ∀ tree1 : Tree,
          (match tree1.find (byHash b.id) with
            | none => (({ s with tree := tree1 } : State), false, b.sup)
            | some tn =>
              if tn.ckpt.status == Status.growing then (({ s with tree := tree1 } : State), true, b.sup)
              else
                let (sup1, posted1) :=
                  match s.cfg.me with
                  | none => (b.sup, ({ s with tree := tree1 } : State).posted)
                  | some me =>
                    if isRoot tree1 b.id then (b.sup, ({ s with tree := tree1 } : State).posted) else
                    match lastJustifiedAncestor tree1 b.id with
                    | none => (b.sup, ({ s with tree := tree1 } : State).posted)
                    | some src =>
                      if me ≥ s.cfg.nVal then (b.sup, ({ s with tree := tree1 } : State).posted)
                      else if tn.ckpt.sup.any (fun l => hasSlot l me) then (b.sup, ({ s with tree := tree1 } : State).posted)
                      else if !(({ s with tree := tree1 } : State).verifyVerification tree1 me src.hash src.height b.id b.height true) then (b.sup, ({ s with tree := tree1 } : State).posted)
                      else (addSupLinkH b.sup src.hash src.height { slot := me, valid := true },
                            ({ s with tree := tree1 } : State).posted ++ [(me, src.hash, b.id)])
                let s2 : State := { ({ s with tree := tree1 } : State) with posted := posted1 }
                let (tree2, ckpts2, aff, ok) := s2.applySupLinks b.id sup1 tree1 s2.ckpts []
                if !ok then ({ s2 with tree := tree2, ckpts := ckpts2 }, false, sup1)
                else
                  let ckpts3 := saveAffected tree2 ckpts2 b.id aff
                  ({ s2 with tree := tree2, ckpts := ckpts3 }, true, sup1)) =
          (match tree1.find (byHash b.id) with
            | none => (({ s with tree := tree1 } : State), false, b.sup)
            | some tn =>
              if tn.ckpt.status == Status.growing then (({ s with tree := tree1 } : State), true, b.sup)
              else (({ s with tree := tree1, ckpts := saveCkpt s.ckpts tn.ckpt.toRec } : State), true, b.sup)) := by
        intro tree1
        cases h3 : tree1.find (byHash b.id) with
        | none => rfl
        | some tn =>
          simp only [hme, hsup, State.applySupLinks, saveAffected, h3, List.foldl_nil]
          split <;> simp
      exact key _

theorem succ_mod_eq_one_iff {h e : Nat} (he : 2 ≤ e) : (h + 1) % e = 1 ↔ h % e = 0 := by
  have hr : h % e < e := Nat.mod_lt _ (by omega)
  have h1 : 1 % e = 1 := Nat.mod_eq_of_lt (by omega)
  rw [Nat.add_mod, h1]
  by_cases hlt : h % e + 1 < e
  · rw [Nat.mod_eq_of_lt hlt]; omega
  · have : h % e + 1 = e := by omega
    rw [this, Nat.mod_self]; omega

/-- a block the no-finalization class accepts: no header sup links, a copy of the universe's
    block, one higher than its parent -/
structure PlainBlock (U : Universe) (b : Header) : Prop where
  sup : b.sup = []
  valid : Valid U b

/-- every checkpoint of the tree is a stored block with its own height; a checkpoint at an epoch
    boundary is not `growing` -/
def TreeOK (U : Universe) (e : Nat) (ids : Nat → Prop) (t : Tree) : Prop :=
  ∀ c ∈ t.flatten, ids c.hash ∧ c.height = U.height c.hash ∧ (c.height % e = 0 → c.status ≠ .growing)

/-- every stored epoch-boundary block has its checkpoint in the tree -/
def Covers (e : Nat) (hs : List Header) (t : Tree) : Prop :=
  ∀ h ∈ hs, h.height % e = 0 → ∃ c ∈ t.flatten, c.hash = h.id

/-- **the no-finalization class of states**: the node holds no validator key, epochs have at least
    two blocks, and the casper data is what block processing alone (no sup links, no verification
    messages) builds -/
structure NoFin (U : Universe) (s : State) : Prop where
  me : s.cfg.me = none
  epoch : 2 ≤ s.cfg.epoch
  nodup : (s.headers.map (·.id)).Nodup
  coh : ∀ h ∈ s.headers, Coh U h
  closed : ∀ h ∈ s.headers, h.height = 0 ∨ (stored s h.parent ∧ h.height = U.height h.parent + 1)
  fuel : ∀ h ∈ s.headers, h.height < s.headers.length
  recs : ∀ h ∈ s.headers, h.height % s.cfg.epoch = 0 → ∃ r ∈ s.ckpts, r.height = h.height ∧ r.hash = h.id
  tree : TreeOK U s.cfg.epoch (stored s) s.tree
  covers : Covers s.cfg.epoch s.headers s.tree

theorem NoFin.of_eq {U : Universe} {s s' : State} (h : NoFin U s) (hc : s'.cfg = s.cfg) (hh : s'.headers = s.headers)
    (hk : s'.ckpts = s.ckpts) (ht : s'.tree = s.tree) : NoFin U s' := by
  have hst : stored s' = stored s := by funext i; unfold stored State.header; rw [hh]
  refine ⟨by rw [hc]; exact h.me, by rw [hc]; exact h.epoch, by rw [hh]; exact h.nodup, by rw [hh]; exact h.coh,
    by rw [hh, hst]; exact h.closed, by rw [hh]; exact h.fuel, by rw [hh, hc, hk]; exact h.recs,
    by rw [hc, hst, ht]; exact h.tree, by rw [hc, hh, ht]; exact h.covers⟩

/-- the stored parent of a non-root stored block is one lower -/
theorem NoFin.parent {U : Universe} {s : State} (h : NoFin U s) {hb : Header} (hm : hb ∈ s.headers) (hne : hb.height ≠ 0) :
    ∃ pp, s.header hb.parent = some pp ∧ pp ∈ s.headers ∧ pp.id = hb.parent ∧ hb.height = pp.height + 1 := by
  rcases h.closed hb hm with e | ⟨hs, hh⟩
  · exact absurd e hne
  · obtain ⟨pp, h1, h2, h3⟩ := header_of_stored hs
    refine ⟨pp, h1, h2, h3, ?_⟩
    rw [hh, (h.coh pp h2).2, h3]

/-- `parentCheckpointHashByPrevHash` finds a stored epoch-boundary block -/
theorem prevCheckpointHash_some {U : Universe} {s : State} (h : NoFin U s) :
    ∀ (fuel prev : Nat) (pb : Header), s.header prev = some pb → pb.height < fuel →
      ∃ ch hc, s.prevCheckpointHash fuel prev = some ch ∧ s.header ch = some hc ∧ hc.height % s.cfg.epoch = 0 := by
  intro fuel
  induction fuel with
  | zero => intro _ _ _ hl; omega
  | succ fuel ih =>
    intro prev pb hp hl
    obtain ⟨hpm, hpid⟩ := lookupHeader_some hp
    simp only [State.prevCheckpointHash, hp]
    by_cases h0 : pb.height % s.cfg.epoch = 0
    · simp only [h0, beq_self_eq_true, if_true]
      exact ⟨prev, pb, rfl, hp, h0⟩
    · have hne : pb.height ≠ 0 := by intro e; rw [e] at h0; simp at h0
      obtain ⟨pp, hpp, hppm, hppid, hht⟩ := h.parent hpm hne
      have h0' : ¬ (pb.height % s.cfg.epoch == 0) = true := by simpa using h0
      rw [if_neg h0']
      by_cases h1 : pb.height % s.cfg.epoch = 1
      · simp only [h1, beq_self_eq_true, if_true]
        refine ⟨pb.parent, pp, rfl, hpp, ?_⟩
        rw [hht] at h1
        exact (succ_mod_eq_one_iff h.epoch).mp h1
      · have h1' : ¬ (pb.height % s.cfg.epoch == 1) = true := by simpa using h1
        rw [if_neg h1']
        exact ih pb.parent pp hpp (by omega)

theorem byHash_iff (h : Nat) (c : Ckpt) : byHash h c = true ↔ c.hash = h := by simp [byHash]

/-- extending the tree by a block whose parent's checkpoint is in the tree -/
theorem tree1Of_ok {U : Universe} {s : State} (_he : 2 ≤ s.cfg.epoch) {ids : Nat → Prop} {b : Header} {tree0 : Tree}
    (hT : TreeOK U s.cfg.epoch ids tree0) (hpar : ∃ c ∈ tree0.flatten, c.hash = b.parent) (hid : ids b.id)
    (hh : b.height = U.height b.id) :
    TreeOK U s.cfg.epoch ids (tree1Of s b tree0) ∧
    (∃ c ∈ (tree1Of s b tree0).flatten, c.hash = b.id) ∧
    (∀ c ∈ tree0.flatten, (c.hash ≠ b.parent ∨ b.height % s.cfg.epoch = 1) → c ∈ (tree1Of s b tree0).flatten) := by
  obtain ⟨cp, hcpm, hcph⟩ := hpar
  have hex : ∃ c0 ∈ tree0.flatten, byHash b.parent c0 = true := ⟨cp, hcpm, (byHash_iff _ _).mpr hcph⟩
  unfold tree1Of
  by_cases h1 : b.height % s.cfg.epoch = 1
  · have h1' : (b.height % s.cfg.epoch == 1) = true := by simpa using h1
    rw [if_pos h1']
    obtain ⟨p, hp⟩ := find_isSome_of_mem (byHash b.parent) tree0 hcpm ((byHash_iff _ _).mpr hcph)
    simp only [hp]
    refine ⟨?_, ⟨_, new_mem_addChild _ _ tree0 hex, rfl⟩, fun c hc _ => mem_addChild_of_mem _ _ tree0 c hc⟩
    intro c' hc'
    rcases mem_addChild _ _ tree0 c' hc' with e | e
    · exact hT c' e
    · subst e
      refine ⟨hid, hh, ?_⟩
      intro hz
      simp only [increase] at hz
      omega
  · have h1' : ¬ (b.height % s.cfg.epoch == 1) = true := by simpa using h1
    rw [if_neg h1']
    refine ⟨?_, ?_, ?_⟩
    · intro c' hc'
      rcases mem_update _ _ tree0 c' hc' with e | ⟨c0, _, _, e⟩
      · exact hT c' e
      · subst e
        refine ⟨hid, hh, ?_⟩
        intro hz
        simp only [increase] at hz ⊢
        have : (b.height % s.cfg.epoch == 0) = true := by simpa using hz
        rw [if_pos this]
        simp
    · obtain ⟨c0, _, _, hm⟩ := new_mem_update (byHash b.parent) (fun c => increase s.cfg.epoch c b) tree0 hex
      exact ⟨_, hm, rfl⟩
    · intro c hc hor
      rcases hor with hne | h1''
      · apply mem_update_of_mem _ _ tree0 c hc
        cases hb : byHash b.parent c with
        | false => rfl
        | true => exact absurd ((byHash_iff _ _).mp hb) hne
      · exact absurd h1'' h1

/-- `Covers` survives the extension by a block one higher than its stored parent -/
theorem covers_tree1Of {U : Universe} {s : State} (h : NoFin U s) {b pp : Header} {tree0 : Tree}
    (hC : Covers s.cfg.epoch s.headers tree0) (hppm : pp ∈ s.headers) (hppid : pp.id = b.parent)
    (hht : b.height = pp.height + 1)
    (hkeep : ∀ c ∈ tree0.flatten, (c.hash ≠ b.parent ∨ b.height % s.cfg.epoch = 1) → c ∈ (tree1Of s b tree0).flatten) :
    Covers s.cfg.epoch s.headers (tree1Of s b tree0) := by
  intro h' hm' hz'
  obtain ⟨c, hcm, hch⟩ := hC h' hm' hz'
  refine ⟨c, hkeep c hcm ?_, hch⟩
  by_cases h1 : b.height % s.cfg.epoch = 1
  · exact Or.inr h1
  · left
    intro e
    have : h' = pp := List.inj_on_of_nodup_map h.nodup hm' hppm (by rw [← hch, e, hppid])
    subst this
    apply h1
    rw [hht]
    exact (succ_mod_eq_one_iff h.epoch).mpr hz'

/-- `checkpointNodeByHash` succeeds for every stored block -/
theorem ensureNode_some {U : Universe} {s : State} (h : NoFin U s) :
    ∀ (fuel : Nat) (tree : Tree) (hash : Nat) (hb : Header),
      TreeOK U s.cfg.epoch (stored s) tree → Covers s.cfg.epoch s.headers tree →
      s.header hash = some hb → hb.height < fuel →
      ∃ tree', s.ensureNode fuel tree hash = some tree' ∧ TreeOK U s.cfg.epoch (stored s) tree' ∧
        Covers s.cfg.epoch s.headers tree' ∧ ∃ c ∈ tree'.flatten, c.hash = hash := by
  intro fuel
  induction fuel with
  | zero => intro _ _ _ _ _ _ hl; omega
  | succ fuel ih =>
    intro tree hash hb hT hC hh hl
    obtain ⟨hbm, hbid⟩ := lookupHeader_some hh
    simp only [State.ensureNode]
    cases hf : tree.find (byHash hash) with
    | some r =>
      obtain ⟨h1, h2⟩ := find_some _ tree r hf
      exact ⟨tree, rfl, hT, hC, r.ckpt, h2, (byHash_iff _ _).mp h1⟩
    | none =>
      simp only [hh]
      by_cases h0 : hb.height % s.cfg.epoch = 0
      · obtain ⟨c, hcm, hch⟩ := hC hb hbm h0
        have := find_none _ tree hf c hcm
        rw [(byHash_iff _ _).mpr (hch.trans hbid)] at this
        cases this
      · have h0' : ¬ (hb.height % s.cfg.epoch == 0) = true := by simpa using h0
        rw [if_neg h0']
        have hne : hb.height ≠ 0 := by intro e; rw [e] at h0; simp at h0
        obtain ⟨pp, hpp, hppm, hppid, hht⟩ := h.parent hbm hne
        obtain ⟨tree', he', hT', hC', hpar'⟩ := ih tree hb.parent pp hT hC hpp (by omega)
        simp only [he', bne_self_eq_false, Bool.false_eq_true, if_false]
        have hs : stored s hb.id := by rw [hbid]; unfold stored; rw [hh]; rfl
        obtain ⟨k1, k2, k3⟩ := tree1Of_ok h.epoch hT' hpar' hs (h.coh hb hbm).2
        have hcov := covers_tree1Of h hC' hppm hppid hht k3
        have hres : (if (hb.height % s.cfg.epoch == 1) = true then
              match Tree.find (byHash hb.parent) tree' with
              | none => none
              | some p => some (Tree.addChild (byHash hb.parent) (increase s.cfg.epoch (newCkpt p.ckpt) hb) tree')
            else some (Tree.update (byHash hb.parent) (fun c => increase s.cfg.epoch c hb) tree')) =
            some (tree1Of s hb tree') := by
          unfold tree1Of
          by_cases h1 : (hb.height % s.cfg.epoch == 1) = true
          · rw [if_pos h1, if_pos h1]
            obtain ⟨cp, hcpm, hcph⟩ := hpar'
            obtain ⟨p, hp⟩ := find_isSome_of_mem (byHash hb.parent) tree' hcpm ((byHash_iff _ _).mpr hcph)
            simp only [hp]
          · rw [if_neg h1, if_neg h1]
        refine ⟨tree1Of s hb tree', ?_, k1, hcov, ?_⟩
        · exact hres
        · obtain ⟨c, hc, hce⟩ := k2
          exact ⟨c, hc, hce.trans hbid⟩

theorem TreeOK.mono {U : Universe} {e : Nat} {ids ids' : Nat → Prop} {t : Tree} (h : TreeOK U e ids t)
    (hi : ∀ i, ids i → ids' i) : TreeOK U e ids' t :=
  fun c hc => ⟨hi _ (h c hc).1, (h c hc).2⟩

theorem saveCkpt_keeps (db : List CkptRec) (c : CkptRec) {r : CkptRec} (hr : r ∈ db) :
    ∃ r' ∈ saveCkpt db c, r'.height = r.height ∧ r'.hash = r.hash := by
  unfold saveCkpt
  by_cases e : (r.height == c.height && r.hash == c.hash) = true
  · simp only [Bool.and_eq_true, beq_iff_eq] at e
    exact ⟨c, by simp, e.1.symm, e.2.symm⟩
  · refine ⟨r, ?_, rfl, rfl⟩
    apply List.mem_cons_of_mem
    rw [List.mem_filter]
    exact ⟨hr, by cases hx : (r.height == c.height && r.hash == c.hash) <;> simp_all⟩

/-- what `ApplyBlock` achieves in the no-finalization class -/
structure ApplyOut (U : Universe) (s : State) (b : Header) (s1 : State) : Prop where
  cas : CasperOnly s s1
  tree : TreeOK U s.cfg.epoch (fun i => i = b.id ∨ stored s i) s1.tree
  covers : Covers s.cfg.epoch s.headers s1.tree
  node : b.height % s.cfg.epoch = 0 → ∃ c ∈ s1.tree.flatten, c.hash = b.id
  recs : ∀ hd ∈ s.headers, hd.height % s.cfg.epoch = 0 → ∃ r ∈ s1.ckpts, r.height = hd.height ∧ r.hash = hd.id
  newRec : b.height % s.cfg.epoch = 0 → ∃ r ∈ s1.ckpts, r.height = b.height ∧ r.hash = b.id

theorem fuel_gt {U : Universe} {s : State} (h : NoFin U s) {hd : Header} (hm : hd ∈ s.headers) : hd.height < s.fuel := by
  have := h.fuel hd hm
  unfold State.fuel
  omega

theorem applyBlockNF_ok {U : Universe} {s : State} (h : NoFin U s) {b : Header} (hb : PlainBlock U b)
    (hp : stored s b.parent) : (applyBlockNF s b).2.1 = true ∧ ApplyOut U s b (applyBlockNF s b).1 := by
  obtain ⟨pb, hpb, hpbm, hpbid⟩ := header_of_stored hp
  have hbh : b.height = pb.height + 1 := by rw [hb.valid.height, (h.coh pb hpbm).2, hpbid]
  have hmono : ∀ i, stored s i → (i = b.id ∨ stored s i) := fun _ hi => Or.inr hi
  unfold applyBlockNF
  cases h1 : s.tree.find (byHash b.id) with
  | some r =>
    simp only
    obtain ⟨f1, f2⟩ := find_some _ _ r h1
    have hrh : r.ckpt.hash = b.id := (byHash_iff _ _).mp f1
    refine ⟨by first | rfl | trivial, CasperOnly.rfl' s, h.tree.mono hmono, h.covers, fun _ => ⟨r.ckpt, f2, hrh⟩, h.recs, ?_⟩
    intro hz
    have hs : stored s b.id := hrh ▸ (h.tree r.ckpt f2).1
    obtain ⟨hd0, _, hm0, hid0⟩ := header_of_stored hs
    have hh0 : hd0.height = b.height := by rw [(h.coh hd0 hm0).2, hb.valid.coh.2, hid0]
    obtain ⟨r', hr', e1, e2⟩ := h.recs hd0 hm0 (hh0 ▸ hz)
    exact ⟨r', hr', e1.trans hh0, e2.trans hid0⟩
  | none =>
    simp only
    obtain ⟨tree0, he0, hT0, hC0, hpar0⟩ := ensureNode_some h s.fuel s.tree b.parent pb h.tree h.covers hpb (fuel_gt h hpbm)
    simp only [he0]
    obtain ⟨k1, k2, k3⟩ := tree1Of_ok (b := b) h.epoch (hT0.mono hmono) hpar0 (Or.inl rfl) hb.valid.coh.2
    have hcov := covers_tree1Of h hC0 hpbm hpbid hbh k3
    obtain ⟨cb, hcbm, hcbh⟩ := k2
    obtain ⟨tn, htn⟩ := find_isSome_of_mem (byHash b.id) _ hcbm ((byHash_iff _ _).mpr hcbh)
    simp only [htn]
    obtain ⟨g1, g2⟩ := find_some _ _ tn htn
    have htnh : tn.ckpt.hash = b.id := (byHash_iff _ _).mp g1
    have htnht : tn.ckpt.height = b.height := by rw [(k1 _ g2).2.1, htnh, hb.valid.coh.2]
    by_cases hg : (tn.ckpt.status == Status.growing) = true
    · rw [if_pos hg]
      refine ⟨rfl, ⟨rfl, rfl, rfl, rfl, rfl, rfl, rfl, rfl, rfl⟩, k1, hcov, fun _ => ⟨tn.ckpt, g2, htnh⟩, h.recs, ?_⟩
      intro hz
      have := (k1 _ g2).2.2 (htnht ▸ hz)
      simp only [beq_iff_eq] at hg
      exact absurd hg this
    · rw [if_neg hg]
      refine ⟨rfl, ⟨rfl, rfl, rfl, rfl, rfl, rfl, rfl, rfl, rfl⟩, k1, hcov, fun _ => ⟨tn.ckpt, g2, htnh⟩, ?_, ?_⟩
      · intro hd hm hz
        obtain ⟨r, hr, e⟩ := h.recs hd hm hz
        obtain ⟨r', hr', e'⟩ := saveCkpt_keeps s.ckpts tn.ckpt.toRec hr
        exact ⟨r', hr', e'.1.trans e.1, e'.2.trans e.2⟩
      · intro _
        exact ⟨tn.ckpt.toRec, by simp [saveCkpt], htnht, htnh⟩

theorem length_filter_ne_ge (hs : List Header) (hn : (hs.map (·.id)).Nodup) (i : Nat) :
    hs.length ≤ (hs.filter (fun h => h.id != i)).length + 1 := by
  induction hs with
  | nil => simp
  | cons x xs ih =>
    simp only [List.map_cons, List.nodup_cons] at hn
    by_cases e : x.id = i
    · have hf : xs.filter (fun h => h.id != i) = xs := by
        rw [List.filter_eq_self]
        intro y hy
        simp only [bne_iff_ne, ne_eq]
        intro e'
        exact hn.1 (List.mem_map.mpr ⟨y, hy, by rw [e', e]⟩)
      simp [e, hf]
    · have := ih hn.2
      simp only [List.filter_cons, bne_iff_ne, ne_eq, e, not_false_eq_true, if_true, List.length_cons]
      omega

/-- **in the no-finalization class `saveBlock` accepts every plain block whose parent is stored, and
    the class is closed under it** -/
theorem noFin_saveBlock {U : Universe} {s : State} (h : NoFin U s) {b : Header} (hb : PlainBlock U b)
    (hp : stored s b.parent) : (s.saveBlock b).2 = true ∧ NoFin U (s.saveBlock b).1 := by
  obtain ⟨pb, hpb, hpbm, hpbid⟩ := header_of_stored hp
  have hbh : b.height = pb.height + 1 := by rw [hb.valid.height, (h.coh pb hpbm).2, hpbid]
  obtain ⟨ch, hc, e1, e2, e3⟩ := prevCheckpointHash_some h s.fuel b.parent pb hpb (fuel_gt h hpbm)
  obtain ⟨hcm, hcid⟩ := lookupHeader_some e2
  obtain ⟨r0, hr0, hr0h, hr0i⟩ := h.recs hc hcm e3
  have hgc : ∃ r, s.getCheckpoint ch = some r := by
    unfold State.getCheckpoint State.ckptRec
    rw [e2]
    simp only
    cases hf : s.ckpts.find? (fun c => c.height == hc.height && c.hash == ch) with
    | some r => exact ⟨r, rfl⟩
    | none =>
      have := List.find?_eq_none.mp hf r0 hr0
      simp [hr0h, hr0i, hcid] at this
  obtain ⟨rc, hrc⟩ := hgc
  obtain ⟨hok, ho⟩ := applyBlockNF_ok h hb hp
  rw [← applyBlock_eq_NF h.me hb.sup] at hok ho
  have hsb : s.saveBlock b = ((storeBlock (s.applyBlock b).1 b (s.applyBlock b).2.2).orphanDelete b.id, true) := by
    unfold State.saveBlock
    simp only [hpb, e1, hrc]
    rcases ea : s.applyBlock b with ⟨s1, ok, sup⟩
    rw [ea] at hok
    simp only at hok
    subst hok
    simp [storeBlock]
  rw [hsb]
  refine ⟨rfl, ?_⟩
  simp only
  set s1 := (s.applyBlock b).1
  set sup := (s.applyBlock b).2.2
  have hpo := orphanDelete_poolOnly (storeBlock s1 b sup) b.id
  have hcfg : ((storeBlock s1 b sup).orphanDelete b.id).cfg = s.cfg := by rw [hpo.cfg]; exact ho.cas.cfg
  have hhd : ((storeBlock s1 b sup).orphanDelete b.id).headers =
      { b with sup := sup } :: s.headers.filter (fun x => x.id != b.id) := by
    rw [hpo.headers]; simp only [storeBlock]; rw [ho.cas.headers]
  have hck : ((storeBlock s1 b sup).orphanDelete b.id).ckpts = s1.ckpts := by rw [hpo.ckpts]; rfl
  have htr : ((storeBlock s1 b sup).orphanDelete b.id).tree = s1.tree := by rw [hpo.tree]; rfl
  have hst : ∀ i, stored ((storeBlock s1 b sup).orphanDelete b.id) i ↔ i = b.id ∨ stored s i := by
    intro i
    rw [stored_iff, stored_iff, hhd]
    exact mem_cons_filter_ids { b with sup := sup } s.headers i
  have hmemf : ∀ x, x ∈ s.headers.filter (fun x => x.id != b.id) → x ∈ s.headers := fun x hx => (List.mem_filter.mp hx).1
  refine ⟨by rw [hcfg]; exact h.me, by rw [hcfg]; exact h.epoch, ?_, ?_, ?_, ?_, ?_, ?_, ?_⟩
  · -- ids stay distinct
    rw [hhd, List.map_cons, List.nodup_cons]
    refine ⟨?_, h.nodup.sublist ((List.filter_sublist).map _)⟩
    intro hm
    obtain ⟨x, hx, hxe⟩ := List.mem_map.mp hm
    have := (List.mem_filter.mp hx).2
    simp at this
    exact this hxe
  · intro x hx
    rw [hhd, List.mem_cons] at hx
    rcases hx with e | hx
    · rw [e]; exact hb.valid.coh
    · exact h.coh x (hmemf x hx)
  · intro x hx
    rw [hhd, List.mem_cons] at hx
    rcases hx with e | hx
    · right; rw [e]; exact ⟨(hst _).mpr (Or.inr hp), hb.valid.height⟩
    · rcases h.closed x (hmemf x hx) with e | ⟨e1', e2'⟩
      · exact Or.inl e
      · exact Or.inr ⟨(hst _).mpr (Or.inr e1'), e2'⟩
  · -- fuel
    intro x hx
    have hlen := length_filter_ne_ge s.headers h.nodup b.id
    rw [hhd] at hx ⊢
    simp only [List.length_cons]
    rw [List.mem_cons] at hx
    rcases hx with e | hx
    · rw [e]
      show b.height < _
      by_cases hs : stored s b.id
      · obtain ⟨hd0, _, hm0, hid0⟩ := header_of_stored hs
        have hh0 : hd0.height = b.height := by rw [(h.coh hd0 hm0).2, hb.valid.coh.2, hid0]
        have := h.fuel hd0 hm0
        omega
      · have hf : s.headers.filter (fun x => x.id != b.id) = s.headers := by
          rw [List.filter_eq_self]
          intro y hy
          simp only [bne_iff_ne, ne_eq]
          intro e'
          exact hs (stored_iff.mpr (List.mem_map.mpr ⟨y, hy, e'⟩))
        rw [hf]
        have := h.fuel pb hpbm
        omega
    · have := h.fuel x (hmemf x hx)
      omega
  · intro x hx hz
    rw [hcfg] at hz
    rw [hck]
    rw [hhd, List.mem_cons] at hx
    rcases hx with e | hx
    · rw [e] at hz ⊢; exact ho.newRec hz
    · exact ho.recs x (hmemf x hx) hz
  · rw [hcfg, htr]
    exact ho.tree.mono (fun i hi => (hst i).mpr hi)
  · rw [hcfg, htr]
    intro x hx hz
    rw [hhd, List.mem_cons] at hx
    rcases hx with e | hx
    · rw [e] at hz ⊢; exact ho.node hz
    · exact ho.covers x (hmemf x hx) hz

/-- plain blocks of the universe `U` -/
theorem noFin_accepting (U : Universe) : Accepting (PlainBlock U) (NoFin U) where
  save := fun _ _ hg hb hp => noFin_saveBlock hg hb hp
  add := fun s b hg => by
    have hp := orphanAdd_poolOnly s b
    exact hg.of_eq hp.cfg hp.headers hp.ckpts hp.tree
  drop := fun s o hg => by
    have hp := orphanDelete_poolOnly s o
    exact hg.of_eq hp.cfg hp.headers hp.ckpts hp.tree
  reorg := fun s h hg => hg.of_eq (by simp) (by simp) (by simp) (by simp)

theorem inv_init {U : Universe} (cfg : Config) {g : Header} (hg : Coh U g) (h0 : g.height = 0) :
    Inv U (State.init cfg g) := by
  refine ⟨PoolInv.empty, ?_, ?_, ?_, ?_⟩
  · intro o ho; simp [State.init] at ho
  · intro x hx; simp only [State.init, List.mem_singleton] at hx; subst hx; exact Or.inl h0
  · intro x hx; simp only [State.init, List.mem_singleton] at hx; subst hx; exact hg
  · intro o ho; simp [State.init] at ho

theorem noFin_init {U : Universe} {cfg : Config} (hme : cfg.me = none) (he : 2 ≤ cfg.epoch) {g : Header}
    (hg : Coh U g) (h0 : g.height = 0) : NoFin U (State.init cfg g) := by
  have hst : stored (State.init cfg g) g.id := by
    rw [stored_iff]; simp [State.init]
  refine ⟨hme, he, by simp [State.init], ?_, ?_, ?_, ?_, ?_, ?_⟩
  · intro x hx; simp only [State.init, List.mem_singleton] at hx; subst hx; exact hg
  · intro x hx; simp only [State.init, List.mem_singleton] at hx; subst hx; exact Or.inl h0
  · intro x hx; simp only [State.init, List.mem_singleton] at hx; subst hx; simp [State.init, h0]
  · intro x hx _
    simp only [State.init, List.mem_singleton] at hx; subst hx
    exact ⟨{ hash := x.id, height := 0, parentHash := 0, status := .justified }, by simp [State.init], h0.symm, rfl⟩
  · intro c hc
    simp only [State.init, flatten_node, flattenList_nil, List.mem_singleton] at hc
    subst hc
    refine ⟨hst, ?_, ?_⟩
    · show 0 = U.height g.id
      rw [← hg.2, h0]
    · intro _; simp
  · intro x hx _
    simp only [State.init, List.mem_singleton] at hx; subst hx
    exact ⟨{ hash := x.id, height := 0, parentHash := 0, status := .justified, sup := [] }, by simp [State.init], rfl⟩

end BytomModel.Lemmas.NodeNoFin
