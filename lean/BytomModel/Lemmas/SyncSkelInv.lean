/-
C37 — the invariant `Inv` holds initially and is preserved by every step of a system whose
skeleton passes the discipline check.
-/
import BytomModel.Lemmas.SyncSkel

namespace BytomModel.SyncSkel

variable {S : Sys} {A : Ann}

/-! ## helpers about one thread -/

theorem st_idle_of_pend {spec : Option (List (List Stmt))} {t : Thread} (h : TOK S A spec t)
    (hp : pendOf S t.st = none) : t.st = .idle := by
  cases hst : t.st with
  | idle => rfl
  | queued ch =>
    obtain ⟨_, _, r, hr⟩ := h.st_ok ch hst
    rw [hst] at hp; simp [pendOf, hr] at hp
  | served r => rw [hst] at hp; simp [pendOf] at hp
  | replied r => rw [hst] at hp; simp [pendOf] at hp

/-- where the head of a thread's program comes from: its plain code, the owed reply / the loop
    it returns to, or it stands at its select -/
theorem tok_head {spec : Option (List (List Stmt))} {t : Thread} (h : TOK S A spec t)
    {s : Stmt} {k : List Stmt} (hp : t.prog = s :: k) :
    (∃ X' σ', k = X' ++ (replyPart t.peer ++ tailOf spec) ∧
        chkS S A t.lvl ⟨t.held, pendOf S t.st⟩ s = some σ' ∧ chkL S A t.lvl σ' X' = some TS.empty)
    ∨ (t.held = [] ∧ t.st = .idle ∧ s :: k = replyPart t.peer ++ tailOf spec)
    ∨ (∃ arms, spec = some arms ∧ s = .sel arms ∧ k = [.loop true [.sel arms]] ∧
        t.held = [] ∧ t.peer = none ∧ t.st = .idle) := by
  rcases h.shape with ⟨X, hX, hc⟩ | ⟨arms, hs, hpr, hh, hpe, hst⟩
  · cases X with
    | nil =>
      have := chkL_nil_empty hc
      simp only [TS.empty, TS.mk.injEq] at this
      refine Or.inr (Or.inl ⟨this.1, st_idle_of_pend h this.2, ?_⟩)
      rw [← hp, hX]; rfl
    | cons s' X' =>
      rw [hp] at hX
      simp only [List.cons_append, List.cons.injEq] at hX
      obtain ⟨rfl, rfl⟩ := hX
      obtain ⟨σ', h1, h2⟩ := chkL_cons_some hc
      exact Or.inl ⟨X', σ', rfl, h1, h2⟩
  · rw [hp] at hpr
    simp only [List.cons.injEq] at hpr
    exact Or.inr (Or.inr ⟨arms, hs, hpr.1, hpr.2, hh, hpe, hst⟩)

theorem pw_none_of_head {spec : Option (List (List Stmt))} {t : Thread} (h : TOK S A spec t)
    {s : Stmt} {k : List Stmt} (hp : t.prog = s :: k) (hs : ∀ m, s ≠ .act (.lock m)) : t.pw = none := by
  cases hpw : t.pw with
  | none => rfl
  | some m =>
    obtain ⟨k', hk⟩ := h.pw_ok m hpw
    rw [hp] at hk
    simp only [List.cons.injEq] at hk
    exact absurd hk.1 (hs m)

/-- the head is not the owed reply and not the daemon loop -/
theorem not_tail {spec : Option (List (List Stmt))} {peer : Option (Nat × Rep)} {s : Stmt} {k : List Stmt}
    (h : s :: k = replyPart peer ++ tailOf spec) :
    (∃ q r, peer = some (q, r) ∧ s = .act (.sendReply r) ∧ k = tailOf spec)
    ∨ (∃ arms, peer = none ∧ spec = some arms ∧ s = .loop true [.sel arms] ∧ k = []) := by
  cases peer with
  | some qr =>
    obtain ⟨q, r⟩ := qr
    simp only [replyPart, List.cons_append, List.nil_append, List.cons.injEq] at h
    exact Or.inl ⟨q, r, rfl, h.1, h.2⟩
  | none =>
    cases spec with
    | none => simp [replyPart, tailOf] at h
    | some arms =>
      simp only [replyPart, tailOf, List.nil_append, List.cons.injEq] at h
      exact Or.inr ⟨arms, rfl, rfl, h.1, h.2⟩

/-- a step inside the plain code of a thread: the statement `s` at the head is replaced by `P` -/
theorem tok_local {spec : Option (List (List Stmt))} {t t' : Thread} {s : Stmt} {k : List Stmt}
    (h : TOK S A spec t) (_hp : t.prog = s :: k) (hl : t'.lvl = t.lvl) (hpe : t'.peer = t.peer)
    (hpw : ∀ m, t'.pw = some m → ∃ k', t'.prog = .act (.lock m) :: k')
    (hst : ∀ ch, t'.st = .queued ch → A.lvl ch < t.lvl ∧ hasServer S A ch = true ∧ ∃ r, S.replyOf ch = some r)
    (P : List Stmt) (hprog : t'.prog = P ++ k)
    {X' : List Stmt} (hk : k = X' ++ (replyPart t.peer ++ tailOf spec))
    (hchk : chkL S A t.lvl ⟨t'.held, pendOf S t'.st⟩ (P ++ X') = some TS.empty) : TOK S A spec t' := by
  refine ⟨by rw [hl]; exact h.lvl_le, hpw, ?_, ?_, ?_, ?_⟩
  · intro ch hq; rw [hl]; exact hst ch hq
  · intro hs; rw [hpe]; exact h.plain_peer hs
  · intro arms hs; rw [hl]; exact h.arms_ok arms hs
  · refine Or.inl ⟨P ++ X', ?_, ?_⟩
    · rw [hprog, hk, hpe, List.append_assoc]
    · rw [hl]; exact hchk

/-! ## the initial configuration -/

theorem init_inv (hwf : wfSys S A = true) (clients : List (List Stmt))
    (hcl : ∀ p ∈ clients, chkL S A A.top TS.empty p = some TS.empty) :
    Inv S A (init S A.top clients).threads := by
  have hget : ∀ (i : Nat) (t : Thread), (init S A.top clients).threads[i]? = some t →
      t.held = [] ∧ t.pw = none ∧ t.st = .idle ∧ t.peer = none ∧
      ((∃ d, S.daemons[i]? = some d ∧ t.prog = S.bodyOf d.1 ∧ t.lvl = d.2) ∨
       (S.daemons.length ≤ i ∧ t.lvl = A.top ∧ t.prog ∈ clients)) := by
    intro i t hi
    simp only [init] at hi
    rw [List.getElem?_append] at hi
    by_cases hlt : i < (S.daemons.map (fun d => mkThread (S.bodyOf d.1) d.2)).length
    · rw [if_pos hlt] at hi
      rw [List.getElem?_map] at hi
      cases hd : S.daemons[i]? with
      | none => rw [hd] at hi; cases hi
      | some d =>
        rw [hd] at hi
        simp only [Option.map_some, Option.some.injEq] at hi
        subst hi
        exact ⟨rfl, rfl, rfl, rfl, Or.inl ⟨d, rfl, rfl, rfl⟩⟩
    · rw [if_neg hlt] at hi
      rw [List.getElem?_map] at hi
      cases hc : clients[i - (S.daemons.map (fun d => mkThread (S.bodyOf d.1) d.2)).length]? with
      | none => rw [hc] at hi; cases hi
      | some pr =>
        rw [hc] at hi
        simp only [Option.map_some, Option.some.injEq] at hi
        subst hi
        refine ⟨rfl, rfl, rfl, rfl, Or.inr ⟨?_, rfl, List.mem_of_getElem? hc⟩⟩
        simpa using hlt
  refine ⟨?_, by simp [init], ?_, ?_, ?_⟩
  · intro i t hi
    obtain ⟨hh, hpw, hst, hpe, hk⟩ := hget i t hi
    rcases hk with ⟨d, hd, hprog, hlv⟩ | ⟨hge, hlv, hmem⟩
    · obtain ⟨hle, arms, harms, hok⟩ := wf_daemon hwf (List.mem_of_getElem? hd)
      have hspec : specOf S i = some arms := by simp [specOf, hd, harms]
      rw [hspec]
      refine ⟨by rw [hlv]; exact hle, (by intro m hm; rw [hpw] at hm; cases hm),
        (by intro ch hq; rw [hst] at hq; cases hq), (by intro hn; cases hn), ?_, ?_⟩
      · intro arms' ha; cases ha; rw [hlv]; exact hok
      · refine Or.inl ⟨[], ?_, ?_⟩
        · rw [hprog, daemonArms_body harms, hpe]; rfl
        · rw [hh, hst]; rfl
    · rw [specOf_ge hge]
      refine ⟨by rw [hlv]; exact Nat.le_refl _, (by intro m hm; rw [hpw] at hm; cases hm),
        (by intro ch hq; rw [hst] at hq; cases hq), fun _ => hpe, (by intro arms ha; cases ha), ?_⟩
      refine Or.inl ⟨t.prog, ?_, ?_⟩
      · rw [hpe]; simp [replyPart, tailOf]
      · rw [hh, hst, hlv]; exact hcl _ hmem
  · intro i t p r hi hp
    rw [(hget i t hi).2.2.2.1] at hp; cases hp
  · intro i j ti tj p r r' hi _ hp _
    rw [(hget i ti hi).2.2.2.1] at hp; cases hp
  · intro p tp r hp hs
    rw [(hget p tp hp).2.2.1] at hs; cases hs

end BytomModel.SyncSkel
