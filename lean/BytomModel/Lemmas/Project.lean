/-
C24: validity of a block with respect to the GLOBAL unspent-output set implies its validity
with respect to any wallet's table, and the wallet's table stays the owned projection of the
global set.

The global set is modelled as the table of the "all-owning" wallet `allOf P` (every program is
P2W and owned): scanning a chain with it stores exactly the original (non-zero) and vote outputs
and removes exactly the spent ones — the consensus UTXO set (given consensus' rules that vote
outputs are BTM and non-zero).
-/
import BytomModel.Model.Wallet
import BytomModel.Lemmas.Wallet
import Mathlib.Data.List.Nodup

set_option linter.unusedSimpArgs false
set_option linter.unusedVariables false

namespace BytomModel.Lemmas.Project
open BytomModel.Model.Wallet BytomModel.Lemmas.Wallet

/-- the wallet table `db` is the owned projection of the global table `L` -/
def Rel (P : Params) (L db : DB) : Prop :=
  ∀ id, (dbGet id db).map core = ((dbGet id L).bind (owned P)).map core

def setAcc (a : Nat) (u : Utxo) : Utxo := { u with account := a }

theorem core_setAcc (a : Nat) (u : Utxo) : core (setAcc a u) = setAcc a (core u) := rfl

theorem owned_eq (P : Params) (u : Utxo) :
    owned P u = if P.p2w u.prog && P.owner u.prog != 0 then some (setAcc (P.owner u.prog) u) else none := rfl

theorem owned_all (P : Params) (u : Utxo) : owned (allOf P) u = some (setAcc 1 u) := by
  simp [owned, allOf, setAcc]

/-- `owned P` only looks at the program and overwrites the account -/
theorem owned_core_congr (P : Params) (v w : Utxo) (h : core v = core w) :
    (owned P v).map core = (owned P w).map core := by
  have hp : v.prog = w.prog := by
    have := congrArg Utxo.prog h; simpa [core] using this
  rw [owned_eq, owned_eq, hp]
  split_ifs
  · simp only [Option.map_some, core_setAcc, h]
  · rfl

theorem owned_setAcc (P : Params) (a : Nat) (u : Utxo) : owned P (setAcc a u) = owned P u := by
  simp [owned, setAcc]

theorem effect_dels_none (id : Nat) (ops : List DbOp) (hd : ∀ op ∈ ops, isDel op) : effect id ops none = none := by
  unfold effect
  induction ops with
  | nil => rfl
  | cons op ops ih =>
    simp only [List.foldl_cons]
    have h1 := hd op (List.mem_cons_self)
    cases op with
    | put u => simp [isDel] at h1
    | del k =>
      have : eff1 id none (DbOp.del k) = none := by simp [eff1]
      rw [this]
      exact ih (fun o ho => hd o (List.mem_cons_of_mem _ ho))

theorem map_core_none {x : Option Utxo} (h : x.map core = none) : x = none := by
  cases x <;> simp at h ⊢

theorem distinctB_nodup : ∀ (l : List Nat), distinctB l = true → l.Nodup := by
  intro l
  induction l with
  | nil => intro _; exact List.nodup_nil
  | cons x r ih =>
    intro h
    simp only [distinctB, Bool.and_eq_true, Bool.not_eq_true', List.contains_eq_mem, decide_eq_false_iff_not] at h
    exact List.nodup_cons.mpr ⟨h.1, ih h.2⟩

/-- one transaction: global validity projects to the wallet, and the projection is kept -/
theorem project_tx (P : Params) (h : Nat) (t : Tx) (L db : DB) (hrel : Rel P L db)
    (hv : gvalidTxB P t L = true) :
    validTxB P t db = true ∧ Rel P (attachTx (allOf P) h L t) (attachTx P h db t) := by
  simp only [gvalidTxB, Bool.and_eq_true] at hv
  obtain ⟨hvL, hnd0⟩ := hv
  have hnd := distinctB_nodup _ hnd0
  have houtL := validTx_out hvL
  have hinL := validTx_in hvL
  -- what the global table holds for an input
  have hinput : ∀ i ∈ t.ins, ∀ u, inUtxo i = some u → ∃ v, dbGet u.id L = some v ∧ core v = core (setAcc 1 u) := by
    intro i hi u hu
    have := (hinL i hi u hu).1 (setAcc 1 u) (owned_all P u)
    cases hg : dbGet u.id L with
    | none => rw [hg] at this; simp at this
    | some v => rw [hg] at this; simp only [Option.map_some, Option.some.injEq] at this; exact ⟨v, rfl, this⟩
  constructor
  · -- validity for the wallet
    unfold validTxB
    simp only [Bool.and_eq_true, List.all_eq_true, Option.isNone_iff_eq_none]
    constructor
    · intro o ho
      have := hrel o.id
      rw [houtL o ho] at this
      exact map_core_none (by simpa using this)
    · intro i hi
      cases hu : inUtxo i with
      | none => rfl
      | some u =>
        simp only
        obtain ⟨v, hv1, hv2⟩ := hinput i hi u hu
        have hr := hrel u.id
        rw [hv1] at hr
        simp only [Option.bind_some] at hr
        have hc : (owned P v).map core = (owned P u).map core := by
          rw [owned_core_congr P v (setAcc 1 u) hv2, owned_setAcc]
        rw [hc] at hr
        cases hown : owned P u with
        | some u' =>
          simp only
          rw [hown] at hr
          simpa using hr
        | none =>
          simp only
          rw [hown] at hr
          have := map_core_none (by simpa using hr)
          simp [this]
  · -- the projection is kept
    intro id
    unfold attachTx
    rw [get_applyOps, get_applyOps]
    unfold attachOps
    rw [effect_append, effect_append]
    set x := dbGet id db with hx
    set y := dbGet id L with hy
    have hxy : x.map core = (y.bind (owned P)).map core := hrel id
    set A1 := (t.ins.filterMap inUtxo).filterMap (fun u => if P.p2w u.prog then some (DbOp.del u.id) else none) with hA1
    set A2 := ((t.outs.filterMap (outUtxo P t.coinbase h)).filterMap (owned P)).map DbOp.put with hA2
    set B1 := (t.ins.filterMap inUtxo).filterMap (fun u => if (allOf P).p2w u.prog then some (DbOp.del u.id) else none) with hB1
    set B2 := ((t.outs.filterMap (outUtxo (allOf P) t.coinbase h)).filterMap (owned (allOf P))).map DbOp.put with hB2
    have dA1 : ∀ op ∈ A1, isDel op := by
      intro op hop
      simp only [hA1, List.mem_filterMap] at hop
      obtain ⟨u, _, hu⟩ := hop
      split at hu
      · simp only [Option.some.injEq] at hu; subst hu; trivial
      · cases hu
    have dB1 : ∀ op ∈ B1, isDel op := by
      intro op hop
      simp only [hB1, List.mem_filterMap] at hop
      obtain ⟨u, _, hu⟩ := hop
      split at hu
      · simp only [Option.some.injEq] at hu; subst hu; trivial
      · cases hu
    have pA2 : ∀ op ∈ A2, isPut op := by
      intro op hop
      simp only [hA2, List.mem_map] at hop
      obtain ⟨u, _, rfl⟩ := hop; trivial
    have pB2 : ∀ op ∈ B2, isPut op := by
      intro op hop
      simp only [hB2, List.mem_map] at hop
      obtain ⟨u, _, rfl⟩ := hop; trivial
    -- outUtxo does not depend on who observes (only cbPending / pending, shared)
    have hout : ∀ o, outUtxo (allOf P) t.coinbase h o = outUtxo P t.coinbase h o := fun o => rfl
    -- an output id identifies the output within the transaction
    have huniq : ∀ o1 ∈ t.outs, ∀ o2 ∈ t.outs, o1.id = o2.id → o1 = o2 :=
      fun o1 h1 o2 h2 he => List.inj_on_of_nodup_map hnd h1 h2 he
    by_cases tB2 : ∃ op ∈ B2, key op = id
    · -- id is an output of the transaction
      obtain ⟨w, hw, hwid, heL⟩ := effect_all_put id B2 (effect id B1 y) pB2 tB2
      rw [heL]
      simp only [hB2, List.mem_map, DbOp.put.injEq, List.mem_filterMap] at hw
      obtain ⟨w', ⟨u0, ⟨o, ho, hou⟩, hown⟩, rfl⟩ := hw
      rw [owned_all] at hown
      simp only [Option.some.injEq] at hown
      subst hown
      rw [hout] at hou
      have hoid : o.id = id := by
        have := (outUtxo_some hou).1
        simp only [setAcc] at hwid
        omega
      simp only [Option.bind_some, owned_setAcc]
      by_cases tA2 : ∃ op ∈ A2, key op = id
      · obtain ⟨z, hz, hzid, heD⟩ := effect_all_put id A2 (effect id A1 x) pA2 tA2
        rw [heD]
        simp only [hA2, List.mem_map, DbOp.put.injEq, List.mem_filterMap] at hz
        obtain ⟨z', ⟨u1, ⟨o1, ho1, hou1⟩, hown1⟩, rfl⟩ := hz
        have : o1 = o := by
          apply huniq o1 ho1 o ho
          have h1 := (outUtxo_some hou1).1
          have h2 := (owned_id hown1).1
          omega
        subst this
        rw [hou] at hou1
        simp only [Option.some.injEq] at hou1
        subst hou1
        rw [hown1]
      · rw [effect_untouched id A2 _ (fun op hop hk => tA2 ⟨op, hop, hk⟩)]
        -- not stored by the wallet: then not owned, and the wallet never had it
        have hnown : owned P u0 = none := by
          cases hown1 : owned P u0 with
          | none => rfl
          | some z =>
            exfalso
            apply tA2
            refine ⟨DbOp.put z, ?_, ?_⟩
            · simp only [hA2, List.mem_map, List.mem_filterMap]
              exact ⟨z, ⟨u0, ⟨o, ho, hou⟩, hown1⟩, rfl⟩
            · simp only [key]
              have h1 := (outUtxo_some hou).1
              have h2 := (owned_id hown1).1
              omega
        rw [hnown]
        have hy0 : y = none := by rw [hy, ← hoid]; exact houtL o ho
        have hx0 : x = none := by
          rw [hy0] at hxy
          exact map_core_none (by simpa using hxy)
        rw [hx0, effect_dels_none id A1 dA1]
    · rw [effect_untouched id B2 _ (fun op hop hk => tB2 ⟨op, hop, hk⟩)]
      have tA2 : ¬ ∃ op ∈ A2, key op = id := by
        rintro ⟨op, hop, hk⟩
        apply tB2
        simp only [hA2, List.mem_map, List.mem_filterMap] at hop
        obtain ⟨z, ⟨u1, ⟨o1, ho1, hou1⟩, hown1⟩, rfl⟩ := hop
        refine ⟨DbOp.put (setAcc 1 u1), ?_, ?_⟩
        · simp only [hB2, List.mem_map, List.mem_filterMap]
          exact ⟨setAcc 1 u1, ⟨u1, ⟨o1, ho1, by rw [hout]; exact hou1⟩, owned_all P u1⟩, rfl⟩
        · simp only [key, setAcc] at hk ⊢
          have := (owned_id hown1).1
          omega
      rw [effect_untouched id A2 _ (fun op hop hk => tA2 ⟨op, hop, hk⟩)]
      by_cases tB1 : ∃ op ∈ B1, key op = id
      · -- id is spent by the transaction
        rw [effect_all_del id B1 _ dB1 tB1]
        obtain ⟨op, hop, hk⟩ := tB1
        simp only [hB1, List.mem_filterMap] at hop
        obtain ⟨u, ⟨i, hi, hiu⟩, huo⟩ := hop
        simp only [allOf, if_true, Option.some.injEq] at huo
        subst huo
        simp only [key] at hk
        by_cases tA1 : ∃ op ∈ A1, key op = id
        · rw [effect_all_del id A1 _ dA1 tA1]; rfl
        · rw [effect_untouched id A1 _ (fun op hop hk => tA1 ⟨op, hop, hk⟩)]
          -- the wallet did not delete it: its program is not P2W for the wallet, so it never held it
          have hnp : P.p2w u.prog = false := by
            cases hp : P.p2w u.prog with
            | false => rfl
            | true =>
              exfalso
              apply tA1
              refine ⟨DbOp.del u.id, ?_, hk⟩
              simp only [hA1, List.mem_filterMap]
              exact ⟨u, ⟨i, hi, hiu⟩, by simp [hp]⟩
          obtain ⟨v, hv1, hv2⟩ := hinput i hi u hiu
          have hyv : y = some v := by rw [hy, ← hk]; exact hv1
          have hpv : v.prog = u.prog := by
            have := congrArg Utxo.prog hv2; simpa [core, setAcc] using this
          have : owned P v = none := by simp [owned, hpv, hnp]
          rw [hyv] at hxy
          simp only [Option.bind_some, this, Option.map_none] at hxy
          rw [map_core_none hxy]
          rfl
      · rw [effect_untouched id B1 _ (fun op hop hk => tB1 ⟨op, hop, hk⟩)]
        have tA1 : ¬ ∃ op ∈ A1, key op = id := by
          rintro ⟨op, hop, hk⟩
          apply tB1
          simp only [hA1, List.mem_filterMap] at hop
          obtain ⟨u, hu, huo⟩ := hop
          split at huo
          · simp only [Option.some.injEq] at huo
            subst huo
            refine ⟨DbOp.del u.id, ?_, hk⟩
            simp only [hB1, List.mem_filterMap]
            exact ⟨u, hu, by simp [allOf]⟩
          · cases huo
        rw [effect_untouched id A1 _ (fun op hop hk => tA1 ⟨op, hop, hk⟩)]
        exact hxy

theorem project_txs (P : Params) (h : Nat) : ∀ (txs : List Tx) (L db : DB), Rel P L db →
    gvalidTxsB P h txs L = true →
    validTxsB P h txs db = true ∧ Rel P (txs.foldl (attachTx (allOf P) h) L) (txs.foldl (attachTx P h) db) := by
  intro txs
  induction txs with
  | nil => intro L db hrel _; exact ⟨rfl, hrel⟩
  | cons t r ih =>
    intro L db hrel hv
    simp only [gvalidTxsB, Bool.and_eq_true] at hv
    obtain ⟨h1, h2⟩ := project_tx P h t L db hrel hv.1
    obtain ⟨h3, h4⟩ := ih _ _ h2 hv.2
    exact ⟨by simp [validTxsB, h1, h3], by simpa using h4⟩

theorem project_block (P : Params) (b : Block) (L db : DB) (hrel : Rel P L db)
    (hv : gvalidBlockB P b L = true) :
    validBlockB P b db = true ∧ Rel P (attach (allOf P) b L) (attach P b db) :=
  project_txs P b.height b.txs L db hrel hv

theorem rel_nil (P : Params) : Rel P [] [] := by intro id; simp [dbGet]

/-- every block of the chain is globally valid on the global scan of its predecessors -/
def GChainOK (P : Params) : List Block → Prop
  | [] => True
  | b :: c => gvalidBlockB P b (rescan (allOf P) c) = true ∧ GChainOK P c

/-- along a chain: the wallet's scan is the owned projection of the global scan -/
theorem rel_rescan (P : Params) : ∀ (chain : List Block), GChainOK P chain →
    Rel P (rescan (allOf P) chain) (rescan P chain) := by
  intro chain
  induction chain with
  | nil => intro _; exact rel_nil P
  | cons b c ih =>
    intro hv
    exact (project_block P b _ _ (ih hv.2) hv.1).2

end BytomModel.Lemmas.Project
