/-
More about `calcReorg` / `tryReorganize` of `Model/Node`: the readable specification of the
attach / detach lists (paths to the LOWEST common ancestor), termination within the model's
fuel, success of `tryReorganize` on a well-formed store, and "best = fork choice after a
successful step".
-/
import BytomModel.Lemmas.NodeChain
import Batteries.Data.List.Perm

namespace BytomModel.Lemmas.NodeChain
open BytomModel.Node

/-! ### specification of the two lists -/

/-- heights along a chain go up by one from the base -/
theorem up_heights : ∀ (l : List Header) (c hc : Nat), Up c hc l → l.map (fun h => h.height) = List.range' (hc + 1) l.length := by
  intro l
  induction l with
  | nil => intro c hc _; rfl
  | cons h t ih =>
    intro c hc hu
    obtain ⟨_, hh, hu'⟩ := hu
    rw [List.map_cons, ih h.id h.height hu', List.length_cons, List.range'_succ, hh]

/-- a stored non-empty chain whose tip has the id of the stored header `x` ends in `x` -/
theorem up_last {s : State} {c : Nat} {l : List Header} {x : Header} (hst : Stored s l) (hx : s.header x.id = some x)
    (ht : tipId c l = x.id) (hne : l ≠ []) : l.getLast? = some x := by
  unfold tipId at ht
  cases hl : l.getLast? with
  | none => rw [List.getLast?_eq_none_iff] at hl; exact absurd hl hne
  | some y =>
    rw [hl] at ht
    have hy := hst y (List.mem_of_getLast? hl)
    rw [stored_eq hy hx ht]

/-- `calcReorganizeChain(nb, ob)` on a well-formed store: there is a stored block `c` such that
    `att` is the parent-linked chain from just above `c` up to `nb` and `det` reversed the one
    from just above `c` up to `ob`; all listed headers are the stored ones; the two lists
    share no block. -/
theorem calcReorg_spec {s : State} {gid : Nat} (w : StoreWF (skel s) gid) {nb ob : Header}
    (hn : s.header nb.id = some nb) (ho : s.header ob.id = some ob) {fuel : Nat} {att det : List Header}
    (h : s.calcReorg fuel nb ob [] [] = some (att, det)) :
    ∃ c, s.header c.id = some c ∧
      Up c.id c.height att ∧ tipId c.id att = nb.id ∧
      Up c.id c.height det.reverse ∧ tipId c.id det.reverse = ob.id ∧
      Stored s att ∧ Stored s det ∧ (∀ x ∈ att, ∀ y ∈ det, x.id ≠ y.id) := by
  obtain ⟨c, hc, r1, r2, r3, r4, r5, r6, r7⟩ := calcReorg_inv s gid w fuel nb ob [] [] att det hn ho trivial trivial
    (by intro x hx; simp at hx) (by intro x hx; simp at hx) (by intro x hx; simp at hx) (by intro x hx; simp at hx)
    (by intro x hx; simp at hx) h
  exact ⟨c, hc, r1, by simpa [tipId_nil] using r2, r3, by simpa [tipId_nil] using r4, r5, r6, r7⟩

/-- the base of the two lists is the LOWEST common ancestor of the two blocks -/
theorem calcReorg_lca {s : State} {gid : Nat} (w : StoreWF (skel s) gid) {nb ob : Header}
    (hn : s.header nb.id = some nb) (ho : s.header ob.id = some ob) {fuel : Nat} {att det : List Header}
    (h : s.calcReorg fuel nb ob [] [] = some (att, det)) :
    ∃ c, Anc (skel s) c nb.id ∧ Anc (skel s) c ob.id ∧
      (∀ a, Anc (skel s) a nb.id → Anc (skel s) a ob.id → Anc (skel s) a c) ∧
      (∀ x ∈ att, Anc (skel s) x.id nb.id ∧ ¬ Anc (skel s) x.id ob.id) ∧
      (∀ y ∈ det, Anc (skel s) y.id ob.id ∧ ¬ Anc (skel s) y.id nb.id) := by
  obtain ⟨c, hc, r1, r2, r3, r4, r5, r6, r7⟩ := calcReorg_spec w hn ho h
  have hcs := skel_of_header hc
  have hdst : Stored s det.reverse := fun y hy => r6 y (List.mem_reverse.mp hy)
  obtain ⟨a1, a2⟩ := up_anc att c.id c.parent c.height hcs r1 r5
  obtain ⟨d1, d2⟩ := up_anc det.reverse c.id c.parent c.height hcs r3 hdst
  rw [r2] at a1 a2; rw [r4] at d1 d2
  have key : ∀ a, Anc (skel s) a nb.id → Anc (skel s) a ob.id → Anc (skel s) a c.id := by
    intro a han hao
    rcases up_anc_cases att c.id c.height r1 r5 a (by rw [r2]; exact han) with h1 | ⟨x, hx, hxa⟩
    · exact h1
    · rcases up_anc_cases det.reverse c.id c.height r3 hdst a (by rw [r4]; exact hao) with h2 | ⟨y, hy, hya⟩
      · exact h2
      · exact absurd (hxa.trans hya.symm) (r7 x hx y (List.mem_reverse.mp hy))
  refine ⟨c.id, a1, d1, key, ?_, ?_⟩
  · intro x hx
    refine ⟨(a2 x hx).1, fun hxo => ?_⟩
    have := key x.id (a2 x hx).1 hxo
    have hle := (this.height (skel_of_header (r5 x hx)) hcs).1
    have := (a2 x hx).2
    omega
  · intro y hy
    have hy' := List.mem_reverse.mpr hy
    refine ⟨(d2 y hy').1, fun hyn => ?_⟩
    have := key y.id hyn (d2 y hy').1
    have hle := (this.height (skel_of_header (r6 y hy)) hcs).1
    have := (d2 y hy').2
    omega

/-! ### termination -/

/-- the walk ends before the fuel runs out when the fuel exceeds the sum of the two heights -/
theorem calcReorg_some {s : State} {gid : Nat} (w : StoreWF (skel s) gid) :
    ∀ (fuel : Nat) (a d : Header) (att det : List Header),
      s.header a.id = some a → s.header d.id = some d → a.height + d.height < fuel →
      ∃ r, s.calcReorg fuel a d att det = some r := by
  have hpar : ∀ x : Header, s.header x.id = some x → 1 ≤ x.height →
      ∃ x', s.header x.parent = some x' ∧ x.height = x'.height + 1 ∧ s.header x'.id = some x' := by
    intro x hx hpos
    have hne : x.id ≠ gid := by
      intro e
      obtain ⟨gp, hg⟩ := w.genesis
      rw [← e, skel_of_header hx] at hg; injection hg with hg; injection hg with _ h2; omega
    obtain ⟨pp, ph, hp, _⟩ := w.parent x.id x.parent x.height (skel_of_header hx) hne
    obtain ⟨x', hx', _, _, _⟩ := skelOf_some hp
    obtain ⟨_, h2, h3⟩ := step_back w hx hpos hx'
    exact ⟨x', hx', h2, h3⟩
  intro fuel
  induction fuel with
  | zero => intro a d att det _ _ h; omega
  | succ n ih =>
    intro a d att det ha hd hlt
    rw [State.calcReorg]
    by_cases e : a.id = d.id
    · have : (a.id == d.id) = true := by simpa using e
      rw [if_pos this]; exact ⟨_, rfl⟩
    · have hne : (a.id == d.id) = false := by simpa using e
      rw [if_neg (by simp [hne])]
      rcases Nat.lt_trichotomy a.height d.height with h1 | h1 | h1
      · have c1 : ¬ (a.height ≥ d.height) := by omega
        have c2 : a.height ≤ d.height := by omega
        obtain ⟨d', hd', hh, hst⟩ := hpar d hd (by omega)
        simp only [c1, c2, decide_true, decide_false, Bool.false_eq_true, ↓reduceIte, hd']
        exact ih a d' _ _ ha hst (by omega)
      · have c1 : a.height ≥ d.height := by omega
        have c2 : a.height ≤ d.height := by omega
        have hpos : 1 ≤ a.height := by
          by_contra hc
          exact e (both_genesis w ha hd (by omega) (by omega))
        obtain ⟨a', ha', hha, hsta⟩ := hpar a ha hpos
        obtain ⟨d', hd', hh, hst⟩ := hpar d hd (by omega)
        simp only [c1, c2, decide_true, decide_false, Bool.false_eq_true, ↓reduceIte, ha', hd']
        exact ih a' d' _ _ hsta hst (by omega)
      · have c1 : a.height ≥ d.height := by omega
        have c2 : ¬ (a.height ≤ d.height) := by omega
        obtain ⟨a', ha', hha, hsta⟩ := hpar a ha (by omega)
        simp only [c1, c2, decide_true, decide_false, Bool.false_eq_true, ↓reduceIte, ha']
        exact ih a' d _ _ hsta hd (by omega)

/-- in a well-formed store a header's height is below the number of stored headers -/
theorem height_lt_length {s : State} {gid : Nat} (w : StoreWF (skel s) gid) {h : Header}
    (hs : s.header h.id = some h) : h.height < s.headers.length := by
  have hsub : List.range (h.height + 1) ⊆ s.headers.map (fun x => x.height) := by
    intro k hk
    have hk' : k ≤ h.height := by have := List.mem_range.mp hk; omega
    obtain ⟨a, ap, _, hak⟩ := w.anc_at h.height h.id h.parent (skel_of_header hs) k hk'
    obtain ⟨hd, hhd, _, hh, _⟩ := skelOf_some hak
    exact List.mem_map.mpr ⟨hd, lookup_mem hhd, hh⟩
  have := (List.subperm_of_subset List.nodup_range hsub).length_le
  simp only [List.length_range, List.length_map] at this
  omega

/-- `calcReorganizeChain` terminates (within the model's fuel) for two stored blocks -/
theorem calcReorg_terminates {s : State} {gid : Nat} (w : StoreWF (skel s) gid) {nb ob : Header}
    (hn : s.header nb.id = some nb) (ho : s.header ob.id = some ob) :
    ∃ r, s.calcReorg (2 * s.fuel) nb ob [] [] = some r := by
  apply calcReorg_some w _ _ _ _ _ hn ho
  have h1 := height_lt_length w hn
  have h2 := height_lt_length w ho
  unfold State.fuel; omega

/-- on a well-formed state `tryReorganize` to any stored block succeeds and makes it the best -/
theorem tryReorganize_succeeds {U : Univ} {s : State} (w : WF U s) {x : Nat} {nb : Header} (hx : s.header x = some nb) :
    (s.tryReorganize x).2 = true ∧ (s.tryReorganize x).1.best = x := by
  unfold State.tryReorganize
  split
  · rename_i e; exact ⟨rfl, by simpa using e⟩
  · obtain ⟨bp, bht, hbs⟩ := w.bestStored
    obtain ⟨ob, hob, _, _, _⟩ := skelOf_some hbs
    have hob' : s.header s.best = some ob := hob
    have hnid := header_id hx
    have hoid := header_id hob'
    obtain ⟨r, hr⟩ := calcReorg_terminates (gid := U.gid) w.store (by rw [hnid]; exact hx) (by rw [hoid]; exact hob')
    simp only [hx, hob', hr]
    constructor <;> first | rfl | trivial

/-! ### best = fork choice after a successful step -/

theorem bestChain_congr {s s' : State} (h1 : s'.tree = s.tree) (h2 : s'.defs = s.defs) : s'.bestChain = s.bestChain := by
  unfold State.bestChain State.rankOf
  rw [h1, h2]

/-- a `tryReorganize` that reports success has moved the best pointer; it never touches the
    checkpoint tree -/
theorem tryReorganize_ok (s : State) (x : Nat) :
    (s.tryReorganize x).1.tree = s.tree ∧ (s.tryReorganize x).1.defs = s.defs ∧
    ((s.tryReorganize x).2 = true → (s.tryReorganize x).1.best = x) := by
  unfold State.tryReorganize
  split
  · rename_i e; exact ⟨rfl, rfl, fun _ => by simpa using e⟩
  · split
    · split
      · exact ⟨rfl, rfl, fun h => by simp at h⟩
      · exact ⟨rfl, rfl, fun _ => rfl⟩
    · exact ⟨rfl, rfl, fun h => by simp at h⟩

theorem orphanAdd_frame (s : State) (b : Header) :
    (s.orphanAdd b).tree = s.tree ∧ (s.orphanAdd b).defs = s.defs ∧ (s.orphanAdd b).best = s.best := by
  unfold State.orphanAdd
  split <;> exact ⟨rfl, rfl, rfl⟩

/-- `processBlock`: when the node was following its fork choice and the call does not report
    an error, it follows the fork choice of the (possibly grown) checkpoint tree afterwards -/
theorem processBlock_sync (s : State) (b : Header) (hsync : s.best = s.bestChain)
    (hok : (s.processBlock b).2 ≠ .err) : (s.processBlock b).1.best = (s.processBlock b).1.bestChain := by
  unfold State.processBlock at hok ⊢
  simp only [] at hok ⊢
  split_ifs at hok ⊢
  · exact hsync
  · exact hsync
  · obtain ⟨h1, h2, h3⟩ := orphanAdd_frame s b
    show (s.orphanAdd b).best = (s.orphanAdd b).bestChain
    rw [h3, bestChain_congr h1 h2]; exact hsync
  · exact absurd rfl hok
  · rename_i hr
    obtain ⟨t1, t2, t3⟩ := tryReorganize_ok (State.saveSubBlock (s.saveBlock b).1.fuel (s.saveBlock b).1 b.id)
      (State.saveSubBlock (s.saveBlock b).1.fuel (s.saveBlock b).1 b.id).bestChain
    dsimp only
    rw [t3 hr, bestChain_congr t1 t2]
  · exact absurd rfl hok

/-- answer `ok` ⇒ the best pointer is the fork choice -/
def SyncP (r : State × Res) : Prop := r.2 = .ok → r.1.best = r.1.bestChain

/-- `AuthVerification`: when the node was following its fork choice and the call answers `ok`,
    it follows the fork choice of the updated checkpoint tree afterwards -/
theorem authVerification_sync (s : State) (order src tgt : Nat) (sigOk : Bool) (hsync : s.best = s.bestChain) :
    SyncP (s.authVerification order src tgt sigOk) := by
  have hs : ∀ r : Res, SyncP (s, r) := fun r _ => hsync
  unfold State.authVerification
  split
  · exact hs _
  · split
    · exact hs _
    · simp only []
      split_ifs
      all_goals (try exact hs _)
      split
      · exact hs _
      · split
        · intro h; cases h
        · split_ifs
          · rename_i hbeq
            intro _
            have e := eq_of_beq hbeq
            dsimp only at e ⊢
            rw [e]; exact hsync
          · rename_i _ hr
            intro _
            obtain ⟨t1, t2, t3⟩ := tryReorganize_ok _ _
            dsimp only
            rw [t3 hr, bestChain_congr t1 t2]
          · intro h; cases h
/-- every block arrival of the history is answered without error and every vote with `ok`
    (histories of block arrivals and votes only) -/
def AnswersOK : State → List Event → Prop
  | _, [] => True
  | s, .deliver b :: t => (s.processBlock b).2 ≠ .err ∧ AnswersOK (step s (.deliver b)) t
  | s, .vote o a b c :: t => (s.authVerification o a b c).2 = .ok ∧ AnswersOK (step s (.vote o a b c)) t
  | _, _ :: _ => False

def AnswersOK.dec : (evs : List Event) → (s : State) → Decidable (AnswersOK s evs)
  | [], _ => .isTrue trivial
  | .deliver _ :: t, _ => @instDecidableAnd _ _ inferInstance (AnswersOK.dec t _)
  | .vote _ _ _ _ :: t, _ => @instDecidableAnd _ _ inferInstance (AnswersOK.dec t _)
  | .define _ :: _, _ => .isFalse (by simp [AnswersOK])
  | .restart :: _, _ => .isFalse (by simp [AnswersOK])

instance (s : State) (evs : List Event) : Decidable (AnswersOK s evs) := AnswersOK.dec evs s

theorem run_sync : ∀ (evs : List Event) (s : State), s.best = s.bestChain → AnswersOK s evs →
    (run s evs).best = (run s evs).bestChain := by
  intro evs
  induction evs with
  | nil => intro s h _; exact h
  | cons e t ih =>
    intro s h hok
    cases e with
    | define hd => exact absurd hok (by simp [AnswersOK])
    | restart => exact absurd hok (by simp [AnswersOK])
    | deliver b =>
      obtain ⟨h1, h2⟩ := hok
      exact ih _ (processBlock_sync s b h h1) h2
    | vote o a b c =>
      obtain ⟨h1, h2⟩ := hok
      exact ih _ (authVerification_sync s o a b c h h1) h2

theorem run_defines (ds : List Header) : ∀ (s : State),
    (run s (ds.map Event.define)).tree = s.tree ∧ (run s (ds.map Event.define)).best = s.best := by
  induction ds with
  | nil => intro s; exact ⟨rfl, rfl⟩
  | cons d t ih => intro s; exact ih _

/-- a fresh node that has only been told block definitions follows its (one-node) fork choice -/
theorem init_defs_sync (cfg : Config) (g : Header) (ds : List Header) :
    (run (State.init cfg g) (ds.map Event.define)).best = (run (State.init cfg g) (ds.map Event.define)).bestChain := by
  obtain ⟨h1, h2⟩ := run_defines ds (State.init cfg g)
  unfold State.bestChain
  rw [h1, h2]
  simp [State.init, Tree.bestNode, Tree.bestList]

/-! ### a universe from the list of blocks a history delivers -/

/-- The blocks `g :: D` form a consistent family: equal ids mean equal parent and height (ids
    are hashes), and a non-genesis block whose parent is in the family is one higher than it
    (the height rule of `ValidateBlock`). -/
def Consistent (g : Header) (D : List Header) : Prop :=
  (∀ a ∈ g :: D, ∀ b ∈ g :: D, a.id = b.id → a.parent = b.parent ∧ a.height = b.height) ∧
  (∀ b ∈ g :: D, ∀ p ∈ g :: D, b.parent = p.id → b.id ≠ g.id → b.height = p.height + 1)

instance (g : Header) (D : List Header) : Decidable (Consistent g D) := by
  unfold Consistent; exact inferInstance

def Univ.ofBlocks (g : Header) (D : List Header) (hc : Consistent g D) : Univ where
  gid := g.id
  mem i p h := ∃ b ∈ g :: D, b.id = i ∧ b.parent = p ∧ b.height = h
  id_det := by
    rintro i p h p' h' ⟨a, ha, a1, a2, a3⟩ ⟨b, hb, b1, b2, b3⟩
    have := hc.1 a ha b hb (a1.trans b1.symm)
    rw [← a2, ← a3, ← b2, ← b3]; exact this
  child := by
    rintro i p h pp ph ⟨a, ha, a1, a2, a3⟩ ⟨b, hb, b1, _, b3⟩ hne
    rw [← a3, ← b3]
    exact hc.2 a ha b hb (a2.trans b1.symm) (by rw [a1]; exact hne)

/-- the blocks delivered by an event list -/
def delivered : List Event → List Header
  | [] => []
  | .deliver b :: t => b :: delivered t
  | _ :: t => delivered t

theorem mem_delivered {evs : List Event} {b : Header} (h : Event.deliver b ∈ evs) : b ∈ delivered evs := by
  induction evs with
  | nil => simp at h
  | cons e t ih =>
    rcases List.mem_cons.mp h with h' | h'
    · subst h'; simp [delivered]
    · have := ih h'
      cases e <;> simp [delivered, this]

/-- every state reachable from genesis by a history of consistent blocks satisfies the invariant -/
theorem run_wf_blocks (cfg : Config) (g : Header) (evs : List Event) (hg : g.height = 0)
    (hc : Consistent g (delivered evs)) :
    WF (Univ.ofBlocks g (delivered evs) hc) (run (State.init cfg g) evs) := by
  apply run_wf
  · exact init_wf _ cfg g hg rfl ⟨g, by simp, rfl, rfl, rfl⟩
  · intro b hb
    exact ⟨b, by simp [mem_delivered hb], rfl, rfl, rfl⟩

end BytomModel.Lemmas.NodeChain
