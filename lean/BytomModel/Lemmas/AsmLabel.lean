/-
Label names of Disassemble (C09): `labelName n` = the n-th word of the 26-word list, cycling,
with the decimal round number `n/26+1` appended from the second round on.  They are pairwise
distinct for ALL n — which is what Assemble needs (`label … redefined` otherwise).
-/
import BytomModel.Model.Asm

namespace BytomModel.Lemmas.Asm
open BytomModel.Asm BytomModel.Gen

def isLower (b : UInt8) : Bool := 0x61 ≤ b && b ≤ 0x7a

/-- value of a digit string -/
def digitsVal (l : Bytes) : Nat := l.foldl (fun a b => a * 10 + (b.toNat - 48)) 0

theorem digitsVal_snoc (l : Bytes) (d : UInt8) : digitsVal (l ++ [d]) = digitsVal l * 10 + (d.toNat - 48) := by
  simp [digitsVal, List.foldl_append]

theorem digit_byte (k : Nat) (hk : k < 10) :
    (byte (48 + k)).toNat - 48 = k ∧ isDigit (byte (48 + k)) = true ∧ isLower (byte (48 + k)) = false := by
  have : ∀ k, k < 10 → (byte (48 + k)).toNat - 48 = k ∧ isDigit (byte (48 + k)) = true ∧
      isLower (byte (48 + k)) = false := by decide
  exact this k hk

/-- `decDigits` prepends to `acc` a non-empty all-digit string whose value is `n` -/
theorem decDigits_spec (fuel : Nat) : ∀ (n : Nat) (acc : Bytes), n < fuel →
    ∃ ds : Bytes, decDigits fuel n acc = ds ++ acc ∧ digitsVal ds = n ∧ ds ≠ [] ∧
      ∀ b ∈ ds, isLower b = false := by
  induction fuel with
  | zero => intro n acc h; omega
  | succ f ih =>
    intro n acc hn
    have hd := digit_byte (n % 10) (Nat.mod_lt _ (by decide))
    unfold decDigits
    simp only []
    by_cases h0 : n / 10 = 0
    · simp only [h0, if_true]
      refine ⟨[byte (48 + n % 10)], rfl, ?_, by simp, ?_⟩
      · simp only [digitsVal, List.foldl_cons, List.foldl_nil, hd.1]; omega
      · intro b hb; simp only [List.mem_singleton] at hb; subst hb; exact hd.2.2
    · simp only [h0, if_false]
      obtain ⟨ds, h1, h2, h3, h4⟩ := ih (n / 10) (byte (48 + n % 10) :: acc) (by omega)
      refine ⟨ds ++ [byte (48 + n % 10)], by rw [h1]; simp, ?_, by simp, ?_⟩
      · rw [digitsVal_snoc, h2, hd.1]; omega
      · intro b hb
        simp only [List.mem_append, List.mem_singleton] at hb
        rcases hb with hb | hb
        · exact h4 b hb
        · subst hb; exact hd.2.2

theorem decBytes_spec (n : Nat) :
    digitsVal (decBytes n) = n ∧ decBytes n ≠ [] ∧ ∀ b ∈ decBytes n, isLower b = false := by
  obtain ⟨ds, h1, h2, h3, h4⟩ := decDigits_spec (n + 1) n [] (Nat.lt_succ_self _)
  unfold decBytes
  rw [h1, List.append_nil]
  exact ⟨h2, h3, h4⟩

theorem decBytes_injective {m n : Nat} (h : decBytes m = decBytes n) : m = n := by
  have := (decBytes_spec m).1
  rw [h, (decBytes_spec n).1] at this
  exact this.symm

/-- splitting `letters ++ rest` where `rest` does not start with a letter -/
theorem takeWhile_lower (w s : Bytes) (hw : ∀ b ∈ w, isLower b = true)
    (hs : ∀ b, s.head? = some b → isLower b = false) :
    (w ++ s).takeWhile isLower = w ∧ (w ++ s).dropWhile isLower = s := by
  induction w with
  | nil =>
    cases s with
    | nil => exact ⟨rfl, rfl⟩
    | cons b t =>
      have := hs b rfl
      simp [List.takeWhile, List.dropWhile, this]
  | cons b t ih =>
    have hb := hw b (by simp)
    have := ih (fun x hx => hw x (by simp [hx]))
    simp [List.takeWhile, List.dropWhile, hb, this.1, this.2]

/-- the 26 words: lowercase letters only, pairwise distinct -/
theorem words_facts :
    Ops.words.length = 26 ∧ (∀ i, i < 26 → (Ops.words.getD i []).all isLower = true) ∧
    (∀ i, i < 26 → ∀ j, j < 26 → Ops.words.getD i [] = Ops.words.getD j [] → i = j) := by
  decide +kernel

/-- `labelName n` = word ++ suffix, the suffix being empty in the first round and the decimal
    round number afterwards -/
theorem labelName_split (n : Nat) :
    (labelName n).takeWhile isLower = Ops.words.getD (n % 26) [] ∧
    (labelName n).dropWhile isLower = (if n ≥ 26 then decBytes (n / 26 + 1) else []) := by
  have hw := words_facts.2.1 (n % 26) (Nat.mod_lt _ (by decide))
  rw [List.all_eq_true] at hw
  unfold labelName
  simp only [words_facts.1]
  by_cases h : n ≥ 26
  · simp only [h, if_true]
    apply takeWhile_lower _ _ hw
    intro b hb
    have hd := decBytes_spec (n / 26 + 1)
    apply hd.2.2 b
    cases hdb : decBytes (n / 26 + 1) with
    | nil => exact absurd hdb hd.2.1
    | cons x t => rw [hdb] at hb; simp at hb; subst hb; simp
  · simp only [h, if_false]
    have := takeWhile_lower (Ops.words.getD (n % 26) []) [] hw (by intro b hb; simp at hb)
    simpa using this

/-- **label names are pairwise distinct**, for all label numbers -/
theorem labelName_injective {m n : Nat} (h : labelName m = labelName n) : m = n := by
  have hm := labelName_split m
  have hn := labelName_split n
  rw [h] at hm
  have hword : Ops.words.getD (m % 26) [] = Ops.words.getD (n % 26) [] := by rw [← hm.1, ← hn.1]
  have hmod := words_facts.2.2 _ (Nat.mod_lt m (by decide)) _ (Nat.mod_lt n (by decide)) hword
  have hsuf : (if m ≥ 26 then decBytes (m / 26 + 1) else []) = (if n ≥ 26 then decBytes (n / 26 + 1) else []) := by
    rw [← hm.2, ← hn.2]
  by_cases c1 : m ≥ 26 <;> by_cases c2 : n ≥ 26
  · simp only [c1, c2, if_true] at hsuf
    have := decBytes_injective hsuf
    omega
  · simp only [c1, c2, if_true, if_false] at hsuf
    exact absurd hsuf (decBytes_spec _).2.1
  · simp only [c1, c2, if_true, if_false] at hsuf
    exact absurd hsuf.symm (decBytes_spec _).2.1
  · omega

end BytomModel.Lemmas.Asm
