/-
Helper lemmas for C24/C25 (wallet attach/detach model): per-key semantics of op lists,
congruence, and "detach after attach restores the wallet" for one transaction and a block.
-/
import BytomModel.Model.Wallet
import Mathlib.Data.List.Basic
import Mathlib.Tactic.Linarith

set_option linter.unusedSimpArgs false
set_option linter.unusedVariables false

namespace BytomModel.Lemmas.Wallet
open BytomModel.Model.Wallet

/-! ### per-key semantics -/

def key : DbOp → Nat
  | .del k => k
  | .put u => u.id

def isDel : DbOp → Prop
  | .del _ => True
  | .put _ => False

def isPut : DbOp → Prop
  | .del _ => False
  | .put _ => True

def eff1 (id : Nat) (cur : Option Utxo) : DbOp → Option Utxo
  | .del k => if k = id then none else cur
  | .put u => if u.id = id then some u else cur

/-- what a list of DB operations does to key `id` -/
def effect (id : Nat) (ops : List DbOp) (x : Option Utxo) : Option Utxo := ops.foldl (eff1 id) x

theorem get_del (id k : Nat) (db : DB) : dbGet id (dbDel k db) = if k = id then none else dbGet id db := by
  unfold dbGet dbDel
  induction db with
  | nil => simp
  | cons u db ih =>
    rw [List.filter_cons]
    by_cases h1 : u.id = k
    · have e1 : (u.id != k) = false := by simp [h1]
      rw [e1]
      simp only [Bool.false_eq_true, if_false]
      rw [ih, List.find?_cons]
      by_cases h2 : k = id
      · simp [h2]
      · have : (u.id == id) = false := by simp; omega
        simp [h2, this]
    · have e1 : (u.id != k) = true := by simp [h1]
      rw [e1]
      simp only [if_true]
      rw [List.find?_cons, List.find?_cons, ih]
      by_cases h2 : u.id = id
      · have : (u.id == id) = true := by simp [h2]
        have h3 : ¬ k = id := by omega
        simp [this, h3]
      · have : (u.id == id) = false := by simp [h2]
        simp [this]

theorem get_put (id : Nat) (u : Utxo) (db : DB) : dbGet id (dbPut u db) = if u.id = id then some u else dbGet id db := by
  unfold dbPut
  have := get_del id u.id db
  unfold dbGet at this ⊢
  rw [List.find?_cons]
  by_cases h : u.id = id
  · simp [h]
  · have hb : (u.id == id) = false := by simp [h]
    simp only [hb]
    rw [this]
    simp [h]

theorem get_applyOps (id : Nat) (ops : List DbOp) (db : DB) :
    dbGet id (applyOps ops db) = effect id ops (dbGet id db) := by
  unfold applyOps effect
  induction ops generalizing db with
  | nil => rfl
  | cons op ops ih =>
    simp only [List.foldl_cons]
    rw [ih]
    congr 1
    cases op with
    | del k => simp [applyOp, eff1, get_del]
    | put u => simp [applyOp, eff1, get_put]

theorem effect_append (id : Nat) (a b : List DbOp) (x : Option Utxo) :
    effect id (a ++ b) x = effect id b (effect id a x) := by
  simp [effect, List.foldl_append]

theorem effect_untouched (id : Nat) (ops : List DbOp) (x : Option Utxo) (h : ∀ op ∈ ops, key op ≠ id) :
    effect id ops x = x := by
  unfold effect
  induction ops generalizing x with
  | nil => rfl
  | cons op ops ih =>
    simp only [List.foldl_cons]
    have h1 := h op (List.mem_cons_self)
    have : eff1 id x op = x := by
      cases op with
      | del k => simp only [key] at h1; simp [eff1, h1]
      | put u => simp only [key] at h1; simp [eff1, h1]
    rw [this]
    exact ih x (fun o ho => h o (List.mem_cons_of_mem _ ho))

theorem effect_all_del (id : Nat) (ops : List DbOp) (x : Option Utxo) (hd : ∀ op ∈ ops, isDel op)
    (ht : ∃ op ∈ ops, key op = id) : effect id ops x = none := by
  unfold effect
  induction ops generalizing x with
  | nil => simp at ht
  | cons op ops ih =>
    simp only [List.foldl_cons]
    by_cases hrest : ∃ o ∈ ops, key o = id
    · exact ih _ (fun o ho => hd o (List.mem_cons_of_mem _ ho)) hrest
    · have hop : key op = id := by
        obtain ⟨o, ho, hk⟩ := ht
        rcases List.mem_cons.mp ho with rfl | ho'
        · exact hk
        · exact absurd ⟨o, ho', hk⟩ hrest
      have h1 := hd op (List.mem_cons_self)
      cases op with
      | put u => simp [isDel] at h1
      | del k =>
        simp only [key] at hop
        simp only [eff1, hop, if_true]
        have := effect_untouched id ops none (fun o ho hk => hrest ⟨o, ho, hk⟩)
        simpa [effect] using this

theorem effect_all_put (id : Nat) (ops : List DbOp) (x : Option Utxo) (hp : ∀ op ∈ ops, isPut op)
    (ht : ∃ op ∈ ops, key op = id) : ∃ u, DbOp.put u ∈ ops ∧ u.id = id ∧ effect id ops x = some u := by
  unfold effect
  induction ops generalizing x with
  | nil => simp at ht
  | cons op ops ih =>
    simp only [List.foldl_cons]
    by_cases hrest : ∃ o ∈ ops, key o = id
    · obtain ⟨u, hu, hid, he⟩ := ih (eff1 id x op) (fun o ho => hp o (List.mem_cons_of_mem _ ho)) hrest
      exact ⟨u, List.mem_cons_of_mem _ hu, hid, he⟩
    · have hop : key op = id := by
        obtain ⟨o, ho, hk⟩ := ht
        rcases List.mem_cons.mp ho with rfl | ho'
        · exact hk
        · exact absurd ⟨o, ho', hk⟩ hrest
      have h1 := hp op (List.mem_cons_self)
      cases op with
      | del k => simp [isPut] at h1
      | put u =>
        simp only [key] at hop
        refine ⟨u, List.mem_cons_self, hop, ?_⟩
        simp only [eff1, hop, if_true]
        have := effect_untouched id ops (some u) (fun o ho hk => hrest ⟨o, ho, hk⟩)
        simpa [effect] using this

/-! ### equality up to ValidHeight, and congruence -/

/-- the two wallets hold the same UTXOs up to `ValidHeight` -/
def CoreEq (a b : DB) : Prop := ∀ id, (dbGet id a).map core = (dbGet id b).map core

theorem CoreEq.refl (a : DB) : CoreEq a a := fun _ => rfl
theorem CoreEq.symm {a b : DB} (h : CoreEq a b) : CoreEq b a := fun id => (h id).symm
theorem CoreEq.trans {a b c : DB} (h1 : CoreEq a b) (h2 : CoreEq b c) : CoreEq a c :=
  fun id => (h1 id).trans (h2 id)

theorem effect_congr (id : Nat) (ops : List DbOp) (x y : Option Utxo) (h : x.map core = y.map core) :
    (effect id ops x).map core = (effect id ops y).map core := by
  unfold effect
  induction ops generalizing x y with
  | nil => exact h
  | cons op ops ih =>
    simp only [List.foldl_cons]
    apply ih
    cases op with
    | del k => by_cases hk : k = id <;> simp [eff1, hk, h]
    | put u => by_cases hk : u.id = id <;> simp [eff1, hk, h]

theorem applyOps_congr (ops : List DbOp) {a b : DB} (h : CoreEq a b) : CoreEq (applyOps ops a) (applyOps ops b) := by
  intro id
  rw [get_applyOps, get_applyOps]
  exact effect_congr id ops _ _ (h id)

theorem attach_congr (P : Params) (blk : Block) {a b : DB} (h : CoreEq a b) : CoreEq (attach P blk a) (attach P blk b) := by
  unfold attach
  generalize blk.txs = txs
  induction txs generalizing a b with
  | nil => exact h
  | cons t r ih => simp only [List.foldl_cons]; exact ih (applyOps_congr _ h)

theorem detach_congr (P : Params) (blk : Block) {a b : DB} (h : CoreEq a b) : CoreEq (detach P blk a) (detach P blk b) := by
  unfold detach
  generalize blk.txs.reverse = txs
  induction txs generalizing a b with
  | nil => exact h
  | cons t r ih => simp only [List.foldl_cons]; exact ih (applyOps_congr _ h)

/-! ### unpacking the validity hypotheses -/

theorem owned_id {P : Params} {u u' : Utxo} (h : owned P u = some u') : u'.id = u.id ∧ P.p2w u.prog = true ∧ P.owner u.prog ≠ 0 := by
  unfold owned at h
  split at h
  · rename_i hc
    simp only [Option.some.injEq] at h
    subst h
    simp only [Bool.and_eq_true, bne_iff_ne, ne_eq] at hc
    exact ⟨rfl, hc.1, hc.2⟩
  · cases h

theorem validTx_out {P : Params} {t : Tx} {db : DB} (h : validTxB P t db = true) :
    ∀ o ∈ t.outs, dbGet o.id db = none := by
  unfold validTxB at h
  simp only [Bool.and_eq_true, List.all_eq_true, Option.isNone_iff_eq_none] at h
  exact h.1

theorem validTx_in {P : Params} {t : Tx} {db : DB} (h : validTxB P t db = true) :
    ∀ i ∈ t.ins, ∀ u, inUtxo i = some u →
      (∀ u', owned P u = some u' → (dbGet u.id db).map core = some (core u')) ∧
      (owned P u = none → P.p2w u.prog = true → dbGet u.id db = none) := by
  unfold validTxB at h
  simp only [Bool.and_eq_true, List.all_eq_true] at h
  intro i hi u hu
  have := h.2 i hi
  simp only [hu] at this
  constructor
  · intro u' hu'
    simp only [hu'] at this
    simpa using this
  · intro hn hp
    simp only [hn, hp, Bool.not_true, Bool.false_or, Option.isNone_iff_eq_none] at this
    exact this

theorem outUtxo_some {P : Params} {cb : Bool} {h : Nat} {o : Out} {u : Utxo} (hu : outUtxo P cb h o = some u) :
    u.id = o.id ∧ u.prog = o.prog ∧ (o.kind = 0 ∨ o.kind = 1) := by
  unfold outUtxo at hu
  by_cases h0 : o.kind = 0
  · simp only [h0, beq_self_eq_true, if_true] at hu
    split at hu
    · cases hu
    · simp only [Option.some.injEq] at hu; subst hu; exact ⟨rfl, rfl, Or.inl h0⟩
  · have : (o.kind == 0) = false := by simpa using h0
    simp only [this] at hu
    by_cases h1 : o.kind = 1
    · simp only [h1, beq_self_eq_true, if_true] at hu
      simp only [Bool.false_eq_true, if_false, Option.some.injEq] at hu
      subst hu; exact ⟨rfl, rfl, Or.inr h1⟩
    · have : (o.kind == 1) = false := by simpa using h1
      simp [this] at hu

/-! ### one transaction: detach after attach restores every key (up to ValidHeight) -/

theorem detachTx_attachTx (P : Params) (h : Nat) (t : Tx) (db : DB)
    (hv : validTxB P t db = true) (hn : noOwnedVoteB P t = true) :
    CoreEq (detachTx P (attachTx P h db t) t) db := by
  intro id
  unfold detachTx attachTx
  rw [get_applyOps, get_applyOps]
  unfold attachOps detachOps
  rw [effect_append, effect_append]
  set x0 := dbGet id db with hx0
  set A1 := (t.ins.filterMap inUtxo).filterMap (fun u => if P.p2w u.prog then some (DbOp.del u.id) else none) with hA1
  set A2 := ((t.outs.filterMap (outUtxo P t.coinbase h)).filterMap (owned P)).map DbOp.put with hA2
  set D1 := t.outs.filterMap (fun o => if o.kind == 0 && P.p2w o.prog then some (DbOp.del o.id) else none) with hD1
  set D2 := ((t.ins.filterMap inUtxo).filterMap (owned P)).map DbOp.put with hD2
  have dA1 : ∀ op ∈ A1, isDel op := by
    intro op hop
    simp only [hA1, List.mem_filterMap] at hop
    obtain ⟨u, _, hu⟩ := hop
    split at hu
    · simp only [Option.some.injEq] at hu; subst hu; trivial
    · cases hu
  have dD1 : ∀ op ∈ D1, isDel op := by
    intro op hop
    simp only [hD1, List.mem_filterMap] at hop
    obtain ⟨o, _, ho⟩ := hop
    split at ho
    · simp only [Option.some.injEq] at ho; subst ho; trivial
    · cases ho
  have pA2 : ∀ op ∈ A2, isPut op := by
    intro op hop
    simp only [hA2, List.mem_map] at hop
    obtain ⟨u, _, rfl⟩ := hop; trivial
  have pD2 : ∀ op ∈ D2, isPut op := by
    intro op hop
    simp only [hD2, List.mem_map] at hop
    obtain ⟨u, _, rfl⟩ := hop; trivial
  by_cases tD2 : ∃ op ∈ D2, key op = id
  · -- restored input
    obtain ⟨u'', hmem, hid, he⟩ := effect_all_put id D2 (effect id D1 (effect id A2 (effect id A1 x0))) pD2 tD2
    rw [he]
    simp only [hD2, List.mem_map, DbOp.put.injEq, List.mem_filterMap] at hmem
    obtain ⟨u2, ⟨u, ⟨i, hi, hiu⟩, hown⟩, rfl⟩ := hmem
    have := (validTx_in hv i hi u hiu).1 u2 hown
    have hid2 := (owned_id hown).1
    rw [hx0, ← hid, hid2, this]
    rfl
  · rw [effect_untouched id D2 _ (fun op hop hk => tD2 ⟨op, hop, hk⟩)]
    by_cases tD1 : ∃ op ∈ D1, key op = id
    · rw [effect_all_del id D1 _ dD1 tD1]
      obtain ⟨op, hop, hk⟩ := tD1
      simp only [hD1, List.mem_filterMap] at hop
      obtain ⟨o, ho, hoo⟩ := hop
      split at hoo
      · simp only [Option.some.injEq] at hoo
        subst hoo
        simp only [key] at hk
        have := validTx_out hv o ho
        rw [hx0, ← hk, this]
      · cases hoo
    · rw [effect_untouched id D1 _ (fun op hop hk => tD1 ⟨op, hop, hk⟩)]
      by_cases tA2 : ∃ op ∈ A2, key op = id
      · -- an owned output that detach does not delete: only an owned vote output — excluded
        exfalso
        obtain ⟨op, hop, hk⟩ := tA2
        simp only [hA2, List.mem_map, List.mem_filterMap] at hop
        obtain ⟨u', ⟨u, ⟨o, ho, hou⟩, hown⟩, rfl⟩ := hop
        simp only [key] at hk
        obtain ⟨hid1, hprog, hkind⟩ := outUtxo_some hou
        obtain ⟨hid2, hp2w, hownr⟩ := owned_id hown
        rw [hprog] at hp2w hownr
        rcases hkind with hk0 | hk1
        · apply tD1
          refine ⟨DbOp.del o.id, ?_, ?_⟩
          · simp only [hD1, List.mem_filterMap]
            exact ⟨o, ho, by simp [hk0, hp2w]⟩
          · simp only [key]; rw [← hid1, ← hid2]; exact hk
        · unfold noOwnedVoteB at hn
          simp only [List.all_eq_true] at hn
          have := hn o ho
          simp [hk1, hp2w, hownr] at this
      · rw [effect_untouched id A2 _ (fun op hop hk => tA2 ⟨op, hop, hk⟩)]
        by_cases tA1 : ∃ op ∈ A1, key op = id
        · rw [effect_all_del id A1 _ dA1 tA1]
          obtain ⟨op, hop, hk⟩ := tA1
          simp only [hA1, List.mem_filterMap] at hop
          obtain ⟨u, ⟨i, hi, hiu⟩, huo⟩ := hop
          split at huo
          · rename_i hp
            simp only [Option.some.injEq] at huo
            subst huo
            simp only [key] at hk
            have hnone : owned P u = none := by
              cases hown : owned P u with
              | none => rfl
              | some u' =>
                exfalso
                apply tD2
                refine ⟨DbOp.put u', ?_, ?_⟩
                · simp only [hD2, List.mem_map, List.mem_filterMap]
                  exact ⟨u', ⟨u, ⟨i, hi, hiu⟩, hown⟩, rfl⟩
                · simp only [key]; rw [(owned_id hown).1]; exact hk
            have := (validTx_in hv i hi u hiu).2 hnone hp
            rw [hx0, ← hk, this]
          · cases huo
        · rw [effect_untouched id A1 _ (fun op hop hk => tA1 ⟨op, hop, hk⟩)]

/-! ### a block -/

theorem detach_attach_txs (P : Params) (h : Nat) : ∀ (txs : List Tx) (db : DB),
    validTxsB P h txs db = true → (∀ t ∈ txs, noOwnedVoteB P t = true) →
    CoreEq (txs.reverse.foldl (detachTx P) (txs.foldl (attachTx P h) db)) db := by
  intro txs
  induction txs with
  | nil => intro db _ _; exact CoreEq.refl _
  | cons t r ih =>
    intro db hv hn
    simp only [validTxsB, Bool.and_eq_true] at hv
    simp only [List.reverse_cons, List.foldl_append, List.foldl_cons, List.foldl_nil]
    have h1 := ih (attachTx P h db t) hv.2 (fun t' ht' => hn t' (List.mem_cons_of_mem _ ht'))
    have h2 : CoreEq (detachTx P (r.reverse.foldl (detachTx P) (r.foldl (attachTx P h) (attachTx P h db t))) t)
        (detachTx P (attachTx P h db t) t) := applyOps_congr _ h1
    exact h2.trans (detachTx_attachTx P h t db hv.1 (hn t (List.mem_cons_self)))

theorem detach_attach_block (P : Params) (b : Block) (db : DB)
    (hv : validBlockB P b db = true) (hn : noOwnedVoteBlockB P b = true) :
    CoreEq (detach P b (attach P b db)) db := by
  unfold detach attach
  unfold noOwnedVoteBlockB at hn
  simp only [List.all_eq_true] at hn
  exact detach_attach_txs P b.height b.txs db hv hn

end BytomModel.Lemmas.Wallet
