/-
Delivery runs at model level.  General part (no acceptance hypothesis): one delivery step and
a whole run keep "no orphan whose parent is stored", and every delivered block is stored, waits
in the pool, or was refused by `saveBlock` (and dropped).  Under an accepting class of states
(`Accepting`) nothing is refused: delivering a finite parent-closed set of blocks in ANY order
stores all of them and leaves the pool empty.
-/
import BytomModel.Lemmas.NodeConnect
open BytomModel.Node BytomModel.Lemmas.NodeAlist BytomModel.Lemmas.NodePool BytomModel.Lemmas.NodeFrame
open BytomModel.Lemmas.NodeOrphans BytomModel.Lemmas.NodeEvents BytomModel.Lemmas.NodeConnect

namespace BytomModel.Lemmas.NodeDelivery

def deliver (s : State) (b : Header) : State := (s.processBlock b).1

/-- no orphan whose parent is stored is left in the pool -/
def NoLeft (s : State) : Prop := ∀ o ∈ s.orphans, ¬ stored s o.parent

/-- `R` is closed under everything block processing does to the state (for delivered blocks in `P`) -/
structure StepClosed (R : State → Prop) (P : Header → Prop) : Prop where
  loop : LoopClosed R
  save : ∀ st b, R st → P b → stored st b.parent → R (st.saveBlock b).1
  add : ∀ st b, R st → P b → R (st.orphanAdd b)
  reorg : ∀ st h, R st → R (st.tryReorganize h).1

/-- the states block processing can reach from `s0` -/
inductive RunReach (s0 : State) : State → Prop
  | refl : RunReach s0 s0
  | save {st : State} (b : Header) : RunReach s0 st → RunReach s0 (st.saveBlock b).1
  | drop {st : State} (o : Nat) : RunReach s0 st → RunReach s0 (st.orphanDelete o)
  | add {st : State} (b : Header) : RunReach s0 st → RunReach s0 (st.orphanAdd b)
  | reorg {st : State} (h : Nat) : RunReach s0 st → RunReach s0 (st.tryReorganize h).1

theorem runReach_closed (s0 : State) : StepClosed (RunReach s0) (fun _ => True) :=
  ⟨⟨fun _ ob h _ _ => RunReach.save ob h, fun _ o h => RunReach.drop o h⟩,
   fun _ b h _ _ => RunReach.save b h, fun _ b h _ => RunReach.add b h, fun _ x h => RunReach.reorg x h⟩

/-- outcome of one delivery -/
structure StepOutG (U : Universe) (R : State → Prop) (s : State) (b : Header) (s' : State) : Prop where
  inv : Inv U s'
  r : R s'
  noLeft : NoLeft s'
  defs : s'.defs = s.defs
  mono : ∀ i, stored s i → stored s' i
  newStored : ∀ i, stored s' i → stored s i ∨ i = b.id ∨ ∃ o ∈ s.orphans, o.id = i
  poolSub : ∀ o ∈ s'.orphans, o ∈ s.orphans ∨ o = b
  poolFate : ∀ o ∈ s.orphans, stored s' o.id ∨ o ∈ s'.orphans ∨ Refused R o
  delivered : stored s' b.id ∨ b ∈ s'.orphans ∨ Refused R b

/-- **one delivery, no acceptance hypothesis**: the invariant and "no orphan with a stored parent" are
    kept; every old pool member and the delivered block is stored, in the pool, or was refused -/
theorem deliver_step_gen {U : Universe} {R : State → Prop} {P : Header → Prop} (hC : StepClosed R P)
    {s : State} {b : Header} (hI : Inv U s) (hr : R s) (hNL : NoLeft s)
    (hb : Coh U b) (hPb : P b) (hfresh : ¬ stored s b.id) (hnp : ¬ s.isOrphan b.id = true)
    (hfuel : s.orphans.length ≤ s.defs.length) : StepOutG U R s b (deliver s b) := by
  have hne : ¬ Early s b := by
    intro he
    have := he.1
    unfold stored at hfresh
    simp only [Bool.or_eq_true] at this
    rcases this with h | h
    · exact hfresh h
    · exact hnp h
  unfold deliver
  rcases processBlock_cases s b with ⟨he, _⟩ | ⟨_, hnpar, e⟩ | ⟨_, hpar, hf, e⟩ | ⟨_, hpar, hok, e, _⟩
  · exact absurd he hne
  · -- parent unknown: the block joins the pool
    rw [e]
    have hp := orphanAdd_poolOnly s b
    have hst : ∀ i, stored (s.orphanAdd b) i ↔ stored s i := fun i => by rw [stored_iff, stored_iff, hp.headers]
    have ho : (s.orphanAdd b).orphans = s.orphans ++ [b] := by rw [orphanAdd_orphans, if_neg hnp]
    refine ⟨inv_orphanAdd hI hb hfresh, hC.add s b hr hPb, ?_, hp.defs, fun i h => (hst i).mpr h,
      fun i h => Or.inl ((hst i).mp h), ?_, ?_, ?_⟩
    · intro o hm
      rw [hst]
      rw [ho, List.mem_append] at hm
      rcases hm with hm | hm
      · exact hNL o hm
      · simp at hm; subst hm; exact hnpar
    · intro o hm
      rw [ho, List.mem_append] at hm
      rcases hm with hm | hm
      · exact Or.inl hm
      · simp at hm; exact Or.inr hm
    · intro o hm; right; left; rw [ho]; exact List.mem_append_left _ hm
    · right; left; rw [ho]; simp
  · -- `saveBlock` refuses the delivered block itself
    rw [e]
    have hc := saveBlock_false hf
    have hst := stored_saveBlock_false hf
    refine ⟨inv_saveBlock hI hb, hC.save s b hr hPb hpar, ?_, hc.defs, fun i h => (hst i).mpr h,
      fun i h => Or.inl ((hst i).mp h), ?_, ?_, Or.inr (Or.inr ⟨s, hr, hpar, hf⟩)⟩
    · intro o hm; rw [hst]; rw [hc.orphans] at hm; exact hNL o hm
    · intro o hm; rw [hc.orphans] at hm; exact Or.inl hm
    · intro o hm; right; left; rw [hc.orphans]; exact hm
  · -- parent stored: the block and everything waiting under it is connected or dropped
    rw [e]
    have hr1 := hC.save s b hr hPb hpar
    have hI1 := inv_saveBlock hI hb
    have g1 := grow_saveBlock hI hb
    have hst1 := stored_saveBlock_true hok
    obtain ⟨_, _, _, _, ho1, _⟩ := saveBlock_true_fields hok
    have hs1 : stored (s.saveBlock b).1 b.id := (hst1 _).mpr (Or.inl rfl)
    have hsub1 : ∀ x, x ∈ (s.saveBlock b).1.orphans → x ∈ s.orphans := fun x hx => g1.mem hx
    obtain ⟨g2, r2, snd2, cmp2⟩ := ssbSpec hC.loop (s.saveBlock b).1.fuel (s.saveBlock b).1 b.id hI1 hr1 hs1
    have hlen : (s.saveBlock b).1.orphans.length ≤ (s.saveBlock b).1.fuel := by
      have h1 : (s.saveBlock b).1.orphans.length ≤ s.orphans.length := g1.sub.length_le
      have h2 := fuel_ge_defs (s.saveBlock b).1
      rw [g1.defs] at h2
      omega
    have cmp := cmp2 hlen
    have g02 := g1.trans g2
    have hst3 : ∀ i, stored ((connect s b).tryReorganize (connect s b).bestChain).1 i ↔ stored (connect s b) i := by
      intro i; rw [stored_iff, stored_iff]; simp
    have ho3 : ((connect s b).tryReorganize (connect s b).bestChain).1.orphans = (connect s b).orphans := by simp
    -- a pool member of `s1` whose parent is stored at the end was visited
    have hvis : ∀ x ∈ (s.saveBlock b).1.orphans, stored (connect s b) x.parent →
        x.parent = b.id ∨ NewS (s.saveBlock b).1 (connect s b) x.parent := by
      intro x hx1 hpx
      by_cases e1 : stored (s.saveBlock b).1 x.parent
      · rcases (hst1 _).mp e1 with e2 | e2
        · exact Or.inl e2
        · exact absurd e2 (hNL x (hsub1 x hx1))
      · exact Or.inr ⟨hpx, e1⟩
    have hnl2 : NoLeft (connect s b) := by
      intro x hx hpx
      have hx1 : x ∈ (s.saveBlock b).1.orphans := g2.mem hx
      exact (cmp x hx1 (hvis x hx1 hpx)).1 hx
    refine ⟨inv_tryReorganize g2.inv _, hC.reorg _ _ r2, ?_, ?_, ?_, ?_, ?_, ?_, ?_⟩
    · intro o hm
      rw [hst3]
      rw [ho3] at hm
      exact hnl2 o hm
    · simp only [tryReorganize_defs]; exact g02.defs
    · intro i h; exact (hst3 i).mpr (g02.mono i h)
    · intro i h
      have h2 := (hst3 i).mp h
      by_cases e1 : stored (s.saveBlock b).1 i
      · rcases (hst1 i).mp e1 with e2 | e2
        · exact Or.inr (Or.inl e2)
        · exact Or.inl e2
      · obtain ⟨o, hm, hid⟩ := snd2.wasPool i ⟨h2, e1⟩
        exact Or.inr (Or.inr ⟨o, hsub1 o hm, hid⟩)
    · intro o hm
      rw [ho3] at hm
      exact Or.inl (g02.mem hm)
    · intro o hm
      have hm1 : o ∈ (s.saveBlock b).1.orphans := by
        rw [ho1, List.mem_filter]
        refine ⟨hm, ?_⟩
        simp only [bne_iff_ne, ne_eq]
        intro e1
        exact hnp ((isOrphan_iff s b.id).mpr (List.mem_map.mpr ⟨o, hm, e1⟩))
      by_cases e1 : o ∈ (connect s b).orphans
      · right; left; rw [ho3]; exact e1
      · have k := cmp o hm1 (snd2.gone o ⟨hm1, e1⟩)
        by_cases e2 : stored (connect s b) o.id
        · exact Or.inl ((hst3 _).mpr e2)
        · exact Or.inr (Or.inr (k.2 e2))
    · exact Or.inl ((hst3 _).mpr (g2.mono _ hs1))

/-- **`processBlock` keeps "no orphan whose parent is stored"** — no acceptance hypothesis, any block
    (new, already stored, or already in the pool) -/
theorem noLeft_processBlock {U : Universe} {s : State} (hI : Inv U s) (hNL : NoLeft s) {b : Header} (hb : Coh U b)
    (hfuel : s.orphans.length ≤ s.defs.length) : NoLeft (s.processBlock b).1 := by
  rcases processBlock_cases s b with ⟨_, e, _⟩ | ⟨_, hnpar, e⟩ | ⟨_, _, hf, e⟩ | ⟨_, _, hok, e, _⟩
  · rw [e]; exact hNL
  · rw [e]
    have hp := orphanAdd_poolOnly s b
    have hst : ∀ i, stored (s.orphanAdd b) i ↔ stored s i := fun i => by rw [stored_iff, stored_iff, hp.headers]
    intro o hm
    rw [hst]
    rw [orphanAdd_orphans] at hm
    split at hm
    · exact hNL o hm
    · rcases List.mem_append.mp hm with hm | hm
      · exact hNL o hm
      · simp at hm; subst hm; exact hnpar
  · rw [e]
    have hc := saveBlock_false hf
    intro o hm
    rw [stored_saveBlock_false hf]
    rw [hc.orphans] at hm
    exact hNL o hm
  · rw [e]
    have hI1 := inv_saveBlock hI hb
    have g1 := grow_saveBlock hI hb
    have hst1 := stored_saveBlock_true hok
    have hs1 : stored (s.saveBlock b).1 b.id := (hst1 _).mpr (Or.inl rfl)
    obtain ⟨g2, _, _, cmp2⟩ := ssbSpec (U := U) loopClosed_true (s.saveBlock b).1.fuel (s.saveBlock b).1 b.id hI1 trivial hs1
    have hlen : (s.saveBlock b).1.orphans.length ≤ (s.saveBlock b).1.fuel := by
      have h1 : (s.saveBlock b).1.orphans.length ≤ s.orphans.length := g1.sub.length_le
      have h2 := fuel_ge_defs (s.saveBlock b).1
      rw [g1.defs] at h2
      omega
    have cmp := cmp2 hlen
    intro x hx hpx
    simp only [tryReorganize_orphans] at hx
    have hpx' : stored (connect s b) x.parent := by
      rw [stored_iff] at hpx ⊢; simpa using hpx
    have hx1 : x ∈ (s.saveBlock b).1.orphans := g2.mem hx
    have hcase : x.parent = b.id ∨ NewS (s.saveBlock b).1 (connect s b) x.parent := by
      by_cases e1 : stored (s.saveBlock b).1 x.parent
      · rcases (hst1 _).mp e1 with e2 | e2
        · exact Or.inl e2
        · exact absurd e2 (hNL x (g1.mem hx1))
      · exact Or.inr ⟨hpx', e1⟩
    exact (cmp x hx1 hcase).1 hx

/-- a valid block of the universe: a copy of the block with its id, one higher than its parent -/
structure Valid (U : Universe) (b : Header) : Prop where
  coh : Coh U b
  height : b.height = U.height b.parent + 1

/-- invariant of a delivery run: `D` is the list of blocks delivered so far -/
structure RunInvG (U : Universe) (R : State → Prop) (s0 : State) (D : List Header) (s : State) : Prop where
  inv : Inv U s
  r : R s
  noLeft : NoLeft s
  defs : s.defs = s0.defs
  mono : ∀ i, stored s0 i → stored s i
  storedSub : ∀ i, stored s i → stored s0 i ∨ i ∈ D.map (·.id)
  poolSub : ∀ o ∈ s.orphans, o ∈ D
  fate : ∀ d ∈ D, stored s d.id ∨ d ∈ s.orphans ∨ Refused R d

theorem run_deliver_gen {U : Universe} {R : State → Prop} {P : Header → Prop} (hC : StepClosed R P) {s0 : State}
    (σ : List Header) :
    ∀ (D : List Header) (s : State), RunInvG U R s0 D s → ((D ++ σ).map (·.id)).Nodup →
      (∀ b ∈ D ++ σ, P b ∧ Coh U b ∧ ¬ stored s0 b.id) → (D ++ σ).length ≤ s0.defs.length →
      RunInvG U R s0 (D ++ σ) (σ.foldl deliver s) := by
  induction σ with
  | nil => intro D s h _ _ _; simpa using h
  | cons b σ ih =>
    intro D s h hnd hall hlen
    have hbm : b ∈ D ++ b :: σ := by simp
    obtain ⟨hPb, hcb, hfr⟩ := hall b hbm
    have hbD : b.id ∉ D.map (·.id) := by
      rw [List.map_append, List.nodup_append] at hnd
      intro hm
      exact hnd.2.2 _ hm b.id (by simp) rfl
    have hfresh : ¬ stored s b.id := by
      intro hs
      rcases h.storedSub _ hs with e | e
      · exact hfr e
      · exact hbD e
    have hnp : ¬ s.isOrphan b.id = true := by
      rw [isOrphan_iff]
      intro hm
      obtain ⟨o, ho, hid⟩ := List.mem_map.mp hm
      exact hbD (List.mem_map.mpr ⟨o, h.poolSub o ho, hid⟩)
    have hfuel : s.orphans.length ≤ s.defs.length := by
      have h1 : (s.orphans.map (·.id)).Subperm (D.map (·.id)) := by
        apply List.subperm_of_subset h.inv.pool.nodup
        intro i hi
        obtain ⟨o, ho, hid⟩ := List.mem_map.mp hi
        exact List.mem_map.mpr ⟨o, h.poolSub o ho, hid⟩
      have h2 := h1.length_le
      simp only [List.length_map, List.length_append] at h2 hlen
      rw [h.defs]
      omega
    have st := deliver_step_gen hC h.inv h.r h.noLeft hcb hPb hfresh hnp hfuel
    have hnext : RunInvG U R s0 (D ++ [b]) (deliver s b) := by
      refine ⟨st.inv, st.r, st.noLeft, by rw [st.defs, h.defs], fun i hi => st.mono i (h.mono i hi), ?_, ?_, ?_⟩
      · intro i hi
        rcases st.newStored i hi with e | e | ⟨o, ho, hid⟩
        · rcases h.storedSub i e with e' | e'
          · exact Or.inl e'
          · right; rw [List.map_append]; exact List.mem_append_left _ e'
        · right; rw [e]; simp
        · right; rw [List.map_append]
          exact List.mem_append_left _ (List.mem_map.mpr ⟨o, h.poolSub o ho, hid⟩)
      · intro o ho
        rcases st.poolSub o ho with e | e
        · exact List.mem_append_left _ (h.poolSub o e)
        · rw [e]; simp
      · intro d hd
        rw [List.mem_append] at hd
        rcases hd with hd | hd
        · rcases h.fate d hd with e | e | e
          · exact Or.inl (st.mono _ e)
          · exact st.poolFate d e
          · exact Or.inr (Or.inr e)
        · simp at hd; subst hd; exact st.delivered
    have := ih (D ++ [b]) (deliver s b) hnext (by simpa using hnd) (by simpa using hall) (by simpa using hlen)
    simpa using this

theorem alist_nil_of_get_none {α : Type} {l : List (Nat × α)} (h : ∀ p, alistGet l p = none) : l = [] := by
  cases l with
  | nil => rfl
  | cons p l =>
    have := h p.1
    rw [alistGet_cons] at this
    simp at this

/-- `b` waits in the pool below a block of the set that was refused (and dropped) -/
inductive Blocked (R : State → Prop) (s' : State) (bs : List Header) : Header → Prop
  | parentRefused {b c : Header} : c ∈ bs → c.id = b.parent → ¬ stored s' c.id → c ∉ s'.orphans → Refused R c →
      Blocked R s' bs b
  | parentBlocked {b c : Header} : c ∈ bs → c.id = b.parent → c ∈ s'.orphans → Blocked R s' bs c → Blocked R s' bs b

/-- **delivery of a parent-closed block set in any order, no acceptance hypothesis** (any configuration,
    blocks may carry sup links): at the end no pool member has a stored parent, and every block of the
    set is stored, or was refused by `saveBlock` in a state reached by the run and is NOT in the pool,
    or waits in the pool with an unstored parent below such a refused block -/
theorem delivery_fate {U : Universe} {s0 : State} (hI0 : Inv U s0) (he : s0.orphans = []) {bs : List Header}
    (hv : ∀ b ∈ bs, Valid U b) (hnd : (bs.map (·.id)).Nodup) (hfresh : ∀ b ∈ bs, ¬ stored s0 b.id)
    (hclosed : ∀ b ∈ bs, stored s0 b.parent ∨ b.parent ∈ bs.map (·.id)) (hdefs : bs.length ≤ s0.defs.length)
    {σ : List Header} (hσ : σ.Perm bs) :
    Inv U (σ.foldl deliver s0) ∧ NoLeft (σ.foldl deliver s0) ∧
    (∀ o ∈ (σ.foldl deliver s0).orphans, o ∈ bs) ∧
    (∀ i, stored (σ.foldl deliver s0) i → stored s0 i ∨ i ∈ bs.map (·.id)) ∧
    (∀ i, stored s0 i → stored (σ.foldl deliver s0) i) ∧
    ∀ b ∈ bs,
      stored (σ.foldl deliver s0) b.id ∨
      (¬ stored (σ.foldl deliver s0) b.id ∧ b ∉ (σ.foldl deliver s0).orphans ∧ Refused (RunReach s0) b) ∨
      (b ∈ (σ.foldl deliver s0).orphans ∧ ¬ stored (σ.foldl deliver s0) b.parent ∧
        Blocked (RunReach s0) (σ.foldl deliver s0) bs b) := by
  have h0 : RunInvG U (RunReach s0) s0 [] s0 := by
    refine ⟨hI0, RunReach.refl, ?_, rfl, fun _ h => h, fun _ h => Or.inl h, ?_, ?_⟩
    · intro o ho; rw [he] at ho; simp at ho
    · intro o ho; rw [he] at ho; simp at ho
    · intro d hd; simp at hd
  have hr := run_deliver_gen (runReach_closed s0) σ [] s0 h0 (by simpa using (hσ.map (·.id)).nodup_iff.mpr hnd)
    (by
      intro b hb
      simp only [List.nil_append] at hb
      have hb' := hσ.mem_iff.mp hb
      exact ⟨trivial, (hv b hb').coh, hfresh b hb'⟩)
    (by simpa [hσ.length_eq] using hdefs)
  simp only [List.nil_append] at hr
  set s' := σ.foldl deliver s0
  have hfate : ∀ b ∈ bs, stored s' b.id ∨ b ∈ s'.orphans ∨ Refused (RunReach s0) b :=
    fun b hb => hr.fate b (hσ.mem_iff.mpr hb)
  -- pool members are blocked (induction on the height)
  have hblk : ∀ n, ∀ b ∈ bs, b.height = n → b ∈ s'.orphans → Blocked (RunReach s0) s' bs b := by
    intro n
    induction n using Nat.strongRecOn with
    | _ n ihn =>
      intro b hb hh hbo
      have hnp := hr.noLeft b hbo
      rcases hclosed b hb with e | e
      · exact absurd (hr.mono _ e) hnp
      · obtain ⟨c, hc, hid⟩ := List.mem_map.mp e
        have hcs : ¬ stored s' c.id := by rw [hid]; exact hnp
        by_cases hco : c ∈ s'.orphans
        · have hlt : c.height < n := by
            have h1 := (hv b hb).height
            have h2 := (hv c hc).coh.2
            rw [← hid, ← h2] at h1
            omega
          exact Blocked.parentBlocked hc hid hco (ihn c.height hlt c hc rfl hco)
        · rcases hfate c hc with e1 | e1 | e1
          · exact absurd e1 hcs
          · exact absurd e1 hco
          · exact Blocked.parentRefused hc hid hcs hco e1
  refine ⟨hr.inv, hr.noLeft, fun o ho => hσ.mem_iff.mp (hr.poolSub o ho), ?_, hr.mono, ?_⟩
  · intro i hi
    rcases hr.storedSub i hi with e | e
    · exact Or.inl e
    · exact Or.inr ((hσ.map (·.id)).mem_iff.mp e)
  · intro b hb
    by_cases e1 : stored s' b.id
    · exact Or.inl e1
    · by_cases e2 : b ∈ s'.orphans
      · exact Or.inr (Or.inr ⟨e2, hr.noLeft b e2, hblk b.height b hb rfl e2⟩)
      · rcases hfate b hb with e3 | e3 | e3
        · exact absurd e3 e1
        · exact absurd e3 e2
        · exact Or.inr (Or.inl ⟨e1, e2, e3⟩)

/-! ### accepting classes: nothing is refused -/

/-- `Good` is a class of states, closed under the steps of block processing, in which
    `saveBlock` never refuses a block satisfying `B` whose parent is stored -/
structure Accepting (B : Header → Prop) (Good : State → Prop) : Prop where
  save : ∀ s b, Good s → B b → stored s b.parent → (s.saveBlock b).2 = true ∧ Good (s.saveBlock b).1
  add : ∀ s b, Good s → Good (s.orphanAdd b)
  drop : ∀ s o, Good s → Good (s.orphanDelete o)
  reorg : ∀ s h, Good s → Good (s.tryReorganize h).1

/-- `Good`, and every pool member is a `B`-block -/
def GoodB (B : Header → Prop) (Good : State → Prop) (s : State) : Prop := Good s ∧ ∀ o ∈ s.orphans, B o

theorem accepting_closed {B : Header → Prop} {Good : State → Prop} (hA : Accepting B Good) :
    StepClosed (GoodB B Good) B := by
  have hsave : ∀ st b, GoodB B Good st → B b → stored st b.parent → GoodB B Good (st.saveBlock b).1 := by
    intro st b hr hb hps
    obtain ⟨hok', hg'⟩ := hA.save st b hr.1 hb hps
    refine ⟨hg', ?_⟩
    obtain ⟨_, _, _, _, ho', _⟩ := saveBlock_true_fields hok'
    intro o hmo
    rw [ho'] at hmo
    exact hr.2 o (List.mem_filter.mp hmo).1
  refine ⟨⟨fun st ob hr hm hps => hsave st ob hr (hr.2 ob hm) hps, ?_⟩, hsave, ?_, ?_⟩
  · intro st o hr
    refine ⟨hA.drop st o hr.1, ?_⟩
    intro x hx
    rw [orphanDelete_orphans] at hx
    exact hr.2 x (List.mem_filter.mp hx).1
  · intro st b hr hb
    refine ⟨hA.add st b hr.1, ?_⟩
    intro x hx
    rw [orphanAdd_orphans] at hx
    split at hx
    · exact hr.2 x hx
    · rcases List.mem_append.mp hx with h | h
      · exact hr.2 x h
      · simp at h; subst h; exact hb
  · intro st h hr
    refine ⟨hA.reorg st h hr.1, ?_⟩
    intro x hx
    simp only [tryReorganize_orphans] at hx
    exact hr.2 x hx

/-- in an accepting class no `B`-block is ever refused -/
theorem not_refused {B : Header → Prop} {Good : State → Prop} (hA : Accepting B Good) {x : Header} (hx : B x) :
    ¬ Refused (GoodB B Good) x := by
  rintro ⟨st, hr, hps, hf⟩
  have := (hA.save st x hr.1 hx hps).1
  rw [this] at hf; cases hf

structure StepOut (U : Universe) (Good : State → Prop) (s : State) (b : Header) (s' : State) : Prop where
  inv : Inv U s'
  good : Good s'
  noLeft : NoLeft s'
  defs : s'.defs = s.defs
  mono : ∀ i, stored s i → stored s' i
  newStored : ∀ i, stored s' i → stored s i ∨ i = b.id ∨ ∃ o ∈ s.orphans, o.id = i
  poolSub : ∀ o ∈ s'.orphans, o ∈ s.orphans ∨ o = b
  poolKept : ∀ o ∈ s.orphans, stored s' o.id ∨ o ∈ s'.orphans
  delivered : stored s' b.id ∨ b ∈ s'.orphans

theorem deliver_step {U : Universe} {B : Header → Prop} {Good : State → Prop} (hA : Accepting B Good)
    {s : State} {b : Header} (hI : Inv U s) (hG : Good s) (hNL : NoLeft s) (hBo : ∀ o ∈ s.orphans, B o)
    (hb : Coh U b) (hBb : B b) (hfresh : ¬ stored s b.id) (hnp : ¬ s.isOrphan b.id = true)
    (hfuel : s.orphans.length ≤ s.defs.length) : StepOut U Good s b (deliver s b) := by
  have st := deliver_step_gen (accepting_closed hA) hI ⟨hG, hBo⟩ hNL hb hBb hfresh hnp hfuel
  refine ⟨st.inv, st.r.1, st.noLeft, st.defs, st.mono, st.newStored, st.poolSub, ?_, ?_⟩
  · intro o ho
    rcases st.poolFate o ho with e | e | e
    · exact Or.inl e
    · exact Or.inr e
    · exact absurd e (not_refused hA (hBo o ho))
  · rcases st.delivered with e | e | e
    · exact Or.inl e
    · exact Or.inr e
    · exact absurd e (not_refused hA hBb)

/-- all ancestors of `b` inside the delivered set `bs` were delivered, down to a block of the store -/
inductive Rooted (s0 : State) (bs : List Header) : Header → Prop
  | base {b : Header} : b ∈ bs → stored s0 b.parent → Rooted s0 bs b
  | step {b c : Header} : b ∈ bs → c ∈ bs → c.id = b.parent → Rooted s0 bs c → Rooted s0 bs b

/-- **delivery of an arbitrary (not parent-closed) block set in an accepting class**: whatever the
    order, the connected blocks are exactly those all of whose ancestors were delivered; the others
    wait in the pool, and no orphan whose parent is stored is left -/
theorem delivery_general {U : Universe} {B : Header → Prop} {Good : State → Prop} (hA : Accepting B Good) {s0 : State}
    (hI0 : Inv U s0) (hG0 : Good s0) (he : s0.orphans = []) {bs : List Header}
    (hv : ∀ b ∈ bs, B b ∧ Valid U b) (hnd : (bs.map (·.id)).Nodup) (hfresh : ∀ b ∈ bs, ¬ stored s0 b.id)
    (hdefs : bs.length ≤ s0.defs.length) {σ : List Header} (hσ : σ.Perm bs) :
    (∀ b ∈ bs, stored (σ.foldl deliver s0) b.id ↔ Rooted s0 bs b) ∧
    (∀ b ∈ bs, b ∈ (σ.foldl deliver s0).orphans ↔ ¬ Rooted s0 bs b) ∧
    (∀ o ∈ (σ.foldl deliver s0).orphans, o ∈ bs) ∧
    NoLeft (σ.foldl deliver s0) ∧
    (∀ i, stored s0 i → stored (σ.foldl deliver s0) i) ∧
    (∀ i, stored (σ.foldl deliver s0) i → stored s0 i ∨ i ∈ bs.map (·.id)) ∧
    Inv U (σ.foldl deliver s0) ∧ Good (σ.foldl deliver s0) := by
  have h0 : RunInvG U (GoodB B Good) s0 [] s0 := by
    refine ⟨hI0, ⟨hG0, ?_⟩, ?_, rfl, fun _ h => h, fun _ h => Or.inl h, ?_, ?_⟩
    · intro o ho; rw [he] at ho; simp at ho
    · intro o ho; rw [he] at ho; simp at ho
    · intro o ho; rw [he] at ho; simp at ho
    · intro d hd; simp at hd
  have hr := run_deliver_gen (accepting_closed hA) σ [] s0 h0 (by simpa using (hσ.map (·.id)).nodup_iff.mpr hnd)
    (by
      intro b hb
      simp only [List.nil_append] at hb
      have hb' := hσ.mem_iff.mp hb
      exact ⟨(hv b hb').1, (hv b hb').2.coh, hfresh b hb'⟩)
    (by simpa [hσ.length_eq] using hdefs)
  simp only [List.nil_append] at hr
  set s' := σ.foldl deliver s0
  have hall : ∀ b ∈ bs, stored s' b.id ∨ b ∈ s'.orphans := by
    intro b hb
    rcases hr.fate b (hσ.mem_iff.mpr hb) with e | e | e
    · exact Or.inl e
    · exact Or.inr e
    · exact absurd e (not_refused hA (hv b hb).1)
  have hexcl : ∀ b, b ∈ s'.orphans → ¬ stored s' b.id := fun b hb => hr.inv.disjoint b hb
  have hroot : ∀ b, Rooted s0 bs b → stored s' b.id := by
    intro b hb
    induction hb with
    | @base b hm hp =>
      rcases hall b hm with e | e
      · exact e
      · exact absurd (hr.mono _ hp) (hr.noLeft b e)
    | @step b c hm _ hid _ ih =>
      rcases hall b hm with e | e
      · exact e
      · exact absurd (hid ▸ ih) (hr.noLeft b e)
  have hstored : ∀ n, ∀ b ∈ bs, b.height = n → stored s' b.id → Rooted s0 bs b := by
    intro n
    induction n using Nat.strongRecOn with
    | _ n ihn =>
      intro b hb hh hs
      obtain ⟨hd, _, hdm, hdid⟩ := header_of_stored hs
      have hcoh := hr.inv.cohH hd hdm
      have hvb := (hv b hb).2
      have hpe : hd.parent = b.parent := by rw [hcoh.1, hvb.coh.1, hdid]
      have hhe : hd.height = b.height := by rw [hcoh.2, hvb.coh.2, hdid]
      rcases hr.inv.closed hd hdm with e0 | e0
      · have := hvb.height
        omega
      · rw [hpe] at e0
        rcases hr.storedSub _ e0 with e1 | e1
        · exact Rooted.base hb e1
        · obtain ⟨c, hc, hcid⟩ := List.mem_map.mp e1
          have hcb : c ∈ bs := hσ.mem_iff.mp hc
          have hlt : c.height < n := by
            have h1 := hvb.height
            have h2 := (hv c hcb).2.coh.2
            rw [← hcid, ← h2] at h1
            omega
          exact Rooted.step hb hcb hcid (ihn c.height hlt c hcb rfl (hcid ▸ e0))
  refine ⟨fun b hb => ⟨hstored b.height b hb rfl, hroot b⟩, ?_, fun o ho => hσ.mem_iff.mp (hr.poolSub o ho),
    hr.noLeft, hr.mono, ?_, hr.inv, hr.r.1⟩
  · intro b hb
    constructor
    · intro hm hro
      exact hexcl b hm (hroot b hro)
    · intro hn
      rcases hall b hb with e | e
      · exact absurd (hstored b.height b hb rfl e) hn
      · exact e
  · intro i hi
    rcases hr.storedSub i hi with e | e
    · exact Or.inl e
    · exact Or.inr ((hσ.map (·.id)).mem_iff.mp e)

/-- a parent-closed set is rooted -/
theorem rooted_of_closed {U : Universe} {s0 : State} {bs : List Header} (hv : ∀ b ∈ bs, Valid U b)
    (hclosed : ∀ b ∈ bs, stored s0 b.parent ∨ b.parent ∈ bs.map (·.id)) :
    ∀ n, ∀ b ∈ bs, b.height = n → Rooted s0 bs b := by
  intro n
  induction n using Nat.strongRecOn with
  | _ n ihn =>
    intro b hb hh
    rcases hclosed b hb with e | e
    · exact Rooted.base hb e
    · obtain ⟨c, hc, hid⟩ := List.mem_map.mp e
      have hlt : c.height < n := by
        have h1 := (hv b hb).height
        have h2 := (hv c hc).coh.2
        rw [← hid, ← h2] at h1
        omega
      exact Rooted.step hb hc hid (ihn c.height hlt c hc rfl)

/-- **delivery-order theorem** (model level, accepting class) -/
theorem delivery_order {U : Universe} {B : Header → Prop} {Good : State → Prop} (hA : Accepting B Good) {s0 : State}
    (hI0 : Inv U s0) (hG0 : Good s0) (he : s0.orphans = []) {bs : List Header}
    (hv : ∀ b ∈ bs, B b ∧ Valid U b) (hnd : (bs.map (·.id)).Nodup) (hfresh : ∀ b ∈ bs, ¬ stored s0 b.id)
    (hclosed : ∀ b ∈ bs, stored s0 b.parent ∨ b.parent ∈ bs.map (·.id)) (hdefs : bs.length ≤ s0.defs.length)
    {σ : List Header} (hσ : σ.Perm bs) :
    (∀ b ∈ bs, stored (σ.foldl deliver s0) b.id) ∧ (σ.foldl deliver s0).orphans = [] ∧
    (σ.foldl deliver s0).prevOrphans = [] ∧
    (∀ i, stored (σ.foldl deliver s0) i ↔ stored s0 i ∨ i ∈ bs.map (·.id)) ∧
    Inv U (σ.foldl deliver s0) ∧ Good (σ.foldl deliver s0) := by
  obtain ⟨h1, h2, h3, _, h5, h6, h7, h8⟩ := delivery_general hA hI0 hG0 he hv hnd hfresh hdefs hσ
  have hro := rooted_of_closed (fun b hb => (hv b hb).2) hclosed
  have hall : ∀ b ∈ bs, stored (σ.foldl deliver s0) b.id := fun b hb => (h1 b hb).mpr (hro b.height b hb rfl)
  have hemp : (σ.foldl deliver s0).orphans = [] := by
    cases e : (σ.foldl deliver s0).orphans with
    | nil => rfl
    | cons o os =>
      have ho : o ∈ (σ.foldl deliver s0).orphans := by rw [e]; simp
      have hob := h3 o ho
      exact absurd (hro o.height o hob rfl) ((h2 o hob).mp ho)
  have hprev : (σ.foldl deliver s0).prevOrphans = [] := by
    apply alist_nil_of_get_none
    intro p
    rw [h7.pool.get, hemp]
    rfl
  refine ⟨hall, hemp, hprev, ?_, h7, h8⟩
  intro i
  constructor
  · exact h6 i
  · rintro (e | e)
    · exact h5 i e
    · obtain ⟨b, hb, hid⟩ := List.mem_map.mp e
      rw [← hid]; exact hall b hb

end BytomModel.Lemmas.NodeDelivery
