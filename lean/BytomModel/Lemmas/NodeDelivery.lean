/-
The delivery-order theorem at model level: in a class of states where `saveBlock` never
refuses a block whose parent is stored (`Accepting`), delivering a finite parent-closed set
of blocks in ANY order stores all of them and leaves the pool empty.
-/
import BytomModel.Lemmas.NodeConnect
open BytomModel.Node BytomModel.Lemmas.NodeAlist BytomModel.Lemmas.NodePool BytomModel.Lemmas.NodeFrame
open BytomModel.Lemmas.NodeOrphans BytomModel.Lemmas.NodeEvents BytomModel.Lemmas.NodeConnect

namespace BytomModel.Lemmas.NodeDelivery

/-- `Good` is a class of states, closed under the steps of block processing, in which
    `saveBlock` never refuses a block satisfying `B` whose parent is stored -/
structure Accepting (B : Header → Prop) (Good : State → Prop) : Prop where
  save : ∀ s b, Good s → B b → stored s b.parent → (s.saveBlock b).2 = true ∧ Good (s.saveBlock b).1
  add : ∀ s b, Good s → Good (s.orphanAdd b)
  reorg : ∀ s h, Good s → Good (s.tryReorganize h).1

def deliver (s : State) (b : Header) : State := (s.processBlock b).1

/-- no orphan whose parent is stored is left in the pool -/
def NoLeft (s : State) : Prop := ∀ o ∈ s.orphans, ¬ stored s o.parent

structure StepOut (U : Universe) (Good : State → Prop) (s : State) (b : Header) (s' : State) : Prop where
  inv : Inv U s'
  good : Good s'
  noLeft : NoLeft s'
  defs : s'.defs = s.defs
  mono : ∀ i, stored s i → stored s' i
  newStored : ∀ i, stored s' i → stored s i ∨ i = b.id ∨ ∃ o ∈ s.orphans, o.id = i
  poolSub : ∀ o ∈ s'.orphans, o ∈ s.orphans ∨ o = b
  poolKept : ∀ o ∈ s.orphans, stored s' o.id ∨ o ∈ s'.orphans
  delivered : stored s' b.id ∨ b ∈ s'.orphans

theorem deliver_step {U : Universe} {B : Header → Prop} {Good : State → Prop} (hA : Accepting B Good)
    {s : State} {b : Header} (hI : Inv U s) (hG : Good s) (hNL : NoLeft s) (hBo : ∀ o ∈ s.orphans, B o)
    (hb : Coh U b) (hBb : B b) (hfresh : ¬ stored s b.id) (hnp : ¬ s.isOrphan b.id = true)
    (hfuel : s.orphans.length ≤ s.defs.length) : StepOut U Good s b (deliver s b) := by
  have hne : ¬ Early s b := by
    intro he
    have := he.1
    unfold stored at hfresh
    simp only [Bool.or_eq_true] at this
    rcases this with h | h
    · exact hfresh h
    · exact hnp h
  unfold deliver
  rcases processBlock_cases s b with ⟨he, _⟩ | ⟨_, hnpar, e⟩ | ⟨_, hpar, hf, _⟩ | ⟨_, hpar, hok, e, _⟩
  · exact absurd he hne
  · -- parent unknown: the block joins the pool
    rw [e]
    have hp := orphanAdd_poolOnly s b
    have hst : ∀ i, stored (s.orphanAdd b) i ↔ stored s i := fun i => by rw [stored_iff, stored_iff, hp.headers]
    have ho : (s.orphanAdd b).orphans = s.orphans ++ [b] := by rw [orphanAdd_orphans, if_neg hnp]
    refine ⟨inv_orphanAdd hI hb hfresh, hA.add s b hG, ?_, hp.defs, fun i h => (hst i).mpr h,
      fun i h => Or.inl ((hst i).mp h), ?_, ?_, ?_⟩
    · intro o hm
      rw [hst]
      rw [ho, List.mem_append] at hm
      rcases hm with hm | hm
      · exact hNL o hm
      · simp at hm; subst hm; exact hnpar
    · intro o hm
      rw [ho, List.mem_append] at hm
      rcases hm with hm | hm
      · exact Or.inl hm
      · simp at hm; exact Or.inr hm
    · intro o hm; right; rw [ho]; exact List.mem_append_left _ hm
    · right; rw [ho]; simp
  · have := (hA.save s b hG hBb hpar).1
    rw [this] at hf; cases hf
  · -- parent stored: the block and everything waiting under it is connected
    rw [e]
    obtain ⟨_, hG1⟩ := hA.save s b hG hBb hpar
    have hI1 := inv_saveBlock hI hb
    have g1 := grow_saveBlock hI hb
    have hst1 := stored_saveBlock_true hok
    have hs1 : stored (s.saveBlock b).1 b.id := (hst1 _).mpr (Or.inl rfl)
    have hsub1 : ∀ x, x ∈ (s.saveBlock b).1.orphans → x ∈ s.orphans := fun x hx => ((g1.mem_orphans x).mp hx).1
    let R : State → Prop := fun st => Good st ∧ ∀ o ∈ st.orphans, B o
    have hR : ∀ (st : State) (ob : Header), R st → ob ∈ st.orphans → stored st ob.parent → R (st.saveBlock ob).1 := by
      intro st ob hr hm hps
      obtain ⟨hok', hg'⟩ := hA.save st ob hr.1 (hr.2 ob hm) hps
      refine ⟨hg', ?_⟩
      obtain ⟨_, _, _, _, ho', _⟩ := saveBlock_true_fields hok'
      intro o hmo
      rw [ho'] at hmo
      exact hr.2 o (List.mem_filter.mp hmo).1
    have hR1 : R (s.saveBlock b).1 := ⟨hG1, fun o hm => hBo o (hsub1 o hm)⟩
    obtain ⟨g2, r2, snd2, cmp2⟩ := ssbSpec hR (s.saveBlock b).1.fuel (s.saveBlock b).1 b.id hI1 hR1 hs1
    have hlen : (s.saveBlock b).1.orphans.length ≤ (s.saveBlock b).1.fuel := by
      have h1 : (s.saveBlock b).1.orphans.length ≤ s.orphans.length := by
        rw [g1.pool]; exact List.length_filter_le _ _
      have h2 := fuel_ge_defs (s.saveBlock b).1
      rw [g1.defs] at h2
      omega
    have cmp := cmp2 hlen
    have g02 := g1.trans g2
    have hst3 : ∀ i, stored ((connect s b).tryReorganize (connect s b).bestChain).1 i ↔ stored (connect s b) i := by
      intro i; rw [stored_iff, stored_iff]; simp
    have ho3 : ((connect s b).tryReorganize (connect s b).bestChain).1.orphans = (connect s b).orphans := by simp
    have hnl2 : NoLeft (connect s b) := by
      intro x hx hpx
      have hx1 : x ∈ (s.saveBlock b).1.orphans := ((g2.mem_orphans x).mp hx).1
      have hns : ¬ stored (connect s b) x.id := g2.inv.disjoint x hx
      have hcase : x.parent = b.id ∨ NewS (s.saveBlock b).1 (connect s b) x.parent := by
        by_cases e1 : stored (s.saveBlock b).1 x.parent
        · rcases (hst1 _).mp e1 with e2 | e2
          · exact Or.inl e2
          · exact absurd e2 (hNL x (hsub1 x hx1))
        · exact Or.inr ⟨hpx, e1⟩
      obtain ⟨st, hr, hps, hrf⟩ := cmp x hx1 hcase hns
      have := (hA.save st x hr.1 (hBo x (hsub1 x hx1)) hps).1
      rw [this] at hrf; cases hrf
    refine ⟨inv_tryReorganize g2.inv _, hA.reorg _ _ r2.1, ?_, ?_, ?_, ?_, ?_, ?_, ?_⟩
    · intro o hm
      rw [hst3]
      rw [ho3] at hm
      exact hnl2 o hm
    · simp only [tryReorganize_defs]; exact g02.defs
    · intro i h; exact (hst3 i).mpr (g02.mono i h)
    · intro i h
      have h2 := (hst3 i).mp h
      by_cases e1 : stored (s.saveBlock b).1 i
      · rcases (hst1 i).mp e1 with e2 | e2
        · exact Or.inr (Or.inl e2)
        · exact Or.inl e2
      · obtain ⟨o, hm, hid, _⟩ := snd2 i ⟨h2, e1⟩
        exact Or.inr (Or.inr ⟨o, hsub1 o hm, hid⟩)
    · intro o hm
      rw [ho3] at hm
      exact Or.inl ((g02.mem_orphans o).mp hm).1
    · intro o hm
      by_cases e1 : stored (connect s b) o.id
      · exact Or.inl ((hst3 _).mpr e1)
      · right; rw [ho3]; exact (g02.mem_orphans o).mpr ⟨hm, e1⟩
    · exact Or.inl ((hst3 _).mpr (g2.mono _ hs1))

/-- a valid block of the universe: a copy of the block with its id, one higher than its parent -/
structure Valid (U : Universe) (b : Header) : Prop where
  coh : Coh U b
  height : b.height = U.height b.parent + 1

/-- invariant of a delivery run: `D` is the list of blocks delivered so far -/
structure RunInv (U : Universe) (Good : State → Prop) (s0 : State) (D : List Header) (s : State) : Prop where
  inv : Inv U s
  good : Good s
  noLeft : NoLeft s
  defs : s.defs = s0.defs
  mono : ∀ i, stored s0 i → stored s i
  storedSub : ∀ i, stored s i → stored s0 i ∨ i ∈ D.map (·.id)
  poolSub : ∀ o ∈ s.orphans, o ∈ D
  all : ∀ d ∈ D, stored s d.id ∨ d ∈ s.orphans

theorem run_deliver {U : Universe} {B : Header → Prop} {Good : State → Prop} (hA : Accepting B Good) {s0 : State}
    (σ : List Header) :
    ∀ (D : List Header) (s : State), RunInv U Good s0 D s → ((D ++ σ).map (·.id)).Nodup →
      (∀ b ∈ D ++ σ, B b ∧ Coh U b ∧ ¬ stored s0 b.id) → (D ++ σ).length ≤ s0.defs.length →
      RunInv U Good s0 (D ++ σ) (σ.foldl deliver s) := by
  induction σ with
  | nil => intro D s h _ _ _; simpa using h
  | cons b σ ih =>
    intro D s h hnd hall hlen
    have hbm : b ∈ D ++ b :: σ := by simp
    obtain ⟨hBb, hcb, hfr⟩ := hall b hbm
    have hbD : b.id ∉ D.map (·.id) := by
      rw [List.map_append, List.nodup_append] at hnd
      intro hm
      exact hnd.2.2 _ hm b.id (by simp) rfl
    have hfresh : ¬ stored s b.id := by
      intro hs
      rcases h.storedSub _ hs with e | e
      · exact hfr e
      · exact hbD e
    have hnp : ¬ s.isOrphan b.id = true := by
      rw [isOrphan_iff]
      intro hm
      obtain ⟨o, ho, hid⟩ := List.mem_map.mp hm
      exact hbD (List.mem_map.mpr ⟨o, h.poolSub o ho, hid⟩)
    have hBo : ∀ o ∈ s.orphans, B o := fun o ho => (hall o (List.mem_append_left _ (h.poolSub o ho))).1
    have hfuel : s.orphans.length ≤ s.defs.length := by
      have h1 : (s.orphans.map (·.id)).Subperm (D.map (·.id)) := by
        apply List.subperm_of_subset h.inv.pool.nodup
        intro i hi
        obtain ⟨o, ho, hid⟩ := List.mem_map.mp hi
        exact List.mem_map.mpr ⟨o, h.poolSub o ho, hid⟩
      have h2 := h1.length_le
      simp only [List.length_map, List.length_append] at h2 hlen
      rw [h.defs]
      omega
    have st := deliver_step hA h.inv h.good h.noLeft hBo hcb hBb hfresh hnp hfuel
    have hnext : RunInv U Good s0 (D ++ [b]) (deliver s b) := by
      refine ⟨st.inv, st.good, st.noLeft, by rw [st.defs, h.defs], fun i hi => st.mono i (h.mono i hi), ?_, ?_, ?_⟩
      · intro i hi
        rcases st.newStored i hi with e | e | ⟨o, ho, hid⟩
        · rcases h.storedSub i e with e' | e'
          · exact Or.inl e'
          · right; rw [List.map_append]; exact List.mem_append_left _ e'
        · right; rw [e]; simp
        · right; rw [List.map_append]
          exact List.mem_append_left _ (List.mem_map.mpr ⟨o, h.poolSub o ho, hid⟩)
      · intro o ho
        rcases st.poolSub o ho with e | e
        · exact List.mem_append_left _ (h.poolSub o e)
        · rw [e]; simp
      · intro d hd
        rw [List.mem_append] at hd
        rcases hd with hd | hd
        · rcases h.all d hd with e | e
          · exact Or.inl (st.mono _ e)
          · exact st.poolKept d e
        · simp at hd; subst hd; exact st.delivered
    have := ih (D ++ [b]) (deliver s b) hnext (by simpa using hnd) (by simpa using hall) (by simpa using hlen)
    simpa using this

theorem alist_nil_of_get_none {α : Type} {l : List (Nat × α)} (h : ∀ p, alistGet l p = none) : l = [] := by
  cases l with
  | nil => rfl
  | cons p l =>
    have := h p.1
    rw [alistGet_cons] at this
    simp at this

/-- **delivery-order theorem** (model level) -/
theorem delivery_order {U : Universe} {B : Header → Prop} {Good : State → Prop} (hA : Accepting B Good) {s0 : State}
    (hI0 : Inv U s0) (hG0 : Good s0) (he : s0.orphans = []) {bs : List Header}
    (hv : ∀ b ∈ bs, B b ∧ Valid U b) (hnd : (bs.map (·.id)).Nodup) (hfresh : ∀ b ∈ bs, ¬ stored s0 b.id)
    (hclosed : ∀ b ∈ bs, stored s0 b.parent ∨ b.parent ∈ bs.map (·.id)) (hdefs : bs.length ≤ s0.defs.length)
    {σ : List Header} (hσ : σ.Perm bs) :
    (∀ b ∈ bs, stored (σ.foldl deliver s0) b.id) ∧ (σ.foldl deliver s0).orphans = [] ∧
    (σ.foldl deliver s0).prevOrphans = [] ∧
    (∀ i, stored (σ.foldl deliver s0) i ↔ stored s0 i ∨ i ∈ bs.map (·.id)) ∧
    Inv U (σ.foldl deliver s0) ∧ Good (σ.foldl deliver s0) := by
  have h0 : RunInv U Good s0 [] s0 := by
    refine ⟨hI0, hG0, ?_, rfl, fun _ h => h, fun _ h => Or.inl h, ?_, ?_⟩
    · intro o ho; rw [he] at ho; simp at ho
    · intro o ho; rw [he] at ho; simp at ho
    · intro d hd; simp at hd
  have hr := run_deliver hA σ [] s0 h0 (by simpa using (hσ.map (·.id)).nodup_iff.mpr hnd)
    (by
      intro b hb
      simp only [List.nil_append] at hb
      have hb' := hσ.mem_iff.mp hb
      exact ⟨(hv b hb').1, (hv b hb').2.coh, hfresh b hb'⟩)
    (by simpa [hσ.length_eq] using hdefs)
  simp only [List.nil_append] at hr
  set s' := σ.foldl deliver s0
  -- the pool is empty: a member of minimal height would have a stored parent
  have hpool : ∀ n, ∀ o ∈ s'.orphans, o.height = n → False := by
    intro n
    induction n using Nat.strongRecOn with
    | _ n ihn =>
      intro o ho hh
      have hob : o ∈ bs := hσ.mem_iff.mp (hr.poolSub o ho)
      rcases hclosed o hob with e | e
      · exact hr.noLeft o ho (hr.mono _ e)
      · obtain ⟨c, hc, hid⟩ := List.mem_map.mp e
        rcases hr.all c (hσ.mem_iff.mpr hc) with e1 | e1
        · exact hr.noLeft o ho (by rw [← hid]; exact e1)
        · have hlt : c.height < n := by
            have h1 := (hv o hob).2.height
            have h2 := (hv c hc).2.coh.2
            rw [← hid, ← h2] at h1
            omega
          exact ihn c.height hlt c e1 rfl
  have hemp : s'.orphans = [] := by
    cases e : s'.orphans with
    | nil => rfl
    | cons o os => exact (hpool o.height o (by rw [e]; simp) rfl).elim
  have hprev : s'.prevOrphans = [] := by
    apply alist_nil_of_get_none
    intro p
    rw [hr.inv.pool.get, hemp]
    rfl
  have hall : ∀ b ∈ bs, stored s' b.id := by
    intro b hb
    rcases hr.all b (hσ.mem_iff.mpr hb) with e | e
    · exact e
    · rw [hemp] at e; simp at e
  refine ⟨hall, hemp, hprev, ?_, hr.inv, hr.good⟩
  intro i
  constructor
  · intro h
    rcases hr.storedSub i h with e | e
    · exact Or.inl e
    · exact Or.inr ((hσ.map (·.id)).mem_iff.mp e)
  · rintro (e | e)
    · exact hr.mono i e
    · obtain ⟨b, hb, hid⟩ := List.mem_map.mp e
      rw [← hid]; exact hall b hb

/-- all ancestors of `b` inside the delivered set `bs` were delivered, down to a block of the store -/
inductive Rooted (s0 : State) (bs : List Header) : Header → Prop
  | base {b : Header} : b ∈ bs → stored s0 b.parent → Rooted s0 bs b
  | step {b c : Header} : b ∈ bs → c ∈ bs → c.id = b.parent → Rooted s0 bs c → Rooted s0 bs b

/-- **delivery of an arbitrary (not parent-closed) block set**: whatever the order, the connected
    blocks are exactly those all of whose ancestors were delivered; the others wait in the pool,
    and no orphan whose parent is stored is left -/
theorem delivery_general {U : Universe} {B : Header → Prop} {Good : State → Prop} (hA : Accepting B Good) {s0 : State}
    (hI0 : Inv U s0) (hG0 : Good s0) (he : s0.orphans = []) {bs : List Header}
    (hv : ∀ b ∈ bs, B b ∧ Valid U b) (hnd : (bs.map (·.id)).Nodup) (hfresh : ∀ b ∈ bs, ¬ stored s0 b.id)
    (hdefs : bs.length ≤ s0.defs.length) {σ : List Header} (hσ : σ.Perm bs) :
    (∀ b ∈ bs, stored (σ.foldl deliver s0) b.id ↔ Rooted s0 bs b) ∧
    (∀ b ∈ bs, b ∈ (σ.foldl deliver s0).orphans ↔ ¬ Rooted s0 bs b) ∧
    (∀ o ∈ (σ.foldl deliver s0).orphans, o ∈ bs) ∧
    NoLeft (σ.foldl deliver s0) ∧
    (∀ i, stored s0 i → stored (σ.foldl deliver s0) i) ∧
    Inv U (σ.foldl deliver s0) ∧ Good (σ.foldl deliver s0) := by
  have h0 : RunInv U Good s0 [] s0 := by
    refine ⟨hI0, hG0, ?_, rfl, fun _ h => h, fun _ h => Or.inl h, ?_, ?_⟩
    · intro o ho; rw [he] at ho; simp at ho
    · intro o ho; rw [he] at ho; simp at ho
    · intro d hd; simp at hd
  have hr := run_deliver hA σ [] s0 h0 (by simpa using (hσ.map (·.id)).nodup_iff.mpr hnd)
    (by
      intro b hb
      simp only [List.nil_append] at hb
      have hb' := hσ.mem_iff.mp hb
      exact ⟨(hv b hb').1, (hv b hb').2.coh, hfresh b hb'⟩)
    (by simpa [hσ.length_eq] using hdefs)
  simp only [List.nil_append] at hr
  set s' := σ.foldl deliver s0
  have hall : ∀ b ∈ bs, stored s' b.id ∨ b ∈ s'.orphans := fun b hb => hr.all b (hσ.mem_iff.mpr hb)
  have hexcl : ∀ b, b ∈ s'.orphans → ¬ stored s' b.id := fun b hb => hr.inv.disjoint b hb
  -- rooted blocks are stored
  have hroot : ∀ b, Rooted s0 bs b → stored s' b.id := by
    intro b hb
    induction hb with
    | @base b hm hp =>
      rcases hall b hm with e | e
      · exact e
      · exact absurd (hr.mono _ hp) (hr.noLeft b e)
    | @step b c hm _ hid _ ih =>
      rcases hall b hm with e | e
      · exact e
      · exact absurd (hid ▸ ih) (hr.noLeft b e)
  -- stored blocks of the set are rooted (induction on the height)
  have hstored : ∀ n, ∀ b ∈ bs, b.height = n → stored s' b.id → Rooted s0 bs b := by
    intro n
    induction n using Nat.strongRecOn with
    | _ n ihn =>
      intro b hb hh hs
      obtain ⟨hd, _, hdm, hdid⟩ := header_of_stored hs
      have hcoh := hr.inv.cohH hd hdm
      have hvb := (hv b hb).2
      have hpe : hd.parent = b.parent := by rw [hcoh.1, hvb.coh.1, hdid]
      have hhe : hd.height = b.height := by rw [hcoh.2, hvb.coh.2, hdid]
      rcases hr.inv.closed hd hdm with e0 | e0
      · have := hvb.height
        omega
      · rw [hpe] at e0
        rcases hr.storedSub _ e0 with e1 | e1
        · exact Rooted.base hb e1
        · obtain ⟨c, hc, hcid⟩ := List.mem_map.mp e1
          have hcb : c ∈ bs := hσ.mem_iff.mp hc
          have hlt : c.height < n := by
            have h1 := hvb.height
            have h2 := (hv c hcb).2.coh.2
            rw [← hcid, ← h2] at h1
            omega
          exact Rooted.step hb hcb hcid (ihn c.height hlt c hcb rfl (hcid ▸ e0))
  refine ⟨fun b hb => ⟨hstored b.height b hb rfl, hroot b⟩, ?_, fun o ho => hσ.mem_iff.mp (hr.poolSub o ho),
    hr.noLeft, hr.mono, hr.inv, hr.good⟩
  intro b hb
  constructor
  · intro hm hro
    exact hexcl b hm (hroot b hro)
  · intro hn
    rcases hall b hb with e | e
    · exact absurd (hstored b.height b hb rfl e) hn
    · exact e

end BytomModel.Lemmas.NodeDelivery
