/-
C13, completeness side: a block that passes `validBlock` with its parent stored is stored
unless Casper (`ApplyBlock`) refuses it, and a valid extension of the best block becomes the
best block when the fork choice selects it and its transactions apply.
-/
import BytomModel.Lemmas.C13Inv

namespace BytomModel.Lemmas.C13
open BytomModel.Node BytomModel.Ledger BytomModel.NodeLedger

/-! ### `settle`, by the ledger's verdict -/

theorem settle_of_accepted (pre : NodeLedger.State) (post : Node.State) (r : Res) (nb ob : Header)
    (att det : List Header) (u : View) (c : CMap)
    (h1 : post.best ≠ pre.node.best) (h2 : post.header post.best = some nb)
    (h3 : post.header pre.node.best = some ob)
    (h4 : post.calcReorg (2 * post.fuel) nb ob [] [] = some (att, det))
    (h5 : pre.ledgerReorg att det = some (u, c)) :
    pre.settle post r = ({ pre with node := post, utxo := u, contracts := c }, r) := by
  have e1 : (post.best == pre.node.best) = false := beq_false_of_ne h1
  unfold State.settle
  simp only [e1, h2, h3, h4, h5, Bool.false_eq_true, if_false]

theorem settle_of_refused (pre : NodeLedger.State) (post : Node.State) (r : Res) (nb ob : Header)
    (att det : List Header)
    (h1 : post.best ≠ pre.node.best) (h2 : post.header post.best = some nb)
    (h3 : post.header pre.node.best = some ob)
    (h4 : post.calcReorg (2 * post.fuel) nb ob [] [] = some (att, det))
    (h5 : pre.ledgerReorg att det = none) :
    pre.settle post r =
      ({ pre with node := { post with best := pre.node.best, index := pre.node.index, statusFin := pre.node.statusFin } }, .err) := by
  have e1 : (post.best == pre.node.best) = false := beq_false_of_ne h1
  unfold State.settle
  simp only [e1, h2, h3, h4, h5, Bool.false_eq_true, if_false]

/-- completeness, storing: a block that passes `validBlock` with its parent stored is stored by
    `processBlock` unless Casper refuses it (`saveBlock` fails) -/
theorem valid_block_stored (s : NodeLedger.State) (b : Header)
    (hp : (s.node.header b.parent).isSome = true) (hv : s.validBlock b = true)
    (hk : alreadyProcessed s.node b = false) (hok : (s.node.saveBlock b).2 = true) :
    ((s.processBlock b).1.node.header b.id).isSome = true := by
  have hvb : s.saveBlockVn s.node b = s.node.saveBlock b := by
    rcases saveBlockVn_cases s s.node b with ⟨hf, _⟩ | ⟨_, e⟩
    · rw [validIn_self, hv] at hf; cases hf
    · exact e
  rw [processBlock_eq_settle]
  obtain ⟨_, hh, _⟩ := settle_frame s (s.chainProcessBlock b).1 (s.chainProcessBlock b).2
  simp only [State.header, hh]
  rcases chainProcessBlock_cases s b with ⟨h1, _⟩ | ⟨_, hn, _⟩ | ⟨_, _, hf, _⟩ | ⟨_, _, _, e⟩
  · rw [hk] at h1; cases h1
  · rw [Option.isNone_iff_eq_none] at hn; rw [hn] at hp; cases hp
  · rw [hvb, hok] at hf; cases hf
  · rw [e]
    dsimp only
    rw [tryReorganize_headers, hvb]
    have := (saveSubBlockVn_prov s (fun _ => True) (s.node.saveBlock b).1.fuel (s.node.saveBlock b).1 b.id
      (fun _ _ => trivial)).1.1 b.id (by rw [saveBlock_stores s.node b hok]; rfl)
    exact this

/-! ### a valid extension of the best block -/

theorem calcReorg_extension (s : Node.State) (nb ob : Header) (k : Nat)
    (hid : nb.id ≠ ob.id) (hh : nb.height = ob.height + 1) (hpar : s.header nb.parent = some ob) :
    s.calcReorg (k + 2) nb ob [] [] = some ([nb], []) := by
  have e1 : (nb.id == ob.id) = false := beq_false_of_ne hid
  have l1 : ob.height ≤ nb.height := by omega
  have l2 : ¬ nb.height ≤ ob.height := by omega
  unfold State.calcReorg
  simp only [e1, l1, l2, hpar, Bool.false_eq_true, if_false, if_true]
  unfold State.calcReorg
  simp

theorem tryReorganize_of_calc (s : Node.State) (bh : Nat) (nb ob : Header) (att det : List Header)
    (h1 : s.best ≠ bh) (h2 : s.header bh = some nb) (h3 : s.header s.best = some ob)
    (h4 : s.calcReorg (2 * s.fuel) nb ob [] [] = some (att, det)) :
    s.tryReorganize bh =
      ({ s with index := att.foldl (fun ix h => alistSet ix h.height h.id) s.index, best := bh,
                statusFin := s.tree.ckpt.hash }, true) := by
  have e1 : (s.best == bh) = false := beq_false_of_ne h1
  unfold State.tryReorganize
  simp only [e1, h2, h3, h4, Bool.false_eq_true, if_false]

/-- `validBlock` of a block with recorded meta data and stored parent checks the height -/
theorem validBlock_height (s : NodeLedger.State) (b p : Header) (hm : (s.metaOf b.id).isSome = true)
    (hp : s.node.header b.parent = some p) (hv : s.validBlock b = true) : b.height = p.height + 1 := by
  unfold NodeLedger.State.validBlock at hv
  rw [hp] at hv
  cases hmm : s.metaOf b.id with
  | none => rw [hmm] at hm; cases hm
  | some m =>
    rw [hmm] at hv
    simp only at hv
    by_cases hh : b.height = p.height + 1
    · exact hh
    · have : (b.height != p.height + 1) = true := by simpa using hh
      simp [this] at hv

/-- completeness, connecting: a fresh block that extends the best block, passes `validBlock`,
    is accepted by Casper, is selected by the fork choice and whose transactions apply to the
    stored utxo set becomes the best block; the answer is `ok` and the utxo set is the block's
    `applyBlockTxs` result saved over the old one -/
theorem valid_extension_accepted (s : NodeLedger.State) (b : Header) (v' : View)
    (hno : NoOrphans s) (hfresh : s.node.header b.id = none) (hpar : b.parent = s.node.best)
    (hbest : (s.node.header s.node.best).isSome = true) (hm : (s.metaOf b.id).isSome = true)
    (hv : s.validBlock b = true) (hok : (s.node.saveBlock b).2 = true)
    (hfc : (s.node.saveBlock b).1.bestChain = b.id)
    (htx : applyBlockTxs s.params b.height true (s.txsOf b.id) (loadSpent s.utxo (s.txsOf b.id) []) = some v') :
    (s.processBlock b).2 = .ok ∧ (s.processBlock b).1.node.best = b.id ∧
    (s.processBlock b).1.utxo = saveView s.utxo v' ∧
    (s.processBlock b).1.node.index = alistSet s.node.index b.height b.id := by
  -- the parent is the stored best block
  cases hob : s.node.header s.node.best with
  | none => rw [hob] at hbest; cases hbest
  | some ob =>
  have hne : b.id ≠ s.node.best := by
    intro e; rw [← e, hfresh] at hob; cases hob
  have hheight : b.height = ob.height + 1 := validBlock_height s b ob hm (by rw [hpar]; exact hob) hv
  have hk : alreadyProcessed s.node b = false := by
    unfold alreadyProcessed State.isOrphan
    rw [hfresh, hno.1]; rfl
  have hp : (s.node.header b.parent).isSome = true := by rw [hpar, hob]; rfl
  -- the chain step
  let s1 := (s.node.saveBlock b).1
  have hcs : ChainSame s.node s1 := saveBlock_chainSame s.node b
  have hso := saveBlock_orphans_empty s.node b hno.1 hno.2
  have hnb : s1.header b.id = some (savedHeader s.node b) := saveBlock_stores s.node b hok
  have hhd := (saveBlock_headers_of_ok s.node b hok).1
  have hob1 : s1.header s.node.best = some ob := by
    show lookupHeader (s.node.saveBlock b).1.headers s.node.best = some ob
    rw [hhd, show (fun (h : Header) => h.id != b.id) = (fun h => h.id != (savedHeader s.node b).id) from rfl,
      header_cons_filter]
    have : ¬ (savedHeader s.node b).id = s.node.best := hne
    simp only [this, if_false]
    exact hob
  have hb1 : s1.best = s.node.best := hcs.best
  have hcalc : s1.calcReorg (2 * s1.fuel) (savedHeader s.node b) ob [] [] = some ([savedHeader s.node b], []) := by
    have : 2 * s1.fuel = (2 * s1.fuel - 2) + 2 := by unfold State.fuel; omega
    rw [this]
    apply calcReorg_extension
    · show b.id ≠ ob.id
      rw [(lookupHeader_some hob).2]; exact hne
    · exact hheight
    · show s1.header b.parent = some ob
      rw [hpar]; exact hob1
  have htry := tryReorganize_of_calc s1 b.id (savedHeader s.node b) ob [savedHeader s.node b] []
    (by rw [hb1]; exact fun e => hne e.symm) hnb (by rw [hb1]; exact hob1) hcalc
  have hvb : s.saveBlockVn s.node b = s.node.saveBlock b := by
    rcases saveBlockVn_cases s s.node b with ⟨hf, _⟩ | ⟨_, e⟩
    · rw [validIn_self, hv] at hf; cases hf
    · exact e
  have hnp : s.chainProcessBlock b =
      (({ s1 with index := alistSet s1.index b.height b.id, best := b.id, statusFin := s1.tree.ckpt.hash } : Node.State), .ok) := by
    rcases chainProcessBlock_cases s b with ⟨h1, _⟩ | ⟨_, hn, _⟩ | ⟨_, _, hf, _⟩ | ⟨_, _, _, e⟩
    · rw [hk] at h1; cases h1
    · rw [Option.isNone_iff_eq_none] at hn; rw [hn] at hp; cases hp
    · rw [hvb, hok] at hf; cases hf
    · rw [e, hvb, saveSubBlockVn_no_waiting _ _ _ _ hso.2, hfc, htry]
      rfl
  have hledger : s.ledgerReorg [savedHeader s.node b] [] =
      some (saveView s.utxo v', saveContracts s.contracts (contractAttach (s.txsOf b.id) []) []) := by
    rw [ledgerReorg_single]
    show (match applyBlockTxs s.params b.height true (s.txsOf b.id) (loadSpent s.utxo (s.txsOf b.id) []) with
      | none => none
      | some v' => some (saveView s.utxo v', saveContracts s.contracts (contractAttach (s.txsOf b.id) []) [])) = _
    rw [htx]
  rw [processBlock_eq_settle, hnp]
  dsimp only
  rw [settle_of_accepted s _ .ok (savedHeader s.node b) ob [savedHeader s.node b] [] _ _
    (by exact hne) (by exact hnb) (by exact hob1)
    (Eq.trans (calcReorg_congr s1 { s1 with index := alistSet s1.index b.height b.id, best := b.id, statusFin := s1.tree.ckpt.hash } rfl _ _ _ _ _) hcalc) hledger]
  refine ⟨rfl, rfl, rfl, ?_⟩
  show alistSet s1.index b.height b.id = _
  rw [hcs.index]

/-- the other half (this is how the state of F32 arises): the same block, when its transactions do
    NOT apply to the stored utxo set (it spends a missing / spent / immature / locked output), is
    answered `err`, the best block, the index and the utxo set do not move — but the block is
    stored, and the checkpoint tree has taken it in (fork choice selects it) -/
theorem context_invalid_extension_refused (s : NodeLedger.State) (b : Header)
    (hno : NoOrphans s) (hfresh : s.node.header b.id = none) (hpar : b.parent = s.node.best)
    (hbest : (s.node.header s.node.best).isSome = true) (hm : (s.metaOf b.id).isSome = true)
    (hv : s.validBlock b = true) (hok : (s.node.saveBlock b).2 = true)
    (hfc : (s.node.saveBlock b).1.bestChain = b.id)
    (htx : applyBlockTxs s.params b.height true (s.txsOf b.id) (loadSpent s.utxo (s.txsOf b.id) []) = none) :
    (s.processBlock b).2 = .err ∧ (s.processBlock b).1.node.best = s.node.best ∧
    (s.processBlock b).1.utxo = s.utxo ∧ (s.processBlock b).1.node.index = s.node.index ∧
    ((s.processBlock b).1.node.header b.id).isSome = true ∧
    (s.processBlock b).1.node.bestChain = b.id := by
  -- the parent is the stored best block
  cases hob : s.node.header s.node.best with
  | none => rw [hob] at hbest; cases hbest
  | some ob =>
  have hne : b.id ≠ s.node.best := by
    intro e; rw [← e, hfresh] at hob; cases hob
  have hheight : b.height = ob.height + 1 := validBlock_height s b ob hm (by rw [hpar]; exact hob) hv
  have hk : alreadyProcessed s.node b = false := by
    unfold alreadyProcessed State.isOrphan
    rw [hfresh, hno.1]; rfl
  have hp : (s.node.header b.parent).isSome = true := by rw [hpar, hob]; rfl
  -- the chain step
  let s1 := (s.node.saveBlock b).1
  have hcs : ChainSame s.node s1 := saveBlock_chainSame s.node b
  have hso := saveBlock_orphans_empty s.node b hno.1 hno.2
  have hnb : s1.header b.id = some (savedHeader s.node b) := saveBlock_stores s.node b hok
  have hhd := (saveBlock_headers_of_ok s.node b hok).1
  have hob1 : s1.header s.node.best = some ob := by
    show lookupHeader (s.node.saveBlock b).1.headers s.node.best = some ob
    rw [hhd, show (fun (h : Header) => h.id != b.id) = (fun h => h.id != (savedHeader s.node b).id) from rfl,
      header_cons_filter]
    have : ¬ (savedHeader s.node b).id = s.node.best := hne
    simp only [this, if_false]
    exact hob
  have hb1 : s1.best = s.node.best := hcs.best
  have hcalc : s1.calcReorg (2 * s1.fuel) (savedHeader s.node b) ob [] [] = some ([savedHeader s.node b], []) := by
    have : 2 * s1.fuel = (2 * s1.fuel - 2) + 2 := by unfold State.fuel; omega
    rw [this]
    apply calcReorg_extension
    · show b.id ≠ ob.id
      rw [(lookupHeader_some hob).2]; exact hne
    · exact hheight
    · show s1.header b.parent = some ob
      rw [hpar]; exact hob1
  have htry := tryReorganize_of_calc s1 b.id (savedHeader s.node b) ob [savedHeader s.node b] []
    (by rw [hb1]; exact fun e => hne e.symm) hnb (by rw [hb1]; exact hob1) hcalc
  have hvb : s.saveBlockVn s.node b = s.node.saveBlock b := by
    rcases saveBlockVn_cases s s.node b with ⟨hf, _⟩ | ⟨_, e⟩
    · rw [validIn_self, hv] at hf; cases hf
    · exact e
  have hnp : s.chainProcessBlock b =
      (({ s1 with index := alistSet s1.index b.height b.id, best := b.id, statusFin := s1.tree.ckpt.hash } : Node.State), .ok) := by
    rcases chainProcessBlock_cases s b with ⟨h1, _⟩ | ⟨_, hn, _⟩ | ⟨_, _, hf, _⟩ | ⟨_, _, _, e⟩
    · rw [hk] at h1; cases h1
    · rw [Option.isNone_iff_eq_none] at hn; rw [hn] at hp; cases hp
    · rw [hvb, hok] at hf; cases hf
    · rw [e, hvb, saveSubBlockVn_no_waiting _ _ _ _ hso.2, hfc, htry]
      rfl
  have hledger : s.ledgerReorg [savedHeader s.node b] [] = none := by
    rw [ledgerReorg_single]
    show (match applyBlockTxs s.params b.height true (s.txsOf b.id) (loadSpent s.utxo (s.txsOf b.id) []) with
      | none => none
      | some v' => some (saveView s.utxo v', saveContracts s.contracts (contractAttach (s.txsOf b.id) []) [])) = _
    rw [htx]
  rw [processBlock_eq_settle, hnp]
  dsimp only
  rw [settle_of_refused s _ .ok (savedHeader s.node b) ob [savedHeader s.node b] []
    (by exact hne) (by exact hnb) (by exact hob1)
    (Eq.trans (calcReorg_congr s1 { s1 with index := alistSet s1.index b.height b.id, best := b.id, statusFin := s1.tree.ckpt.hash } rfl _ _ _ _ _) hcalc) hledger]
  refine ⟨rfl, rfl, rfl, rfl, ?_, ?_⟩
  · show (s1.header b.id).isSome = true
    rw [hnb]; rfl
  · exact hfc

end BytomModel.Lemmas.C13
