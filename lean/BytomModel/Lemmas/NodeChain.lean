/-
Lemmas about the chain layer of `Model/Node`: stored headers as a parent-linked forest,
`calcReorg` (= `calcReorganizeChain`), the height index written by `tryReorganize`
(= `reorganizeChain` + `setState` + `SaveChainStatus`), and the invariant `WF` that every
event of the node preserves.

Vocabulary
* `Skel`            — what the chain layer reads of a stored header: id ↦ (parent id, height);
                      `s.skel` is the skeleton of a state's header store.
* `Anc L a b`       — `a` is an ancestor of `b` (reflexive): reachable over parent links between
                      stored headers whose heights go down by one.
* `StoreWF L gid`   — genesis is stored at height 0; every other stored header has its parent
                      stored with height one less.
* `Univ`            — the blocks that exist (id, parent, height): ids are hashes, so an id
                      determines parent and height, and a valid block's height is its parent's + 1.
* `WF U s`          — the C11 invariant of a node state.
-/
import BytomModel.Model.Node
import Mathlib.Tactic.Linarith

namespace BytomModel.Lemmas.NodeChain
open BytomModel.Node

/-! ### association lists (`index`) -/

theorem alistGet_nil {α : Type} (k : Nat) : alistGet ([] : List (Nat × α)) k = none := rfl

theorem alistGet_cons {α : Type} (a : Nat) (b : α) (l : List (Nat × α)) (k : Nat) :
    alistGet ((a, b) :: l) k = if a = k then some b else alistGet l k := by
  unfold alistGet
  by_cases h : a = k
  · simp [List.find?_cons, h]
  · simp [List.find?_cons, h]

theorem alistGet_map_set {α : Type} (l : List (Nat × α)) (k k' : Nat) (v : α) :
    alistGet (l.map (fun p => if p.1 == k then (k, v) else p)) k' =
      if k' = k then (if l.any (fun p => p.1 == k) then some v else none) else alistGet l k' := by
  induction l with
  | nil => simp [alistGet_nil]
  | cons p l ih =>
    obtain ⟨a, b⟩ := p
    rw [List.map_cons, List.any_cons]
    by_cases hp : a = k
    · subst hp
      simp only [beq_self_eq_true, ↓reduceIte, Bool.true_or, alistGet_cons]
      by_cases hk : k' = a
      · subst hk; simp
      · have : ¬ a = k' := fun h => hk h.symm
        simp only [this, ↓reduceIte, hk]
        rw [ih]; simp [hk]
    · have hb : (a == k) = false := by simpa using hp
      simp only [hb, Bool.false_eq_true, ↓reduceIte, Bool.false_or, alistGet_cons]
      rw [ih]
      by_cases hk : k' = k
      · subst hk; simp [hp]
      · simp [hk]

theorem alistGet_none_of_not_any {α : Type} (l : List (Nat × α)) (k : Nat)
    (h : l.any (fun p => p.1 == k) = false) : alistGet l k = none := by
  induction l with
  | nil => rfl
  | cons p l ih =>
    obtain ⟨a, b⟩ := p
    rw [List.any_cons, Bool.or_eq_false_iff] at h
    have : ¬ a = k := by simpa using h.1
    rw [alistGet_cons, if_neg this, ih h.2]

theorem alistGet_append_single {α : Type} (l : List (Nat × α)) (k k' : Nat) (v : α) :
    alistGet (l ++ [(k, v)]) k' = match alistGet l k' with
      | some x => some x
      | none => if k' = k then some v else none := by
  induction l with
  | nil =>
    simp only [List.nil_append, alistGet_cons, alistGet_nil]
    by_cases h : k = k'
    · simp [h]
    · have : ¬ k' = k := fun e => h e.symm
      simp [h, this]
  | cons p l ih =>
    obtain ⟨a, b⟩ := p
    rw [List.cons_append, alistGet_cons, alistGet_cons]
    by_cases h : a = k'
    · simp [h]
    · simp only [h, ↓reduceIte]; exact ih

/-- reading the index after one write -/
theorem alistGet_alistSet {α : Type} (l : List (Nat × α)) (k k' : Nat) (v : α) :
    alistGet (alistSet l k v) k' = if k' = k then some v else alistGet l k' := by
  unfold alistSet
  by_cases hany : l.any (fun p => p.1 == k) = true
  · rw [if_pos hany, alistGet_map_set, hany]; simp
  · have hany' : l.any (fun p => p.1 == k) = false := Bool.eq_false_iff.mpr hany
    rw [if_neg hany, alistGet_append_single]
    by_cases hk : k' = k
    · subst hk; rw [alistGet_none_of_not_any l k' hany']
    · simp only [hk, ↓reduceIte]
      cases alistGet l k' <;> rfl

/-- reading the index after the writes of `SaveChainStatus` for the attach list -/
theorem alistGet_foldl_set (att : List Header) (ix : List (Nat × Nat)) (k : Nat) :
    alistGet (att.foldl (fun ix h => alistSet ix h.height h.id) ix) k =
      match att.reverse.find? (fun h => h.height == k) with
      | some h => some h.id
      | none => alistGet ix k := by
  induction att generalizing ix with
  | nil => rfl
  | cons a t ih =>
    rw [List.foldl_cons, ih, List.reverse_cons, List.find?_append]
    cases h : List.find? (fun h => h.height == k) t.reverse with
    | some x => simp
    | none =>
      rw [alistGet_alistSet]
      by_cases hk : a.height = k
      · simp [List.find?_cons, hk]
      · have : ¬ k = a.height := fun h => hk h.symm
        simp [List.find?_cons, hk, this]

/-! ### the header store as id ↦ (parent, height) -/

abbrev Skel := Nat → Option (Nat × Nat)

def skelOf (hs : List Header) : Skel := fun id => (lookupHeader hs id).map (fun h => (h.parent, h.height))

theorem lookup_id {hs : List Header} {id : Nat} {h : Header} (hl : lookupHeader hs id = some h) : h.id = id := by
  unfold lookupHeader at hl
  have := List.find?_some hl
  simpa using this

theorem lookup_mem {hs : List Header} {id : Nat} {h : Header} (hl : lookupHeader hs id = some h) : h ∈ hs := by
  unfold lookupHeader at hl
  exact List.mem_of_find?_eq_some hl

theorem skelOf_of_lookup {hs : List Header} {id : Nat} {h : Header} (hl : lookupHeader hs id = some h) :
    skelOf hs id = some (h.parent, h.height) := by
  simp [skelOf, hl]

theorem skelOf_some {hs : List Header} {id p ht : Nat} (h : skelOf hs id = some (p, ht)) :
    ∃ hd, lookupHeader hs id = some hd ∧ hd.parent = p ∧ hd.height = ht ∧ hd.id = id := by
  unfold skelOf at h
  cases hl : lookupHeader hs id with
  | none => simp [hl] at h
  | some hd =>
    simp only [hl, Option.map_some, Option.some.injEq, Prod.mk.injEq] at h
    exact ⟨hd, rfl, h.1, h.2, lookup_id hl⟩

theorem lookup_cons (h : Header) (hs : List Header) (id : Nat) :
    lookupHeader (h :: hs) id = if h.id = id then some h else lookupHeader hs id := by
  unfold lookupHeader
  by_cases e : h.id = id
  · simp [List.find?_cons, e]
  · simp [List.find?_cons, e]

theorem lookup_filter_ne (hs : List Header) (k id : Nat) (hne : k ≠ id) :
    lookupHeader (hs.filter (fun x => x.id != k)) id = lookupHeader hs id := by
  induction hs with
  | nil => rfl
  | cons x xs ih =>
    by_cases hx : x.id = k
    · have h1 : (x.id != k) = false := by simp [hx]
      have h2 : ¬ x.id = id := by rw [hx]; exact hne
      rw [List.filter_cons, h1, lookup_cons, if_neg h2]
      simpa using ih
    · have h1 : (x.id != k) = true := by simp [hx]
      rw [List.filter_cons, h1]
      simp only [↓reduceIte, lookup_cons, ih]

/-- `SaveBlock` / `SaveBlockHeader`: the header with this id is replaced, every other kept -/
theorem lookup_replace (hs : List Header) (h : Header) (id : Nat) :
    lookupHeader (h :: hs.filter (fun x => x.id != h.id)) id =
      if h.id = id then some h else lookupHeader hs id := by
  rw [lookup_cons]
  by_cases hid : h.id = id
  · simp [hid]
  · simp only [hid, ↓reduceIte]; exact lookup_filter_ne hs h.id id hid

theorem skelOf_replace (hs : List Header) (h : Header) (id : Nat) :
    skelOf (h :: hs.filter (fun x => x.id != h.id)) id =
      if h.id = id then some (h.parent, h.height) else skelOf hs id := by
  unfold skelOf
  rw [lookup_replace]
  split <;> rfl

/-! ### ancestors -/

inductive Anc (L : Skel) : Nat → Nat → Prop
  | refl {a p h : Nat} : L a = some (p, h) → Anc L a a
  | step {a b p h pp ph : Nat} : L b = some (p, h) → L p = some (pp, ph) → h = ph + 1 → Anc L a p → Anc L a b

structure StoreWF (L : Skel) (gid : Nat) : Prop where
  genesis : ∃ gp, L gid = some (gp, 0)
  parent : ∀ id p h, L id = some (p, h) → id ≠ gid → ∃ pp ph, L p = some (pp, ph) ∧ h = ph + 1

theorem Anc.stored_left {L : Skel} {a b : Nat} (h : Anc L a b) : ∃ p ht, L a = some (p, ht) := by
  induction h with
  | refl h => exact ⟨_, _, h⟩
  | step _ _ _ _ ih => exact ih

theorem Anc.stored_right {L : Skel} {a b : Nat} (h : Anc L a b) : ∃ p ht, L b = some (p, ht) := by
  cases h with
  | refl h => exact ⟨_, _, h⟩
  | step h _ _ _ => exact ⟨_, _, h⟩

theorem Anc.trans {L : Skel} {a b c : Nat} (h1 : Anc L a b) (h2 : Anc L b c) : Anc L a c := by
  induction h2 with
  | refl _ => exact h1
  | step hb hp hh _ ih => exact Anc.step hb hp hh ih

/-- heights: an ancestor is not higher, and only the block itself has its height -/
theorem Anc.height {L : Skel} {a b : Nat} (h : Anc L a b) {pa ha pb hb : Nat}
    (hA : L a = some (pa, ha)) (hB : L b = some (pb, hb)) : ha ≤ hb ∧ (ha = hb → a = b) := by
  induction h generalizing pb hb with
  | refl h' => rw [hA] at hB; injection hB with hB; injection hB with _ h2; omega
  | step hb' hp hh _ ih =>
    rw [hb'] at hB; injection hB with hB; injection hB with _ h2
    have := ih hp
    omega

theorem Anc.inv {L : Skel} {a b : Nat} (h : Anc L a b) :
    a = b ∨ ∃ p ht pp ph, L b = some (p, ht) ∧ L p = some (pp, ph) ∧ ht = ph + 1 ∧ Anc L a p := by
  cases h with
  | refl _ => exact Or.inl rfl
  | step hb hp hh ha => exact Or.inr ⟨_, _, _, _, hb, hp, hh, ha⟩

/-- a block has at most one ancestor at a given height -/
theorem Anc.unique {L : Skel} {a a' b : Nat} (h1 : Anc L a b) (h2 : Anc L a' b) {pa pa' ht : Nat}
    (hA : L a = some (pa, ht)) (hA' : L a' = some (pa', ht)) : a = a' := by
  induction h1 with
  | refl hb =>
    have := (h2.height hA' hA).2 rfl
    exact this.symm
  | step hb hp hh hap ih =>
    rcases h2.inv with rfl | ⟨p', ht', pp', ph', hb2, hp2, hh2, hap2⟩
    · -- a' = b, but a is an ancestor of b's parent
      rw [hb] at hA'; injection hA' with hA'; injection hA' with _ h2'
      have := (hap.height hA hp).1
      omega
    · rw [hb] at hb2; injection hb2 with hb2; injection hb2 with e1 _
      subst e1
      exact ih hap2

theorem StoreWF.height_zero {L : Skel} {gid : Nat} (w : StoreWF L gid) {id p : Nat} (h : L id = some (p, 0)) : id = gid := by
  by_contra hne
  obtain ⟨_, _, _, hh⟩ := w.parent id p 0 h hne
  omega

/-- every height up to a stored block's own holds one of its ancestors -/
theorem StoreWF.anc_at {L : Skel} {gid : Nat} (w : StoreWF L gid) (ht : Nat) :
    ∀ (b p : Nat), L b = some (p, ht) → ∀ k, k ≤ ht → ∃ a ap, Anc L a b ∧ L a = some (ap, k) := by
  induction ht with
  | zero =>
    intro b p hb k hk
    have : k = 0 := by omega
    subst this
    exact ⟨b, p, Anc.refl hb, hb⟩
  | succ n ih =>
    intro b p hb k hk
    by_cases hkn : k = n + 1
    · subst hkn; exact ⟨b, p, Anc.refl hb, hb⟩
    · have hne : b ≠ gid := by
        intro e; subst e
        obtain ⟨gp, hg⟩ := w.genesis
        rw [hg] at hb; injection hb with hb; injection hb with _ h2; omega
      obtain ⟨pp, ph, hp, hh⟩ := w.parent b p (n + 1) hb hne
      have : ph = n := by omega
      subst this
      obtain ⟨a, ap, haa, hak⟩ := ih p pp hp k (by omega)
      exact ⟨a, ap, Anc.step hb hp hh haa, hak⟩

theorem StoreWF.anc_genesis {L : Skel} {gid : Nat} (w : StoreWF L gid) {b p ht : Nat} (hb : L b = some (p, ht)) :
    Anc L gid b := by
  obtain ⟨a, ap, haa, hak⟩ := w.anc_at ht b p hb 0 (by omega)
  have := w.height_zero hak
  subst this; exact haa

def Sub (L L' : Skel) : Prop := ∀ id x, L id = some x → L' id = some x

theorem Anc.mono {L L' : Skel} (hs : Sub L L') {a b : Nat} (h : Anc L a b) : Anc L' a b := by
  induction h with
  | refl h => exact Anc.refl (hs _ _ h)
  | step hb hp hh _ ih => exact Anc.step (hs _ _ hb) (hs _ _ hp) hh ih

/-- storing more headers gives an already stored block no new ancestors -/
theorem Anc.restrict {L L' : Skel} {gid : Nat} (hs : Sub L L') (w : StoreWF L gid) {a b : Nat}
    (h : Anc L' a b) {pb hb : Nat} (hB : L b = some (pb, hb)) : Anc L a b := by
  induction h generalizing pb hb with
  | refl _ => exact Anc.refl hB
  | @step b p h pp ph hb' hp hh _ ih =>
    have e := hs _ _ hB
    rw [hb'] at e; injection e with e; injection e with e1 e2
    subst e1; subst e2
    have hne : b ≠ gid := by
      intro e; subst e
      obtain ⟨gp, hg⟩ := w.genesis
      rw [hg] at hB; injection hB with hB; injection hB with _ h2; omega
    obtain ⟨pp', ph', hp', hh'⟩ := w.parent _ _ _ hB hne
    exact Anc.step hB hp' hh' (ih hp')

/-! ### `calcReorg` (= `calcReorganizeChain`) -/

/-- the skeleton of a state's header store -/
def skel (s : State) : Skel := skelOf s.headers

theorem skel_of_header {s : State} {id : Nat} {h : Header} (hl : s.header id = some h) :
    skel s id = some (h.parent, h.height) := skelOf_of_lookup hl

theorem header_id {s : State} {id : Nat} {h : Header} (hl : s.header id = some h) : h.id = id := lookup_id hl

/-- ascending parent-linked chain that starts just above the block `c` of height `hc` -/
def Up : Nat → Nat → List Header → Prop
  | _, _, [] => True
  | c, hc, h :: t => h.parent = c ∧ h.height = hc + 1 ∧ Up h.id h.height t

/-- id of the last block of the chain (`c` itself for the empty chain) -/
def tipId (c : Nat) (l : List Header) : Nat :=
  match l.getLast? with
  | some x => x.id
  | none => c

theorem tipId_nil (c : Nat) : tipId c [] = c := rfl

theorem tipId_cons (c : Nat) (a : Header) (l : List Header) : tipId c (a :: l) = tipId a.id l := by
  cases l with
  | nil => rfl
  | cons b t =>
    cases h : (b :: t).getLast? with
    | none => simp at h
    | some x => simp [tipId, List.getLast?_cons_cons, h]

/-- every header of the list is the stored header of its id -/
def Stored (s : State) (l : List Header) : Prop := ∀ x ∈ l, s.header x.id = some x

theorem stored_eq {s : State} {a d : Header} (ha : s.header a.id = some a) (hd : s.header d.id = some d)
    (e : a.id = d.id) : a = d := by
  rw [e, hd] at ha; injection ha with ha; exact ha.symm

/-- going back one block from a stored non-genesis header -/
theorem step_back {s : State} {gid : Nat} (w : StoreWF (skel s) gid) {x x' : Header}
    (hx : s.header x.id = some x) (hpos : 1 ≤ x.height) (hx' : s.header x.parent = some x') :
    x'.id = x.parent ∧ x.height = x'.height + 1 ∧ s.header x'.id = some x' := by
  have hne : x.id ≠ gid := by
    intro e
    obtain ⟨gp, hg⟩ := w.genesis
    rw [← e, skel_of_header hx] at hg; injection hg with hg; injection hg with _ h2; omega
  obtain ⟨pp, ph, hp, hh⟩ := w.parent x.id x.parent x.height (skel_of_header hx) hne
  rw [skel_of_header hx'] at hp; injection hp with hp; injection hp with _ h2
  have hid := header_id hx'
  refine ⟨hid, by omega, by rw [hid]; exact hx'⟩

theorem both_genesis {s : State} {gid : Nat} (w : StoreWF (skel s) gid) {a d : Header}
    (ha : s.header a.id = some a) (hd : s.header d.id = some d) (h0 : a.height = 0) (h0' : d.height = 0) :
    a.id = d.id := by
  have h1 := skel_of_header ha; rw [h0] at h1
  have h2 := skel_of_header hd; rw [h0'] at h2
  rw [w.height_zero h1, w.height_zero h2]

/-- The loop invariant of `calcReorganizeChain`: `att` is a chain from the attach cursor `a`
    upwards, `det` reversed a chain from the detach cursor `d` upwards. -/
theorem calcReorg_inv (s : State) (gid : Nat) (w : StoreWF (skel s) gid) :
    ∀ (fuel : Nat) (a d : Header) (att det A D : List Header),
      s.header a.id = some a → s.header d.id = some d →
      Up a.id a.height att → Up d.id d.height det.reverse → Stored s att → Stored s det →
      (∀ y ∈ det, a.height < y.height) → (∀ x ∈ att, d.height < x.height) →
      (∀ x ∈ att, ∀ y ∈ det, x.id ≠ y.id) →
      s.calcReorg fuel a d att det = some (A, D) →
      ∃ c, s.header c.id = some c ∧
        Up c.id c.height A ∧ tipId c.id A = tipId a.id att ∧
        Up c.id c.height D.reverse ∧ tipId c.id D.reverse = tipId d.id det.reverse ∧
        Stored s A ∧ Stored s D ∧ (∀ x ∈ A, ∀ y ∈ D, x.id ≠ y.id) := by
  intro fuel
  induction fuel with
  | zero => intro a d att det A D _ _ _ _ _ _ _ _ _ h; simp [State.calcReorg] at h
  | succ n ih =>
    intro a d att det A D ha hd hua hud hsa hsd hj1 hj2 hdj h
    have hdiff : ∀ {x y : Header}, s.header x.id = some x → s.header y.id = some y → x.height < y.height → x.id ≠ y.id := by
      intro x y hx hy hlt e
      have := stored_eq hx hy e
      subst this; omega
    rw [State.calcReorg] at h
    by_cases e : a.id = d.id
    · have : (a.id == d.id) = true := by simpa using e
      rw [if_pos this] at h
      injection h with h; injection h with h1 h2
      subst h1; subst h2
      have := stored_eq ha hd e
      subst this
      exact ⟨a, ha, hua, rfl, hud, rfl, hsa, hsd, hdj⟩
    · have hne : (a.id == d.id) = false := by simpa using e
      rw [if_neg (by simp [hne])] at h
      rcases Nat.lt_trichotomy a.height d.height with hlt | heq | hgt
      · -- only the detach cursor goes back
        have h1 : ¬ (a.height ≥ d.height) := by omega
        have h2 : a.height ≤ d.height := by omega
        simp only [h1, h2, decide_true, decide_false, Bool.false_eq_true, ↓reduceIte] at h
        cases hd' : s.header d.parent with
        | none => simp [hd'] at h
        | some d' =>
          simp only [hd'] at h
          obtain ⟨hid, hh, hst⟩ := step_back w hd (by omega) hd'
          have hud' : Up d'.id d'.height (det ++ [d]).reverse := by
            rw [List.reverse_append]; exact ⟨hid.symm, hh, hud⟩
          have hsd' : Stored s (det ++ [d]) := by
            intro x hx
            rcases List.mem_append.mp hx with hx | hx
            · exact hsd x hx
            · simp only [List.mem_singleton] at hx; subst hx; exact hd
          have hj1' : ∀ y ∈ det ++ [d], a.height < y.height := by
            intro y hy
            rcases List.mem_append.mp hy with hy | hy
            · exact hj1 y hy
            · simp only [List.mem_singleton] at hy; subst hy; omega
          have hj2' : ∀ x ∈ att, d'.height < x.height := by
            intro x hx; have := hj2 x hx; omega
          have hdj' : ∀ x ∈ att, ∀ y ∈ det ++ [d], x.id ≠ y.id := by
            intro x hx y hy
            rcases List.mem_append.mp hy with hy | hy
            · exact hdj x hx y hy
            · simp only [List.mem_singleton] at hy; subst hy
              exact (hdiff hd (hsa x hx) (hj2 x hx)).symm
          obtain ⟨c, hc, r1, r2, r3, r4, r5, r6, r7⟩ := ih a d' att (det ++ [d]) A D ha hst hua hud' hsa hsd' hj1' hj2' hdj' h
          refine ⟨c, hc, r1, r2, r3, ?_, r5, r6, r7⟩
          rw [r4, List.reverse_append]; exact tipId_cons _ _ _
      · -- same height: both cursors go back
        have h1 : a.height ≥ d.height := by omega
        have h2 : a.height ≤ d.height := by omega
        simp only [h1, h2, decide_true, decide_false, Bool.false_eq_true, ↓reduceIte] at h
        have hpos : 1 ≤ a.height := by
          by_contra hc
          exact e (both_genesis w ha hd (by omega) (by omega))
        cases ha' : s.header a.parent with
        | none => simp [ha'] at h
        | some a' =>
          cases hd' : s.header d.parent with
          | none => simp [ha', hd'] at h
          | some d' =>
            simp only [ha', hd'] at h
            obtain ⟨hida, hha, hsta⟩ := step_back w ha hpos ha'
            obtain ⟨hid, hh, hst⟩ := step_back w hd (by omega) hd'
            have hua' : Up a'.id a'.height (a :: att) := ⟨hida.symm, hha, hua⟩
            have hsa' : Stored s (a :: att) := by
              intro x hx
              rcases List.mem_cons.mp hx with hx | hx
              · subst hx; exact ha
              · exact hsa x hx
            have hud' : Up d'.id d'.height (det ++ [d]).reverse := by
              rw [List.reverse_append]; exact ⟨hid.symm, hh, hud⟩
            have hsd' : Stored s (det ++ [d]) := by
              intro x hx
              rcases List.mem_append.mp hx with hx | hx
              · exact hsd x hx
              · simp only [List.mem_singleton] at hx; subst hx; exact hd
            have hj1' : ∀ y ∈ det ++ [d], a'.height < y.height := by
              intro y hy
              rcases List.mem_append.mp hy with hy | hy
              · have := hj1 y hy; omega
              · simp only [List.mem_singleton] at hy; subst hy; omega
            have hj2' : ∀ x ∈ a :: att, d'.height < x.height := by
              intro x hx
              rcases List.mem_cons.mp hx with hx | hx
              · subst hx; omega
              · have := hj2 x hx; omega
            have hdj' : ∀ x ∈ a :: att, ∀ y ∈ det ++ [d], x.id ≠ y.id := by
              intro x hx y hy
              rcases List.mem_cons.mp hx with hx | hx
              · subst hx
                rcases List.mem_append.mp hy with hy | hy
                · exact hdiff ha (hsd y hy) (hj1 y hy)
                · simp only [List.mem_singleton] at hy; subst hy; exact e
              · rcases List.mem_append.mp hy with hy | hy
                · exact hdj x hx y hy
                · simp only [List.mem_singleton] at hy; subst hy
                  exact (hdiff hd (hsa x hx) (hj2 x hx)).symm
            obtain ⟨c, hc, r1, r2, r3, r4, r5, r6, r7⟩ := ih a' d' (a :: att) (det ++ [d]) A D hsta hst hua' hud' hsa' hsd' hj1' hj2' hdj' h
            refine ⟨c, hc, r1, ?_, r3, ?_, r5, r6, r7⟩
            · rw [r2]; exact tipId_cons _ _ _
            · rw [r4, List.reverse_append]; exact tipId_cons _ _ _
      · -- only the attach cursor goes back
        have h1 : a.height ≥ d.height := by omega
        have h2 : ¬ (a.height ≤ d.height) := by omega
        simp only [h1, h2, decide_true, decide_false, Bool.false_eq_true, ↓reduceIte] at h
        cases ha' : s.header a.parent with
        | none => simp [ha'] at h
        | some a' =>
          simp only [ha'] at h
          obtain ⟨hida, hha, hsta⟩ := step_back w ha (by omega) ha'
          have hua' : Up a'.id a'.height (a :: att) := ⟨hida.symm, hha, hua⟩
          have hsa' : Stored s (a :: att) := by
            intro x hx
            rcases List.mem_cons.mp hx with hx | hx
            · subst hx; exact ha
            · exact hsa x hx
          have hj1' : ∀ y ∈ det, a'.height < y.height := by
            intro y hy; have := hj1 y hy; omega
          have hj2' : ∀ x ∈ a :: att, d.height < x.height := by
            intro x hx
            rcases List.mem_cons.mp hx with hx | hx
            · subst hx; omega
            · exact hj2 x hx
          have hdj' : ∀ x ∈ a :: att, ∀ y ∈ det, x.id ≠ y.id := by
            intro x hx y hy
            rcases List.mem_cons.mp hx with hx | hx
            · subst hx; exact hdiff ha (hsd y hy) (hj1 y hy)
            · exact hdj x hx y hy
          obtain ⟨c, hc, r1, r2, r3, r4, r5, r6, r7⟩ := ih a' d (a :: att) det A D hsta hd hua' hud hsa' hsd hj1' hj2' hdj' h
          refine ⟨c, hc, r1, ?_, r3, r4, r5, r6, r7⟩
          rw [r2]; exact tipId_cons _ _ _

/-! ### chains and ancestors -/

/-- a stored chain above a stored block: the block and every chain element are ancestors of
    the tip, and the elements lie strictly above the block -/
theorem up_anc {s : State} : ∀ (l : List Header) (c pc hc : Nat), skel s c = some (pc, hc) → Up c hc l → Stored s l →
    Anc (skel s) c (tipId c l) ∧ ∀ x ∈ l, Anc (skel s) x.id (tipId c l) ∧ hc < x.height := by
  intro l
  induction l with
  | nil => intro c pc hc hcs _ _; exact ⟨Anc.refl hcs, by simp⟩
  | cons h t ih =>
    intro c pc hc hcs hu hst
    obtain ⟨hp, hh, hu'⟩ := hu
    have hhs : skel s h.id = some (h.parent, h.height) := skel_of_header (hst h (by simp))
    obtain ⟨i1, i2⟩ := ih h.id h.parent h.height hhs hu' (fun x hx => hst x (by simp [hx]))
    rw [tipId_cons]
    have hch : Anc (skel s) c h.id := by
      refine Anc.step hhs (by rw [hp]; exact hcs) hh ?_
      rw [hp]; exact Anc.refl hcs
    refine ⟨hch.trans i1, ?_⟩
    intro x hx
    rcases List.mem_cons.mp hx with hx | hx
    · subst hx; exact ⟨i1, by omega⟩
    · obtain ⟨j1, j2⟩ := i2 x hx
      exact ⟨j1, by omega⟩

/-- an ancestor of the tip of a stored chain is a chain element or an ancestor of the base -/
theorem up_anc_cases {s : State} : ∀ (l : List Header) (c hc : Nat), Up c hc l → Stored s l →
    ∀ a, Anc (skel s) a (tipId c l) → Anc (skel s) a c ∨ ∃ x ∈ l, x.id = a := by
  intro l
  induction l with
  | nil => intro c hc _ _ a h; exact Or.inl h
  | cons h t ih =>
    intro c hc hu hst a ha
    obtain ⟨hp, hh, hu'⟩ := hu
    rw [tipId_cons] at ha
    rcases ih h.id h.height hu' (fun x hx => hst x (by simp [hx])) a ha with h1 | ⟨x, hx, hxa⟩
    · rcases h1.inv with e | ⟨p, ht, pp, ph, hb, _, _, hap⟩
      · exact Or.inr ⟨h, by simp, e.symm⟩
      · have hhs : skel s h.id = some (h.parent, h.height) := skel_of_header (hst h (by simp))
        rw [hhs] at hb; injection hb with hb; injection hb with e1 _
        rw [← e1, hp] at hap
        exact Or.inl hap
    · exact Or.inr ⟨x, by simp [hx], hxa⟩

/-! ### the C11 invariant -/

/-- The blocks that exist, as far as the chain layer is concerned: `mem id parent height`.
    Block ids stand for block hashes, so an id determines the block (`id_det`); a valid
    non-genesis block is one higher than its parent (`child`, checked by `ValidateBlock`). -/
structure Univ where
  gid : Nat
  mem : Nat → Nat → Nat → Prop
  id_det : ∀ {i p h p' h'}, mem i p h → mem i p' h' → p = p' ∧ h = h'
  child : ∀ {i p h pp ph}, mem i p h → mem p pp ph → i ≠ gid → h = ph + 1

/-- every ancestor of the best block is what the height index holds at its height -/
def IndexOK (L : Skel) (index : List (Nat × Nat)) (best : Nat) : Prop :=
  ∀ a ap ah, Anc L a best → L a = some (ap, ah) → alistGet index ah = some a

structure WF' (U : Univ) (hs : List Header) (orphans : List Header) (best : Nat) (index : List (Nat × Nat)) : Prop where
  store : StoreWF (skelOf hs) U.gid
  conf : ∀ id p h, skelOf hs id = some (p, h) → U.mem id p h
  orph : ∀ o ∈ orphans, U.mem o.id o.parent o.height
  bestStored : ∃ p h, skelOf hs best = some (p, h)
  index : IndexOK (skelOf hs) index best

/-- The invariant: stored headers are closed under parent with heights going down by one to
    genesis and are blocks of the universe, so are the waiting orphans, the best block is
    stored, and the height index maps the height of every ancestor of best to that ancestor. -/
def WF (U : Univ) (s : State) : Prop := WF' U s.headers s.orphans s.best s.index

theorem WF.congr {U : Univ} {s s' : State} (h : WF U s) (h1 : s'.headers = s.headers)
    (h2 : s'.orphans = s.orphans) (h3 : s'.best = s.best) (h4 : s'.index = s.index) : WF U s' := by
  unfold WF at *; rw [h1, h2, h3, h4]; exact h

theorem WF.orphans_subset {U : Univ} {s s' : State} (h : WF U s) (h1 : s'.headers = s.headers)
    (h2 : ∀ o ∈ s'.orphans, o ∈ s.orphans) (h3 : s'.best = s.best) (h4 : s'.index = s.index) : WF U s' := by
  unfold WF at *; rw [h1, h3, h4]
  exact ⟨h.store, h.conf, fun o ho => h.orph o (h2 o ho), h.bestStored, h.index⟩

/-- `tryReorganize` keeps the invariant (whatever hash it is asked to move to) -/
theorem tryReorganize_wf {U : Univ} {s : State} (h : WF U s) (x : Nat) : WF U (s.tryReorganize x).1 := by
  unfold State.tryReorganize
  split
  · exact h
  · split
    · rename_i nb ob hnb hob
      split
      · exact h
      · rename_i att det hcalc
        have w : StoreWF (skel s) U.gid := h.store
        have hnbid := header_id hnb
        have hobid := header_id hob
        obtain ⟨c, hc, r1, r2, r3, r4, r5, hsd, _⟩ := calcReorg_inv s U.gid w _ nb ob [] [] att det
          (by rw [hnbid]; exact hnb) (by rw [hobid]; exact hob) trivial trivial (by intro x hx; simp at hx)
          (by intro x hx; simp at hx) (by intro x hx; simp at hx) (by intro x hx; simp at hx)
          (by intro x hx; simp at hx) hcalc
        simp only [tipId_nil, List.reverse_nil] at r2 r4
        have hcs := skel_of_header hc
        obtain ⟨a1, a2⟩ := up_anc att c.id c.parent c.height hcs r1 r5
        have hdst : Stored s det.reverse := by
          intro y hy; exact hsd y (List.mem_reverse.mp hy)
        obtain ⟨d1, _⟩ := up_anc det.reverse c.id c.parent c.height hcs r3 hdst
        rw [r2, hnbid] at a1 a2
        rw [r4, hobid] at d1
        refine ⟨h.store, h.conf, h.orph, ⟨_, _, skel_of_header hnb⟩, ?_⟩
        intro a ap ah haa0 has0
        have haa : Anc (skel s) a x := haa0
        have has : skel s a = some (ap, ah) := has0
        show alistGet (att.foldl (fun ix h => alistSet ix h.height h.id) s.index) ah = some a
        rw [alistGet_foldl_set]
        have hcases := up_anc_cases att c.id c.height r1 r5 a (by rw [r2, hnbid]; exact haa)
        rcases hcases with hac | ⟨y, hy, hya⟩
        · -- below the fork point: the old entry, untouched
          have hle := (hac.height has hcs).1
          have hnone : att.reverse.find? (fun h => h.height == ah) = none := by
            rw [List.find?_eq_none]
            intro z hz
            have := (a2 z (List.mem_reverse.mp hz)).2
            simp; omega
          rw [hnone]
          exact h.index a ap ah (hac.trans d1) has
        · -- on the attached branch
          have hys := skel_of_header (r5 y hy)
          rw [hya, has] at hys; injection hys with hys; injection hys with _ hyh
          cases hf : att.reverse.find? (fun h => h.height == ah) with
          | none =>
            rw [List.find?_eq_none] at hf
            have := hf y (List.mem_reverse.mpr hy)
            simp [hyh] at this
          | some z =>
            have hzmem := List.mem_reverse.mp (List.mem_of_find?_eq_some hf)
            have hzh : z.height = ah := by simpa using List.find?_some hf
            have hzs := skel_of_header (r5 z hzmem)
            rw [hzh] at hzs
            have := Anc.unique (a2 z hzmem).1 haa hzs has
            simp [this]
    · exact h

/-! ### the Casper layer does not touch what `WF` reads -/

/-- the parts of the state the Casper layer (`ApplyBlock`) never writes -/
def Frame (s s' : State) : Prop :=
  s'.headers = s.headers ∧ s'.orphans = s.orphans ∧ s'.best = s.best ∧ s'.index = s.index ∧
  s'.prevOrphans = s.prevOrphans ∧ s'.defs = s.defs ∧ s'.cfg = s.cfg

theorem applyBlock_frame (s : State) (b : Header) : Frame s (s.applyBlock b).1 := by
  unfold State.applyBlock
  cases h1 : s.tree.find (byHash b.id) with
  | some _ => exact ⟨rfl, rfl, rfl, rfl, rfl, rfl, rfl⟩
  | none =>
    simp only []
    cases h2 : s.ensureNode s.fuel s.tree b.parent with
    | none => exact ⟨rfl, rfl, rfl, rfl, rfl, rfl, rfl⟩
    | some tree0 =>
      simp only []
      generalize (if b.height % s.cfg.epoch == 1 then
          match tree0.find (byHash b.parent) with
          | some p => tree0.addChild (byHash b.parent) (increase s.cfg.epoch (newCkpt p.ckpt) b)
          | none => tree0
        else tree0.update (byHash b.parent) (fun c => increase s.cfg.epoch c b)) = tree1
      cases h3 : tree1.find (byHash b.id) with
      | none => exact ⟨rfl, rfl, rfl, rfl, rfl, rfl, rfl⟩
      | some tn =>
        simp only []
        split
        · exact ⟨rfl, rfl, rfl, rfl, rfl, rfl, rfl⟩
        · split_ifs <;> exact ⟨rfl, rfl, rfl, rfl, rfl, rfl, rfl⟩

theorem orphanDelete_frame (s : State) (id : Nat) :
    (s.orphanDelete id).headers = s.headers ∧ (∀ o ∈ (s.orphanDelete id).orphans, o ∈ s.orphans) ∧
    (s.orphanDelete id).best = s.best ∧ (s.orphanDelete id).index = s.index ∧
    (s.orphanDelete id).defs = s.defs ∧ (s.orphanDelete id).tree = s.tree := by
  unfold State.orphanDelete
  split
  · simp
  · dsimp only
    split
    · refine ⟨rfl, ?_, rfl, rfl, rfl, rfl⟩
      intro o ho; exact (List.mem_filter.mp ho).1
    · split_ifs
      · refine ⟨rfl, ?_, rfl, rfl, rfl, rfl⟩
        intro o ho; exact (List.mem_filter.mp ho).1
      · refine ⟨rfl, ?_, rfl, rfl, rfl, rfl⟩
        intro o ho; exact (List.mem_filter.mp ho).1

/-! ### every step of the node keeps the invariant -/

/-- storing a header of the universe whose parent is stored (or re-storing a stored one with
    other sup links) keeps the invariant -/
theorem WF'.store_add {U : Univ} {hs orph : List Header} {best : Nat} {index : List (Nat × Nat)}
    (h : WF' U hs orph best index) (hdr : Header) (hb : U.mem hdr.id hdr.parent hdr.height)
    (hpar : hdr.id ≠ U.gid → ∃ pp ph, skelOf hs hdr.parent = some (pp, ph)) :
    WF' U (hdr :: hs.filter (fun x => x.id != hdr.id)) orph best index := by
  have hsub : Sub (skelOf hs) (skelOf (hdr :: hs.filter (fun x => x.id != hdr.id))) := by
    intro id x hx
    rw [skelOf_replace]
    by_cases e : hdr.id = id
    · rw [if_pos e]
      obtain ⟨p, ht⟩ := x
      have := U.id_det (h.conf id p ht hx) (e ▸ hb)
      rw [this.1, this.2]
    · rw [if_neg e]; exact hx
  have hback : ∀ id p ht, skelOf (hdr :: hs.filter (fun x => x.id != hdr.id)) id = some (p, ht) →
      skelOf hs id = some (p, ht) ∨ (id = hdr.id ∧ p = hdr.parent ∧ ht = hdr.height) := by
    intro id p ht hx
    rw [skelOf_replace] at hx
    by_cases e : hdr.id = id
    · rw [if_pos e] at hx; injection hx with hx; injection hx with h1 h2
      exact Or.inr ⟨e.symm, h1.symm, h2.symm⟩
    · rw [if_neg e] at hx; exact Or.inl hx
  refine ⟨⟨?_, ?_⟩, ?_, h.orph, ?_, ?_⟩
  · obtain ⟨gp, hg⟩ := h.store.genesis
    exact ⟨gp, hsub _ _ hg⟩
  · intro id p ht hx hne
    rcases hback id p ht hx with h1 | ⟨e1, e2, e3⟩
    · obtain ⟨pp, ph, hp, hh⟩ := h.store.parent id p ht h1 hne
      exact ⟨pp, ph, hsub _ _ hp, hh⟩
    · subst e1; subst e2; subst e3
      obtain ⟨pp, ph, hp⟩ := hpar hne
      exact ⟨pp, ph, hsub _ _ hp, U.child hb (h.conf _ _ _ hp) hne⟩
  · intro id p ht hx
    rcases hback id p ht hx with h1 | ⟨e1, e2, e3⟩
    · exact h.conf id p ht h1
    · subst e1; subst e2; subst e3; exact hb
  · obtain ⟨p, ht, hbs⟩ := h.bestStored
    exact ⟨p, ht, hsub _ _ hbs⟩
  · intro a ap ah haa has
    obtain ⟨p, ht, hbs⟩ := h.bestStored
    have haa' := Anc.restrict hsub h.store haa hbs
    obtain ⟨ap', ah', has'⟩ := haa'.stored_left
    have := hsub _ _ has'
    rw [has] at this; injection this with this; injection this with e1 e2
    subst e1; subst e2
    exact h.index a ap ah haa' has'

theorem saveBlock_wf {U : Univ} {s : State} (h : WF U s) (b : Header) (hb : U.mem b.id b.parent b.height) :
    WF U (s.saveBlock b).1 := by
  unfold State.saveBlock
  cases hp : s.header b.parent with
  | none => exact h
  | some ph =>
    simp only []
    cases h2 : s.prevCheckpointHash s.fuel b.parent with
    | none => exact h
    | some ch =>
      simp only []
      cases h3 : s.getCheckpoint ch with
      | none => exact h
      | some _ =>
        simp only []
        obtain ⟨f1, f2, f3, f4, _, _, _⟩ := applyBlock_frame s b
        generalize s.applyBlock b = r at f1 f2 f3 f4
        obtain ⟨s1, ok, sup⟩ := r
        have h1 : WF U s1 := h.congr f1 f2 f3 f4
        cases ok with
        | false => exact h1
        | true =>
          simp only [Bool.not_true, Bool.false_eq_true, ↓reduceIte]
          have key : ∀ s2 : State, s2.headers = { b with sup := sup } :: s1.headers.filter (fun h => h.id != b.id) →
              s2.orphans = s1.orphans → s2.best = s1.best → s2.index = s1.index → WF U (s2.orphanDelete b.id) := by
            intro s2 e1 e2 e3 e4
            obtain ⟨g1, g2, g3, g4, _, _⟩ := orphanDelete_frame s2 b.id
            refine WF.orphans_subset (s := s2) ?_ g1 g2 g3 g4
            unfold WF; rw [e1, e2, e3, e4]
            have hps : ∃ pp ph', skelOf s1.headers b.parent = some (pp, ph') := by
              rw [f1]; exact ⟨_, _, skelOf_of_lookup hp⟩
            exact WF'.store_add h1 { b with sup := sup } hb (fun _ => hps)
          exact key _ rfl rfl rfl rfl

theorem foldl_inv {σ α : Type} {P : σ → Prop} (f : σ → α → σ) (hf : ∀ s x, P s → P (f s x)) :
    ∀ (l : List α) (s : σ), P s → P (l.foldl f s) := by
  intro l
  induction l with
  | nil => intro s h; exact h
  | cons x t ih => intro s h; exact ih _ (hf s x h)

theorem saveSubBlock_wf {U : Univ} : ∀ (fuel : Nat) (s : State) (id : Nat), WF U s → WF U (State.saveSubBlock fuel s id) := by
  intro fuel
  induction fuel with
  | zero => intro s id h; exact h
  | succ n ih =>
    intro s id h
    unfold State.saveSubBlock
    split
    · exact h
    · apply foldl_inv (P := WF U) _ _ _ s h
      intro st o hst
      split
      · exact hst
      · rename_i ob hob
        have hmem := lookup_mem hob
        have hw := saveBlock_wf hst ob (hst.orph ob hmem)
        generalize st.saveBlock ob = r at hw
        obtain ⟨st1, ok⟩ := r
        cases ok with
        | false => exact hw
        | true => exact ih st1 o hw

theorem orphanAdd_wf {U : Univ} {s : State} (h : WF U s) (b : Header) (hb : U.mem b.id b.parent b.height) :
    WF U (s.orphanAdd b) := by
  unfold State.orphanAdd
  split
  · exact h
  · refine ⟨h.store, h.conf, ?_, h.bestStored, h.index⟩
    intro o ho
    rcases List.mem_append.mp ho with ho | ho
    · exact h.orph o ho
    · simp only [List.mem_singleton] at ho; subst ho; exact hb

/-- `Chain.processBlock` keeps the invariant for every block of the universe -/
theorem processBlock_wf {U : Univ} {s : State} (h : WF U s) (b : Header) (hb : U.mem b.id b.parent b.height) :
    WF U (s.processBlock b).1 := by
  unfold State.processBlock
  simp only []
  split_ifs
  · exact h
  · exact h
  · exact orphanAdd_wf h b hb
  · exact saveBlock_wf h b hb
  · exact tryReorganize_wf (saveSubBlock_wf _ _ _ (saveBlock_wf h b hb)) _
  · exact tryReorganize_wf (saveSubBlock_wf _ _ _ (saveBlock_wf h b hb)) _

/-- `Casper.AuthVerification` (with the reorganisation it may request) keeps the invariant -/
theorem authVerification_wf {U : Univ} {s : State} (h : WF U s) (order src tgt : Nat) (sigOk : Bool) :
    WF U (s.authVerification order src tgt sigOk).1 := by
  unfold State.authVerification
  split
  · exact h
  · split
    · exact h
    · simp only []
      split_ifs
      all_goals (try exact h)
      split
      · exact h
      · split
        · exact h.congr rfl rfl rfl rfl
        · rename_i th hth
          have e := header_id hth
          subst e
          have hs1 : ∀ (sup' : List SupLink) (s1 : State), s1.headers = { th with sup := sup' } ::
                s.headers.filter (fun h => h.id != th.id) → s1.orphans = s.orphans → s1.best = s.best → s1.index = s.index →
                WF U s1 := by
            intro sup' s1 e1 e2 e3 e4
            unfold WF; rw [e1, e2, e3, e4]
            have hsk : skelOf s.headers th.id = some (th.parent, th.height) := skelOf_of_lookup hth
            refine WF'.store_add h _ (h.conf _ _ _ hsk) ?_
            intro hne
            obtain ⟨pp, ph, hp, _⟩ := h.store.parent _ _ _ hsk hne
            exact ⟨pp, ph, hp⟩
          split_ifs
          · dsimp only; exact hs1 _ _ rfl rfl rfl rfl
          · dsimp only; apply tryReorganize_wf; exact hs1 _ _ rfl rfl rfl rfl
          · dsimp only; apply tryReorganize_wf; exact hs1 _ _ rfl rfl rfl rfl

/-- `NewChain` on the persisted state -/
theorem restart_wf {U : Univ} {s s' : State} (h : WF U s) (hr : s.restart = some s') : WF U s' := by
  unfold State.restart at hr
  split at hr
  · simp only [] at hr
    split at hr
    · cases hr
    · split_ifs at hr
      -- the reloaded state (fresh tree, no orphans) …
      have h1 : ∀ (t : Tree), WF U { s with tree := t, orphans := [], prevOrphans := [] } := fun t =>
        WF.orphans_subset h rfl (by intro o ho; simp at ho) rfl rfl
      -- … to which `NewChain` applies the best block once more
      split at hr
      · rename_i bh _
        generalize hs1 : ({ s with tree := _, orphans := [], prevOrphans := [] } : State) = s1 at hr
        have w1 : WF U s1 := by rw [← hs1]; exact h1 _
        obtain ⟨f1, f2, f3, f4, _, _, _⟩ := applyBlock_frame s1 bh
        generalize s1.applyBlock bh = r at hr f1 f2 f3 f4
        obtain ⟨s2, ok, sup⟩ := r
        simp only [Option.some.injEq] at hr
        subst hr
        cases ok with
        | false => exact w1
        | true => exact w1.congr f1 f2 f3 f4
      · injection hr with hr
        subst hr
        exact h1 _
  · cases hr

theorem init_wf (U : Univ) (cfg : Config) (g : Header) (hg : g.height = 0) (hid : U.gid = g.id)
    (hm : U.mem g.id g.parent g.height) : WF U (State.init cfg g) := by
  have hsk : ∀ id, skelOf [g] id = if g.id = id then some (g.parent, g.height) else none := by
    intro id; unfold skelOf; rw [lookup_cons]; split <;> rfl
  have hgs : skelOf [g] g.id = some (g.parent, 0) := by rw [hsk, if_pos rfl, hg]
  have honly : ∀ id p h, skelOf [g] id = some (p, h) → id = g.id ∧ p = g.parent ∧ h = 0 := by
    intro id p h hx
    rw [hsk] at hx
    split at hx
    · rename_i e; injection hx with hx; injection hx with h1 h2
      exact ⟨e.symm, h1.symm, by omega⟩
    · cases hx
  refine ⟨⟨⟨_, by rw [hid]; exact hgs⟩, ?_⟩, ?_, ?_, ⟨_, _, hgs⟩, ?_⟩
  · intro id p h hx hne
    exact absurd (honly id p h hx).1 (by rw [← hid]; exact hne)
  · intro id p h hx
    obtain ⟨e1, e2, e3⟩ := honly id p h hx
    subst e1; subst e2; subst e3; rw [← hg]; exact hm
  · intro o ho; simp [State.init] at ho
  · intro a ap ah haa has
    obtain ⟨e1, _, e3⟩ := honly a ap ah has
    subst e1; subst e3
    simp [State.init, alistGet_cons]

/-! ### events and runs -/

/-- what can happen to a node in the modelled histories (the op lines of the node engine) -/
inductive Event
  | define (h : Header)                              -- harness `def`: a block becomes known to the test
  | deliver (b : Header)                             -- `Chain.ProcessBlock`
  | vote (order src tgt : Nat) (sigOk : Bool)        -- `Casper.AuthVerification`
  | restart                                          -- `NewChain` on the persisted state

def step (s : State) : Event → State
  | .define h => { s with defs := h :: s.defs }
  | .deliver b => (s.processBlock b).1
  | .vote o src tgt sg => (s.authVerification o src tgt sg).1
  | .restart => match s.restart with
    | some s' => s'
    | none => s

def run (s : State) (evs : List Event) : State := evs.foldl step s

/-- every delivered block is a block of the universe -/
def EventsIn (U : Univ) (evs : List Event) : Prop := ∀ b, Event.deliver b ∈ evs → U.mem b.id b.parent b.height

theorem step_wf {U : Univ} {s : State} (h : WF U s) (e : Event)
    (he : ∀ b, e = .deliver b → U.mem b.id b.parent b.height) : WF U (step s e) := by
  cases e with
  | define hd => exact h.congr rfl rfl rfl rfl
  | deliver b => exact processBlock_wf h b (he b rfl)
  | vote o src tgt sg => exact authVerification_wf h o src tgt sg
  | restart =>
    show WF U (match s.restart with | some s' => s' | none => s)
    cases hr : s.restart with
    | none => exact h
    | some s' => exact restart_wf h hr

theorem run_wf {U : Univ} : ∀ (evs : List Event) (s : State), WF U s → EventsIn U evs → WF U (run s evs) := by
  intro evs
  induction evs with
  | nil => intro s h _; exact h
  | cons e t ih =>
    intro s h hin
    refine ih (step s e) (step_wf h e ?_) ?_
    · intro b hb; exact hin b (by simp [hb])
    · intro b hb; exact hin b (by simp [hb])

/-! ### what the invariant says to an observer -/

/-- the driver's (and `Chain.InMainChain`'s) main-chain predicate, copied from `Drv/Node.lean` -/
def inMain (s : State) (h : Header) : Bool :=
  let bestH := match s.header s.best with | some b => b.height | none => 0
  (s.header h.id).isSome && h.height ≤ bestH && alistGet s.index h.height == some h.id

/-- `GetHeaderByHeight` agrees with the ancestry of the best block at every height up to it -/
theorem WF.index_consistent {U : Univ} {s : State} (w : WF U s) {bh : Header} (hb : s.header s.best = some bh)
    (k : Nat) (hk : k ≤ bh.height) :
    ∃ a ah, alistGet s.index k = some a ∧ s.header a = some ah ∧ ah.height = k ∧ Anc (skel s) a s.best := by
  obtain ⟨a, ap, haa, hak⟩ := w.store.anc_at bh.height s.best bh.parent (skel_of_header hb) k hk
  obtain ⟨ah, hah, _, hh, _⟩ := skelOf_some hak
  exact ⟨a, ah, w.index a ap k haa hak, hah, hh, haa⟩

theorem WF.inMain_iff {U : Univ} {s : State} (w : WF U s) (h : Header)
    (hh : ∀ h', s.header h.id = some h' → h'.height = h.height) :
    inMain s h = true ↔ Anc (skel s) h.id s.best := by
  obtain ⟨bp, bht, hbs⟩ := w.bestStored
  obtain ⟨bh, hbh, _, hbhh, _⟩ := skelOf_some hbs
  have hbh' : s.header s.best = some bh := hbh
  unfold inMain
  simp only [hbh', Bool.and_eq_true, decide_eq_true_eq, beq_iff_eq]
  constructor
  · rintro ⟨⟨hst, hle⟩, hix⟩
    obtain ⟨a, ah, h1, _, _, h4⟩ := w.index_consistent hbh' h.height hle
    rw [h1] at hix; injection hix with hix
    rw [← hix]; exact h4
  · intro hanc
    obtain ⟨p, ht, hs⟩ := hanc.stored_left
    obtain ⟨h', hh', _, hht, _⟩ := skelOf_some hs
    have hh'' : s.header h.id = some h' := hh'
    have e := hh h' hh''
    have hle := (hanc.height hs hbs).1
    refine ⟨⟨by rw [hh'']; rfl, by omega⟩, ?_⟩
    have := w.index h.id p ht hanc hs
    rw [← e, hht]; exact this

end BytomModel.Lemmas.NodeChain
