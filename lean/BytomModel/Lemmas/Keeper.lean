/-
Helper lemmas for C26 (utxoKeeper model): association-list maps, the selection loop `sel`,
and preservation of the keeper invariant by every operation.
-/
import BytomModel.Model.Keeper
import Mathlib.Data.List.Basic
import Mathlib.Data.List.Nodup
import Mathlib.Tactic.Linarith

set_option linter.unusedSimpArgs false
set_option linter.unusedVariables false

namespace BytomModel.Lemmas.Keeper
open BytomModel.Model.Keeper

/-! ### maps -/

theorem mLookup_mErase (k x : Nat) (m : List (Nat × Nat)) :
    mLookup x (mErase k m) = if x = k then none else mLookup x m := by
  unfold mLookup mErase
  induction m with
  | nil => simp
  | cons p m ih =>
    obtain ⟨a, b⟩ := p
    by_cases hak : a = k
    · subst hak
      by_cases hx : x = a
      · subst hx; simpa using ih
      · have : (x == a) = false := by simpa using hx
        simp [List.filter_cons, List.lookup_cons, this, hx] at ih ⊢
        exact ih
    · have hne : (a != k) = true := by simpa using hak
      by_cases hx : x = a
      · subst hx
        simp [List.filter_cons, hne, List.lookup_cons, hak]
      · have : (x == a) = false := by simpa using hx
        simp [List.filter_cons, hne, List.lookup_cons, this]
        exact ih

theorem mLookup_mInsert (k v x : Nat) (m : List (Nat × Nat)) :
    mLookup x (mInsert k v m) = if x = k then some v else mLookup x m := by
  unfold mInsert
  by_cases hx : x = k
  · subst hx; simp [mLookup, List.lookup_cons]
  · have : (x == k) = false := by simpa using hx
    have h2 := mLookup_mErase k x m
    simp only [mLookup] at h2 ⊢
    simp [List.lookup_cons, this, hx, h2]

theorem mLookup_reserveAll (rid x : Nat) (us : List Utxo) (m : List (Nat × Nat)) :
    mLookup x (reserveAll rid us m) = if x ∈ us.map (·.id) then some rid else mLookup x m := by
  unfold reserveAll
  induction us generalizing m with
  | nil => simp
  | cons u us ih =>
    simp only [List.foldl_cons, List.map_cons, List.mem_cons]
    rw [ih, mLookup_mInsert]
    by_cases h1 : x ∈ us.map (·.id)
    · simp [h1]
    · by_cases h2 : x = u.id <;> simp [h1, h2]

theorem mLookup_unreserveAll (x : Nat) (us : List Utxo) (m : List (Nat × Nat)) :
    mLookup x (unreserveAll us m) = if x ∈ us.map (·.id) then none else mLookup x m := by
  unfold unreserveAll
  induction us generalizing m with
  | nil => simp
  | cons u us ih =>
    simp only [List.foldl_cons, List.map_cons, List.mem_cons]
    rw [ih, mLookup_mErase]
    by_cases h1 : x ∈ us.map (·.id)
    · simp [h1]
    · by_cases h2 : x = u.id <;> simp [h1, h2]

/-! ### amounts -/

theorem amounts_nil : amounts [] = 0 := rfl
theorem amounts_cons (u : Utxo) (l : List Utxo) : amounts (u :: l) = u.amount + amounts l := by
  simp [amounts]
theorem amounts_append (a b : List Utxo) : amounts (a ++ b) = amounts a + amounts b := by
  simp [amounts, List.sum_append]

theorem amounts_sublist {a b : List Utxo} (h : a.Sublist b) : amounts a ≤ amounts b := by
  induction h with
  | slnil => simp
  | cons u _ ih => rw [amounts_cons]; omega
  | cons_cons u _ ih => rw [amounts_cons, amounts_cons]; omega

theorem amounts_perm {a b : List Utxo} (h : a.Perm b) : amounts a = amounts b := by
  unfold amounts; exact (h.map _).sum_nat

/-- splitting a list by a predicate splits its amount -/
theorem amounts_filter_split (p : Utxo → Bool) (l : List Utxo) :
    amounts l = amounts (l.filter p) + amounts (l.filter (fun u => !p u)) := by
  induction l with
  | nil => simp [amounts]
  | cons u l ih =>
    by_cases h : p u = true
    · simp [List.filter_cons, h, amounts_cons]; omega
    · have h' : p u = false := by simpa using h
      simp [List.filter_cons, h', amounts_cons]; omega

/-! ### the selection loop -/

/-- precondition of `sel` per mode -/
def SelPre (amount : Nat) (opt : List Utxo) (a : Nat) : Mode → Prop
  | .fill => a = amounts opt
  | .repl rl ra => a = amounts opt ∧ amount ≤ a ∧ ∃ l tl, opt = l :: tl ∧ ra = amounts tl + amounts rl

/-- nodes already consumed by the running inner loop -/
def modeNodes : Mode → List Utxo
  | .fill => []
  | .repl rl _ => rl

theorem replDecide_cases (amount : Nat) (n : Utxo) (optLen : Nat) (tl rl : List Utxo) (ra : Nat) :
    replDecide amount n optLen tl rl ra = .stop ∨
    (replDecide amount n optLen tl rl ra = .replaced (tl ++ (rl ++ [n])) (ra + n.amount) ∧ amount ≤ ra + n.amount) ∨
    (replDecide amount n optLen tl rl ra = .cont (rl ++ [n]) (ra + n.amount) ∧ ra + n.amount < amount) := by
  unfold replDecide
  by_cases h1 : (rl.length : Int) ≤ (desireUtxoCount : Int) - (optLen : Int)
  · by_cases h2 : ra + n.amount ≥ amount
    · right; left; simp [h1, h2]
    · right; right; simp [h1, h2]; omega
  · left; simp [h1]

/-- main invariant of the selection loop -/
theorem sel_spec (amount : Nat) : ∀ (nodes opt : List Utxo) (a : Nat) (mode : Mode) (opt' : List Utxo) (a' : Nat),
    SelPre amount opt a mode → sel amount nodes opt a mode = some (opt', a') →
    a' = amounts opt' ∧ opt'.Sublist (opt ++ modeNodes mode ++ nodes) ∧
    (amount ≤ a → amount ≤ a') ∧ (a' < amount → opt' = opt ++ nodes) := by
  intro nodes
  induction nodes with
  | nil =>
    intro opt a mode opt' a' hpre h
    have h' : opt' = opt ∧ a' = a := by
      cases mode <;> simp [sel] at h <;> exact ⟨h.1.symm, h.2.symm⟩
    obtain ⟨rfl, rfl⟩ := h'
    cases mode with
    | fill => exact ⟨hpre, by simp [modeNodes], id, fun _ => by simp⟩
    | repl rl ra =>
      obtain ⟨h1, h2, _⟩ := hpre
      refine ⟨h1, ?_, id, fun h => by omega⟩
      simp [modeNodes]
  | cons n rest ih =>
    intro opt a mode opt' a' hpre h
    cases mode with
    | fill =>
      simp only [SelPre] at hpre
      simp only [sel] at h
      by_cases hlt : a < amount
      · simp only [hlt, if_true] at h
        have := ih (opt ++ [n]) (a + n.amount) .fill opt' a' (by simp [SelPre, amounts_append, amounts_cons, amounts_nil, hpre]) h
        obtain ⟨h1, h2, h3, h4⟩ := this
        refine ⟨h1, ?_, fun hge => by omega, fun hl => ?_⟩
        · simpa [modeNodes] using h2
        · simpa using h4 hl
      · simp only [hlt, if_false] at h
        cases opt with
        | nil =>
          simp only [Option.some.injEq, Prod.mk.injEq] at h
          obtain ⟨rfl, rfl⟩ := h
          exact ⟨hpre, by simp [modeNodes], id, fun hl => by omega⟩
        | cons l tl =>
          simp only at h
          rcases replDecide_cases amount n (l :: tl).length tl [] (a - l.amount) with hc | ⟨hc, hge⟩ | ⟨hc, hl⟩
          · rw [hc] at h
            simp only [Option.some.injEq, Prod.mk.injEq] at h
            obtain ⟨rfl, rfl⟩ := h
            refine ⟨hpre, ?_, id, fun hl => by omega⟩
            simp [modeNodes]
          · rw [hc] at h
            simp only at h
            have hamt : a - l.amount = amounts tl := by rw [hpre, amounts_cons]; omega
            have := ih (tl ++ ([] ++ [n])) (a - l.amount + n.amount) .fill opt' a'
              (by simp [SelPre, amounts_append, amounts_cons, amounts_nil, hamt]) h
            obtain ⟨h1, h2, h3, h4⟩ := this
            refine ⟨h1, ?_, fun _ => h3 hge, fun hl => by have := h3 hge; omega⟩
            simp only [modeNodes, List.append_nil, List.nil_append, List.append_assoc, List.cons_append] at h2 ⊢
            exact h2.trans (List.sublist_cons_self l _)
          · rw [hc] at h
            simp only at h
            have hamt : a - l.amount = amounts tl := by rw [hpre, amounts_cons]; omega
            have := ih (l :: tl) a (.repl ([] ++ [n]) (a - l.amount + n.amount)) opt' a'
              (by
                refine ⟨hpre, by omega, l, tl, rfl, ?_⟩
                simp [amounts_cons, amounts_nil, hamt]) h
            obtain ⟨h1, h2, h3, h4⟩ := this
            refine ⟨h1, ?_, h3, fun hl => by have := h3 (by omega); omega⟩
            simpa [modeNodes] using h2
    | repl rl ra =>
      obtain ⟨hpa, hge0, l, tl, rfl, hra⟩ := hpre
      simp only [sel] at h
      rcases replDecide_cases amount n (l :: tl).length tl rl ra with hc | ⟨hc, hge⟩ | ⟨hc, hl⟩
      · rw [hc] at h
        simp only [Option.some.injEq, Prod.mk.injEq] at h
        obtain ⟨rfl, rfl⟩ := h
        refine ⟨hpa, ?_, id, fun hl => by omega⟩
        simp [modeNodes]
      · rw [hc] at h
        simp only at h
        have := ih (tl ++ (rl ++ [n])) (ra + n.amount) .fill opt' a'
          (by simp [SelPre, amounts_append, amounts_cons, amounts_nil, hra]; omega) h
        obtain ⟨h1, h2, h3, h4⟩ := this
        refine ⟨h1, ?_, fun _ => h3 hge, fun hl => by have := h3 hge; omega⟩
        simp only [modeNodes, List.append_nil, List.append_assoc, List.cons_append, List.nil_append] at h2 ⊢
        exact h2.trans (List.sublist_cons_self l _)
      · rw [hc] at h
        simp only at h
        have := ih (l :: tl) a (.repl (rl ++ [n]) (ra + n.amount)) opt' a'
          (by
            refine ⟨hpa, hge0, l, tl, rfl, ?_⟩
            simp [amounts_append, amounts_cons, amounts_nil, hra]; omega) h
        obtain ⟨h1, h2, h3, h4⟩ := this
        refine ⟨h1, ?_, h3, fun hl => by have := h3 hge0; omega⟩
        simpa [modeNodes] using h2

/-- the loop never panics -/
theorem sel_some (amount : Nat) : ∀ (nodes opt : List Utxo) (a : Nat) (mode : Mode),
    SelPre amount opt a mode → ∃ r, sel amount nodes opt a mode = some r := by
  intro nodes
  induction nodes with
  | nil => intro opt a mode _; cases mode <;> exact ⟨(opt, a), by simp [sel]⟩
  | cons n rest ih =>
    intro opt a mode hpre
    cases mode with
    | fill =>
      simp only [SelPre] at hpre
      simp only [sel]
      by_cases hlt : a < amount
      · simp only [hlt, if_true]
        exact ih _ _ _ (by simp [SelPre, amounts_append, amounts_cons, amounts_nil, hpre])
      · simp only [hlt, if_false]
        cases opt with
        | nil => exact ⟨_, rfl⟩
        | cons l tl =>
          simp only
          have hamt : a - l.amount = amounts tl := by rw [hpre, amounts_cons]; omega
          rcases replDecide_cases amount n (l :: tl).length tl [] (a - l.amount) with hc | ⟨hc, hge⟩ | ⟨hc, hl⟩
          · rw [hc]; exact ⟨_, rfl⟩
          · rw [hc]; exact ih _ _ _ (by simp [SelPre, amounts_append, amounts_cons, amounts_nil, hamt])
          · rw [hc]
            exact ih _ _ _ (by
              refine ⟨hpre, by omega, l, tl, rfl, ?_⟩
              simp [amounts_cons, amounts_nil, hamt])
    | repl rl ra =>
      obtain ⟨hpa, hge0, l, tl, rfl, hra⟩ := hpre
      simp only [sel]
      rcases replDecide_cases amount n (l :: tl).length tl rl ra with hc | ⟨hc, hge⟩ | ⟨hc, hl⟩
      · rw [hc]; exact ⟨_, rfl⟩
      · rw [hc]; exact ih _ _ _ (by simp [SelPre, amounts_append, amounts_cons, amounts_nil, hra]; omega)
      · rw [hc]
        exact ih _ _ _ (by
          refine ⟨hpa, hge0, l, tl, rfl, ?_⟩
          simp [amounts_append, amounts_cons, amounts_nil, hra]; omega)


/-! ### Reserve: shape of the answer -/

theorem optUTXOs_spec {k : Keeper} {sorted : List Utxo} {amount : Nat} {opt : List Utxo} {a ra : Nat}
    (h : optUTXOs k sorted amount = some (opt, a, ra)) :
    a = amounts opt ∧ opt.Sublist (sorted.filter (fun u => !isReserved k u)) ∧
    ra = amounts (sorted.filter (isReserved k)) ∧
    (a < amount → opt = sorted.filter (fun u => !isReserved k u)) := by
  unfold optUTXOs at h
  simp only at h
  split at h
  · simp at h
  · rename_i opt0 a0 hs
    simp only [Option.some.injEq, Prod.mk.injEq] at h
    obtain ⟨rfl, rfl, rfl⟩ := h
    have := sel_spec amount _ [] 0 .fill opt0 a0 (by simp [SelPre, amounts]) hs
    obtain ⟨h1, h2, _, h4⟩ := this
    refine ⟨h1, by simpa [modeNodes] using h2, rfl, fun hl => by simpa using h4 hl⟩

theorem optUTXOs_some (k : Keeper) (sorted : List Utxo) (amount : Nat) :
    ∃ r, optUTXOs k sorted amount = some r := by
  unfold optUTXOs
  simp only
  obtain ⟨⟨o, a⟩, hr⟩ := sel_some amount (sorted.filter (fun u => !isReserved k u)) [] 0 .fill (by simp [SelPre, amounts])
  rw [hr]
  exact ⟨_, rfl⟩

/-- the state after a successful Reserve -/
def afterReserve (k : Keeper) (r : Res) : Keeper :=
  { k with next := k.next + 1, reservations := r :: k.reservations,
           reserved := reserveAll r.id r.utxos k.reserved }

theorem reserveWith_cases (sortFn : List Utxo → List Utxo) (k : Keeper) (acct asset amount : Nat) (useUnc : Bool)
    (vote exp : Nat) :
    (∃ r, reserveWith sortFn k acct asset amount useUnc vote exp = (.ok r, afterReserve k r) ∧
      r.id = k.next + 1 ∧ r.expiry = exp ∧
      r.utxos.Sublist ((sortFn (findUtxos k acct asset useUnc vote).1).filter (fun u => !isReserved k u)) ∧
      amount ≤ amounts r.utxos ∧ r.change = amounts r.utxos - amount) ∨
    ((reserveWith sortFn k acct asset amount useUnc vote exp).2 = k ∧
      ∀ r, (reserveWith sortFn k acct asset amount useUnc vote exp).1 ≠ .ok r) := by
  unfold reserveWith
  simp only
  cases hopt : optUTXOs k (sortFn (findUtxos k acct asset useUnc vote).1) amount with
  | none => right; simp
  | some t =>
    obtain ⟨opt, a, ra⟩ := t
    obtain ⟨h1, h2, _, _⟩ := optUTXOs_spec hopt
    simp only
    by_cases c1 : a + ra + (findUtxos k acct asset useUnc vote).2 < amount
    · right; simp [c1]
    · by_cases c2 : a + ra < amount
      · right; simp [c1, c2]
      · by_cases c3 : a < amount
        · right; simp [c1, c2, c3]
        · left
          refine ⟨⟨k.next + 1, opt, a - amount, exp⟩, ?_, rfl, rfl, h2, ?_, ?_⟩
          · simp [c1, c2, c3, afterReserve]
          · simp only; omega
          · simp only; rw [h1]

/-! ### the keeper invariant -/

structure Inv (k : Keeper) : Prop where
  fwd : ∀ r ∈ k.reservations, ∀ u ∈ r.utxos, mLookup u.id k.reserved = some r.id
  bwd : ∀ oid rid, mLookup oid k.reserved = some rid →
      ∃ r ∈ k.reservations, r.id = rid ∧ ∃ u ∈ r.utxos, u.id = oid
  bound : ∀ r ∈ k.reservations, r.id ≤ k.next
  nodup : (k.reservations.map (·.id)).Nodup

theorem inv_empty : Inv empty := by
  constructor <;> simp [empty, mLookup]

theorem inv_afterReserve {k : Keeper} (hk : Inv k) (r : Res) (hid : r.id = k.next + 1)
    (hfree : ∀ u ∈ r.utxos, mLookup u.id k.reserved = none) : Inv (afterReserve k r) := by
  constructor
  · intro r0 hr0 u hu
    simp only [afterReserve, List.mem_cons] at hr0 ⊢
    rw [mLookup_reserveAll]
    rcases hr0 with rfl | hr0
    · have : u.id ∈ r0.utxos.map (·.id) := List.mem_map_of_mem hu
      simp [this]
    · have hl := hk.fwd r0 hr0 u hu
      have : ¬ u.id ∈ r.utxos.map (·.id) := by
        intro hmem
        obtain ⟨v, hv, hvid⟩ := List.mem_map.mp hmem
        have := hfree v hv
        try simp only at hvid
        rw [hvid, hl] at this
        cases this
      simp [this, hl]
  · intro oid rid hl
    simp only [afterReserve] at hl ⊢
    rw [mLookup_reserveAll] at hl
    by_cases hmem : oid ∈ r.utxos.map (·.id)
    · simp only [hmem, if_true, Option.some.injEq] at hl
      obtain ⟨v, hv, hvid⟩ := List.mem_map.mp hmem
      exact ⟨r, by simp, hl, v, hv, hvid⟩
    · simp only [hmem, if_false] at hl
      obtain ⟨r0, hr0, h1, h2⟩ := hk.bwd oid rid hl
      exact ⟨r0, by simp [hr0], h1, h2⟩
  · intro r0 hr0
    simp only [afterReserve, List.mem_cons] at hr0 ⊢
    rcases hr0 with rfl | hr0
    · omega
    · have := hk.bound r0 hr0; omega
  · simp only [afterReserve, List.map_cons, List.nodup_cons]
    refine ⟨?_, hk.nodup⟩
    intro hmem
    obtain ⟨r0, hr0, h⟩ := List.mem_map.mp hmem
    have := hk.bound r0 hr0
    (try simp only at h)
    omega

theorem inv_reserveWith (sortFn : List Utxo → List Utxo) {k : Keeper} (hk : Inv k) (acct asset amount : Nat)
    (useUnc : Bool) (vote exp : Nat) : Inv (reserveWith sortFn k acct asset amount useUnc vote exp).2 := by
  rcases reserveWith_cases sortFn k acct asset amount useUnc vote exp with ⟨r, h, hid, _, hsub, _, _⟩ | ⟨h, _⟩
  · rw [h]
    apply inv_afterReserve hk r hid
    intro u hu
    have := hsub.subset hu
    simp only [List.mem_filter, isReserved, Bool.not_eq_true', Option.isSome_eq_false_iff, Option.isNone_iff_eq_none] at this
    exact this.2
  · rw [h]; exact hk

theorem findUtxo_id {k : Keeper} {oid : Nat} {useUnc : Bool} {u : Utxo} (h : findUtxo k oid useUnc = some u) :
    u.id = oid := by
  unfold findUtxo at h
  split at h
  · rename_i v hv
    simp only [Option.some.injEq] at h; subst h
    split at hv
    · have := List.find?_some hv; simpa using this
    · cases hv
  · split at h
    · rename_i v hv
      simp only [Option.some.injEq] at h; subst h
      have := List.find?_some hv
      simp only [Bool.and_eq_true, beq_iff_eq] at this
      exact this.1
    · have := List.find?_some h
      simp only [Bool.and_eq_true, beq_iff_eq] at this
      exact this.1

theorem reserveParticular_cases (k : Keeper) (oid : Nat) (useUnc : Bool) (exp : Nat) :
    (∃ u, reserveParticular k oid useUnc exp = (.ok ⟨k.next + 1, [u], 0, exp⟩, afterReserve k ⟨k.next + 1, [u], 0, exp⟩) ∧
      findUtxo k oid useUnc = some u ∧ u.id = oid ∧ mLookup oid k.reserved = none ∧ u.validHeight ≤ k.height) ∨
    ((reserveParticular k oid useUnc exp).2 = k ∧ ∀ r, (reserveParticular k oid useUnc exp).1 ≠ .ok r) := by
  unfold reserveParticular
  by_cases h1 : (mLookup oid k.reserved).isSome
  · right; simp [h1]
  · simp only [h1]
    cases hf : findUtxo k oid useUnc with
    | none => right; simp
    | some u =>
      simp only
      by_cases h2 : u.validHeight > k.height
      · right; simp [h2]
      · left
        refine ⟨u, ?_, rfl, findUtxo_id hf, ?_, by omega⟩
        · simp [h2, afterReserve, reserveAll]
        · simpa using h1

theorem inv_reserveParticular {k : Keeper} (hk : Inv k) (oid : Nat) (useUnc : Bool) (exp : Nat) :
    Inv (reserveParticular k oid useUnc exp).2 := by
  rcases reserveParticular_cases k oid useUnc exp with ⟨u, h, _, hid, hfree, _⟩ | ⟨h, _⟩
  · rw [h]
    apply inv_afterReserve hk _ rfl
    intro v hv
    simp only [List.mem_singleton] at hv
    subst hv
    rw [hid]; exact hfree
  · rw [h]; exact hk

theorem inv_cancel {k : Keeper} (hk : Inv k) (rid : Nat) : Inv (cancel k rid) := by
  unfold cancel
  cases hf : k.reservations.find? (fun r => r.id == rid) with
  | none => exact hk
  | some r =>
    have hrmem : r ∈ k.reservations := List.mem_of_find?_eq_some hf
    have hrid : r.id = rid := by simpa using List.find?_some hf
    have uniq : ∀ r0 ∈ k.reservations, r0.id = rid → r0 = r := by
      intro r0 hr0 h0
      have hinj := List.inj_on_of_nodup_map hk.nodup
      exact hinj hr0 hrmem (by rw [h0, hrid])
    simp only
    constructor
    · intro r0 hr0 u hu
      simp only [List.mem_filter, bne_iff_ne, ne_eq] at hr0
      simp only
      rw [mLookup_unreserveAll]
      have hl := hk.fwd r0 hr0.1 u hu
      have : ¬ u.id ∈ r.utxos.map (·.id) := by
        intro hmem
        obtain ⟨v, hv, hvid⟩ := List.mem_map.mp hmem
        have hl2 := hk.fwd r hrmem v hv
        try simp only at hvid
        rw [hvid, hl] at hl2
        simp only [Option.some.injEq] at hl2
        exact hr0.2 (by rw [hl2, hrid])
      simp [this, hl]
    · intro oid rid' hl
      simp only at hl ⊢
      rw [mLookup_unreserveAll] at hl
      by_cases hmem : oid ∈ r.utxos.map (·.id)
      · simp [hmem] at hl
      · simp only [hmem, if_false] at hl
        obtain ⟨r0, hr0, h1, u, hu, huid⟩ := hk.bwd oid rid' hl
        refine ⟨r0, ?_, h1, u, hu, huid⟩
        simp only [List.mem_filter, bne_iff_ne, ne_eq]
        refine ⟨hr0, fun h0 => ?_⟩
        have := uniq r0 hr0 h0
        subst this
        exact hmem (List.mem_map.mpr ⟨u, hu, huid⟩)
    · intro r0 hr0
      simp only [List.mem_filter] at hr0
      exact hk.bound r0 hr0.1
    · simp only
      exact (List.filter_sublist.map _).nodup hk.nodup

theorem inv_expire {k : Keeper} (hk : Inv k) (t : Nat) : Inv (expire k t) := by
  unfold expire
  generalize k.reservations.filter (fun r => decide (r.expiry < t)) = l
  induction l generalizing k with
  | nil => simpa using hk
  | cons r l ih => simp only [List.foldl_cons]; exact ih (inv_cancel hk r.id)

theorem inv_of_same {k k' : Keeper} (hk : Inv k) (h1 : k'.reserved = k.reserved) (h2 : k'.reservations = k.reservations)
    (h3 : k'.next = k.next) : Inv k' := by
  constructor
  · rw [h1, h2]; exact hk.fwd
  · rw [h1, h2]; exact hk.bwd
  · rw [h2, h3]; exact hk.bound
  · rw [h2]; exact hk.nodup

theorem inv_stepWith (sortFn : List Utxo → List Utxo) {k : Keeper} (hk : Inv k) (op : Op) : Inv (stepWith sortFn k op) := by
  cases op with
  | reserve a s m u v e => exact inv_reserveWith sortFn hk a s m u v e
  | particular o u e => exact inv_reserveParticular hk o u e
  | cancel r => exact inv_cancel hk r
  | expire t => exact inv_expire hk t
  | dbPut u => exact inv_of_same hk rfl rfl rfl
  | dbDel o => exact inv_of_same hk rfl rfl rfl
  | addUnc u => exact inv_of_same hk rfl rfl rfl
  | rmUnc o => exact inv_of_same hk rfl rfl rfl
  | height h => exact inv_of_same hk rfl rfl rfl

theorem inv_runWith (sortFn : List Utxo → List Utxo) {k : Keeper} (hk : Inv k) (ops : List Op) : Inv (runWith sortFn k ops) := by
  unfold runWith
  induction ops generalizing k with
  | nil => simpa using hk
  | cons op ops ih => simp only [List.foldl_cons]; exact ih (inv_stepWith sortFn hk op)


/-! ### Reserve: which outcome -/

/-- the decision the property demands, from the three sums -/
def classify (avail resv imm amount : Nat) : Option Err :=
  if avail + resv + imm < amount then some .insufficient
  else if avail + resv < amount then some .immature
  else if avail < amount then some .reserved
  else none

/-- outcome class of an answer: `none` = panic, `some none` = success -/
def outcomeClass : Outcome Res → Option (Option Err)
  | .ok _ => some none
  | .err e => some (some e)
  | .panic => none

def availOf (k : Keeper) (m : List Utxo) : Nat := amounts (m.filter (fun u => mature k u && !isReserved k u))
def resvOf (k : Keeper) (m : List Utxo) : Nat := amounts (m.filter (fun u => mature k u && isReserved k u))
def immOf (k : Keeper) (m : List Utxo) : Nat := amounts (m.filter (fun u => !mature k u))

theorem reserveWith_outcome (sortFn : List Utxo → List Utxo) (hperm : ∀ l, (sortFn l).Perm l) (k : Keeper)
    (acct asset amount : Nat) (useUnc : Bool) (vote exp : Nat) :
    outcomeClass (reserveWith sortFn k acct asset amount useUnc vote exp).1 =
      some (classify (availOf k (matching k acct asset useUnc vote)) (resvOf k (matching k acct asset useUnc vote))
        (immOf k (matching k acct asset useUnc vote)) amount) := by
  obtain ⟨⟨opt, a, ra⟩, hopt⟩ := optUTXOs_some k (sortFn (findUtxos k acct asset useUnc vote).1) amount
  obtain ⟨h1, h2, h3, h4⟩ := optUTXOs_spec hopt
  set m := matching k acct asset useUnc vote with hm
  have hc : (findUtxos k acct asset useUnc vote).1 = m.filter (mature k) := rfl
  have hi : (findUtxos k acct asset useUnc vote).2 = immOf k m := rfl
  have hav : amounts ((sortFn (m.filter (mature k))).filter (fun u => !isReserved k u)) = availOf k m := by
    rw [amounts_perm ((hperm _).filter _)]
    simp [availOf, List.filter_filter, Bool.and_comm]
  have hrs : ra = resvOf k m := by
    rw [h3, hc, amounts_perm ((hperm _).filter _)]
    simp [resvOf, List.filter_filter, Bool.and_comm]
  have hle : a ≤ availOf k m := by
    rw [h1, ← hav, ← hc]; exact amounts_sublist h2
  have heq : a < amount → a = availOf k m := by
    intro hl; rw [h1, h4 hl, hc, hav]
  unfold reserveWith
  simp only [hopt, hi, hrs]
  unfold classify
  by_cases hl : a < amount
  · have := heq hl
    subst this
    by_cases c1 : availOf k m + resvOf k m + immOf k m < amount
    · simp [c1, outcomeClass]
    · by_cases c2 : availOf k m + resvOf k m < amount
      · simp [c1, c2, outcomeClass]
      · simp [c1, c2, hl, outcomeClass]
  · have c1 : ¬ a + resvOf k m + immOf k m < amount := by omega
    have c2 : ¬ a + resvOf k m < amount := by omega
    have d1 : ¬ availOf k m + resvOf k m + immOf k m < amount := by omega
    have d2 : ¬ availOf k m + resvOf k m < amount := by omega
    have d3 : ¬ availOf k m < amount := by omega
    simp [c1, c2, hl, d1, d2, d3, outcomeClass]

/-! ### the driver's sort is a permutation -/

theorem insertDesc_perm (u : Utxo) (l : List Utxo) : (insertDesc u l).Perm (u :: l) := by
  induction l with
  | nil => simp [insertDesc]
  | cons v rest ih =>
    unfold insertDesc
    by_cases h : v.amount ≥ u.amount
    · simp only [h, if_true]
      exact (List.Perm.cons v ih).trans (List.Perm.swap u v rest)
    · simp only [h, if_false]; exact List.Perm.refl _

theorem sortDesc_perm (l : List Utxo) : (sortDesc l).Perm l := by
  unfold sortDesc
  induction l with
  | nil => simp
  | cons u l ih =>
    simp only [List.foldr_cons]
    exact (insertDesc_perm u _).trans (List.Perm.cons u ih)

/-! ### de-duplication by id (the `listed` map of findUtxos) -/

theorem distinctById_sublist (l : List Utxo) : (distinctById l).Sublist l := by
  induction l with
  | nil => exact List.Sublist.slnil
  | cons u rest ih =>
    simp only [distinctById]
    exact (List.filter_sublist.trans ih).cons_cons u

theorem distinctById_nodup (l : List Utxo) : ((distinctById l).map (·.id)).Nodup := by
  induction l with
  | nil => simp [distinctById]
  | cons u rest ih =>
    simp only [distinctById, List.map_cons, List.nodup_cons]
    refine ⟨?_, (List.filter_sublist.map _).nodup ih⟩
    intro hm
    obtain ⟨v, hv, he⟩ := List.mem_map.mp hm
    simp only [List.mem_filter, bne_iff_ne, ne_eq] at hv
    exact hv.2 he

theorem distinctById_of_nodup (l : List Utxo) (h : (l.map (·.id)).Nodup) : distinctById l = l := by
  induction l with
  | nil => rfl
  | cons u rest ih =>
    simp only [List.map_cons, List.nodup_cons] at h
    simp only [distinctById, ih h.2]
    congr 1
    rw [List.filter_eq_self]
    intro v hv
    simp only [bne_iff_ne, ne_eq]
    intro heq
    exact h.1 (List.mem_map.mpr ⟨v, hv, heq⟩)

/-- the first occurrence wins: an id that occurs in the first list is represented by a record of
    the first list -/
theorem distinctById_append_left : ∀ (l1 l2 : List Utxo) (u : Utxo), u ∈ distinctById (l1 ++ l2) →
    (∃ c ∈ l1, c.id = u.id) → u ∈ l1 := by
  intro l1
  induction l1 with
  | nil => intro l2 u _ h; obtain ⟨c, hc, _⟩ := h; cases hc
  | cons x xs ih =>
    intro l2 u hu hex
    simp only [List.cons_append, distinctById, List.mem_cons, List.mem_filter, bne_iff_ne, ne_eq] at hu
    rcases hu with rfl | ⟨hmem, hne⟩
    · exact List.mem_cons_self
    · obtain ⟨c, hc, hid⟩ := hex
      rcases List.mem_cons.mp hc with rfl | hc'
      · exact absurd hid.symm hne
      · exact List.mem_cons_of_mem _ (ih l2 u hmem ⟨c, hc', hid⟩)

/-- every candidate `findUtxos` returns was listed and matches the request -/
theorem mem_matching {k : Keeper} {acct asset vote : Nat} {useUnc : Bool} {u : Utxo}
    (h : u ∈ matching k acct asset useUnc vote) :
    u ∈ listed k useUnc ∧ u.account = acct ∧ u.asset = asset ∧ u.vote = vote := by
  have := (distinctById_sublist _).subset h
  simp only [List.mem_filter, matchesReq, Bool.and_eq_true, beq_iff_eq] at this
  exact ⟨this.1, this.2.1.1, this.2.1.2, this.2.2⟩

/-- the outputs of a successful reservation are pairwise distinct -/
theorem reserved_nodup (sortFn : List Utxo → List Utxo) (hperm : ∀ l, (sortFn l).Perm l) (k : Keeper)
    (acct asset : Nat) (useUnc : Bool) (vote : Nat) (us : List Utxo)
    (hsub : us.Sublist ((sortFn (findUtxos k acct asset useUnc vote).1).filter (fun u => !isReserved k u))) :
    (us.map (·.id)).Nodup := by
  have s1 : (us.map (·.id)).Sublist ((sortFn (findUtxos k acct asset useUnc vote).1).map (·.id)) :=
    (hsub.trans List.filter_sublist).map _
  have p1 := (hperm (findUtxos k acct asset useUnc vote).1).map (·.id)
  have s2 : ((findUtxos k acct asset useUnc vote).1.map (·.id)).Sublist ((matching k acct asset useUnc vote).map (·.id)) := by
    simp only [findUtxos]
    exact List.filter_sublist.map _
  exact s1.nodup (p1.nodup_iff.mpr (s2.nodup (distinctById_nodup _)))

end BytomModel.Lemmas.Keeper
