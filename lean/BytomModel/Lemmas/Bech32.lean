/-
Lemmas about the bech32 checksum: `polymodStep` is xor-linear with trivial kernel on 30-bit
states; consequences (single symbol error changes the checksum state; the generated checksum
verifies).
-/
import BytomModel.Model.Bech32
import Mathlib.Tactic.Linarith

namespace BytomModel.Lemmas.Bech32
open BytomModel.Bech32

/-! ### xor facts on `Nat` -/

theorem xor_eq_zero {a b : Nat} (h : a ^^^ b = 0) : a = b := by
  have : a ^^^ (a ^^^ b) = a := by rw [h, Nat.xor_zero]
  rw [← Nat.xor_assoc, Nat.xor_self, Nat.zero_xor] at this
  exact this.symm

theorem xor_cancel_left {a b c : Nat} (h : a ^^^ b = a ^^^ c) : b = c := by
  have : a ^^^ (a ^^^ b) = a ^^^ (a ^^^ c) := by rw [h]
  simpa [← Nat.xor_assoc] using this

/-- the `gen[i]` contribution selected by bit `i` of `b` -/
def sel (b i k : Nat) : Nat := if (b >>> i) &&& 1 = 1 then k else 0

theorem sel_xor (a b i k : Nat) : sel (a ^^^ b) i k = sel a i k ^^^ sel b i k := by
  unfold sel
  rw [Nat.shiftRight_xor_distrib]
  simp only [Nat.and_one_is_mod]
  rw [Nat.xor_mod_two_pow (n := 1)]
  rcases Nat.mod_two_eq_zero_or_one (a >>> i) with h1 | h1 <;>
    rcases Nat.mod_two_eq_zero_or_one (b >>> i) with h2 | h2 <;>
    simp [h1, h2]

/-- the linear part of the state update -/
def lin (c : Nat) : Nat :=
  ((c &&& 0x1ffffff) <<< 5) ^^^ sel (c >>> 25) 0 0x3b6a57b2 ^^^ sel (c >>> 25) 1 0x26508e6d ^^^
    sel (c >>> 25) 2 0x1ea119fa ^^^ sel (c >>> 25) 3 0x3d4233dd ^^^ sel (c >>> 25) 4 0x2a1462b3

theorem xor_ite (c k : Nat) (p : Prop) [Decidable p] : (if p then c ^^^ k else c) = c ^^^ (if p then k else 0) := by
  split <;> simp

theorem polymodStep_eq (c v : Nat) : polymodStep c v = lin c ^^^ v := by
  unfold polymodStep lin sel
  simp only [xor_ite]
  ac_rfl

theorem lin_xor (a b : Nat) : lin (a ^^^ b) = lin a ^^^ lin b := by
  unfold lin
  rw [Nat.shiftRight_xor_distrib, Nat.and_xor_distrib_right, Nat.shiftLeft_xor_distrib]
  simp only [sel_xor]
  ac_rfl

theorem lin_zero : lin 0 = 0 := by decide

/-- **xor-linearity of the checksum state update** -/
theorem polymodStep_xor (a b v w : Nat) :
    polymodStep (a ^^^ b) (v ^^^ w) = polymodStep a v ^^^ polymodStep b w := by
  simp only [polymodStep_eq, lin_xor]
  ac_rfl

/-- pointwise xor of two value lists of the same length -/
def xorL : List Nat → List Nat → List Nat
  | x :: xs, y :: ys => (x ^^^ y) :: xorL xs ys
  | _, _ => []

theorem polymodFrom_xor : ∀ (vs ws : List Nat) (a b : Nat), vs.length = ws.length →
    polymodFrom (a ^^^ b) (xorL vs ws) = polymodFrom a vs ^^^ polymodFrom b ws
  | [], [], a, b, _ => rfl
  | [], _ :: _, _, _, h => by simp at h
  | _ :: _, [], _, _, h => by simp at h
  | v :: vs, w :: ws, a, b, h => by
    simp only [xorL, polymodFrom, List.foldl_cons]
    rw [polymodStep_xor]
    exact polymodFrom_xor vs ws _ _ (by simpa using h)

theorem xorL_zeros (vs : List Nat) : xorL vs (List.replicate vs.length 0) = vs := by
  induction vs with
  | nil => rfl
  | cons v vs ih => simp [xorL, List.replicate_succ, ih]

/-- changing the state by `d` changes the result by the image of `d` under the zero word -/
theorem polymodFrom_xor_state (vs : List Nat) (a d : Nat) :
    polymodFrom (a ^^^ d) vs = polymodFrom a vs ^^^ polymodFrom d (List.replicate vs.length 0) := by
  have := polymodFrom_xor vs (List.replicate vs.length 0) a d (by simp)
  rwa [xorL_zeros] at this

/-! ### bounds and trivial kernel -/

theorem sel_lt (b i k : Nat) (hk : k < 2 ^ 30) : sel b i k < 2 ^ 30 := by
  unfold sel; split
  · exact hk
  · exact Nat.two_pow_pos 30

theorem lin_lt (c : Nat) : lin c < 2 ^ 30 := by
  unfold lin
  have h0 : (c &&& 0x1ffffff) <<< 5 < 2 ^ 30 := by
    have : c &&& 0x1ffffff ≤ 0x1ffffff := Nat.and_le_right
    rw [Nat.shiftLeft_eq]; omega
  refine Nat.xor_lt_two_pow (Nat.xor_lt_two_pow (Nat.xor_lt_two_pow (Nat.xor_lt_two_pow
    (Nat.xor_lt_two_pow h0 ?_) ?_) ?_) ?_) ?_ <;> exact sel_lt _ _ _ (by decide)

theorem polymodStep_lt {c v : Nat} (hv : v < 2 ^ 30) : polymodStep c v < 2 ^ 30 := by
  rw [polymodStep_eq]; exact Nat.xor_lt_two_pow (lin_lt c) hv

/-- the five selected generator words, as a function of the top five bits -/
def gsel (b : Nat) : Nat :=
  sel b 0 0x3b6a57b2 ^^^ sel b 1 0x26508e6d ^^^ sel b 2 0x1ea119fa ^^^ sel b 3 0x3d4233dd ^^^ sel b 4 0x2a1462b3

theorem lin_eq (c : Nat) : lin c = ((c % 2 ^ 25) * 32) ^^^ gsel (c / 2 ^ 25) := by
  unfold lin gsel
  have : (0x1ffffff : Nat) = 2 ^ 25 - 1 := by decide
  rw [this, Nat.and_two_pow_sub_one_eq_mod, Nat.shiftLeft_eq, Nat.shiftRight_eq_div_pow]
  simp only [Nat.xor_assoc]

/-- finite table: a generator combination whose low five bits vanish is the empty one -/
theorem gsel_table : ∀ b, b < 32 → gsel b % 32 = 0 → b = 0 := by decide

/-- **`lin` has trivial kernel on 30-bit states** (the generator polynomial has a non-zero
    constant term) -/
theorem lin_eq_zero {c : Nat} (hc : c < 2 ^ 30) (h : lin c = 0) : c = 0 := by
  rw [lin_eq] at h
  have heq := xor_eq_zero h
  have hb : c / 2 ^ 25 < 32 := by omega
  have hb0 : c / 2 ^ 25 = 0 := gsel_table _ hb (by rw [← heq]; omega)
  rw [hb0] at heq
  have : gsel 0 = 0 := by decide
  rw [this] at heq
  omega

theorem polymodFrom_zeros_ne_zero : ∀ (k : Nat) (d : Nat), d < 2 ^ 30 → d ≠ 0 →
    polymodFrom d (List.replicate k 0) ≠ 0 ∧ polymodFrom d (List.replicate k 0) < 2 ^ 30
  | 0, d, hd, hne => ⟨by simpa [polymodFrom] using hne, by simpa [polymodFrom] using hd⟩
  | k + 1, d, hd, hne => by
    simp only [List.replicate_succ, polymodFrom, List.foldl_cons]
    have h1 : polymodStep d 0 < 2 ^ 30 := polymodStep_lt (by decide)
    have h2 : polymodStep d 0 ≠ 0 := by
      rw [polymodStep_eq, Nat.xor_zero]
      exact fun h => hne (lin_eq_zero hd h)
    exact polymodFrom_zeros_ne_zero k _ h1 h2

theorem polymodFrom_lt : ∀ (vs : List Nat) (c : Nat), c < 2 ^ 30 → (∀ v ∈ vs, v < 2 ^ 30) →
    polymodFrom c vs < 2 ^ 30
  | [], c, hc, _ => by simpa [polymodFrom] using hc
  | v :: vs, c, _, hv => by
    simp only [polymodFrom, List.foldl_cons]
    exact polymodFrom_lt vs _ (polymodStep_lt (hv v (by simp))) (fun w hw => hv w (by simp [hw]))

theorem polymodFrom_append (c : Nat) (xs ys : List Nat) :
    polymodFrom c (xs ++ ys) = polymodFrom (polymodFrom c xs) ys := by
  simp [polymodFrom, List.foldl_append]

/-- **Single symbol error.** Replacing one value `x` by a different `x'` (both 30-bit, in
    particular 5-bit symbols) anywhere in a value sequence changes the checksum state. -/
theorem polymod_single_error (pre post : List Nat) (x x' : Nat) (hx : x < 2 ^ 30) (hx' : x' < 2 ^ 30)
    (hne : x ≠ x') : polymod (pre ++ x :: post) ≠ polymod (pre ++ x' :: post) := by
  unfold polymod
  rw [polymodFrom_append, polymodFrom_append]
  simp only [polymodFrom, List.foldl_cons]
  generalize List.foldl polymodStep 1 pre = s
  have e : polymodStep s x' = polymodStep s x ^^^ (x ^^^ x') := by
    simp only [polymodStep_eq]
    rw [Nat.xor_assoc, ← Nat.xor_assoc x, Nat.xor_self, Nat.zero_xor]
  have hd : x ^^^ x' < 2 ^ 30 := Nat.xor_lt_two_pow hx hx'
  have hd0 : x ^^^ x' ≠ 0 := fun h => hne (xor_eq_zero h)
  have key := polymodFrom_xor_state post (polymodStep s x) (x ^^^ x')
  unfold polymodFrom at key
  rw [e, key]
  intro h
  have h0 : List.foldl polymodStep (x ^^^ x') (List.replicate post.length 0) = 0 := by
    have : List.foldl polymodStep (polymodStep s x) post ^^^ 0 =
        List.foldl polymodStep (polymodStep s x) post ^^^
          List.foldl polymodStep (x ^^^ x') (List.replicate post.length 0) := by
      rw [Nat.xor_zero]; exact h
    exact (xor_cancel_left this).symm
  exact (polymodFrom_zeros_ne_zero post.length _ hd hd0).1 h0

/-! ### the generated checksum verifies -/

theorem mul32_xor_eq_add (a v : Nat) (hv : v < 32) : a * 32 ^^^ v = a * 32 + v := by
  have h1 : (a * 32 ^^^ v) % 2 ^ 5 = v := by
    rw [Nat.xor_mod_two_pow]
    have : a * 32 % 2 ^ 5 = 0 := by omega
    have h2 : v % 2 ^ 5 = v := by omega
    rw [this, h2, Nat.zero_xor]
  have h2 : (a * 32 ^^^ v) / 2 ^ 5 = a := by
    rw [Nat.xor_div_two_pow]
    have : a * 32 / 2 ^ 5 = a := by omega
    have h2 : v / 2 ^ 5 = 0 := by omega
    rw [this, h2, Nat.xor_zero]
  omega

theorem polymodStep_small {c v : Nat} (hc : c < 2 ^ 25) (hv : v < 32) : polymodStep c v = c * 32 + v := by
  rw [polymodStep_eq, lin_eq]
  have h1 : c / 2 ^ 25 = 0 := by omega
  have h2 : c % 2 ^ 25 = c := by omega
  have : gsel 0 = 0 := by decide
  rw [h1, h2, this, Nat.xor_zero]
  exact mul32_xor_eq_add c v hv

theorem polymodFrom_zero_six (d0 d1 d2 d3 d4 d5 : Nat) (h0 : d0 < 32) (h1 : d1 < 32) (h2 : d2 < 32)
    (h3 : d3 < 32) (h4 : d4 < 32) (h5 : d5 < 32) :
    polymodFrom 0 [d0, d1, d2, d3, d4, d5] = ((((d0 * 32 + d1) * 32 + d2) * 32 + d3) * 32 + d4) * 32 + d5 := by
  simp only [polymodFrom, List.foldl]
  rw [polymodStep_small (c := 0) (v := d0) (by decide) h0]
  rw [polymodStep_small (c := 0 * 32 + d0) (v := d1) (by omega) h1]
  rw [polymodStep_small (c := (0 * 32 + d0) * 32 + d1) (v := d2) (by omega) h2]
  rw [polymodStep_small (c := ((0 * 32 + d0) * 32 + d1) * 32 + d2) (v := d3) (by omega) h3]
  rw [polymodStep_small (c := (((0 * 32 + d0) * 32 + d1) * 32 + d2) * 32 + d3) (v := d4) (by omega) h4]
  rw [polymodStep_small (c := ((((0 * 32 + d0) * 32 + d1) * 32 + d2) * 32 + d3) * 32 + d4) (v := d5) (by omega) h5]
  omega

/-- the six 5-bit digits of a 30-bit number, fed from state 0, reproduce the number -/
theorem polymodFrom_zero_digits (pm : Nat) (hpm : pm < 2 ^ 30) :
    polymodFrom 0 ([0, 1, 2, 3, 4, 5].map (fun i => (pm >>> (5 * (5 - i))) &&& 31)) = pm := by
  simp only [List.map]
  have e31 : (31 : Nat) = 2 ^ 5 - 1 := by decide
  simp only [e31, Nat.and_two_pow_sub_one_eq_mod, Nat.shiftRight_eq_div_pow]
  rw [polymodFrom_zero_six _ _ _ _ _ _ (by omega) (by omega) (by omega) (by omega) (by omega) (by omega)]
  omega

theorem checksum_lt (hrp data : Bytes) : ∀ b ∈ checksum hrp data, b < 32 := by
  intro b hb
  unfold checksum at hb
  simp only [List.mem_map] at hb
  obtain ⟨i, _, rfl⟩ := hb
  have e31 : (31 : Nat) = 2 ^ 5 - 1 := by decide
  rw [e31, Nat.and_two_pow_sub_one_eq_mod]
  omega

theorem checksum_length (hrp data : Bytes) : (checksum hrp data).length = 6 := by
  simp [checksum]

/-- **The generated checksum verifies**: `polymod(expand(hrp) ++ data ++ checksum) = 1`. -/
theorem polymod_checksum (hrp data : Bytes) (hv : ∀ v ∈ hrpExpand hrp ++ data, v < 2 ^ 30) :
    polymod (hrpExpand hrp ++ data ++ checksum hrp data) = 1 := by
  unfold checksum
  generalize hA : hrpExpand hrp ++ data = A at hv ⊢
  unfold polymod
  rw [polymodFrom_append, polymodFrom_append]
  generalize hs : polymodFrom 1 A = s
  have hs30 : s < 2 ^ 30 := by rw [← hs]; exact polymodFrom_lt A 1 (by decide) hv
  have hP : polymodFrom s [0, 0, 0, 0, 0, 0] < 2 ^ 30 :=
    polymodFrom_lt _ s hs30 (by intro v hv; simp at hv; omega)
  generalize hPdef : polymodFrom s [0, 0, 0, 0, 0, 0] = P at hP ⊢
  have hpm : P ^^^ 1 < 2 ^ 30 := Nat.xor_lt_two_pow hP (by decide)
  generalize hck : ([0, 1, 2, 3, 4, 5].map (fun i => ((P ^^^ 1) >>> (5 * (5 - i))) &&& 31)) = cks
  have hlen : cks.length = 6 := by rw [← hck]; rfl
  have key := polymodFrom_xor [0, 0, 0, 0, 0, 0] cks s 0 (by rw [hlen]; rfl)
  have hx : xorL [0, 0, 0, 0, 0, 0] cks = cks := by
    match cks, hlen with
    | [a, b, c, d, e, f], _ => simp [xorL]
  rw [hx, Nat.xor_zero, hPdef] at key
  rw [key, ← hck, polymodFrom_zero_digits _ hpm]
  rw [← Nat.xor_assoc, Nat.xor_self, Nat.zero_xor]

/-! ### character tables -/

theorem charset_table : ∀ b, b < 32 →
    charsetIndex (charset.getD b 0) = some b ∧ 33 ≤ charset.getD b 0 ∧ charset.getD b 0 ≤ 126 ∧
    toLower (charset.getD b 0) = charset.getD b 0 ∧ charset.getD b 0 ≠ 49 := by decide

theorem toChars_ok : ∀ (l : Bytes), (∀ b ∈ l, b < 32) → toChars l = .ok (l.map (fun b => charset.getD b 0))
  | [], _ => rfl
  | b :: l, h => by
    have hb : ¬ b ≥ 32 := by have := h b (by simp); omega
    simp only [toChars, hb, if_false, toChars_ok l (fun x hx => h x (by simp [hx])), List.map_cons]

theorem toBytes_chars : ∀ (l : Bytes), (∀ b ∈ l, b < 32) → toBytes (l.map (fun b => charset.getD b 0)) = .ok l
  | [], _ => rfl
  | b :: l, h => by
    have hb := (charset_table b (h b (by simp))).1
    simp only [List.map_cons, toBytes, hb, toBytes_chars l (fun x hx => h x (by simp [hx]))]

theorem lastIndexOf_none : ∀ (l : Bytes) (c : Nat), c ∉ l → lastIndexOf c l = none
  | [], _, _ => rfl
  | x :: l, c, h => by
    simp only [List.mem_cons, not_or] at h
    have hx : ¬ x = c := fun e => h.1 e.symm
    simp [lastIndexOf, lastIndexOf_none l c h.2, hx]

theorem lastIndexOf_append (pre post : Bytes) (c : Nat) (h : c ∉ post) :
    lastIndexOf c (pre ++ c :: post) = some pre.length := by
  induction pre with
  | nil => simp [lastIndexOf, lastIndexOf_none post c h]
  | cons x pre ih => simp [lastIndexOf, ih]

end BytomModel.Lemmas.Bech32
