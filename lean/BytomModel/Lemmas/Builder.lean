/-
Helper lemmas for C27: what one successful action adds to the template.
-/
import BytomModel.Model.Builder
import BytomModel.Lemmas.Keeper
import Mathlib.Data.List.Basic
import Mathlib.Tactic.Linarith

set_option linter.unusedSimpArgs false
set_option linter.unusedVariables false

namespace BytomModel.Lemmas.Builder
open BytomModel.Model.Keeper BytomModel.Model.Builder BytomModel.Lemmas.Keeper

/-- requested spend total of an asset -/
def spendReq (asset : Nat) : List Action → Nat
  | [] => 0
  | .spend _ s m _ :: rest => (if s = asset then m else 0) + spendReq asset rest
  | _ :: rest => spendReq asset rest

/-- requested receive/retire total of an asset -/
def recvReq (asset : Nat) : List Action → Nat
  | [] => 0
  | .control s m _ :: rest => (if s = asset then m else 0) + recvReq asset rest
  | .retire s m :: rest => (if s = asset then m else 0) + recvReq asset rest
  | _ :: rest => recvReq asset rest

/-- the outputs the request asks for, in order -/
def reqOuts : List Action → List TOut
  | [] => []
  | .control s m p :: rest => ⟨.recv, s, m, p⟩ :: reqOuts rest
  | .retire s m :: rest => ⟨.retire, s, m, 0⟩ :: reqOuts rest
  | _ :: rest => reqOuts rest

theorem spendReq_append (asset : Nat) (a b : List Action) : spendReq asset (a ++ b) = spendReq asset a + spendReq asset b := by
  induction a with
  | nil => simp [spendReq]
  | cons x r ih => cases x <;> simp [spendReq, ih] <;> omega

theorem recvReq_append (asset : Nat) (a b : List Action) : recvReq asset (a ++ b) = recvReq asset a + recvReq asset b := by
  induction a with
  | nil => simp [recvReq]
  | cons x r ih => cases x <;> simp [recvReq, ih] <;> omega

theorem reqOuts_append (a b : List Action) : reqOuts (a ++ b) = reqOuts a ++ reqOuts b := by
  induction a with
  | nil => simp [reqOuts]
  | cons x r ih => cases x <;> simp [reqOuts, ih]

theorem ofAssetIn_append (asset : Nat) (a b : List Utxo) : ofAssetIn asset (a ++ b) = ofAssetIn asset a + ofAssetIn asset b := by
  simp [ofAssetIn, List.filter_append, amounts_append]

theorem ofAssetOut_append (asset : Nat) (a b : List TOut) : ofAssetOut asset (a ++ b) = ofAssetOut asset a + ofAssetOut asset b := by
  simp [ofAssetOut, List.filter_append, List.sum_append]

theorem ofAssetOut_single (as : Nat) (o : TOut) : ofAssetOut as [o] = if o.asset = as then o.amount else 0 := by
  by_cases h : o.asset = as <;> simp [ofAssetOut, List.filter_cons, h]

theorem ofAssetIn_uniform (asset a : Nat) (l : List Utxo) (h : ∀ u ∈ l, u.asset = asset) :
    ofAssetIn a l = if a = asset then amounts l else 0 := by
  unfold ofAssetIn
  by_cases ha : a = asset
  · subst ha
    have : l.filter (fun u => u.asset == a) = l := by
      rw [List.filter_eq_self]; intro u hu; simp [h u hu]
    simp [this]
  · have : l.filter (fun u => u.asset == a) = [] := by
      rw [List.filter_eq_nil_iff]; intro u hu; simp [h u hu]; omega
    simp [this, ha, amounts]

/-- what the builder holds after the actions `done` all succeeded -/
structure BInv (done : List Action) (b : Builder) : Prop where
  bal : ∀ asset, ofAssetIn asset b.ins + recvReq asset done = ofAssetOut asset b.outs + spendReq asset done
  recips : b.outs.filter (fun o => o.kind != .change) = reqOuts done
  change : ∀ o ∈ b.outs, o.kind = .change →
    ∃ acct amount useUnc, Action.spend acct o.asset amount useUnc ∈ done ∧
      ∃ u ∈ b.ins, u.account = acct ∧ u.prog = o.prog ∧ u.asset = o.asset
  insrc : ∀ u ∈ b.ins, ∃ acct amount useUnc, Action.spend acct u.asset amount useUnc ∈ done ∧ u.account = acct

theorem binv_empty : BInv [] ⟨[], [], []⟩ := by
  constructor <;> simp [ofAssetIn, ofAssetOut, recvReq, spendReq, reqOuts, amounts]

theorem buildAction_inv (sortFn : List Utxo → List Utxo) (hperm : ∀ l, (sortFn l).Perm l) (exp : Nat)
    (s s' : Keeper × Builder) (a : Action) (done : List Action)
    (h : buildAction sortFn exp s a = (s', none)) (hb : BInv done s.2) : BInv (done ++ [a]) s'.2 := by
  cases a with
  | control asset amount prog =>
    simp only [buildAction] at h
    split_ifs at h with c1 c2
    · simp at h
    · simp at h
    simp only [Prod.mk.injEq, and_true] at h
    subst h
    constructor
    · intro as
      have := hb.bal as
      simp only [recvReq_append, spendReq_append, ofAssetOut_append, recvReq, spendReq]
      rw [ofAssetOut_single]
      by_cases e : asset = as <;> simp [e] <;> omega
    · simp [List.filter_append, hb.recips, reqOuts_append, reqOuts]
    · intro o ho hk
      simp only [List.mem_append, List.mem_singleton] at ho
      rcases ho with ho | rfl
      · obtain ⟨ac, am, uu, hm, u, hu, h1⟩ := hb.change o ho hk
        exact ⟨ac, am, uu, List.mem_append_left _ hm, u, hu, h1⟩
      · cases hk
    · intro u hu
      obtain ⟨ac, am, uu, hm, h1⟩ := hb.insrc u hu
      exact ⟨ac, am, uu, List.mem_append_left _ hm, h1⟩
  | retire asset amount =>
    simp only [buildAction] at h
    split_ifs at h with c1 c2
    · simp at h
    · simp at h
    simp only [Prod.mk.injEq, and_true] at h
    subst h
    constructor
    · intro as
      have := hb.bal as
      simp only [recvReq_append, spendReq_append, ofAssetOut_append, recvReq, spendReq]
      rw [ofAssetOut_single]
      by_cases e : asset = as <;> simp [e] <;> omega
    · simp [List.filter_append, hb.recips, reqOuts_append, reqOuts]
    · intro o ho hk
      simp only [List.mem_append, List.mem_singleton] at ho
      rcases ho with ho | rfl
      · obtain ⟨ac, am, uu, hm, u, hu, h1⟩ := hb.change o ho hk
        exact ⟨ac, am, uu, List.mem_append_left _ hm, u, hu, h1⟩
      · cases hk
    · intro u hu
      obtain ⟨ac, am, uu, hm, h1⟩ := hb.insrc u hu
      exact ⟨ac, am, uu, List.mem_append_left _ hm, h1⟩
  | spend acct asset amount useUnc =>
    simp only [buildAction] at h
    by_cases h0 : (amount == 0) = true
    · simp [h0] at h
    · simp only [h0, Bool.false_eq_true, if_false] at h
      rcases reserveWith_cases sortFn s.1 acct asset amount useUnc 0 exp with ⟨r, hr, hid, hexp, hsub, hge, hch⟩ | ⟨hk, hne⟩
      · rw [hr] at h
        simp only at h
        -- facts about the reserved outputs
        have hall : ∀ u ∈ r.utxos, u.asset = asset ∧ u.account = acct := by
          intro u hu
          have hm := hsub.subset hu
          simp only [List.mem_filter] at hm
          have hc := (hperm _).mem_iff.mp hm.1
          simp only [findUtxos, matching, List.mem_filter, matchesReq, Bool.and_eq_true, beq_iff_eq] at hc
          exact ⟨hc.1.2.1.2, hc.1.2.1.1⟩
        by_cases hbad : (r.utxos.takeWhile (fun u => decide (u.amount ≤ maxInt64))).length < r.utxos.length
        · simp [hbad] at h
        · simp only [hbad, if_false] at h
          by_cases hchg : r.change > 0
          · -- change > 0
            simp only [hchg, if_true] at h
            cases hu0 : r.utxos with
            | nil => rw [hu0] at h; simp at h
            | cons u0 tl =>
              rw [hu0] at h
              simp only at h
              by_cases hmax : r.change > maxInt64
              · simp [hmax] at h
              · simp only [hmax, if_false, Prod.mk.injEq, and_true] at h
                subst h
                have hallc : ∀ u ∈ u0 :: tl, u.asset = asset ∧ u.account = acct := by rw [← hu0]; exact hall
                have hamt : amounts (u0 :: tl) = amount + r.change := by rw [← hu0, hch]; omega
                constructor
                · intro as
                  have := hb.bal as
                  simp only [recvReq_append, spendReq_append, ofAssetOut_append, ofAssetIn_append, recvReq, spendReq]
                  rw [ofAssetIn_uniform asset as (u0 :: tl) (fun u hu => (hallc u hu).1)]
                  rw [ofAssetOut_single]
                  by_cases e : as = asset
                  · subst e; simp [hamt]; omega
                  · have e' : ¬ asset = as := fun x => e x.symm
                    simp [e, e']; omega
                · simp [List.filter_append, hb.recips, reqOuts_append, reqOuts]
                · intro o ho hk
                  simp only [List.mem_append, List.mem_singleton] at ho
                  rcases ho with ho | rfl
                  · obtain ⟨ac, am, uu, hm, u, hu, h1⟩ := hb.change o ho hk
                    exact ⟨ac, am, uu, List.mem_append_left _ hm, u, List.mem_append_left _ hu, h1⟩
                  · refine ⟨acct, amount, useUnc, by simp, u0, by simp, (hallc u0 (by simp)).2, rfl, (hallc u0 (by simp)).1⟩
                · intro u hu
                  simp only [List.mem_append] at hu
                  rcases hu with hu | hu
                  · obtain ⟨ac, am, uu, hm, h1⟩ := hb.insrc u hu
                    exact ⟨ac, am, uu, List.mem_append_left _ hm, h1⟩
                  · have := hallc u hu
                    exact ⟨acct, amount, useUnc, by simp [this.1], this.2⟩
          · -- no change
            simp only [hchg, if_false, Prod.mk.injEq, and_true] at h
            subst h
            have hamt : amounts r.utxos = amount := by omega
            constructor
            · intro as
              have := hb.bal as
              simp only [recvReq_append, spendReq_append, ofAssetIn_append, recvReq, spendReq]
              rw [ofAssetIn_uniform asset as r.utxos (fun u hu => (hall u hu).1)]
              by_cases e : as = asset
              · subst e; simp [hamt]; omega
              · have e' : ¬ asset = as := fun x => e x.symm
                simp [e, e']; omega
            · simp [hb.recips, reqOuts_append, reqOuts]
            · intro o ho hk
              obtain ⟨ac, am, uu, hm, u, hu, h1⟩ := hb.change o ho hk
              exact ⟨ac, am, uu, List.mem_append_left _ hm, u, List.mem_append_left _ hu, h1⟩
            · intro u hu
              simp only [List.mem_append] at hu
              rcases hu with hu | hu
              · obtain ⟨ac, am, uu, hm, h1⟩ := hb.insrc u hu
                exact ⟨ac, am, uu, List.mem_append_left _ hm, h1⟩
              · have := hall u hu
                exact ⟨acct, amount, useUnc, by simp [this.1], this.2⟩
      · -- Reserve did not succeed: the action reports an error
        exfalso
        cases hres : reserveWith sortFn s.1 acct asset amount useUnc 0 exp with
        | mk o k' =>
          rw [hres] at h
          cases o with
          | ok r => exact hne r (by rw [hres])
          | err e => simp at h
          | panic => simp at h

theorem runActions_inv (sortFn : List Utxo → List Utxo) (hperm : ∀ l, (sortFn l).Perm l) (exp : Nat) :
    ∀ (actions : List Action) (i : Nat) (s s' : Keeper × Builder) (done : List Action),
    runActions sortFn exp actions i s = (s', []) → BInv done s.2 → BInv (done ++ actions) s'.2 := by
  intro actions
  induction actions with
  | nil =>
    intro i s s' done h hb
    simp only [runActions, Prod.mk.injEq, and_true] at h
    subst h; simpa using hb
  | cons a rest ih =>
    intro i s s' done h hb
    simp only [runActions] at h
    cases h1 : buildAction sortFn exp s a with
    | mk s1 e =>
      rw [h1] at h
      cases h2 : runActions sortFn exp rest (i + 1) s1 with
      | mk s2 es =>
        rw [h2] at h
        simp only [Prod.mk.injEq] at h
        cases e with
        | some e => simp at h
        | none =>
          simp only at h
          obtain ⟨rfl, rfl⟩ := h
          have hb1 := buildAction_inv sortFn hperm exp s s1 a done h1 hb
          have := ih (i + 1) s1 s2 (done ++ [a]) h2 hb1
          simpa using this


/-! ### no output is spent twice (when no output is listed twice) -/

/-- inputs so far are pairwise distinct and each is marked reserved in the keeper -/
def DInv (s : Keeper × Builder) : Prop :=
  (s.2.ins.map (·.id)).Nodup ∧ ∀ u ∈ s.2.ins, (mLookup u.id s.1.reserved).isSome = true

def ListedNodup (k : Keeper) : Prop := ∀ useUnc, ((listed k useUnc).map (·.id)).Nodup

theorem buildAction_dinv (sortFn : List Utxo → List Utxo) (hperm : ∀ l, (sortFn l).Perm l) (exp : Nat)
    (s s' : Keeper × Builder) (a : Action)
    (h : buildAction sortFn exp s a = (s', none)) (hd : DInv s) (hl : ListedNodup s.1) :
    DInv s' ∧ ListedNodup s'.1 := by
  cases a with
  | control asset amount prog =>
    simp only [buildAction] at h
    split_ifs at h with c1 c2
    · simp at h
    · simp at h
    simp only [Prod.mk.injEq, and_true] at h
    subst h; exact ⟨hd, hl⟩
  | retire asset amount =>
    simp only [buildAction] at h
    split_ifs at h with c1 c2
    · simp at h
    · simp at h
    simp only [Prod.mk.injEq, and_true] at h
    subst h; exact ⟨hd, hl⟩
  | spend acct asset amount useUnc =>
    simp only [buildAction] at h
    by_cases h0 : (amount == 0) = true
    · simp [h0] at h
    · simp only [h0, Bool.false_eq_true, if_false] at h
      rcases reserveWith_cases sortFn s.1 acct asset amount useUnc 0 exp with ⟨r, hr, hid, hexp, hsub, hge, hch⟩ | ⟨hk, hne⟩
      · rw [hr] at h
        simp only at h
        -- reserved outputs: unreserved before, pairwise distinct
        have hfree : ∀ u ∈ r.utxos, mLookup u.id s.1.reserved = none := by
          intro u hu
          have hm := hsub.subset hu
          simp only [List.mem_filter, isReserved, Bool.not_eq_true', Option.isSome_eq_false_iff,
            Option.isNone_iff_eq_none] at hm
          exact hm.2
        have hnd : (r.utxos.map (·.id)).Nodup := by
          have s1 : (r.utxos.map (·.id)).Sublist ((sortFn (findUtxos s.1 acct asset useUnc 0).1).map (·.id)) :=
            (hsub.trans List.filter_sublist).map _
          have p1 := ((hperm (findUtxos s.1 acct asset useUnc 0).1).map (·.id))
          have s2 : ((findUtxos s.1 acct asset useUnc 0).1.map (·.id)).Sublist ((listed s.1 useUnc).map (·.id)) := by
            simp only [findUtxos, matching]
            exact (List.filter_sublist.trans List.filter_sublist).map _
          exact s1.nodup (p1.nodup_iff.mpr (s2.nodup (hl useUnc)))
        have hnew : DInv (afterReserve s.1 r, { s.2 with ins := s.2.ins ++ r.utxos, rids := s.2.rids ++ [r.id] }) := by
          constructor
          · simp only [List.map_append]
            refine List.Nodup.append hd.1 hnd ?_
            intro x hx1 hx2
            obtain ⟨u1, hu1, rfl⟩ := List.mem_map.mp hx1
            obtain ⟨u2, hu2, he⟩ := List.mem_map.mp hx2
            have a1 := hd.2 u1 hu1
            have a2 := hfree u2 hu2
            have he' : u2.id = u1.id := he
            rw [he'] at a2
            rw [a2] at a1
            simp at a1
          · intro u hu
            simp only [List.mem_append] at hu
            simp only [afterReserve]
            rw [mLookup_reserveAll]
            by_cases hm : u.id ∈ r.utxos.map (·.id)
            · simp [hm]
            · simp only [hm, if_false]
              rcases hu with hu | hu
              · exact hd.2 u hu
              · exact absurd (List.mem_map_of_mem hu) hm
        have hl' : ListedNodup (afterReserve s.1 r) := hl
        by_cases hbad : (r.utxos.takeWhile (fun u => decide (u.amount ≤ maxInt64))).length < r.utxos.length
        · simp [hbad] at h
        · simp only [hbad, if_false] at h
          by_cases hchg : r.change > 0
          · simp only [hchg, if_true] at h
            cases hu0 : r.utxos with
            | nil => rw [hu0] at h; simp at h
            | cons u0 tl =>
              rw [hu0] at h
              simp only at h
              by_cases hmax : r.change > maxInt64
              · simp [hmax] at h
              · simp only [hmax, if_false, Prod.mk.injEq, and_true] at h
                subst h
                rw [hu0] at hnew
                exact ⟨⟨hnew.1, hnew.2⟩, hl'⟩
          · simp only [hchg, if_false, Prod.mk.injEq, and_true] at h
            subst h
            exact ⟨⟨hnew.1, hnew.2⟩, hl'⟩
      · exfalso
        cases hres : reserveWith sortFn s.1 acct asset amount useUnc 0 exp with
        | mk o k' =>
          rw [hres] at h
          cases o with
          | ok r => exact hne r (by rw [hres])
          | err e => simp at h
          | panic => simp at h

theorem runActions_dinv (sortFn : List Utxo → List Utxo) (hperm : ∀ l, (sortFn l).Perm l) (exp : Nat) :
    ∀ (actions : List Action) (i : Nat) (s s' : Keeper × Builder),
    runActions sortFn exp actions i s = (s', []) → DInv s → ListedNodup s.1 → DInv s' := by
  intro actions
  induction actions with
  | nil =>
    intro i s s' h hd _
    simp only [runActions, Prod.mk.injEq, and_true] at h
    subst h; exact hd
  | cons a rest ih =>
    intro i s s' h hd hl
    simp only [runActions] at h
    cases h1 : buildAction sortFn exp s a with
    | mk s1 e =>
      rw [h1] at h
      cases h2 : runActions sortFn exp rest (i + 1) s1 with
      | mk s2 es =>
        rw [h2] at h
        simp only [Prod.mk.injEq] at h
        cases e with
        | some e => simp at h
        | none =>
          simp only at h
          obtain ⟨rfl, rfl⟩ := h
          obtain ⟨hd1, hl1⟩ := buildAction_dinv sortFn hperm exp s s1 a h1 hd hl
          exact ih (i + 1) s1 s2 h2 hd1 hl1

end BytomModel.Lemmas.Builder
