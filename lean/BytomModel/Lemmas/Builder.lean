/-
Helper lemmas for C27: what one successful action adds to the template.
-/
import BytomModel.Model.Builder
import BytomModel.Lemmas.Keeper
import Mathlib.Data.List.Basic
import Mathlib.Tactic.Linarith

set_option linter.unusedSimpArgs false
set_option linter.unusedVariables false

namespace BytomModel.Lemmas.Builder
open BytomModel.Model.Keeper BytomModel.Model.Builder BytomModel.Lemmas.Keeper

/-- requested spend total of an asset -/
def spendReq (asset : Nat) : List Action → Nat
  | [] => 0
  | .spend _ s m _ :: rest => (if s = asset then m else 0) + spendReq asset rest
  | _ :: rest => spendReq asset rest

/-- requested receive/retire total of an asset -/
def recvReq (asset : Nat) : List Action → Nat
  | [] => 0
  | .control s m _ :: rest => (if s = asset then m else 0) + recvReq asset rest
  | .retire s m :: rest => (if s = asset then m else 0) + recvReq asset rest
  | _ :: rest => recvReq asset rest

/-- the outputs the request asks for, in order -/
def reqOuts : List Action → List TOut
  | [] => []
  | .control s m p :: rest => ⟨.recv, s, m, p⟩ :: reqOuts rest
  | .retire s m :: rest => ⟨.retire, s, m, 0⟩ :: reqOuts rest
  | _ :: rest => reqOuts rest

theorem spendReq_append (asset : Nat) (a b : List Action) : spendReq asset (a ++ b) = spendReq asset a + spendReq asset b := by
  induction a with
  | nil => simp [spendReq]
  | cons x r ih => cases x <;> simp [spendReq, ih] <;> omega

theorem recvReq_append (asset : Nat) (a b : List Action) : recvReq asset (a ++ b) = recvReq asset a + recvReq asset b := by
  induction a with
  | nil => simp [recvReq]
  | cons x r ih => cases x <;> simp [recvReq, ih] <;> omega

theorem reqOuts_append (a b : List Action) : reqOuts (a ++ b) = reqOuts a ++ reqOuts b := by
  induction a with
  | nil => simp [reqOuts]
  | cons x r ih => cases x <;> simp [reqOuts, ih]

theorem ofAssetIn_append (asset : Nat) (a b : List Utxo) : ofAssetIn asset (a ++ b) = ofAssetIn asset a + ofAssetIn asset b := by
  simp [ofAssetIn, List.filter_append, amounts_append]

theorem ofAssetOut_append (asset : Nat) (a b : List TOut) : ofAssetOut asset (a ++ b) = ofAssetOut asset a + ofAssetOut asset b := by
  simp [ofAssetOut, List.filter_append, List.sum_append]

theorem ofAssetOut_single (as : Nat) (o : TOut) : ofAssetOut as [o] = if o.asset = as then o.amount else 0 := by
  by_cases h : o.asset = as <;> simp [ofAssetOut, List.filter_cons, h]

theorem ofAssetIn_uniform (asset a : Nat) (l : List Utxo) (h : ∀ u ∈ l, u.asset = asset) :
    ofAssetIn a l = if a = asset then amounts l else 0 := by
  unfold ofAssetIn
  by_cases ha : a = asset
  · subst ha
    have : l.filter (fun u => u.asset == a) = l := by
      rw [List.filter_eq_self]; intro u hu; simp [h u hu]
    simp [this]
  · have : l.filter (fun u => u.asset == a) = [] := by
      rw [List.filter_eq_nil_iff]; intro u hu; simp [h u hu]; omega
    simp [this, ha, amounts]

/-- what the builder holds after the actions `done` all succeeded -/
structure BInv (done : List Action) (b : Builder) : Prop where
  bal : ∀ asset, ofAssetIn asset b.ins + recvReq asset done = ofAssetOut asset b.outs + spendReq asset done
  recips : b.outs.filter (fun o => o.kind != .change) = reqOuts done
  change : ∀ o ∈ b.outs, o.kind = .change →
    ∃ acct amount useUnc, Action.spend acct o.asset amount useUnc ∈ done ∧
      ∃ u ∈ b.ins, u.account = acct ∧ u.prog = o.prog ∧ u.asset = o.asset
  insrc : ∀ u ∈ b.ins, ∃ acct amount useUnc, Action.spend acct u.asset amount useUnc ∈ done ∧ u.account = acct
  pos : ∀ o ∈ b.outs, 0 < o.amount

theorem binv_empty : BInv [] ⟨[], [], []⟩ := by
  constructor <;> simp [ofAssetIn, ofAssetOut, recvReq, spendReq, reqOuts, amounts]

theorem buildAction_inv (sortFn : List Utxo → List Utxo) (hperm : ∀ l, (sortFn l).Perm l) (exp : Nat)
    (s s' : Keeper × Builder) (a : Action) (done : List Action)
    (h : buildAction sortFn exp s a = (s', none)) (hb : BInv done s.2) : BInv (done ++ [a]) s'.2 := by
  cases a with
  | control asset amount prog =>
    simp only [buildAction] at h
    split_ifs at h with c1 c2
    · simp at h
    · simp at h
    simp only [Prod.mk.injEq, and_true] at h
    subst h
    constructor
    · intro as
      have := hb.bal as
      simp only [recvReq_append, spendReq_append, ofAssetOut_append, recvReq, spendReq]
      rw [ofAssetOut_single]
      by_cases e : asset = as <;> simp [e] <;> omega
    · simp [List.filter_append, hb.recips, reqOuts_append, reqOuts]
    · intro o ho hk
      simp only [List.mem_append, List.mem_singleton] at ho
      rcases ho with ho | rfl
      · obtain ⟨ac, am, uu, hm, u, hu, h1⟩ := hb.change o ho hk
        exact ⟨ac, am, uu, List.mem_append_left _ hm, u, hu, h1⟩
      · cases hk
    · intro u hu
      obtain ⟨ac, am, uu, hm, h1⟩ := hb.insrc u hu
      exact ⟨ac, am, uu, List.mem_append_left _ hm, h1⟩
    · intro o ho
      simp only [List.mem_append, List.mem_singleton] at ho
      rcases ho with ho | rfl
      · exact hb.pos o ho
      · simp only [Bool.or_eq_true, beq_iff_eq, not_or] at c1; show 0 < amount; omega
  | retire asset amount =>
    simp only [buildAction] at h
    split_ifs at h with c1 c2
    · simp at h
    · simp at h
    simp only [Prod.mk.injEq, and_true] at h
    subst h
    constructor
    · intro as
      have := hb.bal as
      simp only [recvReq_append, spendReq_append, ofAssetOut_append, recvReq, spendReq]
      rw [ofAssetOut_single]
      by_cases e : asset = as <;> simp [e] <;> omega
    · simp [List.filter_append, hb.recips, reqOuts_append, reqOuts]
    · intro o ho hk
      simp only [List.mem_append, List.mem_singleton] at ho
      rcases ho with ho | rfl
      · obtain ⟨ac, am, uu, hm, u, hu, h1⟩ := hb.change o ho hk
        exact ⟨ac, am, uu, List.mem_append_left _ hm, u, hu, h1⟩
      · cases hk
    · intro u hu
      obtain ⟨ac, am, uu, hm, h1⟩ := hb.insrc u hu
      exact ⟨ac, am, uu, List.mem_append_left _ hm, h1⟩
    · intro o ho
      simp only [List.mem_append, List.mem_singleton] at ho
      rcases ho with ho | rfl
      · exact hb.pos o ho
      · simp only [beq_iff_eq] at c1; show 0 < amount; omega
  | spend acct asset amount useUnc =>
    simp only [buildAction] at h
    by_cases h0 : (amount == 0) = true
    · simp [h0] at h
    · simp only [h0, Bool.false_eq_true, if_false] at h
      rcases reserveWith_cases sortFn s.1 acct asset amount useUnc 0 exp with ⟨r, hr, hid, hexp, hsub, hge, hch⟩ | ⟨hk, hne⟩
      · rw [hr] at h
        simp only at h
        -- facts about the reserved outputs
        have hall : ∀ u ∈ r.utxos, u.asset = asset ∧ u.account = acct := by
          intro u hu
          have hm := hsub.subset hu
          simp only [List.mem_filter] at hm
          have hc := (hperm _).mem_iff.mp hm.1
          simp only [findUtxos, matching, List.mem_filter, matchesReq, Bool.and_eq_true, beq_iff_eq] at hc
          exact ⟨hc.1.2.1.2, hc.1.2.1.1⟩
        by_cases hbad : (r.utxos.takeWhile (fun u => decide (u.amount ≤ maxInt64))).length < r.utxos.length
        · simp [hbad] at h
        · simp only [hbad, if_false] at h
          by_cases hchg : r.change > 0
          · -- change > 0
            simp only [hchg, if_true] at h
            cases hu0 : r.utxos with
            | nil => rw [hu0] at h; simp at h
            | cons u0 tl =>
              rw [hu0] at h
              simp only at h
              by_cases hmax : r.change > maxInt64
              · simp [hmax] at h
              · simp only [hmax, if_false, Prod.mk.injEq, and_true] at h
                subst h
                have hallc : ∀ u ∈ u0 :: tl, u.asset = asset ∧ u.account = acct := by rw [← hu0]; exact hall
                have hamt : amounts (u0 :: tl) = amount + r.change := by rw [← hu0, hch]; omega
                constructor
                · intro as
                  have := hb.bal as
                  simp only [recvReq_append, spendReq_append, ofAssetOut_append, ofAssetIn_append, recvReq, spendReq]
                  rw [ofAssetIn_uniform asset as (u0 :: tl) (fun u hu => (hallc u hu).1)]
                  rw [ofAssetOut_single]
                  by_cases e : as = asset
                  · subst e; simp [hamt]; omega
                  · have e' : ¬ asset = as := fun x => e x.symm
                    simp [e, e']; omega
                · simp [List.filter_append, hb.recips, reqOuts_append, reqOuts]
                · intro o ho hk
                  simp only [List.mem_append, List.mem_singleton] at ho
                  rcases ho with ho | rfl
                  · obtain ⟨ac, am, uu, hm, u, hu, h1⟩ := hb.change o ho hk
                    exact ⟨ac, am, uu, List.mem_append_left _ hm, u, List.mem_append_left _ hu, h1⟩
                  · refine ⟨acct, amount, useUnc, by simp, u0, by simp, (hallc u0 (by simp)).2, rfl, (hallc u0 (by simp)).1⟩
                · intro u hu
                  simp only [List.mem_append] at hu
                  rcases hu with hu | hu
                  · obtain ⟨ac, am, uu, hm, h1⟩ := hb.insrc u hu
                    exact ⟨ac, am, uu, List.mem_append_left _ hm, h1⟩
                  · have := hallc u hu
                    exact ⟨acct, amount, useUnc, by simp [this.1], this.2⟩
                · intro o ho
                  simp only [List.mem_append, List.mem_singleton] at ho
                  rcases ho with ho | rfl
                  · exact hb.pos o ho
                  · exact hchg
          · -- no change
            simp only [hchg, if_false, Prod.mk.injEq, and_true] at h
            subst h
            have hamt : amounts r.utxos = amount := by omega
            constructor
            · intro as
              have := hb.bal as
              simp only [recvReq_append, spendReq_append, ofAssetIn_append, recvReq, spendReq]
              rw [ofAssetIn_uniform asset as r.utxos (fun u hu => (hall u hu).1)]
              by_cases e : as = asset
              · subst e; simp [hamt]; omega
              · have e' : ¬ asset = as := fun x => e x.symm
                simp [e, e']; omega
            · simp [hb.recips, reqOuts_append, reqOuts]
            · intro o ho hk
              obtain ⟨ac, am, uu, hm, u, hu, h1⟩ := hb.change o ho hk
              exact ⟨ac, am, uu, List.mem_append_left _ hm, u, List.mem_append_left _ hu, h1⟩
            · intro u hu
              simp only [List.mem_append] at hu
              rcases hu with hu | hu
              · obtain ⟨ac, am, uu, hm, h1⟩ := hb.insrc u hu
                exact ⟨ac, am, uu, List.mem_append_left _ hm, h1⟩
              · have := hall u hu
                exact ⟨acct, amount, useUnc, by simp [this.1], this.2⟩
            · intro o ho; exact hb.pos o ho
      · -- Reserve did not succeed: the action reports an error
        exfalso
        cases hres : reserveWith sortFn s.1 acct asset amount useUnc 0 exp with
        | mk o k' =>
          rw [hres] at h
          cases o with
          | ok r => exact hne r (by rw [hres])
          | err e => simp at h
          | panic => simp at h

theorem runActions_inv (sortFn : List Utxo → List Utxo) (hperm : ∀ l, (sortFn l).Perm l) (exp : Nat) :
    ∀ (actions : List Action) (i : Nat) (s s' : Keeper × Builder) (done : List Action),
    runActions sortFn exp actions i s = (s', []) → BInv done s.2 → BInv (done ++ actions) s'.2 := by
  intro actions
  induction actions with
  | nil =>
    intro i s s' done h hb
    simp only [runActions, Prod.mk.injEq, and_true] at h
    subst h; simpa using hb
  | cons a rest ih =>
    intro i s s' done h hb
    simp only [runActions] at h
    cases h1 : buildAction sortFn exp s a with
    | mk s1 e =>
      rw [h1] at h
      cases h2 : runActions sortFn exp rest (i + 1) s1 with
      | mk s2 es =>
        rw [h2] at h
        simp only [Prod.mk.injEq] at h
        cases e with
        | some e => simp at h
        | none =>
          simp only at h
          obtain ⟨rfl, rfl⟩ := h
          have hb1 := buildAction_inv sortFn hperm exp s s1 a done h1 hb
          have := ih (i + 1) s1 s2 (done ++ [a]) h2 hb1
          simpa using this


/-! ### no output is spent twice (when no output is listed twice) -/

/-- inputs so far are pairwise distinct and each is marked reserved in the keeper -/
def DInv (s : Keeper × Builder) : Prop :=
  (s.2.ins.map (·.id)).Nodup ∧ ∀ u ∈ s.2.ins, (mLookup u.id s.1.reserved).isSome = true

def ListedNodup (k : Keeper) : Prop := ∀ useUnc, ((listed k useUnc).map (·.id)).Nodup

theorem buildAction_dinv (sortFn : List Utxo → List Utxo) (hperm : ∀ l, (sortFn l).Perm l) (exp : Nat)
    (s s' : Keeper × Builder) (a : Action)
    (h : buildAction sortFn exp s a = (s', none)) (hd : DInv s) (hl : ListedNodup s.1) :
    DInv s' ∧ ListedNodup s'.1 := by
  cases a with
  | control asset amount prog =>
    simp only [buildAction] at h
    split_ifs at h with c1 c2
    · simp at h
    · simp at h
    simp only [Prod.mk.injEq, and_true] at h
    subst h; exact ⟨hd, hl⟩
  | retire asset amount =>
    simp only [buildAction] at h
    split_ifs at h with c1 c2
    · simp at h
    · simp at h
    simp only [Prod.mk.injEq, and_true] at h
    subst h; exact ⟨hd, hl⟩
  | spend acct asset amount useUnc =>
    simp only [buildAction] at h
    by_cases h0 : (amount == 0) = true
    · simp [h0] at h
    · simp only [h0, Bool.false_eq_true, if_false] at h
      rcases reserveWith_cases sortFn s.1 acct asset amount useUnc 0 exp with ⟨r, hr, hid, hexp, hsub, hge, hch⟩ | ⟨hk, hne⟩
      · rw [hr] at h
        simp only at h
        -- reserved outputs: unreserved before, pairwise distinct
        have hfree : ∀ u ∈ r.utxos, mLookup u.id s.1.reserved = none := by
          intro u hu
          have hm := hsub.subset hu
          simp only [List.mem_filter, isReserved, Bool.not_eq_true', Option.isSome_eq_false_iff,
            Option.isNone_iff_eq_none] at hm
          exact hm.2
        have hnd : (r.utxos.map (·.id)).Nodup := by
          have s1 : (r.utxos.map (·.id)).Sublist ((sortFn (findUtxos s.1 acct asset useUnc 0).1).map (·.id)) :=
            (hsub.trans List.filter_sublist).map _
          have p1 := ((hperm (findUtxos s.1 acct asset useUnc 0).1).map (·.id))
          have s2 : ((findUtxos s.1 acct asset useUnc 0).1.map (·.id)).Sublist ((listed s.1 useUnc).map (·.id)) := by
            simp only [findUtxos, matching]
            exact (List.filter_sublist.trans List.filter_sublist).map _
          exact s1.nodup (p1.nodup_iff.mpr (s2.nodup (hl useUnc)))
        have hnew : DInv (afterReserve s.1 r, { s.2 with ins := s.2.ins ++ r.utxos, rids := s.2.rids ++ [r.id] }) := by
          constructor
          · simp only [List.map_append]
            refine List.Nodup.append hd.1 hnd ?_
            intro x hx1 hx2
            obtain ⟨u1, hu1, rfl⟩ := List.mem_map.mp hx1
            obtain ⟨u2, hu2, he⟩ := List.mem_map.mp hx2
            have a1 := hd.2 u1 hu1
            have a2 := hfree u2 hu2
            have he' : u2.id = u1.id := he
            rw [he'] at a2
            rw [a2] at a1
            simp at a1
          · intro u hu
            simp only [List.mem_append] at hu
            simp only [afterReserve]
            rw [mLookup_reserveAll]
            by_cases hm : u.id ∈ r.utxos.map (·.id)
            · simp [hm]
            · simp only [hm, if_false]
              rcases hu with hu | hu
              · exact hd.2 u hu
              · exact absurd (List.mem_map_of_mem hu) hm
        have hl' : ListedNodup (afterReserve s.1 r) := hl
        by_cases hbad : (r.utxos.takeWhile (fun u => decide (u.amount ≤ maxInt64))).length < r.utxos.length
        · simp [hbad] at h
        · simp only [hbad, if_false] at h
          by_cases hchg : r.change > 0
          · simp only [hchg, if_true] at h
            cases hu0 : r.utxos with
            | nil => rw [hu0] at h; simp at h
            | cons u0 tl =>
              rw [hu0] at h
              simp only at h
              by_cases hmax : r.change > maxInt64
              · simp [hmax] at h
              · simp only [hmax, if_false, Prod.mk.injEq, and_true] at h
                subst h
                rw [hu0] at hnew
                exact ⟨⟨hnew.1, hnew.2⟩, hl'⟩
          · simp only [hchg, if_false, Prod.mk.injEq, and_true] at h
            subst h
            exact ⟨⟨hnew.1, hnew.2⟩, hl'⟩
      · exfalso
        cases hres : reserveWith sortFn s.1 acct asset amount useUnc 0 exp with
        | mk o k' =>
          rw [hres] at h
          cases o with
          | ok r => exact hne r (by rw [hres])
          | err e => simp at h
          | panic => simp at h

theorem runActions_dinv (sortFn : List Utxo → List Utxo) (hperm : ∀ l, (sortFn l).Perm l) (exp : Nat) :
    ∀ (actions : List Action) (i : Nat) (s s' : Keeper × Builder),
    runActions sortFn exp actions i s = (s', []) → DInv s → ListedNodup s.1 → DInv s' := by
  intro actions
  induction actions with
  | nil =>
    intro i s s' h hd _
    simp only [runActions, Prod.mk.injEq, and_true] at h
    subst h; exact hd
  | cons a rest ih =>
    intro i s s' h hd hl
    simp only [runActions] at h
    cases h1 : buildAction sortFn exp s a with
    | mk s1 e =>
      rw [h1] at h
      cases h2 : runActions sortFn exp rest (i + 1) s1 with
      | mk s2 es =>
        rw [h2] at h
        simp only [Prod.mk.injEq] at h
        cases e with
        | some e => simp at h
        | none =>
          simp only at h
          obtain ⟨rfl, rfl⟩ := h
          obtain ⟨hd1, hl1⟩ := buildAction_dinv sortFn hperm exp s s1 a h1 hd hl
          exact ih (i + 1) s1 s2 h2 hd1 hl1


/-! ### rollback: a failed Build leaves no reservation behind -/

/-- two keepers agree on everything a caller can observe of reservations -/
def SameRes (a b : Keeper) : Prop :=
  a.reservations = b.reservations ∧ (∀ x, mLookup x a.reserved = mLookup x b.reserved) ∧
  a.confirmed = b.confirmed ∧ a.unconfirmed = b.unconfirmed ∧ a.height = b.height

/-- state during a Build: `k0` is the keeper before the Build, `new` the ids of the reservations
    the Build has made so far (oldest first) -/
structure RInv (k0 : Keeper) (s : Keeper × Builder) (new : List Res) : Prop where
  rids : s.2.rids = new.map (·.id)
  res : s.1.reservations = new.reverse ++ k0.reservations
  fresh : ∀ r ∈ new, k0.next < r.id
  next : k0.next ≤ s.1.next
  inv : Inv s.1
  same : s.1.confirmed = k0.confirmed ∧ s.1.unconfirmed = k0.unconfirmed ∧ s.1.height = k0.height

theorem rinv_init (k0 : Keeper) (h : Inv k0) : RInv k0 (k0, ⟨[], [], []⟩) [] := by
  constructor <;> simp [h]

theorem buildAction_keeper (sortFn : List Utxo → List Utxo) (exp : Nat) (s : Keeper × Builder) (a : Action) :
    ((buildAction sortFn exp s a).1.1 = s.1 ∧ (buildAction sortFn exp s a).1.2.rids = s.2.rids) ∨
    ∃ r, (buildAction sortFn exp s a).1.1 = afterReserve s.1 r ∧ (buildAction sortFn exp s a).1.2.rids = s.2.rids ++ [r.id] ∧
      r.id = s.1.next + 1 ∧ ∀ u ∈ r.utxos, mLookup u.id s.1.reserved = none := by
  cases a with
  | control asset amount prog =>
    left; simp only [buildAction]; split_ifs <;> simp
  | retire asset amount =>
    left; simp only [buildAction]; split_ifs <;> simp
  | spend acct asset amount useUnc =>
    simp only [buildAction]
    by_cases h0 : (amount == 0) = true
    · left; simp [h0]
    · simp only [h0, Bool.false_eq_true, if_false]
      rcases reserveWith_cases sortFn s.1 acct asset amount useUnc 0 exp with ⟨r, hr, hid, hexp, hsub, hge, hch⟩ | ⟨hk, hne⟩
      · right
        refine ⟨r, ?_, ?_, hid, ?_⟩
        · rw [hr]; simp only; split_ifs <;> (try rfl) <;> (cases r.utxos <;> simp <;> split_ifs <;> rfl)
        · rw [hr]; simp only; split_ifs <;> (try rfl) <;> (cases r.utxos <;> simp <;> split_ifs <;> rfl)
        · intro u hu
          have hm := hsub.subset hu
          simp only [List.mem_filter, isReserved, Bool.not_eq_true', Option.isSome_eq_false_iff,
            Option.isNone_iff_eq_none] at hm
          exact hm.2
      · left
        cases hres : reserveWith sortFn s.1 acct asset amount useUnc 0 exp with
        | mk o k' =>
          have hk' : k' = s.1 := by rw [hres] at hk; exact hk
          cases o with
          | ok r => exact absurd (by rw [hres]) (hne r)
          | err e => simp [hk']
          | panic => simp [hk']


theorem buildAction_rinv (sortFn : List Utxo → List Utxo) (exp : Nat) (k0 : Keeper) (s : Keeper × Builder) (a : Action)
    (new : List Res) (h : RInv k0 s new) : ∃ new', RInv k0 (buildAction sortFn exp s a).1 new' := by
  rcases buildAction_keeper sortFn exp s a with ⟨h1, h2⟩ | ⟨r, h1, h2, hid, hfree⟩
  · refine ⟨new, ?_⟩
    constructor
    · rw [h2]; exact h.rids
    · rw [h1]; exact h.res
    · exact h.fresh
    · rw [h1]; exact h.next
    · rw [h1]; exact h.inv
    · rw [h1]; exact h.same
  · refine ⟨new ++ [r], ?_⟩
    constructor
    · rw [h2, h.rids]; simp
    · rw [h1]; simp [afterReserve, h.res]
    · intro r' hr'
      simp only [List.mem_append, List.mem_singleton] at hr'
      rcases hr' with hr' | rfl
      · exact h.fresh r' hr'
      · have := h.next; omega
    · rw [h1]; simp only [afterReserve]; have := h.next; omega
    · rw [h1]; exact inv_afterReserve h.inv r hid hfree
    · rw [h1]; exact h.same

theorem runActions_rinv (sortFn : List Utxo → List Utxo) (exp : Nat) (k0 : Keeper) :
    ∀ (actions : List Action) (i : Nat) (s : Keeper × Builder) (new : List Res), RInv k0 s new →
    ∃ new', RInv k0 (runActions sortFn exp actions i s).1 new' := by
  intro actions
  induction actions with
  | nil => intro i s new h; exact ⟨new, by simpa [runActions] using h⟩
  | cons a rest ih =>
    intro i s new h
    obtain ⟨new1, h1⟩ := buildAction_rinv sortFn exp k0 s a new h
    simp only [runActions]
    cases hb : buildAction sortFn exp s a with
    | mk s1 e =>
      rw [hb] at h1
      obtain ⟨new2, h2⟩ := ih (i + 1) s1 new1 h1
      cases hr : runActions sortFn exp rest (i + 1) s1 with
      | mk s2 es =>
        rw [hr] at h2
        exact ⟨new2, by simpa using h2⟩

theorem cancel_reservations (k : Keeper) (rid : Nat) :
    (cancel k rid).reservations = k.reservations.filter (fun r => r.id != rid) := by
  unfold cancel
  cases hf : k.reservations.find? (fun r => r.id == rid) with
  | some r => rfl
  | none =>
    simp only
    symm
    rw [List.filter_eq_self]
    intro r hr
    have := List.find?_eq_none.mp hf r hr
    simpa using this

theorem cancel_same (k : Keeper) (rid : Nat) :
    (cancel k rid).confirmed = k.confirmed ∧ (cancel k rid).unconfirmed = k.unconfirmed ∧ (cancel k rid).height = k.height := by
  unfold cancel
  cases k.reservations.find? (fun r => r.id == rid) <;> simp

theorem cancelAll_spec (k : Keeper) (hk : Inv k) (rids : List Nat) :
    Inv (rids.foldl cancel k) ∧
    (rids.foldl cancel k).reservations = k.reservations.filter (fun r => !rids.contains r.id) ∧
    (rids.foldl cancel k).confirmed = k.confirmed ∧ (rids.foldl cancel k).unconfirmed = k.unconfirmed ∧
    (rids.foldl cancel k).height = k.height := by
  induction rids generalizing k with
  | nil => simp [hk]
  | cons x xs ih =>
    simp only [List.foldl_cons]
    obtain ⟨h1, h2, h3, h4, h5⟩ := ih (cancel k x) (inv_cancel hk x)
    obtain ⟨c3, c4, c5⟩ := cancel_same k x
    refine ⟨h1, ?_, by rw [h3, c3], by rw [h4, c4], by rw [h5, c5]⟩
    rw [h2, cancel_reservations, List.filter_filter]
    congr 1
    funext r
    by_cases hrx : r.id = x
    · simp [List.contains_cons, hrx]
    · have : (r.id == x) = false := by simpa using hrx
      simp [List.contains_cons, this, bne, hrx]

/-- in a keeper satisfying the invariant the reserved map is determined by the reservations -/
theorem lookup_of_reservations {a b : Keeper} (ha : Inv a) (hb : Inv b) (h : a.reservations = b.reservations) (x : Nat) :
    mLookup x a.reserved = mLookup x b.reserved := by
  cases hx : mLookup x a.reserved with
  | some rid =>
    obtain ⟨r, hr, hid, u, hu, hux⟩ := ha.bwd x rid hx
    rw [h] at hr
    have := hb.fwd r hr u hu
    rw [hux, hid] at this
    exact this.symm
  | none =>
    cases hy : mLookup x b.reserved with
    | none => rfl
    | some rid =>
      obtain ⟨r, hr, hid, u, hu, hux⟩ := hb.bwd x rid hy
      rw [← h] at hr
      have := ha.fwd r hr u hu
      rw [hux, hx] at this
      cases this

end BytomModel.Lemmas.Builder
