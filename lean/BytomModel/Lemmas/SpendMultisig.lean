/-
C02: the run of the multisig redeem script
  TXSIGHASH <pk_1> … <pk_n> m n CHECKMULTISIG
(as a child VM of CHECKPREDICATE or on its own) for ANY number of 32-byte keys.
-/
import BytomModel.Lemmas.SpendP2SH
import BytomModel.Lemmas.VMNum

namespace BytomModel.Lemmas.SpendExec
open BytomModel.VM OpM

/-! ### `PushDataUint64` -/

/-- the stack item `vm.PushDataUint64(N)` pushes -/
def numItem (N : Nat) : Bytes := if N = 0 then [] else if N ≤ 16 then [UInt8.ofNat N] else bigIntBytes N

/-- `vm.PushDataUint64(N)` (tied to the model of the real builder in Ties/C02) -/
def numPush (N : Nat) : Bytes :=
  if N = 0 then [0x00] else if N ≤ 16 then [UInt8.ofNat (0x50 + N)]
  else UInt8.ofNat (bigIntBytes N).length :: bigIntBytes N

theorem bigIntBytes_ne_nil (N : Nat) (h0 : N ≠ 0) (hN : N < two256) : 1 ≤ (bigIntBytes N).length := by
  unfold bigIntBytes
  rw [Nat.mod_eq_of_lt hN]
  unfold natToLEF
  simp [h0]

theorem numItem_length (N : Nat) : (numItem N).length ≤ 32 := by
  unfold numItem
  split
  · simp
  · split
    · simp
    · exact bigIntBytes_length_le N

theorem numItem_value (N : Nat) (hN : N < two63) : asBigInt (numItem N) = .ok N := by
  have h255 : N < two255 := by unfold two63 at hN; unfold two255; omega
  have h256 : N < two256 := by unfold two63 at hN; unfold two256; omega
  unfold numItem
  split
  · next h0 => subst h0; decide
  · split
    · next h0 h16 =>
      have : (UInt8.ofNat N).toNat = N := by simp [UInt8.toNat_ofNat']; omega
      unfold asBigInt
      simp [leToNat, this]
      omega
    · have hl := bigIntBytes_length_le N
      have hv := leToNat_bigIntBytes_of_lt N h256
      unfold asBigInt
      simp only [hv]
      have a1 : ¬ (bigIntBytes N).length > 32 := by omega
      have a2 : ¬ N ≥ two255 := by omega
      simp [a1, a2]

/-- executing the encoding of a number pushes its item -/
theorem numPush_step (ctx : Context Bytes) (P pre suf : Bytes) (N : Nat) (hN : N < two256) (hP : P = pre ++ numPush N ++ suf)
    (np : Nat) (rl df : Int) (data alt : List Bytes) (d : Nat) (e : Bool) (hlen : P.length ≤ maxInt32)
    (hg : 41 ≤ rl) :
    FSteps ctx 1 ⟨P, pre.length, np, rl, df, data, alt, d, e⟩
      ⟨P, pre.length + (numPush N).length, pre.length + (numPush N).length, rl - (9 + (numItem N).length) - 0, 0,
        numItem N :: data, alt, d, e⟩ := by
  have hil := numItem_length N
  by_cases h0 : N = 0
  · subst h0
    have hp : parseOpL P.length P pre.length = .ok ⟨0x00, 1, []⟩ :=
      parse_plain' P pre suf 0x00 pre.length 0 (by simp [hP, numPush]) rfl (by decide) hlen (by decide) (by decide)
        (by decide) (by decide)
    have := fstep ctx P pre.length np rl df data alt d e _ _ _ hp (by decide) (by decide) _ _ _
      (by rw [e00]; exact false_ok _ _ _ _ _ _ _ _ (by omega)) (by omega) hlen (by rw [hP]; simp [numPush])
    simpa [numPush, numItem] using this
  · by_cases h16 : N ≤ 16
    · have hb : (UInt8.ofNat (0x50 + N)).toNat = 0x50 + N := by simp [UInt8.toNat_ofNat']; omega
      have hp : parseOpL P.length P pre.length = .ok ⟨0x50 + N, 1, [UInt8.ofNat (0x50 + N - 0x51 + 1)]⟩ :=
        parse_small' P pre suf (UInt8.ofNat (0x50 + N)) pre.length (0x50 + N) (by simp [hP, numPush, h0, h16]) rfl hb hlen
          (by omega)
      have hd : (0x50 + N - 0x51 + 1) = N := by omega
      rw [hd] at hp
      have := fstep ctx P pre.length np rl df data alt d e _ _ _ hp
        (by
          have : ∀ k, 0x51 ≤ k → k ≤ 0x60 → isExpansion k = false := by decide
          exact this _ (by omega) (by omega))
        (by omega) _ _ _
        (by rw [esmall ctx _ _ (by omega) (by omega)]; exact pushdata_ok _ _ _ _ _ _ _ _ _ (by simp; omega))
        (by simp; omega) hlen
        (by rw [hP]; simp [numPush, h0, h16])
      simpa [numPush, numItem, h0, h16] using this
    · have hl := bigIntBytes_length_le N
      have hl1 := bigIntBytes_ne_nil N h0 hN
      have hb : (UInt8.ofNat (bigIntBytes N).length).toNat = (bigIntBytes N).length := by
        simp [UInt8.toNat_ofNat']; omega
      have hp : parseOpL P.length P pre.length = .ok ⟨(bigIntBytes N).length, 1 + (bigIntBytes N).length, bigIntBytes N⟩ :=
        parse_push' P pre (bigIntBytes N) suf (UInt8.ofNat (bigIntBytes N).length) pre.length
          (by simp [hP, numPush, h0, h16]) rfl hb hl1 (by omega) hlen
      have := fstep ctx P pre.length np rl df data alt d e _ _ _ hp
        (by
          have : ∀ k, 1 ≤ k → k ≤ 32 → isExpansion k = false := by decide
          exact this _ hl1 hl)
        (by omega) _ _ _
        (by rw [epush ctx _ _ (by omega) (by omega)]; exact pushdata_ok _ _ _ _ _ _ _ _ _ (by omega)) (by omega) hlen
        (by rw [hP]; simp [numPush, h0, h16])
      simpa [numPush, numItem, h0, h16, Nat.add_comm] using this

/-- `numPush_step` with the new position written as the length of the longer prefix -/
theorem numPush_step' (ctx : Context Bytes) (P pre suf : Bytes) (N : Nat) (hN : N < two256) (hP : P = pre ++ numPush N ++ suf)
    (np : Nat) (rl df : Int) (data alt : List Bytes) (d : Nat) (e : Bool) (hlen : P.length ≤ maxInt32)
    (hg : 41 ≤ rl) :
    FSteps ctx 1 ⟨P, pre.length, np, rl, df, data, alt, d, e⟩
      ⟨P, (pre ++ numPush N).length, (pre ++ numPush N).length, rl - (9 + (numItem N).length) - 0, 0,
        numItem N :: data, alt, d, e⟩ := by
  rw [List.length_append]
  exact numPush_step ctx P pre suf N hN hP np rl df data alt d e hlen hg

/-! ### the key pushes -/

def keyPushes (keys : List Bytes) : Bytes := (keys.map (fun k => (0x20 : UInt8) :: k)).flatten

theorem keyPushes_run (ctx : Context Bytes) (keys : List Bytes) (hk : ∀ k ∈ keys, k.length = 32) (P suf : Bytes)
    (alt : List Bytes) (d : Nat) (e : Bool) (hlen : P.length ≤ maxInt32) :
    ∀ (pre : Bytes) (np : Nat) (rl df : Int) (data : List Bytes), P = pre ++ keyPushes keys ++ suf →
      41 * (keys.length : Int) ≤ rl →
      ∃ np' df', FSteps ctx keys.length ⟨P, pre.length, np, rl, df, data, alt, d, e⟩
        ⟨P, (pre ++ keyPushes keys).length, np', rl - 41 * (keys.length : Int), df', keys.reverse ++ data, alt, d, e⟩ := by
  induction keys with
  | nil =>
    intro pre np rl df data _ _
    refine ⟨np, df, ?_⟩
    simp only [keyPushes, List.map_nil, List.flatten_nil, List.append_nil, List.length_nil, Nat.cast_zero, mul_zero,
      sub_zero, List.reverse_nil, List.nil_append]
    exact .refl _
  | cons k ks ih =>
    intro pre np rl df data hP hg
    have hk32 : k.length = 32 := hk k (by simp)
    have hP1 : P = pre ++ (0x20 : UInt8) :: (k ++ (keyPushes ks ++ suf)) := by
      rw [hP]; simp [keyPushes]
    have hp : parseOpL P.length P pre.length = .ok ⟨k.length, 1 + k.length, k⟩ :=
      parse_push' P pre k (keyPushes ks ++ suf) 0x20 pre.length hP1 rfl (by rw [hk32]; decide) (by omega) (by omega) hlen
    simp only [List.length_cons, Nat.cast_add, Nat.cast_one] at hg
    have s1 := fstep ctx P pre.length np rl df data alt d e _ _ _ hp (by rw [hk32]; decide) (by rw [hk32]; decide) _ _ _
      (by rw [epush ctx k k.length (by omega) (by omega)]; exact pushdata_ok _ _ _ _ _ _ _ k _ (by omega)) (by omega) hlen
      (by rw [hP1]; simp)
    have hpre : pre.length + (1 + k.length) = (pre ++ (0x20 : UInt8) :: k).length := by simp; omega
    rw [hpre] at s1
    obtain ⟨np', df', s2⟩ := ih (fun x hx => hk x (by simp [hx])) (pre ++ (0x20 : UInt8) :: k)
      (pre ++ (0x20 : UInt8) :: k).length (rl - (9 + (k.length : Int)) - 0) 0 (k :: data)
      (by rw [hP]; simp [keyPushes]) (by rw [hk32]; omega)
    refine ⟨np', df', ?_⟩
    have := s1.trans s2
    have e1 : (pre ++ (0x20 : UInt8) :: k ++ keyPushes ks) = pre ++ keyPushes (k :: ks) := by simp [keyPushes]
    have e2 : rl - (9 + (k.length : Int)) - 0 - 41 * (ks.length : Int) = rl - 41 * ((ks.length : Int) + 1) := by
      rw [hk32]; omega
    rw [e1, e2] at this
    simpa [Nat.add_comm] using this

/-! ### the whole script -/

/-- `vmutil.P2SPMultiSigProgram(keys, m)` for 32-byte keys (tied to the model of the real
    builder in Ties/C02) -/
def msCode (keys : List Bytes) (m : Nat) : Bytes :=
  [0xae] ++ keyPushes keys ++ numPush m ++ numPush keys.length ++ [0xad]

/-- does the script accept the stack (top first) it is started on -/
def msOk (verify : Bytes → Bytes → Bytes → Bool) (keys : List Bytes) (m : Nat) (sigHash : Bytes) (stack : List Bytes) : Bool :=
  match cmsSpec verify (numItem keys.length :: numItem m :: (keys.reverse ++ sigHash :: stack)) with
  | .ok (b, _) => b
  | .error _ => false

theorem cmsKeys_num (n : Nat) (r : List Bytes) (hn : n < two63) (hn2 : (n : Int) * 1024 ≤ maxInt64) :
    cmsKeys (numItem n :: r) = n := by
  have a1 : ¬ n ≥ two63 := by omega
  have a2 : ¬ (n : Int) * 1024 > maxInt64 := by omega
  simp [cmsKeys, numItem_value n hn, a1, a2]

theorem stackCost_suffix (a l : List Bytes) (h : a <:+ l) : stackCost List.length a ≤ stackCost List.length l := by
  obtain ⟨p, rfl⟩ := h
  rw [stackCost_append]
  have := stackCost_nonneg p
  omega

theorem cmsSpec2_suffix (v : Bytes → Bytes → Bytes → Bool) (n m : Nat) (r2 : List Bytes) (b : Bool) (rest : List Bytes)
    (h : cmsSpec2 v n m r2 = .ok (b, rest)) : rest <:+ r2 := by
  unfold cmsSpec2 at h
  split at h
  · cases h
  · split at h
    · cases h
    · next msg r3 hd =>
      split at h
      · cases h
      · split at h
        · cases h
        · simp only [Except.ok.injEq, Prod.mk.injEq] at h
          obtain ⟨_, rfl⟩ := h
          have h1 : r3.drop m <:+ r3 := List.drop_suffix m r3
          have h2 : r3 <:+ msg :: r3 := List.suffix_cons msg r3
          have h3 : msg :: r3 <:+ r2 := by rw [← hd]; exact List.drop_suffix n r2
          exact (h1.trans h2).trans h3

theorem cmsSpec_suffix (v : Bytes → Bytes → Bytes → Bool) (data : List Bytes) (b : Bool) (rest : List Bytes)
    (h : cmsSpec v data = .ok (b, rest)) : rest <:+ data := by
  unfold cmsSpec at h
  split at h
  · cases h
  · next nB r1 =>
    split at h
    · cases h
    · split at h
      · cases h
      · split at h
        · cases h
        · unfold cmsSpec1 at h
          split at h
          · cases h
          · next mB r2 =>
            split at h
            · cases h
            · split at h
              · cases h
              · split at h
                · cases h
                · have := cmsSpec2_suffix v _ _ r2 b rest h
                  exact (this.trans (List.suffix_cons mB r2)).trans (List.suffix_cons nB _)

theorem ms_frame (ctx : Context Bytes) (keys : List Bytes) (m : Nat) (sigHash : Bytes)
    (hk : ∀ k ∈ keys, k.length = 32) (hsh : ctx.txSigHash = some sigHash) (hsl : sigHash.length = 32)
    (hn : keys.length < 2 ^ 50) (hm : m < two63) (hlen : (msCode keys m).length ≤ maxInt32)
    (stack : List Bytes) (np : Nat) (L df : Int) (alt : List Bytes) (d : Nat) (e : Bool)
    (hL : 1100 * (keys.length : Int) + 500 ≤ L) :
    ∃ k g f' er, k ≤ keys.length + 4 ∧ FSteps ctx k ⟨msCode keys m, 0, np, L, df, stack, alt, d, e⟩ g ∧
      FFinal ctx g f' er ∧ (er.isNone && !falseResult valueMem () f') = msOk ctx.verifySig keys m sigHash stack := by
  have hn63 : keys.length < two63 := by unfold two63; omega
  have hn256 : keys.length < two256 := by unfold two256; omega
  have hm256 : m < two256 := by unfold two63 at hm; unfold two256; omega
  have hn1024 : (keys.length : Int) * 1024 ≤ maxInt64 := by unfold maxInt64; omega
  -- TXSIGHASH
  have hp0 : parseOpL (msCode keys m).length (msCode keys m) 0 = .ok ⟨0xae, 1, []⟩ :=
    parse_plain' _ [] (keyPushes keys ++ numPush m ++ numPush keys.length ++ [0xad]) 0xae 0 0xae (by simp [msCode]) rfl
      (by decide) hlen (by decide) (by decide) (by decide) (by decide)
  have c1 := fstep ctx _ 0 np L df stack alt d e _ _ _ hp0 (by decide) (by decide) _ _ _
    (by rw [eae]; exact txsighash_ok ctx _ _ _ _ _ _ _ sigHash hsh _ (by omega)) (by omega) hlen (by simp [msCode])
  -- the keys
  obtain ⟨np2, df2, c2⟩ := keyPushes_run ctx keys hk (msCode keys m) (numPush m ++ numPush keys.length ++ [0xad]) alt d e hlen
    [0xae] (0 + 1) (L - (264 + (sigHash.length : Int)) - 0) 0 (sigHash :: stack) (by simp [msCode]) (by omega)
  -- m and n
  have c3 := numPush_step' ctx (msCode keys m) ([0xae] ++ keyPushes keys) (numPush keys.length ++ [0xad]) m hm256
    (by simp [msCode]) np2 (L - (264 + (sigHash.length : Int)) - 0 - 41 * (keys.length : Int)) df2
    (keys.reverse ++ sigHash :: stack) alt d e hlen (by omega)
  have him := numItem_length m
  have hin := numItem_length keys.length
  have c := ((c1.trans c2).trans c3).trans
    (numPush_step' ctx (msCode keys m) ([0xae] ++ keyPushes keys ++ numPush m) [0xad] keys.length hn256
      (by simp [msCode]) _ _ 0 (numItem m :: (keys.reverse ++ sigHash :: stack)) alt d e hlen (by omega))
  -- CHECKMULTISIG
  have hpe : parseOpL (msCode keys m).length (msCode keys m) ([0xae] ++ keyPushes keys ++ numPush m ++ numPush keys.length).length
      = .ok ⟨0xad, 1, []⟩ :=
    parse_plain' _ ([0xae] ++ keyPushes keys ++ numPush m ++ numPush keys.length) [] 0xad _ 0xad (by simp [msCode]) rfl
      (by decide) hlen (by decide) (by decide) (by decide) (by decide)
  have hend : ([0xae] ++ keyPushes keys ++ numPush m ++ numPush keys.length).length + 1 = (msCode keys m).length := by
    simp [msCode]; omega
  have hrun := checkmultisig_run ctx (msCode keys m) ([0xae] ++ keyPushes keys ++ numPush m ++ numPush keys.length).length
    (([0xae] ++ keyPushes keys ++ numPush m ++ numPush keys.length).length + 1)
    (L - (264 + (sigHash.length : Int)) - 0 - 41 * (keys.length : Int) - (9 + ((numItem m).length : Int)) - 0 -
      (9 + ((numItem keys.length).length : Int)) - 0) alt d e
    (numItem keys.length :: numItem m :: (keys.reverse ++ sigHash :: stack))
    (by rw [cmsKeys_num _ _ hn63 hn1024]; omega)
  rw [cmsKeys_num _ _ hn63 hn1024] at hrun
  unfold msOk
  cases hs : cmsSpec ctx.verifySig (numItem keys.length :: numItem m :: (keys.reverse ++ sigHash :: stack)) with
  | error er =>
    rw [hs] at hrun
    obtain ⟨s', hs'⟩ := hrun
    have ff := c.fail _ _ _ hpe (by decide) (by decide) er s'.f (by rw [ead]; exact hs') hlen (by omega)
    exact ⟨_, _, _, _, by omega, c, ff, by simp⟩
  | ok r =>
    obtain ⟨b, rest⟩ := r
    rw [hs] at hrun
    simp only [] at hrun ⊢
    have hsc : stackCost List.length rest ≤
        stackCost List.length (numItem keys.length :: numItem m :: (keys.reverse ++ sigHash :: stack)) :=
      stackCost_suffix _ _ (cmsSpec_suffix _ _ _ _ hs)
    have hbb : ((boolBytes b).length : Int) ≤ 1 := by cases b <;> simp [boolBytes]
    have c5 := c.trans (fstep ctx _ _ _ _ _ _ _ _ _ _ _ _ hpe (by decide) (by decide) _ _ _ (by rw [ead]; exact hrun)
      (by omega) hlen (by omega))
    have fin := c5.done hlen hend
    refine ⟨_, _, _, _, by omega, c5, fin, ?_⟩
    simp [falseResult, asBool_boolBytes]

/-- what the script computes, spelled out: the counts are consistent, at least `m` items are on
    the stack, and the top `m` of them match the keys (both lists in popped order) -/
theorem msOk_eq (verify : Bytes → Bytes → Bytes → Bool) (keys : List Bytes) (m : Nat) (sigHash : Bytes) (stack : List Bytes)
    (hk : ∀ k ∈ keys, k.length = 32) (hsl : sigHash.length = 32) (hn : keys.length < 2 ^ 50) (hm : m < two63) :
    msOk verify keys m sigHash stack =
      (decide (m ≤ keys.length ∧ (0 < keys.length → 0 < m) ∧ m ≤ stack.length) &&
        matchSigs (fun p s => verify p sigHash s) (stack.take m) keys.reverse) := by
  have hn63 : keys.length < two63 := by unfold two63; omega
  have a1 : ¬ keys.length ≥ two63 := by omega
  have a2 : ¬ (keys.length : Int) * 1024 > maxInt64 := by unfold maxInt64; omega
  have a3 : ¬ m ≥ two63 := by omega
  have hdrop : (keys.reverse ++ sigHash :: stack).drop keys.length = sigHash :: stack := by
    rw [List.drop_left' (by simp)]
  have htake : (keys.reverse ++ sigHash :: stack).take keys.length = keys.reverse := by
    rw [List.take_left' (by simp)]
  have hall : (keys.reverse.any fun p => p.length != 32) = false := by
    rw [List.any_eq_false]
    intro x hx
    have := hk x (by simpa using hx)
    simp [this]
  unfold msOk cmsSpec
  simp only [numItem_value keys.length hn63, a1, a2, if_false, cmsSpec1, numItem_value m hm, a3]
  by_cases hc : m > keys.length ∨ (keys.length > 0 ∧ m = 0)
  · simp only [hc, if_true]
    have : ¬ (m ≤ keys.length ∧ (0 < keys.length → 0 < m) ∧ m ≤ stack.length) := by omega
    simp [this]
  · simp only [hc, if_false, cmsSpec2]
    have hl : ¬ (keys.reverse ++ sigHash :: stack).length < keys.length := by simp
    simp only [hl, if_false, hdrop, hsl, ne_eq, not_true_eq_false, htake, hall]
    by_cases h3 : stack.length < m
    · simp only [h3, if_true]
      have : ¬ (m ≤ keys.length ∧ (0 < keys.length → 0 < m) ∧ m ≤ stack.length) := by omega
      simp [this]
    · simp only [h3, if_false]
      have : m ≤ keys.length ∧ (0 < keys.length → 0 < m) ∧ m ≤ stack.length := by omega
      rw [decide_eq_true this]
      simp

end BytomModel.Lemmas.SpendExec
