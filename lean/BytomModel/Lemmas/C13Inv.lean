/-
C13: invariants over event sequences.  Where the stored headers and the main-chain index
entries of a reachable state come from:

* a stored header was either stored at the start, or saved by a delivery that passed
  `validBlock` with its parent stored (`Validated`) — for deliveries in parents-first order
  (`ParentsFirst`): the model does not re-validate a block that waits in the orphan pool (the real
  `saveBlock` does), so nothing is claimed about blocks that arrive before their parent;
* a main-chain index entry was either there at the start, or written by a move whose attach list
  contains the block (`Attached`), i.e. the block passed `applyBlockTxs` at its turn.
-/
import BytomModel.Lemmas.C13Run

namespace BytomModel.Lemmas.C13
open BytomModel.Node BytomModel.Ledger BytomModel.NodeLedger

def NoOrphans (s : NodeLedger.State) : Prop := s.node.orphans = [] ∧ s.node.prevOrphans = []

theorem noOrphans_of_isEmpty (s : NodeLedger.State) (h1 : s.node.orphans.isEmpty = true)
    (h2 : s.node.prevOrphans.isEmpty = true) : NoOrphans s :=
  ⟨List.isEmpty_iff.mp h1, List.isEmpty_iff.mp h2⟩

/-- every delivered block's parent is stored when the block is delivered -/
def ParentsFirst (init : NodeLedger.State) (evs : List Ev) : Prop :=
  ∀ pre b suf, evs = pre ++ Ev.deliver b :: suf → ((run init pre).node.header b.parent).isSome = true

/-- block `id` was delivered with its parent stored and passed `validBlock` in that state -/
def Validated (init : NodeLedger.State) (evs : List Ev) (id : Nat) : Prop :=
  ∃ pre b suf, evs = pre ++ Ev.deliver b :: suf ∧ b.id = id ∧
    ((run init pre).node.header b.parent).isSome = true ∧ (run init pre).validBlock b = true

/-- block `id` was attached to the main chain by an accepted reorganisation -/
def Attached (init : NodeLedger.State) (evs : List Ev) (id : Nat) : Prop :=
  ∃ pre e suf att det a, evs = pre ++ e :: suf ∧
    Moved (run init pre) (step (run init pre) e) att det ∧ a ∈ att ∧ a.id = id

theorem Validated.cons {init : NodeLedger.State} {e : Ev} {evs : List Ev} {id : Nat}
    (h : Validated (step init e) evs id) : Validated init (e :: evs) id := by
  obtain ⟨pre, b, suf, h1, h2, h3, h4⟩ := h
  exact ⟨e :: pre, b, suf, by rw [h1]; rfl, h2, h3, h4⟩

theorem Validated.append {init : NodeLedger.State} {evs : List Ev} {id : Nat}
    (h : Validated init evs id) (more : List Ev) : Validated init (evs ++ more) id := by
  obtain ⟨pre, b, suf, h1, h2, h3, h4⟩ := h
  exact ⟨pre, b, suf ++ more, by rw [h1]; simp, h2, h3, h4⟩

theorem Attached.cons {init : NodeLedger.State} {e : Ev} {evs : List Ev} {id : Nat}
    (h : Attached (step init e) evs id) : Attached init (e :: evs) id := by
  obtain ⟨pre, e', suf, att, det, a, h1, h2, h3, h4⟩ := h
  exact ⟨e :: pre, e', suf, att, det, a, by rw [h1]; rfl, h2, h3, h4⟩

theorem ParentsFirst.head {init : NodeLedger.State} {b : Header} {evs : List Ev}
    (h : ParentsFirst init (Ev.deliver b :: evs)) : (init.node.header b.parent).isSome = true :=
  h [] b evs rfl

theorem ParentsFirst.tail {init : NodeLedger.State} {e : Ev} {evs : List Ev}
    (h : ParentsFirst init (e :: evs)) : ParentsFirst (step init e) evs := by
  intro pre b suf he
  exact h (e :: pre) b suf (by rw [he]; rfl)

theorem ParentsFirst.prefix {init : NodeLedger.State} {a b : List Ev}
    (h : ParentsFirst init (a ++ b)) : ParentsFirst init a := by
  intro pre x suf he
  exact h pre x (suf ++ b) (by rw [he]; simp)

/-! ### one delivery -/

theorem processBlock_eq (s : NodeLedger.State) (b : Header) :
    s.processBlock b =
      if (!(alreadyProcessed s.node b) && (s.node.header b.parent).isSome && !s.validBlock b) = true then (s, .err)
      else s.settle (s.node.processBlock b).1 (s.node.processBlock b).2 := by
  unfold NodeLedger.State.processBlock alreadyProcessed
  rfl

/-- a delivery with the parent stored and no orphans around: the stored headers are unchanged,
    or the block passed `validBlock` and its header was stored (replacing an older copy) -/
theorem deliver_headers (s : NodeLedger.State) (b : Header) (hno : NoOrphans s)
    (hp : (s.node.header b.parent).isSome = true) :
    NoOrphans (s.processBlock b).1 ∧
    ((s.processBlock b).1.node.headers = s.node.headers ∨
     (s.validBlock b = true ∧
      (s.processBlock b).1.node.headers = savedHeader s.node b :: s.node.headers.filter (fun h => h.id != b.id))) := by
  rw [processBlock_eq]
  split
  · exact ⟨hno, Or.inl rfl⟩
  · rename_i hc
    obtain ⟨_, hh, _, _, ho, hpo, _, _⟩ := settle_frame s (s.node.processBlock b).1 (s.node.processBlock b).2
    unfold NoOrphans
    rw [hh, ho, hpo]
    rcases node_processBlock_cases s.node b with ⟨_, e⟩ | ⟨_, hn, _⟩ | ⟨_, _, hf, e⟩ | ⟨hk, _, hok, e⟩
    · rw [e]; exact ⟨hno, Or.inl rfl⟩
    · rw [Option.isNone_iff_eq_none] at hn; rw [hn] at hp; cases hp
    · rw [e]
      exact ⟨saveBlock_orphans_empty _ _ hno.1 hno.2, Or.inl (saveBlock_headers_of_fail _ _ hf)⟩
    · rw [e]
      have hso := saveBlock_orphans_empty s.node b hno.1 hno.2
      rw [saveSubBlock_no_waiting _ _ _ hso.2]
      dsimp only
      have hto := tryReorganize_orphans (s.node.saveBlock b).1 (s.node.saveBlock b).1.bestChain
      rw [hto.1, hto.2, tryReorganize_headers]
      refine ⟨hso, Or.inr ⟨?_, (saveBlock_headers_of_ok _ _ hok).1⟩⟩
      have : (!(alreadyProcessed s.node b) && (s.node.header b.parent).isSome && !s.validBlock b) = false := by
        simpa using hc
      rw [hk, hp] at this
      simpa using this

/-! ### one verification message -/

/-- the header ids of `hs` all occur in the store of `s` -/
def IdsFrom (s : Node.State) (hs : List Header) : Prop := ∀ h, h ∈ hs → ∃ h0, h0 ∈ s.headers ∧ h0.id = h.id

theorem IdsFrom.self (s : Node.State) : IdsFrom s s.headers := fun h hh => ⟨h, hh, rfl⟩

theorem IdsFrom.replace (s : Node.State) (tgt : Nat) (th : Header) (sup : List SupLink)
    (ht : s.header tgt = some th) :
    IdsFrom s ({ th with sup := sup } :: s.headers.filter (fun h => h.id != tgt)) := by
  intro h hh
  rcases List.mem_cons.mp hh with e | e
  · exact ⟨th, (lookupHeader_some ht).1, by rw [e]⟩
  · exact ⟨h, (List.mem_filter.mp e).1, rfl⟩

theorem authVerification_headers (s : Node.State) (order src tgt : Nat) (sigOk : Bool) :
    IdsFrom s (s.authVerification order src tgt sigOk).1.headers := by
  unfold Node.State.authVerification
  dsimp only
  repeat' split
  all_goals first
    | exact IdsFrom.self s
    | (dsimp only; apply IdsFrom.replace; assumption)
    | (rw [tryReorganize_headers]; dsimp only; apply IdsFrom.replace; assumption)

/-! ### runs -/

theorem step_noOrphans (s : NodeLedger.State) (e : Ev) (hno : NoOrphans s)
    (hp : ∀ b, e = Ev.deliver b → (s.node.header b.parent).isSome = true) : NoOrphans (step s e) := by
  cases e with
  | deliver b => exact (deliver_headers s b hno (hp b rfl)).1
  | vote o src tgt ok =>
    simp only [step, NodeLedger.State.authVerification]
    obtain ⟨_, _, _, _, ho, hpo, _, _⟩ := settle_frame s (s.node.authVerification o src tgt ok).1 (s.node.authVerification o src tgt ok).2
    unfold NoOrphans
    rw [ho, hpo]
    have := authVerification_orphans s.node o src tgt ok
    rw [this.1, this.2]; exact hno
  | restart =>
    simp only [step]
    cases h : s.restart with
    | none => exact hno
    | some s' =>
      simp only
      unfold NodeLedger.State.restart at h
      cases hn : s.node.restart with
      | none => rw [hn] at h; cases h
      | some n' =>
        rw [hn] at h
        simp only [Option.map_some, Option.some.injEq] at h
        subst h
        obtain ⟨_, _, h3, h4⟩ := restart_frame s.node n' hn
        exact ⟨h3, h4⟩

/-- one event: every stored header has the id of an earlier stored header, or is the delivered
    block, which passed `validBlock` -/
theorem step_headers (s : NodeLedger.State) (e : Ev) (hno : NoOrphans s)
    (hp : ∀ b, e = Ev.deliver b → (s.node.header b.parent).isSome = true) :
    ∀ h, h ∈ (step s e).node.headers →
      (∃ h0, h0 ∈ s.node.headers ∧ h0.id = h.id) ∨
      (∃ b, e = Ev.deliver b ∧ b.id = h.id ∧ s.validBlock b = true) := by
  intro h hh
  cases e with
  | deliver b =>
    rcases (deliver_headers s b hno (hp b rfl)).2 with e1 | ⟨hv, e1⟩
    · simp only [step] at hh; rw [e1] at hh; exact Or.inl ⟨h, hh, rfl⟩
    · simp only [step] at hh; rw [e1] at hh
      rcases List.mem_cons.mp hh with e2 | e2
      · right; exact ⟨b, rfl, by rw [e2]; rfl, hv⟩
      · left; exact ⟨h, (List.mem_filter.mp e2).1, rfl⟩
  | vote o src tgt ok =>
    simp only [step, NodeLedger.State.authVerification] at hh
    obtain ⟨_, hhd, _⟩ := settle_frame s (s.node.authVerification o src tgt ok).1 (s.node.authVerification o src tgt ok).2
    rw [hhd] at hh
    exact Or.inl (authVerification_headers s.node o src tgt ok h hh)
  | restart =>
    simp only [step] at hh
    cases hr : s.restart with
    | none => rw [hr] at hh; exact Or.inl ⟨h, hh, rfl⟩
    | some s' =>
      rw [hr] at hh
      simp only at hh
      unfold NodeLedger.State.restart at hr
      cases hn : s.node.restart with
      | none => rw [hn] at hr; cases hr
      | some n' =>
        rw [hn] at hr
        simp only [Option.map_some, Option.some.injEq] at hr
        subst hr
        obtain ⟨_, h2, _, _⟩ := restart_frame s.node n' hn
        rw [h2] at hh
        exact Or.inl ⟨h, hh, rfl⟩

/-- along a parents-first run without orphans at the start: no orphans ever, and every stored
    header is an initial one or was `Validated` -/
theorem run_headers : ∀ (evs : List Ev) (init : NodeLedger.State), NoOrphans init → ParentsFirst init evs →
    NoOrphans (run init evs) ∧
    ∀ h, h ∈ (run init evs).node.headers →
      (∃ h0, h0 ∈ init.node.headers ∧ h0.id = h.id) ∨ Validated init evs h.id
  | [], init, hno, _ => ⟨hno, fun h hh => Or.inl ⟨h, hh, rfl⟩⟩
  | e :: evs, init, hno, hpf => by
    have hp : ∀ b, e = Ev.deliver b → (init.node.header b.parent).isSome = true := by
      intro b he; subst he; exact hpf.head
    have hno1 := step_noOrphans init e hno hp
    obtain ⟨hno2, ih⟩ := run_headers evs (step init e) hno1 hpf.tail
    refine ⟨hno2, ?_⟩
    intro h hh
    rcases ih h hh with ⟨h0, hm, hid⟩ | hv
    · rcases step_headers init e hno hp h0 hm with ⟨h1, hm1, hid1⟩ | ⟨b, he, hb, hv⟩
      · left; exact ⟨h1, hm1, hid1.trans hid⟩
      · right
        subst he
        exact ⟨[], b, evs, rfl, hb.trans hid, hp b rfl, hv⟩
    · right; exact hv.cons

/-- along any run: every main-chain index entry is an initial one or its block was `Attached` -/
theorem run_index : ∀ (evs : List Ev) (init : NodeLedger.State),
    ∀ p, p ∈ (run init evs).node.index → p ∈ init.node.index ∨ Attached init evs p.2
  | [], _, p, hp => Or.inl hp
  | e :: evs, init, p, hp => by
    rcases run_index evs (step init e) p hp with h | h
    · rcases step_spec init e with hf | ⟨att, det, hm⟩
      · left; rw [hf.index] at h; exact h
      · rw [hm.index] at h
        rcases mem_foldl_alistSet att _ p h with h1 | ⟨a, ha, e1⟩
        · left; exact h1
        · right
          exact ⟨[], e, evs, att, det, a, rfl, hm, ha, by rw [e1]⟩
    · right; exact h.cons

end BytomModel.Lemmas.C13
