/-
C13: invariants over event sequences, for ARBITRARY delivery order.  Where the stored headers and
the main-chain index entries of a reachable state come from:

* a stored header was either stored at the start, or its block was saved by `saveBlock` — after
  its own delivery, or when it left the orphan pool — in a node state in which its parent was
  stored and `validBlock` answered true (`ValidatedBetween` / `StoredValid`);
* a main-chain index entry was either there at the start, or written by a move whose attach list
  contains the block (`Attached`), i.e. the block passed `applyBlockTxs` at its turn.
-/
import BytomModel.Lemmas.C13Run

namespace BytomModel.Lemmas.C13
open BytomModel.Node BytomModel.Ledger BytomModel.NodeLedger

def NoOrphans (s : NodeLedger.State) : Prop := s.node.orphans = [] ∧ s.node.prevOrphans = []

theorem noOrphans_of_isEmpty (s : NodeLedger.State) (h1 : s.node.orphans.isEmpty = true)
    (h2 : s.node.prevOrphans.isEmpty = true) : NoOrphans s :=
  ⟨List.isEmpty_iff.mp h1, List.isEmpty_iff.mp h2⟩

/-! ### stored headers stay stored -/

theorem lookup_filter_ne (hs : List Header) (k x : Nat) (hne : k ≠ x) :
    lookupHeader (hs.filter (fun h => h.id != x)) k = lookupHeader hs k := by
  unfold lookupHeader
  induction hs with
  | nil => rfl
  | cons h t ih =>
    by_cases hx : h.id = x
    · have hk : (x == k) = false := beq_false_of_ne (fun e => hne e.symm)
      simp only [List.filter_cons, hx, bne_self_eq_false, Bool.false_eq_true, if_false, List.find?_cons, hk]
      exact ih
    · have hx' : (h.id != x) = true := by simpa using hx
      simp only [List.filter_cons, hx', if_true, List.find?_cons]
      cases h.id == k
      · exact ih
      · rfl

/-- every stored id stays stored -/
def StoredMono (s s' : Node.State) : Prop := ∀ id, (s.header id).isSome = true → (s'.header id).isSome = true

theorem StoredMono.refl (s : Node.State) : StoredMono s s := fun _ h => h
theorem StoredMono.trans {a b c : Node.State} (h1 : StoredMono a b) (h2 : StoredMono b c) : StoredMono a c :=
  fun id h => h2 id (h1 id h)
theorem StoredMono.of_eq {s s' : Node.State} (h : s'.headers = s.headers) : StoredMono s s' := by
  intro id hi; simp only [State.header, h]; exact hi

theorem header_cons_filter (hs : List Header) (hd : Header) (k : Nat) :
    lookupHeader (hd :: hs.filter (fun h => h.id != hd.id)) k =
      if hd.id = k then some hd else lookupHeader hs k := by
  by_cases e : hd.id = k
  · simp [lookupHeader, e]
  · have : (hd.id == k) = false := beq_false_of_ne e
    simp only [e, if_false]
    rw [← lookup_filter_ne hs k hd.id (fun x => e x.symm)]
    simp [lookupHeader, this]

theorem saveBlock_storedMono (s : Node.State) (b : Header) : StoredMono s (s.saveBlock b).1 := by
  cases hok : (s.saveBlock b).2 with
  | false => exact StoredMono.of_eq (saveBlock_headers_of_fail s b hok)
  | true =>
    intro id hi
    have hh := (saveBlock_headers_of_ok s b hok).1
    have e := header_cons_filter s.headers (savedHeader s b) id
    simp only [State.header, hh]
    rw [show (fun (h : Header) => h.id != b.id) = (fun h => h.id != (savedHeader s b).id) from rfl, e]
    split
    · rfl
    · exact hi

theorem saveBlock_stores (s : Node.State) (b : Header) (hok : (s.saveBlock b).2 = true) :
    (s.saveBlock b).1.header b.id = some (savedHeader s b) := by
  have hh := (saveBlock_headers_of_ok s b hok).1
  simp only [State.header, hh]
  rw [show (fun (h : Header) => h.id != b.id) = (fun h => h.id != (savedHeader s b).id) from rfl,
    header_cons_filter]
  simp [savedHeader]

theorem foldl_storedMono {α : Type} (f : Node.State → α → Node.State) (hf : ∀ st a, StoredMono st (f st a)) :
    ∀ (l : List α) (s : Node.State), StoredMono s (l.foldl f s)
  | [], s => StoredMono.refl s
  | a :: l, s => by
    rw [List.foldl_cons]
    exact StoredMono.trans (hf s a) (foldl_storedMono f hf l (f s a))


theorem StoredMono.of_eq' {s s' : Node.State} (h : s'.headers = s.headers) : StoredMono s s' := StoredMono.of_eq h

/-! ### provenance of stored headers inside one chain step -/

/-- block `id` passed `validBlock` in a node state `n` that lies between `a` and `c` (everything
    stored in `a` is stored in `n`, everything stored in `n` is stored in `c`), with its parent
    stored in `n`; `P` says which blocks can be meant (the delivered one, the waiting ones) -/
def ValidatedBetween (env : NodeLedger.State) (P : Header → Prop) (a c : Node.State) (id : Nat) : Prop :=
  ∃ n x, x.id = id ∧ P x ∧ StoredMono a n ∧ StoredMono n c ∧ (n.header x.parent).isSome = true ∧
    env.validIn n x = true

/-- every header stored in `c` has the id of a header stored in `a`, or was validated between -/
def Prov (env : NodeLedger.State) (P : Header → Prop) (a c : Node.State) : Prop :=
  StoredMono a c ∧ ∀ h, h ∈ c.headers → (∃ h0, h0 ∈ a.headers ∧ h0.id = h.id) ∨ ValidatedBetween env P a c h.id

theorem Prov.refl (env : NodeLedger.State) (P : Header → Prop) (a : Node.State) : Prov env P a a :=
  ⟨StoredMono.refl a, fun h hh => Or.inl ⟨h, hh, rfl⟩⟩

theorem Prov.of_eq (env : NodeLedger.State) (P : Header → Prop) {a c : Node.State} (h : c.headers = a.headers) :
    Prov env P a c :=
  ⟨StoredMono.of_eq h, fun x hx => Or.inl ⟨x, h ▸ hx, rfl⟩⟩

theorem Prov.trans {env : NodeLedger.State} {P : Header → Prop} {a b c : Node.State}
    (h1 : Prov env P a b) (h2 : Prov env P b c) : Prov env P a c := by
  refine ⟨StoredMono.trans h1.1 h2.1, ?_⟩
  intro h hh
  rcases h2.2 h hh with ⟨h0, hm, hid⟩ | ⟨n, x, e, px, m1, m2, hp, hv⟩
  · rcases h1.2 h0 hm with ⟨h00, hm0, hid0⟩ | ⟨n, x, e, px, m1, m2, hp, hv⟩
    · exact Or.inl ⟨h00, hm0, hid0.trans hid⟩
    · exact Or.inr ⟨n, x, e.trans hid, px, m1, StoredMono.trans m2 h2.1, hp, hv⟩
  · exact Or.inr ⟨n, x, e, px, StoredMono.trans h1.1 m1, m2, hp, hv⟩

theorem saveBlockVn_prov (env : NodeLedger.State) (P : Header → Prop) (n : Node.State) (b : Header) (hb : P b) :
    Prov env P n (env.saveBlockVn n b).1 := by
  rcases saveBlockVn_cases env n b with ⟨_, e⟩ | ⟨hv, e⟩ <;> rw [e]
  · exact Prov.refl env P n
  · cases hok : (n.saveBlock b).2 with
    | false => exact Prov.of_eq env P (saveBlock_headers_of_fail n b hok)
    | true =>
      obtain ⟨hh, hp, _⟩ := saveBlock_headers_of_ok n b hok
      refine ⟨saveBlock_storedMono n b, ?_⟩
      intro h hm
      rw [hh] at hm
      rcases List.mem_cons.mp hm with e1 | e1
      · right
        exact ⟨n, b, by rw [e1]; rfl, hb, StoredMono.refl n, saveBlock_storedMono n b, hp, hv⟩
      · left; exact ⟨h, (List.mem_filter.mp e1).1, rfl⟩

theorem saveBlockVn_orphans_sub (env : NodeLedger.State) (n : Node.State) (b : Header) :
    ∀ x, x ∈ (env.saveBlockVn n b).1.orphans → x ∈ n.orphans := by
  rcases saveBlockVn_cases env n b with ⟨_, e⟩ | ⟨_, e⟩ <;> rw [e]
  · exact fun _ h => h
  · exact saveBlock_orphans_sub n b

theorem foldl_prov {env : NodeLedger.State} {P : Header → Prop} (f : Node.State → Nat → Node.State) (n0 : Node.State)
    (hf : ∀ st o, (∀ x, x ∈ st.orphans → x ∈ n0.orphans) →
      Prov env P st (f st o) ∧ (∀ x, x ∈ (f st o).orphans → x ∈ n0.orphans)) :
    ∀ (l : List Nat) (st : Node.State), (∀ x, x ∈ st.orphans → x ∈ n0.orphans) →
      Prov env P st (l.foldl f st) ∧ (∀ x, x ∈ (l.foldl f st).orphans → x ∈ n0.orphans)
  | [], st, hst => ⟨Prov.refl env P st, hst⟩
  | o :: os, st, hst => by
    rw [List.foldl_cons]
    obtain ⟨p1, s1⟩ := hf st o hst
    obtain ⟨p2, s2⟩ := foldl_prov f n0 hf os (f st o) s1
    exact ⟨Prov.trans p1 p2, s2⟩

/-- `saveSubBlock` with validation: provenance, and the pool only shrinks -/
theorem saveSubBlockVn_prov (env : NodeLedger.State) (P : Header → Prop) :
    ∀ (fuel : Nat) (n : Node.State) (id : Nat), (∀ x, x ∈ n.orphans → P x) →
      Prov env P n (NodeLedger.State.saveSubBlockVn env fuel n id) ∧
      (∀ x, x ∈ (NodeLedger.State.saveSubBlockVn env fuel n id).orphans → x ∈ n.orphans)
  | 0, n, _, _ => ⟨Prov.refl env P n, fun _ h => h⟩
  | fuel + 1, n, id, hn => by
    rw [saveSubBlockVn_succ]
    cases alistGet n.prevOrphans id with
    | none => exact ⟨Prov.refl env P n, fun _ h => h⟩
    | some w =>
      simp only
      apply foldl_prov (subStepV env fuel) n _ w n (fun _ h => h)
      intro st o hst
      unfold subStepV
      cases hl : lookupHeader st.orphans o with
      | none => exact ⟨Prov.refl env P st, hst⟩
      | some ob =>
        simp only
        have hob : P ob := hn ob (hst ob (lookupHeader_mem hl))
        have p1 := saveBlockVn_prov env P st ob hob
        have hsub : ∀ x, x ∈ (env.saveBlockVn st ob).1.orphans → x ∈ n.orphans :=
          fun x hx => hst x (saveBlockVn_orphans_sub env st ob x hx)
        cases (env.saveBlockVn st ob).2 with
        | false =>
          simp only [if_true]
          exact ⟨Prov.trans p1 (Prov.of_eq env P (orphanDelete_headers _ _)),
            fun x hx => hsub x (orphanDelete_orphans_sub _ _ x hx)⟩
        | true =>
          simp only [Bool.true_eq_false, if_false]
          obtain ⟨p2, s2⟩ := saveSubBlockVn_prov env P fuel (env.saveBlockVn st ob).1 o (fun x hx => hn x (hsub x hx))
          exact ⟨Prov.trans p1 p2, fun x hx => hsub x (s2 x hx)⟩

theorem orphanAdd_orphans_sub (s : Node.State) (b : Header) :
    ∀ x, x ∈ (s.orphanAdd b).orphans → x = b ∨ x ∈ s.orphans := by
  unfold State.orphanAdd
  split
  · exact fun x h => Or.inr h
  · intro x h
    rcases List.mem_append.mp h with h | h
    · exact Or.inr h
    · exact Or.inl (by simpa using h)

/-- the chain step of a delivery: every stored header is an old one (by id) or was validated
    between — the delivered block, or one that waited in the pool; the pool afterwards holds old
    orphans and possibly the delivered block -/
theorem chainProcessBlock_prov (s : NodeLedger.State) (b : Header) :
    Prov s (fun x => x = b ∨ x ∈ s.node.orphans) s.node (s.chainProcessBlock b).1 ∧
    (∀ x, x ∈ (s.chainProcessBlock b).1.orphans → x = b ∨ x ∈ s.node.orphans) := by
  rcases chainProcessBlock_cases s b with ⟨_, e⟩ | ⟨_, _, e⟩ | ⟨_, _, _, e⟩ | ⟨_, _, _, e⟩
  · rw [e]; exact ⟨Prov.refl _ _ _, fun x h => Or.inr h⟩
  · rw [e]; exact ⟨Prov.of_eq _ _ (orphanAdd_headers _ _), orphanAdd_orphans_sub _ _⟩
  · rw [e]
    exact ⟨saveBlockVn_prov s _ s.node b (Or.inl rfl), fun x h => Or.inr (saveBlockVn_orphans_sub s s.node b x h)⟩
  · rw [e]
    dsimp only
    have p1 := saveBlockVn_prov s (fun x => x = b ∨ x ∈ s.node.orphans) s.node b (Or.inl rfl)
    have hsub : ∀ x, x ∈ (s.saveBlockVn s.node b).1.orphans → x ∈ s.node.orphans := saveBlockVn_orphans_sub s s.node b
    obtain ⟨p2, s2⟩ := saveSubBlockVn_prov s (fun x => x = b ∨ x ∈ s.node.orphans)
      (s.saveBlockVn s.node b).1.fuel (s.saveBlockVn s.node b).1 b.id (fun x hx => Or.inr (hsub x hx))
    refine ⟨Prov.trans (Prov.trans p1 p2) (Prov.of_eq _ _ (tryReorganize_headers _ _)), ?_⟩
    intro x hx
    rw [(tryReorganize_orphans _ _).1] at hx
    exact Or.inr (hsub x (s2 x hx))

/-! ### one verification message -/

/-- the header ids of `hs` all occur in the store of `s` -/
def IdsFrom (s : Node.State) (hs : List Header) : Prop := ∀ h, h ∈ hs → ∃ h0, h0 ∈ s.headers ∧ h0.id = h.id

theorem IdsFrom.self (s : Node.State) : IdsFrom s s.headers := fun h hh => ⟨h, hh, rfl⟩

theorem IdsFrom.replace (s : Node.State) (tgt : Nat) (th : Header) (sup : List SupLink)
    (ht : s.header tgt = some th) :
    IdsFrom s ({ th with sup := sup } :: s.headers.filter (fun h => h.id != tgt)) := by
  intro h hh
  rcases List.mem_cons.mp hh with e | e
  · exact ⟨th, (lookupHeader_some ht).1, by rw [e]⟩
  · exact ⟨h, (List.mem_filter.mp e).1, rfl⟩

theorem authVerification_headers (s : Node.State) (order src tgt : Nat) (sigOk : Bool) :
    IdsFrom s (s.authVerification order src tgt sigOk).1.headers := by
  unfold Node.State.authVerification
  dsimp only
  repeat' split
  all_goals first
    | exact IdsFrom.self s
    | (dsimp only; apply IdsFrom.replace; assumption)
    | (rw [tryReorganize_headers]; dsimp only; apply IdsFrom.replace; assumption)

/-! ### runs -/

/-- `x` has reached the node: it waited in the pool at the start, or was delivered -/
def WasDelivered (init : NodeLedger.State) (evs : List Ev) (x : Header) : Prop :=
  x ∈ init.node.orphans ∨ Ev.deliver x ∈ evs

/-- block `id` was saved by `saveBlock` during some delivery `b` of the history, in a node state
    `n` between the states before and after that delivery, in which its parent was stored and
    `validBlock` answered true; the block itself had reached the node by then -/
def StoredValid (init : NodeLedger.State) (evs : List Ev) (id : Nat) : Prop :=
  ∃ pre b suf n x, evs = pre ++ Ev.deliver b :: suf ∧ x.id = id ∧
    WasDelivered init (pre ++ [Ev.deliver b]) x ∧
    StoredMono (run init pre).node n ∧ StoredMono n (run init (pre ++ [Ev.deliver b])).node ∧
    (n.header x.parent).isSome = true ∧ (run init pre).validIn n x = true

/-- block `id` was attached to the main chain by an accepted reorganisation -/
def Attached (init : NodeLedger.State) (evs : List Ev) (id : Nat) : Prop :=
  ∃ pre e suf att det a, evs = pre ++ e :: suf ∧
    Moved (run init pre) (step (run init pre) e) att det ∧ a ∈ att ∧ a.id = id

theorem Attached.cons {init : NodeLedger.State} {e : Ev} {evs : List Ev} {id : Nat}
    (h : Attached (step init e) evs id) : Attached init (e :: evs) id := by
  obtain ⟨pre, e', suf, att, det, a, h1, h2, h3, h4⟩ := h
  exact ⟨e :: pre, e', suf, att, det, a, by rw [h1]; rfl, h2, h3, h4⟩

theorem StoredValid.append {init : NodeLedger.State} {evs : List Ev} {id : Nat}
    (h : StoredValid init evs id) (more : List Ev) : StoredValid init (evs ++ more) id := by
  obtain ⟨pre, b, suf, n, x, h1, h2, h3, h4, h5, h6, h7⟩ := h
  exact ⟨pre, b, suf ++ more, n, x, by rw [h1]; simp, h2, h3, h4, h5, h6, h7⟩

/-- the pool after one event: old orphans, or the delivered block -/
theorem step_orphans (s : NodeLedger.State) (e : Ev) :
    ∀ x, x ∈ (step s e).node.orphans → x ∈ s.node.orphans ∨ e = Ev.deliver x := by
  intro x hx
  cases e with
  | deliver b =>
    simp only [step, processBlock_eq_settle] at hx
    obtain ⟨_, _, _, _, ho, _⟩ := settle_frame s (s.chainProcessBlock b).1 (s.chainProcessBlock b).2
    rw [ho] at hx
    rcases (chainProcessBlock_prov s b).2 x hx with h | h
    · right; rw [h]
    · left; exact h
  | vote o src tgt ok =>
    simp only [step, NodeLedger.State.authVerification] at hx
    obtain ⟨_, _, _, _, ho, _⟩ := settle_frame s (s.node.authVerification o src tgt ok).1 (s.node.authVerification o src tgt ok).2
    rw [ho, (authVerification_orphans s.node o src tgt ok).1] at hx
    left; exact hx
  | restart =>
    simp only [step] at hx
    cases hr : s.restart with
    | none => rw [hr] at hx; left; exact hx
    | some s' =>
      rw [hr] at hx
      simp only at hx
      unfold NodeLedger.State.restart at hr
      cases hn : s.node.restart with
      | none => rw [hn] at hr; cases hr
      | some n' =>
        rw [hn] at hr
        simp only [Option.map_some, Option.some.injEq] at hr
        subst hr
        obtain ⟨_, _, h3, _⟩ := restart_frame s.node n' hn
        rw [h3] at hx; cases hx

/-- one event: every stored header has the id of an earlier stored header, or its block was
    validated during this delivery -/
theorem step_headers (s : NodeLedger.State) (e : Ev) :
    ∀ h, h ∈ (step s e).node.headers →
      (∃ h0, h0 ∈ s.node.headers ∧ h0.id = h.id) ∨
      (∃ b, e = Ev.deliver b ∧
        ValidatedBetween s (fun x => x = b ∨ x ∈ s.node.orphans) s.node (step s e).node h.id) := by
  intro h hh
  cases e with
  | deliver b =>
    have hnode : (step s (Ev.deliver b)).node.headers = (s.chainProcessBlock b).1.headers := by
      simp only [step, processBlock_eq_settle]
      exact (settle_frame s _ _).2.1
    rw [hnode] at hh
    rcases (chainProcessBlock_prov s b).1.2 h hh with h1 | ⟨n, x, e1, px, m1, m2, hp, hv⟩
    · exact Or.inl h1
    · right
      refine ⟨b, rfl, n, x, e1, px, m1, ?_, hp, hv⟩
      intro id hi
      have := m2 id hi
      simp only [State.header, hnode]
      exact this
  | vote o src tgt ok =>
    simp only [step, NodeLedger.State.authVerification] at hh
    obtain ⟨_, hhd, _⟩ := settle_frame s (s.node.authVerification o src tgt ok).1 (s.node.authVerification o src tgt ok).2
    rw [hhd] at hh
    exact Or.inl (authVerification_headers s.node o src tgt ok h hh)
  | restart =>
    simp only [step] at hh
    cases hr : s.restart with
    | none => rw [hr] at hh; exact Or.inl ⟨h, hh, rfl⟩
    | some s' =>
      rw [hr] at hh
      simp only at hh
      unfold NodeLedger.State.restart at hr
      cases hn : s.node.restart with
      | none => rw [hn] at hr; cases hr
      | some n' =>
        rw [hn] at hr
        simp only [Option.map_some, Option.some.injEq] at hr
        subst hr
        obtain ⟨_, h2, _, _⟩ := restart_frame s.node n' hn
        rw [h2] at hh
        exact Or.inl ⟨h, hh, rfl⟩

/-- along ANY run: every block in the pool has been delivered (or waited there at the start) -/
theorem run_orphans : ∀ (evs : List Ev) (init : NodeLedger.State),
    ∀ x, x ∈ (run init evs).node.orphans → WasDelivered init evs x
  | [], _, x, hx => Or.inl hx
  | e :: evs, init, x, hx => by
    rcases run_orphans evs (step init e) x hx with h | h
    · rcases step_orphans init e x h with h1 | h1
      · exact Or.inl h1
      · right; rw [h1]; exact List.mem_cons_self
    · exact Or.inr (List.mem_cons_of_mem _ h)

theorem WasDelivered.cons {init : NodeLedger.State} {e : Ev} {evs : List Ev} {x : Header}
    (h : WasDelivered (step init e) evs x) : WasDelivered init (e :: evs) x := by
  rcases h with h | h
  · rcases step_orphans init e x h with h1 | h1
    · exact Or.inl h1
    · right; rw [h1]; exact List.mem_cons_self
  · exact Or.inr (List.mem_cons_of_mem _ h)

theorem StoredValid.cons {init : NodeLedger.State} {e : Ev} {evs : List Ev} {id : Nat}
    (h : StoredValid (step init e) evs id) : StoredValid init (e :: evs) id := by
  obtain ⟨pre, b, suf, n, x, h1, h2, h3, h4, h5, h6, h7⟩ := h
  exact ⟨e :: pre, b, suf, n, x, by rw [h1]; rfl, h2, WasDelivered.cons h3, h4, h5, h6, h7⟩

/-- along ANY run, in any delivery order: every stored header is an initial one (by id) or its
    block was `StoredValid` -/
theorem run_headers : ∀ (evs : List Ev) (init : NodeLedger.State),
    ∀ h, h ∈ (run init evs).node.headers →
      (∃ h0, h0 ∈ init.node.headers ∧ h0.id = h.id) ∨ StoredValid init evs h.id
  | [], _, h, hh => Or.inl ⟨h, hh, rfl⟩
  | e :: evs, init, h, hh => by
    rcases run_headers evs (step init e) h hh with ⟨h0, hm, hid⟩ | hv
    · rcases step_headers init e h0 hm with ⟨h1, hm1, hid1⟩ | ⟨b, he, n, x, e1, px, m1, m2, hp, hv⟩
      · left; exact ⟨h1, hm1, hid1.trans hid⟩
      · right
        subst he
        refine ⟨[], b, evs, n, x, rfl, e1.trans hid, ?_, m1, m2, hp, hv⟩
        rcases px with px | px
        · right; rw [px]; exact List.mem_cons_self
        · left; exact px
    · right; exact hv.cons

/-- along any run: every main-chain index entry is an initial one or its block was `Attached` -/
theorem run_index : ∀ (evs : List Ev) (init : NodeLedger.State),
    ∀ p, p ∈ (run init evs).node.index → p ∈ init.node.index ∨ Attached init evs p.2
  | [], _, p, hp => Or.inl hp
  | e :: evs, init, p, hp => by
    rcases run_index evs (step init e) p hp with h | h
    · rcases step_spec init e with hf | ⟨att, det, hm⟩
      · left; rw [hf.index] at h; exact h
      · rw [hm.index] at h
        rcases mem_foldl_alistSet att _ p h with h1 | ⟨a, ha, e1⟩
        · left; exact h1
        · right
          exact ⟨[], e, evs, att, det, a, rfl, hm, ha, by rw [e1]⟩
    · right; exact h.cons

/-- no orphans around: a delivery with stored parent leaves none -/
theorem deliver_noOrphans (s : NodeLedger.State) (b : Header) (hno : NoOrphans s)
    (hp : (s.node.header b.parent).isSome = true) : NoOrphans (s.processBlock b).1 := by
  rw [processBlock_eq_settle]
  obtain ⟨_, _, _, _, ho, hpo, _, _⟩ := settle_frame s (s.chainProcessBlock b).1 (s.chainProcessBlock b).2
  unfold NoOrphans
  rw [ho, hpo]
  rcases chainProcessBlock_cases s b with ⟨_, e⟩ | ⟨_, hn, _⟩ | ⟨_, _, _, e⟩ | ⟨_, _, _, e⟩
  · rw [e]; exact hno
  · rw [Option.isNone_iff_eq_none] at hn; rw [hn] at hp; cases hp
  · rw [e]; exact saveBlockVn_orphans_empty s s.node b hno.1 hno.2
  · rw [e]
    have hso := saveBlockVn_orphans_empty s s.node b hno.1 hno.2
    rw [saveSubBlockVn_no_waiting _ _ _ _ hso.2]
    dsimp only
    have hto := tryReorganize_orphans (s.saveBlockVn s.node b).1 (s.saveBlockVn s.node b).1.bestChain
    rw [hto.1, hto.2]; exact hso

end BytomModel.Lemmas.C13
