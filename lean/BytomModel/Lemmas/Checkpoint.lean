/-
Lemmas about M-Ckpt (`Model/Checkpoint`): the byte-string order, the comparator of
AllValidators is a strict total order on validators with distinct keys, insertion sort is a
sorted permutation, a strictly sorted list is determined by its members (so neither Go's
unstable sort.Slice nor its random map iteration order can influence the result), map
operations keep keys distinct, slot arithmetic.
-/
import BytomModel.Model.Checkpoint
import Mathlib.Tactic.Linarith

namespace BytomModel.Lemmas.Checkpoint
open BytomModel.Model.Checkpoint

/-! ### `ltB` is a strict total order -/

theorem ltB_irrefl : ∀ a : Key, ltB a a = false
  | [] => rfl
  | x :: t => by simp [ltB, ltB_irrefl t]

theorem ltB_asymm : ∀ {a b : Key}, ltB a b = true → ltB b a = false
  | [], [], h => by simp [ltB] at h
  | [], _ :: _, _ => rfl
  | _ :: _, [], h => by simp [ltB] at h
  | x :: s, y :: t, h => by
    simp only [ltB] at h ⊢
    by_cases h1 : x < y
    · have : ¬ y < x := by omega
      simp [this, h1]
    · by_cases h2 : y < x
      · simp [h1, h2] at h
      · simp only [h1, h2, if_false] at h ⊢
        exact ltB_asymm h

theorem ltB_trans : ∀ {a b c : Key}, ltB a b = true → ltB b c = true → ltB a c = true
  | [], [], _, h, _ => by simp [ltB] at h
  | [], _ :: _, [], _, h => by simp [ltB] at h
  | [], _ :: _, _ :: _, _, _ => rfl
  | _ :: _, [], _, h, _ => by simp [ltB] at h
  | _ :: _, _ :: _, [], _, h => by simp [ltB] at h
  | x :: s, y :: t, z :: u, h1, h2 => by
    simp only [ltB] at h1 h2 ⊢
    by_cases a1 : x < y
    · by_cases b1 : y < z
      · have : x < z := by omega
        simp [this]
      · by_cases b2 : z < y
        · simp [b1, b2] at h2
        · have : x < z := by omega
          simp [this]
    · by_cases a2 : y < x
      · simp [a1, a2] at h1
      · simp only [a1, a2, if_false] at h1
        have e : x = y := by omega
        subst e
        by_cases b1 : x < z
        · simp [b1]
        · by_cases b2 : z < x
          · simp [b1, b2] at h2
          · simp only [b1, b2, if_false] at h2 ⊢
            exact ltB_trans h1 h2

theorem ltB_total : ∀ {a b : Key}, a ≠ b → ltB a b = true ∨ ltB b a = true
  | [], [], h => absurd rfl h
  | [], _ :: _, _ => Or.inl rfl
  | _ :: _, [], _ => Or.inr rfl
  | x :: s, y :: t, h => by
    simp only [ltB]
    by_cases h1 : x < y
    · simp [h1]
    · by_cases h2 : y < x
      · simp [h2]
      · have e : x = y := by omega
        subst e
        simp only [h1, if_false]
        exact ltB_total (fun c => h (by rw [c]))

/-! ### the comparator of AllValidators -/

theorem before_irrefl (a : Validator) : before a a = false := by
  simp [before, ltB_irrefl]

theorem before_asymm {a b : Validator} (h : before a b = true) : before b a = false := by
  unfold before at h ⊢
  by_cases e : a.voteNum = b.voteNum
  · simp only [e, ne_eq, not_true_eq_false, if_false] at h ⊢
    exact ltB_asymm h
  · have e' : ¬ b.voteNum = a.voteNum := fun c => e c.symm
    simp only [ne_eq, e, not_false_eq_true, if_true, decide_eq_true_eq] at h
    simp only [ne_eq, e', not_false_eq_true, if_true, decide_eq_false_iff_not]
    omega

theorem before_trans {a b c : Validator} (h1 : before a b = true) (h2 : before b c = true) : before a c = true := by
  unfold before at h1 h2 ⊢
  by_cases e1 : a.voteNum = b.voteNum
  · by_cases e2 : b.voteNum = c.voteNum
    · have e3 : a.voteNum = c.voteNum := e1.trans e2
      simp only [e1, e2, e3, ne_eq, not_true_eq_false, if_false] at h1 h2 ⊢
      exact ltB_trans h2 h1
    · simp only [ne_eq, e2, not_false_eq_true, if_true, decide_eq_true_eq] at h2
      have e3 : ¬ a.voteNum = c.voteNum := by omega
      simp only [ne_eq, e3, not_false_eq_true, if_true, decide_eq_true_eq]; omega
  · simp only [ne_eq, e1, not_false_eq_true, if_true, decide_eq_true_eq] at h1
    by_cases e2 : b.voteNum = c.voteNum
    · have e3 : ¬ a.voteNum = c.voteNum := by omega
      simp only [ne_eq, e3, not_false_eq_true, if_true, decide_eq_true_eq]; omega
    · simp only [ne_eq, e2, not_false_eq_true, if_true, decide_eq_true_eq] at h2
      have e3 : ¬ a.voteNum = c.voteNum := by omega
      simp only [ne_eq, e3, not_false_eq_true, if_true, decide_eq_true_eq]; omega

theorem before_total {a b : Validator} (h : a.pubKey ≠ b.pubKey) : before a b = true ∨ before b a = true := by
  unfold before
  by_cases e : a.voteNum = b.voteNum
  · simp only [e, ne_eq, not_true_eq_false, if_false]
    exact (ltB_total h).symm
  · have e' : ¬ b.voteNum = a.voteNum := fun c => e c.symm
    simp only [ne_eq, e, e', not_false_eq_true, if_true, decide_eq_true_eq]
    omega

/-! ### insertion sort: a sorted permutation -/

theorem perm_insertV (x : Validator) : ∀ l : List Validator, (insertV x l).Perm (x :: l)
  | [] => List.Perm.refl _
  | y :: t => by
    simp only [insertV]
    split
    · exact List.Perm.refl _
    · exact ((perm_insertV x t).cons y).trans (List.Perm.swap x y t)

theorem perm_sortV : ∀ l : List Validator, (sortV l).Perm l
  | [] => List.Perm.refl _
  | x :: t => (perm_insertV x (sortV t)).trans ((perm_sortV t).cons x)

def Sorted (l : List Validator) : Prop := l.Pairwise (fun a b => before a b = true)

def KeysDistinct (l : List Validator) : Prop := l.Pairwise (fun a b => a.pubKey ≠ b.pubKey)

theorem sorted_insertV {x : Validator} : ∀ {l : List Validator}, Sorted l → (∀ y ∈ l, x.pubKey ≠ y.pubKey) → Sorted (insertV x l)
  | [], _, _ => by simp [insertV, Sorted]
  | y :: t, hs, hd => by
    unfold Sorted at hs ⊢
    simp only [insertV]
    rw [List.pairwise_cons] at hs
    split
    · rename_i hb
      rw [List.pairwise_cons]
      refine ⟨?_, List.pairwise_cons.mpr hs⟩
      intro z hz
      rcases List.mem_cons.mp hz with e | e
      · subst e; exact hb
      · exact before_trans hb (hs.1 z e)
    · rename_i hb
      have hyx : before y x = true := by
        rcases before_total (hd y (by simp)) with c | c
        · exact absurd c hb
        · exact c
      rw [List.pairwise_cons]
      refine ⟨?_, sorted_insertV hs.2 (fun z hz => hd z (List.mem_cons_of_mem _ hz))⟩
      intro z hz
      rcases List.mem_cons.mp ((perm_insertV x t).subset hz) with e | e
      · subst e; exact hyx
      · exact hs.1 z e

theorem sorted_sortV : ∀ {l : List Validator}, KeysDistinct l → Sorted (sortV l)
  | [], _ => by simp [sortV, Sorted]
  | x :: t, hd => by
    unfold KeysDistinct at hd
    rw [List.pairwise_cons] at hd
    simp only [sortV]
    apply sorted_insertV (sorted_sortV hd.2)
    intro y hy
    exact hd.1 y ((perm_sortV t).subset hy)

/-- a strictly sorted list is determined by its members -/
theorem sorted_perm_eq : ∀ {l1 l2 : List Validator}, Sorted l1 → Sorted l2 → l1.Perm l2 → l1 = l2
  | [], l2, _, _, hp => by rw [List.nil_perm] at hp; exact hp.symm
  | x :: t, [], _, _, hp => by
    have := hp.length_eq; simp at this
  | x :: t, y :: u, h1, h2, hp => by
    unfold Sorted at h1 h2
    rw [List.pairwise_cons] at h1 h2
    have hxy : x = y := by
      by_contra hne
      have hx : x ∈ u := by
        rcases List.mem_cons.mp (hp.subset (List.mem_cons_self)) with e | e
        · exact absurd e hne
        · exact e
      have hy : y ∈ t := by
        rcases List.mem_cons.mp (hp.symm.subset (List.mem_cons_self)) with e | e
        · exact absurd e.symm hne
        · exact e
      have a := h1.1 y hy
      have b := h2.1 x hx
      rw [before_asymm a] at b
      cases b
    subst hxy
    rw [sorted_perm_eq h1.2 h2.2 (List.Perm.cons_inv hp)]

/-! ### maps keep their keys distinct -/

def kkeys (m : KMap) : List Key := m.map Prod.fst

theorem kget_mem {m : KMap} {a : Key} {v : Nat} (h : kget m a = some v) : (a, v) ∈ m := by
  induction m with
  | nil => simp [kget] at h
  | cons p t ih =>
    obtain ⟨b, w⟩ := p
    by_cases hb : b = a
    · simp [kget, hb] at h; subst hb; subst h; simp
    · simp [kget, hb] at h; exact List.mem_cons_of_mem _ (ih h)

theorem mem_kget {m : KMap} (hn : (kkeys m).Nodup) {a : Key} {v : Nat} (h : (a, v) ∈ m) : kget m a = some v := by
  induction m with
  | nil => simp at h
  | cons p t ih =>
    obtain ⟨b, w⟩ := p
    simp only [kkeys, List.map_cons, List.nodup_cons] at hn
    rcases List.mem_cons.mp h with e | e
    · cases e; simp [kget]
    · have hk : a ∈ kkeys t := List.mem_map.mpr ⟨(a, v), e, rfl⟩
      have hb : b ≠ a := fun e' => hn.1 (e' ▸ hk)
      simp [kget, hb]; exact ih hn.2 e

theorem kget_none_iff (m : KMap) (a : Key) : kget m a = none ↔ a ∉ kkeys m := by
  induction m with
  | nil => simp [kget, kkeys]
  | cons p t ih =>
    obtain ⟨b, w⟩ := p
    by_cases h : b = a
    · simp [kget, kkeys, h]
    · have h' : ¬ a = b := fun e => h e.symm
      simp only [kget, h, if_false, ih, kkeys, List.map_cons, List.mem_cons, h', false_or]

theorem kget_kset_same (m : KMap) (a : Key) (v : Nat) : kget (kset m a v) a = some v := by
  induction m with
  | nil => simp [kset, kget]
  | cons p t ih =>
    obtain ⟨b, w⟩ := p
    by_cases h : b = a
    · simp [kset, kget, h]
    · simp [kset, kget, h, ih]

theorem kget_kset_other (m : KMap) {a b : Key} (v : Nat) (h : a ≠ b) : kget (kset m a v) b = kget m b := by
  induction m with
  | nil => simp [kset, kget, h]
  | cons p t ih =>
    obtain ⟨c, w⟩ := p
    by_cases hc : c = a
    · subst hc; simp [kset, kget, h]
    · by_cases hb : c = b
      · subst hb; simp [kset, kget, hc]
      · simp [kset, kget, hc, hb, ih]

theorem kkeys_kset (m : KMap) (a : Key) (v : Nat) :
    kkeys (kset m a v) = if a ∈ kkeys m then kkeys m else kkeys m ++ [a] := by
  induction m with
  | nil => simp [kset, kkeys]
  | cons p t ih =>
    obtain ⟨b, w⟩ := p
    by_cases h : b = a
    · subst h; simp [kset, kkeys]
    · have h' : ¬ a = b := fun e => h e.symm
      simp only [kset, h, if_false, kkeys, List.map_cons, List.mem_cons, h', false_or]
      have := ih
      simp only [kkeys] at this
      rw [this]
      split <;> simp_all

theorem nodup_kset {m : KMap} (a : Key) (v : Nat) (h : (kkeys m).Nodup) : (kkeys (kset m a v)).Nodup := by
  rw [kkeys_kset]
  split
  · exact h
  · rename_i hn
    rw [List.nodup_append]
    refine ⟨h, by simp, ?_⟩
    intro x hx y hy
    simp at hy; subst hy
    intro e; subst e; exact hn hx

theorem kkeys_kdel_sub (m : KMap) (a : Key) : ∀ x, x ∈ kkeys (kdel m a) → x ∈ kkeys m := by
  induction m with
  | nil => intro x h; simpa [kdel] using h
  | cons p t ih =>
    obtain ⟨b, w⟩ := p
    intro x h
    by_cases hb : b = a
    · simp only [kdel, hb, if_true] at h
      simp only [kkeys, List.map_cons, List.mem_cons]; exact Or.inr h
    · simp only [kdel, hb, if_false, kkeys, List.map_cons, List.mem_cons] at h ⊢
      rcases h with e | e
      · exact Or.inl e
      · exact Or.inr (ih x e)

theorem nodup_kdel {m : KMap} (a : Key) (h : (kkeys m).Nodup) : (kkeys (kdel m a)).Nodup := by
  induction m with
  | nil => simpa [kdel] using h
  | cons p t ih =>
    obtain ⟨b, w⟩ := p
    simp only [kkeys, List.map_cons, List.nodup_cons] at h
    by_cases hb : b = a
    · simp only [kdel, hb, if_true]; exact h.2
    · simp only [kdel, hb, if_false, kkeys, List.map_cons, List.nodup_cons]
      exact ⟨fun c => h.1 (kkeys_kdel_sub t a b c), ih h.2⟩

theorem kget_kdel_same {m : KMap} (a : Key) (h : (kkeys m).Nodup) : kget (kdel m a) a = none := by
  induction m with
  | nil => simp [kdel, kget]
  | cons p t ih =>
    obtain ⟨b, w⟩ := p
    simp only [kkeys, List.map_cons, List.nodup_cons] at h
    by_cases hb : b = a
    · subst hb
      simp only [kdel, if_true]
      rw [kget_none_iff]; exact h.1
    · simp [kdel, kget, hb, ih h.2]

theorem kget_kdel_other (m : KMap) {a b : Key} (h : a ≠ b) : kget (kdel m a) b = kget m b := by
  induction m with
  | nil => simp [kdel, kget]
  | cons p t ih =>
    obtain ⟨c, w⟩ := p
    by_cases hc : c = a
    · subst hc; simp [kdel, kget, h]
    · by_cases hb : c = b
      · subst hb; simp [kdel, kget, hc]
      · simp [kdel, kget, hc, hb, ih]

theorem nodup_applyVeto {m : KMap} (v : Key × Nat) (h : (kkeys m).Nodup) : (kkeys (applyVeto m v)).Nodup := by
  unfold applyVeto; split
  · exact nodup_kset _ _ h
  · exact nodup_kdel _ h

theorem nodup_applyVote {m : KMap} (v : Key × Nat) (h : (kkeys m).Nodup) : (kkeys (applyVote m v)).Nodup :=
  nodup_kset _ _ h

theorem nodup_foldl {α : Type} (f : KMap → α → KMap) (hf : ∀ m a, (kkeys m).Nodup → (kkeys (f m a)).Nodup) :
    ∀ (l : List α) (m : KMap), (kkeys m).Nodup → (kkeys (l.foldl f m)).Nodup
  | [], _, h => h
  | a :: t, m, h => nodup_foldl f hf t (f m a) (hf m a h)

theorem nodup_applyVotes {m : KMap} (txs : List CTx) (h : (kkeys m).Nodup) : (kkeys (applyVotes m txs)).Nodup := by
  unfold applyVotes
  apply nodup_foldl _ _ txs m h
  intro m tx hm
  unfold applyTxVotes
  apply nodup_foldl _ (fun m a => nodup_applyVote a) tx.votes
  exact nodup_foldl _ (fun m a => nodup_applyVeto a) tx.vetoes m hm

/-! ### slot arithmetic -/

theorem slot_formula {I n x : Nat} (_hI : 0 < I) : x % (n * I) / I = x / I % n := by
  rw [Nat.mul_comm n I]
  exact Nat.mod_mul_right_div_self x I n

end BytomModel.Lemmas.Checkpoint
