/-
Helper lemmas for the access-control model (`Model/Authn.lean`): the association lists,
one step of a history, and the cache invariant (every cache entry is justified by an earlier
request whose credentials `user:pw` are the key and were a live token at that time).
-/
import BytomModel.Model.Authn

namespace BytomModel.Lemmas.Authn
open BytomModel.Authn

theorem get_put {β : Type} (m : List (Bytes × β)) (x : Bytes) (v : β) (y : Bytes) :
    mget (mput m x v) y = if x = y then some v else mget m y := by
  induction m with
  | nil => simp [mput, mget]
  | cons q m ih =>
    obtain ⟨k, v0⟩ := q
    simp only [mput]
    by_cases hk : k = x
    · subst hk
      simp only [if_true, mget]
      by_cases h2 : k = y <;> simp [h2]
    · simp only [if_neg hk, mget, ih]
      by_cases h2 : k = y
      · subst h2; simp [Ne.symm hk]
      · simp [h2]

theorem get_del {β : Type} (m : List (Bytes × β)) (x y : Bytes) :
    mget (mdel m x) y = if x = y then none else mget m y := by
  induction m with
  | nil => simp [mdel, mget]
  | cons q m ih =>
    obtain ⟨k, v0⟩ := q
    simp only [mdel]
    by_cases hk : k = x
    · subst hk
      simp only [if_true, ih, mget]
      by_cases h2 : k = y <;> simp [h2]
    · simp only [if_neg hk, mget, ih]
      by_cases h2 : k = y
      · subst h2; simp [Ne.symm hk]
      · simp [h2]

theorem final_snoc (disable : Bool) (pre : List Op) (o : Op) :
    final disable (pre ++ [o]) = step disable (final disable pre) o := by
  simp [final, List.foldl_append]

theorem final_append (disable : Bool) (a b : List Op) :
    final disable (a ++ b) = b.foldl (step disable) (final disable a) := by
  simp [final, List.foldl_append]

/-- the state after `Authenticate` is the state after `tokenAuthn` (the rest only reads) -/
theorem authenticate_state (disable : Bool) (s : State) (r : Req) :
    (authenticate disable s r).1 = (tokenAuthn disable s r).1 := by
  unfold authenticate
  generalize tokenAuthn disable s r = ta
  obtain ⟨s', token, err⟩ := ta
  simp only []
  repeat (first | rfl | split)

theorem authenticate_local (disable : Bool) (s : State) (r : Req) :
    (authenticate disable s r).2.ctxLocal = isLocal r.origin := by
  unfold authenticate
  generalize tokenAuthn disable s r = ta
  obtain ⟨s', token, err⟩ := ta
  simp only []
  repeat (first | rfl | split)

/-- the verdict of a non-local request to a non-protected, non-exempt path is `tokenAuthn`'s -/
theorem authenticate_verdict_remote (disable : Bool) (s : State) (r : Req)
    (hloc : isLocal r.origin = false) (hprot : protectedPath r.path = false) (hex : exemptPath r.path = false) :
    (authenticate disable s r).2.verdict = (tokenAuthn disable s r).2.2 := by
  unfold authenticate
  generalize tokenAuthn disable s r = ta
  obtain ⟨s', token, err⟩ := ta
  simp only [protectedPath, exemptPath, Bool.or_eq_false_iff] at hprot hex
  obtain ⟨⟨p1, p2⟩, p3⟩ := hprot
  obtain ⟨⟨⟨e1, e2⟩, e3⟩, e4⟩ := hex
  simp [hloc, p1, p2, p3, e1, e2, e3, e4]

theorem cachedCheck_cases (s : State) (u p : Bytes) :
    ((cachedCheck s u p).2 = true ∧ check s.tokens u p = true ∧
        (cachedCheck s u p).1 = { s with cache := mput s.cache (u ++ 58 :: p) s.now }) ∨
    ((cachedCheck s u p).2 = true ∧ (cachedCheck s u p).1 = s ∧
        ∃ last, mget s.cache (u ++ 58 :: p) = some last ∧ s.now ≤ last + tokenExpiry) ∨
    ((cachedCheck s u p).2 = false ∧ (cachedCheck s u p).1 = s ∧ check s.tokens u p = false ∧
        ∀ last, mget s.cache (u ++ 58 :: p) = some last → s.now > last + tokenExpiry) := by
  simp only [cachedCheck]
  cases hg : mget s.cache (u ++ 58 :: p) with
  | none =>
    cases hc : check s.tokens u p
    · right; right; simp
    · left; simp
  | some last =>
    by_cases hst : s.now > last + tokenExpiry
    · cases hc : check s.tokens u p
      · right; right; simp [hst]
      · left; simp [hst]
    · right; left; simp [hst]; omega

/-- `Justified pre k t`: somewhere in the history `pre` a request was made at time `t` whose
    credentials `(u, p)` concatenate to `k` and were, at that moment, a live issued token. -/
def Justified (disable : Bool) (pre : List Op) (k : Bytes) (t : Nat) : Prop :=
  ∃ pre1 r1 rest u p, pre = pre1 ++ Op.request r1 :: rest ∧ parseBasic r1.auth = some (u, p) ∧
    u ++ 58 :: p = k ∧ check (final disable pre1).tokens u p = true ∧ (final disable pre1).now = t

theorem Justified.mono {disable pre k t} (o : Op) (h : Justified disable pre k t) :
    Justified disable (pre ++ [o]) k t := by
  obtain ⟨pre1, r1, rest, u, p, h1, h2, h3, h4, h5⟩ := h
  exact ⟨pre1, r1, rest ++ [o], u, p, by simp [h1], h2, h3, h4, h5⟩

def CacheInv (disable : Bool) (pre : List Op) : Prop :=
  ∀ k t, mget (final disable pre).cache k = some t → Justified disable pre k t

theorem cacheInv_snoc (disable : Bool) (pre : List Op) (o : Op) (h : CacheInv disable pre) :
    CacheInv disable (pre ++ [o]) := by
  intro k t hk
  rw [final_snoc] at hk
  cases o with
  | create id sec =>
    have : (step disable (final disable pre) (.create id sec)).cache = (final disable pre).cache := by
      simp only [step, create]; repeat (first | rfl | split)
    rw [this] at hk
    exact (h k t hk).mono _
  | delete id => exact (h k t hk).mono _
  | advance d => exact (h k t hk).mono _
  | request r =>
    simp only [step, authenticate_state] at hk
    unfold tokenAuthn at hk
    by_cases hd : disable = true
    · subst hd
      simp only [if_true] at hk
      exact (h k t hk).mono _
    · have hd' : disable = false := by cases disable <;> simp_all
      subst hd'
      simp only [Bool.false_eq_true, if_false] at hk
      cases hp : parseBasic r.auth with
      | none => simp only [hp] at hk; exact (h k t hk).mono _
      | some up =>
        obtain ⟨u, p⟩ := up
        simp only [hp] at hk
        rcases cachedCheck_cases (final false pre) u p with ⟨_, hc, hs⟩ | ⟨_, hs, _⟩ | ⟨_, hs, _⟩
        · rw [hs] at hk
          simp only [get_put] at hk
          by_cases hkey : u ++ 58 :: p = k
          · simp only [hkey, if_true, Option.some.injEq] at hk
            exact ⟨pre, r, [], u, p, rfl, hp, hkey, hc, hk⟩
          · simp only [hkey, if_false] at hk
            exact (h k t hk).mono _
        · rw [hs] at hk; exact (h k t hk).mono _
        · rw [hs] at hk; exact (h k t hk).mono _

theorem cacheInv_nil (disable : Bool) : CacheInv disable [] := by
  intro k t hk; simp [final, init, mget] at hk

theorem cacheInv_append (disable : Bool) (ops : List Op) : ∀ pre, CacheInv disable pre → CacheInv disable (pre ++ ops) := by
  induction ops with
  | nil => intro pre h; simpa using h
  | cons o os ih =>
    intro pre h
    have := ih (pre ++ [o]) (cacheInv_snoc disable pre o h)
    simpa using this

/-- every entry of the credential cache, after ANY history, is justified -/
theorem cacheInv (disable : Bool) (pre : List Op) : CacheInv disable pre := by
  simpa using cacheInv_append disable pre [] (cacheInv_nil disable)

/-- the clock never goes back -/
theorem step_now_le (disable : Bool) (s : State) (o : Op) : s.now ≤ (step disable s o).now := by
  cases o with
  | create id sec => simp only [step, create]; repeat (first | exact Nat.le_refl _ | split)
  | delete id => exact Nat.le_refl _
  | advance d => simp [step]
  | request r =>
    simp only [step, authenticate_state]
    unfold tokenAuthn
    split
    · exact Nat.le_refl _
    · split
      · exact Nat.le_refl _
      · rename_i u p _
        rcases cachedCheck_cases s u p with ⟨_, _, hs⟩ | ⟨_, hs, _⟩ | ⟨_, hs, _⟩ <;> simp [hs]

theorem foldl_now_le (disable : Bool) (ops : List Op) (s : State) : s.now ≤ (ops.foldl (step disable) s).now := by
  induction ops generalizing s with
  | nil => exact Nat.le_refl _
  | cons o os ih => exact Nat.le_trans (step_now_le disable s o) (ih _)

/-- `BasicAuth` splits at the FIRST colon: the user part has none, and user ++ ':' ++ pw is
    the payload again — so the cache key `user + ":" + pw` IS the decoded payload -/
theorem splitColon_spec : ∀ (raw u p : Bytes), splitColon raw = some (u, p) → raw = u ++ 58 :: p
  | [], u, p, h => by simp [splitColon] at h
  | c :: cs, u, p, h => by
    simp only [splitColon] at h
    split at h
    · rename_i hc
      simp only [Option.some.injEq, Prod.mk.injEq] at h
      obtain ⟨rfl, rfl⟩ := h
      simp [hc]
    · cases hs : splitColon cs with
      | none => simp [hs] at h
      | some up =>
        obtain ⟨u', p'⟩ := up
        simp only [hs, Option.some.injEq, Prod.mk.injEq] at h
        obtain ⟨rfl, rfl⟩ := h
        have := splitColon_spec cs u' p' hs
        simp [this]

/-- the cache key determines the credential pair -/
theorem key_injective (a a' : Option Bytes) (u p u' p' : Bytes)
    (h : parseBasic a = some (u, p)) (h' : parseBasic a' = some (u', p'))
    (hk : u' ++ 58 :: p' = u ++ 58 :: p) : u' = u ∧ p' = p := by
  cases a with
  | none => simp [parseBasic] at h
  | some raw =>
    cases a' with
    | none => simp [parseBasic] at h'
    | some raw' =>
      simp only [parseBasic] at h h'
      have e := splitColon_spec raw u p h
      have e' := splitColon_spec raw' u' p' h'
      have : raw' = raw := by rw [e, e', hk]
      subst this
      rw [h] at h'
      simp only [Option.some.injEq, Prod.mk.injEq] at h'
      exact ⟨h'.1.symm, h'.2.symm⟩

end BytomModel.Lemmas.Authn
