/-
Lemmas about the VM number codec (`leToNat`, `natToLEF`, `bigIntBytes`, `asBigInt`).
-/
import BytomModel.Model.VM.Types
import Mathlib.Tactic.Linarith
namespace BytomModel.VM

theorem natToLEF_length_le (f n : Nat) : (natToLEF f n).length ≤ f := by
  induction f generalizing n with
  | zero => simp [natToLEF]
  | succ f ih =>
    unfold natToLEF
    split
    · simp
    · simp only [List.length_cons]; have := ih (n / 256); omega

theorem leToNat_natToLEF (f n : Nat) (h : n < 256 ^ f) : leToNat (natToLEF f n) = n := by
  induction f generalizing n with
  | zero => simp [natToLEF, leToNat]; simp at h; omega
  | succ f ih =>
    unfold natToLEF
    split
    · next h0 => simp [leToNat, h0]
    · have hlt : n / 256 < 256 ^ f := by
        rw [Nat.div_lt_iff_lt_mul (by norm_num)]; rw [pow_succ] at h; exact h
      simp only [leToNat, ih _ hlt]
      have : (UInt8.ofNat (n % 256)).toNat = n % 256 := by
        simp [UInt8.toNat_ofNat']
      rw [this]; omega

/-- the last byte of a minimal encoding is non-zero -/
theorem natToLEF_getLast_ne_zero (f n : Nat) (h : n < 256 ^ f) :
    ∀ b, (natToLEF f n).getLast? = some b → b ≠ 0 := by
  induction f generalizing n with
  | zero => simp [natToLEF]
  | succ f ih =>
    unfold natToLEF
    split
    · simp
    · next hn =>
      have hlt : n / 256 < 256 ^ f := by
        rw [Nat.div_lt_iff_lt_mul (by norm_num)]; rw [pow_succ] at h; exact h
      intro b hb
      rw [List.getLast?_cons] at hb
      cases hrest : (natToLEF f (n / 256)).getLast? with
      | none =>
        rw [hrest] at hb
        simp at hb
        -- the tail is empty, so n / 256 = 0 and the byte is n itself
        have hnil : natToLEF f (n / 256) = [] := by
          cases hl : natToLEF f (n / 256) with
          | nil => rfl
          | cons a as => rw [hl] at hrest; simp [List.getLast?_cons] at hrest
        have h0 : n / 256 = 0 := by
          have := leToNat_natToLEF f (n / 256) hlt
          rw [hnil] at this; simp [leToNat] at this; omega
        subst hb
        intro hz
        have : (UInt8.ofNat (n % 256)).toNat = 0 := by rw [hz]; rfl
        simp [UInt8.toNat_ofNat'] at this
        omega
      | some c =>
        rw [hrest] at hb
        simp at hb
        subst hb
        exact ih _ hlt c hrest

theorem two256_eq : two256 = 256 ^ 32 := by unfold two256; norm_num
theorem two255_lt_two256 : two255 < two256 := by unfold two255 two256; norm_num

theorem bigIntBytes_length_le (n : Nat) : (bigIntBytes n).length ≤ 32 :=
  natToLEF_length_le 32 _

theorem leToNat_bigIntBytes (n : Nat) : leToNat (bigIntBytes n) = n % two256 := by
  unfold bigIntBytes
  apply leToNat_natToLEF
  rw [← two256_eq]
  exact Nat.mod_lt _ (by unfold two256; positivity)

theorem leToNat_bigIntBytes_of_lt (n : Nat) (h : n < two256) : leToNat (bigIntBytes n) = n := by
  rw [leToNat_bigIntBytes, Nat.mod_eq_of_lt h]

end BytomModel.VM
