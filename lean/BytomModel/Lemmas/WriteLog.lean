/-
C19: lemmas about the write-log model (`Model/WriteLog.lean`).

* shapes: the batches of every operation, spelled out;
* `RefsClosed`: every durable record references only durable records (status → header and
  transactions of the best block and the finalized checkpoint record; checkpoint record → header);
  `recover_ok`: then recovery succeeds;
* `WF`: what the code has checked before it issues the writes of an operation;
  `closed_run`: along a well-formed history the references are closed at every batch boundary
  except inside the gap of `saveBlock` (checkpoint of the block committed, block not yet);
* `chainView_run`: the chain-status level records (status, index, utxo, contracts) of every
  prefix are those of a prefix of whole operations.
-/
import BytomModel.Model.WriteLog

namespace BytomModel.Lemmas.WriteLog
open BytomModel.WriteLog

/-! ### shapes -/

theorem storeCalls_saveBlock : storeCalls "saveBlock" = [.saveCheckpoints, .saveBlock] := by decide
theorem storeCalls_vote : storeCalls "AuthVerification" = [.saveCheckpoints, .saveBlockHeader, .saveChainStatus] := by decide
theorem storeCalls_init : storeCalls "initChainStatus" = [.saveBlock, .saveCheckpoints, .saveChainStatus] := by decide
theorem storeCalls_reorganize : storeCalls "reorganize" = [.saveChainStatus] := by decide

theorem saveBlockBatch_eq (b : Blk) : saveBlockBatch b = [.hashes b.height b.id, .header b.id, .txs b.id] := by
  simp [saveBlockBatch, saveBlockKinds, blockRecs]
theorem saveBlockHeaderBatch_eq (id : Nat) : saveBlockHeaderBatch id = [.header id] := by
  simp [saveBlockHeaderBatch, saveBlockHeaderKinds, blockRecs]
theorem saveCheckpointsBatch_eq (cks : List Ck) : saveCheckpointsBatch cks = cks.map .ckpt := by
  simp [saveCheckpointsBatch, saveCheckpointsKinds, ckptRecs]
theorem saveChainStatusBatch_eq (r : Reorg) :
    saveChainStatusBatch r = r.utxos.map (fun p => .utxo p.1 p.2) ++
      (r.contracts.map .contract ++ (Rec.status r.st :: r.attach.map (fun b => .index b.height b.id))) := by
  simp [saveChainStatusBatch, saveChainStatusKinds, statusRecs]

theorem writes_saveBlock (b : Blk) (cks : List Ck) :
    (Op.saveBlock b cks).writes = [saveCheckpointsBatch cks, saveBlockBatch b] := by
  simp [Op.writes, storeCalls_saveBlock]
theorem writes_init (g : Blk) :
    (Op.init g).writes = [saveBlockBatch g, saveCheckpointsBatch [genesisCk g], saveChainStatusBatch (genesisReorg g)] := by
  simp [Op.writes, storeCalls_init]
theorem writes_reorganize (r : Reorg) : (Op.reorganize r).writes = [saveChainStatusBatch r] := by
  simp [Op.writes, storeCalls_reorganize]
theorem writes_vote_none (cks : List Ck) (tgt : Nat) :
    (Op.vote cks tgt none).writes = [saveCheckpointsBatch cks, saveBlockHeaderBatch tgt] := by
  simp [Op.writes, storeCalls_vote]
theorem writes_vote_some (cks : List Ck) (tgt : Nat) (r : Reorg) :
    (Op.vote cks tgt (some r)).writes = [saveCheckpointsBatch cks, saveBlockHeaderBatch tgt, saveChainStatusBatch r] := by
  simp [Op.writes, storeCalls_vote]

/-! ### the status key -/

theorem lastStatus_append (a b : List Rec) :
    lastStatus (a ++ b) = match lastStatus b with | some s => some s | none => lastStatus a := by
  induction a with
  | nil => simp [lastStatus]; cases lastStatus b <;> rfl
  | cons r rs ih =>
    simp only [List.cons_append, lastStatus, ih]
    cases lastStatus b <;> rfl

theorem lastStatus_none_of_nonStatus (b : List Rec) (h : ∀ r, r ∈ b → ∀ s, r ≠ .status s) : lastStatus b = none := by
  induction b with
  | nil => rfl
  | cons r rs ih =>
    have h1 := ih (fun x hx => h x (List.mem_cons_of_mem _ hx))
    simp only [lastStatus, h1]
    cases r with
    | status s => exact absurd rfl (h _ List.mem_cons_self s)
    | _ => rfl

theorem lastStatus_ckpts (cks : List Ck) : lastStatus (saveCheckpointsBatch cks) = none := by
  rw [saveCheckpointsBatch_eq]
  apply lastStatus_none_of_nonStatus
  intro r hr s e
  rw [List.mem_map] at hr
  obtain ⟨c, _, hc⟩ := hr
  rw [e] at hc; cases hc

theorem lastStatus_block (b : Blk) : lastStatus (saveBlockBatch b) = none := by
  rw [saveBlockBatch_eq]; rfl
theorem lastStatus_header (id : Nat) : lastStatus (saveBlockHeaderBatch id) = none := by
  rw [saveBlockHeaderBatch_eq]; rfl

theorem lastStatus_statusBatch (r : Reorg) : lastStatus (saveChainStatusBatch r) = some r.st := by
  rw [saveChainStatusBatch_eq, lastStatus_append, lastStatus_append]
  have : lastStatus (Rec.status r.st :: r.attach.map (fun b => Rec.index b.height b.id)) = some r.st := by
    have hn : lastStatus (r.attach.map (fun b => Rec.index b.height b.id)) = none := by
      apply lastStatus_none_of_nonStatus
      intro x hx s e
      rw [List.mem_map] at hx
      obtain ⟨c, _, hc⟩ := hx
      rw [e] at hc; cases hc
    simp only [lastStatus, hn]
  rw [this]

/-! ### closed references ⇒ recovery succeeds -/

def RefsClosed (db : DB) : Prop :=
  (∀ st, lastStatus db = some st →
      Rec.header st.best ∈ db ∧ Rec.txs st.best ∈ db ∧ ∃ s, Rec.ckpt ⟨st.finHeight, st.fin, s⟩ ∈ db) ∧
  (∀ c, Rec.ckpt c ∈ db → Rec.header c.id ∈ db)

theorem keyLe_refl (k : Nat × Nat) : keyLe k k = true := by simp [keyLe]

theorem recover_ok (db : DB) (h : RefsClosed db) : recover db = .ok () := by
  unfold recover
  cases hs : lastStatus db with
  | none => rfl
  | some st =>
    obtain ⟨hh, ht, s, hc⟩ := h.1 st hs
    have e1 : db.contains (Rec.header st.best) = true := List.contains_iff_mem.mpr hh
    have e2 : db.contains (Rec.txs st.best) = true := List.contains_iff_mem.mpr ht
    simp only [e1, e2, Bool.not_true, Bool.false_eq_true, if_false]
    have hm : (⟨st.finHeight, st.fin, s⟩ : Ck) ∈
        (db.filterMap ckptOf).filter (fun c => keyLe (st.finHeight, st.fin) (c.height, c.id)) := by
      rw [List.mem_filter]
      exact ⟨List.mem_filterMap.mpr ⟨_, hc, rfl⟩, keyLe_refl _⟩
    have e3 : ((db.filterMap ckptOf).filter (fun c => keyLe (st.finHeight, st.fin) (c.height, c.id))).isEmpty = false := by
      cases hl : (db.filterMap ckptOf).filter (fun c => keyLe (st.finHeight, st.fin) (c.height, c.id)) with
      | nil => rw [hl] at hm; cases hm
      | cons _ _ => rfl
    simp only [e3, Bool.false_eq_true, if_false]
    have e4 : ((db.filterMap ckptOf).filter (fun c => keyLe (st.finHeight, st.fin) (c.height, c.id))).any
        (fun c => !((db.filterMap ckptOf).filter (fun c => keyLe (st.finHeight, st.fin) (c.height, c.id))).all
            (fun d => keyLe (c.height, c.id) (d.height, d.id)) && !db.contains (Rec.header c.id)) = false := by
      rw [Bool.eq_false_iff]
      intro hany
      rw [List.any_eq_true] at hany
      obtain ⟨c, hcm, hcb⟩ := hany
      have hc1 := (List.mem_filter.mp hcm).1
      obtain ⟨rec, hrec, hck⟩ := List.mem_filterMap.mp hc1
      have : rec = Rec.ckpt c := by
        cases rec <;> simp [ckptOf] at hck
        rw [hck]
      rw [this] at hrec
      have hhd : db.contains (Rec.header c.id) = true := List.contains_iff_mem.mpr (h.2 c hrec)
      rw [hhd] at hcb
      simp at hcb
    simp only [e4, Bool.false_eq_true, if_false]

/-! ### well-formed histories -/

/-- what the code has established before it issues the writes of an operation on database `db` -/
def opWF (db : DB) : Op → Prop
  | .init _ => db = []
  /- `ApplyBlock` persists the block's own checkpoint and checkpoints it read from the store
     (`GetCheckpoint` needs the header) -/
  | .saveBlock b cks => ∀ c, c ∈ cks → c.id = b.id ∨ Rec.header c.id ∈ db
  /- `tryReorganize` read the header of the new best block, `reorganizeChain` its transactions;
     the finalized checkpoint is the root of the tree, persisted when it was finalized -/
  | .reorganize r => Rec.header r.st.best ∈ db ∧ Rec.txs r.st.best ∈ db ∧
      ∃ s, Rec.ckpt ⟨r.st.finHeight, r.st.fin, s⟩ ∈ db
  /- the target is in the tree and stored, the sources were read from the store -/
  | .vote cks _ r => (∀ c, c ∈ cks → Rec.header c.id ∈ db) ∧
      ∀ rc, r = some rc → Rec.header rc.st.best ∈ db ∧ Rec.txs rc.st.best ∈ db ∧
        ∃ s, Rec.ckpt ⟨rc.st.finHeight, rc.st.fin, s⟩ ∈ db ++ saveCheckpointsBatch cks

def WF : DB → List Op → Prop
  | _, [] => True
  | db, op :: ops => opWF db op ∧ WF (commitAll db op.writes) ops

/-- the one place where references are open: after the first batch of `saveBlock` when that
    batch holds the block's own checkpoint -/
def opGap : Op → Nat → Prop
  | .saveBlock b cks, j => j = 1 ∧ ∃ c, c ∈ cks ∧ c.id = b.id
  | _, _ => False

def inGap : List Op → Nat → Prop
  | [], _ => False
  | op :: ops, k => (k ≤ op.writes.length ∧ opGap op k) ∨ (op.writes.length < k ∧ inGap ops (k - op.writes.length))

theorem closed_append_noStatus (db b : List Rec) (hc : RefsClosed db) (hns : lastStatus b = none)
    (hck : ∀ c, Rec.ckpt c ∈ b → Rec.header c.id ∈ db ++ b) : RefsClosed (db ++ b) := by
  constructor
  · intro st hst
    rw [lastStatus_append, hns] at hst
    obtain ⟨h1, h2, s, h3⟩ := hc.1 st hst
    exact ⟨List.mem_append_left _ h1, List.mem_append_left _ h2, s, List.mem_append_left _ h3⟩
  · intro c hcm
    rcases List.mem_append.mp hcm with h | h
    · exact List.mem_append_left _ (hc.2 c h)
    · exact hck c h

theorem closed_append_status (db : List Rec) (r : Reorg) (hc : RefsClosed db)
    (h1 : Rec.header r.st.best ∈ db) (h2 : Rec.txs r.st.best ∈ db)
    (h3 : ∃ s, Rec.ckpt ⟨r.st.finHeight, r.st.fin, s⟩ ∈ db) : RefsClosed (db ++ saveChainStatusBatch r) := by
  constructor
  · intro st hst
    rw [lastStatus_append, lastStatus_statusBatch] at hst
    injection hst with hst; subst hst
    obtain ⟨s, h3⟩ := h3
    exact ⟨List.mem_append_left _ h1, List.mem_append_left _ h2, s, List.mem_append_left _ h3⟩
  · intro c hcm
    rcases List.mem_append.mp hcm with h | h
    · exact List.mem_append_left _ (hc.2 c h)
    · exfalso
      rw [saveChainStatusBatch_eq] at h
      simp only [List.mem_append, List.mem_map, List.mem_cons] at h
      rcases h with ⟨_, _, e⟩ | ⟨_, _, e⟩ | e | ⟨_, _, e⟩ <;> cases e

theorem mem_ckptBatch {c : Ck} {cks : List Ck} (h : Rec.ckpt c ∈ saveCheckpointsBatch cks) : c ∈ cks := by
  rw [saveCheckpointsBatch_eq, List.mem_map] at h
  obtain ⟨d, hd, e⟩ := h
  injection e with e; rw [← e]; exact hd

theorem commitAll_cons (db : DB) (b : Batch) (bs : List Batch) : commitAll db (b :: bs) = commitAll (db ++ b) bs := rfl
theorem commitAll_nil (db : DB) : commitAll db [] = db := rfl
theorem commitAll_append (db : DB) (a b : List Batch) : commitAll db (a ++ b) = commitAll (commitAll db a) b := by
  simp [commitAll, List.foldl_append]

theorem closed_empty : RefsClosed [] := by
  constructor
  · intro st h; cases h
  · intro c h; cases h

/-- inside one operation: closed at every batch boundary except the gap -/
theorem op_closed (db : DB) (hc : RefsClosed db) (op : Op) (wf : opWF db op) (j : Nat)
    (hg : ¬ opGap op j) : RefsClosed (commitAll db (op.writes.take j)) := by
  cases op with
  | init g =>
    simp only [opWF] at wf
    subst wf
    rw [writes_init]
    have c1 : RefsClosed ([] ++ saveBlockBatch g) :=
      closed_append_noStatus _ _ closed_empty (lastStatus_block g) (by rw [saveBlockBatch_eq]; intro c h; simp at h)
    have c2 : RefsClosed (([] ++ saveBlockBatch g) ++ saveCheckpointsBatch [genesisCk g]) := by
      apply closed_append_noStatus _ _ c1 (lastStatus_ckpts _)
      intro c h
      have := mem_ckptBatch h
      simp only [List.mem_singleton] at this
      subst this
      rw [saveBlockBatch_eq]; simp [genesisCk]
    have c3 : RefsClosed ((([] ++ saveBlockBatch g) ++ saveCheckpointsBatch [genesisCk g]) ++ saveChainStatusBatch (genesisReorg g)) := by
      apply closed_append_status _ _ c2
      · rw [saveBlockBatch_eq]; simp [genesisReorg]
      · rw [saveBlockBatch_eq]; simp [genesisReorg]
      · refine ⟨2, ?_⟩
        rw [saveCheckpointsBatch_eq]; simp [genesisReorg, genesisCk]
    match j with
    | 0 => exact closed_empty
    | 1 => exact c1
    | 2 => exact c2
    | (n + 3) => simpa [commitAll, commit] using c3
  | saveBlock b cks =>
    simp only [opWF] at wf
    rw [writes_saveBlock]
    have c2 : RefsClosed ((db ++ saveCheckpointsBatch cks) ++ saveBlockBatch b) := by
      rw [List.append_assoc]
      apply closed_append_noStatus _ _ hc
      · rw [lastStatus_append, lastStatus_block, lastStatus_ckpts]
      · intro c h
        rcases List.mem_append.mp h with h | h
        · rcases wf c (mem_ckptBatch h) with e | e
          · rw [e, saveBlockBatch_eq]; simp
          · exact List.mem_append_left _ e
        · rw [saveBlockBatch_eq] at h; simp at h
    match j with
    | 0 => exact hc
    | 1 =>
      have hno : ∀ c, c ∈ cks → c.id ≠ b.id := fun c hcm e => hg ⟨rfl, c, hcm, e⟩
      show RefsClosed (db ++ saveCheckpointsBatch cks)
      apply closed_append_noStatus _ _ hc (lastStatus_ckpts _)
      intro c h
      rcases wf c (mem_ckptBatch h) with e | e
      · exact absurd e (hno c (mem_ckptBatch h))
      · exact List.mem_append_left _ e
    | (n + 2) => simpa [commitAll, commit] using c2
  | reorganize r =>
    simp only [opWF] at wf
    rw [writes_reorganize]
    match j with
    | 0 => exact hc
    | (n + 1) =>
      have := closed_append_status db r hc wf.1 wf.2.1 wf.2.2
      simpa [commitAll, commit] using this
  | vote cks tgt r =>
    simp only [opWF] at wf
    have c1 : RefsClosed (db ++ saveCheckpointsBatch cks) := by
      apply closed_append_noStatus _ _ hc (lastStatus_ckpts _)
      intro c h
      exact List.mem_append_left _ (wf.1 c (mem_ckptBatch h))
    have c2 : RefsClosed ((db ++ saveCheckpointsBatch cks) ++ saveBlockHeaderBatch tgt) := by
      apply closed_append_noStatus _ _ c1 (lastStatus_header _)
      intro c h
      rw [saveBlockHeaderBatch_eq] at h; simp at h
    cases r with
    | none =>
      rw [writes_vote_none]
      match j with
      | 0 => exact hc
      | 1 => exact c1
      | (n + 2) => simpa [commitAll, commit] using c2
    | some rc =>
      rw [writes_vote_some]
      obtain ⟨h1, h2, h3⟩ := wf.2 rc rfl
      have c3 : RefsClosed (((db ++ saveCheckpointsBatch cks) ++ saveBlockHeaderBatch tgt) ++ saveChainStatusBatch rc) := by
        apply closed_append_status _ _ c2
        · exact List.mem_append_left _ (List.mem_append_left _ h1)
        · exact List.mem_append_left _ (List.mem_append_left _ h2)
        · obtain ⟨s, h3⟩ := h3
          exact ⟨s, List.mem_append_left _ h3⟩
      match j with
      | 0 => exact hc
      | 1 => exact c1
      | 2 => exact c2
      | (n + 3) => simpa [commitAll, commit] using c3

theorem logOf_cons (op : Op) (ops : List Op) : logOf (op :: ops) = op.writes ++ logOf ops := by
  simp [logOf]

theorem opGap_length (op : Op) : ¬ opGap op op.writes.length := by
  cases op with
  | saveBlock b cks => rw [writes_saveBlock]; intro h; cases h.1
  | _ => intro h; exact h

/-- along a well-formed history: closed at every batch boundary outside the gaps -/
theorem closed_run : ∀ (ops : List Op) (db : DB), RefsClosed db → WF db ops → ∀ k, ¬ inGap ops k →
    RefsClosed (commitAll db ((logOf ops).take k))
  | [], db, hc, _, k, _ => by simpa [logOf, commitAll] using hc
  | op :: ops, db, hc, wf, k, hg => by
    rw [logOf_cons, List.take_append, commitAll_append]
    by_cases hk : k ≤ op.writes.length
    · have : k - op.writes.length = 0 := by omega
      rw [this, List.take_zero, commitAll_nil]
      apply op_closed db hc op wf.1 k
      intro h; exact hg (Or.inl ⟨hk, h⟩)
    · have hlt : op.writes.length < k := by omega
      rw [List.take_of_length_le (by omega)]
      have hfull : RefsClosed (commitAll db op.writes) := by
        have := op_closed db hc op wf.1 op.writes.length (opGap_length op)
        rwa [List.take_length] at this
      exact closed_run ops _ hfull wf.2 _ (fun h => hg (Or.inr ⟨hlt, h⟩))

/-! ### chain status atomicity -/

/-- the chain-status level of a database: status, index, utxo, contract records in commit order -/
def chainView (db : DB) : List Rec := db.filter isChainRec

def NonChain (b : Batch) : Prop := ∀ r, r ∈ b → isChainRec r = false

theorem chainView_append_nonChain (db : DB) (b : Batch) (h : NonChain b) : chainView (db ++ b) = chainView db := by
  unfold chainView
  rw [List.filter_append]
  have : b.filter isChainRec = [] := by
    rw [List.filter_eq_nil_iff]
    intro r hr; rw [h r hr]; simp
  rw [this, List.append_nil]

theorem chainView_commitAll_nonChain : ∀ (log : List Batch) (db : DB), (∀ b, b ∈ log → NonChain b) →
    chainView (commitAll db log) = chainView db
  | [], _, _ => rfl
  | b :: bs, db, h => by
    rw [commitAll_cons, chainView_commitAll_nonChain bs _ (fun x hx => h x (List.mem_cons_of_mem _ hx))]
    exact chainView_append_nonChain db b (h b List.mem_cons_self)

theorem nonChain_ckpts (cks : List Ck) : NonChain (saveCheckpointsBatch cks) := by
  rw [saveCheckpointsBatch_eq]
  intro r hr
  rw [List.mem_map] at hr
  obtain ⟨c, _, e⟩ := hr
  rw [← e]; rfl
theorem nonChain_block (b : Blk) : NonChain (saveBlockBatch b) := by
  rw [saveBlockBatch_eq]
  intro r hr
  simp only [List.mem_cons, List.mem_nil_iff, or_false] at hr
  rcases hr with e | e | e <;> rw [e] <;> rfl
theorem nonChain_header (id : Nat) : NonChain (saveBlockHeaderBatch id) := by
  rw [saveBlockHeaderBatch_eq]
  intro r hr
  simp only [List.mem_singleton] at hr
  rw [hr]; rfl

/-- every batch of an operation except the last one leaves the chain-status level alone -/
theorem writes_proper_prefix_nonChain (op : Op) (j : Nat) (hj : j < op.writes.length) :
    ∀ b, b ∈ op.writes.take j → NonChain b := by
  cases op with
  | init g =>
    rw [writes_init] at hj ⊢
    intro b hb
    have hj' : j ≤ 2 := by simp at hj; omega
    have : b ∈ [saveBlockBatch g, saveCheckpointsBatch [genesisCk g]] := by
      have hsub := List.take_subset j [saveBlockBatch g, saveCheckpointsBatch [genesisCk g], saveChainStatusBatch (genesisReorg g)]
      match j, hj', hb with
      | 0, _, hb => simp at hb
      | 1, _, hb => simp at hb; simp [hb]
      | 2, _, hb => simpa using hb
    simp only [List.mem_cons, List.mem_nil_iff, or_false] at this
    rcases this with e | e <;> rw [e]
    · exact nonChain_block g
    · exact nonChain_ckpts _
  | saveBlock b cks =>
    rw [writes_saveBlock]
    intro x hx
    have := List.mem_of_mem_take hx
    simp only [List.mem_cons, List.mem_nil_iff, or_false] at this
    rcases this with e | e <;> rw [e]
    · exact nonChain_ckpts _
    · exact nonChain_block b
  | reorganize r =>
    rw [writes_reorganize] at hj ⊢
    have : j = 0 := by simp at hj; omega
    subst this
    intro b hb; simp at hb
  | vote cks tgt r =>
    cases r with
    | none =>
      rw [writes_vote_none]
      intro x hx
      have := List.mem_of_mem_take hx
      simp only [List.mem_cons, List.mem_nil_iff, or_false] at this
      rcases this with e | e <;> rw [e]
      · exact nonChain_ckpts _
      · exact nonChain_header _
    | some rc =>
      rw [writes_vote_some] at hj ⊢
      intro b hb
      have hj' : j ≤ 2 := by simp at hj; omega
      have : b ∈ [saveCheckpointsBatch cks, saveBlockHeaderBatch tgt] := by
        match j, hj', hb with
        | 0, _, hb => simp at hb
        | 1, _, hb => simp at hb; simp [hb]
        | 2, _, hb => simpa using hb
      simp only [List.mem_cons, List.mem_nil_iff, or_false] at this
      rcases this with e | e <;> rw [e]
      · exact nonChain_ckpts _
      · exact nonChain_header _

/-- the chain-status level of every crash point is that of a prefix of WHOLE operations -/
theorem chainView_run : ∀ (ops : List Op) (db : DB) (k : Nat),
    ∃ j, j ≤ ops.length ∧
      chainView (commitAll db ((logOf ops).take k)) = chainView (commitAll db (logOf (ops.take j)))
  | [], db, k => ⟨0, Nat.le_refl _, by simp [logOf]⟩
  | op :: ops, db, k => by
    by_cases hk : k < op.writes.length
    · refine ⟨0, Nat.zero_le _, ?_⟩
      rw [logOf_cons, List.take_append]
      have : k - op.writes.length = 0 := by omega
      rw [this, List.take_zero, List.append_nil, List.take_zero]
      show _ = chainView (commitAll db (logOf []))
      rw [chainView_commitAll_nonChain _ _ (writes_proper_prefix_nonChain op k hk)]
      rfl
    · obtain ⟨j, hj, e⟩ := chainView_run ops (commitAll db op.writes) (k - op.writes.length)
      refine ⟨j + 1, by simp; omega, ?_⟩
      rw [logOf_cons, List.take_append, List.take_of_length_le (by omega), commitAll_append, e]
      rw [List.take_succ_cons, logOf_cons, commitAll_append]

/-- the chain status is part of the chain-status level -/
theorem lastStatus_chainView (db : DB) : lastStatus (chainView db) = lastStatus db := by
  unfold chainView
  induction db with
  | nil => rfl
  | cons r rs ih =>
    cases r with
    | status s => simp only [List.filter_cons, isChainRec, if_true, lastStatus, ih]
    | index a b => simp only [List.filter_cons, isChainRec, if_true, lastStatus, ih]
    | utxo a b => simp only [List.filter_cons, isChainRec, if_true, lastStatus, ih]
    | contract a => simp only [List.filter_cons, isChainRec, if_true, lastStatus, ih]
    | hashes a b => simp only [List.filter_cons, isChainRec, Bool.false_eq_true, if_false, lastStatus, ih]; cases lastStatus rs <;> rfl
    | header a => simp only [List.filter_cons, isChainRec, Bool.false_eq_true, if_false, lastStatus, ih]; cases lastStatus rs <;> rfl
    | txs a => simp only [List.filter_cons, isChainRec, Bool.false_eq_true, if_false, lastStatus, ih]; cases lastStatus rs <;> rfl
    | ckpt a => simp only [List.filter_cons, isChainRec, Bool.false_eq_true, if_false, lastStatus, ih]; cases lastStatus rs <;> rfl

/-! ### the F12 witness (E = 2): genesis, b1, chain status on b1, then b2 which closes the epoch -/

def g0 : Blk := { id := 0, height := 0 }
def blk1 : Blk := { id := 1, height := 1 }
def blk2 : Blk := { id := 2, height := 2 }
def witness : List Op :=
  [.init g0,
   .saveBlock blk1 [],
   .reorganize { st := { best := 1, fin := 0, finHeight := 0 }, attach := [blk1], utxos := [], contracts := [] },
   .saveBlock blk2 [{ height := 2, id := 2, status := 1 }]]

end BytomModel.Lemmas.WriteLog
