/-
C13: frame lemmas for the validating chain core of `Model/NodeLedger.lean`
(`saveBlockVn`, `saveSubBlockVn`, `chainProcessBlock` = `Node`'s functions with `ValidateBlock`
inside `saveBlock`), and their coincidence with `Node`'s functions when every block that is
validated is valid.
-/
import BytomModel.Lemmas.C13Frame

namespace BytomModel.Lemmas.C13
open BytomModel.Node BytomModel.NodeLedger

theorem validIn_self (s : NodeLedger.State) (b : Header) : s.validIn s.node b = s.validBlock b := rfl

/-- `saveBlock` with validation: refused untouched, or `Node`'s `saveBlock` -/
theorem saveBlockVn_cases (env : NodeLedger.State) (n : Node.State) (b : Header) :
    (env.validIn n b = false ∧ env.saveBlockVn n b = (n, false)) ∨
    (env.validIn n b = true ∧ env.saveBlockVn n b = n.saveBlock b) := by
  unfold NodeLedger.State.saveBlockVn
  cases env.validIn n b
  · left; exact ⟨rfl, rfl⟩
  · right; exact ⟨rfl, rfl⟩

theorem saveBlockVn_chainSame (env : NodeLedger.State) (n : Node.State) (b : Header) :
    ChainSame n (env.saveBlockVn n b).1 := by
  rcases saveBlockVn_cases env n b with ⟨_, e⟩ | ⟨_, e⟩ <;> rw [e]
  · exact ChainSame.refl n
  · exact saveBlock_chainSame n b

theorem saveBlockVn_orphans_empty (env : NodeLedger.State) (n : Node.State) (b : Header)
    (h1 : n.orphans = []) (h2 : n.prevOrphans = []) :
    (env.saveBlockVn n b).1.orphans = [] ∧ (env.saveBlockVn n b).1.prevOrphans = [] := by
  rcases saveBlockVn_cases env n b with ⟨_, e⟩ | ⟨_, e⟩ <;> rw [e]
  · exact ⟨h1, h2⟩
  · exact saveBlock_orphans_empty n b h1 h2

/-- the step function of the fold inside `saveSubBlockVn` -/
def subStepV (env : NodeLedger.State) (fuel : Nat) (st : Node.State) (o : Nat) : Node.State :=
  match lookupHeader st.orphans o with
  | none => st
  | some ob =>
    if (env.saveBlockVn st ob).2 = false then (env.saveBlockVn st ob).1.orphanDelete o
    else NodeLedger.State.saveSubBlockVn env fuel (env.saveBlockVn st ob).1 o

theorem saveSubBlockVn_succ (env : NodeLedger.State) (fuel : Nat) (n : Node.State) (id : Nat) :
    NodeLedger.State.saveSubBlockVn env (fuel + 1) n id =
      match alistGet n.prevOrphans id with
      | none => n
      | some waiting => waiting.foldl (subStepV env fuel) n := by
  unfold NodeLedger.State.saveSubBlockVn subStepV
  cases alistGet n.prevOrphans id with
  | none => rfl
  | some w =>
    simp only
    congr 1
    funext st o
    cases lookupHeader st.orphans o with
    | none => rfl
    | some ob =>
      simp only
      cases (env.saveBlockVn st ob).2 <;> rfl

theorem saveSubBlockVn_chainSame (env : NodeLedger.State) :
    ∀ (fuel : Nat) (n : Node.State) (id : Nat), ChainSame n (NodeLedger.State.saveSubBlockVn env fuel n id)
  | 0, n, _ => ChainSame.refl n
  | fuel + 1, n, id => by
    rw [saveSubBlockVn_succ]
    split
    · exact ChainSame.refl n
    · apply foldl_chainSame
      intro st o
      unfold subStepV
      split
      · exact ChainSame.refl st
      · rename_i ob _
        split
        · exact ChainSame.trans (saveBlockVn_chainSame env st ob) (orphanDelete_chainSame _ _)
        · exact ChainSame.trans (saveBlockVn_chainSame env st ob) (saveSubBlockVn_chainSame env fuel _ o)

theorem saveSubBlockVn_no_waiting (env : NodeLedger.State) (fuel : Nat) (n : Node.State) (id : Nat)
    (h : n.prevOrphans = []) : NodeLedger.State.saveSubBlockVn env fuel n id = n := by
  cases fuel with
  | zero => rfl
  | succ f => rw [saveSubBlockVn_succ, h]; rfl

/-- `BlockExist(hash) && bestHeight >= block.Height`: the early exit of `processBlock` -/
def alreadyProcessed (s : Node.State) (b : Header) : Bool :=
  ((s.header b.id).isSome || s.isOrphan b.id) &&
    decide ((match s.header s.best with | some h => h.height | none => 0) ≥ b.height)

theorem chainProcessBlock_eq (s : NodeLedger.State) (b : Header) :
    s.chainProcessBlock b =
      if alreadyProcessed s.node b = true then (s.node, if s.node.isOrphan b.id then .orphan else .ok)
      else if (s.node.header b.parent).isNone = true then (s.node.orphanAdd b, .orphan)
      else if (s.saveBlockVn s.node b).2 = false then ((s.saveBlockVn s.node b).1, .err)
      else
        (((NodeLedger.State.saveSubBlockVn s (s.saveBlockVn s.node b).1.fuel (s.saveBlockVn s.node b).1 b.id).tryReorganize
            (NodeLedger.State.saveSubBlockVn s (s.saveBlockVn s.node b).1.fuel (s.saveBlockVn s.node b).1 b.id).bestChain).1,
         if ((NodeLedger.State.saveSubBlockVn s (s.saveBlockVn s.node b).1.fuel (s.saveBlockVn s.node b).1 b.id).tryReorganize
            (NodeLedger.State.saveSubBlockVn s (s.saveBlockVn s.node b).1.fuel (s.saveBlockVn s.node b).1 b.id).bestChain).2 = true
         then .ok else .err) := by
  unfold NodeLedger.State.chainProcessBlock alreadyProcessed
  dsimp only
  cases (s.saveBlockVn s.node b).2 <;> rfl

theorem chainProcessBlock_cases (s : NodeLedger.State) (b : Header) :
    (alreadyProcessed s.node b = true ∧ (s.chainProcessBlock b).1 = s.node) ∨
    (alreadyProcessed s.node b = false ∧ (s.node.header b.parent).isNone = true ∧
      s.chainProcessBlock b = (s.node.orphanAdd b, .orphan)) ∨
    (alreadyProcessed s.node b = false ∧ (s.node.header b.parent).isSome = true ∧ (s.saveBlockVn s.node b).2 = false ∧
      s.chainProcessBlock b = ((s.saveBlockVn s.node b).1, .err)) ∨
    (alreadyProcessed s.node b = false ∧ (s.node.header b.parent).isSome = true ∧ (s.saveBlockVn s.node b).2 = true ∧
      s.chainProcessBlock b =
        (((NodeLedger.State.saveSubBlockVn s (s.saveBlockVn s.node b).1.fuel (s.saveBlockVn s.node b).1 b.id).tryReorganize
            (NodeLedger.State.saveSubBlockVn s (s.saveBlockVn s.node b).1.fuel (s.saveBlockVn s.node b).1 b.id).bestChain).1,
         if ((NodeLedger.State.saveSubBlockVn s (s.saveBlockVn s.node b).1.fuel (s.saveBlockVn s.node b).1 b.id).tryReorganize
            (NodeLedger.State.saveSubBlockVn s (s.saveBlockVn s.node b).1.fuel (s.saveBlockVn s.node b).1 b.id).bestChain).2 = true
         then .ok else .err)) := by
  rw [chainProcessBlock_eq]
  cases hk : alreadyProcessed s.node b with
  | true => left; simp
  | false =>
    right
    cases hp : s.node.header b.parent with
    | none => left; simp
    | some ph =>
      right
      cases hs : (s.saveBlockVn s.node b).2 with
      | false => left; simp
      | true => right; simp

theorem chainProcessBlock_viaReorg (s : NodeLedger.State) (b : Header) : ViaReorg s.node (s.chainProcessBlock b).1 := by
  rcases chainProcessBlock_cases s b with ⟨_, e⟩ | ⟨_, _, e⟩ | ⟨_, _, _, e⟩ | ⟨_, _, _, e⟩
  · rw [e]; exact ⟨s.node, ChainSame.refl _, Or.inl rfl⟩
  · rw [e]; exact ⟨s.node.orphanAdd b, orphanAdd_chainSame _ _, Or.inl rfl⟩
  · rw [e]; exact ⟨_, saveBlockVn_chainSame s s.node b, Or.inl rfl⟩
  · rw [e]
    exact ⟨NodeLedger.State.saveSubBlockVn s (s.saveBlockVn s.node b).1.fuel (s.saveBlockVn s.node b).1 b.id,
      ChainSame.trans (saveBlockVn_chainSame s s.node b) (saveSubBlockVn_chainSame s _ _ _), Or.inr ⟨_, rfl⟩⟩

/-! ### coincidence with the chain core of `Model/Node.lean` when every validated block is valid -/

theorem orphanDelete_orphans_sub (s : Node.State) (i : Nat) : ∀ x, x ∈ (s.orphanDelete i).orphans → x ∈ s.orphans := by
  unfold State.orphanDelete
  dsimp only
  repeat' split
  all_goals first
    | (intro x hx; exact hx)
    | (intro x hx; exact (List.mem_filter.mp hx).1)

theorem saveBlock_orphans_sub (s : Node.State) (b : Header) : ∀ x, x ∈ (s.saveBlock b).1.orphans → x ∈ s.orphans := by
  have hc := applyBlock_casperOnly s b
  rcases saveBlock_cases s b with h | ⟨_, h⟩ | ⟨_, _, h⟩ <;> rw [h] <;> dsimp only
  · intro x hx; exact hx
  · intro x hx; rw [hc.orphans] at hx; exact hx
  · intro x hx
    have := orphanDelete_orphans_sub _ _ x hx
    rw [← hc.orphans]; exact this

/-- the step function of the fold inside `Node.State.saveSubBlock` -/
def subStepN (fuel : Nat) (st : Node.State) (o : Nat) : Node.State :=
  match lookupHeader st.orphans o with
  | none => st
  | some ob =>
    if (st.saveBlock ob).2 = false then (st.saveBlock ob).1.orphanDelete o
    else State.saveSubBlock fuel (st.saveBlock ob).1 o

theorem saveSubBlock_succ (fuel : Nat) (n : Node.State) (id : Nat) :
    State.saveSubBlock (fuel + 1) n id =
      match alistGet n.prevOrphans id with
      | none => n
      | some waiting => waiting.foldl (subStepN fuel) n := by
  unfold State.saveSubBlock subStepN
  cases alistGet n.prevOrphans id with
  | none => rfl
  | some w =>
    simp only
    congr 1
    funext st o
    cases lookupHeader st.orphans o with
    | none => rfl
    | some ob =>
      simp only
      cases (st.saveBlock ob).2 <;> rfl

theorem lookupHeader_mem {hs : List Header} {k : Nat} {h : Header} (e : lookupHeader hs k = some h) : h ∈ hs := by
  unfold lookupHeader at e
  exact List.mem_of_find?_eq_some e

/-- with every waiting block valid (in every node state), the validating `saveSubBlock` is
    `Node`'s, and the pool only shrinks -/
theorem saveSubBlockVn_eq_node (env : NodeLedger.State) (P : Header → Prop)
    (hP : ∀ x, P x → ∀ n, env.validIn n x = true) :
    ∀ (fuel : Nat) (n : Node.State) (id : Nat), (∀ x, x ∈ n.orphans → P x) →
      NodeLedger.State.saveSubBlockVn env fuel n id = State.saveSubBlock fuel n id ∧
      (∀ x, x ∈ (State.saveSubBlock fuel n id).orphans → x ∈ n.orphans)
  | 0, n, _, _ => ⟨rfl, fun _ h => h⟩
  | fuel + 1, n, id, hn => by
    rw [saveSubBlockVn_succ, saveSubBlock_succ]
    cases alistGet n.prevOrphans id with
    | none => exact ⟨rfl, fun _ h => h⟩
    | some w =>
      simp only
      -- fold invariant
      have key : ∀ (l : List Nat) (st : Node.State), (∀ x, x ∈ st.orphans → x ∈ n.orphans) →
          l.foldl (subStepV env fuel) st = l.foldl (subStepN fuel) st ∧
          (∀ x, x ∈ (l.foldl (subStepN fuel) st).orphans → x ∈ n.orphans) := by
        intro l
        induction l with
        | nil => intro st hst; exact ⟨rfl, hst⟩
        | cons o os ih =>
          intro st hst
          rw [List.foldl_cons, List.foldl_cons]
          have hstep : subStepV env fuel st o = subStepN fuel st o ∧
              (∀ x, x ∈ (subStepN fuel st o).orphans → x ∈ n.orphans) := by
            unfold subStepV subStepN
            cases hl : lookupHeader st.orphans o with
            | none => exact ⟨rfl, hst⟩
            | some ob =>
              simp only
              have hob : P ob := hn ob (hst ob (lookupHeader_mem hl))
              have hv : env.saveBlockVn st ob = st.saveBlock ob := by
                rcases saveBlockVn_cases env st ob with ⟨hf, _⟩ | ⟨_, e⟩
                · rw [hP ob hob st] at hf; cases hf
                · exact e
              rw [hv]
              have hsub : ∀ x, x ∈ (st.saveBlock ob).1.orphans → x ∈ n.orphans :=
                fun x hx => hst x (saveBlock_orphans_sub st ob x hx)
              cases (st.saveBlock ob).2 with
              | false =>
                simp only [if_true]
                exact ⟨trivial, fun x hx => hsub x (orphanDelete_orphans_sub _ _ x hx)⟩
              | true =>
                simp only [Bool.true_eq_false, if_false]
                obtain ⟨e1, e2⟩ := saveSubBlockVn_eq_node env P hP fuel (st.saveBlock ob).1 o
                  (fun x hx => hn x (hsub x hx))
                exact ⟨e1, fun x hx => hsub x (e2 x hx)⟩
          rw [hstep.1]
          exact ih _ hstep.2
      exact key w n (fun _ h => h)

/-- `processBlock_eq_node`: when the delivered block is valid in the current state and every
    block waiting in the orphan pool is valid whenever it is validated, the validating chain core
    IS `Node`'s `processBlock` (so the statements proved about `Node.State.processBlock` — C10, C11,
    C12, C16… — apply to the node with ledger); in particular on every stream that records no
    validation meta data -/
theorem processBlock_eq_node (s : NodeLedger.State) (b : Header) (hvb : s.validBlock b = true)
    (hv : ∀ x, x ∈ s.node.orphans → ∀ n, s.validIn n x = true) :
    s.chainProcessBlock b = s.node.processBlock b := by
  have hb : s.saveBlockVn s.node b = s.node.saveBlock b := by
    rcases saveBlockVn_cases s s.node b with ⟨hf, _⟩ | ⟨_, e⟩
    · rw [validIn_self, hvb] at hf; cases hf
    · exact e
  have hsub := saveSubBlockVn_eq_node s (fun x => x ∈ s.node.orphans) hv
    (s.node.saveBlock b).1.fuel (s.node.saveBlock b).1 b.id
    (fun x hx => saveBlock_orphans_sub s.node b x hx)
  unfold NodeLedger.State.chainProcessBlock Node.State.processBlock
  dsimp only
  rw [hb, hsub.1]
  rfl

theorem validIn_of_no_metas (s : NodeLedger.State) (hm : s.metas = []) (n : Node.State) (x : Header) :
    s.validIn n x = true := by
  unfold NodeLedger.State.validIn NodeLedger.State.validBlock NodeLedger.State.metaOf
  simp [hm]

/-- streams that record no validation meta data (ledger, tree, crash, pool): same as `Node` -/
theorem processBlock_eq_node_of_no_metas (s : NodeLedger.State) (b : Header) (hm : s.metas = []) :
    s.chainProcessBlock b = s.node.processBlock b :=
  processBlock_eq_node s b (validIn_of_no_metas s hm s.node b) (fun x _ n => validIn_of_no_metas s hm n x)

end BytomModel.Lemmas.C13
