/-
Lemmas about the checkpoint tree of `Model/Node.lean` (`Tree.find / update / addChild /
bestNode`), reducing the mutual recursion to statements about the depth-first list
`Tree.flatten`, and about sup links (`setSig`, `addSupLink`).  Core Lean only.
Used by Props/C16, C17, C18.
-/
import BytomModel.Model.Node

namespace BytomModel.Node

/-! ### lists: update the first element satisfying `p` -/

def updFirst (p : α → Bool) (f : α → α) : List α → List α
  | [] => []
  | a :: l => if p a then f a :: l else a :: updFirst p f l

theorem updFirst_append_of_find?_some {p : α → Bool} {f : α → α} {l : List α} {c : α} (r : List α)
    (h : l.find? p = some c) : updFirst p f (l ++ r) = updFirst p f l ++ r := by
  induction l with
  | nil => simp at h
  | cons a l ih =>
    by_cases ha : p a
    · simp [updFirst, ha]
    · simp only [List.find?_cons_of_neg, ha, Bool.false_eq_true, not_false_eq_true] at h
      simp [updFirst, ha, ih h]

theorem updFirst_append_of_find?_none {p : α → Bool} {f : α → α} {l : List α} (r : List α)
    (h : l.find? p = none) : updFirst p f (l ++ r) = l ++ updFirst p f r := by
  induction l with
  | nil => rfl
  | cons a l ih =>
    have ha : p a = false := by
      cases hp : p a with
      | false => rfl
      | true => simp [List.find?, hp] at h
    have h' : l.find? p = none := by simpa [List.find?, ha] using h
    simp [updFirst, ha, ih h']

theorem updFirst_of_find?_none {p : α → Bool} {f : α → α} {l : List α}
    (h : l.find? p = none) : updFirst p f l = l := by
  have := updFirst_append_of_find?_none (f := f) [] h
  simpa [updFirst] using this

/-- the first element satisfying `p` is replaced, nothing else changes -/
theorem updFirst_split {p : α → Bool} {f : α → α} {l : List α} {c : α} (h : l.find? p = some c) :
    ∃ l1 l2, l = l1 ++ c :: l2 ∧ (∀ x ∈ l1, p x = false) ∧ p c = true ∧ updFirst p f l = l1 ++ f c :: l2 := by
  induction l with
  | nil => simp at h
  | cons a l ih =>
    by_cases ha : p a
    · have : a = c := by simpa [List.find?, ha] using h
      subst this
      exact ⟨[], l, rfl, by simp, ha, by simp [updFirst, ha]⟩
    · have h' : l.find? p = some c := by simpa [List.find?, ha] using h
      obtain ⟨l1, l2, e, hn, hc, hu⟩ := ih h'
      refine ⟨a :: l1, l2, by simp [e], ?_, hc, by simp [updFirst, ha, hu]⟩
      intro x hx
      rcases List.mem_cons.mp hx with rfl | hx
      · simpa using ha
      · exact hn x hx

theorem mem_updFirst {p : α → Bool} {f : α → α} {l : List α} {x : α} (h : x ∈ updFirst p f l) :
    x ∈ l ∨ ∃ c, l.find? p = some c ∧ x = f c := by
  cases hf : l.find? p with
  | none => rw [updFirst_of_find?_none hf] at h; exact Or.inl h
  | some c =>
    obtain ⟨l1, l2, e, _, _, hu⟩ := updFirst_split (f := f) hf
    rw [hu] at h
    rcases List.mem_append.mp h with h | h
    · exact Or.inl (by rw [e]; exact List.mem_append_left _ h)
    · rcases List.mem_cons.mp h with h | h
      · exact Or.inr ⟨c, rfl, h⟩
      · exact Or.inl (by rw [e]; exact List.mem_append_right _ (List.mem_cons_of_mem _ h))

/-! ### find -/

mutual
theorem Tree.find_ckpt (p : Ckpt → Bool) : ∀ t : Tree, (t.find p).map Tree.ckpt = t.flatten.find? p
  | .node c cs => by
    unfold Tree.find Tree.flatten
    by_cases h : p c
    · simp [h, Tree.ckpt]
    · simp only [h, List.find?_cons_of_neg, Bool.false_eq_true, if_false, not_false_eq_true]
      exact Tree.findList_ckpt p cs
theorem Tree.findList_ckpt (p : Ckpt → Bool) : ∀ ts : List Tree,
    (Tree.findList p ts).map Tree.ckpt = (Tree.flattenList ts).find? p
  | [] => by simp [Tree.findList, Tree.flattenList]
  | t :: ts => by
    unfold Tree.findList Tree.flattenList
    have h1 := Tree.find_ckpt p t
    have h2 := Tree.findList_ckpt p ts
    rw [List.find?_append]
    cases h : t.find p with
    | some r => simp [h] at h1 ⊢; rw [← h1]; simp
    | none => simp [h] at h1 ⊢; rw [← h1]; simpa using h2
end

theorem Tree.find_some_ckpt {p : Ckpt → Bool} {t r : Tree} (h : t.find p = some r) :
    t.flatten.find? p = some r.ckpt := by
  rw [← Tree.find_ckpt, h]; rfl

theorem Tree.find_none_flatten {p : Ckpt → Bool} {t : Tree} (h : t.find p = none) :
    t.flatten.find? p = none := by
  rw [← Tree.find_ckpt, h]; rfl

theorem Tree.find_isSome_iff {p : Ckpt → Bool} {t : Tree} :
    (t.find p).isSome = (t.flatten.find? p).isSome := by
  rw [← Tree.find_ckpt]; cases t.find p <;> rfl

theorem Tree.findList_none_flatten {p : Ckpt → Bool} {ts : List Tree} (h : Tree.findList p ts = none) :
    (Tree.flattenList ts).find? p = none := by
  rw [← Tree.findList_ckpt, h]; rfl

theorem Tree.findList_some_flatten {p : Ckpt → Bool} {ts : List Tree} {r : Tree} (h : Tree.findList p ts = some r) :
    (Tree.flattenList ts).find? p = some r.ckpt := by
  rw [← Tree.findList_ckpt, h]; rfl

mutual
/-- the sub-tree found is a sub-tree: its checkpoints are checkpoints of the tree -/
theorem Tree.find_sub (p : Ckpt → Bool) : ∀ (t r : Tree), t.find p = some r → ∀ c ∈ r.flatten, c ∈ t.flatten
  | .node c cs, r, h => by
    unfold Tree.find at h
    by_cases hp : p c
    · simp only [hp, if_true, Option.some.injEq] at h
      subst h; intro x hx; exact hx
    · simp only [hp, Bool.false_eq_true, if_false] at h
      intro x hx
      unfold Tree.flatten
      exact List.mem_cons_of_mem _ (Tree.findList_sub p cs r h x hx)
theorem Tree.findList_sub (p : Ckpt → Bool) : ∀ (ts : List Tree) (r : Tree), Tree.findList p ts = some r →
    ∀ c ∈ r.flatten, c ∈ Tree.flattenList ts
  | [], r, h => by simp [Tree.findList] at h
  | t :: ts, r, h => by
    unfold Tree.findList at h
    unfold Tree.flattenList
    intro x hx
    cases ht : t.find p with
    | some r' =>
      simp only [ht, Option.some.injEq] at h
      subst h
      exact List.mem_append_left _ (Tree.find_sub p t r' ht x hx)
    | none =>
      simp only [ht] at h
      exact List.mem_append_right _ (Tree.findList_sub p ts r h x hx)
end

theorem Tree.ckpt_mem_flatten (t : Tree) : t.ckpt ∈ t.flatten := by
  cases t with | node c cs => simp [Tree.ckpt, Tree.flatten]

theorem Tree.find_mem {p : Ckpt → Bool} {t r : Tree} (h : t.find p = some r) : r.ckpt ∈ t.flatten :=
  Tree.find_sub p t r h _ r.ckpt_mem_flatten

theorem Tree.find_pred {p : Ckpt → Bool} {t r : Tree} (h : t.find p = some r) : p r.ckpt = true := by
  have := Tree.find_some_ckpt h
  exact List.find?_some this

theorem Tree.find_none_forall {p : Ckpt → Bool} {t : Tree} (h : t.find p = none) :
    ∀ c ∈ t.flatten, p c = false := by
  have := Tree.find_none_flatten h
  intro c hc
  have := List.find?_eq_none.mp this c hc
  simpa using this

/-! ### update -/

mutual
theorem Tree.update_flatten (p : Ckpt → Bool) (f : Ckpt → Ckpt) : ∀ t : Tree,
    (t.update p f).flatten = updFirst p f t.flatten
  | .node c cs => by
    unfold Tree.update
    by_cases h : p c
    · simp [h, Tree.flatten, updFirst]
    · simp only [h, Bool.false_eq_true, if_false, Tree.flatten, updFirst]
      rw [Tree.updateList_flatten p f cs]
theorem Tree.updateList_flatten (p : Ckpt → Bool) (f : Ckpt → Ckpt) : ∀ ts : List Tree,
    Tree.flattenList (Tree.updateList p f ts) = updFirst p f (Tree.flattenList ts)
  | [] => by simp [Tree.updateList, Tree.flattenList, updFirst]
  | t :: ts => by
    unfold Tree.updateList
    cases h : t.find p with
    | some r =>
      simp only [Tree.flattenList]
      rw [Tree.update_flatten p f t, updFirst_append_of_find?_some _ (Tree.find_some_ckpt h)]
    | none =>
      simp only [Tree.flattenList]
      rw [Tree.updateList_flatten p f ts, updFirst_append_of_find?_none _ (Tree.find_none_flatten h)]
end

theorem Tree.mem_update {p : Ckpt → Bool} {f : Ckpt → Ckpt} {t : Tree} {x : Ckpt}
    (h : x ∈ (t.update p f).flatten) :
    x ∈ t.flatten ∨ ∃ r, t.find p = some r ∧ x = f r.ckpt := by
  rw [Tree.update_flatten] at h
  rcases mem_updFirst h with h | ⟨c, hc, rfl⟩
  · exact Or.inl h
  · right
    cases hf : t.find p with
    | none => rw [Tree.find_none_flatten hf] at hc; cases hc
    | some r =>
      rw [Tree.find_some_ckpt hf] at hc
      exact ⟨r, rfl, by cases hc; rfl⟩

theorem Tree.update_of_find_none {p : Ckpt → Bool} {f : Ckpt → Ckpt} {t : Tree} (h : t.find p = none) :
    (t.update p f).flatten = t.flatten := by
  rw [Tree.update_flatten, updFirst_of_find?_none (Tree.find_none_flatten h)]

/-- after updating with a function that keeps the predicate, the same node is found, updated -/
theorem Tree.find_update_ckpt {p : Ckpt → Bool} {f : Ckpt → Ckpt} {t r : Tree} (h : t.find p = some r)
    (hp : p (f r.ckpt) = true) : ∃ r', (t.update p f).find p = some r' ∧ r'.ckpt = f r.ckpt := by
  have h1 := Tree.find_some_ckpt h
  obtain ⟨l1, l2, e, hn, hc, hu⟩ := updFirst_split (f := f) h1
  have : (t.update p f).flatten.find? p = some (f r.ckpt) := by
    rw [Tree.update_flatten, hu, List.find?_append]
    have : l1.find? p = none := List.find?_eq_none.mpr (fun x hx => by simp [hn x hx])
    simp [this, hp]
  cases hf : (t.update p f).find p with
  | none => rw [Tree.find_none_flatten hf] at this; cases this
  | some r' =>
    rw [Tree.find_some_ckpt hf] at this
    exact ⟨r', rfl, Option.some.inj this⟩

/-! ### addChild -/

mutual
theorem Tree.mem_addChild (p : Ckpt → Bool) (ch : Ckpt) : ∀ (t : Tree) (x : Ckpt),
    x ∈ (t.addChild p ch).flatten → x ∈ t.flatten ∨ x = ch
  | .node c cs, x, h => by
    unfold Tree.addChild at h
    by_cases hp : p c
    · simp only [hp, if_true, Tree.flatten, List.mem_cons] at h
      rcases h with h | h
      · left; simp [Tree.flatten, h]
      · rw [Tree.flattenList_append] at h
        rcases List.mem_append.mp h with h | h
        · left; simp [Tree.flatten, h]
        · right; simpa [Tree.flattenList, Tree.flatten] using h
    · simp only [hp, Bool.false_eq_true, if_false, Tree.flatten, List.mem_cons] at h
      rcases h with h | h
      · left; simp [Tree.flatten, h]
      · rcases Tree.mem_addChildList p ch cs x h with h | h
        · left; simp [Tree.flatten, h]
        · exact Or.inr h
theorem Tree.mem_addChildList (p : Ckpt → Bool) (ch : Ckpt) : ∀ (ts : List Tree) (x : Ckpt),
    x ∈ Tree.flattenList (Tree.addChildList p ch ts) → x ∈ Tree.flattenList ts ∨ x = ch
  | [], x, h => by simp [Tree.addChildList, Tree.flattenList] at h
  | t :: ts, x, h => by
    unfold Tree.addChildList at h
    cases ht : t.find p with
    | some r =>
      simp only [ht, Tree.flattenList] at h
      rcases List.mem_append.mp h with h | h
      · rcases Tree.mem_addChild p ch t x h with h | h
        · left; simp [Tree.flattenList, h]
        · exact Or.inr h
      · left; simp [Tree.flattenList, h]
    | none =>
      simp only [ht, Tree.flattenList] at h
      rcases List.mem_append.mp h with h | h
      · left; simp [Tree.flattenList, h]
      · rcases Tree.mem_addChildList p ch ts x h with h | h
        · left; simp [Tree.flattenList, h]
        · exact Or.inr h
theorem Tree.flattenList_append : ∀ (as bs : List Tree),
    Tree.flattenList (as ++ bs) = Tree.flattenList as ++ Tree.flattenList bs
  | [], bs => by simp [Tree.flattenList]
  | a :: as, bs => by
    simp only [List.cons_append, Tree.flattenList]
    rw [Tree.flattenList_append as bs, List.append_assoc]
end

mutual
theorem Tree.addChild_root (p : Ckpt → Bool) (ch : Ckpt) : ∀ t : Tree, (t.addChild p ch).ckpt = t.ckpt
  | .node c cs => by unfold Tree.addChild; by_cases hp : p c <;> simp [hp, Tree.ckpt]
end

theorem Tree.update_root_of_not (p : Ckpt → Bool) (f : Ckpt → Ckpt) (t : Tree) (h : p t.ckpt = false) :
    (t.update p f).ckpt = t.ckpt := by
  cases t with | node c cs => simp [Tree.ckpt] at h; simp [Tree.update, h, Tree.ckpt]

/-! ### bestNode returns a checkpoint of the tree -/

mutual
theorem Tree.bestNode_mem (rankOf : Nat → Nat) : ∀ (jh : Nat) (t : Tree), (t.bestNode rankOf jh).1 ∈ t.flatten
  | jh, .node c cs => by
    unfold Tree.bestNode
    simp only [Tree.flatten]
    rcases Tree.bestList_mem rankOf _ (c, _) cs with h | h
    · rw [h]; exact List.mem_cons_self
    · exact List.mem_cons_of_mem _ h
theorem Tree.bestList_mem (rankOf : Nat → Nat) : ∀ (jh : Nat) (best : Ckpt × Nat) (ts : List Tree),
    (Tree.bestList rankOf jh best ts).1 = best.1 ∨ (Tree.bestList rankOf jh best ts).1 ∈ Tree.flattenList ts
  | jh, best, [] => by simp [Tree.bestList]
  | jh, best, t :: ts => by
    unfold Tree.bestList
    simp only [Tree.flattenList]
    split
    · rename_i hb
      rcases Tree.bestList_mem rankOf jh (t.bestNode rankOf jh) ts with h | h
      · right; rw [h]; exact List.mem_append_left _ (Tree.bestNode_mem rankOf jh t)
      · right; exact List.mem_append_right _ h
    · rcases Tree.bestList_mem rankOf jh best ts with h | h
      · exact Or.inl h
      · right; exact List.mem_append_right _ h
end

/-! ### sup links -/

def slotsOf (l : SupLink) : List Nat := l.sigs.map (·.slot)

theorem mem_setSig {sigs : List Sig} {s x : Sig} (h : x ∈ setSig sigs s) : x = s ∨ x ∈ sigs := by
  unfold setSig at h
  rcases List.mem_cons.mp h with h | h
  · exact Or.inl h
  · exact Or.inr (List.mem_filter.mp h).1

theorem setSig_nodup {sigs : List Sig} {s : Sig} (h : (sigs.map (·.slot)).Nodup) :
    ((setSig sigs s).map (·.slot)).Nodup := by
  unfold setSig
  simp only [List.map_cons, List.nodup_cons]
  refine ⟨?_, ?_⟩
  · intro hm
    obtain ⟨x, hx, hxs⟩ := List.mem_map.mp hm
    have := (List.mem_filter.mp hx).2
    simp [hxs] at this
  · exact (List.Nodup.sublist (List.Sublist.map _ List.filter_sublist) h)

theorem length_filter_ne_slot {sigs : List Sig} (k : Nat) (h : (sigs.map (·.slot)).Nodup) :
    sigs.length ≤ (sigs.filter (fun x => x.slot != k)).length + 1 := by
  induction sigs with
  | nil => simp
  | cons a l ih =>
    simp only [List.map_cons, List.nodup_cons] at h
    by_cases ha : a.slot = k
    · have : l.filter (fun x => x.slot != k) = l := by
        apply List.filter_eq_self.mpr
        intro x hx
        have : x.slot ≠ k := by
          intro hxk; apply h.1; rw [ha, ← hxk]; exact List.mem_map_of_mem hx
        simpa using this
      rw [List.filter_cons]
      simp [ha, this]
    · have := ih h.2
      rw [List.filter_cons]
      simp [ha]; omega

theorem setSig_length_ge {sigs : List Sig} {s : Sig} (h : (sigs.map (·.slot)).Nodup) :
    sigs.length ≤ (setSig sigs s).length := by
  unfold setSig
  have := length_filter_ne_slot s.slot h
  simpa using this

/-- what `addSupLink` does to the list of links: every old link survives with the same source and
    at least as many (distinct) slots; new signatures are exactly the added one. -/
theorem mem_addSupLink {ls : List SupLink} {src h : Nat} {s : Sig} {l' : SupLink}
    (hm : l' ∈ addSupLink ls src h s) :
    l' ∈ ls ∨ (l'.src = src ∧ ∀ x ∈ l'.sigs, x = s ∨ ∃ l ∈ ls, l.src = src ∧ l.srcHeight = l'.srcHeight ∧ x ∈ l.sigs) := by
  induction ls with
  | nil =>
    simp only [addSupLink, List.mem_singleton] at hm
    subst hm
    exact Or.inr ⟨rfl, fun x hx => Or.inl (by simpa using hx)⟩
  | cons l ls ih =>
    unfold addSupLink at hm
    by_cases hl : l.src = src
    · simp only [hl, beq_self_eq_true, if_true, List.mem_cons] at hm
      rcases hm with hm | hm
      · subst hm
        refine Or.inr ⟨rfl, fun x hx => ?_⟩
        rcases mem_setSig hx with h | h
        · exact Or.inl h
        · exact Or.inr ⟨l, List.mem_cons_self, hl, rfl, h⟩
      · exact Or.inl (List.mem_cons_of_mem _ hm)
    · have : (l.src == src) = false := by simpa using hl
      simp only [this, Bool.false_eq_true, if_false, List.mem_cons] at hm
      rcases hm with hm | hm
      · exact Or.inl (hm ▸ List.mem_cons_self)
      · rcases ih hm with h | ⟨h1, h2⟩
        · exact Or.inl (List.mem_cons_of_mem _ h)
        · refine Or.inr ⟨h1, fun x hx => ?_⟩
          rcases h2 x hx with h | ⟨l0, hl0, h3⟩
          · exact Or.inl h
          · exact Or.inr ⟨l0, List.mem_cons_of_mem _ hl0, h3⟩

/-- the same for the header-level merge (entry identified by source hash AND declared source height) -/
theorem mem_addSupLinkH {ls : List SupLink} {src h : Nat} {s : Sig} {l' : SupLink}
    (hm : l' ∈ addSupLinkH ls src h s) :
    l' ∈ ls ∨ (l'.src = src ∧ l'.srcHeight = h ∧
      ∀ x ∈ l'.sigs, x = s ∨ ∃ l ∈ ls, l.src = src ∧ l.srcHeight = l'.srcHeight ∧ x ∈ l.sigs) := by
  induction ls with
  | nil =>
    simp only [addSupLinkH, List.mem_singleton] at hm
    subst hm
    exact Or.inr ⟨rfl, rfl, fun x hx => Or.inl (by simpa using hx)⟩
  | cons l ls ih =>
    unfold addSupLinkH at hm
    by_cases hl : (l.src == src && l.srcHeight == h) = true
    · simp only [hl, if_true, List.mem_cons] at hm
      have hl' : l.src = src ∧ l.srcHeight = h := by simpa using hl
      rcases hm with hm | hm
      · subst hm
        refine Or.inr ⟨hl'.1, hl'.2, fun x hx => ?_⟩
        rcases mem_setSig hx with h1 | h1
        · exact Or.inl h1
        · exact Or.inr ⟨l, List.mem_cons_self, hl'.1, rfl, h1⟩
      · exact Or.inl (List.mem_cons_of_mem _ hm)
    · simp only [hl, Bool.false_eq_true, if_false, List.mem_cons] at hm
      rcases hm with hm | hm
      · exact Or.inl (hm ▸ List.mem_cons_self)
      · rcases ih hm with h1 | ⟨h1, h2, h3⟩
        · exact Or.inl (List.mem_cons_of_mem _ h1)
        · refine Or.inr ⟨h1, h2, fun x hx => ?_⟩
          rcases h3 x hx with h4 | ⟨l0, hl0, h5⟩
          · exact Or.inl h4
          · exact Or.inr ⟨l0, List.mem_cons_of_mem _ hl0, h5⟩

/-- the header-level merge always leaves an entry with exactly the given source hash AND source height
    that holds the added signature -/
theorem addSupLinkH_has (ls : List SupLink) (src h : Nat) (s : Sig) :
    ∃ l ∈ addSupLinkH ls src h s, l.src = src ∧ l.srcHeight = h ∧ s ∈ l.sigs := by
  induction ls with
  | nil => exact ⟨{ src := src, srcHeight := h, sigs := [s] }, by simp [addSupLinkH], rfl, rfl, by simp⟩
  | cons a ls ih =>
    unfold addSupLinkH
    by_cases ha : (a.src == src && a.srcHeight == h) = true
    · have ha' : a.src = src ∧ a.srcHeight = h := by simpa using ha
      simp only [ha, if_true]
      exact ⟨_, List.mem_cons_self, ha'.1, ha'.2, by simp [setSig]⟩
    · simp only [ha, Bool.false_eq_true, if_false]
      obtain ⟨l, hl, h1⟩ := ih
      exact ⟨l, List.mem_cons_of_mem _ hl, h1⟩

/-- a link that was there keeps (or extends) its slots -/
theorem addSupLink_keeps {ls : List SupLink} {src h : Nat} {s : Sig} {l : SupLink}
    (hn : ∀ l ∈ ls, (l.sigs.map (·.slot)).Nodup) (hm : l ∈ ls) :
    ∃ l' ∈ addSupLink ls src h s, l'.src = l.src ∧ l'.srcHeight = l.srcHeight ∧ l.sigs.length ≤ l'.sigs.length := by
  induction ls with
  | nil => cases hm
  | cons a ls ih =>
    unfold addSupLink
    by_cases ha : a.src = src
    · simp only [ha, beq_self_eq_true, if_true]
      rcases List.mem_cons.mp hm with rfl | hm
      · exact ⟨_, List.mem_cons_self, ha.symm, rfl, setSig_length_ge (hn _ List.mem_cons_self)⟩
      · exact ⟨l, List.mem_cons_of_mem _ hm, rfl, rfl, Nat.le_refl _⟩
    · have : (a.src == src) = false := by simpa using ha
      simp only [this, Bool.false_eq_true, if_false]
      rcases List.mem_cons.mp hm with rfl | hm
      · exact ⟨_, List.mem_cons_self, rfl, rfl, Nat.le_refl _⟩
      · obtain ⟨l', h1, h2⟩ := ih (fun l hl => hn l (List.mem_cons_of_mem _ hl)) hm
        exact ⟨l', List.mem_cons_of_mem _ h1, h2⟩

theorem addSupLink_nodup {ls : List SupLink} {src h : Nat} {s : Sig}
    (hn : ∀ l ∈ ls, (l.sigs.map (·.slot)).Nodup) :
    ∀ l ∈ addSupLink ls src h s, (l.sigs.map (·.slot)).Nodup := by
  induction ls with
  | nil => intro l hl; simp only [addSupLink, List.mem_singleton] at hl; subst hl; simp
  | cons a ls ih =>
    intro l hl
    unfold addSupLink at hl
    by_cases ha : a.src = src
    · simp only [ha, beq_self_eq_true, if_true, List.mem_cons] at hl
      rcases hl with rfl | hl
      · exact setSig_nodup (hn _ List.mem_cons_self)
      · exact hn _ (List.mem_cons_of_mem _ hl)
    · have : (a.src == src) = false := by simpa using ha
      simp only [this, Bool.false_eq_true, if_false, List.mem_cons] at hl
      rcases hl with rfl | hl
      · exact hn _ List.mem_cons_self
      · exact ih (fun l hl => hn l (List.mem_cons_of_mem _ hl)) l hl

/-- the link the added signature went into -/
theorem findLink_addSupLink (ls : List SupLink) (src h : Nat) (s : Sig) :
    ∃ l, findLink (addSupLink ls src h s) src = some l ∧ l ∈ addSupLink ls src h s ∧ s ∈ l.sigs := by
  induction ls with
  | nil => exact ⟨{ src := src, srcHeight := h, sigs := [s] }, by simp [addSupLink, findLink], by simp [addSupLink], by simp⟩
  | cons a ls ih =>
    unfold addSupLink
    by_cases ha : a.src = src
    · simp only [ha, beq_self_eq_true, if_true]
      exact ⟨_, by simp [findLink, ha], List.mem_cons_self, by simp [setSig]⟩
    · have hb : (a.src == src) = false := by simpa using ha
      simp only [hb, Bool.false_eq_true, if_false]
      obtain ⟨l, h1, h2, h3⟩ := ih
      refine ⟨l, ?_, List.mem_cons_of_mem _ h2, h3⟩
      simpa [findLink, List.find?, hb] using h1

theorem findLink_mem {ls : List SupLink} {src : Nat} {l : SupLink} (h : findLink ls src = some l) :
    l ∈ ls ∧ l.src = src := by
  unfold findLink at h
  exact ⟨List.mem_of_find?_eq_some h, by simpa using List.find?_some h⟩

end BytomModel.Node
