/-
Refinement of the value model by the Go-slice heap model (C06): reading every slice of a
heap state back as a byte string (`absSt`) commutes with every opcode handler, provided all
slices of the state are valid (`len` bytes really are there).  Base lemmas.
-/
import BytomModel.Lemmas.VMHeap
import BytomModel.Lemmas.VMOps
namespace BytomModel.VM
open OpM
set_option linter.unusedSimpArgs false
set_option linter.unusedVariables false

/-- the slice lies inside its backing array: reading it yields exactly `len` bytes -/
def Valid (h : Heap) (s : Slice) : Prop := (h.read s).length = s.len

theorem getArr_eq_nil_of_size_le (h : Heap) (i : Nat) (hi : h.arrays.size ≤ i) : h.getArr i = [] := by
  unfold Heap.getArr
  rw [Array.getD_eq_getD_getElem?]
  simp [hi]

theorem read_prefix {h h' : Heap} (hp : HeapPrefix h h') {s : Slice} (hv : Valid h s) :
    h'.read s = h.read s := by
  by_cases hz : s.len = 0
  · simp [Heap.read, hz]
  · have hlt : s.arr < h.arrays.size := by
      by_contra hc
      have := getArr_eq_nil_of_size_le h s.arr (by omega)
      unfold Valid Heap.read at hv
      rw [this] at hv
      simp at hv; omega
    unfold Heap.read
    rw [hp.getArr s.arr hlt]

theorem Valid.prefix {h h' : Heap} (hp : HeapPrefix h h') {s : Slice} (hv : Valid h s) : Valid h' s := by
  unfold Valid; rw [read_prefix hp hv]; exact hv

theorem getArr_fresh (h : Heap) (b : Bytes) (e : Nat) :
    (heapFresh h b e).1.getArr (heapFresh h b e).2.arr = b ++ List.replicate e 0 := by
  show Heap.getArr ⟨h.arrays.push _⟩ h.arrays.size = _
  unfold Heap.getArr
  rw [Array.getD_eq_getD_getElem?]
  simp

@[simp] theorem read_fresh_self (h : Heap) (b : Bytes) (e : Nat) :
    (heapFresh h b e).1.read (heapFresh h b e).2 = b := by
  unfold Heap.read
  rw [getArr_fresh]
  show ((b ++ List.replicate e 0).drop 0).take b.length = b
  simp

@[simp] theorem Valid_fresh_self (h : Heap) (b : Bytes) (e : Nat) :
    Valid (heapFresh h b e).1 (heapFresh h b e).2 := by
  unfold Valid; rw [read_fresh_self]; rfl

@[simp] theorem len_fresh_self (h : Heap) (b : Bytes) (e : Nat) : (heapFresh h b e).2.len = b.length := rfl

theorem read_fresh_old (h : Heap) (b : Bytes) (e : Nat) (s : Slice) (hv : Valid h s) :
    (heapFresh h b e).1.read s = h.read s := read_prefix (HeapPrefix.fresh h b e) hv

theorem Valid_fresh_old (h : Heap) (b : Bytes) (e : Nat) (s : Slice) (hv : Valid h s) :
    Valid (heapFresh h b e).1 s := hv.prefix (HeapPrefix.fresh h b e)

theorem map_read_fresh_old (h : Heap) (b : Bytes) (e : Nat) (l : List Slice) (hv : ∀ x ∈ l, Valid h x) :
    l.map (heapFresh h b e).1.read = l.map h.read := by
  apply List.map_congr_left
  intro x hx
  exact read_fresh_old h b e x (hv x hx)

theorem map_read_prefix {h h' : Heap} (hp : HeapPrefix h h') (l : List Slice) (hv : ∀ x ∈ l, Valid h x) :
    l.map h'.read = l.map h.read := by
  apply List.map_congr_left
  intro x hx
  exact read_prefix hp (hv x hx)

/-- `s[lo:hi]` of a valid slice reads as the corresponding cut of its bytes -/
theorem read_slice (h : Heap) (s : Slice) (lo hi : Nat) (hv : Valid h s) (h1 : lo ≤ hi) (h2 : hi ≤ s.len) :
    h.read (heapSlice s lo hi) = ((h.read s).drop lo).take (hi - lo) := by
  unfold Heap.read heapSlice
  simp only [List.drop_take, List.drop_drop, List.take_take]
  congr 1
  omega

theorem Valid_slice (h : Heap) (s : Slice) (lo hi : Nat) (hv : Valid h s) (h1 : lo ≤ hi) (h2 : hi ≤ s.len) :
    Valid h (heapSlice s lo hi) := by
  unfold Valid
  rw [read_slice h s lo hi hv h1 h2]
  unfold Valid at hv
  show _ = hi - lo
  simp [hv]; omega

/-- a non-deferred push of freshly allocated bytes, in one step -/
theorem pushBytes_imm {μ ι : Type} (M : MemOps μ ι) (b : Bytes) (e : Nat) (s : St μ ι) :
    pushBytes M b false e s =
      if 8 + (M.len (M.fresh s.mem b e).2 : Int) > s.f.runLimit then
        .err .runLimitExceeded ⟨(M.fresh s.mem b e).1, { s.f with runLimit := 0 }⟩
      else .ok () ⟨(M.fresh s.mem b e).1,
        { s.f with runLimit := s.f.runLimit - (8 + (M.len (M.fresh s.mem b e).2 : Int)),
                   data := (M.fresh s.mem b e).2 :: s.f.data }⟩ := by
  simp only [pushBytes, bind_run, allocBytes_run, Res.bindK_ok, pushItem_imm, itemCost]
  split <;> simp_all

theorem pushBytes_def {μ ι : Type} (M : MemOps μ ι) (b : Bytes) (e : Nat) (s : St μ ι) :
    pushBytes M b true e s = .ok () ⟨(M.fresh s.mem b e).1,
        { s.f with deferred := s.f.deferred + (8 + (M.len (M.fresh s.mem b e).2 : Int)),
                   data := (M.fresh s.mem b e).2 :: s.f.data }⟩ := by
  simp only [pushBytes, bind_run, allocBytes_run, Res.bindK_ok, pushItem_def, itemCost]

/-! ### abstraction of states -/

def absFrame (h : Heap) (f : Frame Slice) : Frame Bytes :=
  { prog := h.read f.prog, pc := f.pc, nextPC := f.nextPC, runLimit := f.runLimit, deferred := f.deferred,
    data := f.data.map h.read, alt := f.alt.map h.read, depth := f.depth, expRes := f.expRes }

def absSt (s : St Heap Slice) : St Unit Bytes := ⟨(), absFrame s.mem s.f⟩

def FrameValid (h : Heap) (f : Frame Slice) : Prop :=
  Valid h f.prog ∧ (∀ x ∈ f.data, Valid h x) ∧ (∀ x ∈ f.alt, Valid h x)

def absCtx (h : Heap) (c : Context Slice) : Context Bytes :=
  { vmVersion := c.vmVersion, code := h.read c.code, stateData := c.stateData.map h.read,
    arguments := c.arguments.map h.read, entryID := h.read c.entryID, txVersion := c.txVersion,
    blockHeight := c.blockHeight, assetID := c.assetID.map h.read, amount := c.amount, destPos := c.destPos,
    spentOutputID := c.spentOutputID.map h.read, txSigHash := c.txSigHash, checkOutput := c.checkOutput,
    verifySig := c.verifySig, sha256 := c.sha256, sha3 := c.sha3, ripemd160 := c.ripemd160 }

def CtxValid (h : Heap) (c : Context Slice) : Prop :=
  Valid h c.code ∧ Valid h c.entryID ∧ (∀ x, c.assetID = some x → Valid h x) ∧
  (∀ x, c.spentOutputID = some x → Valid h x) ∧ (∀ x ∈ c.arguments, Valid h x) ∧ (∀ x ∈ c.stateData, Valid h x)

theorem FrameValid.prefix {h h' : Heap} (hp : HeapPrefix h h') {f : Frame Slice} (hv : FrameValid h f) :
    FrameValid h' f :=
  ⟨hv.1.prefix hp, fun x hx => (hv.2.1 x hx).prefix hp, fun x hx => (hv.2.2 x hx).prefix hp⟩

theorem absFrame_prefix {h h' : Heap} (hp : HeapPrefix h h') {f : Frame Slice} (hv : FrameValid h f) :
    absFrame h' f = absFrame h f := by
  unfold absFrame
  rw [read_prefix hp hv.1, map_read_prefix hp _ hv.2.1, map_read_prefix hp _ hv.2.2]

theorem CtxValid.prefix {h h' : Heap} (hp : HeapPrefix h h') {c : Context Slice} (hv : CtxValid h c) :
    CtxValid h' c :=
  ⟨hv.1.prefix hp, hv.2.1.prefix hp, fun x hx => (hv.2.2.1 x hx).prefix hp,
   fun x hx => (hv.2.2.2.1 x hx).prefix hp, fun x hx => (hv.2.2.2.2.1 x hx).prefix hp,
   fun x hx => (hv.2.2.2.2.2 x hx).prefix hp⟩

theorem absCtx_prefix {h h' : Heap} (hp : HeapPrefix h h') {c : Context Slice} (hv : CtxValid h c) :
    absCtx h' c = absCtx h c := by
  obtain ⟨h1, h2, h3, h4, h5, h6⟩ := hv
  unfold absCtx
  rw [read_prefix hp h1, read_prefix hp h2, map_read_prefix hp _ h5, map_read_prefix hp _ h6]
  congr 1
  · cases ha : c.assetID with
    | none => rfl
    | some x => simp [read_prefix hp (h3 x ha)]
  · cases ha : c.spentOutputID with
    | none => rfl
    | some x => simp [read_prefix hp (h4 x ha)]

/-- postcondition with an explicit clause for the panic outcome -/
def ResPP {σ α : Type} (Q : α → σ → Prop) (E : Err → σ → Prop) (P : Prop) : Res σ α → Prop
  | .ok a s => Q a s
  | .err e s => E e s
  | .panic => P

@[simp] theorem ResPP_ok {σ α : Type} (Q : α → σ → Prop) (E : Err → σ → Prop) (P : Prop) (a : α) (s : σ) :
    ResPP Q E P (.ok a s) ↔ Q a s := Iff.rfl
@[simp] theorem ResPP_err {σ α : Type} (Q : α → σ → Prop) (E : Err → σ → Prop) (P : Prop) (e : Err) (s : σ) :
    ResPP Q E P (.err e s : Res σ α) ↔ E e s := Iff.rfl
@[simp] theorem ResPP_panic {σ α : Type} (Q : α → σ → Prop) (E : Err → σ → Prop) (P : Prop) :
    ResPP Q E P (.panic : Res σ α) ↔ P := Iff.rfl
@[simp] theorem ResPP_ite {σ α : Type} (Q : α → σ → Prop) (E : Err → σ → Prop) (P : Prop) (c : Prop)
    {inst : Decidable c} (x y : Res σ α) :
    ResPP Q E P (@ite _ c inst x y) ↔ (c → ResPP Q E P x) ∧ (¬ c → ResPP Q E P y) := by
  split <;> simp_all
@[simp] theorem ResPP_exceptK {σ α γ : Type} (Q : α → σ → Prop) (E : Err → σ → Prop) (P : Prop) (x : Except Err γ)
    (A : γ → Res σ α) (B : Err → Res σ α) :
    ResPP Q E P (exceptK x A B) ↔ (∀ a, x = .ok a → ResPP Q E P (A a)) ∧ (∀ e, x = .error e → ResPP Q E P (B e)) := by
  cases x <;> simp
@[simp] theorem ResPP_optionK {σ α γ : Type} (Q : α → σ → Prop) (E : Err → σ → Prop) (P : Prop) (x : Option γ)
    (A : γ → Res σ α) (B : Res σ α) :
    ResPP Q E P (optionK x A B) ↔ (∀ a, x = some a → ResPP Q E P (A a)) ∧ (x = none → ResPP Q E P B) := by
  cases x <;> simp

end BytomModel.VM
