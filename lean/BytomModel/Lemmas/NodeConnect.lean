/-
The loop of `saveSubBlock` visits every waiting child exactly once, and the connection
theorem: after `processBlock b` every pool member hanging (inside the pool) under `b` is
stored, unless `saveBlock` refused a block on its chain (which then stays in the pool: F29).
-/
import BytomModel.Lemmas.NodeEvents
import Mathlib.Data.List.Perm.Subperm
open BytomModel.Node BytomModel.Lemmas.NodeAlist BytomModel.Lemmas.NodePool BytomModel.Lemmas.NodeFrame
open BytomModel.Lemmas.NodeOrphans BytomModel.Lemmas.NodeEvents

namespace BytomModel.Lemmas.NodeConnect

/-! ### the loop of `saveSubBlock` visits every waiting child exactly once -/

theorem saveSubBlock_eq_fold {U : Universe} {s : State} (hI : Inv U s) (fuel a : Nat) :
    State.saveSubBlock (fuel + 1) s a = (group s.orphans a).foldl (visit fuel) s := by
  rw [saveSubBlock_succ]
  cases hg : alistGet s.prevOrphans a with
  | none =>
    rw [hI.pool.get] at hg
    by_cases e : group s.orphans a = []
    · rw [e]; rfl
    · simp [e] at hg
  | some w => rw [waiting_eq_group hI hg]

theorem foldInv_prefix {U : Universe} {R : State → Prop}
    (hR : ∀ st ob, R st → ob ∈ st.orphans → stored st ob.parent → R (st.saveBlock ob).1)
    {fuel : Nat} (ih : SsbSpec U R fuel) {a : Nat} {s : State} (ha : stored s a) (pre : List Nat) :
    ∀ st w, FoldInv U R a s (s.orphans.length ≤ fuel + 1) st (pre ++ w) →
      FoldInv U R a s (s.orphans.length ≤ fuel + 1) (pre.foldl (visit fuel) st) w := by
  induction pre with
  | nil => intro st w h; exact h
  | cons o pre ihp => intro st w h; exact ihp _ _ (foldInv_step hR ih ha h)

/-- when the loop reaches a waiting child, that child is still in the pool (the `Get` of the
    Go loop never misses, so no child is skipped) -/
theorem waiting_child_present {U : Universe} {s : State} (hI : Inv U s) {a : Nat} (ha : stored s a) (fuel : Nat)
    {pre post : List Nat} {o : Nat} (hw : group s.orphans a = pre ++ o :: post) :
    ∃ ob, lookupHeader (pre.foldl (visit fuel) s).orphans o = some ob ∧ ob.parent = a ∧ ob ∈ s.orphans := by
  have hR : ∀ (st : State) (ob : Header), True → ob ∈ st.orphans → stored st ob.parent → True := fun _ _ _ _ _ => trivial
  have h0 : FoldInv U (fun _ => True) a s (s.orphans.length ≤ fuel + 1) s (pre ++ o :: post) := by
    rw [← hw]; exact foldInv_init hI trivial _
  have h1 := foldInv_prefix hR (ssbSpec hR fuel) ha pre s _ h0
  obtain ⟨ob, hm, hid, hp⟩ := h1.waiting o (List.mem_cons_self ..)
  refine ⟨ob, ?_, hp, ((h1.grow.mem_orphans ob).mp hm).1⟩
  rw [← hid]
  exact lookupHeader_of_mem h1.grow.inv.pool.nodup hm

/-! ### descendants inside the pool, and the connection theorem -/

/-- `x` is a pool member whose chain of parents, inside the pool `os`, leads to the block `a` -/
inductive Desc (os : List Header) (a : Nat) : Header → Prop
  | child {x : Header} : x ∈ os → x.parent = a → Desc os a x
  | step {x m : Header} : x ∈ os → Desc os a m → x.parent = m.id → Desc os a x

theorem Desc.mem {os : List Header} {a : Nat} {x : Header} (h : Desc os a x) : x ∈ os := by
  cases h <;> assumption

/-- the states `saveBlock` calls lead to from `s` -/
inductive SaveReach (s : State) : State → Prop
  | refl : SaveReach s s
  | step {st : State} (ob : Header) : SaveReach s st → SaveReach s (st.saveBlock ob).1

theorem desc_connected {U : Universe} {R : State → Prop} {a : Nat} {s s' : State} (hI : Inv U s)
    (g : Grow U s s') (cmp : Complete R a s s') (ha : stored s' a) :
    ∀ x, Desc s.orphans a x →
      stored s' x.id ∨
      ∃ y, Desc s.orphans a y ∧ (y = x ∨ Desc s.orphans y.id x) ∧ y ∈ s'.orphans ∧ stored s' y.parent ∧ Refused R y := by
  intro x hx
  induction hx with
  | @child x hm hp =>
    by_cases e : stored s' x.id
    · exact Or.inl e
    · exact Or.inr ⟨x, Desc.child hm hp, Or.inl rfl, (g.mem_orphans x).mpr ⟨hm, e⟩, hp ▸ ha, cmp x hm (Or.inl hp) e⟩
  | @step x m hm hd hp ih =>
    rcases ih with hs | ⟨y, hy, hyx, hyo, hyp, hyr⟩
    · by_cases e : stored s' x.id
      · exact Or.inl e
      · have hnew : NewS s s' x.parent := ⟨hp ▸ hs, hp ▸ hI.disjoint m hd.mem⟩
        exact Or.inr ⟨x, Desc.step hm hd hp, Or.inl rfl, (g.mem_orphans x).mpr ⟨hm, e⟩, hnew.1, cmp x hm (Or.inr hnew) e⟩
    · refine Or.inr ⟨y, hy, Or.inr ?_, hyo, hyp, hyr⟩
      rcases hyx with e | e
      · subst e; exact Desc.child hm hp
      · exact Desc.step hm e hp

theorem Desc.mono {os os' : List Header} (hsub : ∀ x, x ∈ os → x ∈ os') {a : Nat} {x : Header} (h : Desc os a x) :
    Desc os' a x := by
  induction h with
  | child hm hp => exact Desc.child (hsub _ hm) hp
  | step hm _ hp ih => exact Desc.step (hsub _ hm) ih hp

/-- a pool copy of `b` cannot be on a chain leading to `b` once `b`'s parent is stored -/
theorem desc_id_ne {U : Universe} {s : State} (hI : Inv U s) {b : Header} (hb : Coh U b) (hp : stored s b.parent)
    {x : Header} (h : Desc s.orphans b.id x) : x.id ≠ b.id := by
  intro e
  have hxp : x.parent = b.parent := by rw [(hI.cohO x h.mem).1, hb.1, e]
  cases h with
  | child hm hpa =>
    -- x.parent = b.id = x.id is stored, but x is in the pool
    exact hI.disjoint x hm (by rw [e, ← hpa, hxp]; exact hp)
  | step hm hd hpa =>
    rename_i m
    exact hI.disjoint m hd.mem (by rw [← hpa, hxp]; exact hp)

theorem desc_after_save {U : Universe} {s : State} (hI : Inv U s) {b : Header} (hb : Coh U b) (hp : stored s b.parent)
    (hok : (s.saveBlock b).2 = true) {x : Header} (h : Desc s.orphans b.id x) :
    Desc (s.saveBlock b).1.orphans b.id x := by
  obtain ⟨_, _, _, _, ho, _⟩ := saveBlock_true_fields hok
  have key : ∀ y, Desc s.orphans b.id y → y ∈ (s.saveBlock b).1.orphans := by
    intro y hy
    rw [ho, List.mem_filter]
    exact ⟨hy.mem, by simpa using desc_id_ne hI hb hp hy⟩
  induction h with
  | child hm hpa => exact Desc.child (key _ (Desc.child hm hpa)) hpa
  | step hm hd hpa ih => exact Desc.step (key _ (Desc.step hm hd hpa)) ih hpa

theorem fuel_ge_defs (s : State) : s.defs.length ≤ s.fuel := by unfold State.fuel; omega

/-- **connection theorem** (model level): `b`'s parent is stored and `saveBlock` accepts `b`; then after
    `processBlock b` every pool member whose chain of parents leads to `b` is stored and out of the
    pool — unless `saveBlock` refused it or a block `y` on that chain, and then `y` is still in the
    pool although its parent is stored (open finding F29) -/
theorem processBlock_connects {U : Universe} {s : State} (hI : Inv U s) {b : Header} (hb : Coh U b)
    (hp : stored s b.parent) (hne : ¬ Early s b) (hok : (s.saveBlock b).2 = true)
    (hfuel : s.orphans.length ≤ s.defs.length) :
    stored (s.processBlock b).1 b.id ∧
    ∀ x, Desc s.orphans b.id x →
      (stored (s.processBlock b).1 x.id ∧ x ∉ (s.processBlock b).1.orphans) ∨
      ∃ y, Desc s.orphans b.id y ∧ (y = x ∨ Desc s.orphans y.id x) ∧ y ∈ (s.processBlock b).1.orphans ∧
        stored (s.processBlock b).1 y.parent ∧ Refused (SaveReach (s.saveBlock b).1) y := by
  rcases processBlock_cases s b with ⟨he, _⟩ | ⟨_, hnp, _⟩ | ⟨_, _, hf, _⟩ | ⟨_, _, _, e, _⟩
  · exact absurd he hne
  · exact absurd hp hnp
  · rw [hok] at hf; cases hf
  · have hI1 := inv_saveBlock hI hb
    have g1 := grow_saveBlock hI hb
    have hs1 : stored (s.saveBlock b).1 b.id := (stored_saveBlock_true hok _).mpr (Or.inl rfl)
    have hR : ∀ (st : State) (ob : Header), SaveReach (s.saveBlock b).1 st → ob ∈ st.orphans → stored st ob.parent →
        SaveReach (s.saveBlock b).1 (st.saveBlock ob).1 := fun st ob h _ _ => SaveReach.step ob h
    obtain ⟨g2, _, _, cmp2⟩ := ssbSpec hR (s.saveBlock b).1.fuel (s.saveBlock b).1 b.id hI1 SaveReach.refl hs1
    have hlen : (s.saveBlock b).1.orphans.length ≤ (s.saveBlock b).1.fuel := by
      have h1 : (s.saveBlock b).1.orphans.length ≤ s.orphans.length := by
        rw [g1.pool]; exact List.length_filter_le _ _
      have h2 := fuel_ge_defs (s.saveBlock b).1
      rw [g1.defs] at h2
      omega
    have cmp := cmp2 hlen
    have hst3 : ∀ i, stored (s.processBlock b).1 i ↔ stored (connect s b) i := by
      intro i; rw [e, stored_iff, stored_iff]; simp
    have ho3 : (s.processBlock b).1.orphans = (connect s b).orphans := by rw [e]; simp
    have hsub : ∀ x, x ∈ (s.saveBlock b).1.orphans → x ∈ s.orphans := fun x hx => ((g1.mem_orphans x).mp hx).1
    refine ⟨(hst3 _).mpr (g2.mono _ hs1), ?_⟩
    intro x hx
    rcases desc_connected hI1 g2 cmp (g2.mono _ hs1) x (desc_after_save hI hb hp hok hx) with hs | ⟨y, hy, hyx, hyo, hyp, hyr⟩
    · left
      refine ⟨(hst3 _).mpr hs, ?_⟩
      rw [ho3]
      intro hm
      exact g2.inv.disjoint x hm hs
    · right
      refine ⟨y, hy.mono hsub, ?_, by rw [ho3]; exact hyo, (hst3 _).mpr hyp, hyr⟩
      rcases hyx with e1 | e1
      · exact Or.inl e1
      · exact Or.inr (e1.mono hsub)

end BytomModel.Lemmas.NodeConnect
