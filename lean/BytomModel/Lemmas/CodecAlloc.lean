/-
Linear-allocation invariant of the codec decoders: a decoder is `Lin c s` when it charges at
most `c` allocation units per byte it consumes (and never un-reads), plus at most `s` once
on a path that ends in a failure.
-/
import BytomModel.Lemmas.CodecSafe

namespace BytomModel.Lemmas.Codec
open BytomModel.Codec

def Lin {α} (c s : Nat) (m : Dec α) : Prop := ∀ bs,
  (m bs).alloc ≤ c * bs.length + s ∧
  ∀ a r, (m bs).out = .ok a r → ∃ d, bs.length = r.length + d ∧ (m bs).alloc ≤ c * d

/-- a successful run consumes at least one byte -/
def Cons {α} (m : Dec α) : Prop := ∀ bs a r, (m bs).out = .ok a r → r.length < bs.length

theorem bind_alloc_ok {α β} {m : Dec α} {f : α → Dec β} {bs : Bytes} {a : α} {r : Bytes}
    (h : (m bs).out = .ok a r) : ((m >>= f) bs).alloc = (m bs).alloc + (f a r).alloc := by
  show (Dec.bind m f bs).alloc = _
  unfold Dec.bind
  cases hm : m bs with
  | mk k o => rw [hm] at h; simp only at h; subst h; rfl

theorem bind_alloc_err {α β} {m : Dec α} {f : α → Dec β} {bs : Bytes}
    (h : ∀ a r, (m bs).out ≠ .ok a r) : ((m >>= f) bs).alloc = (m bs).alloc := by
  show (Dec.bind m f bs).alloc = _
  unfold Dec.bind
  cases hm : m bs with
  | mk k o =>
    cases o with
    | ok a r => rw [hm] at h; exact absurd rfl (h a r)
    | err e => rfl
    | panic => rfl

namespace Lin

theorem mono {α} {c s c' s' : Nat} {m : Dec α} (hc : c ≤ c') (hs : s ≤ s') (h : Lin c s m) : Lin c' s' m := by
  intro bs
  obtain ⟨h1, h2⟩ := h bs
  refine ⟨?_, ?_⟩
  · have := Nat.mul_le_mul_right bs.length hc
    omega
  · intro a r hr
    obtain ⟨d, hd, hk⟩ := h2 a r hr
    exact ⟨d, hd, le_trans hk (Nat.mul_le_mul_right d hc)⟩

theorem bind {α β} {c s : Nat} {m : Dec α} {f : α → Dec β} (hm : Lin c s m) (hf : ∀ a, Lin c s (f a)) :
    Lin c s (m >>= f) := by
  intro bs
  obtain ⟨h1, h2⟩ := hm bs
  cases ho : (m bs).out with
  | ok a r1 =>
    obtain ⟨d1, hd1, hk1⟩ := h2 a r1 ho
    obtain ⟨g1, g2⟩ := hf a r1
    rw [bind_alloc_ok ho, bind_ok ho]
    refine ⟨?_, ?_⟩
    · rw [hd1, Nat.mul_add]; omega
    · intro b r hr
      obtain ⟨d2, hd2, hk2⟩ := g2 b r hr
      refine ⟨d1 + d2, by omega, ?_⟩
      rw [Nat.mul_add]; omega
  | err e =>
    rw [bind_alloc_err (by intro a r h; rw [ho] at h; cases h), bind_err ho]
    exact ⟨h1, by intro a r h; cases h⟩
  | panic =>
    rw [bind_alloc_err (by intro a r h; rw [ho] at h; cases h), bind_panic ho]
    exact ⟨h1, by intro a r h; cases h⟩

theorem pure {α} (c s : Nat) (a : α) : Lin c s (Pure.pure a : Dec α) := by
  intro bs
  refine ⟨Nat.zero_le _, ?_⟩
  intro a' r h
  simp only [pure_out, Out.ok.injEq] at h
  exact ⟨0, by rw [h.2]; rfl, Nat.zero_le _⟩

theorem fail {α} (c s : Nat) (e : Err) : Lin c s (Codec.fail e : Dec α) := by
  intro bs
  exact ⟨Nat.zero_le _, by intro a r h; cases h⟩

theorem remaining (c s : Nat) : Lin c s Codec.remaining := by
  intro bs
  refine ⟨Nat.zero_le _, ?_⟩
  intro a r h
  simp only [remaining_out, Out.ok.injEq] at h
  exact ⟨0, by rw [h.2]; rfl, Nat.zero_le _⟩

theorem ite {α} {c s : Nat} {p : Prop} [Decidable p] {a b : Dec α} (ha : Lin c s a) (hb : Lin c s b) :
    Lin c s (if p then a else b) := by
  split <;> assumption

/-- a decoder that never allocates and only consumes -/
theorem of_noalloc {α} {m : Dec α} (c s : Nat) (h0 : ∀ bs, (m bs).alloc = 0)
    (hr : ∀ bs a r, (m bs).out = .ok a r → r.length ≤ bs.length) : Lin c s m := by
  intro bs
  rw [h0]
  refine ⟨Nat.zero_le _, ?_⟩
  intro a r h
  exact ⟨bs.length - r.length, by have := hr bs a r h; omega, Nat.zero_le _⟩

end Lin

/-! ### primitives -/

theorem readByte_ok {bs : Bytes} {a : UInt8} {r : Bytes} (h : (readByte bs).out = .ok a r) : bs.length = r.length + 1 := by
  cases bs with
  | nil => cases h
  | cons b t => simp only [readByte_cons, Out.ok.injEq] at h; rw [← h.2]; rfl

theorem uvarintGo_ok : ∀ fuel x s bs v r, uvarintGo fuel x s bs = .ok v r → r.length < bs.length := by
  intro fuel
  induction fuel with
  | zero => intro x s bs v r h; simp [uvarintGo] at h
  | succ f ih =>
    intro x s bs v r h
    cases bs with
    | nil => simp [uvarintGo] at h
    | cons b rest =>
      simp only [uvarintGo] at h
      split at h
      · split at h
        · cases h
        · simp only [Out.ok.injEq] at h; rw [← h.2]; simp
      · have := ih _ _ _ _ _ h
        simp only [List.length_cons]; omega

theorem readUvarint_cons : Cons readUvarint := fun bs _ r h => uvarintGo_ok 10 0 0 bs _ r h
theorem readUvarint_alloc (bs : Bytes) : (readUvarint bs).alloc = 0 := rfl

theorem readUvarint_lin (c s : Nat) : Lin c s readUvarint :=
  Lin.of_noalloc c s readUvarint_alloc (fun bs a r h => Nat.le_of_lt (readUvarint_cons bs a r h))

theorem Cons.bind_left {α β} {c s : Nat} {m : Dec α} {f : α → Dec β} (hm : Cons m) (hf : ∀ a, Lin c s (f a)) :
    Cons (m >>= f) := by
  intro bs b r h
  obtain ⟨a, r1, h1, h2⟩ := bind_ok_inv h
  have := hm bs a r1 h1
  obtain ⟨d, hd, _⟩ := (hf a r1).2 b r h2
  omega

theorem readVarint31_lin (c s : Nat) : Lin c s readVarint31 :=
  Lin.bind (readUvarint_lin c s) fun _ => Lin.ite (Lin.fail c s _) (Lin.pure c s _)
theorem readVarint63_lin (c s : Nat) : Lin c s readVarint63 :=
  Lin.bind (readUvarint_lin c s) fun _ => Lin.ite (Lin.fail c s _) (Lin.pure c s _)
theorem readVarint31_cons : Cons readVarint31 :=
  Cons.bind_left (c := 0) (s := 0) readUvarint_cons fun _ => Lin.ite (Lin.fail 0 0 _) (Lin.pure 0 0 _)
theorem readVarint63_cons : Cons readVarint63 :=
  Cons.bind_left (c := 0) (s := 0) readUvarint_cons fun _ => Lin.ite (Lin.fail 0 0 _) (Lin.pure 0 0 _)

theorem takeStr_lin (c s l : Nat) : Lin c s (takeStr l) := by
  apply Lin.of_noalloc
  · intro bs; unfold takeStr; split
    · rfl
    · split <;> rfl
  · intro bs a r h
    unfold takeStr at h
    split at h
    · simp only [Out.ok.injEq] at h; rw [← h.2]
    · split at h
      · cases h
      · simp only [Out.ok.injEq] at h; rw [← h.2]; simp

theorem readVarstr31_lin (c s : Nat) : Lin c s readVarstr31 := Lin.bind (readVarint31_lin c s) (takeStr_lin c s)
theorem readVarstr31_cons : Cons readVarstr31 := Cons.bind_left readVarint31_cons (takeStr_lin 0 0)

theorem readVarstr31_alloc (bs : Bytes) : (readVarstr31 bs).alloc = 0 := by
  have := (readVarstr31_lin 0 0 bs).1
  omega

/-- the varstr read covers the string it returns: consumed ≥ |s| + 1 -/
theorem readVarstr31_ok {bs s r : Bytes} (h : (readVarstr31 bs).out = .ok s r) : r.length + s.length + 1 ≤ bs.length := by
  unfold readVarstr31 at h
  obtain ⟨l, r1, h1, h2⟩ := bind_ok_inv h
  have hc := readVarint31_cons bs l r1 h1
  unfold takeStr at h2
  split at h2
  · simp only [Out.ok.injEq] at h2; rw [← h2.1, ← h2.2]; simp; omega
  · split at h2
    · cases h2
    · simp only [Out.ok.injEq] at h2
      rw [← h2.1, ← h2.2]
      simp only [List.length_take, List.length_drop]
      omega

theorem readHash_lin (c s : Nat) : Lin c s readHash := by
  apply Lin.of_noalloc
  · intro bs; unfold readHash; split
    · rfl
    · split <;> rfl
  · intro bs a r h
    unfold readHash at h
    split at h
    · simp only [Out.ok.injEq] at h; rw [← h.2]; simp
    · split at h <;> cases h

theorem readHash_cons : Cons readHash := by
  intro bs a r h
  unfold readHash at h
  split at h
  · simp only [Out.ok.injEq] at h; rw [← h.2]; simp only [List.length_drop]; omega
  · split at h <;> cases h

theorem readByte_lin (c s : Nat) : Lin c s readByte :=
  Lin.of_noalloc c s (fun bs => by cases bs <;> rfl) (fun bs a r h => by have := readByte_ok h; omega)
theorem readByte_cons' : Cons readByte := fun bs a r h => by have := readByte_ok h; omega

/-! ### charging combinators, loops, extensible strings -/

theorem charge_lin {α} {c s : Nat} (a : Nat) {m : Dec α} (hm : Lin c s m) (hc : Cons m) : Lin (c + a) (s + a) (charge a m) := by
  intro bs
  obtain ⟨h1, h2⟩ := hm bs
  show a + (m bs).alloc ≤ _ ∧ _
  refine ⟨?_, ?_⟩
  · rw [Nat.add_mul]; omega
  · intro x r hr
    rw [charge_out] at hr
    obtain ⟨d, hd, hk⟩ := h2 x r hr
    have := hc bs x r hr
    refine ⟨d, hd, ?_⟩
    show a + (m bs).alloc ≤ _
    have hd1 : 1 ≤ d := by omega
    have : a ≤ a * d := Nat.le_mul_of_pos_right a hd1
    rw [Nat.add_mul]; omega

theorem charge_cons {α} (a : Nat) {m : Dec α} (hc : Cons m) : Cons (charge a m) := fun bs x r h => hc bs x r h

theorem chargeOk_alloc {α} (a : Nat) (m : Dec α) (bs : Bytes) :
    (chargeOk a m bs).alloc = (m bs).alloc + (match (m bs).out with | .ok _ _ => a | _ => 0) := by
  unfold chargeOk
  cases hm : m bs with
  | mk k o => cases o <;> rfl

theorem chargeOk_lin {α} {c s : Nat} (a : Nat) {m : Dec α} (hm : Lin c s m) (hc : Cons m) : Lin (c + a) s (chargeOk a m) := by
  intro bs
  obtain ⟨h1, h2⟩ := hm bs
  rw [chargeOk_alloc, chargeOk_out]
  cases ho : (m bs).out with
  | ok x r =>
    obtain ⟨d, hd, hk⟩ := h2 x r ho
    have := hc bs x r ho
    have hd1 : 1 ≤ d := by omega
    have ha : a ≤ a * d := Nat.le_mul_of_pos_right a hd1
    have hdn : d ≤ bs.length := by omega
    have hmul : (c + a) * d ≤ (c + a) * bs.length := Nat.mul_le_mul_left _ hdn
    simp only [Nat.add_mul] at hmul
    refine ⟨?_, ?_⟩
    · simp only [Nat.add_mul]; omega
    · intro x' r' hr
      simp only [Out.ok.injEq] at hr
      refine ⟨d, by rw [← hr.2]; exact hd, ?_⟩
      simp only [Nat.add_mul]; omega
  | err e =>
    refine ⟨?_, by intro x r h; cases h⟩
    simp only; rw [Nat.add_mul]; omega
  | panic =>
    refine ⟨?_, by intro x r h; cases h⟩
    simp only; rw [Nat.add_mul]; omega

theorem chargeOk_cons {α} (a : Nat) {m : Dec α} (hc : Cons m) : Cons (chargeOk a m) := by
  intro bs x r h; rw [chargeOk_out] at h; exact hc bs x r h

theorem readN_lin {α} {c s : Nat} (a : Nat) {f : Dec α} (hf : Lin c s f) (hc : Cons f) :
    ∀ n, Lin (c + a) (s + a) (readN a f n) := by
  intro n
  induction n with
  | zero => exact Lin.pure _ _ _
  | succ n ih => exact Lin.bind (charge_lin a hf hc) fun _ => Lin.bind ih fun _ => Lin.pure _ _ _

theorem readStrs_lin (total : Nat) : ∀ n k, Lin aSlice aSlice (fun bs => readStrs total n k bs) := by
  intro n
  induction n with
  | zero =>
    intro k bs
    simp only [readStrs]
    exact ⟨Nat.zero_le _, fun a r h => by simp only [Out.ok.injEq] at h; exact ⟨0, by rw [h.2]; rfl, Nat.zero_le _⟩⟩
  | succ n ih =>
    intro k bs
    simp only [readStrs]
    cases hm : readVarstr31 bs with
    | mk k0 o =>
      cases o with
      | ok s r =>
        have hs : (readVarstr31 bs).out = .ok s r := by rw [hm]
        have hlen := readVarstr31_ok hs
        obtain ⟨g1, g2⟩ := ih (k + 1) r
        beta_reduce at g1 g2
        simp only
        refine ⟨?_, ?_⟩
        · have : aSlice * r.length + aSlice ≤ aSlice * bs.length := by
            have : r.length + 1 ≤ bs.length := by omega
            calc aSlice * r.length + aSlice = aSlice * (r.length + 1) := by rw [Nat.mul_add, Nat.mul_one]
              _ ≤ aSlice * bs.length := Nat.mul_le_mul_left _ this
          omega
        · intro a r' h
          cases ht : (readStrs total n (k + 1) r).out with
          | ok l r2 =>
            rw [ht] at h
            simp only [Out.ok.injEq] at h
            obtain ⟨d, hd, hk⟩ := g2 l r2 ht
            refine ⟨d + (bs.length - r.length), by rw [← h.2]; omega, ?_⟩
            have : 1 ≤ bs.length - r.length := by omega
            rw [Nat.mul_add]
            have : aSlice ≤ aSlice * (bs.length - r.length) := Nat.le_mul_of_pos_right _ this
            omega
          | err e => rw [ht] at h; cases h
          | panic => rw [ht] at h; cases h
      | err e =>
        simp only
        exact ⟨by omega, fun a r h => by cases h⟩
      | panic =>
        simp only
        exact ⟨by omega, fun a r h => by cases h⟩

theorem readVarstrList_lin : Lin aSlice aSlice readVarstrList :=
  Lin.bind (readVarint31_lin _ _) fun n => Lin.ite (Lin.pure _ _ _) (readStrs_lin n n 0)

/-- `ReadExtensibleString`: the inner decoder runs on bytes the outer reader has consumed -/
theorem readExt_lin {α} {c s : Nat} {f : Dec α} (hf : Lin c s f) : Lin c s (readExt f) := by
  intro bs
  unfold readExt
  cases ho : (readVarstr31 bs).out with
  | ok str r =>
    have hlen := readVarstr31_ok ho
    rw [bind_alloc_ok ho, bind_ok ho, readVarstr31_alloc]
    obtain ⟨g1, g2⟩ := hf str
    have hrun : (runInner f str r).alloc = (f str).alloc := by
      unfold runInner; cases hm : f str with
      | mk k o => cases o <;> rfl
    rw [hrun]
    have hmul : c * str.length ≤ c * bs.length := Nat.mul_le_mul_left _ (by omega)
    refine ⟨by omega, ?_⟩
    intro p r' h
    unfold runInner at h
    cases hm : f str with
    | mk k o =>
      rw [hm] at h
      cases o with
      | ok a rest =>
        simp only [Out.ok.injEq] at h
        obtain ⟨d, hd, hk⟩ := g2 a rest (by rw [hm])
        rw [hm] at hk
        refine ⟨bs.length - r.length, by rw [← h.2]; omega, ?_⟩
        have : d ≤ bs.length - r.length := by omega
        have := Nat.mul_le_mul_left c this
        simp only at hk ⊢
        omega
      | err e => cases h
      | panic => cases h
  | err e =>
    rw [bind_alloc_err (by intro a r h; rw [ho] at h; cases h), bind_err ho, readVarstr31_alloc]
    exact ⟨Nat.zero_le _, by intro a r h; cases h⟩
  | panic =>
    rw [bind_alloc_err (by intro a r h; rw [ho] at h; cases h), bind_panic ho, readVarstr31_alloc]
    exact ⟨Nat.zero_le _, by intro a r h; cases h⟩

theorem readExt_cons {α} (f : Dec α) : Cons (readExt f) := by
  intro bs p r h
  unfold readExt at h
  obtain ⟨s, r1, h1, h2⟩ := bind_ok_inv h
  have := readVarstr31_cons bs s r1 h1
  unfold runInner at h2
  cases hm : f s with
  | mk k o =>
    rw [hm] at h2
    cases o with
    | ok a rest => simp only [Out.ok.injEq] at h2; rw [← h2.2]; exact this
    | err e => cases h2
    | panic => cases h2

/-! ### the transaction decoders -/

theorem m32 {α} {c s : Nat} {m : Dec α} (h : Lin c s m) (hc : c ≤ 32 := by decide) (hs : s ≤ 32 := by decide) : Lin 32 32 m :=
  Lin.mono hc hs h

theorem decSCFields_lin : Lin 32 32 decSCFields :=
  Lin.bind (readHash_lin _ _) fun _ => Lin.bind (m32 (charge_lin 32 (readHash_lin 0 0) readHash_cons)) fun _ =>
    Lin.bind (readVarint63_lin _ _) fun _ => Lin.bind (readVarint63_lin _ _) fun _ => Lin.bind (readVarint63_lin _ _) fun _ =>
      Lin.ite (Lin.fail _ _ _) (Lin.bind (readVarstr31_lin _ _) fun _ => Lin.bind (m32 readVarstrList_lin) fun _ => Lin.pure _ _ _)

theorem decSC_lin : Lin 32 32 decSC := readExt_lin decSCFields_lin

theorem readInType_lin (c s : Nat) : Lin c s readInType :=
  Lin.bind (readByte_lin c s) fun _ => Lin.ite (Lin.fail _ _ _) (Lin.pure _ _ _)
theorem readInType_cons : Cons readInType :=
  Cons.bind_left (c := 0) (s := 0) readByte_cons' fun _ => Lin.ite (Lin.fail _ _ _) (Lin.pure _ _ _)
theorem readOutType_lin (c s : Nat) : Lin c s readOutType :=
  Lin.bind (readByte_lin c s) fun _ => Lin.ite (Lin.fail _ _ _) (Lin.pure _ _ _)
theorem readOutType_cons : Cons readOutType :=
  Cons.bind_left (c := 0) (s := 0) readByte_cons' fun _ => Lin.ite (Lin.fail _ _ _) (Lin.pure _ _ _)

theorem m256 {α} {c s : Nat} {m : Dec α} (h : Lin c s m) (hc : c ≤ 256 := by decide) (hs : s ≤ 32 := by decide) : Lin 256 32 m :=
  Lin.mono hc hs h

theorem decCommit_branches (t : UInt8) : Lin 256 32
    (if t = 0 then do
        let nonce ← readVarstr31
        let asset ← readHash
        let amount ← readVarint63
        Pure.pure (Commit.issuance nonce asset amount)
      else if t = 1 then do
        let (sc, suf) ← decSC
        Pure.pure (Commit.spend sc suf)
      else if t = 2 then do
        let arb ← readVarstr31
        Pure.pure (Commit.coinbase arb)
      else if t = 3 then do
        let (sc, suf) ← decSC
        let vote ← readVarstr31
        Pure.pure (Commit.veto sc suf vote)
      else fail .inputType : Dec Commit) :=
  Lin.ite (Lin.bind (readVarstr31_lin _ _) fun _ => Lin.bind (readHash_lin _ _) fun _ => Lin.bind (readVarint63_lin _ _) fun _ => Lin.pure _ _ _)
    (Lin.ite (Lin.bind (m256 decSC_lin) fun _ => Lin.pure _ _ _)
    (Lin.ite (Lin.bind (readVarstr31_lin _ _) fun _ => Lin.pure _ _ _)
    (Lin.ite (Lin.bind (m256 decSC_lin) fun _ => Lin.bind (readVarstr31_lin _ _) fun _ => Lin.pure _ _ _) (Lin.fail _ _ _))))

theorem decCommit_lin : Lin 256 32 decCommit :=
  Lin.bind (m256 (chargeOk_lin aTyped (readInType_lin 0 0) readInType_cons)) decCommit_branches

theorem decWitness_lin (H : Bytes → Bytes) (c : Commit) : Lin 256 32 (decWitness H c) := by
  cases c with
  | issuance nonce asset amount =>
    exact Lin.bind (readVarstr31_lin _ _) fun _ => Lin.bind (readVarint63_lin _ _) fun _ => Lin.bind (readVarstr31_lin _ _) fun _ =>
      Lin.ite (Lin.fail _ _ _) (Lin.bind (m256 readVarstrList_lin) fun _ => Lin.pure _ _ _)
  | spend sc suf => exact Lin.bind (m256 readVarstrList_lin) fun _ => Lin.pure _ _ _
  | coinbase arb => exact Lin.pure _ _ _
  | veto sc suf vote => exact Lin.bind (m256 readVarstrList_lin) fun _ => Lin.pure _ _ _

theorem decInput_lin (H : Bytes → Bytes) : Lin 256 32 (decInput H) :=
  Lin.bind (readVarint63_lin _ _) fun _ =>
    Lin.bind (readExt_lin (Lin.ite (Lin.pure _ _ _) (Lin.bind decCommit_lin fun _ => Lin.pure _ _ _))) fun p =>
      Lin.bind (readExt_lin (by
        cases p.1 with
        | none => exact Lin.pure _ _ _
        | some c => exact Lin.bind (decWitness_lin H c) fun _ => Lin.pure _ _ _)) fun _ => Lin.pure _ _ _

theorem decInput_cons (H : Bytes → Bytes) : Cons (decInput H) :=
  Cons.bind_left readVarint63_cons fun _ =>
    Lin.bind (readExt_lin (Lin.ite (Lin.pure _ _ _) (Lin.bind decCommit_lin fun _ => Lin.pure _ _ _))) fun p =>
      Lin.bind (readExt_lin (by
        cases p.1 with
        | none => exact Lin.pure _ _ _
        | some c => exact Lin.bind (decWitness_lin H c) fun _ => Lin.pure _ _ _)) fun _ => Lin.pure _ _ _

theorem decOC_lin : Lin 32 32 decOC :=
  Lin.bind (m32 (charge_lin 32 (readHash_lin 0 0) readHash_cons)) fun _ => Lin.bind (readVarint63_lin _ _) fun _ =>
    Lin.bind (readVarint63_lin _ _) fun _ => Lin.ite (Lin.fail _ _ _)
      (Lin.bind (readVarstr31_lin _ _) fun _ => Lin.bind (m32 readVarstrList_lin) fun _ => Lin.pure _ _ _)

theorem decOutBody_lin (t : UInt8) (av : Nat) : Lin 32 32 (decOutBody t av) :=
  Lin.bind (Lin.ite (Lin.bind (readVarstr31_lin _ _) fun _ => Lin.pure _ _ _) (Lin.pure _ _ _)) fun _ =>
    Lin.bind (Lin.ite (Lin.bind decOC_lin fun _ => Lin.pure _ _ _) (Lin.pure _ _ _)) fun _ => Lin.pure _ _ _

theorem decOutput_tail (av : Nat) (t : UInt8) : Lin 32 32 (do
    let ((typed, oc), cs) ← readExt (decOutBody t av)
    let _ ← readVarstr31
    Pure.pure (⟨av, oc, cs, typed⟩ : TxOutput) : Dec TxOutput) :=
  Lin.bind (readExt_lin (decOutBody_lin _ _)) fun _ => Lin.bind (readVarstr31_lin _ _) fun _ => Lin.pure _ _ _

theorem decOutput_lin : Lin 32 32 decOutput :=
  Lin.bind (readVarint63_lin _ _) fun av => Lin.bind (m32 (chargeOk_lin 32 (readOutType_lin 0 0) readOutType_cons)) fun t =>
    decOutput_tail av t

theorem decOutput_cons : Cons decOutput :=
  Cons.bind_left readVarint63_cons fun av =>
    Lin.bind (m32 (chargeOk_lin 32 (readOutType_lin 0 0) readOutType_cons)) fun t => decOutput_tail av t

/-- `TxData.readFrom` charges at most 360 bytes per input byte, plus at most 200 -/
theorem decTx_lin (H : Bytes → Bytes) : Lin 360 200 (decTx H) :=
  Lin.bind (Lin.remaining _ _) fun _ => Lin.bind (readByte_lin _ _) fun _ => Lin.ite (Lin.fail _ _ _)
    (Lin.bind (readVarint63_lin _ _) fun _ => Lin.bind (readVarint63_lin _ _) fun _ => Lin.bind (readVarint31_lin _ _) fun _ =>
      Lin.bind (Lin.mono (by decide) (by decide) (readN_lin (aInput + aPtr) (decInput_lin H) (decInput_cons H) _)) fun _ =>
      Lin.bind (readVarint31_lin _ _) fun _ =>
      Lin.bind (Lin.mono (by decide) (by decide) (readN_lin (aOutput + aPtr) decOutput_lin decOutput_cons _)) fun _ =>
      Lin.bind (Lin.remaining _ _) fun _ => Lin.pure _ _ _)

theorem noTrailing_lin {α} (c s : Nat) (a : α) : Lin c s (noTrailing a) := by
  apply Lin.of_noalloc
  · intro bs; unfold noTrailing; split <;> rfl
  · intro bs x r h
    unfold noTrailing at h
    split at h
    · cases h
    · simp only [Out.ok.injEq] at h; rw [← h.2]

theorem hexDecode_length : ∀ (t bs : Bytes), hexDecode t = some bs → 2 * bs.length = t.length
  | [], bs, h => by simp [hexDecode] at h; subst h; rfl
  | [_], bs, h => by simp [hexDecode] at h
  | a :: b :: r, bs, h => by
    simp only [hexDecode] at h
    cases ha : unhex a with
    | none => rw [ha] at h; simp at h
    | some x =>
      cases hb : unhex b with
      | none => rw [ha, hb] at h; simp at h
      | some y =>
        cases hr : hexDecode r with
        | none => rw [ha, hb, hr] at h; simp at h
        | some l =>
          rw [ha, hb, hr] at h
          simp only [Option.some.injEq] at h
          subst h
          have := hexDecode_length r l hr
          simp only [List.length_cons]; omega

theorem fromText_alloc {α} {c s : Nat} {d : Dec α} (hd : Lin c s d) (text : Bytes) :
    2 * (fromText d text).alloc ≤ (c + 1) * text.length + 2 * s := by
  unfold fromText
  cases hx : hexDecode text with
  | none =>
    simp only
    have : text.length / 2 * 2 ≤ text.length := Nat.div_mul_le_self _ _
    rw [Nat.add_mul]; omega
  | some bs =>
    simp only
    have hl := hexDecode_length text bs hx
    have h1 := (hd bs).1
    have : text.length / 2 * 2 ≤ text.length := Nat.div_mul_le_self _ _
    have hm : 2 * (c * bs.length) = c * text.length := by rw [← hl]; ring
    rw [Nat.add_mul]; omega

/-! ### `MapTx` after a successful decode: entries are paid for by the bytes of the elements -/

theorem readN_count {α} (a : Nat) {f : Dec α} (hc : Cons f) : ∀ (n : Nat) (bs : Bytes) (xs : List α) (r : Bytes),
    (readN a f n bs).out = .ok xs r → xs.length + r.length ≤ bs.length := by
  intro n
  induction n with
  | zero =>
    intro bs xs r h
    simp only [readN, pure_out, Out.ok.injEq] at h
    rw [← h.1, ← h.2]; simp
  | succ n ih =>
    intro bs xs r h
    simp only [readN] at h
    obtain ⟨x, r1, h1, h2⟩ := bind_ok_inv h
    obtain ⟨l, r2, h3, h4⟩ := bind_ok_inv h2
    simp only [pure_out, Out.ok.injEq] at h4
    rw [charge_out] at h1
    have := hc bs x r1 h1
    have := ih r1 l r2 h3
    rw [← h4.1, ← h4.2]
    simp only [List.length_cons]; omega

theorem lin_le {α} {c s : Nat} {m : Dec α} (hm : Lin c s m) {bs : Bytes} {a : α} {r : Bytes}
    (h : (m bs).out = .ok a r) : r.length ≤ bs.length := by
  obtain ⟨d, hd, _⟩ := (hm bs).2 a r h
  omega

/-- a decoded transaction has at most as many inputs and outputs as bytes were consumed -/
theorem decTx_count (H : Bytes → Bytes) {bs : Bytes} {tx : TxData} {r : Bytes} (h : (decTx H bs).out = .ok tx r) :
    tx.inputs.length + tx.outputs.length + r.length ≤ bs.length := by
  unfold decTx at h
  obtain ⟨_, r0, h0, h⟩ := bind_ok_inv h
  simp only [remaining_out, Out.ok.injEq] at h0
  obtain ⟨_, e0⟩ := h0
  subst e0
  obtain ⟨f, r1, h1, h⟩ := bind_ok_inv h
  have l1 := readByte_ok h1
  by_cases hf : f ≠ 7
  · rw [if_pos hf] at h; cases h
  rw [if_neg hf] at h
  obtain ⟨_, r2, h2, h⟩ := bind_ok_inv h
  have l2 := lin_le (readVarint63_lin 0 0) h2
  obtain ⟨_, r3, h3, h⟩ := bind_ok_inv h
  have l3 := lin_le (readVarint63_lin 0 0) h3
  obtain ⟨n, r4, h4, h⟩ := bind_ok_inv h
  have l4 := lin_le (readVarint31_lin 0 0) h4
  obtain ⟨ins, r5, h5, h⟩ := bind_ok_inv h
  have l5 := readN_count _ (decInput_cons H) n r4 ins r5 h5
  obtain ⟨m, r6, h6, h⟩ := bind_ok_inv h
  have l6 := lin_le (readVarint31_lin 0 0) h6
  obtain ⟨outs, r7, h7, h⟩ := bind_ok_inv h
  have l7 := readN_count _ decOutput_cons m r6 outs r7 h7
  obtain ⟨_, r8, h8, h⟩ := bind_ok_inv h
  simp only [remaining_out, Out.ok.injEq] at h8
  obtain ⟨_, e8⟩ := h8
  subst e8
  simp only [pure_out, Out.ok.injEq] at h
  obtain ⟨e1, e2⟩ := h
  subst e1 e2
  simp only
  omega

/-- `Tx.UnmarshalText`'s decoder: `TxData.readFrom`, trailing check, `MapTx` -/
theorem txMapped_alloc (H : Bytes → Bytes) (bs : Bytes) :
    ((do let tx ← decTx H; let tx ← noTrailing tx; mapTxD tx; Pure.pure tx : Dec TxData) bs).alloc
      ≤ (360 + 2 * aEntry) * bs.length + (200 + 2 * aEntry) := by
  have hlin := (decTx_lin H bs).1
  cases ho : (decTx H bs).out with
  | ok tx r =>
    have hcount := decTx_count H ho
    rw [bind_alloc_ok ho]
    have hnt : (noTrailing tx r).alloc = 0 := by unfold noTrailing; split <;> rfl
    by_cases hr : r.length > 0
    · have h1 : (noTrailing tx r).out = .err .trailing := by unfold noTrailing; rw [if_pos hr]
      rw [bind_alloc_err (by intro a r' h; rw [h1] at h; cases h), hnt]
      rw [Nat.add_mul]; omega
    · have h1 : (noTrailing tx r).out = .ok tx r := by unfold noTrailing; rw [if_neg hr]
      rw [bind_alloc_ok h1, hnt]
      have hmap : (mapTxD tx r).alloc ≤ aEntry * (2 * tx.inputs.length + tx.outputs.length + 2) := by
        unfold mapTxD; split
        · exact Nat.zero_le _
        · exact Nat.le_refl _
      have hpure : ∀ (u : Unit) (r' : Bytes), ((Pure.pure tx : Dec TxData) r').alloc = 0 := fun _ _ => rfl
      have hrest : ((mapTxD tx >>= fun _ => (Pure.pure tx : Dec TxData)) r).alloc ≤ aEntry * (2 * tx.inputs.length + tx.outputs.length + 2) := by
        cases hm : (mapTxD tx r).out with
        | ok u r' => rw [bind_alloc_ok hm, hpure ()]; omega
        | err e => rw [bind_alloc_err (by intro a r' h; rw [hm] at h; cases h)]; exact hmap
        | panic => rw [bind_alloc_err (by intro a r' h; rw [hm] at h; cases h)]; exact hmap
      have hb : 2 * tx.inputs.length + tx.outputs.length + 2 ≤ 2 * bs.length + 2 := by omega
      have := Nat.mul_le_mul_left aEntry hb
      rw [Nat.add_mul]
      have e : aEntry * (2 * bs.length + 2) = 2 * aEntry * bs.length + 2 * aEntry := by ring
      omega
  | err e =>
    rw [bind_alloc_err (by intro a r h; rw [ho] at h; cases h)]
    rw [Nat.add_mul]; omega
  | panic =>
    rw [bind_alloc_err (by intro a r h; rw [ho] at h; cases h)]
    rw [Nat.add_mul]; omega

end BytomModel.Lemmas.Codec
