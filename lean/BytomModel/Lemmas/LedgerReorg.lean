/-
The utxo half of `reorganizeChain` + `SaveChainStatus` (`NodeLedger.State.ledgerReorg`),
`replay` (what the node does when the chain is only ever extended), and the theorem that a
reorganisation lands in a state prescribed by the new main chain alone.
Core Lean only.
-/
import BytomModel.Lemmas.LedgerChain
namespace BytomModel.Lemmas.Ledger
open BytomModel.Ledger

/-- a block of the chain: height and transactions (coinbase first) -/
abbrev Blk := Nat × List Tx

def flat (bs : List Blk) : List PT := bs.flatMap (fun b => posTxs b.1 true b.2)

theorem flat_append (a b : List Blk) : flat (a ++ b) = flat a ++ flat b := by simp [flat]
theorem flat_cons (b : Blk) (bs : List Blk) : flat (b :: bs) = posTxs b.1 true b.2 ++ flat bs := by simp [flat]

/-- detach loop of `reorganizeChain` (tip first), on the shared in-memory view -/
def detachViews (kindOf : Nat → OutKind) (db : View) : List (List Tx) → View → Option View
  | [], v => some v
  | txs :: rest, v =>
    match detachBlockTxs kindOf txs (loadSpent db txs v) with
    | none => none
    | some v' => detachViews kindOf db rest v'

/-- attach loop of `reorganizeChain` (ascending) -/
def attachViews (p : Params) (db : View) : List Blk → View → Option View
  | [], v => some v
  | b :: rest, v =>
    match applyBlockTxs p b.1 true b.2 (loadSpent db b.2 v) with
    | none => none
    | some v' => attachViews p db rest v'

theorem detachListF_append (kindOf : Nat → OutKind) (A B : List Tx) (σ : St) :
    detachListF kindOf (A ++ B) σ = (detachListF kindOf A σ).bind (detachListF kindOf B) := by
  induction A generalizing σ with
  | nil => rfl
  | cons t A ih =>
    simp only [List.cons_append, detachListF]
    cases detachTxF kindOf t σ with
    | none => rfl
    | some σ1 => exact ih σ1

theorem detachViews_star {kindOf : Nat → OutKind} {db : View} {det : List (List Tx)} {v v' : View}
    (hr : detachViews kindOf db det v = some v') : VsetStar v v' := by
  induction det generalizing v with
  | nil => simp [detachViews] at hr; subst hr; exact .refl _
  | cons txs rest ih =>
    unfold detachViews at hr
    split at hr
    · simp at hr
    · rename_i v1 h1
      rw [detachBlockTxs_eq] at h1
      exact (loadSpent_star db txs v).trans ((detachList_star h1).trans (ih hr))

theorem detachViews_refines (kindOf : Nat → OutKind) (db : View) (det : List (List Tx)) (v : View) :
    (detachViews kindOf db det v).map (eff db) = detachListF kindOf (det.flatMap List.reverse) (eff db v) := by
  induction det generalizing v with
  | nil => simp [detachViews, detachListF]
  | cons txs rest ih =>
    unfold detachViews
    rw [List.flatMap_cons, detachListF_append, detachBlockTxs_eq]
    have hl : ∀ t ∈ txs.reverse, ∀ o ∈ t.ins, Loaded db (loadSpent db txs v) o := by
      intro t ht o ho
      exact loadSpent_loaded db txs v t (List.mem_reverse.mp ht) o ho
    have hs := detachList_refines db kindOf txs.reverse (loadSpent db txs v) hl
    rw [loadSpent_eff] at hs
    cases hv : detachList kindOf txs.reverse (loadSpent db txs v) with
    | none => rw [hv] at hs; simp only [Option.map_none] at hs; simp [← hs]
    | some v1 =>
      rw [hv] at hs; simp only [Option.map_some] at hs
      simp only [← hs, Option.bind_some]
      exact ih v1

theorem attachViews_star {p : Params} {db : View} {att : List Blk} {v v' : View}
    (hr : attachViews p db att v = some v') : VsetStar v v' := by
  induction att generalizing v with
  | nil => simp [attachViews] at hr; subst hr; exact .refl _
  | cons b rest ih =>
    unfold attachViews at hr
    split at hr
    · simp at hr
    · rename_i v1 h1
      exact (loadSpent_star db b.2 v).trans ((applyBlockTxs_star h1).trans (ih hr))

theorem attachViews_refines (p : Params) (db : View) (att : List Blk) (v : View) :
    (attachViews p db att v).map (eff db) = applyListF p (flat att) (eff db v) := by
  induction att generalizing v with
  | nil => simp [attachViews, applyListF, flat]
  | cons b rest ih =>
    unfold attachViews
    rw [flat_cons, applyListF_append, ← applyBlockF_eq]
    have hs := applyBlockTxs_refines db p b.1 true b.2 (loadSpent db b.2 v) (loadSpent_loaded db b.2 v)
    rw [loadSpent_eff] at hs
    cases hv : applyBlockTxs p b.1 true b.2 (loadSpent db b.2 v) with
    | none => rw [hv] at hs; simp only [Option.map_none] at hs; simp [← hs]
    | some v1 =>
      rw [hv] at hs; simp only [Option.map_some] at hs
      simp only [← hs, Option.bind_some]
      exact ih v1

/-! ### persisting a view -/

theorem keep_false {e : Entry} (h : keep e = false) : e.spent = true ∧ ¬ (e.typ = 1 ∨ e.typ = 2) := by
  unfold keep at h
  cases hs : e.spent
  · simp [hs] at h
  · simp [hs] at h
    exact ⟨rfl, fun hc => by rcases hc with h' | h' <;> simp [h'] at h⟩

theorem keep_of_constrained {e : Entry} (h : e.typ = 1 ∨ e.typ = 2) : keep e = true := by
  unfold keep; rcases h with h | h <;> simp [h]

theorem keep_of_unspent {e : Entry} (h : e.spent = false) : keep e = true := by
  unfold keep; simp [h]

theorem good_save {L : List PT} {db v : View} (hv : NodupKeys v) (hg : Good L (eff db v)) :
    Good L (vget (saveView db v)) := by
  have hget : ∀ k, vget (saveView db v) k = eff db v k ∨
      (vget (saveView db v) k = none ∧ ∃ e, eff db v k = some e ∧ keep e = false) := by
    intro k
    rw [vget_saveView db v hv]
    unfold eff
    cases h : vget v k with
    | none => exact Or.inl rfl
    | some e =>
      cases hk : keep e
      · exact Or.inr ⟨by simp [hk], e, rfl, hk⟩
      · exact Or.inl (by simp [hk])
  constructor
  · intro k e hm hns
    obtain ⟨e', he', ht, hs, hh⟩ := hg.unspent k e hm hns
    rcases hget k with h | ⟨_, e2, h2, hk⟩
    · exact ⟨e', by rw [h, he'], ht, hs, hh⟩
    · rw [he'] at h2; cases h2
      rw [keep_of_unspent hs] at hk; cases hk
  · intro k e hm hsI hC
    have := hg.spentC k e hm hsI hC
    rcases hget k with h | ⟨_, e2, h2, hk⟩
    · rw [h, this]
    · rw [this] at h2; cases h2
      rw [keep_of_constrained (by simpa using hC)] at hk; cases hk
  · intro k e hm hsI hC
    rcases hget k with h | ⟨h, _⟩
    · rw [h]; exact hg.spentN k e hm hsI hC
    · exact Or.inl h
  · intro k hk
    rcases hget k with h | ⟨h, _⟩
    · rw [h]; exact hg.garbage k hk
    · exact Or.inl h

theorem seq_save {db v : View} (hv : NodupKeys v) : SEq (vget (saveView db v)) (eff db v) := by
  intro k
  rw [vget_saveView db v hv]
  unfold eff
  cases h : vget v k with
  | none => rfl
  | some e =>
    cases hk : keep e
    · simp only [hk, Bool.false_eq_true, if_false]
      rw [spendProj_spent (keep_false hk).1]; rfl
    · simp [hk]

/-- the persisted projection: unspent entries with their type (height only where a height rule
    exists), spent coinbase / vote records with type and height; a spent normal record is as
    good as none -/
def proj : Option Entry → Option (Nat × Nat × Bool)
  | none => none
  | some e =>
    if e.typ = 1 ∨ e.typ = 2 then some (e.typ, e.height, e.spent)
    else if e.spent then none else some (e.typ, 0, false)

theorem proj_save {db v : View} (hv : NodupKeys v) (k : Nat) :
    proj (vget (saveView db v) k) = proj (eff db v k) := by
  rw [vget_saveView db v hv]
  unfold eff
  cases h : vget v k with
  | none => rfl
  | some e =>
    cases hk : keep e
    · obtain ⟨h1, h2⟩ := keep_false hk
      simp [proj, hk, h1, h2]
    · simp [hk]

def ofProj : Option (Nat × Nat × Bool) → Option (Nat × Nat)
  | none => none
  | some (t, h, s) => if s then none else some (t, h)

theorem spendProj_eq_ofProj (a : Option Entry) : spendProj a = ofProj (proj a) := by
  cases a with
  | none => rfl
  | some e =>
    unfold spendProj proj
    by_cases hC : e.typ = 1 ∨ e.typ = 2
    · cases hs : e.spent <;> simp [hC, ofProj]
    · cases hs : e.spent <;> simp [hC, ofProj, hs]

theorem spendProj_of_proj {a b : Option Entry} (h : proj a = proj b) : spendProj a = spendProj b := by
  rw [spendProj_eq_ofProj, spendProj_eq_ofProj, h]

/-- two states prescribed by the same chain agree on the full persisted projection of every
    output the chain creates, and hold nothing spendable anywhere else -/
theorem good_proj {L : List PT} {σ τ : St} (h1 : Good L σ) (h2 : Good L τ) {k : Nat} (hk : k ∈ keys (created L)) :
    proj (σ k) = proj (τ k) := by
  obtain ⟨e, he⟩ := exists_of_mem_keys hk
  by_cases hs : k ∈ spentIds L
  · by_cases hC : e.typ = 1 ∨ e.typ = 2
    · rw [h1.spentC k e he hs hC, h2.spentC k e he hs hC]
    · have a : ∀ {ρ : St}, Good L ρ → proj (ρ k) = none := by
        intro ρ hρ
        rcases hρ.spentN k e he hs hC with h | ⟨e', h, h', h''⟩
        · rw [h]; rfl
        · rw [h]; simp [proj, h', h'', hC]
      rw [a h1, a h2]
  · obtain ⟨e1, hσ, t1, s1, g1⟩ := h1.unspent k e he hs
    obtain ⟨e2, hτ, t2, s2, g2⟩ := h2.unspent k e he hs
    rw [hσ, hτ]
    unfold proj
    by_cases hC : e.typ = 1 ∨ e.typ = 2
    · simp [t1, t2, hC, g1 hC, g2 hC, s1, s2]
    · simp [t1, t2, hC, s1, s2]

/-! ### replay: the chain is only ever extended -/

/-- one extension step (a reorganisation with nothing to detach and one block to attach) -/
def extendU (p : Params) (db : View) (b : Blk) : Option View :=
  (applyBlockTxs p b.1 true b.2 (loadSpent db b.2 [])).map (saveView db)

def replayU (p : Params) : List Blk → View → Option View
  | [], db => some db
  | b :: rest, db =>
    match extendU p db b with
    | none => none
    | some db' => replayU p rest db'

theorem replayU_append (p : Params) (A B : List Blk) (db : View) :
    replayU p (A ++ B) db = (replayU p A db).bind (replayU p B) := by
  induction A generalizing db with
  | nil => rfl
  | cons b A ih =>
    simp only [List.cons_append, replayU]
    cases extendU p db b with
    | none => rfl
    | some db' => exact ih db'

theorem vget_nil_eq : vget ([] : View) = (fun _ => none) := by funext k; rfl

/-- one extension, seen at the function level -/
theorem extendU_sem {p : Params} {db db' : View} {b : Blk} (h : extendU p db b = some db') :
    ∃ v', NodupKeys v' ∧ db' = saveView db v' ∧
      applyListF p (posTxs b.1 true b.2) (vget db) = some (eff db v') := by
  unfold extendU at h
  cases hv : applyBlockTxs p b.1 true b.2 (loadSpent db b.2 []) with
  | none => simp [hv] at h
  | some v' =>
    simp only [hv, Option.map_some, Option.some.injEq] at h
    have hs := applyBlockTxs_refines db p b.1 true b.2 (loadSpent db b.2 []) (loadSpent_loaded db b.2 [])
    rw [loadSpent_eff, hv, eff_nil, applyBlockF_eq] at hs
    refine ⟨v', ?_, h.symm, hs.symm⟩
    exact ((loadSpent_star db b.2 []).trans (applyBlockTxs_star hv)).nodup nodupKeys_nil

theorem extendU_none {p : Params} {db : View} {b : Blk} (h : extendU p db b = none) :
    applyListF p (posTxs b.1 true b.2) (vget db) = none := by
  unfold extendU at h
  cases hv : applyBlockTxs p b.1 true b.2 (loadSpent db b.2 []) with
  | some v' => simp [hv] at h
  | none =>
    have hs := applyBlockTxs_refines db p b.1 true b.2 (loadSpent db b.2 []) (loadSpent_loaded db b.2 [])
    rw [loadSpent_eff, hv, eff_nil, applyBlockF_eq] at hs
    exact hs.symm

theorem replayU_good {p : Params} {C : List Blk} {L : List PT} {db db' : View}
    (hg : Good L (vget db)) (hs : Struct L) (hw : WF (L ++ flat C)) (hr : replayU p C db = some db') :
    Good (L ++ flat C) (vget db') ∧ Struct (L ++ flat C) := by
  induction C generalizing L db with
  | nil => simp [replayU] at hr; subst hr; simpa [flat] using ⟨hg, hs⟩
  | cons b C ih =>
    unfold replayU at hr
    cases h1 : extendU p db b with
    | none => simp [h1] at hr
    | some db1 =>
      simp only [h1] at hr
      obtain ⟨v', hn, hdb1, happ⟩ := extendU_sem h1
      have hw' : WF ((L ++ posTxs b.1 true b.2) ++ flat C) := by
        rw [flat_cons] at hw; simpa using hw
      obtain ⟨hg1, hs1⟩ := good_applyList hg hs (wf_append hw').1 happ
      have hg1' : Good (L ++ posTxs b.1 true b.2) (vget db1) := by
        rw [hdb1]; exact good_save hn hg1
      have := ih hg1' hs1 hw' hr
      rw [flat_cons]
      simpa using this

/-- the block-by-block replay accepts exactly when the function-level application of all the
    transactions accepts, with the same spendable projection -/
theorem replayU_flat (p : Params) (C : List Blk) (db : View) :
    OptRel SEq (applyListF p (flat C) (vget db)) ((replayU p C db).map vget) := by
  induction C generalizing db with
  | nil => exact SEq.refl _
  | cons b C ih =>
    rw [flat_cons, applyListF_append]
    unfold replayU
    cases h1 : extendU p db b with
    | none => rw [extendU_none h1]; trivial
    | some db1 =>
      obtain ⟨v', hn, hdb1, happ⟩ := extendU_sem h1
      rw [happ]
      simp only [Option.bind_some]
      have hseq : SEq (eff db v') (vget db1) := by rw [hdb1]; exact (seq_save hn).symm
      have h2 := applyListF_seq p (flat C) hseq
      have h3 := ih db1
      -- compose the two relations
      cases ha : applyListF p (flat C) (eff db v') with
      | none =>
        cases hb : applyListF p (flat C) (vget db1) with
        | none =>
          rw [hb] at h3
          cases hc : replayU p C db1 with
          | none => trivial
          | some x => rw [hc] at h3; exact False.elim h3
        | some y => rw [ha, hb] at h2; exact False.elim h2
      | some x =>
        cases hb : applyListF p (flat C) (vget db1) with
        | none => rw [ha, hb] at h2; exact False.elim h2
        | some y =>
          rw [ha, hb] at h2
          rw [hb] at h3
          cases hc : replayU p C db1 with
          | none => rw [hc] at h3; exact False.elim h3
          | some z =>
            rw [hc] at h3
            exact SEq.trans h2 h3

/-! ### the reorganisation -/

/-- utxo half of `ledgerReorg`: the in-memory view after detaching and attaching -/
def reorgView (p : Params) (kindOf : Nat → OutKind) (db : View) (att : List Blk) (det : List (List Tx)) : Option View :=
  match detachViews kindOf db det [] with
  | none => none
  | some v1 => attachViews p db att v1

theorem reorgView_nodup {p : Params} {kindOf : Nat → OutKind} {db : View} {att : List Blk} {det : List (List Tx)}
    {v2 : View} (h : reorgView p kindOf db att det = some v2) : NodupKeys v2 := by
  unfold reorgView at h
  cases h1 : detachViews kindOf db det [] with
  | none => simp [h1] at h
  | some v1 =>
    simp only [h1] at h
    exact ((detachViews_star h1).trans (attachViews_star h)).nodup nodupKeys_nil

theorem reorgView_sem (p : Params) (kindOf : Nat → OutKind) (db : View) (att : List Blk) (det : List (List Tx)) :
    (reorgView p kindOf db att det).map (eff db) =
      (detachListF kindOf (det.flatMap List.reverse) (vget db)).bind (applyListF p (flat att)) := by
  unfold reorgView
  have h1 := detachViews_refines kindOf db det []
  rw [eff_nil] at h1
  cases hv : detachViews kindOf db det [] with
  | none => rw [hv] at h1; simp only [Option.map_none] at h1; simp [← h1]
  | some v1 =>
    rw [hv] at h1; simp only [Option.map_some] at h1
    simp only [← h1, Option.bind_some]
    exact attachViews_refines p db att v1

/-- the detach list of a branch `A` (tip first) covers its transactions last-first -/
theorem det_flat (A : List Blk) :
    (A.reverse.map (·.2)).flatMap List.reverse = ((flat A).reverse).map (·.tx) := by
  induction A with
  | nil => rfl
  | cons b A ih =>
    rw [List.reverse_cons, List.map_append, List.flatMap_append, ih, flat_cons, List.reverse_append,
      List.map_append]
    congr 1
    simp only [List.map_cons, List.map_nil, List.flatMap_cons, List.flatMap_nil, List.append_nil]
    rw [List.map_reverse, posTxs_map_tx]

/-- detach half: from any state the chain `P ++ A` prescribes, detaching `A` (tip first)
    succeeds and leaves a state the chain `P` prescribes -/
theorem reorg_detach {kindOf : Nat → OutKind} {P A : List Blk} {dA : View}
    (gA : Good (flat (P ++ A)) (vget dA)) (sA : Struct (flat (P ++ A))) (hwA : WF (flat (P ++ A)))
    (hk : KindsOK kindOf (flat (P ++ A))) :
    ∃ σ1, detachListF kindOf ((A.reverse.map (·.2)).flatMap List.reverse) (vget dA) = some σ1 ∧
      Good (flat P) σ1 ∧ Struct (flat P) := by
  rw [flat_append] at gA sA hwA hk
  have e : flat A = ((flat A).reverse).reverse := by simp
  have sP : Struct (flat P) := struct_append_left sA
  rw [e] at gA sA hwA hk
  obtain ⟨σ1, hd, g1⟩ := good_detachList gA sA hwA hk
  exact ⟨σ1, by rw [det_flat]; exact hd, g1, sP⟩

/-- **A reorganisation lands where the new main chain prescribes, and is refused exactly when
    a replay of the new main chain is refused.**  `P` common prefix (from genesis), `A` the
    branch being left, `B` the branch being adopted; `dA` is any persisted table the chain
    `P ++ A` prescribes (however the node got there), `dP` the table after replaying `P`. -/
theorem reorg_general {p : Params} {kindOf : Nat → OutKind} {P A B : List Blk} {dP dA : View}
    (hP : replayU p P [] = some dP)
    (gA : Good (flat (P ++ A)) (vget dA)) (sA : Struct (flat (P ++ A)))
    (hwA : WF (flat (P ++ A))) (hwB : WF (flat (P ++ B))) (hk : KindsOK kindOf (flat (P ++ A))) :
    match reorgView p kindOf dA B (A.reverse.map (·.2)), replayU p B dP with
    | some v2, some dB =>
        Good (flat (P ++ B)) (vget (saveView dA v2)) ∧ Struct (flat (P ++ B)) ∧ Good (flat (P ++ B)) (vget dB)
    | none, none => True
    | _, _ => False := by
  obtain ⟨σ1, hd, g1, sP⟩ := reorg_detach gA sA hwA hk
  have hwP : WF ([] ++ flat P) := by
    rw [flat_append] at hwA; simpa using (wf_append hwA).1
  have g0 : Good [] (vget ([] : View)) := by rw [vget_nil_eq]; exact good_nil
  obtain ⟨gP, _⟩ := replayU_good g0 (by trivial : Struct []) hwP hP
  simp only [List.nil_append] at gP
  have hseq : SEq σ1 (vget dP) := good_seq g1 gP
  have h2 := applyListF_seq p (flat B) hseq
  have h3 := replayU_flat p B dP
  have hsem := reorgView_sem p kindOf dA B (A.reverse.map (·.2))
  rw [hd] at hsem
  simp only [Option.bind_some] at hsem
  rw [flat_append] at hwB
  cases ha : applyListF p (flat B) σ1 with
  | none =>
    rw [ha] at h2 hsem
    have hv : reorgView p kindOf dA B (A.reverse.map (·.2)) = none := by
      cases hv : reorgView p kindOf dA B (A.reverse.map (·.2)) with
      | none => rfl
      | some v => rw [hv] at hsem; simp at hsem
    rw [hv]
    cases hb : applyListF p (flat B) (vget dP) with
    | some y => rw [hb] at h2; exact False.elim h2
    | none =>
      rw [hb] at h3
      cases hc : replayU p B dP with
      | none => trivial
      | some z => rw [hc] at h3; exact False.elim h3
  | some σ2 =>
    rw [ha] at h2 hsem
    cases hv : reorgView p kindOf dA B (A.reverse.map (·.2)) with
    | none => rw [hv] at hsem; simp at hsem
    | some v2 =>
      rw [hv] at hsem
      simp only [Option.map_some, Option.some.injEq] at hsem
      cases hb : applyListF p (flat B) (vget dP) with
      | none => rw [hb] at h2; exact False.elim h2
      | some y =>
        rw [hb] at h3
        cases hc : replayU p B dP with
        | none => rw [hc] at h3; exact False.elim h3
        | some dB =>
          obtain ⟨g2, s2⟩ := good_applyList g1 sP hwB ha
          obtain ⟨gB, _⟩ := replayU_good gP sP hwB hc
          refine ⟨?_, by rw [flat_append]; exact s2, by rw [flat_append]; exact gB⟩
          rw [flat_append]
          apply good_save (reorgView_nodup hv)
          rw [hsem]; exact g2

end BytomModel.Lemmas.Ledger
