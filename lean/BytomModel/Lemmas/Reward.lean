/-
Lemmas about the reward part of M-Ckpt: `kadd`, the fee fold of applyValidatorReward, the
validator's outputMap, the proposer's payRewards.
-/
import BytomModel.Lemmas.Checkpoint
import Batteries.Data.List.Perm

namespace BytomModel.Lemmas.Reward
open BytomModel.Model.Checkpoint BytomModel.Lemmas.Checkpoint

/-- every stored value is a uint64 -/
def Bounded (m : KMap) : Prop := ∀ k v, kget m k = some v → v < u64

theorem u64_pos : 0 < u64 := by unfold u64; omega

theorem bounded_nil : Bounded [] := by intro k v h; simp [kget] at h

theorem kget_kadd_same (m : KMap) (k : Key) (v : Nat) :
    kget (kadd m k v) k = some (((kget m k).getD 0 + v) % u64) := kget_kset_same _ _ _

theorem kget_kadd_other (m : KMap) {k k' : Key} (v : Nat) (h : k ≠ k') : kget (kadd m k v) k' = kget m k' :=
  kget_kset_other _ _ h

theorem nodup_kadd {m : KMap} (k : Key) (v : Nat) (h : (kkeys m).Nodup) : (kkeys (kadd m k v)).Nodup :=
  nodup_kset _ _ h

theorem bounded_kadd {m : KMap} (k : Key) (v : Nat) (h : Bounded m) : Bounded (kadd m k v) := by
  intro k' w hw
  by_cases e : k = k'
  · subst e; rw [kget_kadd_same] at hw; cases hw; exact Nat.mod_lt _ u64_pos
  · rw [kget_kadd_other m v e] at hw; exact h k' w hw

theorem getD_lt {m : KMap} (h : Bounded m) (k : Key) : (kget m k).getD 0 < u64 := by
  cases e : kget m k with
  | none => exact u64_pos
  | some v => exact h k v e

def feeSum : List CTx → Nat
  | [] => 0
  | t :: r => t.fee + feeSum r

theorem fold_fees (P : Key) : ∀ (txs : List CTx) (m : KMap), Bounded m → (kkeys m).Nodup →
    let r := txs.foldl (fun m tx => kadd m P tx.fee) m
    (kget r P).getD 0 = ((kget m P).getD 0 + feeSum txs) % u64 ∧
    (∀ k, P ≠ k → kget r k = kget m k) ∧ Bounded r ∧ (kkeys r).Nodup
  | [], m, hb, hn => by
    simp only [List.foldl, feeSum, Nat.add_zero]
    exact ⟨(Nat.mod_eq_of_lt (getD_lt hb P)).symm, fun _ _ => trivial, hb, hn⟩
  | t :: r, m, hb, hn => by
    obtain ⟨a, b, c, d⟩ := fold_fees P r (kadd m P t.fee) (bounded_kadd _ _ hb) (nodup_kadd _ _ hn)
    simp only [List.foldl] at a b c d ⊢
    refine ⟨?_, ?_, c, d⟩
    · rw [a, kget_kadd_same]; simp only [Option.getD_some, feeSum]
      rw [Nat.mod_add_mod, Nat.add_assoc]
    · intro k hk; rw [b k hk, kget_kadd_other _ _ hk]

/-- one block: the entry of the block's first coinbase program grows by fees + subsidy
    (uint64), nothing else changes -/
theorem applyValidatorReward_spec {r r' : KMap} {b : CBlock} {sub : Nat}
    (h : applyValidatorReward r b sub = .ok r') (hb : Bounded r) (hn : (kkeys r).Nodup) :
    ∃ o rest, b.outs0 = o :: rest ∧ b.txs ≠ [] ∧
      (kget r' o.program).getD 0 = ((kget r o.program).getD 0 + feeSum b.txs + sub) % u64 ∧
      (∀ k, o.program ≠ k → kget r' k = kget r k) ∧ Bounded r' ∧ (kkeys r').Nodup := by
  unfold applyValidatorReward at h
  split at h
  · cases h
  · cases h
  · rename_i t ts o rest ht ho
    injection h with h
    obtain ⟨a, b', c, d⟩ := fold_fees o.program b.txs r hb hn
    refine ⟨o, rest, ho, by rw [ht]; simp, ?_, ?_, ?_, ?_⟩
    · rw [← h, kget_kadd_same, a]; simp only [Option.getD_some]
      rw [Nat.mod_add_mod]
    · intro k hk; rw [← h, kget_kadd_other _ _ hk, b' k hk]
    · rw [← h]; exact bounded_kadd _ _ c
    · rw [← h]; exact nodup_kadd _ _ d

/-! ### the validator's outputMap -/

/-- TRUE total paid to program `k` by the outputs from position `i` on, not counting a zero
    first output -/
def paid (k : Key) : Nat → List COut → Nat
  | _, [] => 0
  | i, o :: t => (if (i = 0 ∧ o.amount = 0) ∨ o.program ≠ k then 0 else o.amount) + paid k (i + 1) t

theorem outputMapFrom_spec (k : Key) : ∀ (outs : List COut) (i : Nat) (m : KMap), Bounded m → (kkeys m).Nodup →
    (kget (outputMapFrom i outs m) k).getD 0 = ((kget m k).getD 0 + paid k i outs) % u64 ∧
    Bounded (outputMapFrom i outs m) ∧ (kkeys (outputMapFrom i outs m)).Nodup
  | [], i, m, hb, hn => by
    simp only [outputMapFrom, paid, Nat.add_zero]
    exact ⟨(Nat.mod_eq_of_lt (getD_lt hb k)).symm, hb, hn⟩
  | o :: t, i, m, hb, hn => by
    simp only [outputMapFrom, paid]
    by_cases c : i = 0 ∧ o.amount = 0
    · simp only [c, and_self, if_true, true_or, Nat.zero_add]
      have := outputMapFrom_spec k t (0 + 1) m hb hn
      obtain ⟨c1, c2⟩ := c
      subst c1
      exact this
    · simp only [c, if_false, false_or]
      obtain ⟨a, b, d⟩ := outputMapFrom_spec k t (i + 1) (kadd m o.program o.amount) (bounded_kadd _ _ hb) (nodup_kadd _ _ hn)
      refine ⟨?_, b, d⟩
      rw [a]
      by_cases e : o.program = k
      · subst e; rw [kget_kadd_same]; simp only [Option.getD_some, ne_eq, not_true_eq_false, if_false]
        rw [Nat.mod_add_mod, Nat.add_assoc]
      · rw [kget_kadd_other _ _ e]; simp [e]

/-- pigeonhole: a duplicate-free list contained in a duplicate-free list of the same length
    has the same members -/
theorem subset_of_length_eq {α : Type} {a b : List α} (ha : a.Nodup) (hsub : a ⊆ b) (hl : b.length = a.length) :
    b ⊆ a := by
  have sp := List.subperm_of_subset ha hsub
  have p := sp.perm_of_length_le (by omega)
  exact p.symm.subset

end BytomModel.Lemmas.Reward
