/-
M-Pool: clause (2a') — every index bucket sits under an output that is neither confirmed nor
created by a pooled transaction — as an invariant of every history, and the insertion side of
clause (2b): a new orphan is indexed under each of its missing parents.
-/
import BytomModel.Lemmas.TxPoolIndex

namespace BytomModel.Lemmas.TxPool
open BytomModel.TxPool

/-- every bucket key is unavailable -/
def Waits (c : Cfg) (s : Pool) : Prop :=
  ∀ p m, amGet s.byPrev p = some m → c.conf.contains p = false ∧ amGet s.utxo p = none

theorem waits_empty (c : Cfg) : Waits c Pool.empty := by
  intro p m h; simp [Pool.empty, amGet] at h

theorem missing_unavailable (c : Cfg) (s : Pool) (tx : Tx) (x : Out) (h : x ∈ missing c s tx) :
    c.conf.contains x = false ∧ amGet s.utxo x = none := by
  unfold missing at h
  have := (List.mem_filter.mp h).2
  rw [amHas_eq] at this
  cases hc : c.conf.contains x <;> cases hu : amGet s.utxo x <;> simp_all

theorem waits_addOrphan (c : Cfg) {s : Pool} (h : Waits c s) (tx : Tx) (now : Nat) :
    Waits c (addOrphan c s tx now (requireParents c s tx)).1 := by
  unfold addOrphan
  split
  · exact h
  · simp only
    intro p m hg
    revert p m
    apply foldl_inv (fun bp => ∀ p m, amGet bp p = some m → c.conf.contains p = false ∧ amGet s.utxo p = none)
    · exact h
    · intro bp x hx hP p m hg
      have hxu := missing_unavailable c s tx x hx
      cases hb : amGet bp x with
      | none =>
        simp only [hb] at hg
        rw [amGet_amSet] at hg
        by_cases e : p = x
        · rw [e]; exact hxu
        · simp only [e, if_false] at hg; exact hP p m hg
      | some m0 =>
        simp only [hb] at hg
        rw [amGet_amSet] at hg
        by_cases e : p = x
        · rw [e]; exact hxu
        · simp only [e, if_false] at hg; exact hP p m hg

theorem waits_removeOrphan (c : Cfg) {s : Pool} (h : Waits c s) (id : Nat) : Waits c (removeOrphan s id) := by
  unfold removeOrphan
  split
  · exact h
  · rename_i o _
    intro p m' hg
    simp only at hg ⊢
    have hg' : amGet (o.tx.spent.foldl (rmStep id) s.byPrev) p = some m' := hg
    obtain ⟨m, hm, _⟩ := rm_origin id _ _ p m' hg'
    exact h p m hm

theorem waits_removeTransaction (c : Cfg) {s : Pool} (h : Waits c s) (id : Nat) :
    Waits c (removeTransaction s id) := by
  unfold removeTransaction
  split
  · exact h
  · intro p m hg
    simp only at hg ⊢
    obtain ⟨h1, h2⟩ := h p m hg
    refine ⟨h1, ?_⟩
    rw [get_foldDel]
    split
    · rfl
    · exact h2

/-- `addRely` deletes exactly the buckets under the results of `tx` and touches nothing else -/
theorem addRely_spec (tx : Tx) : ∀ (rs : List (Out × Bool)) (s : Pool) (q : List Tx),
    let r := rs.foldl (fun (sq : Pool × List Tx) r =>
      match amGet sq.1.byPrev r.1 with
      | none => sq
      | some m => ({ sq.1 with byPrev := amDel sq.1.byPrev r.1 }, sq.2 ++ m.map Prod.snd)) (s, q)
    (∀ p, amGet r.1.byPrev p = if p ∈ rs.map Prod.fst then none else amGet s.byPrev p) ∧
    r.1.utxo = s.utxo ∧ r.1.pool = s.pool ∧ r.1.orphans = s.orphans
  | [], s, q => by simp
  | r0 :: rs, s, q => by
    simp only [List.foldl_cons]
    cases hb : amGet s.byPrev r0.1 with
    | none =>
      simp only
      obtain ⟨h1, h2, h3, h4⟩ := addRely_spec tx rs s q
      refine ⟨?_, h2, h3, h4⟩
      intro p
      rw [h1 p]
      simp only [List.map_cons, List.mem_cons]
      by_cases e : p = r0.1
      · subst e; simp [hb]
      · simp [e]
    | some m =>
      simp only
      obtain ⟨h1, h2, h3, h4⟩ := addRely_spec tx rs { s with byPrev := amDel s.byPrev r0.1 } (q ++ m.map Prod.snd)
      refine ⟨?_, h2, h3, h4⟩
      intro p
      rw [h1 p]
      simp only [List.map_cons, List.mem_cons]
      rw [amGet_amDel]
      by_cases e : p = r0.1
      · subst e; simp
      · simp [e]

theorem addRely_byPrev (s : Pool) (q : List Tx) (tx : Tx) (p : Out) :
    amGet (addRely s q tx).1.byPrev p = if p ∈ tx.results.map Prod.fst then none else amGet s.byPrev p :=
  (addRely_spec tx tx.results s q).1 p

theorem addRely_utxo (s : Pool) (q : List Tx) (tx : Tx) : (addRely s q tx).1.utxo = s.utxo :=
  (addRely_spec tx tx.results s q).2.1

theorem waits_addRely (c : Cfg) {s : Pool} (h : Waits c s) (q : List Tx) (tx : Tx) :
    Waits c (addRely s q tx).1 := by
  intro p m hg
  rw [addRely_byPrev] at hg
  rw [addRely_utxo]
  split at hg
  · cases hg
  · exact h p m hg

/-- adding a transaction whose result buckets are gone keeps every bucket under an unavailable output -/
theorem waits_addTransaction (c : Cfg) {s : Pool} (h : Waits c s) (tx : Tx)
    (hno : ∀ r ∈ tx.results, amGet s.byPrev r.1 = none) : Waits c (addTransaction c s tx).1 := by
  unfold addTransaction
  split
  · exact h
  · intro p m hg
    simp only at hg ⊢
    obtain ⟨h1, h2⟩ := h p m hg
    refine ⟨h1, ?_⟩
    rw [get_foldSet]
    split
    · rename_i hin
      have := hno (p, true) hin
      simp only at this
      rw [this] at hg; cases hg
    · exact h2

theorem waits_processLoop (c : Cfg) : ∀ (f : Nat) (s : Pool) (q : List Tx), Waits c s → Waits c (processLoop c f s q)
  | 0, _, _, h => by unfold processLoop; exact h
  | _ + 1, _, [], h => by unfold processLoop; exact h
  | f + 1, s, o :: q, h => by
    unfold processLoop
    split
    · have h1 := waits_addRely c h q o
      have h2 := waits_removeOrphan c h1 o.id
      have hno : ∀ r ∈ o.results, amGet (removeOrphan (addRely s q o).1 o.id).byPrev r.1 = none := by
        intro r hr
        cases hg : amGet (removeOrphan (addRely s q o).1 o.id).byPrev r.1 with
        | none => rfl
        | some m' =>
          exfalso
          unfold removeOrphan at hg
          split at hg
          · rw [addRely_byPrev] at hg
            simp only [List.mem_map] at hg
            rw [if_pos ⟨r, hr, rfl⟩] at hg; cases hg
          · rename_i ob _
            simp only at hg
            have hg' : amGet (ob.tx.spent.foldl (rmStep o.id) (addRely s q o).1.byPrev) r.1 = some m' := hg
            obtain ⟨m, hm, _⟩ := rm_origin o.id _ _ r.1 m' hg'
            rw [addRely_byPrev] at hm
            simp only [List.mem_map] at hm
            rw [if_pos ⟨r, hr, rfl⟩] at hm; cases hm
      exact waits_processLoop c f _ _ (waits_addTransaction c h2 o hno)
    · exact waits_processLoop c f s q h

/-- `addTransaction` then `processOrphans` (the pooled path of `processTransaction`) -/
theorem waits_pooled (c : Cfg) {s : Pool} (h : Waits c s) (tx : Tx) :
    Waits c (processOrphans c (addTransaction c s tx).1 tx) := by
  unfold processOrphans
  apply waits_processLoop
  intro p m hg
  rw [addRely_byPrev] at hg
  rw [addRely_utxo]
  split at hg
  · cases hg
  · rename_i hnot
    unfold addTransaction at hg ⊢
    split
    · rename_i hfull
      simp only [hfull, if_true] at hg
      exact h p m hg
    · rename_i hfull
      simp only [hfull, if_false] at hg
      obtain ⟨h1, h2⟩ := h p m hg
      refine ⟨h1, ?_⟩
      simp only
      rw [get_foldSet]
      split
      · rename_i hin
        exact absurd (List.mem_map.mpr ⟨(p, true), hin, rfl⟩) hnot
      · exact h2

theorem waits_submit (c : Cfg) {s : Pool} (h : Waits c s) (tx : Tx) (now : Nat) : Waits c (submit c s tx now).1 := by
  unfold submit
  split
  · exact h
  · split
    · exact h
    · unfold processTransaction
      simp only
      split
      · exact waits_addOrphan c h tx now
      · split
        · exact waits_pooled c h tx
        · rename_i hfull
          unfold addTransaction at hfull ⊢
          split
          · exact h
          · rename_i hroom
            simp [hroom] at hfull

theorem waits_expire (c : Cfg) {s : Pool} (h : Waits c s) (k : Nat) : Waits c (expire s k) := by
  unfold expire
  exact foldl_inv (Waits c) _ _ _ h (fun a e _ ha => waits_removeOrphan c ha e.1)

theorem waits_step (c : Cfg) {s : Pool} (h : Waits c s) (now : Nat) (op : Op) : Waits c (step c s now op).1 := by
  cases op with
  | submit tx => exact waits_submit c h tx now
  | remove id => exact waits_removeTransaction c h id
  | expire k => exact waits_expire c h k

theorem waits_runFrom (c : Cfg) : ∀ (ops : List Op) (s : Pool) (now : Nat), Waits c s → Waits c (runFrom c s now ops)
  | [], _, _, h => by unfold runFrom; exact h
  | op :: ops, s, now, h => by
    unfold runFrom
    exact waits_runFrom c ops _ _ (waits_step c h now op)

/-! ### insertion side of (2b) -/

theorem mem_amSet_self {β : Type} (l : List (Nat × β)) (k : Nat) (v : β) : (k, v) ∈ amSet l k v := by
  induction l with
  | nil => simp [amSet]
  | cons x l ih =>
    obtain ⟨a, b⟩ := x
    unfold amSet
    split
    · simp
    · exact List.mem_cons_of_mem _ ih

/-- after the indexing loop of `addOrphan`, the orphan sits in the bucket of every listed parent -/
theorem addOrphan_fold_mem (id : Nat) (tx : Tx) : ∀ (req : List Out) (bp : List (Out × List (Nat × Tx))) (p : Out),
    (p ∈ req ∨ ∃ m, amGet bp p = some m ∧ (id, tx) ∈ m) →
    ∃ m, amGet (req.foldl (fun bp h =>
      match amGet bp h with
      | none => amSet bp h [(id, tx)]
      | some m => amSet bp h (amSet m id tx)) bp) p = some m ∧ (id, tx) ∈ m
  | [], _, _, h => by
    rcases h with h | h
    · cases h
    · exact h
  | x :: req, bp, p, h => by
    simp only [List.foldl_cons]
    apply addOrphan_fold_mem id tx req
    by_cases e : p = x
    · right
      subst e
      cases hb : amGet bp p with
      | none => exact ⟨[(id, tx)], by simp only; rw [amGet_amSet]; simp, by simp⟩
      | some m0 => exact ⟨amSet m0 id tx, by simp only; rw [amGet_amSet]; simp, mem_amSet_self _ _ _⟩
    · rcases h with h | ⟨m, hm, hin⟩
      · left
        rcases List.mem_cons.mp h with h | h
        · exact absurd h e
        · exact h
      · right
        refine ⟨m, ?_, hin⟩
        cases hb : amGet bp x with
        | none => simp only; rw [amGet_amSet]; simp [e, hm]
        | some m0 => simp only; rw [amGet_amSet]; simp [e, hm]

end BytomModel.Lemmas.TxPool
