/-
Refinement lemmas: the MemDB algorithm against the abstract ordered store.
-/
import BytomModel.Lemmas.KV

namespace BytomModel.Lemmas.KV
open BytomModel.KV

def keysS (s : Spec) : List Bytes := s.map Prod.fst
def keysM (m : Mem) : List Bytes := m.map Prod.fst

/-- the abstract store is strictly ascending in its keys -/
def SSorted (s : Spec) : Prop := Asc (keysS s)

theorem keysS_cons (a b : Bytes) (s : Spec) : keysS ((a, b) :: s) = a :: keysS s := rfl
theorem keysM_cons (a : Bytes) (b : Option Bytes) (m : Mem) : keysM ((a, b) :: m) = a :: keysM m := rfl

theorem ssorted_cons (a b : Bytes) (s : Spec) :
    SSorted ((a, b) :: s) ↔ (∀ y ∈ keysS s, blt a y = true) ∧ SSorted s := by
  unfold SSorted Asc
  rw [keysS_cons]
  exact List.pairwise_cons

theorem nodupM_cons (a : Bytes) (b : Option Bytes) (m : Mem) :
    (keysM ((a, b) :: m)).Nodup ↔ a ∉ keysM m ∧ (keysM m).Nodup := by
  rw [keysM_cons]; exact List.nodup_cons

/-! ### abstract store -/

theorem spec_get_set (s : Spec) (k k' v) :
    Spec.get (Spec.set s k v) k' = if k' = k then some v else Spec.get s k' := by
  induction s with
  | nil => simp [Spec.set, Spec.get, eq_comm]
  | cons e s ih =>
    obtain ⟨a, b⟩ := e
    unfold Spec.set
    by_cases h1 : a = k
    · subst h1
      by_cases h2 : k' = a
      · subst h2; simp [Spec.get]
      · have : ¬ a = k' := fun e => h2 e.symm
        simp [Spec.get, h2, this]
    · simp only [h1, if_false]
      by_cases h3 : blt k a = true
      · simp only [h3, if_true]
        by_cases h2 : k' = k
        · subst h2; simp [Spec.get]
        · have : ¬ k = k' := fun e => h2 e.symm
          simp [Spec.get, h2, this]
      · simp only [h3]
        by_cases h4 : a = k'
        · subst h4
          have : ¬ a = k := h1
          simp [Spec.get, this]
        · simp [Spec.get, h4, ih]

theorem mem_keys_set (s : Spec) (k v x) : x ∈ keysS (Spec.set s k v) ↔ x = k ∨ x ∈ keysS s := by
  induction s with
  | nil => simp [Spec.set, keysS]
  | cons e s ih =>
    obtain ⟨a, b⟩ := e
    unfold Spec.set
    by_cases h1 : a = k
    · subst h1
      rw [if_pos rfl, keysS_cons, keysS_cons]
      simp
    · rw [if_neg h1]
      by_cases h3 : blt k a = true
      · rw [if_pos h3, keysS_cons, List.mem_cons]
      · rw [if_neg h3, keysS_cons, keysS_cons, List.mem_cons, List.mem_cons, ih]
        constructor
        · rintro (h | h | h)
          · exact Or.inr (Or.inl h)
          · exact Or.inl h
          · exact Or.inr (Or.inr h)
        · rintro (h | h | h)
          · exact Or.inr (Or.inl h)
          · exact Or.inl h
          · exact Or.inr (Or.inr h)

theorem set_sorted (s : Spec) (k v) (h : SSorted s) : SSorted (Spec.set s k v) := by
  induction s with
  | nil => simp [Spec.set, SSorted, Asc, keysS]
  | cons e s ih =>
    obtain ⟨a, b⟩ := e
    have h' := (ssorted_cons a b s).mp h
    unfold Spec.set
    by_cases h1 : a = k
    · subst h1
      rw [if_pos rfl]
      exact (ssorted_cons a v s).mpr h'
    · rw [if_neg h1]
      by_cases h3 : blt k a = true
      · rw [if_pos h3]
        refine (ssorted_cons k v _).mpr ⟨?_, h⟩
        intro z hz
        rw [keysS_cons] at hz
        rcases List.mem_cons.mp hz with e | hz'
        · rw [e]; exact h3
        · exact blt_trans _ _ _ h3 (h'.1 z hz')
      · rw [if_neg h3]
        have hak : blt a k = true := by
          have h3' : blt k a = false := by simpa using h3
          exact (blt_iff a k).mpr ⟨(blt_false_iff k a).mp h3', h1⟩
        refine (ssorted_cons a b _).mpr ⟨?_, ih h'.2⟩
        intro z hz
        rcases (mem_keys_set s k v z).mp hz with e | hz'
        · rw [e]; exact hak
        · exact h'.1 z hz'

theorem spec_get_none_of_not_mem (s : Spec) (k) (h : k ∉ keysS s) : Spec.get s k = none := by
  induction s with
  | nil => rfl
  | cons e s ih =>
    obtain ⟨a, b⟩ := e
    have h1 : ¬ a = k := fun e => h (by simp [keysS, e])
    have h2 : k ∉ keysS s := fun m => h (by simp only [keysS, List.map_cons, List.mem_cons]; exact Or.inr m)
    simp [Spec.get, h1, ih h2]

theorem spec_get_of_mem (s : Spec) (hs : SSorted s) (kv : Bytes × Bytes) (h : kv ∈ s) :
    Spec.get s kv.1 = some kv.2 := by
  induction s with
  | nil => cases h
  | cons e s ih =>
    obtain ⟨a, b⟩ := e
    have h' := (ssorted_cons a b s).mp hs
    rcases List.mem_cons.mp h with e | hm
    · subst e; simp [Spec.get]
    · have hk : kv.1 ∈ keysS s := List.mem_map.mpr ⟨kv, hm, rfl⟩
      have : ¬ a = kv.1 := by
        intro e
        have := h'.1 _ hk
        rw [← e, blt_irrefl] at this; cases this
      simp [Spec.get, this, ih h'.2 hm]

theorem spec_get_ne_none_iff (s : Spec) (k) : Spec.get s k ≠ none ↔ k ∈ keysS s := by
  induction s with
  | nil => simp [Spec.get, keysS]
  | cons e s ih =>
    obtain ⟨a, b⟩ := e
    by_cases h : a = k
    · subst h; simp [Spec.get, keysS]
    · have ih' : Spec.get s k ≠ none ↔ k ∈ List.map Prod.fst s := ih
      have hk : ¬ k = a := fun e => h e.symm
      simp only [Spec.get, h, if_false, keysS, List.map_cons, List.mem_cons, hk, false_or]
      exact ih'

theorem mem_keys_delete (s : Spec) (hs : SSorted s) (k x) :
    x ∈ keysS (Spec.delete s k) ↔ x ≠ k ∧ x ∈ keysS s := by
  induction s with
  | nil => simp [Spec.delete, keysS]
  | cons e s ih =>
    obtain ⟨a, b⟩ := e
    have h' := (ssorted_cons a b s).mp hs
    unfold Spec.delete
    by_cases h1 : a = k
    · subst h1
      simp only [if_true, keysS, List.map_cons, List.mem_cons]
      constructor
      · intro hx
        refine ⟨?_, Or.inr hx⟩
        intro e; subst e
        have := h'.1 x hx
        rw [blt_irrefl] at this; cases this
      · rintro ⟨ne, e | hx⟩
        · exact absurd e ne
        · exact hx
    · have ih' := ih h'.2
      simp only [h1, if_false, keysS, List.map_cons, List.mem_cons]
      simp only [keysS] at ih'
      rw [ih']
      constructor
      · rintro (e | ⟨ne, hx⟩)
        · subst e; exact ⟨h1, Or.inl rfl⟩
        · exact ⟨ne, Or.inr hx⟩
      · rintro ⟨ne, e | hx⟩
        · exact Or.inl e
        · exact Or.inr ⟨ne, hx⟩

theorem delete_sorted (s : Spec) (k) (hs : SSorted s) : SSorted (Spec.delete s k) := by
  induction s with
  | nil => simpa [Spec.delete] using hs
  | cons e s ih =>
    obtain ⟨a, b⟩ := e
    have h' := (ssorted_cons a b s).mp hs
    unfold Spec.delete
    by_cases h1 : a = k
    · simp only [h1, if_true]; exact h'.2
    · simp only [h1, if_false]
      unfold SSorted Asc keysS
      simp only [List.map_cons]
      refine List.pairwise_cons.mpr ⟨?_, ih h'.2⟩
      intro z hz
      exact h'.1 z ((mem_keys_delete s h'.2 k z).mp hz).2

theorem spec_get_delete (s : Spec) (hs : SSorted s) (k k') :
    Spec.get (Spec.delete s k) k' = if k' = k then none else Spec.get s k' := by
  induction s with
  | nil => simp [Spec.delete, Spec.get]
  | cons e s ih =>
    obtain ⟨a, b⟩ := e
    have h' := (ssorted_cons a b s).mp hs
    unfold Spec.delete
    by_cases h1 : a = k
    · subst h1
      simp only [if_true]
      by_cases h2 : k' = a
      · subst h2
        simp only [if_true]
        apply spec_get_none_of_not_mem
        intro m
        have := h'.1 _ m
        rw [blt_irrefl] at this; cases this
      · have : ¬ a = k' := fun e => h2 e.symm
        simp [Spec.get, h2, this]
    · simp only [h1, if_false]
      by_cases h4 : a = k'
      · subst h4
        simp [Spec.get, h1]
      · simp [Spec.get, h4, ih h'.2]

/-! ### the Go map -/

theorem mem_get_set (m : Mem) (k k' v) :
    Mem.get (Mem.set m k v) k' = if k' = k then v else Mem.get m k' := by
  induction m with
  | nil => simp [Mem.set, Mem.get, eq_comm]
  | cons e m ih =>
    obtain ⟨a, b⟩ := e
    unfold Mem.set
    by_cases h1 : a = k
    · subst h1
      by_cases h2 : k' = a
      · subst h2; simp [Mem.get]
      · have : ¬ a = k' := fun e => h2 e.symm
        simp [Mem.get, h2, this]
    · simp only [h1, if_false]
      by_cases h4 : a = k'
      · subst h4
        have : ¬ a = k := h1
        simp [Mem.get, this]
      · simp [Mem.get, h4, ih]

theorem memkeys_set (m : Mem) (k v x) : x ∈ keysM (Mem.set m k v) ↔ x = k ∨ x ∈ keysM m := by
  induction m with
  | nil => simp [Mem.set, keysM]
  | cons e m ih =>
    obtain ⟨a, b⟩ := e
    unfold Mem.set
    by_cases h1 : a = k
    · subst h1; simp [keysM]
    · have ih' : x ∈ List.map Prod.fst (Mem.set m k v) ↔ x = k ∨ x ∈ List.map Prod.fst m := ih
      simp only [h1, if_false, keysM, List.map_cons, List.mem_cons, ih']
      constructor
      · rintro (h | h | h) <;> simp [h]
      · rintro (h | h | h) <;> simp [h]

theorem memkeys_set_nodup (m : Mem) (k v) (h : (keysM m).Nodup) : (keysM (Mem.set m k v)).Nodup := by
  induction m with
  | nil => simp [Mem.set, keysM]
  | cons e m ih =>
    obtain ⟨a, b⟩ := e
    have h' := (nodupM_cons a b m).mp h
    unfold Mem.set
    by_cases h1 : a = k
    · subst h1; simpa [keysM] using h
    · simp only [h1, if_false, keysM, List.map_cons]
      refine List.nodup_cons.mpr ⟨?_, ih h'.2⟩
      intro hm
      rcases (memkeys_set m k v a).mp hm with e | r
      · exact h1 e
      · exact h'.1 r

theorem memkeys_delete (m : Mem) (h : (keysM m).Nodup) (k x) :
    x ∈ keysM (Mem.delete m k) ↔ x ≠ k ∧ x ∈ keysM m := by
  induction m with
  | nil => simp [Mem.delete, keysM]
  | cons e m ih =>
    obtain ⟨a, b⟩ := e
    have h' := (nodupM_cons a b m).mp h
    unfold Mem.delete
    by_cases h1 : a = k
    · subst h1
      simp only [if_true, keysM, List.map_cons, List.mem_cons]
      constructor
      · intro hx
        exact ⟨fun e => h'.1 (e ▸ hx), Or.inr hx⟩
      · rintro ⟨ne, e | hx⟩
        · exact absurd e ne
        · exact hx
    · have ih' := ih h'.2
      simp only [h1, if_false, keysM, List.map_cons, List.mem_cons]
      simp only [keysM] at ih'
      rw [ih']
      constructor
      · rintro (e | ⟨ne, hx⟩)
        · subst e; exact ⟨h1, Or.inl rfl⟩
        · exact ⟨ne, Or.inr hx⟩
      · rintro ⟨ne, e | hx⟩
        · exact Or.inl e
        · exact Or.inr ⟨ne, hx⟩

theorem memkeys_delete_nodup (m : Mem) (k) (h : (keysM m).Nodup) : (keysM (Mem.delete m k)).Nodup := by
  induction m with
  | nil => simpa [Mem.delete] using h
  | cons e m ih =>
    obtain ⟨a, b⟩ := e
    have h' := (nodupM_cons a b m).mp h
    unfold Mem.delete
    by_cases h1 : a = k
    · simp only [h1, if_true]; exact h'.2
    · simp only [h1, if_false, keysM, List.map_cons]
      refine List.nodup_cons.mpr ⟨?_, ih h'.2⟩
      intro hm
      exact h'.1 ((memkeys_delete m h'.2 k a).mp hm).2

theorem mem_get_none_of_not_mem (m : Mem) (k) (h : k ∉ keysM m) : Mem.get m k = none := by
  induction m with
  | nil => rfl
  | cons e m ih =>
    obtain ⟨a, b⟩ := e
    have h1 : ¬ a = k := fun e => h (by simp [keysM, e])
    have h2 : k ∉ keysM m := fun mm => h (by simp only [keysM, List.map_cons, List.mem_cons]; exact Or.inr mm)
    simp [Mem.get, h1, ih h2]

theorem mem_get_delete (m : Mem) (h : (keysM m).Nodup) (k k') :
    Mem.get (Mem.delete m k) k' = if k' = k then none else Mem.get m k' := by
  induction m with
  | nil => simp [Mem.delete, Mem.get]
  | cons e m ih =>
    obtain ⟨a, b⟩ := e
    have h' := (nodupM_cons a b m).mp h
    unfold Mem.delete
    by_cases h1 : a = k
    · subst h1
      simp only [if_true]
      by_cases h2 : k' = a
      · subst h2
        simp only [if_true]
        exact mem_get_none_of_not_mem m _ h'.1
      · have : ¬ a = k' := fun e => h2 e.symm
        simp [Mem.get, h2, this]
    · simp only [h1, if_false]
      by_cases h4 : a = k'
      · subst h4
        simp [Mem.get, h1]
      · simp [Mem.get, h4, ih h'.2]

/-- no stored value is the nil slice -/
def NoNil (m : Mem) : Prop := ∀ kv ∈ m, kv.2 ≠ none

theorem mem_get_ne_none_iff (m : Mem) (hn : NoNil m) (k) : Mem.get m k ≠ none ↔ k ∈ keysM m := by
  induction m with
  | nil => simp [Mem.get, keysM]
  | cons e m ih =>
    obtain ⟨a, b⟩ := e
    have hn' : NoNil m := fun kv h => hn kv (List.mem_cons_of_mem _ h)
    by_cases h : a = k
    · subst h
      have : b ≠ none := hn (a, b) (by simp)
      simp [Mem.get, keysM, this]
    · have ih' : Mem.get m k ≠ none ↔ k ∈ List.map Prod.fst m := ih hn'
      have hk : ¬ k = a := fun e => h e.symm
      simp only [Mem.get, h, if_false, keysM, List.map_cons, List.mem_cons, hk, false_or]
      exact ih'

theorem noNil_set (m : Mem) (k) (v : Bytes) (hn : NoNil m) : NoNil (Mem.set m k (some v)) := by
  induction m with
  | nil => intro kv h; simp [Mem.set] at h; subst h; simp
  | cons e m ih =>
    obtain ⟨a, b⟩ := e
    have hn' : NoNil m := fun kv h => hn kv (List.mem_cons_of_mem _ h)
    unfold Mem.set
    by_cases h1 : a = k
    · simp only [h1, if_true]
      intro kv h
      rcases List.mem_cons.mp h with e | h
      · subst e; simp
      · exact hn' kv h
    · simp only [h1, if_false]
      intro kv h
      rcases List.mem_cons.mp h with e | h
      · subst e; exact hn (a, b) (by simp)
      · exact ih hn' kv h

theorem noNil_delete (m : Mem) (k) (hn : NoNil m) : NoNil (Mem.delete m k) := by
  induction m with
  | nil => simpa [Mem.delete] using hn
  | cons e m ih =>
    obtain ⟨a, b⟩ := e
    have hn' : NoNil m := fun kv h => hn kv (List.mem_cons_of_mem _ h)
    unfold Mem.delete
    by_cases h1 : a = k
    · simp only [h1, if_true]; exact hn'
    · simp only [h1, if_false]
      intro kv h
      rcases List.mem_cons.mp h with e | h
      · subst e; exact hn (a, b) (by simp)
      · exact ih hn' kv h

/-! ### the refinement relation -/

structure R (m : Mem) (s : Spec) : Prop where
  sorted : SSorted s
  nodup : (keysM m).Nodup
  noNil : NoNil m
  get : ∀ k, Mem.get m k = Spec.get s k

theorem R.keys {m s} (r : R m s) (k : Bytes) : k ∈ keysM m ↔ k ∈ keysS s := by
  rw [← mem_get_ne_none_iff m r.noNil, ← spec_get_ne_none_iff, r.get]

theorem R.empty : R [] [] :=
  ⟨by simp [SSorted, Asc, keysS], by simp [keysM], (fun kv h => by cases h), fun _ => rfl⟩

theorem R.set {m s} (r : R m s) (k v : Bytes) : R (Mem.set m k (some v)) (Spec.set s k v) :=
  ⟨set_sorted s k v r.sorted, memkeys_set_nodup m k _ r.nodup, noNil_set m k v r.noNil,
   fun k' => by rw [mem_get_set, spec_get_set, r.get]⟩

theorem R.delete {m s} (r : R m s) (k : Bytes) : R (Mem.delete m k) (Spec.delete s k) :=
  ⟨delete_sorted s k r.sorted, memkeys_delete_nodup m k r.nodup, noNil_delete m k r.noNil,
   fun k' => by rw [mem_get_delete m r.nodup, spec_get_delete s r.sorted, r.get]⟩

/-- entries read back through the map equal the abstract entries -/
theorem R.entries {m s} (r : R m s) (L : List (Bytes × Bytes)) (hL : ∀ kv ∈ L, kv ∈ s) :
    (L.map Prod.fst).map (fun k => (k, Mem.get m k)) = L.map liftKV := by
  rw [List.map_map]
  apply List.map_congr_left
  intro kv h
  simp only [Function.comp, liftKV]
  rw [r.get, spec_get_of_mem s r.sorted kv (hL kv h)]

theorem asc_filter_keys (s : Spec) (hs : SSorted s) (q : Bytes × Bytes → Bool) : Asc ((s.filter q).map Prod.fst) := by
  unfold SSorted Asc keysS at hs
  unfold Asc
  rw [List.pairwise_map] at hs ⊢
  exact List.Pairwise.filter q hs

/-- collect-filter-sort over the map = filter over the ascending store -/
theorem R.sorted_keys {m s} (r : R m s) (q : Bytes → Bool) :
    sortKeys ((keysM m).filter q) = (s.filter (fun kv => q kv.1)).map Prod.fst := by
  apply sortKeys_eq
  · exact nodup_filter q _ r.nodup
  · exact asc_filter_keys s r.sorted _
  · intro x
    rw [List.mem_filter, r.keys x]
    constructor
    · rintro ⟨hx, hq⟩
      obtain ⟨kv, hkv, e⟩ := List.mem_map.mp hx
      exact List.mem_map.mpr ⟨kv, List.mem_filter.mpr ⟨hkv, by rw [e]; exact hq⟩, e⟩
    · intro hx
      obtain ⟨kv, hkv, e⟩ := List.mem_map.mp hx
      have := List.mem_filter.mp hkv
      refine ⟨List.mem_map.mpr ⟨kv, this.1, e⟩, ?_⟩
      rw [← e]; exact this.2

theorem R.iterPrefix {m s} (r : R m s) (p : Bytes) :
    Mem.iterPrefix m p = (Spec.iterPrefix s p).map liftKV := by
  unfold Mem.iterPrefix Spec.iterPrefix
  have := r.sorted_keys (hasPrefix p)
  unfold keysM at this
  rw [this]
  exact r.entries _ (fun kv h => (List.mem_filter.mp h).1)

/-- on an ascending list, skipping the entries `< st` leaves exactly the entries `≥ st` -/
theorem dropWhile_eq_filter (st : Bytes) : ∀ (l : List (Bytes × Bytes)), Asc (l.map Prod.fst) →
    l.dropWhile (fun kv => blt kv.1 st) = l.filter (fun kv => !blt kv.1 st)
  | [], _ => rfl
  | x :: xs, h => by
    unfold Asc at h
    simp only [List.map_cons] at h
    have h' := List.pairwise_cons.mp h
    rw [List.dropWhile_cons]
    by_cases hx : blt x.1 st = true
    · simp only [hx, if_true]
      rw [List.filter_cons]
      simp only [hx, Bool.not_true]
      exact dropWhile_eq_filter st xs h'.2
    · simp only [hx]
      have hx' : blt x.1 st = false := by simpa using hx
      symm
      apply List.filter_eq_self.mpr
      intro kv hkv
      rcases List.mem_cons.mp hkv with e | hm
      · subst e; simp [hx']
      · have h1 : blt x.1 kv.1 = true := h'.1 kv.1 (List.mem_map.mpr ⟨kv, hm, rfl⟩)
        have h2 : ble st x.1 = true := (blt_false_iff _ _).mp hx'
        have h3 : blt st kv.1 = true := blt_of_ble_of_blt _ _ _ h2 h1
        have h4 : ble st kv.1 = true := ((blt_iff _ _).mp h3).1
        have : blt kv.1 st = false := (blt_false_iff _ _).mpr h4
        simp [this]

theorem seekIdx_head (st x : Bytes) (xs : List Bytes) (h : ble st x = true) : seekIdx st (x :: xs) = some 0 := by
  simp [seekIdx, h]

theorem R.iterWS_none {m s} (r : R m s) (p : Bytes) (rev : Bool) :
    Mem.iterWS m p none rev = ((Spec.iterWS s p none rev).1.map liftKV, (Spec.iterWS s p none rev).2.map liftKV) := by
  have hk := r.sorted_keys (fun k => hasPrefix p k && true)
  have hrange : Spec.iterPrefix s p = s.filter (fun kv => hasPrefix p kv.1 && true) := by
    unfold Spec.iterPrefix
    apply List.filter_congr
    intro kv _
    simp
  have hent := r.entries (s.filter (fun kv => hasPrefix p kv.1 && true)) (fun kv h => (List.mem_filter.mp h).1)
  unfold keysM at hk
  cases rev with
  | false =>
    simp only [Mem.iterWS, Mem.sortedKeys, Spec.iterWS, hrange, Option.map_none]
    rw [hk]
    simp only [Bool.false_eq_true, if_false]
    rw [hent]
  | true =>
    simp only [Mem.iterWS, Mem.sortedKeys, Spec.iterWS, hrange, Option.map_none]
    rw [hk]
    simp only [if_true]
    simp only [List.map_reverse]
    rw [hent]

theorem R.iterWS_forward {m s} (r : R m s) (p st : Bytes) :
    Mem.iterWS m p (some st) false =
      ((Spec.iterWS s p (some st) false).1.map liftKV, (Spec.iterWS s p (some st) false).2.map liftKV) := by
  have hk := r.sorted_keys (fun k => hasPrefix p k && !blt k st)
  unfold keysM at hk
  -- the abstract side: entries of the prefix range from `st` on
  have hrange : (Spec.iterPrefix s p).dropWhile (fun kv => blt kv.1 st)
      = s.filter (fun kv => hasPrefix p kv.1 && !blt kv.1 st) := by
    unfold Spec.iterPrefix
    rw [dropWhile_eq_filter st _ (asc_filter_keys s r.sorted _)]
    rw [List.filter_filter]
    apply List.filter_congr
    intro kv _
    exact Bool.and_comm _ _
  have hent := r.entries (s.filter (fun kv => hasPrefix p kv.1 && !blt kv.1 st)) (fun kv h => (List.mem_filter.mp h).1)
  simp only [Mem.iterWS, Mem.sortedKeys, Spec.iterWS, hrange]
  rw [hk]
  simp only [Bool.false_eq_true, if_false]
  cases hL : s.filter (fun kv => hasPrefix p kv.1 && !blt kv.1 st) with
  | nil => simp [seekIdx]
  | cons x xs =>
    have hx : ble st x.1 = true := by
      have : x ∈ s.filter (fun kv => hasPrefix p kv.1 && !blt kv.1 st) := by rw [hL]; simp
      have := (List.mem_filter.mp this).2
      have h2 : blt x.1 st = false := by
        cases hb : blt x.1 st with
        | false => rfl
        | true => rw [hb] at this; simp at this
      exact (blt_false_iff _ _).mp h2
    rw [hL] at hent
    simp only [List.map_cons] at hent ⊢
    rw [seekIdx_head st x.1 _ hx]
    have h1 := List.cons.inj hent
    simp only [List.drop_zero, List.head?_cons, Option.map_some, List.drop_succ_cons, h1.1, h1.2]

end BytomModel.Lemmas.KV
