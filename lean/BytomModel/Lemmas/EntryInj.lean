/-
Injectivity along the id DAG of a mapped transaction: result ids, input ids, mux id, header.
-/
import BytomModel.Lemmas.Entry

namespace BytomModel.Lemmas.Entry
open BytomModel.Codec BytomModel.Entry BytomModel.Lemmas.Codec

theorem tags_distinct :
    tRetirement ≠ tOriginalOutput ∧ tRetirement ≠ tVoteOutput ∧ tOriginalOutput ≠ tVoteOutput ∧
    tSpend ≠ tVeto ∧ tSpend ≠ tIssuance ∧ tSpend ≠ tCoinbase ∧ tVeto ≠ tIssuance ∧ tVeto ≠ tCoinbase ∧
    tIssuance ≠ tCoinbase := by decide

/-- size bounds under which an output's hashed fields are an injective encoding -/
structure WFOutV (o : TxOutput) : Prop where
  asset : (outAsset o).length = 32
  amount : outAmount o ≤ max64
  vm : outVM o ≤ max64
  prog : (outProg o).length ≤ max31
  state : WFList (outState o)
  vote : match o.typed with
    | .vote v => v.length ≤ max31
    | .original => True

/-- what the tx id commits to for one output: asset and amount always; kind (with the vote
    key), vm version, program and state data unless the output is a retirement -/
def outView (o : TxOutput) : Bytes × Nat × Option (TypedOutput × Nat × Bytes × List Bytes) :=
  (outAsset o, outAmount o, if isUnspendable (outProg o) then none else some (o.typed, outVM o, outProg o, outState o))

theorem valueSource_inj {ref ref' asset asset' : Bytes} {n n' p p' : Nat}
    (h1 : ref.length = 32) (h1' : ref'.length = 32) (h2 : asset.length = 32) (h2' : asset'.length = 32)
    (hn : n ≤ max64) (hn' : n' ≤ max64) (hp : p ≤ max64) (hp' : p' ≤ max64)
    (h : valueSource ref asset n p = valueSource ref' asset' n' p') :
    ref = ref' ∧ asset = asset' ∧ n = n' ∧ p = p' := by
  have := valueSource_app_inj (r := []) (r' := []) h1 h1' h2 h2' hn hn' hp hp' (by rw [List.append_nil, List.append_nil, h])
  exact ⟨this.1, this.2.1, this.2.2.1, this.2.2.2.1⟩

theorem originalOutputBody_inj {ref ref' asset asset' : Bytes} {n n' p p' vm vm' : Nat} {prog prog' : Bytes}
    {st st' : List Bytes}
    (h1 : ref.length = 32) (h1' : ref'.length = 32) (h2 : asset.length = 32) (h2' : asset'.length = 32)
    (hn : n ≤ max64) (hn' : n' ≤ max64) (hp : p ≤ max64) (hp' : p' ≤ max64)
    (hv : vm ≤ max64) (hv' : vm' ≤ max64) (hc : prog.length ≤ max31) (hc' : prog'.length ≤ max31)
    (hs : WFList st) (hs' : WFList st')
    (h : originalOutputBody (valueSource ref asset n p) vm prog st = originalOutputBody (valueSource ref' asset' n' p') vm' prog' st') :
    ref = ref' ∧ asset = asset' ∧ n = n' ∧ p = p' ∧ vm = vm' ∧ prog = prog' ∧ st = st' := by
  unfold originalOutputBody at h
  simp only [List.append_assoc] at h
  obtain ⟨a, b, c, d, h⟩ := valueSource_app_inj h1 h1' h2 h2' hn hn' hp hp' h
  obtain ⟨e, f, h⟩ := programBody_app_inj hv hv' hc hc' h
  have := encStrList_app_inj (r := []) (r' := []) hs hs' (by rw [List.append_nil, List.append_nil, h])
  exact ⟨a, b, c, d, e, f, this.1⟩

theorem voteOutputBody_inj {ref ref' asset asset' : Bytes} {n n' p p' vm vm' : Nat} {prog prog' vote vote' : Bytes}
    {st st' : List Bytes}
    (h1 : ref.length = 32) (h1' : ref'.length = 32) (h2 : asset.length = 32) (h2' : asset'.length = 32)
    (hn : n ≤ max64) (hn' : n' ≤ max64) (hp : p ≤ max64) (hp' : p' ≤ max64)
    (hv : vm ≤ max64) (hv' : vm' ≤ max64) (hc : prog.length ≤ max31) (hc' : prog'.length ≤ max31)
    (hvo : vote.length ≤ max31) (hvo' : vote'.length ≤ max31)
    (hs : WFList st) (hs' : WFList st')
    (h : voteOutputBody (valueSource ref asset n p) vm prog vote st = voteOutputBody (valueSource ref' asset' n' p') vm' prog' vote' st') :
    ref = ref' ∧ asset = asset' ∧ n = n' ∧ p = p' ∧ vm = vm' ∧ prog = prog' ∧ vote = vote' ∧ st = st' := by
  unfold voteOutputBody at h
  simp only [List.append_assoc] at h
  obtain ⟨a, b, c, d, h⟩ := valueSource_app_inj h1 h1' h2 h2' hn hn' hp hp' h
  obtain ⟨e, f, h⟩ := programBody_app_inj hv hv' hc hc' h
  obtain ⟨g, h⟩ := encVarstr_app_inj hvo hvo' h
  have := encStrList_app_inj (r := []) (r' := []) hs hs' (by rw [List.append_nil, List.append_nil, h])
  exact ⟨a, b, c, d, e, f, g, this.1⟩

/-- equal result ids: same mux, same position, same committed view of the output -/
theorem resultID_inj {H : Bytes → Bytes} (hH : Function.Injective H) (h32 : Hash32 H)
    {mux mux' : Bytes} {i i' : Nat} {o o' : TxOutput}
    (hm : mux.length = 32) (hm' : mux'.length = 32) (hi : i ≤ max64) (hi' : i' ≤ max64)
    (wo : WFOutV o) (wo' : WFOutV o')
    (h : resultID H mux i o = resultID H mux' i' o') :
    mux = mux' ∧ i = i' ∧ outView o = outView o' := by
  obtain ⟨d1, d2, d3, _⟩ := tags_distinct
  unfold resultID at h
  unfold outView
  by_cases hu : isUnspendable (outProg o) = true <;> by_cases hu' : isUnspendable (outProg o') = true
  · rw [if_pos hu, if_pos hu'] at h
    obtain ⟨_, hb⟩ := entryID_inj hH h32 h
    obtain ⟨a, b, c, d⟩ := valueSource_inj hm hm' wo.asset wo'.asset wo.amount wo'.amount hi hi' hb
    simp [hu, hu', a, b, c, d]
  · rw [if_pos hu, if_neg hu'] at h
    cases ht' : o'.typed with
    | original => rw [ht'] at h; exact absurd (entryID_inj hH h32 h).1 d1
    | vote v => rw [ht'] at h; exact absurd (entryID_inj hH h32 h).1 d2
  · rw [if_neg hu, if_pos hu'] at h
    cases ht : o.typed with
    | original => rw [ht] at h; exact absurd (entryID_inj hH h32 h).1.symm d1
    | vote v => rw [ht] at h; exact absurd (entryID_inj hH h32 h).1.symm d2
  · rw [if_neg hu, if_neg hu'] at h
    have wv := wo.vote
    have wv' := wo'.vote
    cases ht : o.typed with
    | original =>
      cases ht' : o'.typed with
      | original =>
        rw [ht, ht'] at h
        obtain ⟨_, hb⟩ := entryID_inj hH h32 h
        obtain ⟨a, b, c, d, e, f, g⟩ := originalOutputBody_inj hm hm' wo.asset wo'.asset wo.amount wo'.amount hi hi'
          wo.vm wo'.vm wo.prog wo'.prog wo.state wo'.state hb
        simp [hu, hu', a, b, c, d, e, f, g]
      | vote v' => rw [ht, ht'] at h; exact absurd (entryID_inj hH h32 h).1 d3
    | vote v =>
      cases ht' : o'.typed with
      | original => rw [ht, ht'] at h; exact absurd (entryID_inj hH h32 h).1.symm d3
      | vote v' =>
        rw [ht, ht'] at h
        rw [ht] at wv
        rw [ht'] at wv'
        obtain ⟨_, hb⟩ := entryID_inj hH h32 h
        obtain ⟨a, b, c, d, e, f, g, k⟩ := voteOutputBody_inj hm hm' wo.asset wo'.asset wo.amount wo'.amount hi hi'
          wo.vm wo'.vm wo.prog wo'.prog wv wv' wo.state wo'.state hb
        simp [hu, hu', a, b, c, d, e, f, g, k]

/-! ### lists of results, header -/

theorem resultIDs_inj {H : Bytes → Bytes} (hH : Function.Injective H) (h32 : Hash32 H)
    {mux mux' : Bytes} (hm : mux.length = 32) (hm' : mux'.length = 32) :
    ∀ (outs outs' : List TxOutput) (i : Nat), i + outs.length ≤ max64 → i + outs'.length ≤ max64 →
      (∀ o ∈ outs, WFOutV o) → (∀ o ∈ outs', WFOutV o) →
      resultIDs H mux i outs = resultIDs H mux' i outs' →
      outs.map outView = outs'.map outView ∧ (outs ≠ [] → mux = mux') := by
  intro outs
  induction outs with
  | nil =>
    intro outs' i _ _ _ _ h
    cases outs' with
    | nil => simp
    | cons o' r' => simp [resultIDs] at h
  | cons o r ih =>
    intro outs' i hb hb' w w' h
    cases outs' with
    | nil => simp [resultIDs] at h
    | cons o' r' =>
      simp only [resultIDs, List.cons.injEq] at h
      simp only [List.length_cons] at hb hb'
      obtain ⟨h1, h2⟩ := h
      obtain ⟨a, _, c⟩ := resultID_inj hH h32 hm hm' (by omega) (by omega) (w o (by simp)) (w' o' (by simp)) h1
      obtain ⟨d, _⟩ := ih r' (i + 1) (by omega) (by omega) (fun x hx => w x (by simp [hx])) (fun x hx => w' x (by simp [hx])) h2
      simp [c, d, a]

theorem flatten32_inj : ∀ (l l' : List Bytes), l.length = l'.length → (∀ x ∈ l, x.length = 32) → (∀ x ∈ l', x.length = 32) →
    l.flatten = l'.flatten → l = l' := by
  intro l
  induction l with
  | nil => intro l' hl _ _ _; cases l' with
    | nil => rfl
    | cons a b => simp at hl
  | cons x r ih =>
    intro l' hl w w' h
    cases l' with
    | nil => simp at hl
    | cons x' r' =>
      simp only [List.flatten_cons] at h
      obtain ⟨a, b⟩ := app_inj_left h (by rw [w x (by simp), w' x' (by simp)])
      rw [a, ih r' (by simpa using hl) (fun y hy => w y (by simp [hy])) (fun y hy => w' y (by simp [hy])) b]

theorem txHeaderBody_inj {v v' t t' : Nat} {res res' : List Bytes}
    (hv : v ≤ max64) (hv' : v' ≤ max64) (ht : t ≤ max64) (ht' : t' ≤ max64)
    (hl : res.length ≤ max63) (hl' : res'.length ≤ max63)
    (w : ∀ x ∈ res, x.length = 32) (w' : ∀ x ∈ res', x.length = 32)
    (h : txHeaderBody v t res = txHeaderBody v' t' res') : v = v' ∧ t = t' ∧ res = res' := by
  unfold txHeaderBody at h
  simp only [List.append_assoc] at h
  obtain ⟨a, h⟩ := le64_app_inj hv hv' h
  obtain ⟨b, h⟩ := le64_app_inj ht ht' h
  obtain ⟨c, h⟩ := putUvarint_app_inj hl hl' h
  exact ⟨a, b, flatten32_inj _ _ c w w' h⟩

/-! ### inputs -/

/-- size bounds under which a typed input's hashed fields are an injective encoding -/
def WFTypedV : TypedInput → Prop
  | .issuance _ amount _ vm prog _ => amount ≤ max64 ∧ vm ≤ max64 ∧ prog.length ≤ max31
  | .spend sc _ _ => sc.sourceID.length = 32 ∧ sc.assetID.length = 32 ∧ sc.amount ≤ max64 ∧ sc.sourcePos ≤ max64 ∧
      sc.vmVersion ≤ max64 ∧ sc.program.length ≤ max31 ∧ WFList sc.stateData
  | .coinbase arb => arb.length ≤ max31
  | .veto sc _ vote _ => sc.sourceID.length = 32 ∧ sc.assetID.length = 32 ∧ sc.amount ≤ max64 ∧ sc.sourcePos ≤ max64 ∧
      sc.vmVersion ≤ max64 ∧ sc.program.length ≤ max31 ∧ WFList sc.stateData ∧ vote.length ≤ max31

theorem sc_eq {a b : SpendCommitment} (h1 : a.sourceID = b.sourceID) (h2 : a.assetID = b.assetID) (h3 : a.amount = b.amount)
    (h4 : a.sourcePos = b.sourcePos) (h5 : a.vmVersion = b.vmVersion) (h6 : a.program = b.program)
    (h7 : a.stateData = b.stateData) : a = b := by
  cases a; cases b; simp only at *; subst h1 h2 h3 h4 h5 h6 h7; rfl

/-- equal input ids: same kind and same commitment (everything except arguments / suffixes) -/
theorem inputEntry_id_inj {H : Bytes → Bytes} (hH : Function.Injective H) (h32 : Hash32 H)
    {outs outs' : List TxOutput} {t t' : TypedInput} (w : WFTypedV t) (w' : WFTypedV t')
    (h : (inputEntry H outs t).1 = (inputEntry H outs' t').1) : stripTyped t = stripTyped t' := by
  obtain ⟨_, _, d3, d4, d5, d6, d7, d8, d9⟩ := tags_distinct
  cases t with
  | issuance nonce amount assetDef vm prog args =>
    cases t' with
    | issuance nonce' amount' assetDef' vm' prog' args' =>
      simp only [inputEntry] at h
      obtain ⟨_, hb⟩ := entryID_inj hH h32 h
      obtain ⟨hn, hb⟩ := app_inj_left hb (by rw [h32, h32])
      obtain ⟨ha, hb⟩ := app_inj_left hb (by unfold issuanceAssetID computeAssetID; rw [h32, h32])
      have hamt := le64_inj w.1 w'.1 hb
      have hnonce := hH hn
      unfold issuanceAssetID computeAssetID at ha
      have hbody := hH ha
      obtain ⟨hvm, hprog, hdef⟩ := programBody_app_inj w.2.1 w'.2.1 w.2.2 w'.2.2 hbody
      have hdef' := hH hdef
      simp [stripTyped, hnonce, hamt, hvm, hprog, hdef']
    | spend => simp only [inputEntry] at h; exact absurd (entryID_inj hH h32 h).1.symm d5
    | coinbase => simp only [inputEntry] at h; exact absurd (entryID_inj hH h32 h).1 d9
    | veto => simp only [inputEntry] at h; exact absurd (entryID_inj hH h32 h).1.symm d7
  | spend sc suf args =>
    cases t' with
    | issuance => simp only [inputEntry] at h; exact absurd (entryID_inj hH h32 h).1 d5
    | spend sc' suf' args' =>
      simp only [inputEntry, prevoutID] at h
      obtain ⟨_, hb⟩ := entryID_inj hH h32 h
      obtain ⟨_, hb⟩ := entryID_inj hH h32 hb
      obtain ⟨w1, w2, w3, w4, w5, w6, w7⟩ := w
      obtain ⟨v1, v2, v3, v4, v5, v6, v7⟩ := w'
      obtain ⟨a, b, c, d, e, f, g⟩ := originalOutputBody_inj w1 v1 w2 v2 w3 v3 w4 v4 w5 v5 w6 v6 w7 v7 hb
      simp [stripTyped, sc_eq a b c d e f g]
    | coinbase => simp only [inputEntry] at h; exact absurd (entryID_inj hH h32 h).1 d6
    | veto => simp only [inputEntry] at h; exact absurd (entryID_inj hH h32 h).1 d4
  | coinbase arb =>
    cases t' with
    | issuance => simp only [inputEntry] at h; exact absurd (entryID_inj hH h32 h).1.symm d9
    | spend => simp only [inputEntry] at h; exact absurd (entryID_inj hH h32 h).1.symm d6
    | coinbase arb' =>
      simp only [inputEntry] at h
      obtain ⟨_, hb⟩ := entryID_inj hH h32 h
      have := encVarstr_app_inj (r := []) (r' := []) w w' (by rw [List.append_nil, List.append_nil, hb])
      simp [stripTyped, this.1]
    | veto => simp only [inputEntry] at h; exact absurd (entryID_inj hH h32 h).1.symm d8
  | veto sc suf vote args =>
    cases t' with
    | issuance => simp only [inputEntry] at h; exact absurd (entryID_inj hH h32 h).1 d7
    | spend => simp only [inputEntry] at h; exact absurd (entryID_inj hH h32 h).1.symm d4
    | coinbase => simp only [inputEntry] at h; exact absurd (entryID_inj hH h32 h).1 d8
    | veto sc' suf' vote' args' =>
      simp only [inputEntry, prevoutID] at h
      obtain ⟨_, hb⟩ := entryID_inj hH h32 h
      obtain ⟨_, hb⟩ := entryID_inj hH h32 hb
      obtain ⟨w1, w2, w3, w4, w5, w6, w7, w8⟩ := w
      obtain ⟨v1, v2, v3, v4, v5, v6, v7, v8⟩ := w'
      obtain ⟨a, b, c, d, e, f, g, k⟩ := voteOutputBody_inj w1 v1 w2 v2 w3 v3 w4 v4 w5 v5 w6 v6 w8 v8 w7 v7 hb
      simp [stripTyped, sc_eq a b c d e f k, g]

/-! ### mux -/

theorem muxSources_inj : ∀ (l l' : List (Bytes × Bytes × Nat)) (r r' : Bytes), l.length = l'.length →
    (∀ s ∈ l, s.1.length = 32 ∧ s.2.1.length = 32 ∧ s.2.2 ≤ max64) →
    (∀ s ∈ l', s.1.length = 32 ∧ s.2.1.length = 32 ∧ s.2.2 ≤ max64) →
    (l.map (fun s => valueSource s.1 s.2.1 s.2.2 0)).flatten ++ r = (l'.map (fun s => valueSource s.1 s.2.1 s.2.2 0)).flatten ++ r' →
    l = l' := by
  intro l
  induction l with
  | nil => intro l' r r' hl _ _ _; cases l' with
    | nil => rfl
    | cons a b => simp at hl
  | cons s l ih =>
    intro l' r r' hl w w' h
    cases l' with
    | nil => simp at hl
    | cons s' l' =>
      simp only [List.map_cons, List.flatten_cons, List.append_assoc] at h
      obtain ⟨w1, w2, w3⟩ := w s (by simp)
      obtain ⟨v1, v2, v3⟩ := w' s' (by simp)
      obtain ⟨a, b, c, _, h⟩ := valueSource_app_inj w1 v1 w2 v2 w3 v3 (by unfold max64; omega) (by unfold max64; omega) h
      have hrest := ih l' r r' (by simpa using hl) (fun x hx => w x (by simp [hx])) (fun x hx => w' x (by simp [hx])) h
      have : s = s' := by
        obtain ⟨s1, s2, s3⟩ := s
        obtain ⟨t1, t2, t3⟩ := s'
        simp only at a b c
        subst a b c
        rfl
      rw [this, hrest]

theorem muxBody_inj {l l' : List (Bytes × Bytes × Nat)} (hl : l.length ≤ max63) (hl' : l'.length ≤ max63)
    (w : ∀ s ∈ l, s.1.length = 32 ∧ s.2.1.length = 32 ∧ s.2.2 ≤ max64)
    (w' : ∀ s ∈ l', s.1.length = 32 ∧ s.2.1.length = 32 ∧ s.2.2 ≤ max64)
    (h : muxBody l = muxBody l') : l = l' := by
  unfold muxBody at h
  simp only [List.append_assoc] at h
  obtain ⟨a, h⟩ := putUvarint_app_inj hl hl' h
  exact muxSources_inj l l' _ _ a w w' h

end BytomModel.Lemmas.Entry
