/-
The checkpoint tree of `Model/Node.lean`: membership lemmas relating `find`, `addChild`,
`update` to `flatten` (mutual structural induction over the nested inductive `Tree`).
-/
import BytomModel.Model.Node
import Mathlib.Data.List.Nodup
open BytomModel.Node

namespace BytomModel.Lemmas.NodeTree

@[simp] theorem flatten_node (c : Ckpt) (cs : List Tree) : (Tree.node c cs).flatten = c :: Tree.flattenList cs := by
  simp [Tree.flatten]
@[simp] theorem flattenList_nil : Tree.flattenList [] = [] := by simp [Tree.flattenList]
@[simp] theorem flattenList_cons (t : Tree) (ts : List Tree) :
    Tree.flattenList (t :: ts) = t.flatten ++ Tree.flattenList ts := by simp [Tree.flattenList]

mutual
theorem find_some (p : Ckpt → Bool) : ∀ (t : Tree) (r : Tree), t.find p = some r → p r.ckpt = true ∧ r.ckpt ∈ t.flatten
  | .node c cs, r, h => by
    simp only [Tree.find] at h
    split at h
    · rename_i hp
      simp only [Option.some.injEq] at h
      subst h
      exact ⟨hp, by simp [Tree.ckpt]⟩
    · obtain ⟨h1, h2⟩ := findList_some p cs r h
      exact ⟨h1, by simp [h2]⟩
theorem findList_some (p : Ckpt → Bool) : ∀ (ts : List Tree) (r : Tree), Tree.findList p ts = some r →
    p r.ckpt = true ∧ r.ckpt ∈ Tree.flattenList ts
  | [], r, h => by simp [Tree.findList] at h
  | t :: ts, r, h => by
    simp only [Tree.findList] at h
    split at h
    · rename_i r' hr
      simp only [Option.some.injEq] at h
      subst h
      obtain ⟨h1, h2⟩ := find_some p t _ hr
      exact ⟨h1, by simp [h2]⟩
    · obtain ⟨h1, h2⟩ := findList_some p ts r h
      exact ⟨h1, by simp [h2]⟩
end

mutual
theorem find_none (p : Ckpt → Bool) : ∀ (t : Tree), t.find p = none → ∀ c ∈ t.flatten, p c = false
  | .node c cs, h => by
    simp only [Tree.find] at h
    split at h
    · cases h
    · rename_i hp
      intro c' hc'
      simp only [flatten_node, List.mem_cons] at hc'
      rcases hc' with e | e
      · subst e; simpa using hp
      · exact findList_none p cs h c' e
theorem findList_none (p : Ckpt → Bool) : ∀ (ts : List Tree), Tree.findList p ts = none →
    ∀ c ∈ Tree.flattenList ts, p c = false
  | [], _ => by simp
  | t :: ts, h => by
    simp only [Tree.findList] at h
    split at h
    · cases h
    · rename_i hr
      intro c' hc'
      simp only [flattenList_cons, List.mem_append] at hc'
      rcases hc' with e | e
      · exact find_none p t hr c' e
      · exact findList_none p ts h c' e
end

theorem find_isSome_of_mem (p : Ckpt → Bool) (t : Tree) {c : Ckpt} (hc : c ∈ t.flatten) (hp : p c = true) :
    ∃ r, t.find p = some r := by
  cases h : t.find p with
  | some r => exact ⟨r, rfl⟩
  | none => have := find_none p t h c hc; rw [hp] at this; cases this

theorem flattenList_append (as bs : List Tree) :
    Tree.flattenList (as ++ bs) = Tree.flattenList as ++ Tree.flattenList bs := by
  induction as with
  | nil => simp
  | cons a as ih => simp [ih]

/-! #### `addChild` -/
mutual
theorem mem_addChild (p : Ckpt → Bool) (ch : Ckpt) : ∀ (t : Tree) (c' : Ckpt), c' ∈ (t.addChild p ch).flatten →
    c' ∈ t.flatten ∨ c' = ch
  | .node c cs, c', h => by
    simp only [Tree.addChild] at h
    split at h
    · simp only [flatten_node, flattenList_append, flattenList_cons, flattenList_nil, List.append_nil,
        List.mem_cons, List.mem_append, List.not_mem_nil, or_false] at h
      rcases h with e | e | e
      · exact Or.inl (by simp [e])
      · exact Or.inl (by simp [e])
      · exact Or.inr e
    · simp only [flatten_node, List.mem_cons] at h
      rcases h with e | e
      · exact Or.inl (by simp [e])
      · rcases mem_addChildList p ch cs c' e with e' | e'
        · exact Or.inl (by simp [e'])
        · exact Or.inr e'
theorem mem_addChildList (p : Ckpt → Bool) (ch : Ckpt) : ∀ (ts : List Tree) (c' : Ckpt),
    c' ∈ Tree.flattenList (Tree.addChildList p ch ts) → c' ∈ Tree.flattenList ts ∨ c' = ch
  | [], c', h => by simp [Tree.addChildList] at h
  | t :: ts, c', h => by
    simp only [Tree.addChildList] at h
    split at h
    · simp only [flattenList_cons, List.mem_append] at h
      rcases h with e | e
      · rcases mem_addChild p ch t c' e with e' | e'
        · exact Or.inl (by simp [e'])
        · exact Or.inr e'
      · exact Or.inl (by simp [e])
    · simp only [flattenList_cons, List.mem_append] at h
      rcases h with e | e
      · exact Or.inl (by simp [e])
      · rcases mem_addChildList p ch ts c' e with e' | e'
        · exact Or.inl (by simp [e'])
        · exact Or.inr e'
end

mutual
theorem mem_addChild_of_mem (p : Ckpt → Bool) (ch : Ckpt) : ∀ (t : Tree) (c' : Ckpt), c' ∈ t.flatten →
    c' ∈ (t.addChild p ch).flatten
  | .node c cs, c', h => by
    simp only [Tree.addChild]
    simp only [flatten_node, List.mem_cons] at h
    split
    · simp only [flatten_node, flattenList_append, List.mem_cons, List.mem_append]
      rcases h with e | e
      · exact Or.inl e
      · exact Or.inr (Or.inl e)
    · simp only [flatten_node, List.mem_cons]
      rcases h with e | e
      · exact Or.inl e
      · exact Or.inr (mem_addChildList_of_mem p ch cs c' e)
theorem mem_addChildList_of_mem (p : Ckpt → Bool) (ch : Ckpt) : ∀ (ts : List Tree) (c' : Ckpt),
    c' ∈ Tree.flattenList ts → c' ∈ Tree.flattenList (Tree.addChildList p ch ts)
  | [], c', h => by simp at h
  | t :: ts, c', h => by
    simp only [Tree.addChildList]
    simp only [flattenList_cons, List.mem_append] at h
    split
    · simp only [flattenList_cons, List.mem_append]
      rcases h with e | e
      · exact Or.inl (mem_addChild_of_mem p ch t c' e)
      · exact Or.inr e
    · simp only [flattenList_cons, List.mem_append]
      rcases h with e | e
      · exact Or.inl e
      · exact Or.inr (mem_addChildList_of_mem p ch ts c' e)
end

mutual
theorem new_mem_addChild (p : Ckpt → Bool) (ch : Ckpt) : ∀ (t : Tree), (∃ c0 ∈ t.flatten, p c0 = true) →
    ch ∈ (t.addChild p ch).flatten
  | .node c cs, h => by
    simp only [Tree.addChild]
    split
    · simp [flattenList_append]
    · rename_i hp
      obtain ⟨c0, hm, hp0⟩ := h
      simp only [flatten_node, List.mem_cons] at hm
      rcases hm with e | e
      · subst e; exact absurd hp0 hp
      · simp only [flatten_node, List.mem_cons]
        exact Or.inr (new_mem_addChildList p ch cs ⟨c0, e, hp0⟩)
theorem new_mem_addChildList (p : Ckpt → Bool) (ch : Ckpt) : ∀ (ts : List Tree),
    (∃ c0 ∈ Tree.flattenList ts, p c0 = true) → ch ∈ Tree.flattenList (Tree.addChildList p ch ts)
  | [], h => by obtain ⟨_, hm, _⟩ := h; simp at hm
  | t :: ts, h => by
    simp only [Tree.addChildList]
    split
    · rename_i r hr
      obtain ⟨h1, h2⟩ := find_some p t r hr
      simp only [flattenList_cons, List.mem_append]
      exact Or.inl (new_mem_addChild p ch t ⟨_, h2, h1⟩)
    · rename_i hr
      obtain ⟨c0, hm, hp0⟩ := h
      simp only [flattenList_cons, List.mem_append] at hm ⊢
      rcases hm with e | e
      · have := find_none p t hr c0 e
        rw [hp0] at this; cases this
      · exact Or.inr (new_mem_addChildList p ch ts ⟨c0, e, hp0⟩)
end

/-! #### `update` -/
mutual
theorem mem_update (p : Ckpt → Bool) (f : Ckpt → Ckpt) : ∀ (t : Tree) (c' : Ckpt), c' ∈ (t.update p f).flatten →
    c' ∈ t.flatten ∨ ∃ c0 ∈ t.flatten, p c0 = true ∧ c' = f c0
  | .node c cs, c', h => by
    simp only [Tree.update] at h
    split at h
    · rename_i hp
      simp only [flatten_node, List.mem_cons] at h
      rcases h with e | e
      · exact Or.inr ⟨c, by simp, hp, e⟩
      · exact Or.inl (by simp [e])
    · simp only [flatten_node, List.mem_cons] at h
      rcases h with e | e
      · exact Or.inl (by simp [e])
      · rcases mem_updateList p f cs c' e with e' | ⟨c0, hm, hp0, e'⟩
        · exact Or.inl (by simp [e'])
        · exact Or.inr ⟨c0, by simp [hm], hp0, e'⟩
theorem mem_updateList (p : Ckpt → Bool) (f : Ckpt → Ckpt) : ∀ (ts : List Tree) (c' : Ckpt),
    c' ∈ Tree.flattenList (Tree.updateList p f ts) →
    c' ∈ Tree.flattenList ts ∨ ∃ c0 ∈ Tree.flattenList ts, p c0 = true ∧ c' = f c0
  | [], c', h => by simp [Tree.updateList] at h
  | t :: ts, c', h => by
    simp only [Tree.updateList] at h
    split at h
    · simp only [flattenList_cons, List.mem_append] at h
      rcases h with e | e
      · rcases mem_update p f t c' e with e' | ⟨c0, hm, hp0, e'⟩
        · exact Or.inl (by simp [e'])
        · exact Or.inr ⟨c0, by simp [hm], hp0, e'⟩
      · exact Or.inl (by simp [e])
    · simp only [flattenList_cons, List.mem_append] at h
      rcases h with e | e
      · exact Or.inl (by simp [e])
      · rcases mem_updateList p f ts c' e with e' | ⟨c0, hm, hp0, e'⟩
        · exact Or.inl (by simp [e'])
        · exact Or.inr ⟨c0, by simp [hm], hp0, e'⟩
end

mutual
theorem mem_update_of_mem (p : Ckpt → Bool) (f : Ckpt → Ckpt) : ∀ (t : Tree) (c' : Ckpt), c' ∈ t.flatten →
    p c' = false → c' ∈ (t.update p f).flatten
  | .node c cs, c', h, hp' => by
    simp only [Tree.update]
    simp only [flatten_node, List.mem_cons] at h
    split
    · rename_i hp
      simp only [flatten_node, List.mem_cons]
      rcases h with e | e
      · subst e; rw [hp'] at hp; cases hp
      · exact Or.inr e
    · simp only [flatten_node, List.mem_cons]
      rcases h with e | e
      · exact Or.inl e
      · exact Or.inr (mem_updateList_of_mem p f cs c' e hp')
theorem mem_updateList_of_mem (p : Ckpt → Bool) (f : Ckpt → Ckpt) : ∀ (ts : List Tree) (c' : Ckpt),
    c' ∈ Tree.flattenList ts → p c' = false → c' ∈ Tree.flattenList (Tree.updateList p f ts)
  | [], c', h, _ => by simp at h
  | t :: ts, c', h, hp' => by
    simp only [Tree.updateList]
    simp only [flattenList_cons, List.mem_append] at h
    split
    · simp only [flattenList_cons, List.mem_append]
      rcases h with e | e
      · exact Or.inl (mem_update_of_mem p f t c' e hp')
      · exact Or.inr e
    · simp only [flattenList_cons, List.mem_append]
      rcases h with e | e
      · exact Or.inl e
      · exact Or.inr (mem_updateList_of_mem p f ts c' e hp')
end

mutual
theorem new_mem_update (p : Ckpt → Bool) (f : Ckpt → Ckpt) : ∀ (t : Tree), (∃ c0 ∈ t.flatten, p c0 = true) →
    ∃ c0 ∈ t.flatten, p c0 = true ∧ f c0 ∈ (t.update p f).flatten
  | .node c cs, h => by
    simp only [Tree.update]
    split
    · rename_i hp
      exact ⟨c, by simp, hp, by simp⟩
    · rename_i hp
      obtain ⟨c0, hm, hp0⟩ := h
      simp only [flatten_node, List.mem_cons] at hm
      rcases hm with e | e
      · subst e; exact absurd hp0 hp
      · obtain ⟨c1, hm1, hp1, h1⟩ := new_mem_updateList p f cs ⟨c0, e, hp0⟩
        exact ⟨c1, by simp [hm1], hp1, by simp [h1]⟩
theorem new_mem_updateList (p : Ckpt → Bool) (f : Ckpt → Ckpt) : ∀ (ts : List Tree),
    (∃ c0 ∈ Tree.flattenList ts, p c0 = true) →
    ∃ c0 ∈ Tree.flattenList ts, p c0 = true ∧ f c0 ∈ Tree.flattenList (Tree.updateList p f ts)
  | [], h => by obtain ⟨_, hm, _⟩ := h; simp at hm
  | t :: ts, h => by
    simp only [Tree.updateList]
    split
    · rename_i r hr
      obtain ⟨h1, h2⟩ := find_some p t r hr
      obtain ⟨c1, hm1, hp1, h3⟩ := new_mem_update p f t ⟨_, h2, h1⟩
      exact ⟨c1, by simp [hm1], hp1, by simp [h3]⟩
    · rename_i hr
      obtain ⟨c0, hm, hp0⟩ := h
      simp only [flattenList_cons, List.mem_append] at hm
      rcases hm with e | e
      · have := find_none p t hr c0 e
        rw [hp0] at this; cases this
      · obtain ⟨c1, hm1, hp1, h3⟩ := new_mem_updateList p f ts ⟨c0, e, hp0⟩
        exact ⟨c1, by simp [hm1], hp1, by simp [h3]⟩
end

end BytomModel.Lemmas.NodeTree
