/-
C23 helper layer 4: the hypothesis `BaseSound` (LedgerSound) of `Lemmas/NodePoolInv` follows from
pc10's C10 invariant: if the persisted tables were reached by a history ending on the chain `C`
(`Lemmas.Ledger.Reach`, preserved by every node step: C10 `settle_preserves_reach`) and `C` is
the list of main-chain blocks, then every input of a confirmed transaction is unspendable in the
persisted utxo set (`Good`: spent or deleted or garbage) and was created by a transaction of `C`
(`Struct`).
-/
import BytomModel.Lemmas.NodePoolInv
import BytomModel.Lemmas.LedgerNode

namespace BytomModel.Lemmas.PoolLedgerBridge
open BytomModel.Ledger BytomModel.Node BytomModel.NodeLedger BytomModel.NodePool
open BytomModel.Lemmas.Ledger BytomModel.Lemmas.NodePoolInv

theorem saveView_nodup (db v : View) (h : NodupKeys db) : NodupKeys (saveView db v) := by
  unfold saveView
  apply BytomModel.Lemmas.TxPool.foldl_inv (fun d => NodupKeys d)
  · exact h
  · rintro d ⟨k, e⟩ _ hd
    simp only
    split
    · rw [vdel_eq]; exact nodupKeys_adel hd k
    · rw [vset_eq]; exact nodupKeys_aset hd k e

/-- the persisted utxo table of a reached ledger has unique keys (it is a key-value store) -/
theorem reach_nodup {p : Params} {kindOf : Nat → OutKind} {C : List Blk} {st : View × CMap}
    (h : Reach p kindOf C st) : NodupKeys st.1 := by
  induction h with
  | genesis => exact nodupKeys_nil
  | reorg _ _ _ _ _ hcore ih =>
    unfold reorgCore at hcore
    split at hcore
    · cases hcore
    · cases hcore
      exact saveView_nodup _ _ ih

theorem mem_flat {C : List Blk} {pt : PT} (h : pt ∈ flat C) : ∃ B ∈ C, pt ∈ posTxs B.1 true B.2 := by
  unfold flat at h
  exact List.mem_flatMap.mp h

theorem posTxs_tx_mem {h : Nat} {f : Bool} {txs : List Tx} {pt : PT} (hm : pt ∈ posTxs h f txs) : pt.tx ∈ txs := by
  rw [← posTxs_map_tx h f txs]
  exact List.mem_map.mpr ⟨pt, hm, rfl⟩

theorem mem_posTxs_of_mem {h : Nat} {f : Bool} {txs : List Tx} {t : Tx} (hm : t ∈ txs) : ∃ pt ∈ posTxs h f txs, pt.tx = t := by
  rw [← posTxs_map_tx h f txs] at hm
  obtain ⟨pt, hpt, he⟩ := List.mem_map.mp hm
  exact ⟨pt, hpt, he⟩

theorem ins_sub_spentIds {C : List Blk} {B : Blk} {t : Tx} (hB : B ∈ C) (ht : t ∈ B.2) : ∀ o ∈ t.ins, o ∈ spentIds (flat C) := by
  intro o ho
  obtain ⟨pt, hpt, he⟩ := mem_posTxs_of_mem (h := B.1) (f := true) ht
  unfold spentIds
  refine List.mem_flatMap.mpr ⟨pt, ?_, by rw [he]; exact ho⟩
  unfold flat
  exact List.mem_flatMap.mpr ⟨B, hB, hpt⟩

/-- an input of a chain transaction was created by the chain -/
theorem structFrom_created : ∀ (L pre : List PT), StructFrom pre L → ∀ pt ∈ L, ∀ k ∈ pt.tx.ins, k ∈ keys (created (pre ++ L))
  | [], _, _, pt, hpt, _, _ => by cases hpt
  | x :: xs, pre, hs, pt, hpt, k, hk => by
    obtain ⟨hc, hrest⟩ := hs
    simp only [List.mem_cons] at hpt
    rcases hpt with h1 | h1
    · subst h1
      have := (hc.2 k hk).1
      rw [created_append]
      unfold keys at this ⊢
      rw [List.map_append]
      exact List.mem_append_left _ this
    · have := structFrom_created xs (pre ++ [x]) hrest pt h1 k hk
      simpa using this

theorem struct_created {L : List PT} (hs : Struct L) : ∀ pt ∈ L, ∀ k ∈ pt.tx.ins, k ∈ keys (created L) := by
  have := structFrom_created L [] hs
  simpa using this

/-- every input of a chain transaction is NOT offered for spending by a reached ledger -/
theorem input_not_spendable {L : List PT} {utxo : View} (hn : NodupKeys utxo) (hg : Good L (vget utxo))
    {o : Nat} (ho : o ∈ spentIds L) :
    ((utxo.filter (fun p => !p.2.spent)).map (·.1)).contains o = false := by
  cases hc : ((utxo.filter (fun p => !p.2.spent)).map (·.1)).contains o with
  | false => rfl
  | true =>
    exfalso
    have hm : o ∈ (utxo.filter (fun p => !p.2.spent)).map (·.1) := by simpa using hc
    obtain ⟨pe, hpe, hk⟩ := List.mem_map.mp hm
    obtain ⟨hin, hus⟩ := List.mem_filter.mp hpe
    obtain ⟨k, e⟩ := pe
    simp only at hk hus
    subst hk
    have hget : vget utxo k = some e := by rw [vget_eq]; exact aget_of_mem_nodup hn hin
    have hunspent : e.spent = false := by simpa using hus
    by_cases hcr : k ∈ keys (created L)
    · obtain ⟨pe0, hpe0, hk0⟩ := List.mem_map.mp hcr
      obtain ⟨k0, e0⟩ := pe0
      simp only at hk0
      subst hk0
      by_cases ht : e0.typ = 1 ∨ e0.typ = 2
      · have := hg.spentC k0 e0 hpe0 ho ht
        rw [hget] at this
        have h2 : e = { e0 with spent := true } := Option.some.inj this
        rw [h2] at hunspent
        cases hunspent
      · rcases hg.spentN k0 e0 hpe0 ho ht with h1 | ⟨e', h1, h2, _⟩
        · rw [hget] at h1; cases h1
        · rw [hget] at h1
          rw [Option.some.inj h1, h2] at hunspent
          cases hunspent
    · rcases hg.garbage k hcr with h1 | ⟨e', h1, h2⟩
      · rw [hget] at h1; cases h1
      · rw [hget] at h1
        rw [Option.some.inj h1, h2] at hunspent
        cases hunspent

/-- **LedgerSound from C10.**  `C` is the main chain as a list of (height, transactions); the
    persisted tables were reached by a history ending on `C`; the chain is shaped like a chain of
    valid blocks (universe transactions, the first transaction of a block has no inputs, the
    others have some). -/
theorem baseSound_of_reach {UL : List Ledger.Tx} (wf : WFL UL) (b : NodeLedger.State) (C : List Blk)
    (hreach : Reach b.params b.kindOf C (b.utxo, b.contracts))
    (hC : C.map (·.2) = (mainBlocks b.node).map b.txsOf)
    (hUL : ∀ B ∈ C, ∀ t ∈ B.2, t ∈ UL)
    (hcb : ∀ B ∈ C, ∀ t ∈ B.2.head?, t.ins = [])
    (hne : ∀ B ∈ C, ∀ t ∈ B.2.drop 1, t.ins ≠ []) : BaseSound UL b := by
  have inv := reach_inv hreach
  have hn : NodupKeys b.utxo := reach_nodup hreach
  -- a block of the main chain is a block of `C`
  have hblk : ∀ blk ∈ mainBlocks b.node, ∃ B ∈ C, B.2 = b.txsOf blk := by
    intro blk hb
    have : b.txsOf blk ∈ C.map (·.2) := by rw [hC]; exact List.mem_map.mpr ⟨blk, hb, rfl⟩
    obtain ⟨B, hB, he⟩ := List.mem_map.mp this
    exact ⟨B, hB, he⟩
  have hblk' : ∀ B ∈ C, ∃ blk ∈ mainBlocks b.node, b.txsOf blk = B.2 := by
    intro B hB
    have : B.2 ∈ (mainBlocks b.node).map b.txsOf := by rw [← hC]; exact List.mem_map.mpr ⟨B, hB, rfl⟩
    obtain ⟨blk, hb, he⟩ := List.mem_map.mp this
    exact ⟨blk, hb, he⟩
  intro t ht
  obtain ⟨blk, hb, htb⟩ := List.mem_flatMap.mp ht
  obtain ⟨B, hB, hBe⟩ := hblk blk hb
  have htB : t ∈ B.2.drop 1 := hBe ▸ htb
  have htB' : t ∈ B.2 := List.mem_of_mem_drop htB
  refine ⟨hUL B hB t htB', ?_⟩
  have hins := hne B hB t htB
  obtain ⟨o, ho⟩ := List.exists_mem_of_ne_nil _ hins
  refine ⟨o, ho, ?_, ?_⟩
  · exact input_not_spendable hn inv.good (ins_sub_spentIds hB htB' o ho)
  · intro t' ht' hne' hcre
    -- the creator of `o` in the chain
    obtain ⟨pt, hpt, hptx⟩ := mem_posTxs_of_mem (h := B.1) (f := true) htB'
    have hptC : pt ∈ flat C := by unfold flat; exact List.mem_flatMap.mpr ⟨B, hB, hpt⟩
    have hk := struct_created inv.struct pt hptC o (by rw [hptx]; exact ho)
    obtain ⟨pe, hpe, hke⟩ := List.mem_map.mp hk
    obtain ⟨k0, e0⟩ := pe
    simp only at hke
    subst hke
    obtain ⟨_, cpt, hcpt, co, hco, hcoid, _⟩ := created_facts hpe
    obtain ⟨B', hB', hcptB⟩ := mem_flat hcpt
    have hctx : cpt.tx ∈ B'.2 := posTxs_tx_mem hcptB
    obtain ⟨out, hout, houtid⟩ := List.mem_map.mp hcre
    have heq : t' = cpt.tx := (wf.outOwn t' ht' cpt.tx (hUL B' hB' _ hctx) out hout co hco (houtid.trans hcoid.symm)).1
    -- `t'` has inputs, so it is not the first transaction of its block
    have hdrop : t' ∈ B'.2.drop 1 := by
      rw [heq]
      cases hl : B'.2 with
      | nil => rw [hl] at hctx; cases hctx
      | cons hd tl =>
        rw [hl] at hctx
        simp only [List.mem_cons] at hctx
        rcases hctx with h1 | h1
        · exfalso
          have := hcb B' hB' hd (by rw [hl]; rfl)
          rw [← h1, ← heq] at this
          exact hne' this
        · simpa using h1
    obtain ⟨blk', hb', hbe'⟩ := hblk' B' hB'
    exact mem_confirmedIds.mpr ⟨blk', hb', t', hbe' ▸ hdrop, rfl⟩

end BytomModel.Lemmas.PoolLedgerBridge
