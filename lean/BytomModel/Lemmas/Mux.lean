/-
C27: the balance part of validation (`muxCheck`) accepts every list of sources / destinations
that balances per asset, and hands the BTM surplus to setGas.
-/
import BytomModel.Model.Builder
import Mathlib.Data.List.Basic
import Mathlib.Data.List.Nodup
import Mathlib.Tactic.Linarith

set_option linter.unusedSimpArgs false
set_option linter.unusedVariables false

namespace BytomModel.Lemmas.Mux
open BytomModel.Model.Keeper BytomModel.Model.Builder

/-- total amount of asset `a` in a list of (asset, amount) -/
def S (a : Nat) : List (Nat × Nat) → Nat
  | [] => 0
  | x :: rest => (if x.1 = a then x.2 else 0) + S a rest

theorem distinctIds_of_nodup : ∀ (l : List Nat), l.Nodup → muxCheck.distinctIds l = true := by
  intro l
  induction l with
  | nil => intro _; rfl
  | cons x r ih =>
    intro h
    rw [List.nodup_cons] at h
    simp [muxCheck.distinctIds, h.1, ih h.2]

/-- the source loop: no overflow ⇒ parity holds the per-asset totals -/
theorem fold_addSrc : ∀ (srcs : List (Nat × Nat)) (p : Nat → Option Int),
    (∀ a, 0 ≤ (p a).getD 0) → (∀ a, (p a).getD 0 + (S a srcs : Int) ≤ (maxInt64 : Int)) →
    ∃ p', foldE addSrc srcs p = .ok p' ∧
      ∀ a, p' a = if a ∈ srcs.map (·.1) then some ((p a).getD 0 + (S a srcs : Int)) else p a := by
  intro srcs
  induction srcs with
  | nil => intro p _ _; exact ⟨p, rfl, fun a => by simp⟩
  | cons s rest ih =>
    intro p hp hb
    have hs := hb s.1
    have hnn : (0 : Int) ≤ (S s.1 rest : Int) := Int.natCast_nonneg _
    have hp1 := hp s.1
    simp only [S, if_true, Nat.cast_add] at hs
    have c1 : ¬ s.2 > maxInt64 := by
      intro hc
      have : ((maxInt64 : Nat) : Int) < (s.2 : Int) := by exact_mod_cast hc
      omega
    have c2 : ¬ ((p s.1).getD 0 + (s.2 : Int) > (maxInt64 : Int)) := by omega
    set p1 : Nat → Option Int := fun a => if a = s.1 then some ((p s.1).getD 0 + (s.2 : Int)) else p a with hp1def
    have hstep : addSrc p s = .ok p1 := by
      unfold addSrc
      simp only [c1, if_false, c2]
      rfl
    obtain ⟨p', hp', hspec⟩ := ih p1
      (by
        intro a
        by_cases ha : a = s.1
        · simp only [hp1def, ha, if_true, Option.getD_some]
          have : (0 : Int) ≤ (s.2 : Int) := Int.natCast_nonneg _
          omega
        · simp only [hp1def, ha, if_false]; exact hp a)
      (by
        intro a
        by_cases ha : a = s.1
        · simp only [hp1def, ha, if_true, Option.getD_some]
          omega
        · have := hb a
          have e : s.1 ≠ a := fun x => ha x.symm
          simp only [S, e, if_false, Nat.zero_add] at this
          simp only [hp1def, ha, if_false]; exact this)
    refine ⟨p', ?_, ?_⟩
    · simp only [foldE, hstep]; exact hp'
    · intro a
      rw [hspec a]
      by_cases ha : a = s.1
      · subst ha
        simp only [hp1def, if_true, Option.getD_some, List.map_cons, List.mem_cons, true_or, S, Nat.cast_add]
        by_cases hm : s.1 ∈ rest.map (·.1)
        · simp only [hm, if_true]; congr 1; omega
        · have hz : S s.1 rest = 0 := by
            clear * - hm
            induction rest with
            | nil => rfl
            | cons y ys ihy =>
              simp only [List.map_cons, List.mem_cons, not_or] at hm
              have : ¬ y.1 = s.1 := fun x => hm.1 x.symm
              simp [S, this, ihy hm.2]
          simp only [hm, if_false, hz]; simp
      · have e : s.1 ≠ a := fun x => ha x.symm
        simp only [hp1def, ha, if_false, List.map_cons, List.mem_cons, false_or, S, e, Nat.zero_add]

/-- the destination loop: every destination asset has a source and nothing underflows ⇒ parity
    is decreased by the per-asset totals -/
theorem fold_subDst : ∀ (dsts : List (Nat × Nat)) (p : Nat → Option Int),
    (∀ d ∈ dsts, (p d.1).isSome = true) → (∀ d ∈ dsts, d.2 ≤ maxInt64) →
    (∀ a v, p a = some v → minInt64 ≤ v - (S a dsts : Int)) →
    ∃ p', foldE subDst dsts p = .ok p' ∧ ∀ a, p' a = (p a).map (fun v => v - (S a dsts : Int)) := by
  intro dsts
  induction dsts with
  | nil => intro p _ _ _; exact ⟨p, rfl, fun a => by cases p a <;> simp [S]⟩
  | cons d rest ih =>
    intro p hsome hmax hlow
    have h1 := hsome d (List.mem_cons_self)
    cases hpd : p d.1 with
    | none => rw [hpd] at h1; simp at h1
    | some sum =>
      have c1 : ¬ d.2 > maxInt64 := by have := hmax d (List.mem_cons_self); omega
      have hl := hlow d.1 sum hpd
      simp only [S, if_true, Nat.cast_add] at hl
      have hnn : (0 : Int) ≤ (S d.1 rest : Int) := Int.natCast_nonneg _
      have c2 : ¬ (sum - (d.2 : Int) < minInt64) := by omega
      set p1 : Nat → Option Int := fun a => if a = d.1 then some (sum - (d.2 : Int)) else p a with hp1def
      have hstep : subDst p d = .ok p1 := by
        unfold subDst
        simp only [hpd, c1, if_false, c2]
        rfl
      obtain ⟨p', hp', hspec⟩ := ih p1
        (by
          intro x hx
          by_cases hxa : x.1 = d.1
          · simp [hp1def, hxa]
          · simp only [hp1def, hxa, if_false]; exact hsome x (List.mem_cons_of_mem _ hx))
        (fun x hx => hmax x (List.mem_cons_of_mem _ hx))
        (by
          intro a v hv
          by_cases ha : a = d.1
          · simp only [hp1def, ha, if_true, Option.some.injEq] at hv
            subst hv; rw [ha]; omega
          · simp only [hp1def, ha, if_false] at hv
            have := hlow a v hv
            have e : d.1 ≠ a := fun x => ha x.symm
            simp only [S, e, if_false, Nat.zero_add] at this
            exact this)
      refine ⟨p', ?_, ?_⟩
      · simp only [foldE, hstep]; exact hp'
      · intro a
        rw [hspec a]
        by_cases ha : a = d.1
        · subst ha
          simp only [hp1def, if_true, hpd, Option.map_some, S, Nat.cast_add]
          congr 1; omega
        · have e : d.1 ≠ a := fun x => ha x.symm
          simp only [hp1def, ha, if_false, S, e, Nat.zero_add]

/-- `mux_accepts_balanced`: distinct inputs, per-asset source totals within int64, every
    non-BTM asset balanced, BTM sources ≥ destinations, every destination positive ⇒ the
    balance checks pass and setGas receives BTM sources − destinations. -/
theorem mux_accepts_balanced (inIds : List Nat) (srcs dsts : List (Nat × Nat))
    (hnd : inIds.Nodup)
    (hfit : ∀ a, S a srcs ≤ maxInt64)
    (hbal : ∀ a, a ≠ btm → S a srcs = S a dsts)
    (hbtm : S btm dsts ≤ S btm srcs)
    (hpos : ∀ d ∈ dsts, 0 < d.2) :
    muxCheck inIds srcs dsts = .ok ((S btm srcs : Int) - (S btm dsts : Int)) := by
  -- a destination's amount is part of its asset's total
  have hmemS : ∀ (l : List (Nat × Nat)) (d : Nat × Nat), d ∈ l → d.2 ≤ S d.1 l := by
    intro l
    induction l with
    | nil => intro d hd; simp at hd
    | cons y ys ih =>
      intro d hd
      rcases List.mem_cons.mp hd with rfl | hd'
      · simp [S]
      · have := ih d hd'; simp only [S]; omega
  have hzero : ∀ (l : List (Nat × Nat)) (a : Nat), a ∉ l.map (·.1) → S a l = 0 := by
    intro l
    induction l with
    | nil => intro a _; rfl
    | cons y ys ih =>
      intro a hm
      simp only [List.map_cons, List.mem_cons, not_or] at hm
      have : ¬ y.1 = a := fun x => hm.1 x.symm
      simp [S, this, ih a hm.2]
  have hle : ∀ a, S a dsts ≤ S a srcs := by
    intro a
    by_cases ha : a = btm
    · subst ha; exact hbtm
    · rw [hbal a ha]
  -- every destination asset has a source
  have hsrc : ∀ d ∈ dsts, d.1 ∈ srcs.map (·.1) := by
    intro d hd
    by_contra hn
    have h0 := hzero srcs d.1 hn
    have h1 := hmemS dsts d hd
    have h2 := hle d.1
    have h3 := hpos d hd
    omega
  obtain ⟨p1, hp1, hs1⟩ := fold_addSrc srcs (fun _ => none) (fun _ => by simp)
    (fun a => by
      have := hfit a
      simp only [Option.getD_none, Int.zero_add]
      exact_mod_cast this)
  obtain ⟨p2, hp2, hs2⟩ := fold_subDst dsts p1
    (fun d hd => by rw [hs1 d.1]; simp [hsrc d hd])
    (fun d hd => by
      have h1 := hmemS dsts d hd
      have h2 := hle d.1
      have h3 := hfit d.1
      omega)
    (fun a v hv => by
      rw [hs1 a] at hv
      split_ifs at hv with hm
      · simp only [Option.getD_none, Int.zero_add, Option.some.injEq] at hv
        subst hv
        have : (S a dsts : Int) ≤ (S a srcs : Int) := by exact_mod_cast hle a
        have : (0 : Int) ≤ (S a srcs : Int) := Int.natCast_nonneg _
        unfold minInt64; omega)
  unfold muxCheck
  simp only [distinctIds_of_nodup inIds hnd, Bool.not_true, Bool.false_eq_true, if_false, hp1, hp2]
  have hval : ∀ a, a ∈ srcs.map (·.1) → p2 a = some ((S a srcs : Int) - (S a dsts : Int)) := by
    intro a ha
    rw [hs2 a, hs1 a]
    simp [ha]
  have hany : (srcs.map (·.1)).any (fun a => a != btm && p2 a != some 0) = false := by
    rw [List.any_eq_false]
    intro a ha
    by_cases hb : a = btm
    · simp [hb]
    · have := hval a ha
      rw [hbal a hb] at this
      simp [this]
  simp only [hany, Bool.false_eq_true, if_false]
  by_cases hm : btm ∈ srcs.map (·.1)
  · rw [hval btm hm]
    have : ¬ ((S btm srcs : Int) - (S btm dsts : Int) < 0) := by
      have : (S btm dsts : Int) ≤ (S btm srcs : Int) := by exact_mod_cast hbtm
      omega
    simp only [this, if_false]
  · have h0 := hzero srcs btm hm
    have h1 : S btm dsts = 0 := by omega
    have : p2 btm = none := by rw [hs2 btm, hs1 btm]; simp [hm]
    rw [this, h0, h1]
    simp

end BytomModel.Lemmas.Mux
